import ObiVerif.Model.Apat
import ObiVerif.Lemmas.Apat
import ObiVerif.Lemmas.ApatLocate
import ObiVerif.Lemmas.ApatIndel
import ObiVerif.Lemmas.ApatComp
import ObiVerif.Lemmas.ApatIndelOblig
import ObiVerif.Lemmas.ApatBest
import ObiVerif.Lemmas.ApatGrammar
/-!
# C10 — primer pattern matching reports exactly the matching positions and error counts (property theorems)

Model: `ObiVerif.Apat` (`Model/Apat.lean`), a transcription of the C matcher (`apat_parse.c`, `apat_search.c`,
`obiapat.c`) and of its Go layer (`pattern.go`, `obialign/locatepattern.go`) **as repaired** by the five `fix:`
patches `notes/patches/C10-*.diff` (each defect was first shown on the real code by the harness oracle; the failing
case lines stay in the generator's corpus).  The tables `sDnaCode`, `LX_BIO_DNA_ALPHA`, `LX_BIO_CDNA_ALPHA`,
`PATMASK`, `OBLIBIT`, `MAX_PAT_LEN` are regenerated from /repo on every run (`ObiVerif.Gen`).

Proved here, for every pattern of 1..63 positions, every budget, every sequence and every window:
* `manberSub_exact`, `manberNoErr_exact`, `manberAll_exact`, `findAllIndex_exact`: mismatch-only matching reports exactly
  the positions whose Hamming distance (no mismatch at a `#` position) is within the budget, each with that distance
  (= the minimal count), `hits_sorted`: in strictly increasing order (each position once);
* `match_revcomp`: strand symmetry of mismatch-only matching, for the mirrored code list; `complement_table_mirror`
  (decided over the generated tables) says that complementing a letter mirrors its code;
* `dnaCode_is_iupac`, `dnaCode_acgt_only`: the generated IUPAC table is the IUPAC table;
* `locate_total`, `allMatches_total`: the repaired `LocatePattern` / `AllMatches` do not panic (non-empty pattern, linear
  sequence); `filterBestMatch_subset`, `findAllIndex_inside`: kept hits are reported hits, and end inside the sequence;
* `locate_spec` (+ `locate_spec_of_eq`, `editDist_least`): the repaired `LocatePattern p s` returns `(f, t, k)` with
  `0 ≤ f ≤ t ≤ |s|`, `k = editDist p s[f:t]` and `k ≤ editDist p s[a:b]` for every substring — a best semi-global alignment
  (`Lemmas/ApatLocate.lean`: the matrix holds the least reachable costs, the backtracking follows an alignment of that cost).
  False of the unrepaired code (D19, D32: witnesses in the corpus);
* `indel_iff` (+ `indel_hit_iff`, `manberAll_indel`, `findAllIndex_indel`): for a pattern of 1..63 positions WITHOUT obligatory
  (`#`) position, `manberIndel P d b l` contains `(pos-m+1, k)` iff `pos` is in the scanned window, `k ≤ e` and `k` is the least edit
  distance between the pattern and a substring of the window ending at `pos` (hence: a hit at `pos` iff some substring ending
  there is within the budget).  Automaton invariant `RepI` (`Lemmas/ApatIndel.lean`): after reading the window up to `pos`, bit
  `m-j` of the level-`d` word ⇔ `p[0..j)` aligns with some suffix of the text read with `≤ d` errors;
* `complement_mirror`, `match_revcomp_string`, `compile_grammar`: for every pattern string of the documented grammar
  (non-empty list of `['!'] (Letter | '[' Letter+ ']') ['#']`), the string-level `complementPattern` succeeds and yields the mirrored
  code list, so that `match_revcomp` holds without its `MirrorList` hypothesis (`Lemmas/ApatComp.lean`).

Second deepening round, proved:
* `indel_oblig_iff` (+ `indel_oblig_strict`, `oblig_never_error`, `strict_is_alignment`): `ManberIndel` for EVERY pattern of
  1..63 positions, obligatory (`#`) positions included: the hit `(pos-m+1, k)` is pushed iff `k ≤ e` is the least cost of an
  alignment `ReachO` of the pattern with a suffix of the window read up to `pos`; `ReachO` (`Lemmas/ApatIndelOblig.lean`) =
  edit alignments in which an obligatory position is never substituted nor deleted and no symbol is inserted right after it,
  plus the start exception of the C init loop (any pattern prefix counts as deleted in front of the first symbol of the window).
  An end position at least `m + k - 1` symbols away from the window start is reported through a strict alignment only: there a
  `#` position never counts as an error (`oblig_never_error`) and the count is the cost of an ordinary alignment;
* `bestOf_leftmost_min`: the selection loop of `BestMatch` returns the leftmost raw hit of minimal error level;
  `raw_hits_within_budget`, `raw_hits_sorted`;
* `filterBestMatch_cover`, `filterBestMatch_chain`: `FilterBestMatch` (as repaired: first hit beyond position 10000) keeps for
  every raw hit a hit with at most as many errors, and two kept hits never overlap;
* `compile_grammar_iff`, `position_semantics`: `MakeApatPattern` accepts exactly the documented grammar (strings without the exotic
  adjacencies `##`, `!#`, `!!`), and a compiled position accepts exactly the IUPAC class of its letters (negated for `!`),
  obligatory iff `#`;
* `allMatches_spec`, `bestMatch_spec`: the composition of the automaton and of `LocatePattern` in `AllMatches` / `BestMatch` on a
  linear sequence: every returned triple is within the budget and is a raw hit passed unchanged, or (indel mode) a span inside
  the sequence whose reported error count IS the edit distance between the pattern string and that span.

NOT proved / excluded (tied by the correspondence check and the harness oracle only, see lib/cfg/C10.py):
* completeness of `AllMatches` in indel mode (a substring within the budget exists ⇒ something is returned): the re-alignment
  fragment `[start - 2k, start + m + 2k)` is cut at the sequence ends and `LocatePattern` compares letters by `_samenuc` (IUPAC
  classes intersect) while the automaton uses the compiled classes: equal for `acgt` sequences only; tied by the oracle `all.iff`;
* strings accepted by `CheckPattern` outside the documented grammar: a `#` following a `#` is a position of its own and
  `complementPattern` does NOT mirror such patterns (`complement_outside_grammar`: `A##A` ↦ `T##T`, `A##` ↦ rejected);
  other exotic accepted strings (`!!A`, `!#`) are not covered by the theorem (all strings of length ≤ 7 over `A C [ ] ! #`
  without `##` that compile were evaluated in the model: mirrored);
* circular sequences in `AllMatches` / `BestMatch` (known finding D35); circular `FindAllIndex` is `Lemmas/ApatCircular.lean`.
-/
namespace ObiVerif.Props.C10
open ObiVerif ObiVerif.Apat

/-! ## the generated IUPAC table -/

/-- bit masks of the four bases in the 26-letter alphabet: a = bit 0, c = bit 2, g = bit 6, t = bit 19 -/
def acgtMask : Nat := 1 ||| 4 ||| 64 ||| 524288

/-- every class of `sDnaCode` is a set of bases: an ambiguous *sequence* symbol is accepted by no un-negated position -/
theorem dnaCode_acgt_only : ∀ code ∈ Gen.apatDnaCode, code &&& acgtMask = code := by decide

/-- the IUPAC meaning of the 26 letters (as sets of bases a,c,g,t coded 1,4,64,524288; 0 = not a nucleotide code) -/
def iupacSpec : List Nat :=
  [ 1,                    -- A
    4 + 64 + 524288,      -- B = C,G,T
    4,                    -- C
    1 + 64 + 524288,      -- D = A,G,T
    0, 0,
    64,                   -- G
    1 + 4 + 524288,       -- H = A,C,T
    0, 0,
    64 + 524288,          -- K = G,T
    0,
    1 + 4,                -- M = A,C
    1 + 4 + 64 + 524288,  -- N
    0, 0, 0,
    1 + 64,               -- R = A,G
    4 + 64,               -- S = C,G
    524288,               -- T
    524288,               -- U
    1 + 4 + 64,           -- V = A,C,G
    1 + 524288,           -- W = A,T
    1 + 4 + 64 + 524288,  -- X (any)
    4 + 524288,           -- Y = C,T
    0 ]

/-- the table compiled into the matcher is the IUPAC table (decided over the table regenerated from apat_parse.c) -/
theorem dnaCode_is_iupac : Gen.apatDnaCode = iupacSpec := by decide

theorem constants : Gen.apatMaxPatLen = 64 ∧ Gen.apatAlphaLen = 26 ∧ Gen.apatPatMask = 2 ^ 26 - 1 ∧ Gen.apatObliBit = 2 ^ 26 := by
  decide

/-! ## mismatch-only matching is exact -/

/-- **`ManberSub` is exact.**  For a pattern of 1..63 positions, any budget, any encoded text and any window
`(begin, length)`: `(i, k)` is reported iff the pattern lies at `i` inside the scanned window
`[begin, min(begin+length, |data|))`, the Hamming distance between the pattern and the text there — with no
mismatch at an obligatory position — is `k`, and `k ≤ maxerr`.  `k` is therefore the minimal mismatch count. -/
theorem manberSub_exact (P : Pattern) (data : List Nat) (begin length : Nat)
    (hm1 : 1 ≤ P.patlen) (hm : P.patlen ≤ 63) (hd : ∀ c ∈ data, c < 26) (i : Int) (k : Nat) :
    (i, k) ∈ manberSub P data begin length ↔
      ∃ i' : Nat, i = (i' : Int) ∧ begin ≤ i' ∧ i' + P.patlen ≤ min (begin + length) data.length ∧
        hamCost P.codes (data.drop i') = some k ∧ k ≤ P.maxerr :=
  manberSub_mem P data begin length hm1 hm hd i k

/-- non-vacuity: a pattern with an IUPAC class, a negation and an obligatory position; budget 1 -/
example : (compile ([65, 67, 33, 71, 84, 35, 78] : Bytes) 1 false).toOption.map (fun P => (P.patlen, manberSub P [0, 2, 0, 19, 6, 0, 2, 2, 19, 19] 0 10))
    = some (5, [(0, 0), (5, 0)]) := by decide

/-- **`ManberNoErr` is exact** (budget 0: exact occurrences only) -/
theorem manberNoErr_exact (P : Pattern) (data : List Nat) (begin length : Nat)
    (hm1 : 1 ≤ P.patlen) (hm : P.patlen ≤ 63) (hd : ∀ c ∈ data, c < 26) (i : Int) (k : Nat) :
    (i, k) ∈ manberNoErr P data begin length ↔
      ∃ i' : Nat, i = (i' : Int) ∧ begin ≤ i' ∧ i' + P.patlen ≤ min (begin + length) data.length ∧
        hamCost P.codes (data.drop i') = some 0 ∧ k = 0 := by
  rw [manberNoErr_eq_sub, manberSub_mem { P with maxerr := 0 } data begin length hm1 hm hd]
  constructor
  · rintro ⟨i', h1, h2, h3, h4, h5⟩
    have : k = 0 := by simpa using h5
    subst this
    exact ⟨i', h1, h2, h3, h4, rfl⟩
  · rintro ⟨i', h1, h2, h3, h4, h5⟩
    subst h5
    exact ⟨i', h1, h2, h3, h4, Nat.le_refl _⟩

/-- **`ManberAll` without indels** (or with a zero budget, where the indel flag is ignored) is exact -/
theorem manberAll_exact (P : Pattern) (data : List Nat) (begin length : Nat)
    (hmode : P.hasIndel = false ∨ P.maxerr = 0)
    (hm1 : 1 ≤ P.patlen) (hm : P.patlen ≤ 63) (hd : ∀ c ∈ data, c < 26) (i : Int) (k : Nat) :
    (i, k) ∈ manberAll P data begin length ↔
      ∃ i' : Nat, i = (i' : Int) ∧ begin ≤ i' ∧ i' + P.patlen ≤ min (begin + length) data.length ∧
        hamCost P.codes (data.drop i') = some k ∧ k ≤ P.maxerr := by
  unfold manberAll
  by_cases h0 : P.maxerr = 0
  · simp only [h0, beq_self_eq_true, if_true]
    rw [manberNoErr_exact P data begin length hm1 hm hd]
    constructor
    · rintro ⟨i', h1, h2, h3, h4, h5⟩; subst h5; exact ⟨i', h1, h2, h3, h4, Nat.le_refl _⟩
    · rintro ⟨i', h1, h2, h3, h4, h5⟩
      have : k = 0 := by omega
      subst this; exact ⟨i', h1, h2, h3, h4, rfl⟩
  · have hi : P.hasIndel = false := by rcases hmode with h | h; exact h; exact absurd h h0
    have hb : (P.maxerr == 0) = false := by simpa using h0
    simp only [hb, hi, Bool.false_eq_true, if_false]
    exact manberSub_mem P data begin length hm1 hm hd i k

/-- the hits are pushed in strictly increasing order of position: every position is reported at most once -/
theorem hits_sorted (P : Pattern) (data : List Nat) (begin length : Nat) :
    (manberSub P data begin length).Pairwise (fun a b => a.1 < b.1) ∧
    (manberIndel P data begin length).Pairwise (fun a b => a.1 < b.1) ∧
    (manberNoErr P data begin length).Pairwise (fun a b => a.1 < b.1) := by
  refine ⟨errScan_sorted _ _ _ _ _ _, errScan_sorted _ _ _ _ _ _, ?_⟩
  rw [manberNoErr_eq_sub]
  exact errScan_sorted _ _ _ _ _ _

theorem encode_lt (seq : Bytes) : ∀ c ∈ seq.map encodeByte, c < 26 := by
  intro c hc
  rw [List.mem_map] at hc
  obtain ⟨b, _, rfl⟩ := hc
  unfold encodeByte isLower
  split
  · rename_i h
    simp only [Bool.and_eq_true, decide_eq_true_eq] at h
    have h2 : b.toNat ≤ 122 := by
      have := h.2; exact UInt8.le_iff_toNat_le.mp this
    omega
  · omega

/-- **`ApatPattern.FindAllIndex` on a linear sequence, mismatch-only**: the `[3]int` triples are exactly
`(i, i+m, k)` for the positions `i ≥ max(begin,0)` with `i+m ≤ min(begin+length+MAX_PAT_LEN, len)` (`length < 0` meaning
the sequence length) where the pattern is at Hamming distance `k ≤ maxerr` from the sequence. -/
theorem findAllIndex_exact (P : Pattern) (seq : Bytes) (begin length : Int)
    (hmode : P.hasIndel = false ∨ P.maxerr = 0) (hm1 : 1 ≤ P.patlen) (hm : P.patlen ≤ 63) (s e k : Int) :
    (s, e, k) ∈ findAllIndex P seq false begin length ↔
      ∃ i' k' : Nat, s = (i' : Int) ∧ e = (i' : Int) + P.patlen ∧ k = (k' : Int) ∧
        (if begin < 0 then 0 else begin).toNat ≤ i' ∧
        i' + P.patlen ≤ min ((if begin < 0 then 0 else begin).toNat +
            ((if length < 0 then (seq.length : Int) else length).toNat + Gen.apatMaxPatLen)) seq.length ∧
        hamCost P.codes ((seq.map encodeByte).drop i') = some k' ∧ k' ≤ P.maxerr := by
  unfold findAllIndex seqData
  simp only [Bool.false_eq_true, if_false, List.mem_map, Prod.mk.injEq, Prod.exists]
  constructor
  · rintro ⟨a, b, hmem, h1, h2, h3⟩
    obtain ⟨i', hi, hb, he, hc, hk⟩ := (manberAll_exact P _ _ _ hmode hm1 hm (encode_lt seq) a b).1 hmem
    refine ⟨i', b, by omega, by omega, by omega, hb, by simpa using he, hc, hk⟩
  · rintro ⟨i', k', h1, h2, h3, hb, he, hc, hk⟩
    refine ⟨(i' : Int), k', ?_, by omega, by omega, by omega⟩
    exact (manberAll_exact P _ _ _ hmode hm1 hm (encode_lt seq) _ _).2 ⟨i', rfl, hb, by simpa using he, hc, hk⟩

/-- non-vacuity / test: both ends of the sequence, a window, budget 1 -/
example : (compile ([65, 67, 71, 84] : Bytes) 1 false).toOption.map (fun P => findAllIndex P ([97, 99, 103, 116, 116, 116, 116, 116, 97, 99, 103, 116] : Bytes) false 0 (-1))
    = some [(0, 4, 0), (8, 12, 0)] := by decide

/-! ## matching with insertions, deletions and substitutions -/

/-- **`ManberIndel` is exact** (`indel_iff`).  For a pattern of 1..63 positions without obligatory (`#`) position, any
budget, any encoded text and any window: the hit `(i, k)` is pushed iff `i = pos - m + 1` for an end position `pos` of the
scanned window `[begin, min(begin+length, |data|))`, `k ≤ maxerr`, and `k` is the least edit distance (`editDist`, a
text symbol being equal to a pattern position when the position accepts it) between the pattern and a substring
`data[a .. pos]` (`begin ≤ a ≤ pos + 1`; the empty substring included) of the window ending at `pos`.
Proof: the automaton invariant `RepI` — after reading `data[begin .. pos]`, bit `m - j` of the level-`d` word ⇔ `p[0..j)`
aligns with some suffix of the text read with `≤ d` errors (`Lemmas/ApatIndel.lean`).
The hypothesis `hno` excludes obligatory positions: with `#` the C code masks the error transitions of the obligatory
column by `cmask`, a semantics that the property does not describe (tied by the correspondence check only). -/
theorem indel_iff (P : Pattern) (data : List Nat) (begin length : Nat)
    (hm1 : 1 ≤ P.patlen) (hm : P.patlen ≤ 63) (hd : ∀ c ∈ data, c < 26)
    (hno : ∀ a ∈ P.codes, oblig a = false) (i : Int) (k : Nat) :
    (i, k) ∈ manberIndel P data begin length ↔
      ∃ pos : Nat, begin ≤ pos ∧ pos < min (begin + length) data.length ∧ i = (pos : Int) - P.patlen + 1 ∧ k ≤ P.maxerr ∧
        (∃ a, begin ≤ a ∧ a ≤ pos + 1 ∧ editDist accepts P.codes ((data.drop a).take (pos + 1 - a)) = k) ∧
        (∀ a, begin ≤ a → a ≤ pos + 1 → k ≤ editDist accepts P.codes ((data.drop a).take (pos + 1 - a))) :=
  manberIndel_mem P data begin length hm1 hm hd hno i k

/-- **a hit is reported at an end position iff some substring of the window ending there is within the budget** -/
theorem indel_hit_iff (P : Pattern) (data : List Nat) (begin length : Nat)
    (hm1 : 1 ≤ P.patlen) (hm : P.patlen ≤ 63) (hd : ∀ c ∈ data, c < 26)
    (hno : ∀ a ∈ P.codes, oblig a = false) (pos : Nat) :
    (∃ k, ((pos : Int) - P.patlen + 1, k) ∈ manberIndel P data begin length) ↔
      begin ≤ pos ∧ pos < min (begin + length) data.length ∧
        ∃ a, begin ≤ a ∧ a ≤ pos + 1 ∧ editDist accepts P.codes ((data.drop a).take (pos + 1 - a)) ≤ P.maxerr :=
  manberIndel_hit_iff P data begin length hm1 hm hd hno pos

/-- `ManberAll` with the indel flag and a non-zero budget is `ManberIndel` -/
theorem manberAll_indel (P : Pattern) (data : List Nat) (begin length : Nat)
    (hi : P.hasIndel = true) (he : P.maxerr ≠ 0) :
    manberAll P data begin length = manberIndel P data begin length := by
  unfold manberAll
  have hb : (P.maxerr == 0) = false := by simpa using he
  simp [hb, hi]

/-- **`FindAllIndex` on a linear sequence, indel mode**: the triple `(s, s+m, k)` is reported iff `s = pos - m + 1` for
an end position `pos` of the window, and `k ≤ maxerr` is the least edit distance between the pattern and a substring of
the window ending at `pos`. -/
theorem findAllIndex_indel (P : Pattern) (seq : Bytes) (begin length : Int)
    (hi : P.hasIndel = true) (he : P.maxerr ≠ 0) (hm1 : 1 ≤ P.patlen) (hm : P.patlen ≤ 63)
    (hno : ∀ a ∈ P.codes, oblig a = false) (s e k : Int) :
    (s, e, k) ∈ findAllIndex P seq false begin length ↔
      ∃ pos k' : Nat, s = (pos : Int) - P.patlen + 1 ∧ e = s + P.patlen ∧ k = (k' : Int) ∧
        (if begin < 0 then 0 else begin).toNat ≤ pos ∧
        pos < min ((if begin < 0 then 0 else begin).toNat +
            ((if length < 0 then (seq.length : Int) else length).toNat + Gen.apatMaxPatLen)) seq.length ∧
        k' ≤ P.maxerr ∧
        (∃ a, (if begin < 0 then 0 else begin).toNat ≤ a ∧ a ≤ pos + 1 ∧
          editDist accepts P.codes (((seq.map encodeByte).drop a).take (pos + 1 - a)) = k') ∧
        (∀ a, (if begin < 0 then 0 else begin).toNat ≤ a → a ≤ pos + 1 →
          k' ≤ editDist accepts P.codes (((seq.map encodeByte).drop a).take (pos + 1 - a))) := by
  unfold findAllIndex seqData
  simp only [Bool.false_eq_true, if_false, List.mem_map, Prod.mk.injEq, Prod.exists]
  rw [manberAll_indel P _ _ _ hi he]
  constructor
  · rintro ⟨a, b, hmem, h1, h2, h3⟩
    obtain ⟨pos, hb, hp, hi', hk, hex, hall⟩ := (indel_iff P _ _ _ hm1 hm (encode_lt seq) hno a b).1 hmem
    refine ⟨pos, b, by omega, by omega, by omega, hb, by simpa using hp, hk, hex, hall⟩
  · rintro ⟨pos, k', h1, h2, h3, hb, hp, hk, hex, hall⟩
    refine ⟨s, k', ?_, rfl, by omega, by omega⟩
    exact (indel_iff P _ _ _ hm1 hm (encode_lt seq) hno _ _).2 ⟨pos, hb, by simpa using hp, h1, hk, hex, hall⟩

/-- test: why `hno` is there — with an obligatory position the indel automaton has no uniform meaning: pattern `A#C`,
budget 1: the text `c` is reported (obligatory `A` deleted, through the initial state) but `tc` is not (same on the real code) -/
example : (compile ([65, 35, 67] : Bytes) 1 true).toOption.map (fun P => (manberIndel P [2] 0 1, manberIndel P [19, 2] 0 2))
    = some ([(-1, 1)], []) := by decide

/-- non-vacuity / test: pattern `ACGTA`, budget 1, indels; the hits are the end positions 3 (`cgta`: first pattern
symbol deleted, reported start −1: "may return shifted pos") and 11 (`accgta`, one inserted symbol, or `cgta`) -/
example : (compile ([65, 67, 71, 84, 65] : Bytes) 1 true).toOption.map
    (fun P => (decide (∀ a ∈ P.codes, oblig a = false), P.patlen, manberIndel P [2, 6, 19, 0, 19, 19, 0, 2, 2, 6, 19, 0] 0 12,
      editDist accepts P.codes [2, 6, 19, 0], editDist accepts P.codes [0, 2, 2, 6, 19, 0]))
    = some (true, 5, [(-1, 1), (7, 1)], 1, 1) := by decide

/-! ## indels with obligatory positions -/

/-- **`ManberIndel`, obligatory positions included** (`indel_oblig_iff`).  For every pattern of 1..63 positions, any budget,
text and window: the hit `(i, k)` is pushed iff `i = pos - m + 1` for an end position `pos` of the scanned window, `k ≤ maxerr`,
and `k` is the least cost of an alignment `ReachO` (lists reversed) of the whole pattern with a suffix of the text
`data[begin .. pos]` read since the start of the window.  `ReachO`: identity; substitution, insertion after, deletion of a
position that is NOT obligatory; and the start rule of the init loop. -/
theorem indel_oblig_iff (P : Pattern) (data : List Nat) (begin length : Nat)
    (hm1 : 1 ≤ P.patlen) (hm : P.patlen ≤ 63) (hd : ∀ c ∈ data, c < 26) (i : Int) (k : Nat) :
    (i, k) ∈ manberIndel P data begin length ↔
      ∃ pos : Nat, begin ≤ pos ∧ pos < min (begin + length) data.length ∧ i = (pos : Int) - P.patlen + 1 ∧ k ≤ P.maxerr ∧
        IsLeast (ReachO P.codes.reverse (((data.drop begin).take (pos + 1 - begin)).reverse)) k :=
  manberIndel_oblig_mem P data begin length hm1 hm hd i k

/-- **away from the window start every reported alignment is strict**: a hit `(pos - m + 1, k)` whose end position is at
least `m + k - 1` symbols after `begin` comes from an alignment `ReachS` — the rules of `ReachO` without the start exception. -/
theorem indel_oblig_strict (P : Pattern) (data : List Nat) (begin length : Nat)
    (hm1 : 1 ≤ P.patlen) (hm : P.patlen ≤ 63) (hd : ∀ c ∈ data, c < 26) (pos k : Nat)
    (h : ((pos : Int) - P.patlen + 1, k) ∈ manberIndel P data begin length) (hfar : begin + P.patlen + k ≤ pos + 2) :
    ReachS P.codes.reverse (((data.drop begin).take (pos + 1 - begin)).reverse) k := by
  obtain ⟨pos', h1, h2, h3, _, h5, _⟩ := (indel_oblig_iff P data begin length hm1 hm hd _ k).1 h
  have : pos' = pos := by omega
  subst this
  apply reachO_strict_of_long h5
  simp only [List.length_reverse, List.length_take, List.length_drop, Pattern.patlen] at *
  omega

/-- **a `#` position never counts as an error** in a strict alignment: if the last position of the aligned pattern prefix
is obligatory, the alignment ends with a text symbol that this position accepts, at no cost (inversion of `ReachS`; by
induction every obligatory position of the pattern is matched by a symbol of its class) -/
theorem oblig_never_error (a : Nat) (rq s : List Nat) (k : Nat) (h : ReachS (a :: rq) s k) (ho : oblig a = true) :
    ∃ c s', s = c :: s' ∧ accepts a c = true ∧ ReachS rq s' k := by
  cases h with
  | id ha h' => exact ⟨_, _, rfl, ha, h'⟩
  | sub ho' _ _ => rw [ho] at ho'; cases ho'
  | ins ho' _ => rw [ho] at ho'; cases ho'
  | del ho' _ => rw [ho] at ho'; cases ho'

/-- a strict alignment is an ordinary alignment (`Ali`, the relation `editDist` minimises) of the pattern prefix with a
suffix of the text read: its cost is at least the plain edit distance to the best substring ending there -/
theorem strict_is_alignment (rq s : List Nat) (k : Nat) (h : ReachS rq s k) : Reach accepts false rq s k :=
  reachS_reach h

/-- tests / non-vacuity (evaluation of the model; the real code gives the same lists): pattern `A#C`, budget 1, indels.
`c`: reported through the start exception (the obligatory `A` deleted in front of the window); `tc`: not reported;
`gac`: end positions 1 (`a`, `C` deleted) and 2 (`ac`, cost 0); `agc`: end positions 0 and 1 (`a`; `ag`, `C` substituted) but
NOT 2 — `a g c` would need an insertion right after the obligatory `A`;
pattern `AC#` on `agc`: hit with one error at end position 2 (an insertion BEFORE an obligatory position is allowed). -/
example : (compile ([65, 35, 67] : Bytes) 1 true).toOption.map (fun P => (manberIndel P [2] 0 1, manberIndel P [19, 2] 0 2))
    = some ([(-1, 1)], []) := by decide
example : (compile ([65, 35, 67] : Bytes) 1 true).toOption.map (fun P => (manberIndel P [6, 0, 2] 0 3, manberIndel P [0, 6, 2] 0 3))
    = some ([(0, 1), (1, 0)], [(-1, 1), (0, 1)]) := by decide
example : (compile ([65, 67, 35] : Bytes) 1 true).toOption.map (fun P => manberIndel P [0, 6, 2] 0 3)
    = some [(1, 1)] := by decide
/-- the two alignments behind the first and the last of these tests, as `ReachO` derivations -/
example : ReachO [4, 67108865] [2] 1 ∧ ReachO [67108868, 1] [2, 6, 0] 1 := by
  refine ⟨?_, ?_⟩
  · exact ReachO.id (by decide) (ReachO.start [67108865])
  · exact ReachO.id (by decide) (ReachO.ins (by decide) (ReachO.id (by decide) (ReachO.nil [])))

/-! ## strand symmetry -/

instance (a a' : Nat) : Decidable (MirrorCode a a') := by unfold MirrorCode; exact inferInstance

/-- complementing a pattern letter with the C table `LX_BIO_CDNA_ALPHA` mirrors its class with respect to the
sequence complement of `obiseq` (decided over the three generated tables; sequence symbol `u` excepted, see
`MirrorCode`) -/
theorem complement_table_mirror :
    ∀ l, l < 26 → MirrorCode (Gen.apatDnaCode.getD l 0)
      (Gen.apatDnaCode.getD ((baseComplement (UInt8.ofNat (65 + l))).toNat - 65) 0) := by decide

/-- the mirror relation is preserved by the two class constructors of the pattern grammar: union (`[...]`) and
negation (`!`) -/
theorem mirror_union (a a' b b' : Nat) (ha : MirrorCode a a') (hb : MirrorCode b b')
    (hoa' : oblig (a' ||| b') = false) (ho : oblig (a ||| b) = false) :
    MirrorCode (a ||| b) (a' ||| b') := by
  refine ⟨by rw [hoa', ho], ?_⟩
  intro c hc hu
  unfold accepts
  rw [Nat.testBit_or, Nat.testBit_or]
  have h1 := ha.2 c hc hu
  have h2 := hb.2 c hc hu
  unfold accepts at h1 h2
  rw [h1, h2]

/-- **matching the reverse-complemented pattern ≡ matching the pattern on the reverse-complemented sequence with
mirrored coordinates** (mismatch-only, whole-sequence search; `P'` is any pattern whose code list is the mirror of
`P`'s — what `complementPattern` computes; the sequence contains letters only and no `u`) -/
theorem match_revcomp (P P' : Pattern) (d : List Nat) (hmir : MirrorList P.codes.reverse P'.codes)
    (he : P'.maxerr = P.maxerr) (hm1 : 1 ≤ P.patlen) (hm : P.patlen ≤ 63)
    (hd : ∀ c ∈ d, c < 26 ∧ c ≠ 20) (i : Int) (k : Nat) :
    (i, k) ∈ manberSub P' d 0 d.length ↔
      ∃ i' : Nat, i = (i' : Int) ∧ i' + P.patlen ≤ d.length ∧
        (((d.length - i' - P.patlen : Nat) : Int), k) ∈ manberSub P (rcData d) 0 d.length :=
  manberSub_revcomp P P' d hmir he hm1 hm hd i k

/-- the byte-level reverse complement of `obiseq` (C07's model) is `rcData` on the encoded symbols, for letters -/
theorem encode_comp : ∀ c, c < 26 →
    encodeByte (SeqOps.nucComplement (UInt8.ofNat (97 + c))) = compSym (encodeByte (UInt8.ofNat (97 + c))) ∧
    isLower (SeqOps.nucComplement (UInt8.ofNat (97 + c))) = true := by decide

/-- test (sample evaluation, now an instance of `complement_mirror`): the string-level complement of a pattern using every token kind -/
example : (do
    let P ← (compile ([65, 35, 67, 33, 91, 71, 84, 93, 33, 82, 78, 91, 65, 67, 93, 35] : Bytes) 2 false).toOption
    let R ← (reverseComplement P).toOption
    pure (R.cpat, R.patlen == P.patlen)) = some (([91, 71, 84, 93, 35, 78, 33, 89, 33, 91, 65, 67, 93, 71, 84, 35] : Bytes), true) := by decide

/-! ## the string-level complement

The documented pattern grammar: a non-empty list of positions `['!'] (Letter | '[' Letter+ ']') ['#']` (`Tok`, with
`Tok.WF`: upper-case letters, at least one, exactly one outside brackets; `patStr ts` is the pattern string, `Tok.code`
the accepted-letter set | `OBLIBIT`; `Tok.comp` complements the letters). -/

/-- **`MakeApatPattern` on a pattern of the grammar** compiles, one code word per position -/
theorem compile_grammar (ts : List Tok) (hts : ∀ t ∈ ts, t.WF) (hne : ts ≠ []) (e : Nat) (b : Bool) :
    compile (patStr ts) e b = .ok ⟨patStr ts, ts.map Tok.code, e, b⟩ :=
  compile_pat ts hts hne e b

/-- **`MakeApatPattern` accepts exactly the documented grammar** (`compile_grammar_iff`), for pattern strings without the three
exotic adjacencies `##`, `!#`, `!!` (`plain`, a decidable condition on the upper-cased C string): the pattern compiles iff its
upper-cased C string is the string of a non-empty list of well-formed positions `['!'] (Letter | '[' Letter+ ']') ['#']`.
(Without `plain` the direction ⇒ is false: `CheckPattern` accepts `A##`, `!#`, `!!A`; see `complement_outside_grammar`.) -/
theorem compile_grammar_iff (pat : Bytes) (e : Nat) (b : Bool) (hpl : plain (upperSeq (cString pat)) = true) :
    (∃ P, compile pat e b = .ok P) ↔
      ∃ ts : List Tok, (∀ t ∈ ts, t.WF) ∧ ts ≠ [] ∧ upperSeq (cString pat) = patStr ts := by
  constructor
  · rintro ⟨P, h⟩
    unfold compile at h
    simp only at h
    split at h
    · cases h
    · rename_i hck
      split at h
      · cases h
      · rename_i codes henc
        apply checkPattern_grammar _ _ (by simpa using hck) hpl
        intro h0
        rw [h0] at henc
        simp [encodePattern, tokens] at henc
  · rintro ⟨ts, hts, hne, heq⟩
    refine ⟨⟨patStr ts, ts.map Tok.code, e, b⟩, ?_⟩
    unfold compile
    simp only [heq, check_pat ts hts, encode_pat ts hts hne, Bool.not_true, Bool.false_eq_true, if_false]

/-- non-vacuity: `a[ct]!g#N` (lower case, NUL-terminated) is plain and compiles to 4 positions; `A##` is not plain -/
example : plain (upperSeq (cString ([97, 91, 99, 116, 93, 33, 103, 35, 78, 0, 65] : Bytes))) = true ∧
    ((compile ([97, 91, 99, 116, 93, 33, 103, 35, 78, 0, 65] : Bytes) 1 false).toOption.map Pattern.patlen) = some 4 ∧
    plain ([65, 35, 35] : Bytes) = false := by decide

/-- **what a compiled position accepts** (`position_semantics`): position `t` of a pattern of the grammar accepts the sequence
symbol `c` (a letter, `c < 26` = `c - 'a'`) iff `c` belongs to the IUPAC class (`sDnaCode`, = `iupacSpec` by `dnaCode_is_iupac`)
of one of the letters of the position — negated for `!`; and the position is obligatory iff it carries `#`.  With
`compile_grammar` (`codes = ts.map Tok.code`) this is the meaning of every compiled code word. -/
theorem position_semantics (t : Tok) (ht : t.WF) (c : Nat) (hc : c < 26) :
    accepts t.code c = ((t.letters.any fun l => (Gen.apatDnaCode.getD (l.toNat - 65) 0).testBit c) ^^ t.neg) ∧
    oblig t.code = t.oblig := by
  refine ⟨?_, oblig_code t⟩
  rw [accepts_code t c hc, valLetters_bit t.letters c ht.1]

/-- **`complementPattern` yields the mirrored code list**: for every pattern string of the grammar, the compiled
pattern `P` is reverse-complemented (`complementPattern`: complement every character, reverse the string, re-attach the
`!` and `#` modifiers, re-encode) without error into the pattern of the reversed list of complemented positions, whose
code list is the mirror (`MirrorList`) of the reversed code list of `P` — the hypothesis of `match_revcomp`. -/
theorem complement_mirror (ts : List Tok) (hts : ∀ t ∈ ts, t.WF) (hne : ts ≠ []) (e : Nat) (b : Bool) :
    ∃ P P' : Pattern, compile (patStr ts) e b = .ok P ∧ reverseComplement P = .ok P' ∧
      P'.cpat = patStr (ts.reverse.map Tok.comp) ∧ P'.maxerr = P.maxerr ∧ P'.hasIndel = P.hasIndel ∧
      P'.patlen = P.patlen ∧ P.patlen = ts.length ∧ MirrorList P.codes.reverse P'.codes := by
  obtain ⟨h1, h2⟩ := reverseComplement_pat ts hts hne e b
  exact ⟨_, _, compile_pat ts hts hne e b, h1, rfl, rfl, rfl, by simp [Pattern.patlen], by simp [Pattern.patlen], h2⟩

/-- **strand symmetry at the string level** (`match_revcomp` without the `MirrorList` hypothesis): for every pattern
string of the grammar with at most 63 positions, matching the pattern returned by `ReverseComplement` on `d` ≡ matching
the pattern on the reverse complement of `d`, with mirrored coordinates (mismatch-only, whole-sequence search, letters
only and no `u` in the sequence). -/
theorem match_revcomp_string (ts : List Tok) (hts : ∀ t ∈ ts, t.WF) (hne : ts ≠ []) (hlen : ts.length ≤ 63)
    (e : Nat) (b : Bool) (d : List Nat) (hd : ∀ c ∈ d, c < 26 ∧ c ≠ 20) (i : Int) (k : Nat) :
    ∃ P P' : Pattern, compile (patStr ts) e b = .ok P ∧ reverseComplement P = .ok P' ∧
      ((i, k) ∈ manberSub P' d 0 d.length ↔
        ∃ i' : Nat, i = (i' : Int) ∧ i' + P.patlen ≤ d.length ∧
          (((d.length - i' - P.patlen : Nat) : Int), k) ∈ manberSub P (rcData d) 0 d.length) := by
  obtain ⟨P, P', h1, h2, _, h4, _, _, h7, h8⟩ := complement_mirror ts hts hne e b
  have hpos : 1 ≤ ts.length := List.length_pos_iff.2 hne
  exact ⟨P, P', h1, h2, match_revcomp P P' d h8 h4 (by omega) (by omega) hd i k⟩

/-- non-vacuity: the pattern `A#C![GT]!RN[AC]#` (every token kind) as a token list; its complement is `[GT]#N!Y![AC]GT#` -/
example :
    let ts : List Tok := [⟨false, false, [65], true⟩, ⟨false, false, [67], false⟩, ⟨true, true, [71, 84], false⟩,
      ⟨true, false, [82], false⟩, ⟨false, false, [78], false⟩, ⟨false, true, [65, 67], true⟩]
    (∀ t ∈ ts, (∀ c ∈ t.letters, isUpper c = true) ∧ t.letters ≠ [] ∧ (t.bracket = false → t.letters.length = 1)) ∧
    patStr ts = [65, 35, 67, 33, 91, 71, 84, 93, 33, 82, 78, 91, 65, 67, 93, 35] ∧
    patStr (ts.reverse.map Tok.comp) = [91, 71, 84, 93, 35, 78, 33, 89, 33, 91, 65, 67, 93, 71, 84, 35] := by decide

/-- **outside the grammar the statement is false.**  `CheckPattern` also accepts strings that are not in the documented
grammar — a `#` that follows a `#` is compiled as a position of its own (accepting nothing, obligatory).  For `A##A`
(positions `A#`, `#`, `A`) `complementPattern` returns `T##T` (positions `T#`, `#`, `T`), which is NOT the mirror
(`A`, `#`, `A#` mirrored would be `T`, `#`, `T#`); for `A##` the complement `##T` is rejected by `CheckPattern`.
(Evaluation of the model on two inputs; the real C code gives the same results — checked with `harness_C10 C10 exec`;
`A##` is in the harness corpus.) -/
theorem complement_outside_grammar :
    (compile ([65, 35, 35, 65] : Bytes) 1 false).toOption.bind
        (fun P => (reverseComplement P).toOption.map (fun P' => (P.codes.reverse, P'.codes, P'.cpat)))
      = some ([1, 67108864, 67108865], [67633152, 67108864, 524288], [84, 35, 35, 84]) ∧
    ¬ MirrorList [1, 67108864, 67108865] [67633152, 67108864, 524288] ∧
    (compile ([65, 35, 35] : Bytes) 1 false).toOption.map
        (fun P => match reverseComplement P with | .error err => some err | .ok _ => none) = some (some .check) := by
  refine ⟨by decide, ?_, by decide⟩
  intro h
  cases h with
  | cons h1 _ =>
    have := h1.1
    revert this
    decide

/-! ## Go layer -/

/-- `FilterBestMatch` only keeps hits reported by `FindAllIndex` -/
theorem filterBestMatch_subset (P : Pattern) (seq : Bytes) (circular : Bool) (begin length : Int) :
    ∀ h ∈ filterBestMatch P seq circular begin length, h ∈ findAllIndex P seq circular begin length :=
  filterBest_subset _

/-- every hit of `FindAllIndex` on a linear sequence ends inside the sequence, in every mode
(in indel mode the start may be negative: "may return shifted pos" in apat_search.c) -/
theorem findAllIndex_inside (P : Pattern) (seq : Bytes) (begin length : Int) :
    ∀ h ∈ findAllIndex P seq false begin length, h.1 + P.patlen ≤ (seq.length : Int) ∧ h.2.1 = h.1 + P.patlen ∧ 0 ≤ h.2.2 := by
  intro h hh
  have hb := findAllIndex_bound P seq begin length h hh
  refine ⟨hb.1, ?_, hb.2⟩
  unfold findAllIndex at hh
  simp only [List.mem_map, Prod.exists] at hh
  obtain ⟨a, b, _, rfl⟩ := hh
  rfl

/-- **`AllMatches` on a linear sequence never panics**, whatever the lengths of pattern and sequence (D32 repaired:
the re-alignment fragment may be as short as, or shorter than, the pattern).  `hc` holds for every compiled pattern
(a position takes at least one character of the pattern string). -/
theorem allMatches_total (P : Pattern) (seq : Bytes) (begin length : Int)
    (hm1 : 1 ≤ P.patlen) (hc : P.patlen ≤ P.cpat.length) :
    allMatches P seq false begin length ≠ .panic :=
  allMatches_no_panic P seq begin length hm1 hc

/-- non-vacuity of `allMatches_total`: the D32 input (sequence shorter than the pattern, one deletion) -/
example : (compile ([65, 67, 71, 84, 65] : Bytes) 1 true).toOption.map
    (fun P => (decide (1 ≤ P.patlen ∧ P.patlen ≤ P.cpat.length), allMatches P ([97, 99, 103, 97] : Bytes) false 0 (-1)))
    = some (true, .ok [(0, 4, 1)]) := by decide

/-- every raw hit of `FindAllIndex` carries an error level within the budget, and `end = start + patlen` -/
theorem raw_hits_within_budget (P : Pattern) (seq : Bytes) (circular : Bool) (begin length : Int) :
    ∀ h ∈ findAllIndex P seq circular begin length, 0 ≤ h.2.2 ∧ h.2.2 ≤ (P.maxerr : Int) ∧ h.2.1 = h.1 + P.patlen :=
  findAllIndex_err_le P seq circular begin length

/-- the raw hits are sorted by strictly increasing start position -/
theorem raw_hits_sorted (P : Pattern) (seq : Bytes) (circular : Bool) (begin length : Int) :
    (findAllIndex P seq circular begin length).Pairwise (fun a b => a.1 < b.1) :=
  findAllIndex_sorted P seq circular begin length

/-- **the selection loop of `BestMatch`** returns the LEFTMOST hit of minimal error count: the list splits as
`l1 ++ best :: l2` with strictly more errors everywhere in `l1` and at least as many in `l2` -/
theorem bestOf_leftmost_min (P : Pattern) (seq : Bytes) (circular : Bool) (begin length : Int) (hmax : P.maxerr < 10000)
    (hne : findAllIndex P seq circular begin length ≠ []) :
    let res := findAllIndex P seq circular begin length
    ∃ l1 l2, res = l1 ++ bestOf res :: l2 ∧ (∀ m ∈ l1, (bestOf res).2.2 < m.2.2) ∧ ∀ m ∈ l2, (bestOf res).2.2 ≤ m.2.2 := by
  intro res
  apply bestOf_spec res _ hne
  intro m hm
  have := (findAllIndex_err_le P seq circular begin length m hm).2.1
  omega

theorem raw_hits_ok (P : Pattern) (seq : Bytes) (circular : Bool) (begin length : Int) (hmax : P.maxerr < 10000) :
    ∀ x ∈ findAllIndex P seq circular begin length, HitOk x := by
  intro x hx
  obtain ⟨h1, h2, h3⟩ := findAllIndex_err_le P seq circular begin length x hx
  exact ⟨h1, by omega, by omega⟩

/-- **`FilterBestMatch` represents every raw hit**: for each hit of `FindAllIndex` a hit with at most as many errors is kept
(so the minimal error count survives, and something is kept whenever something was found).  False of the unrepaired code
when the first hit starts at position `10000 + err` or later (everything was dropped: witness in the harness corpus). -/
theorem filterBestMatch_cover (P : Pattern) (seq : Bytes) (circular : Bool) (begin length : Int) (hmax : P.maxerr < 10000) :
    ∀ m ∈ findAllIndex P seq circular begin length, ∃ b ∈ filterBestMatch P seq circular begin length, b.2.2 ≤ m.2.2 :=
  filterBest_cover _ (findAllIndex_sorted P seq circular begin length) (raw_hits_ok P seq circular begin length hmax)

/-- **the hits kept by `FilterBestMatch` do not overlap**: `a.end + a.err ≤ b.start - b.err` for `a` before `b` -/
theorem filterBestMatch_chain (P : Pattern) (seq : Bytes) (circular : Bool) (begin length : Int) (hmax : P.maxerr < 10000) :
    (filterBestMatch P seq circular begin length).Pairwise NoOverlap :=
  filterBest_chain _ (findAllIndex_sorted P seq circular begin length) (raw_hits_ok P seq circular begin length hmax)

/-- test: the repaired `FilterBestMatch` keeps a first hit lying beyond position 10000 (hand-made raw list) -/
example : filterBest [(10010, 10014, 0), (10011, 10015, 1), (10030, 10034, 1)] = [(10010, 10014, 0), (10030, 10034, 1)] := by
  decide

/-- **`AllMatches`** (`allMatches_spec`): every returned triple is within the budget, and is either a hit kept by
`FilterBestMatch` passed unchanged (no error, or mismatch-only mode: `findAllIndex_exact` applies to it), or — indel mode, at least
one error — a span `0 ≤ s ≤ e ≤ |seq|` whose reported error count is the edit distance (`editDist samenuc`) between the
pattern string handed to `LocatePattern` and `seq[s:e]` (`SpanDist`). -/
theorem allMatches_spec (P : Pattern) (seq : Bytes) (circular : Bool) (begin length : Int) (out : List Hit)
    (h : allMatches P seq circular begin length = .ok out) :
    ∀ x ∈ out, x.2.2 ≤ (P.maxerr : Int) ∧
      ((x ∈ filterBestMatch P seq circular begin length ∧ ¬ (x.2.2 > 0 ∧ P.hasIndel = true)) ∨
       (P.hasIndel = true ∧ SpanDist P seq x)) :=
  Apat.allMatches_spec P seq circular begin length out h

/-- **`BestMatch`** (`bestMatch_spec`) on a linear sequence: when a match is reported, the selected raw hit is a hit of minimal
error level lying inside the sequence, and the result is that hit (no error, or mismatch-only mode) or — indel mode — a span
inside the sequence whose reported error count is the edit distance between the pattern string and that span. -/
theorem bestMatch_spec (P : Pattern) (seq : Bytes) (begin length : Int) (s e k : Int) (hmax : P.maxerr < 10000)
    (h : bestMatch P seq false begin length = .ok (s, e, k, true)) :
    let res := findAllIndex P seq false begin length
    res ≠ [] ∧ bestOf res ∈ res ∧ (∀ m ∈ res, (bestOf res).2.2 ≤ m.2.2) ∧
      0 ≤ (bestOf res).1 ∧ (bestOf res).2.1 ≤ (seq.length : Int) ∧
      (((s, e, k) = bestOf res ∧ ((bestOf res).2.2 = 0 ∨ P.hasIndel = false)) ∨
       (P.hasIndel = true ∧ (bestOf res).2.2 ≠ 0 ∧ SpanDist P seq (s, e, k))) :=
  Apat.bestMatch_spec P seq begin length s e k hmax h

/-! ## `LocatePattern` (repaired) -/

/-- the repaired `LocatePattern` panics only on the empty pattern (D32) -/
theorem locate_total (pat seq : Bytes) : locatePattern pat seq = none ↔ pat = [] := by
  unfold locatePattern
  cases pat with
  | nil => simp
  | cons a p => simp

/-- **`LocatePattern` (repaired) returns a best semi-global alignment** (`locate_spec`).  For every non-empty pattern
`p` and every fragment `frag`: the call returns a span `0 ≤ f ≤ t ≤ |frag|` and an error count `k` such that `k` is the
edit distance (`editDist`, Levenshtein: substitutions, insertions, deletions cost 1; two symbols are equal when
`_samenuc` says so, i.e. their IUPAC classes intersect) between `p` and `frag[f:t]`, and no substring `frag[a:b]` of the
fragment is closer to the pattern.  `editDist` is the textbook recursion (`Lemmas/ApatLocate.lean`); it is the least cost
of an alignment (`ali_editDist`, `editDist_le`). -/
theorem locate_spec (p frag : Bytes) (hp : p ≠ []) :
    ∃ f t k : Nat, locatePattern p frag = some ((f : Int), (t : Int), (k : Int)) ∧ f ≤ t ∧ t ≤ frag.length ∧
      k = editDist samenuc p ((frag.drop f).take (t - f)) ∧
      ∀ a b : Nat, k ≤ editDist samenuc p ((frag.drop a).take (b - a)) := by
  obtain ⟨f, t, k, h1, h2, h3, h4, h5⟩ := locatePattern_spec p frag hp
  refine ⟨f, t, k, h1, h2, h3, ?_, fun a b => h5 a b _ (ali_editDist _ _ _)⟩
  exact Nat.le_antisymm (h5 f t _ (ali_editDist _ _ _)) (editDist_le h4)

/-- the same, in the form of the property statement: whatever `LocatePattern` returns is such a triple -/
theorem locate_spec_of_eq (p frag : Bytes) (f t k : Int) (h : locatePattern p frag = some (f, t, k)) :
    0 ≤ f ∧ f ≤ t ∧ t ≤ (frag.length : Int) ∧
      k = (editDist samenuc p ((frag.drop f.toNat).take (t.toNat - f.toNat)) : Nat) ∧
      ∀ a b : Nat, k ≤ (editDist samenuc p ((frag.drop a).take (b - a)) : Nat) := by
  have hp : p ≠ [] := fun h0 => by rw [(locate_total p frag).2 h0] at h; cases h
  obtain ⟨f', t', k', h1, h2, h3, h4, h5⟩ := locate_spec p frag hp
  rw [h1] at h
  simp only [Option.some.injEq, Prod.mk.injEq] at h
  obtain ⟨rfl, rfl, rfl⟩ := h
  refine ⟨by omega, by omega, by omega, ?_, fun a b => by have := h5 a b; omega⟩
  simp only [Int.toNat_natCast]
  rw [← h4]

/-- `editDist` is the least cost of an alignment (`Ali`: the inductive definition of alignments with their cost) -/
theorem editDist_least (p w : Bytes) :
    Ali samenuc p w (editDist samenuc p w) ∧ ∀ k, Ali samenuc p w k → editDist samenuc p w ≤ k :=
  ⟨ali_editDist _ _ _, fun _ h => editDist_le h⟩

/-- tests of the specification function: plain Levenshtein distance for the equality predicate (kitten/sitting = 3);
IUPAC-aware for `_samenuc` (`N` against `a`: 0; `acgt` against `cgt`: 1) -/
example : editDist (fun a b : UInt8 => a == b) [107, 105, 116, 116, 101, 110] [115, 105, 116, 116, 105, 110, 103] = 3 := by decide
example : editDist samenuc ([78] : Bytes) [97] = 0 ∧ editDist samenuc ([65, 67, 71, 84] : Bytes) [99, 103, 116] = 1 := by decide

/-- tests (sample evaluations of the repaired model; each was a failing input of the unrepaired code):
D19 start −1; D19 pattern of length 1; D32 sequence shorter than the pattern -/
example : locatePattern ([65, 67, 71, 84] : Bytes) ([99, 103, 116, 116, 116] : Bytes) = some (0, 3, 1) := by decide
example : locatePattern ([65] : Bytes) ([99, 99, 97] : Bytes) = some (2, 3, 0) := by decide
example : locatePattern ([65, 67, 71, 84, 65] : Bytes) ([97, 99, 103, 97] : Bytes) = some (0, 4, 1) := by decide

/-- tests: indel automaton + re-alignment — first pattern symbol missing at offset 0 (`AllMatches`, D19 input class);
one deletion away from offset 0 (`BestMatch`, D18 input class: the end is 7, not 10) -/
example : (compile ([65, 67, 71, 84, 65] : Bytes) 1 true).toOption.map (fun P => allMatches P ([99, 103, 116, 97, 116, 116] : Bytes) false 0 (-1))
    = some (.ok [(0, 4, 1)]) := by decide
example : (compile ([65, 67, 71, 84, 65] : Bytes) 1 true).toOption.map (fun P => bestMatch P ([116, 116, 116, 97, 99, 116, 97, 116, 116] : Bytes) false 0 (-1))
    = some (.ok (3, 7, 1, true)) := by decide

end ObiVerif.Props.C10
