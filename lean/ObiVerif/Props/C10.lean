import ObiVerif.Model.Apat
import ObiVerif.Lemmas.Apat
import ObiVerif.Lemmas.ApatLocate
import ObiVerif.Lemmas.ApatIndel
import ObiVerif.Lemmas.ApatComp
import ObiVerif.Lemmas.ApatIndelOblig
import ObiVerif.Lemmas.ApatBest
import ObiVerif.Lemmas.ApatGrammar
import ObiVerif.Lemmas.ApatGrammarX
import ObiVerif.Lemmas.ApatComplete
import ObiVerif.Lemmas.ApatIupacSeq
import ObiVerif.Lemmas.ApatPure
import ObiVerif.Lemmas.ApatCircularAll
import ObiVerif.Lemmas.ApatLen64
import ObiVerif.Lemmas.ApatIndelRc
/-!
# C10 — primer pattern matching reports exactly the matching positions and error counts (property theorems)

Model: `ObiVerif.Apat` (`Model/Apat.lean`), a transcription of the C matcher (`apat_parse.c`, `apat_search.c`,
`obiapat.c`) and of its Go layer (`pattern.go`, `obialign/locatepattern.go`) **as repaired** by the five `fix:`
patches `notes/patches/C10-*.diff` (each defect was first shown on the real code by the harness oracle; the failing
case lines stay in the generator's corpus).  The tables `sDnaCode`, `LX_BIO_DNA_ALPHA`, `LX_BIO_CDNA_ALPHA`,
`PATMASK`, `OBLIBIT`, `MAX_PAT_LEN` are regenerated from /repo on every run (`ObiVerif.Gen`).

Proved here, for every pattern of 1..63 positions, every budget, every sequence and every window:
* `manberSub_exact`, `manberNoErr_exact`, `manberAll_exact`, `findAllIndex_exact`: mismatch-only matching reports exactly
  the positions whose Hamming distance (no mismatch at a `#` position) is within the budget, each with that distance
  (= the minimal count), `hits_sorted`: in strictly increasing order (each position once);
* `match_revcomp`: strand symmetry of mismatch-only matching, for the mirrored code list; `complement_table_mirror`
  (decided over the generated tables) says that complementing a letter mirrors its code;
* `dnaCode_is_iupac`, `dnaCode_acgt_only`: the generated IUPAC table is the IUPAC table;
* `locate_total`, `allMatches_total`: the repaired `LocatePattern` / `AllMatches` do not panic (non-empty pattern, linear
  sequence); `filterBestMatch_subset`, `findAllIndex_inside`: kept hits are reported hits, and end inside the sequence;
* `locate_spec` (+ `locate_spec_of_eq`, `editDist_least`): the repaired `LocatePattern p s` returns `(f, t, k)` with
  `0 ≤ f ≤ t ≤ |s|`, `k = editDist p s[f:t]` and `k ≤ editDist p s[a:b]` for every substring — a best semi-global alignment
  (`Lemmas/ApatLocate.lean`: the matrix holds the least reachable costs, the backtracking follows an alignment of that cost).
  False of the unrepaired code (D19, D32: witnesses in the corpus);
* `indel_iff` (+ `indel_hit_iff`, `manberAll_indel`, `findAllIndex_indel`): for a pattern of 1..63 positions WITHOUT obligatory
  (`#`) position, `manberIndel P d b l` contains `(pos-m+1, k)` iff `pos` is in the scanned window, `k ≤ e` and `k` is the least edit
  distance between the pattern and a substring of the window ending at `pos` (hence: a hit at `pos` iff some substring ending
  there is within the budget).  Automaton invariant `RepI` (`Lemmas/ApatIndel.lean`): after reading the window up to `pos`, bit
  `m-j` of the level-`d` word ⇔ `p[0..j)` aligns with some suffix of the text read with `≤ d` errors;
* `complement_mirror`, `match_revcomp_string`, `compile_grammar`: for every pattern string of the documented grammar
  (non-empty list of `['!'] (Letter | '[' Letter+ ']') ['#']`), the string-level `complementPattern` succeeds and yields the mirrored
  code list, so that `match_revcomp` holds without its `MirrorList` hypothesis (`Lemmas/ApatComp.lean`).

Second deepening round, proved:
* `indel_oblig_iff` (+ `indel_oblig_strict`, `oblig_never_error`, `strict_is_alignment`): `ManberIndel` for EVERY pattern of
  1..63 positions, obligatory (`#`) positions included: the hit `(pos-m+1, k)` is pushed iff `k ≤ e` is the least cost of an
  alignment `ReachO` of the pattern with a suffix of the window read up to `pos`; `ReachO` (`Lemmas/ApatIndelOblig.lean`) =
  edit alignments in which an obligatory position is never substituted nor deleted and no symbol is inserted right after it,
  plus the start exception of the C init loop (any pattern prefix counts as deleted in front of the first symbol of the window).
  An end position at least `m + k - 1` symbols away from the window start is reported through a strict alignment only: there a
  `#` position never counts as an error (`oblig_never_error`) and the count is the cost of an ordinary alignment;
* `bestOf_leftmost_min`: the selection loop of `BestMatch` returns the leftmost raw hit of minimal error level;
  `raw_hits_within_budget`, `raw_hits_sorted`;
* `filterBestMatch_cover`, `filterBestMatch_chain`: `FilterBestMatch` (as repaired: first hit beyond position 10000) keeps for
  every raw hit a hit with at most as many errors, and two kept hits never overlap;
* `compile_grammar_iff`, `position_semantics`: `MakeApatPattern` accepts exactly the documented grammar (strings without the exotic
  adjacencies `##`, `!#`, `!!`), and a compiled position accepts exactly the IUPAC class of its letters (negated for `!`),
  obligatory iff `#`;
* `allMatches_spec`, `bestMatch_spec`: the composition of the automaton and of `LocatePattern` in `AllMatches` / `BestMatch` on a
  linear sequence: every returned triple is within the budget and is a raw hit passed unchanged, or (indel mode) a span inside
  the sequence whose reported error count IS the edit distance between the pattern string and that span.

Third round (second deepening pass), proved — see the section "round 2" at the end of this file:
* `allMatches_complete`, `allMatches_complete_substring`, `bestMatch_complete`, `bestMatch_matched_iff`, `pure_pattern_complete`:
  COMPLETENESS of `AllMatches` / `BestMatch` in indel mode on a linear sequence (the oracle `all.iff` of the first round is now a
  theorem): every substring of the window within the budget gives a raw hit, every raw hit is represented by a hit kept by
  `FilterBestMatch` (at most as many errors, linked by a chain of overlapping hits), the re-alignment fragment of a kept hit —
  clipped at both ends of the sequence — contains a substring witnessing its error level, hence `LocatePattern` returns a span
  with at most as many errors, exactly its `_samenuc` distance, minimal over all substrings of the fragment, and the budget
  filter keeps it.  Hypothesis `Compat`: `_samenuc` agrees with every acceptance of the compiled classes — true for
  letters-only patterns without `X` (`pure_pattern_compat`), false for `X` (`samenuc_X_differs`, `x_pattern_dropped`: a
  match within the budget is dropped by `AllMatches` and reported with more errors than the budget by `BestMatch`: proposed
  finding).  `BestMatch` as repaired in this round (`C10-bestmatch-shifted-start`: a best hit with a shifted, negative start was
  answered `matched = false`);
* `samenuc_vs_compiled`, `seq_ambiguity_code_is_exact`, `seq_ambiguity_both_strands`: the IUPAC SEQUENCE side — a sequence symbol
  that is not one of `a c g t` is an exact code word for the matcher (accepted by no un-negated position, by every negated one),
  on both strands (`u` excepted: D34), whereas `_samenuc` treats it as a class (`errcount_differs_on_ambiguity`);
* `makeApatPattern_guard`, `budget_in_bounds`, `budget_overrun_unguarded`: the budget guard of `buildPattern` (repaired in this
  round, `C10-budget-overrun`: a budget ≥ 64 overran `r[2*MAX_PAT_ERR+2]`, SIGSEGV on the real code);
* `compile_grammar_full`, `compile_codes_full`, `xposition_semantics`: `MakeApatPattern` accepts EXACTLY the strings of canonical
  lists of extended positions `'!'* (Letter | '[' Letter+ ']' | '#') ['#']` — no `plain` hypothesis — and what they compile to
  (`A##` = `A#` + an obligatory position accepting nothing; `!#` = obligatory "anything"; `!!A` = `A`);
* circular `AllMatches` / `BestMatch` (known finding D35 stays open) — exact characterisation: `allMatches_circular_panic_iff`,
  `allMatches_mismatch_is_filter` (exact / mismatch-only mode is not affected), `allMatches_circular_affected`,
  `allMatches_circular_inside_ok`, `bestMatch_circular_char`, counterexamples `circular_*`.

Fourth round (third deepening pass), proved — section "round 3" at the end of this file:
* the pattern-length bound.  Every theorem above carries the explicit hypothesis `1 ≤ P.patlen ≤ 63` (`patlen_63_covered`: the
  bound is reached, a 63-position pattern compiles and satisfies it); `MakeApatPattern` accepts 64 positions = `MAX_PAT_LEN`
  (`len64_accepted`) and there the statement is FALSE: `len64_no_exact_automaton` (for NO value of the undefined shift
  `0x1L << 64` does the exact-matching automaton answer correctly on both `a^64` and `c a^63` for the pattern `A^64`),
  `len64_not_exact`, `manberNoErr_exact_fails_at_64` (the statement of `manberNoErr_exact` with `patlen ≤ 64` is refuted),
  `len64_d33_witness` (`ACGT`x16, one error, on `acgt`x20: five exact occurrences; `ManberSub` reports nothing with the shift
  value 0 and with the x86 value 1; `ManberIndel` reports nothing resp. all 80 end positions with one error — what the real
  code answers; known finding D33 stays open).

* strand symmetry WITH INDELS (until now the oracle `find.revcomp-indel` only): `editDist_strand` (the edit distance of the
  complemented pattern to `d[a:b]` is the edit distance of the pattern to the mirrored substring `rc(d)[n-b : n-a]`),
  `match_revcomp_indel` (for every error level `K`: the complemented pattern has a hit with at most `K` errors on `d` iff the
  pattern has one on `rc(d)` — so a match is reported on one strand iff on the other, with the same best error count),
  `match_revcomp_indel_locus` (a hit ending at `pos` with witness substring `d[a..pos]` ↔ a hit ending at the mirror image of `a`
  with at most as many errors), `match_revcomp_indel_string` (the same for the pattern returned by `ReverseComplement`, for
  every pattern string of the grammar without `#`);
* strand symmetry at the level of the Go API, on the stored bytes with the `obiseq` reverse complement (`SeqOps.rc`, C07's model):
  `findAllIndex_revcomp` (`FindAllIndex` of the complemented pattern on `seq` ≡ `FindAllIndex` of the pattern on
  `seq.ReverseComplement()` with `(s, e, k) ↦ (n - e, n - s, k)`, exact / mismatch-only mode), `findAllIndex_revcomp_string` (the same
  for `MakeApatPattern(p).ReverseComplement()`, every pattern string of the documented grammar), `findAllIndex_revcomp_indel`
  (with indels, per error level);
* `findAllIndex_circular_is_extended` (+ `findAllIndex_indel_circular`): `FindAllIndex` on a circular sequence IS `FindAllIndex` on
  the linear sequence extended by its first `min(len, MAX_PAT_LEN)` symbols, so that every theorem about linear sequences
  describes the raw hits on circular ones, in every mode.

NOT proved / excluded (tied by the correspondence check and the harness oracle only, see lib/cfg/C10.py):
* `complementPattern` outside the documented grammar (`complement_outside_grammar`: `A##A` ↦ `T##T`, `A##` ↦ rejected);
* `AllMatches` / `BestMatch` for patterns with `!`, `#`, `[`: `LocatePattern` compares the raw pattern string (documented
  restriction of `AllMatches`); completeness is proved for letters-only patterns without `X`;
* pattern length 64 (D33): undefined behaviour in C, result lines printed `unmodelled`; refuted above for every value of the shift.
-/
namespace ObiVerif.Props.C10
open ObiVerif ObiVerif.Apat

/-! ## the generated IUPAC table -/

/-- bit masks of the four bases in the 26-letter alphabet: a = bit 0, c = bit 2, g = bit 6, t = bit 19 -/
def acgtMask : Nat := 1 ||| 4 ||| 64 ||| 524288

/-- every class of `sDnaCode` is a set of bases: an ambiguous *sequence* symbol is accepted by no un-negated position -/
theorem dnaCode_acgt_only : ∀ code ∈ Gen.apatDnaCode, code &&& acgtMask = code := by decide

/-- the IUPAC meaning of the 26 letters (as sets of bases a,c,g,t coded 1,4,64,524288; 0 = not a nucleotide code) -/
def iupacSpec : List Nat :=
  [ 1,                    -- A
    4 + 64 + 524288,      -- B = C,G,T
    4,                    -- C
    1 + 64 + 524288,      -- D = A,G,T
    0, 0,
    64,                   -- G
    1 + 4 + 524288,       -- H = A,C,T
    0, 0,
    64 + 524288,          -- K = G,T
    0,
    1 + 4,                -- M = A,C
    1 + 4 + 64 + 524288,  -- N
    0, 0, 0,
    1 + 64,               -- R = A,G
    4 + 64,               -- S = C,G
    524288,               -- T
    524288,               -- U
    1 + 4 + 64,           -- V = A,C,G
    1 + 524288,           -- W = A,T
    1 + 4 + 64 + 524288,  -- X (any)
    4 + 524288,           -- Y = C,T
    0 ]

/-- the table compiled into the matcher is the IUPAC table (decided over the table regenerated from apat_parse.c) -/
theorem dnaCode_is_iupac : Gen.apatDnaCode = iupacSpec := by decide

theorem constants : Gen.apatMaxPatLen = 64 ∧ Gen.apatAlphaLen = 26 ∧ Gen.apatPatMask = 2 ^ 26 - 1 ∧ Gen.apatObliBit = 2 ^ 26 := by
  decide

/-! ## mismatch-only matching is exact -/

/-- **`ManberSub` is exact.**  For a pattern of 1..63 positions, any budget, any encoded text and any window
`(begin, length)`: `(i, k)` is reported iff the pattern lies at `i` inside the scanned window
`[begin, min(begin+length, |data|))`, the Hamming distance between the pattern and the text there — with no
mismatch at an obligatory position — is `k`, and `k ≤ maxerr`.  `k` is therefore the minimal mismatch count. -/
theorem manberSub_exact (P : Pattern) (data : List Nat) (begin length : Nat)
    (hm1 : 1 ≤ P.patlen) (hm : P.patlen ≤ 63) (hd : ∀ c ∈ data, c < 26) (i : Int) (k : Nat) :
    (i, k) ∈ manberSub P data begin length ↔
      ∃ i' : Nat, i = (i' : Int) ∧ begin ≤ i' ∧ i' + P.patlen ≤ min (begin + length) data.length ∧
        hamCost P.codes (data.drop i') = some k ∧ k ≤ P.maxerr :=
  manberSub_mem P data begin length hm1 hm hd i k

/-- non-vacuity: a pattern with an IUPAC class, a negation and an obligatory position; budget 1 -/
example : (compile ([65, 67, 33, 71, 84, 35, 78] : Bytes) 1 false).toOption.map (fun P => (P.patlen, manberSub P [0, 2, 0, 19, 6, 0, 2, 2, 19, 19] 0 10))
    = some (5, [(0, 0), (5, 0)]) := by decide

/-- **`ManberNoErr` is exact** (budget 0: exact occurrences only) -/
theorem manberNoErr_exact (P : Pattern) (data : List Nat) (begin length : Nat)
    (hm1 : 1 ≤ P.patlen) (hm : P.patlen ≤ 63) (hd : ∀ c ∈ data, c < 26) (i : Int) (k : Nat) :
    (i, k) ∈ manberNoErr P data begin length ↔
      ∃ i' : Nat, i = (i' : Int) ∧ begin ≤ i' ∧ i' + P.patlen ≤ min (begin + length) data.length ∧
        hamCost P.codes (data.drop i') = some 0 ∧ k = 0 := by
  rw [manberNoErr_eq_sub, manberSub_mem { P with maxerr := 0 } data begin length hm1 hm hd]
  constructor
  · rintro ⟨i', h1, h2, h3, h4, h5⟩
    have : k = 0 := by simpa using h5
    subst this
    exact ⟨i', h1, h2, h3, h4, rfl⟩
  · rintro ⟨i', h1, h2, h3, h4, h5⟩
    subst h5
    exact ⟨i', h1, h2, h3, h4, Nat.le_refl _⟩

/-- **`ManberAll` without indels** (or with a zero budget, where the indel flag is ignored) is exact -/
theorem manberAll_exact (P : Pattern) (data : List Nat) (begin length : Nat)
    (hmode : P.hasIndel = false ∨ P.maxerr = 0)
    (hm1 : 1 ≤ P.patlen) (hm : P.patlen ≤ 63) (hd : ∀ c ∈ data, c < 26) (i : Int) (k : Nat) :
    (i, k) ∈ manberAll P data begin length ↔
      ∃ i' : Nat, i = (i' : Int) ∧ begin ≤ i' ∧ i' + P.patlen ≤ min (begin + length) data.length ∧
        hamCost P.codes (data.drop i') = some k ∧ k ≤ P.maxerr := by
  unfold manberAll
  by_cases h0 : P.maxerr = 0
  · simp only [h0, beq_self_eq_true, if_true]
    rw [manberNoErr_exact P data begin length hm1 hm hd]
    constructor
    · rintro ⟨i', h1, h2, h3, h4, h5⟩; subst h5; exact ⟨i', h1, h2, h3, h4, Nat.le_refl _⟩
    · rintro ⟨i', h1, h2, h3, h4, h5⟩
      have : k = 0 := by omega
      subst this; exact ⟨i', h1, h2, h3, h4, rfl⟩
  · have hi : P.hasIndel = false := by rcases hmode with h | h; exact h; exact absurd h h0
    have hb : (P.maxerr == 0) = false := by simpa using h0
    simp only [hb, hi, Bool.false_eq_true, if_false]
    exact manberSub_mem P data begin length hm1 hm hd i k

/-- the hits are pushed in strictly increasing order of position: every position is reported at most once -/
theorem hits_sorted (P : Pattern) (data : List Nat) (begin length : Nat) :
    (manberSub P data begin length).Pairwise (fun a b => a.1 < b.1) ∧
    (manberIndel P data begin length).Pairwise (fun a b => a.1 < b.1) ∧
    (manberNoErr P data begin length).Pairwise (fun a b => a.1 < b.1) := by
  refine ⟨errScan_sorted _ _ _ _ _ _, errScan_sorted _ _ _ _ _ _, ?_⟩
  rw [manberNoErr_eq_sub]
  exact errScan_sorted _ _ _ _ _ _

theorem encode_lt (seq : Bytes) : ∀ c ∈ seq.map encodeByte, c < 26 := by
  intro c hc
  rw [List.mem_map] at hc
  obtain ⟨b, _, rfl⟩ := hc
  unfold encodeByte isLower
  split
  · rename_i h
    simp only [Bool.and_eq_true, decide_eq_true_eq] at h
    have h2 : b.toNat ≤ 122 := by
      have := h.2; exact UInt8.le_iff_toNat_le.mp this
    omega
  · omega

/-- **`ApatPattern.FindAllIndex` on a linear sequence, mismatch-only**: the `[3]int` triples are exactly
`(i, i+m, k)` for the positions `i ≥ max(begin,0)` with `i+m ≤ min(begin+length+MAX_PAT_LEN, len)` (`length < 0` meaning
the sequence length) where the pattern is at Hamming distance `k ≤ maxerr` from the sequence. -/
theorem findAllIndex_exact (P : Pattern) (seq : Bytes) (begin length : Int)
    (hmode : P.hasIndel = false ∨ P.maxerr = 0) (hm1 : 1 ≤ P.patlen) (hm : P.patlen ≤ 63) (s e k : Int) :
    (s, e, k) ∈ findAllIndex P seq false begin length ↔
      ∃ i' k' : Nat, s = (i' : Int) ∧ e = (i' : Int) + P.patlen ∧ k = (k' : Int) ∧
        (if begin < 0 then 0 else begin).toNat ≤ i' ∧
        i' + P.patlen ≤ min ((if begin < 0 then 0 else begin).toNat +
            ((if length < 0 then (seq.length : Int) else length).toNat + Gen.apatMaxPatLen)) seq.length ∧
        hamCost P.codes ((seq.map encodeByte).drop i') = some k' ∧ k' ≤ P.maxerr := by
  unfold findAllIndex seqData
  simp only [Bool.false_eq_true, if_false, List.mem_map, Prod.mk.injEq, Prod.exists]
  constructor
  · rintro ⟨a, b, hmem, h1, h2, h3⟩
    obtain ⟨i', hi, hb, he, hc, hk⟩ := (manberAll_exact P _ _ _ hmode hm1 hm (encode_lt seq) a b).1 hmem
    refine ⟨i', b, by omega, by omega, by omega, hb, by simpa using he, hc, hk⟩
  · rintro ⟨i', k', h1, h2, h3, hb, he, hc, hk⟩
    refine ⟨(i' : Int), k', ?_, by omega, by omega, by omega⟩
    exact (manberAll_exact P _ _ _ hmode hm1 hm (encode_lt seq) _ _).2 ⟨i', rfl, hb, by simpa using he, hc, hk⟩

/-- non-vacuity / test: both ends of the sequence, a window, budget 1 -/
example : (compile ([65, 67, 71, 84] : Bytes) 1 false).toOption.map (fun P => findAllIndex P ([97, 99, 103, 116, 116, 116, 116, 116, 97, 99, 103, 116] : Bytes) false 0 (-1))
    = some [(0, 4, 0), (8, 12, 0)] := by decide

/-! ## matching with insertions, deletions and substitutions -/

/-- **`ManberIndel` is exact** (`indel_iff`).  For a pattern of 1..63 positions without obligatory (`#`) position, any
budget, any encoded text and any window: the hit `(i, k)` is pushed iff `i = pos - m + 1` for an end position `pos` of the
scanned window `[begin, min(begin+length, |data|))`, `k ≤ maxerr`, and `k` is the least edit distance (`editDist`, a
text symbol being equal to a pattern position when the position accepts it) between the pattern and a substring
`data[a .. pos]` (`begin ≤ a ≤ pos + 1`; the empty substring included) of the window ending at `pos`.
Proof: the automaton invariant `RepI` — after reading `data[begin .. pos]`, bit `m - j` of the level-`d` word ⇔ `p[0..j)`
aligns with some suffix of the text read with `≤ d` errors (`Lemmas/ApatIndel.lean`).
The hypothesis `hno` excludes obligatory positions: with `#` the C code masks the error transitions of the obligatory
column by `cmask`, a semantics that the property does not describe (tied by the correspondence check only). -/
theorem indel_iff (P : Pattern) (data : List Nat) (begin length : Nat)
    (hm1 : 1 ≤ P.patlen) (hm : P.patlen ≤ 63) (hd : ∀ c ∈ data, c < 26)
    (hno : ∀ a ∈ P.codes, oblig a = false) (i : Int) (k : Nat) :
    (i, k) ∈ manberIndel P data begin length ↔
      ∃ pos : Nat, begin ≤ pos ∧ pos < min (begin + length) data.length ∧ i = (pos : Int) - P.patlen + 1 ∧ k ≤ P.maxerr ∧
        (∃ a, begin ≤ a ∧ a ≤ pos + 1 ∧ editDist accepts P.codes ((data.drop a).take (pos + 1 - a)) = k) ∧
        (∀ a, begin ≤ a → a ≤ pos + 1 → k ≤ editDist accepts P.codes ((data.drop a).take (pos + 1 - a))) :=
  manberIndel_mem P data begin length hm1 hm hd hno i k

/-- **a hit is reported at an end position iff some substring of the window ending there is within the budget** -/
theorem indel_hit_iff (P : Pattern) (data : List Nat) (begin length : Nat)
    (hm1 : 1 ≤ P.patlen) (hm : P.patlen ≤ 63) (hd : ∀ c ∈ data, c < 26)
    (hno : ∀ a ∈ P.codes, oblig a = false) (pos : Nat) :
    (∃ k, ((pos : Int) - P.patlen + 1, k) ∈ manberIndel P data begin length) ↔
      begin ≤ pos ∧ pos < min (begin + length) data.length ∧
        ∃ a, begin ≤ a ∧ a ≤ pos + 1 ∧ editDist accepts P.codes ((data.drop a).take (pos + 1 - a)) ≤ P.maxerr :=
  manberIndel_hit_iff P data begin length hm1 hm hd hno pos

/-- `ManberAll` with the indel flag and a non-zero budget is `ManberIndel` -/
theorem manberAll_indel (P : Pattern) (data : List Nat) (begin length : Nat)
    (hi : P.hasIndel = true) (he : P.maxerr ≠ 0) :
    manberAll P data begin length = manberIndel P data begin length := by
  unfold manberAll
  have hb : (P.maxerr == 0) = false := by simpa using he
  simp [hb, hi]

/-- **`FindAllIndex` on a linear sequence, indel mode**: the triple `(s, s+m, k)` is reported iff `s = pos - m + 1` for
an end position `pos` of the window, and `k ≤ maxerr` is the least edit distance between the pattern and a substring of
the window ending at `pos`. -/
theorem findAllIndex_indel (P : Pattern) (seq : Bytes) (begin length : Int)
    (hi : P.hasIndel = true) (he : P.maxerr ≠ 0) (hm1 : 1 ≤ P.patlen) (hm : P.patlen ≤ 63)
    (hno : ∀ a ∈ P.codes, oblig a = false) (s e k : Int) :
    (s, e, k) ∈ findAllIndex P seq false begin length ↔
      ∃ pos k' : Nat, s = (pos : Int) - P.patlen + 1 ∧ e = s + P.patlen ∧ k = (k' : Int) ∧
        (if begin < 0 then 0 else begin).toNat ≤ pos ∧
        pos < min ((if begin < 0 then 0 else begin).toNat +
            ((if length < 0 then (seq.length : Int) else length).toNat + Gen.apatMaxPatLen)) seq.length ∧
        k' ≤ P.maxerr ∧
        (∃ a, (if begin < 0 then 0 else begin).toNat ≤ a ∧ a ≤ pos + 1 ∧
          editDist accepts P.codes (((seq.map encodeByte).drop a).take (pos + 1 - a)) = k') ∧
        (∀ a, (if begin < 0 then 0 else begin).toNat ≤ a → a ≤ pos + 1 →
          k' ≤ editDist accepts P.codes (((seq.map encodeByte).drop a).take (pos + 1 - a))) := by
  unfold findAllIndex seqData
  simp only [Bool.false_eq_true, if_false, List.mem_map, Prod.mk.injEq, Prod.exists]
  rw [manberAll_indel P _ _ _ hi he]
  constructor
  · rintro ⟨a, b, hmem, h1, h2, h3⟩
    obtain ⟨pos, hb, hp, hi', hk, hex, hall⟩ := (indel_iff P _ _ _ hm1 hm (encode_lt seq) hno a b).1 hmem
    refine ⟨pos, b, by omega, by omega, by omega, hb, by simpa using hp, hk, hex, hall⟩
  · rintro ⟨pos, k', h1, h2, h3, hb, hp, hk, hex, hall⟩
    refine ⟨s, k', ?_, rfl, by omega, by omega⟩
    exact (indel_iff P _ _ _ hm1 hm (encode_lt seq) hno _ _).2 ⟨pos, hb, by simpa using hp, h1, hk, hex, hall⟩

/-- test: why `hno` is there — with an obligatory position the indel automaton has no uniform meaning: pattern `A#C`,
budget 1: the text `c` is reported (obligatory `A` deleted, through the initial state) but `tc` is not (same on the real code) -/
example : (compile ([65, 35, 67] : Bytes) 1 true).toOption.map (fun P => (manberIndel P [2] 0 1, manberIndel P [19, 2] 0 2))
    = some ([(-1, 1)], []) := by decide

/-- non-vacuity / test: pattern `ACGTA`, budget 1, indels; the hits are the end positions 3 (`cgta`: first pattern
symbol deleted, reported start −1: "may return shifted pos") and 11 (`accgta`, one inserted symbol, or `cgta`) -/
example : (compile ([65, 67, 71, 84, 65] : Bytes) 1 true).toOption.map
    (fun P => (decide (∀ a ∈ P.codes, oblig a = false), P.patlen, manberIndel P [2, 6, 19, 0, 19, 19, 0, 2, 2, 6, 19, 0] 0 12,
      editDist accepts P.codes [2, 6, 19, 0], editDist accepts P.codes [0, 2, 2, 6, 19, 0]))
    = some (true, 5, [(-1, 1), (7, 1)], 1, 1) := by decide

/-! ## indels with obligatory positions -/

/-- **`ManberIndel`, obligatory positions included** (`indel_oblig_iff`).  For every pattern of 1..63 positions, any budget,
text and window: the hit `(i, k)` is pushed iff `i = pos - m + 1` for an end position `pos` of the scanned window, `k ≤ maxerr`,
and `k` is the least cost of an alignment `ReachO` (lists reversed) of the whole pattern with a suffix of the text
`data[begin .. pos]` read since the start of the window.  `ReachO`: identity; substitution, insertion after, deletion of a
position that is NOT obligatory; and the start rule of the init loop. -/
theorem indel_oblig_iff (P : Pattern) (data : List Nat) (begin length : Nat)
    (hm1 : 1 ≤ P.patlen) (hm : P.patlen ≤ 63) (hd : ∀ c ∈ data, c < 26) (i : Int) (k : Nat) :
    (i, k) ∈ manberIndel P data begin length ↔
      ∃ pos : Nat, begin ≤ pos ∧ pos < min (begin + length) data.length ∧ i = (pos : Int) - P.patlen + 1 ∧ k ≤ P.maxerr ∧
        IsLeast (ReachO P.codes.reverse (((data.drop begin).take (pos + 1 - begin)).reverse)) k :=
  manberIndel_oblig_mem P data begin length hm1 hm hd i k

/-- **away from the window start every reported alignment is strict**: a hit `(pos - m + 1, k)` whose end position is at
least `m + k - 1` symbols after `begin` comes from an alignment `ReachS` — the rules of `ReachO` without the start exception. -/
theorem indel_oblig_strict (P : Pattern) (data : List Nat) (begin length : Nat)
    (hm1 : 1 ≤ P.patlen) (hm : P.patlen ≤ 63) (hd : ∀ c ∈ data, c < 26) (pos k : Nat)
    (h : ((pos : Int) - P.patlen + 1, k) ∈ manberIndel P data begin length) (hfar : begin + P.patlen + k ≤ pos + 2) :
    ReachS P.codes.reverse (((data.drop begin).take (pos + 1 - begin)).reverse) k := by
  obtain ⟨pos', h1, h2, h3, _, h5, _⟩ := (indel_oblig_iff P data begin length hm1 hm hd _ k).1 h
  have : pos' = pos := by omega
  subst this
  apply reachO_strict_of_long h5
  simp only [List.length_reverse, List.length_take, List.length_drop, Pattern.patlen] at *
  omega

/-- **a `#` position never counts as an error** in a strict alignment: if the last position of the aligned pattern prefix
is obligatory, the alignment ends with a text symbol that this position accepts, at no cost (inversion of `ReachS`; by
induction every obligatory position of the pattern is matched by a symbol of its class) -/
theorem oblig_never_error (a : Nat) (rq s : List Nat) (k : Nat) (h : ReachS (a :: rq) s k) (ho : oblig a = true) :
    ∃ c s', s = c :: s' ∧ accepts a c = true ∧ ReachS rq s' k := by
  cases h with
  | id ha h' => exact ⟨_, _, rfl, ha, h'⟩
  | sub ho' _ _ => rw [ho] at ho'; cases ho'
  | ins ho' _ => rw [ho] at ho'; cases ho'
  | del ho' _ => rw [ho] at ho'; cases ho'

/-- a strict alignment is an ordinary alignment (`Ali`, the relation `editDist` minimises) of the pattern prefix with a
suffix of the text read: its cost is at least the plain edit distance to the best substring ending there -/
theorem strict_is_alignment (rq s : List Nat) (k : Nat) (h : ReachS rq s k) : Reach accepts false rq s k :=
  reachS_reach h

/-- tests / non-vacuity (evaluation of the model; the real code gives the same lists): pattern `A#C`, budget 1, indels.
`c`: reported through the start exception (the obligatory `A` deleted in front of the window); `tc`: not reported;
`gac`: end positions 1 (`a`, `C` deleted) and 2 (`ac`, cost 0); `agc`: end positions 0 and 1 (`a`; `ag`, `C` substituted) but
NOT 2 — `a g c` would need an insertion right after the obligatory `A`;
pattern `AC#` on `agc`: hit with one error at end position 2 (an insertion BEFORE an obligatory position is allowed). -/
example : (compile ([65, 35, 67] : Bytes) 1 true).toOption.map (fun P => (manberIndel P [2] 0 1, manberIndel P [19, 2] 0 2))
    = some ([(-1, 1)], []) := by decide
example : (compile ([65, 35, 67] : Bytes) 1 true).toOption.map (fun P => (manberIndel P [6, 0, 2] 0 3, manberIndel P [0, 6, 2] 0 3))
    = some ([(0, 1), (1, 0)], [(-1, 1), (0, 1)]) := by decide
example : (compile ([65, 67, 35] : Bytes) 1 true).toOption.map (fun P => manberIndel P [0, 6, 2] 0 3)
    = some [(1, 1)] := by decide
/-- the two alignments behind the first and the last of these tests, as `ReachO` derivations -/
example : ReachO [4, 67108865] [2] 1 ∧ ReachO [67108868, 1] [2, 6, 0] 1 := by
  refine ⟨?_, ?_⟩
  · exact ReachO.id (by decide) (ReachO.start [67108865])
  · exact ReachO.id (by decide) (ReachO.ins (by decide) (ReachO.id (by decide) (ReachO.nil [])))

/-! ## strand symmetry -/

instance (a a' : Nat) : Decidable (MirrorCode a a') := by unfold MirrorCode; exact inferInstance

/-- complementing a pattern letter with the C table `LX_BIO_CDNA_ALPHA` mirrors its class with respect to the
sequence complement of `obiseq` (decided over the three generated tables; sequence symbol `u` excepted, see
`MirrorCode`) -/
theorem complement_table_mirror :
    ∀ l, l < 26 → MirrorCode (Gen.apatDnaCode.getD l 0)
      (Gen.apatDnaCode.getD ((baseComplement (UInt8.ofNat (65 + l))).toNat - 65) 0) := by decide

/-- the mirror relation is preserved by the two class constructors of the pattern grammar: union (`[...]`) and
negation (`!`) -/
theorem mirror_union (a a' b b' : Nat) (ha : MirrorCode a a') (hb : MirrorCode b b')
    (hoa' : oblig (a' ||| b') = false) (ho : oblig (a ||| b) = false) :
    MirrorCode (a ||| b) (a' ||| b') := by
  refine ⟨by rw [hoa', ho], ?_⟩
  intro c hc hu
  unfold accepts
  rw [Nat.testBit_or, Nat.testBit_or]
  have h1 := ha.2 c hc hu
  have h2 := hb.2 c hc hu
  unfold accepts at h1 h2
  rw [h1, h2]

/-- **matching the reverse-complemented pattern ≡ matching the pattern on the reverse-complemented sequence with
mirrored coordinates** (mismatch-only, whole-sequence search; `P'` is any pattern whose code list is the mirror of
`P`'s — what `complementPattern` computes; the sequence contains letters only and no `u`) -/
theorem match_revcomp (P P' : Pattern) (d : List Nat) (hmir : MirrorList P.codes.reverse P'.codes)
    (he : P'.maxerr = P.maxerr) (hm1 : 1 ≤ P.patlen) (hm : P.patlen ≤ 63)
    (hd : ∀ c ∈ d, c < 26 ∧ c ≠ 20) (i : Int) (k : Nat) :
    (i, k) ∈ manberSub P' d 0 d.length ↔
      ∃ i' : Nat, i = (i' : Int) ∧ i' + P.patlen ≤ d.length ∧
        (((d.length - i' - P.patlen : Nat) : Int), k) ∈ manberSub P (rcData d) 0 d.length :=
  manberSub_revcomp P P' d hmir he hm1 hm hd i k

/-- the byte-level reverse complement of `obiseq` (C07's model) is `rcData` on the encoded symbols, for letters -/
theorem encode_comp : ∀ c, c < 26 →
    encodeByte (SeqOps.nucComplement (UInt8.ofNat (97 + c))) = compSym (encodeByte (UInt8.ofNat (97 + c))) ∧
    isLower (SeqOps.nucComplement (UInt8.ofNat (97 + c))) = true := by decide

/-- test (sample evaluation, now an instance of `complement_mirror`): the string-level complement of a pattern using every token kind -/
example : (do
    let P ← (compile ([65, 35, 67, 33, 91, 71, 84, 93, 33, 82, 78, 91, 65, 67, 93, 35] : Bytes) 2 false).toOption
    let R ← (reverseComplement P).toOption
    pure (R.cpat, R.patlen == P.patlen)) = some (([91, 71, 84, 93, 35, 78, 33, 89, 33, 91, 65, 67, 93, 71, 84, 35] : Bytes), true) := by decide

/-! ## the string-level complement

The documented pattern grammar: a non-empty list of positions `['!'] (Letter | '[' Letter+ ']') ['#']` (`Tok`, with
`Tok.WF`: upper-case letters, at least one, exactly one outside brackets; `patStr ts` is the pattern string, `Tok.code`
the accepted-letter set | `OBLIBIT`; `Tok.comp` complements the letters). -/

/-- **`MakeApatPattern` on a pattern of the grammar** compiles, one code word per position -/
theorem compile_grammar (ts : List Tok) (hts : ∀ t ∈ ts, t.WF) (hne : ts ≠ []) (e : Nat) (b : Bool) :
    compile (patStr ts) e b = .ok ⟨patStr ts, ts.map Tok.code, e, b⟩ :=
  compile_pat ts hts hne e b

/-- **`MakeApatPattern` accepts exactly the documented grammar** (`compile_grammar_iff`), for pattern strings without the three
exotic adjacencies `##`, `!#`, `!!` (`plain`, a decidable condition on the upper-cased C string): the pattern compiles iff its
upper-cased C string is the string of a non-empty list of well-formed positions `['!'] (Letter | '[' Letter+ ']') ['#']`.
(Without `plain` the direction ⇒ is false: `CheckPattern` accepts `A##`, `!#`, `!!A`; see `complement_outside_grammar`.) -/
theorem compile_grammar_iff (pat : Bytes) (e : Nat) (b : Bool) (hpl : plain (upperSeq (cString pat)) = true) :
    (∃ P, compile pat e b = .ok P) ↔
      ∃ ts : List Tok, (∀ t ∈ ts, t.WF) ∧ ts ≠ [] ∧ upperSeq (cString pat) = patStr ts := by
  constructor
  · rintro ⟨P, h⟩
    unfold compile at h
    simp only at h
    split at h
    · cases h
    · rename_i hck
      split at h
      · cases h
      · rename_i codes henc
        apply checkPattern_grammar _ _ (by simpa using hck) hpl
        intro h0
        rw [h0] at henc
        simp [encodePattern, tokens] at henc
  · rintro ⟨ts, hts, hne, heq⟩
    refine ⟨⟨patStr ts, ts.map Tok.code, e, b⟩, ?_⟩
    unfold compile
    simp only [heq, check_pat ts hts, encode_pat ts hts hne, Bool.not_true, Bool.false_eq_true, if_false]

/-- non-vacuity: `a[ct]!g#N` (lower case, NUL-terminated) is plain and compiles to 4 positions; `A##` is not plain -/
example : plain (upperSeq (cString ([97, 91, 99, 116, 93, 33, 103, 35, 78, 0, 65] : Bytes))) = true ∧
    ((compile ([97, 91, 99, 116, 93, 33, 103, 35, 78, 0, 65] : Bytes) 1 false).toOption.map Pattern.patlen) = some 4 ∧
    plain ([65, 35, 35] : Bytes) = false := by decide

/-- **what a compiled position accepts** (`position_semantics`): position `t` of a pattern of the grammar accepts the sequence
symbol `c` (a letter, `c < 26` = `c - 'a'`) iff `c` belongs to the IUPAC class (`sDnaCode`, = `iupacSpec` by `dnaCode_is_iupac`)
of one of the letters of the position — negated for `!`; and the position is obligatory iff it carries `#`.  With
`compile_grammar` (`codes = ts.map Tok.code`) this is the meaning of every compiled code word. -/
theorem position_semantics (t : Tok) (ht : t.WF) (c : Nat) (hc : c < 26) :
    accepts t.code c = ((t.letters.any fun l => (Gen.apatDnaCode.getD (l.toNat - 65) 0).testBit c) ^^ t.neg) ∧
    oblig t.code = t.oblig := by
  refine ⟨?_, oblig_code t⟩
  rw [accepts_code t c hc, valLetters_bit t.letters c ht.1]

/-- **`complementPattern` yields the mirrored code list**: for every pattern string of the grammar, the compiled
pattern `P` is reverse-complemented (`complementPattern`: complement every character, reverse the string, re-attach the
`!` and `#` modifiers, re-encode) without error into the pattern of the reversed list of complemented positions, whose
code list is the mirror (`MirrorList`) of the reversed code list of `P` — the hypothesis of `match_revcomp`. -/
theorem complement_mirror (ts : List Tok) (hts : ∀ t ∈ ts, t.WF) (hne : ts ≠ []) (e : Nat) (b : Bool) :
    ∃ P P' : Pattern, compile (patStr ts) e b = .ok P ∧ reverseComplement P = .ok P' ∧
      P'.cpat = patStr (ts.reverse.map Tok.comp) ∧ P'.maxerr = P.maxerr ∧ P'.hasIndel = P.hasIndel ∧
      P'.patlen = P.patlen ∧ P.patlen = ts.length ∧ MirrorList P.codes.reverse P'.codes := by
  obtain ⟨h1, h2⟩ := reverseComplement_pat ts hts hne e b
  exact ⟨_, _, compile_pat ts hts hne e b, h1, rfl, rfl, rfl, by simp [Pattern.patlen], by simp [Pattern.patlen], h2⟩

/-- **strand symmetry at the string level** (`match_revcomp` without the `MirrorList` hypothesis): for every pattern
string of the grammar with at most 63 positions, matching the pattern returned by `ReverseComplement` on `d` ≡ matching
the pattern on the reverse complement of `d`, with mirrored coordinates (mismatch-only, whole-sequence search, letters
only and no `u` in the sequence). -/
theorem match_revcomp_string (ts : List Tok) (hts : ∀ t ∈ ts, t.WF) (hne : ts ≠ []) (hlen : ts.length ≤ 63)
    (e : Nat) (b : Bool) (d : List Nat) (hd : ∀ c ∈ d, c < 26 ∧ c ≠ 20) (i : Int) (k : Nat) :
    ∃ P P' : Pattern, compile (patStr ts) e b = .ok P ∧ reverseComplement P = .ok P' ∧
      ((i, k) ∈ manberSub P' d 0 d.length ↔
        ∃ i' : Nat, i = (i' : Int) ∧ i' + P.patlen ≤ d.length ∧
          (((d.length - i' - P.patlen : Nat) : Int), k) ∈ manberSub P (rcData d) 0 d.length) := by
  obtain ⟨P, P', h1, h2, _, h4, _, _, h7, h8⟩ := complement_mirror ts hts hne e b
  have hpos : 1 ≤ ts.length := List.length_pos_iff.2 hne
  exact ⟨P, P', h1, h2, match_revcomp P P' d h8 h4 (by omega) (by omega) hd i k⟩

/-- non-vacuity: the pattern `A#C![GT]!RN[AC]#` (every token kind) as a token list; its complement is `[GT]#N!Y![AC]GT#` -/
example :
    let ts : List Tok := [⟨false, false, [65], true⟩, ⟨false, false, [67], false⟩, ⟨true, true, [71, 84], false⟩,
      ⟨true, false, [82], false⟩, ⟨false, false, [78], false⟩, ⟨false, true, [65, 67], true⟩]
    (∀ t ∈ ts, (∀ c ∈ t.letters, isUpper c = true) ∧ t.letters ≠ [] ∧ (t.bracket = false → t.letters.length = 1)) ∧
    patStr ts = [65, 35, 67, 33, 91, 71, 84, 93, 33, 82, 78, 91, 65, 67, 93, 35] ∧
    patStr (ts.reverse.map Tok.comp) = [91, 71, 84, 93, 35, 78, 33, 89, 33, 91, 65, 67, 93, 71, 84, 35] := by decide

/-- **outside the grammar the statement is false.**  `CheckPattern` also accepts strings that are not in the documented
grammar — a `#` that follows a `#` is compiled as a position of its own (accepting nothing, obligatory).  For `A##A`
(positions `A#`, `#`, `A`) `complementPattern` returns `T##T` (positions `T#`, `#`, `T`), which is NOT the mirror
(`A`, `#`, `A#` mirrored would be `T`, `#`, `T#`); for `A##` the complement `##T` is rejected by `CheckPattern`.
(Evaluation of the model on two inputs; the real C code gives the same results — checked with `harness_C10 C10 exec`;
`A##` is in the harness corpus.) -/
theorem complement_outside_grammar :
    (compile ([65, 35, 35, 65] : Bytes) 1 false).toOption.bind
        (fun P => (reverseComplement P).toOption.map (fun P' => (P.codes.reverse, P'.codes, P'.cpat)))
      = some ([1, 67108864, 67108865], [67633152, 67108864, 524288], [84, 35, 35, 84]) ∧
    ¬ MirrorList [1, 67108864, 67108865] [67633152, 67108864, 524288] ∧
    (compile ([65, 35, 35] : Bytes) 1 false).toOption.map
        (fun P => match reverseComplement P with | .error err => some err | .ok _ => none) = some (some .check) := by
  refine ⟨by decide, ?_, by decide⟩
  intro h
  cases h with
  | cons h1 _ =>
    have := h1.1
    revert this
    decide

/-! ## Go layer -/

/-- `FilterBestMatch` only keeps hits reported by `FindAllIndex` -/
theorem filterBestMatch_subset (P : Pattern) (seq : Bytes) (circular : Bool) (begin length : Int) :
    ∀ h ∈ filterBestMatch P seq circular begin length, h ∈ findAllIndex P seq circular begin length :=
  filterBest_subset _

/-- every hit of `FindAllIndex` on a linear sequence ends inside the sequence, in every mode
(in indel mode the start may be negative: "may return shifted pos" in apat_search.c) -/
theorem findAllIndex_inside (P : Pattern) (seq : Bytes) (begin length : Int) :
    ∀ h ∈ findAllIndex P seq false begin length, h.1 + P.patlen ≤ (seq.length : Int) ∧ h.2.1 = h.1 + P.patlen ∧ 0 ≤ h.2.2 := by
  intro h hh
  have hb := findAllIndex_bound P seq begin length h hh
  refine ⟨hb.1, ?_, hb.2⟩
  unfold findAllIndex at hh
  simp only [List.mem_map, Prod.exists] at hh
  obtain ⟨a, b, _, rfl⟩ := hh
  rfl

/-- **`AllMatches` on a linear sequence never panics**, whatever the lengths of pattern and sequence (D32 repaired:
the re-alignment fragment may be as short as, or shorter than, the pattern).  `hc` holds for every compiled pattern
(a position takes at least one character of the pattern string). -/
theorem allMatches_total (P : Pattern) (seq : Bytes) (begin length : Int)
    (hm1 : 1 ≤ P.patlen) (hc : P.patlen ≤ P.cpat.length) :
    allMatches P seq false begin length ≠ .panic :=
  allMatches_no_panic P seq begin length hm1 hc

/-- non-vacuity of `allMatches_total`: the D32 input (sequence shorter than the pattern, one deletion) -/
example : (compile ([65, 67, 71, 84, 65] : Bytes) 1 true).toOption.map
    (fun P => (decide (1 ≤ P.patlen ∧ P.patlen ≤ P.cpat.length), allMatches P ([97, 99, 103, 97] : Bytes) false 0 (-1)))
    = some (true, .ok [(0, 4, 1)]) := by decide

/-- every raw hit of `FindAllIndex` carries an error level within the budget, and `end = start + patlen` -/
theorem raw_hits_within_budget (P : Pattern) (seq : Bytes) (circular : Bool) (begin length : Int) :
    ∀ h ∈ findAllIndex P seq circular begin length, 0 ≤ h.2.2 ∧ h.2.2 ≤ (P.maxerr : Int) ∧ h.2.1 = h.1 + P.patlen :=
  findAllIndex_err_le P seq circular begin length

/-- the raw hits are sorted by strictly increasing start position -/
theorem raw_hits_sorted (P : Pattern) (seq : Bytes) (circular : Bool) (begin length : Int) :
    (findAllIndex P seq circular begin length).Pairwise (fun a b => a.1 < b.1) :=
  findAllIndex_sorted P seq circular begin length

/-- **the selection loop of `BestMatch`** returns the LEFTMOST hit of minimal error count: the list splits as
`l1 ++ best :: l2` with strictly more errors everywhere in `l1` and at least as many in `l2` -/
theorem bestOf_leftmost_min (P : Pattern) (seq : Bytes) (circular : Bool) (begin length : Int) (hmax : P.maxerr < 10000)
    (hne : findAllIndex P seq circular begin length ≠ []) :
    let res := findAllIndex P seq circular begin length
    ∃ l1 l2, res = l1 ++ bestOf res :: l2 ∧ (∀ m ∈ l1, (bestOf res).2.2 < m.2.2) ∧ ∀ m ∈ l2, (bestOf res).2.2 ≤ m.2.2 := by
  intro res
  apply bestOf_spec res _ hne
  intro m hm
  have := (findAllIndex_err_le P seq circular begin length m hm).2.1
  omega

theorem raw_hits_ok (P : Pattern) (seq : Bytes) (circular : Bool) (begin length : Int) (hmax : P.maxerr < 10000) :
    ∀ x ∈ findAllIndex P seq circular begin length, HitOk x := by
  intro x hx
  obtain ⟨h1, h2, h3⟩ := findAllIndex_err_le P seq circular begin length x hx
  exact ⟨h1, by omega, by omega⟩

/-- **`FilterBestMatch` represents every raw hit**: for each hit of `FindAllIndex` a hit with at most as many errors is kept
(so the minimal error count survives, and something is kept whenever something was found).  False of the unrepaired code
when the first hit starts at position `10000 + err` or later (everything was dropped: witness in the harness corpus). -/
theorem filterBestMatch_cover (P : Pattern) (seq : Bytes) (circular : Bool) (begin length : Int) (hmax : P.maxerr < 10000) :
    ∀ m ∈ findAllIndex P seq circular begin length, ∃ b ∈ filterBestMatch P seq circular begin length, b.2.2 ≤ m.2.2 :=
  filterBest_cover _ (findAllIndex_sorted P seq circular begin length) (raw_hits_ok P seq circular begin length hmax)

/-- **the hits kept by `FilterBestMatch` do not overlap**: `a.end + a.err ≤ b.start - b.err` for `a` before `b` -/
theorem filterBestMatch_chain (P : Pattern) (seq : Bytes) (circular : Bool) (begin length : Int) (hmax : P.maxerr < 10000) :
    (filterBestMatch P seq circular begin length).Pairwise NoOverlap :=
  filterBest_chain _ (findAllIndex_sorted P seq circular begin length) (raw_hits_ok P seq circular begin length hmax)

/-- test: the repaired `FilterBestMatch` keeps a first hit lying beyond position 10000 (hand-made raw list) -/
example : filterBest [(10010, 10014, 0), (10011, 10015, 1), (10030, 10034, 1)] = [(10010, 10014, 0), (10030, 10034, 1)] := by
  decide

/-- **`AllMatches`** (`allMatches_spec`): every returned triple is within the budget, and is either a hit kept by
`FilterBestMatch` passed unchanged (no error, or mismatch-only mode: `findAllIndex_exact` applies to it), or — indel mode, at least
one error — a span `0 ≤ s ≤ e ≤ |seq|` whose reported error count is the edit distance (`editDist samenuc`) between the
pattern string handed to `LocatePattern` and `seq[s:e]` (`SpanDist`). -/
theorem allMatches_spec (P : Pattern) (seq : Bytes) (circular : Bool) (begin length : Int) (out : List Hit)
    (h : allMatches P seq circular begin length = .ok out) :
    ∀ x ∈ out, x.2.2 ≤ (P.maxerr : Int) ∧
      ((x ∈ filterBestMatch P seq circular begin length ∧ ¬ (x.2.2 > 0 ∧ P.hasIndel = true)) ∨
       (P.hasIndel = true ∧ SpanDist P seq x)) :=
  Apat.allMatches_spec P seq circular begin length out h

/-- **`BestMatch`** (`bestMatch_spec`) on a linear sequence: when a match is reported, the selected raw hit is a hit of minimal
error level ending inside the sequence — with a non-negative start, unless it is going to be re-aligned (indel mode, at least
one error: the "shifted" start of the raw hit may be negative, `notes/patches/C10-bestmatch-shifted-start.diff`) —, and the
result is that hit (no error, or mismatch-only mode) or — indel mode — a span
inside the sequence whose reported error count is the edit distance between the pattern string and that span. -/
theorem bestMatch_spec (P : Pattern) (seq : Bytes) (begin length : Int) (s e k : Int) (hmax : P.maxerr < 10000)
    (h : bestMatch P seq false begin length = .ok (s, e, k, true)) :
    let res := findAllIndex P seq false begin length
    res ≠ [] ∧ bestOf res ∈ res ∧ (∀ m ∈ res, (bestOf res).2.2 ≤ m.2.2) ∧
      (0 ≤ (bestOf res).1 ∨ (P.hasIndel = true ∧ (bestOf res).2.2 ≠ 0)) ∧ (bestOf res).2.1 ≤ (seq.length : Int) ∧
      (((s, e, k) = bestOf res ∧ ((bestOf res).2.2 = 0 ∨ P.hasIndel = false)) ∨
       (P.hasIndel = true ∧ (bestOf res).2.2 ≠ 0 ∧ SpanDist P seq (s, e, k))) :=
  Apat.bestMatch_spec P seq begin length s e k hmax h

/-! ## `LocatePattern` (repaired) -/

/-- the repaired `LocatePattern` panics only on the empty pattern (D32) -/
theorem locate_total (pat seq : Bytes) : locatePattern pat seq = none ↔ pat = [] := by
  unfold locatePattern
  cases pat with
  | nil => simp
  | cons a p => simp

/-- **`LocatePattern` (repaired) returns a best semi-global alignment** (`locate_spec`).  For every non-empty pattern
`p` and every fragment `frag`: the call returns a span `0 ≤ f ≤ t ≤ |frag|` and an error count `k` such that `k` is the
edit distance (`editDist`, Levenshtein: substitutions, insertions, deletions cost 1; two symbols are equal when
`_samenuc` says so, i.e. their IUPAC classes intersect) between `p` and `frag[f:t]`, and no substring `frag[a:b]` of the
fragment is closer to the pattern.  `editDist` is the textbook recursion (`Lemmas/ApatLocate.lean`); it is the least cost
of an alignment (`ali_editDist`, `editDist_le`). -/
theorem locate_spec (p frag : Bytes) (hp : p ≠ []) :
    ∃ f t k : Nat, locatePattern p frag = some ((f : Int), (t : Int), (k : Int)) ∧ f ≤ t ∧ t ≤ frag.length ∧
      k = editDist samenuc p ((frag.drop f).take (t - f)) ∧
      ∀ a b : Nat, k ≤ editDist samenuc p ((frag.drop a).take (b - a)) := by
  obtain ⟨f, t, k, h1, h2, h3, h4, h5⟩ := locatePattern_spec p frag hp
  refine ⟨f, t, k, h1, h2, h3, ?_, fun a b => h5 a b _ (ali_editDist _ _ _)⟩
  exact Nat.le_antisymm (h5 f t _ (ali_editDist _ _ _)) (editDist_le h4)

/-- the same, in the form of the property statement: whatever `LocatePattern` returns is such a triple -/
theorem locate_spec_of_eq (p frag : Bytes) (f t k : Int) (h : locatePattern p frag = some (f, t, k)) :
    0 ≤ f ∧ f ≤ t ∧ t ≤ (frag.length : Int) ∧
      k = (editDist samenuc p ((frag.drop f.toNat).take (t.toNat - f.toNat)) : Nat) ∧
      ∀ a b : Nat, k ≤ (editDist samenuc p ((frag.drop a).take (b - a)) : Nat) := by
  have hp : p ≠ [] := fun h0 => by rw [(locate_total p frag).2 h0] at h; cases h
  obtain ⟨f', t', k', h1, h2, h3, h4, h5⟩ := locate_spec p frag hp
  rw [h1] at h
  simp only [Option.some.injEq, Prod.mk.injEq] at h
  obtain ⟨rfl, rfl, rfl⟩ := h
  refine ⟨by omega, by omega, by omega, ?_, fun a b => by have := h5 a b; omega⟩
  simp only [Int.toNat_natCast]
  rw [← h4]

/-- `editDist` is the least cost of an alignment (`Ali`: the inductive definition of alignments with their cost) -/
theorem editDist_least (p w : Bytes) :
    Ali samenuc p w (editDist samenuc p w) ∧ ∀ k, Ali samenuc p w k → editDist samenuc p w ≤ k :=
  ⟨ali_editDist _ _ _, fun _ h => editDist_le h⟩

/-- tests of the specification function: plain Levenshtein distance for the equality predicate (kitten/sitting = 3);
IUPAC-aware for `_samenuc` (`N` against `a`: 0; `acgt` against `cgt`: 1) -/
example : editDist (fun a b : UInt8 => a == b) [107, 105, 116, 116, 101, 110] [115, 105, 116, 116, 105, 110, 103] = 3 := by decide
example : editDist samenuc ([78] : Bytes) [97] = 0 ∧ editDist samenuc ([65, 67, 71, 84] : Bytes) [99, 103, 116] = 1 := by decide

/-- tests (sample evaluations of the repaired model; each was a failing input of the unrepaired code):
D19 start −1; D19 pattern of length 1; D32 sequence shorter than the pattern -/
example : locatePattern ([65, 67, 71, 84] : Bytes) ([99, 103, 116, 116, 116] : Bytes) = some (0, 3, 1) := by decide
example : locatePattern ([65] : Bytes) ([99, 99, 97] : Bytes) = some (2, 3, 0) := by decide
example : locatePattern ([65, 67, 71, 84, 65] : Bytes) ([97, 99, 103, 97] : Bytes) = some (0, 4, 1) := by decide

/-- tests: indel automaton + re-alignment — first pattern symbol missing at offset 0 (`AllMatches`, D19 input class);
one deletion away from offset 0 (`BestMatch`, D18 input class: the end is 7, not 10) -/
example : (compile ([65, 67, 71, 84, 65] : Bytes) 1 true).toOption.map (fun P => allMatches P ([99, 103, 116, 97, 116, 116] : Bytes) false 0 (-1))
    = some (.ok [(0, 4, 1)]) := by decide
example : (compile ([65, 67, 71, 84, 65] : Bytes) 1 true).toOption.map (fun P => bestMatch P ([116, 116, 116, 97, 99, 116, 97, 116, 116] : Bytes) false 0 (-1))
    = some (.ok (3, 7, 1, true)) := by decide

/-! ## round 2 — completeness of `AllMatches` / `BestMatch` (indel mode) -/

/-- **completeness of `AllMatches`** (indel mode, linear sequence, no obligatory position, `Compat`: `_samenuc` agrees with every
acceptance of the compiled classes).  Every raw hit `r` of `FindAllIndex` is represented by a hit `h` kept by `FilterBestMatch`
— at most as many errors, linked to `r` through a chain of overlapping hits (`Linked`), touching `r` when it has as many
errors — and `h` yields an element `x` of the result: `h` itself when it has no error, otherwise a span of the re-alignment
fragment `[amStart h, amEnd h)` = `[max(h.start - 2k, 0), min(… + m + 4k, len))` carrying exactly its `_samenuc` edit distance to
the pattern string (`SpanDist`), minimal over ALL substrings of the fragment and at most the error level `k` of `h`. -/
theorem allMatches_complete (P : Pattern) (seq : Bytes) (begin length : Int) (out : List Hit)
    (hi : P.hasIndel = true) (he : P.maxerr ≠ 0) (hmax : P.maxerr < 10000) (hm1 : 1 ≤ P.patlen) (hm : P.patlen ≤ 63)
    (hno : ∀ a ∈ P.codes, oblig a = false) (hC : Compat P)
    (hout : allMatches P seq false begin length = .ok out) :
    ∀ r ∈ findAllIndex P seq false begin length,
      ∃ h ∈ filterBestMatch P seq false begin length, ∃ x ∈ out,
        h.2.2 ≤ r.2.2 ∧ Linked r h ∧ (h.2.2 = r.2.2 → Touch h r) ∧
        allMatchStep P seq h = some x ∧ 0 ≤ x.2.2 ∧ x.2.2 ≤ h.2.2 ∧ (h.2.2 = 0 → x = h) ∧
        (0 < h.2.2 → SpanDist P seq x ∧ amStart h ≤ x.1 ∧ x.2.1 ≤ amEnd P seq h ∧
          ∀ a b : Nat, amStart h ≤ (a : Int) → a ≤ b → (b : Int) ≤ amEnd P seq h →
            x.2.2 ≤ (editDist samenuc P.locPat ((seq.drop a).take (b - a)) : Nat)) :=
  Apat.allMatches_complete P seq begin length out hi he hmax hm1 hm hno hC hout

/-- **every substring within the edit budget is represented** (`allMatches_complete` in terms of substrings): for an end
position `pos` of the search window and a start `a` such that the compiled edit distance `d` between the pattern and
`seq[a .. pos]` is within the budget, the raw hit `(pos - m + 1, pos + 1, k)` exists with `k ≤ d` and is represented in the
result of `AllMatches` as in `allMatches_complete`: by an `x` with `x.err ≤ h.err ≤ k ≤ d`. -/
theorem allMatches_complete_substring (P : Pattern) (seq : Bytes) (begin length : Int) (out : List Hit)
    (hi : P.hasIndel = true) (he : P.maxerr ≠ 0) (hmax : P.maxerr < 10000) (hm1 : 1 ≤ P.patlen) (hm : P.patlen ≤ 63)
    (hno : ∀ a ∈ P.codes, oblig a = false) (hC : Compat P)
    (hout : allMatches P seq false begin length = .ok out)
    (pos a : Nat) (hb : winBegin begin ≤ a) (ha : a ≤ pos + 1) (hb' : winBegin begin ≤ pos) (hp : pos < winEnd seq begin length)
    (hd : editDist accepts P.codes (((seq.map encodeByte).drop a).take (pos + 1 - a)) ≤ P.maxerr) :
    ∃ k : Nat, k ≤ editDist accepts P.codes (((seq.map encodeByte).drop a).take (pos + 1 - a)) ∧
      ((pos : Int) - P.patlen + 1, (pos : Int) + 1, (k : Int)) ∈ findAllIndex P seq false begin length ∧
      ∃ h ∈ filterBestMatch P seq false begin length, ∃ x ∈ out,
        h.2.2 ≤ (k : Int) ∧ Linked ((pos : Int) - P.patlen + 1, (pos : Int) + 1, (k : Int)) h ∧
        (h.2.2 = (k : Int) → Touch h ((pos : Int) - P.patlen + 1, (pos : Int) + 1, (k : Int))) ∧
        allMatchStep P seq h = some x ∧ 0 ≤ x.2.2 ∧ x.2.2 ≤ h.2.2 ∧ (h.2.2 = 0 → x = h) ∧
        (0 < h.2.2 → SpanDist P seq x ∧ amStart h ≤ x.1 ∧ x.2.1 ≤ amEnd P seq h ∧
          ∀ a b : Nat, amStart h ≤ (a : Int) → a ≤ b → (b : Int) ≤ amEnd P seq h →
            x.2.2 ≤ (editDist samenuc P.locPat ((seq.drop a).take (b - a)) : Nat)) :=
  Apat.allMatches_complete_substring P seq begin length out hi he hmax hm1 hm hno hC hout pos a hb ha hb' hp hd

/-- why the representative is linked by a CHAIN and need not touch the raw hit: `FilterBestMatch` on three staggered hits
keeps the last one only (sample evaluation) -/
example : filterBest [(0, 10, 3), (2, 12, 2), (14, 24, 1)] = [(14, 24, 1)] ∧ ¬ Touch (14, 24, 1) (0, 10, 3) :=
  touch_counterexample

/-- **completeness of `BestMatch`** (as repaired: `C10-bestmatch-shifted-start`): whenever `FindAllIndex` reports something,
`BestMatch` reports a match; its error count is at most the error level of EVERY raw hit (the minimum over all end
positions of the window of the best substring ending there), it is the selected hit when that has no error, and otherwise a
span of the fragment `[max(s - k, 0), min(s + m + k, len))` with its exact `_samenuc` distance, minimal over the fragment. -/
theorem bestMatch_complete (P : Pattern) (seq : Bytes) (begin length : Int)
    (hi : P.hasIndel = true) (he : P.maxerr ≠ 0) (hmax : P.maxerr < 10000) (hm1 : 1 ≤ P.patlen) (hm : P.patlen ≤ 63)
    (hno : ∀ a ∈ P.codes, oblig a = false) (hC : Compat P)
    (hne : findAllIndex P seq false begin length ≠ []) :
    ∃ s e k, bestMatch P seq false begin length = .ok (s, e, k, true) ∧ 0 ≤ k ∧
      k ≤ (bestOf (findAllIndex P seq false begin length)).2.2 ∧
      (∀ m ∈ findAllIndex P seq false begin length, k ≤ m.2.2) ∧
      ((bestOf (findAllIndex P seq false begin length)).2.2 = 0 →
        (s, e, k) = bestOf (findAllIndex P seq false begin length)) ∧
      ((bestOf (findAllIndex P seq false begin length)).2.2 ≠ 0 →
        SpanDist P seq (s, e, k) ∧ bmStart (bestOf (findAllIndex P seq false begin length)) ≤ s ∧
        e ≤ bmEnd P seq (bestOf (findAllIndex P seq false begin length)) ∧
        ∀ a b : Nat, bmStart (bestOf (findAllIndex P seq false begin length)) ≤ (a : Int) → a ≤ b →
          (b : Int) ≤ bmEnd P seq (bestOf (findAllIndex P seq false begin length)) →
          k ≤ (editDist samenuc P.locPat ((seq.drop a).take (b - a)) : Nat)) :=
  Apat.bestMatch_complete P seq begin length hi he hmax hm1 hm hno hC hne

/-- **`BestMatch` reports a match iff `FindAllIndex` reports a hit** (indel mode, linear sequence; no `Compat` needed).
False of the unrepaired code: the best raw hit of `ACGTACGT`, 2 errors, on `acgtcgtttttt` is `(-1, 7, 1)` and the answer was
`matched = false` (witnesses in the harness corpus, oracle `best.iff`). -/
theorem bestMatch_matched_iff (P : Pattern) (seq : Bytes) (begin length : Int)
    (hi : P.hasIndel = true) (he : P.maxerr ≠ 0) (hmax : P.maxerr < 10000) (hm1 : 1 ≤ P.patlen) (hm : P.patlen ≤ 63)
    (hc : P.patlen ≤ P.cpat.length) (hno : ∀ a ∈ P.codes, oblig a = false) :
    (∃ s e k, bestMatch P seq false begin length = .ok (s, e, k, true)) ↔ findAllIndex P seq false begin length ≠ [] :=
  Apat.bestMatch_matched_iff P seq begin length hi he hmax hm1 hm hc hno

set_option maxRecDepth 100000 in
/-- non-vacuity / test: the defect input of this round, in the repaired model -/
example :
    (compile ([65, 67, 71, 84, 65, 67, 71, 84] : Bytes) 2 true).toOption.map
      (fun P => findAllIndex P ([97, 99, 103, 116, 99, 103, 116, 116, 116, 116, 116, 116] : Bytes) false 0 (-1))
      = some [(-2, 6, 2), (-1, 7, 1), (0, 8, 2)] ∧
    (compile ([65, 67, 71, 84, 65, 67, 71, 84] : Bytes) 2 true).toOption.map
      (fun P => bestMatch P ([97, 99, 103, 116, 99, 103, 116, 116, 116, 116, 116, 116] : Bytes) false 0 (-1))
      = some (.ok (0, 7, 1, true)) := by
  refine ⟨?_, ?_⟩ <;> decide

/-- under `CompatEq` (the two comparisons coincide on the bytes of the sequence: letters-only pattern without `X` on a sequence
of bases, `pure_pattern_compat`) the error count of a reported span is the COMPILED edit distance of the encoded span -/
theorem spanDist_is_compiled_distance (P : Pattern) (seq : Bytes) (hC : CompatEq P seq) (a n : Nat) :
    editDist samenuc P.locPat ((seq.drop a).take n) = editDist accepts P.codes (((seq.drop a).take n).map encodeByte) :=
  editDist_samenuc_eq P seq hC _ (fun _ hc => List.mem_of_mem_drop (List.mem_of_mem_take hc))

/-- **letters-only patterns** (what `AllMatches` is documented for): a non-empty string of upper-case letters compiles to one
position per letter with the `sDnaCode` class of the letter and no obligatory position, `LocatePattern` is handed the string
itself; without the letter `X` the compiled pattern satisfies `Compat`, and `CompatEq` on every sequence of bases. -/
theorem pure_pattern_compat (ls : Bytes) (hup : ∀ c ∈ ls, isUpper c = true) (hne : ls ≠ []) (hx : ∀ c ∈ ls, c ≠ 88)
    (e : Nat) (b : Bool) :
    compile ls e b = .ok (letterPattern ls e b) ∧ (letterPattern ls e b).patlen = ls.length ∧
      (letterPattern ls e b).locPat = ls ∧ (∀ a ∈ (letterPattern ls e b).codes, oblig a = false) ∧
      Compat (letterPattern ls e b) ∧
      ∀ seq : Bytes, (∀ c ∈ seq, isBaseByte c = true) → CompatEq (letterPattern ls e b) seq :=
  ⟨compile_letters ls hup hne e b, letterPattern_patlen ls e b, letterPattern_locPat ls e b,
    letterPattern_no_oblig ls hup e b, letterPattern_compat ls hup hx e b,
    fun seq hseq => letterPattern_compatEq ls hup hx e b seq hseq⟩

/-- **completeness for the documented use**: a letters-only pattern without `X`, 1..63 letters, budget 1..9999, indels, on any
linear sequence: `AllMatches` does not panic and whenever `FindAllIndex` reports a hit with `k` errors, `AllMatches` returns a
match with at most `k` errors and `BestMatch` reports a match with at most `k` errors. -/
theorem pure_pattern_complete (ls : Bytes) (hup : ∀ c ∈ ls, isUpper c = true) (hne : ls ≠ []) (hx : ∀ c ∈ ls, c ≠ 88)
    (hlen : ls.length ≤ 63) (e : Nat) (he : e ≠ 0) (hmax : e < 10000) (seq : Bytes) (begin length : Int) :
    ∃ P, compile ls e true = .ok P ∧ ∃ out, allMatches P seq false begin length = .ok out ∧
      ∀ r ∈ findAllIndex P seq false begin length,
        (∃ x ∈ out, x.2.2 ≤ r.2.2) ∧ ∃ s t k, bestMatch P seq false begin length = .ok (s, t, k, true) ∧ k ≤ r.2.2 := by
  refine ⟨letterPattern ls e true, compile_letters ls hup hne e true, ?_⟩
  have hm1 : 1 ≤ (letterPattern ls e true).patlen := by
    rw [letterPattern_patlen]; exact List.length_pos_iff.2 hne
  have hm : (letterPattern ls e true).patlen ≤ 63 := by rw [letterPattern_patlen]; exact hlen
  have hcl : (letterPattern ls e true).patlen ≤ (letterPattern ls e true).cpat.length := by
    rw [letterPattern_patlen]; exact Nat.le_refl _
  have hno := letterPattern_no_oblig ls hup e true
  have hC := letterPattern_compat ls hup hx e true
  cases hout : allMatches (letterPattern ls e true) seq false begin length with
  | panic => exact absurd hout (allMatches_total _ seq begin length hm1 hcl)
  | ok out =>
    refine ⟨out, rfl, ?_⟩
    intro r hr
    obtain ⟨h, _, x, hx', h1, _, _, _, _, h6, _⟩ :=
      allMatches_complete _ seq begin length out rfl he hmax hm1 hm hno hC hout r hr
    refine ⟨⟨x, hx', by omega⟩, ?_⟩
    obtain ⟨s, t, k, hb, _, _, hall, _⟩ :=
      bestMatch_complete _ seq begin length rfl he hmax hm1 hm hno hC (List.ne_nil_of_mem hr)
    exact ⟨s, t, k, hb, hall r hr⟩

/-- non-vacuity of `pure_pattern_complete` / `pure_pattern_compat`: `ACGTA` -/
example : (∀ x ∈ ([65, 67, 71, 84, 65] : Bytes), isUpper x = true) ∧ ([65, 67, 71, 84, 65] : Bytes) ≠ [] ∧
    (∀ x ∈ ([65, 67, 71, 84, 65] : Bytes), x ≠ 88) := by decide

/-! ## round 2 — `_samenuc` against the compiled classes; ambiguity codes in the SEQUENCE -/

/-- **the exact relation between `_samenuc` and the compiled IUPAC classes** (decided over the generated tables `_iupac`,
`sDnaCode`; pattern letter `'A'+l`, sequence letter `'a'+c`): `_samenuc` is "the `_iupac` classes intersect"; when the sequence
symbol is a base and the pattern letter is not `X` the two comparisons agree; for `X` the matcher accepts every base and
`_samenuc` none; a sequence symbol that is not a base is in no compiled class; a non-letter byte is the same nucleotide as no
pattern letter. -/
theorem samenuc_vs_compiled :
    (∀ l, l < 26 → ∀ c, c < 26 → samenuc (UInt8.ofNat (65 + l)) (UInt8.ofNat (97 + c)) =
        decide ((Gen.alignIupac.getD l 0 &&& Gen.alignIupac.getD c 0) > 0)) ∧
    (∀ l, l < 26 → ∀ c, c < 26 → isBaseSym c = true → l ≠ 23 →
        samenuc (UInt8.ofNat (65 + l)) (UInt8.ofNat (97 + c)) = accepts (Gen.apatDnaCode.getD l 0) c) ∧
    (∀ c, c < 26 → samenuc 88 (UInt8.ofNat (97 + c)) = false ∧ accepts (Gen.apatDnaCode.getD 23 0) c = isBaseSym c) ∧
    (∀ l, l < 26 → ∀ c, c < 26 → isBaseSym c = false → accepts (Gen.apatDnaCode.getD l 0) c = false) ∧
    (∀ l, l < 26 → ∀ n, n < 256 → ¬ (97 ≤ n ∧ n ≤ 122) → ¬ (65 ≤ n ∧ n ≤ 90) →
        samenuc (UInt8.ofNat (65 + l)) (UInt8.ofNat n) = false) :=
  ⟨samenuc_table_general, samenuc_table_base, samenuc_table_X, samenuc_table_nonbase, samenuc_nonletter⟩

/-- `Compat` fails for the pattern letter `X` (the matcher accepts `a` for `X`, `_samenuc` does not) -/
theorem samenuc_X_differs : accepts (Gen.apatDnaCode.getD 23 0) (encodeByte 97) = true ∧ samenuc 88 97 = false := by decide

set_option maxRecDepth 100000 in
/-- **counterexample (proposed finding): a pattern with `X`** — `AXGT`, budget 1, indels, on `ttacgattt`: `FindAllIndex` reports
`acga` (1 error: `T`/`a`) among others, `AllMatches` returns NOTHING (the re-alignment counts the `X` as a second error and the
budget filter drops the match) and `BestMatch` reports a match with 2 errors, more than the budget.  The real code gives the
same three results (harness corpus; statistics `observed:all.x-pattern-match-dropped`). -/
theorem x_pattern_dropped :
    (compile ([65, 88, 71, 84] : Bytes) 1 true).toOption.map
      (fun P => findAllIndex P ([116, 116, 97, 99, 103, 97, 116, 116, 116] : Bytes) false 0 (-1))
      = some [(1, 5, 1), (2, 6, 1), (3, 7, 1), (4, 8, 1), (5, 9, 1)] ∧
    (compile ([65, 88, 71, 84] : Bytes) 1 true).toOption.map
      (fun P => allMatches P ([116, 116, 97, 99, 103, 97, 116, 116, 116] : Bytes) false 0 (-1)) = some (.ok []) ∧
    (compile ([65, 88, 71, 84] : Bytes) 1 true).toOption.map
      (fun P => bestMatch P ([116, 116, 97, 99, 103, 97, 116, 116, 116] : Bytes) false 0 (-1))
      = some (.ok (2, 6, 2, true)) := by
  refine ⟨?_, ?_, ?_⟩ <;> decide

/-- **a sequence symbol that is not a base is an exact code word, not a class**: a position of the documented grammar accepts
a sequence byte other than `a c g t` (ambiguity code `n r y …`, `u`, `x`, gap, digit, …) iff the position is negated — whatever
its letters (`N` in a pattern does not accept `n` in the sequence; `!A` accepts it) -/
theorem seq_ambiguity_code_is_exact (t : Tok) (ht : t.WF) (b : UInt8) (hb : isBaseByte b = false) :
    accepts t.code (encodeByte b) = t.neg :=
  seq_symbol_not_base t ht b hb

/-- **both strands**: the `obiseq` complement of a lower-case/non-letter byte that is neither a base nor `u` is not a base
either, and the complement of a base is a base — so a non-base symbol is accepted by exactly the negated positions on the
reverse-complemented sequence too (with `match_revcomp`, whose hypothesis `c < 26 ∧ c ≠ 20` covers the ambiguity codes: strand
symmetry holds on sequences with ambiguity codes).  `u` ↦ `a` is the exception (D34). -/
theorem seq_ambiguity_both_strands :
    (∀ n, n < 256 → isBaseByte (UInt8.ofNat n) = false → n ≠ 117 → ¬ (65 ≤ n ∧ n ≤ 90) →
      isBaseByte (SeqOps.nucComplement (UInt8.ofNat n)) = false) ∧
    (∀ n, n < 256 → isBaseByte (UInt8.ofNat n) = true → isBaseByte (SeqOps.nucComplement (UInt8.ofNat n)) = true) ∧
    (isBaseByte 117 = false ∧ SeqOps.nucComplement 117 = 97 ∧ isBaseByte 97 = true) :=
  ⟨complement_not_base, complement_base, complement_u⟩

set_option maxRecDepth 100000 in
/-- **observation: two error counts for one occurrence when the sequence carries an ambiguity code** — `ACGT`, budget 1, on
`ttacntttt`: `FindAllIndex` (both modes) reports `acnt` with 1 error (`n` is an exact code word for the matcher), `AllMatches` /
`BestMatch` in indel mode report it with 0 errors (`_samenuc`: `G` and `n` share a base).  The count of `AllMatches` is never
larger (`allMatches_complete`).  Same on the real code (harness corpus). -/
theorem errcount_differs_on_ambiguity :
    (compile ([65, 67, 71, 84] : Bytes) 1 true).toOption.map
      (fun P => findAllIndex P ([116, 116, 97, 99, 110, 116, 116, 116, 116] : Bytes) false 0 (-1)) = some [(2, 6, 1)] ∧
    (compile ([65, 67, 71, 84] : Bytes) 1 true).toOption.map
      (fun P => allMatches P ([116, 116, 97, 99, 110, 116, 116, 116, 116] : Bytes) false 0 (-1)) = some (.ok [(2, 6, 0)]) ∧
    (compile ([65, 67, 71, 84] : Bytes) 1 true).toOption.map
      (fun P => bestMatch P ([116, 116, 97, 99, 110, 116, 116, 116, 116] : Bytes) false 0 (-1))
      = some (.ok (2, 6, 0, true)) := by
  refine ⟨?_, ?_, ?_⟩ <;> decide

/-! ## round 2 — the error budget guard -/

/-- **`MakeApatPattern` as repaired rejects a budget ≥ `MAX_PAT_ERR` and is `compile` otherwise** -/
theorem makeApatPattern_guard (pat : Bytes) (e : Nat) (b : Bool) :
    (e ≥ Gen.apatMaxPatErr → makeApatPattern pat e b = .error .budget) ∧
    (e < Gen.apatMaxPatErr → makeApatPattern pat e b = compile pat e b) := by
  unfold makeApatPattern
  constructor
  · intro h; rw [if_pos h]
  · intro h; rw [if_neg (by omega)]

/-- **every pattern that `MakeApatPattern` returns keeps `ManberSub` / `ManberIndel` inside their `r[]` array**: the highest
index touched, `2 * maxerr + 3`, is below the `2 * MAX_PAT_ERR + 2` words of the array -/
theorem budget_in_bounds (pat : Bytes) (e : Nat) (b : Bool) (P : Pattern) (h : makeApatPattern pat e b = .ok P) :
    rMaxIndex P.maxerr < rSize := by
  unfold makeApatPattern at h
  split at h
  · cases h
  · rename_i hlt
    unfold compile at h
    simp only at h
    split at h
    · cases h
    · split at h
      · cases h
      · simp only [Except.ok.injEq] at h
        subst h
        show 2 * e + 3 < 2 * Gen.apatMaxPatErr + 2
        omega

/-- … and without the guard every budget ≥ `MAX_PAT_ERR` = 64 runs out of the array (the defect: SIGSEGV on the real code) -/
theorem budget_overrun_unguarded (e : Nat) (h : e ≥ Gen.apatMaxPatErr) : rSize ≤ rMaxIndex e := by
  unfold rSize rMaxIndex; omega

example : Gen.apatMaxPatErr = 64 ∧ rSize = 130 ∧ rMaxIndex 63 = 129 ∧ rMaxIndex 64 = 131 := by decide

/-- non-vacuity: budget 63 is accepted, 64 is not -/
example : (makeApatPattern ([65, 67] : Bytes) 63 true).toOption.map Pattern.maxerr = some 63 ∧
    (makeApatPattern ([65, 67] : Bytes) 64 true).toOption.map Pattern.maxerr = none := by
  refine ⟨?_, ?_⟩ <;> decide

/-! ## round 2 — the full pattern grammar (no `plain` hypothesis) -/

/-- **`MakeApatPattern` accepts exactly the canonical lists of extended positions** `'!'* (Letter | '[' Letter+ ']' | '#') ['#']`
(`XTok`; `Canon`: what the greedy tokenizer produces — a position starting with `#` only follows a position that carries its
own `#`, and the first position does not start with `#`): `compile_grammar_iff` without the `plain` hypothesis. -/
theorem compile_grammar_full (pat : Bytes) (e : Nat) (b : Bool) :
    (∃ P, compile pat e b = .ok P) ↔
      ∃ ts : List XTok, (∀ t ∈ ts, t.WF) ∧ ts ≠ [] ∧ Canon ts ∧ upperSeq (cString pat) = xpatStr ts :=
  compile_iff_x pat e b

/-- … and what they compile to: one code word per extended position -/
theorem compile_codes_full (pat : Bytes) (e : Nat) (b : Bool) (P : Pattern) (h : compile pat e b = .ok P)
    (ts : List XTok) (hwf : ∀ t ∈ ts, t.WF) (hne : ts ≠ []) (hc : Canon ts) (heq : upperSeq (cString pat) = xpatStr ts) :
    P.codes = ts.map XTok.code ∧ P.cpat = xpatStr ts ∧ P.maxerr = e ∧ P.hasIndel = b :=
  compile_codes_x pat e b P h ts hwf hne hc heq

/-- **meaning of an extended position**: it accepts the symbol `c` iff its body does (a letter: its IUPAC class; a bracket: the
union; a bare `#`: nothing), negated when the number of `!` is odd; it is obligatory iff it carries `#` or its body is `#` -/
theorem xposition_semantics (t : XTok) (ht : t.WF) (c : Nat) (hc : c < 26) :
    accepts t.code c = (t.body.acc c ^^ (t.bangs % 2 == 1)) ∧ oblig t.code = (t.oblig || t.body.isHash) :=
  xtok_semantics t ht c hc

/-- the documented grammar is the sub-case `bangs ≤ 1`, no `#` body: a plain string has only such positions -/
theorem plain_is_documented (ts : List XTok) (hc : Canon ts) (hpl : plain (xpatStr ts) = true) :
    ∀ t ∈ ts, t.bangs ≤ 1 ∧ t.body.isHash = false :=
  plain_tokens_documented ts hc hpl

/-- tests: the exotic strings — `A##` = [`A#`, obligatory nothing]; `!#` = obligatory anything; `!!A` = `A`; `#A`, `A!` rejected -/
example : ((compile ([65, 35, 35] : Bytes) 0 false).toOption.map Pattern.codes) = some [67108865, 67108864] ∧
    ((compile ([33, 35] : Bytes) 0 false).toOption.map Pattern.codes) = some [134217727] ∧
    ((compile ([33, 33, 65] : Bytes) 0 false).toOption.map Pattern.codes) = some [1] ∧
    ((compile ([35, 65] : Bytes) 0 false).toOption.map Pattern.codes) = none ∧
    ((compile ([65, 33] : Bytes) 0 false).toOption.map Pattern.codes) = none := by decide

/-! ## round 2 — circular sequences in `AllMatches` / `BestMatch` (known finding D35): exact characterisation -/

/-- **`AllMatches` panics iff** some hit kept by `FilterBestMatch` has to be re-aligned (indel mode, at least one error) and its
fragment start `start - 2·err` lies beyond the end of the LINEAR sequence (the Go slice `seq[start:end]`, `end = min(…, len)`).
On a linear sequence this never happens (`allMatches_total`); on a circular one the hits live in the buffer extended by
`min(len, 64)` symbols. -/
theorem allMatches_circular_panic_iff (P : Pattern) (seq : Bytes) (circular : Bool) (begin length : Int)
    (hm1 : 1 ≤ P.patlen) (hc : P.patlen ≤ P.cpat.length) :
    allMatches P seq circular begin length = .panic ↔
      ∃ h ∈ filterBestMatch P seq circular begin length,
        h.2.2 > 0 ∧ P.hasIndel = true ∧ (seq.length : Int) < h.1 - h.2.2 * 2 :=
  allMatches_panic_iff P seq circular begin length hm1 hc

/-- **exact and mismatch-only mode are not affected**: `AllMatches` is `FilterBestMatch`, on circular sequences too (hits in the
extension are passed as they are, `findAllIndex_exact_circular` says what they are) -/
theorem allMatches_mismatch_is_filter (P : Pattern) (seq : Bytes) (circular : Bool) (begin length : Int)
    (hmode : P.hasIndel = false ∨ P.maxerr = 0) :
    allMatches P seq circular begin length = .ok (filterBestMatch P seq circular begin length) :=
  allMatches_passthrough P seq circular begin length hmode

/-- **the affected class**: a kept hit of a circular sequence that ends inside the linear part is re-aligned without panic; a
kept hit with errors (indel mode) that reaches into the circular extension either makes `AllMatches` panic or is replaced by
a span of the LINEAR sequence ending before the hit's end — the occurrence across the origin itself is never reported. -/
theorem allMatches_circular_affected (P : Pattern) (seq : Bytes) (begin length : Int)
    (hm1 : 1 ≤ P.patlen) (hc : P.patlen ≤ P.cpat.length)
    (h : Hit) (hh : h ∈ filterBestMatch P seq true begin length) :
    ((h.2.1 ≤ (seq.length : Int)) → allMatchStep P seq h ≠ none) ∧
    (0 < h.2.2 → P.hasIndel = true → (seq.length : Int) < h.2.1 →
      (allMatchStep P seq h = none ∧ (seq.length : Int) < h.1 - h.2.2 * 2) ∨
      (h.1 - h.2.2 * 2 ≤ (seq.length : Int) ∧
        ∃ x, allMatchStep P seq h = some x ∧ 0 ≤ x.1 ∧ x.1 ≤ x.2.1 ∧ x.2.1 ≤ (seq.length : Int) ∧ x.2.1 < h.2.1 ∧
          SpanDist P seq x)) :=
  allMatches_circular_step P seq begin length hm1 hc h hh

/-- **a hit that ends inside the linear part is handled as on a linear sequence**: whatever list it comes from, a hit
`(e - m, e, k)`, `0 < k`, `e ≤ len`, witnessed by a substring `seq[a:e]` within `k` compiled edits, is re-aligned into a span with
at most `k` errors, its exact `_samenuc` distance, minimal over its fragment (`allMatchStep_keeps`; on a circular sequence the
witness of a raw hit ending at `e ≤ len` is a substring of the linear sequence since the extended buffer starts with it). -/
theorem allMatches_circular_inside_ok (P : Pattern) (seq : Bytes) (h : Hit) (a e k : Nat)
    (hi : P.hasIndel = true) (hk : h.2.2 = (k : Int)) (hk0 : 0 < k) (hend : h.2.1 = h.1 + P.patlen) (he : h.2.1 = (e : Int))
    (hen : e ≤ seq.length) (hm1 : 1 ≤ P.patlen) (hC : Compat P) (ha : a ≤ e)
    (hd : editDist accepts P.codes (((seq.map encodeByte).drop a).take (e - a)) ≤ k) :
    ∃ x, allMatchStep P seq h = some x ∧ 0 ≤ x.2.2 ∧ x.2.2 ≤ h.2.2 ∧ SpanDist P seq x :=
  let ⟨x, h1, h2, h3, h4, _⟩ := allMatchStep_keeps P seq h a e k hi hk hk0 hend he hen hm1 hC ha hd
  ⟨x, h1, h2, h3, h4⟩

/-- **`BestMatch` on a circular sequence** never panics and answers "no match" exactly when there is no hit, or when the
leftmost hit of minimal error count reaches into the circular extension — even if other hits lie inside, in every mode
(or, unreachable, when a hit that is not re-aligned starts before the sequence) -/
theorem bestMatch_circular_char (P : Pattern) (seq : Bytes) (begin length : Int)
    (hm1 : 1 ≤ P.patlen) (hc : P.patlen ≤ P.cpat.length) (hmax : P.maxerr < 10000) :
    let res := findAllIndex P seq true begin length
    bestMatch P seq true begin length ≠ .panic ∧
    ((∃ s e k, bestMatch P seq true begin length = .ok (s, e, k, false)) ↔
      (res = [] ∨ (seq.length : Int) < (bestOf res).2.1 ∨
        ((bestOf res).1 < 0 ∧ ((bestOf res).2.2 = 0 ∨ P.hasIndel = false)))) :=
  Apat.bestMatch_circular_char P seq begin length hm1 hc hmax

/-- counterexamples (sample evaluations of the model, same results on the real code: D35): pattern `ACGT`, budget 1, indels.
(i) the only occurrence straddles the origin: reported by `FindAllIndex`, dropped by `AllMatches`, "no match" for `BestMatch`;
(ii) an occurrence INSIDE the linear part of a circular sequence is reported a second time in the extension and that second
report makes `AllMatches` panic; (iii) `BestMatch` answers "no match" because the best hit straddles the origin although
another hit lies inside, in indel and in mismatch-only mode. -/
theorem circular_counterexamples :
    (withACGT 1 true (fun P => findAllIndex P seqJunction true 0 (-1)) = some [(68, 72, 1)] ∧
     withACGT 1 true (fun P => allMatches P seqJunction true 0 (-1)) = some (.ok []) ∧
     withACGT 1 true (fun P => bestMatch P seqJunction true 0 (-1)) = some (.ok (0, 72, 1, false))) ∧
    (withACGT 1 true (fun P => allMatches P seqInside false 0 (-1)) = some (.ok [(10, 14, 1)]) ∧
     withACGT 1 true (fun P => filterBestMatch P seqInside true 0 (-1)) = some [(9, 13, 1), (79, 83, 1)] ∧
     withACGT 1 true (fun P => allMatches P seqInside true 0 (-1)) = some .panic) ∧
    (withACGT 1 true (fun P => bestMatch P seqBoth true 0 (-1)) = some (.ok (0, 72, 0, false)) ∧
     withACGT 1 true (fun P => bestMatch P seqBoth false 0 (-1)) = some (.ok (4, 8, 1, true)) ∧
     withACGT 1 false (fun P => bestMatch P seqBoth true 0 (-1)) = some (.ok (0, 72, 0, false))) :=
  ⟨⟨circular_junction_hit_dropped.1, circular_junction_hit_dropped.2.2.1, circular_junction_hit_dropped.2.2.2⟩,
   ⟨circular_allMatches_panics.1, circular_allMatches_panics.2.1, circular_allMatches_panics.2.2.1⟩,
   ⟨circular_bestMatch_misses_inside_hit.2.1, circular_bestMatch_misses_inside_hit.2.2.1,
    circular_bestMatch_misses_inside_hit.2.2.2.2.2.1⟩⟩

/-! ## round 3 — the pattern-length bound: proved up to 63, false at 64 = `MAX_PAT_LEN` (known finding D33) -/

set_option maxRecDepth 1000000 in
/-- **the bound `patlen ≤ 63` is reached** (non-vacuity of every theorem above at the bound, and a test): `ACGT`x15 + `ACG` compiles
to 63 positions; with 2 errors on `acgt`x20 the model reports the five periodic occurrences `0, 4, 8, 12, 16` without error
(the real code gives the same list: corpus of the harness). -/
theorem patlen_63_covered :
    (compile ((List.replicate 15 [65, 67, 71, 84]).flatten ++ [65, 67, 71] : Bytes) 2 false).toOption.map
      (fun P => (decide (1 ≤ P.patlen ∧ P.patlen ≤ 63), P.patlen,
        manberSub P (List.replicate 20 [0, 2, 6, 19]).flatten 0 144))
      = some (true, 63, [(0, 0), (4, 0), (8, 0), (12, 0), (16, 0)]) := by decide

/-- **`MakeApatPattern` accepts a pattern of 64 positions** (`MAX_PAT_LEN`; no length test in `buildPattern`) -/
theorem len64_accepted :
    makeApatPattern (List.replicate 64 65) 0 false = .ok patA64 ∧ patA64.patlen = 64 ∧ Gen.apatMaxPatLen = 64 :=
  ⟨by rw [(makeApatPattern_guard _ 0 false).2 (by decide)]; exact patA64_compiles, patA64_patlen, by decide⟩

/-- **no value of `0x1L << 64` gives an exact automaton at 64 positions.**  `manberNoErrWith v` is `ManberNoErr` with the value of
the (undefined) shift `0x1L << patlen` as a parameter (`manberNoErr = manberNoErrWith (1#64 <<< patlen)` by `rfl`).  For the
pattern `A^64` and every `v`: the exact occurrence in `a^64` is missed, or a hit is reported in `c a^63`, where the
specification (`hamCost`) says one occurrence at 0 resp. none.  The automaton needs the `m + 1` bits `m - j`, `j = 0..m`
(invariant `Rep`): 65 bits for `m = 64`. -/
theorem len64_no_exact_automaton (v : W) :
    (((0 : Int), 0) ∉ manberNoErrWith v patA64 textA64 0 64 ∨ manberNoErrWith v patA64 textCA63 0 64 ≠ []) ∧
    hamCost patA64.codes textA64 = some 0 ∧
    (∀ i, hamCost patA64.codes (textCA63.drop i) ≠ some 0 ∨ 64 < i + patA64.patlen) :=
  ⟨noErr_len64_inexact v, len64_spec.1, len64_spec.2⟩

/-- the same as the negation of the statement of `manberNoErr_exact` (`NoErrSpec` = its right-hand side) on these two texts,
for every value of the shift … -/
theorem len64_not_exact (v : W) :
    ¬ (∀ data ∈ [textA64, textCA63], ∀ (i : Int) (k : Nat),
        (i, k) ∈ manberNoErrWith v patA64 data 0 64 ↔ NoErrSpec patA64 data 0 64 i k) :=
  Apat.len64_not_exact v

/-- … and for the model as it is: **`manberNoErr_exact` with `patlen ≤ 64` instead of `patlen ≤ 63` is false** -/
theorem manberNoErr_exact_fails_at_64 :
    ¬ (∀ (P : Pattern) (data : List Nat) (begin length : Nat), 1 ≤ P.patlen → P.patlen ≤ 64 → (∀ c ∈ data, c < 26) →
        ∀ (i : Int) (k : Nat), (i, k) ∈ manberNoErr P data begin length ↔ NoErrSpec P data begin length i k) :=
  Apat.manberNoErr_exact_fails_at_64

/-- `NoErrSpec` is literally the right-hand side of `manberNoErr_exact` -/
example (P : Pattern) (data : List Nat) (begin length : Nat)
    (hm1 : 1 ≤ P.patlen) (hm : P.patlen ≤ 63) (hd : ∀ c ∈ data, c < 26) (i : Int) (k : Nat) :
    (i, k) ∈ manberNoErr P data begin length ↔ NoErrSpec P data begin length i k :=
  manberNoErr_exact P data begin length hm1 hm hd i k

/-- **the D33 witness** (sample evaluations; the real code behaves like the value 1, gcc/x86-64): `ACGT`x16 = 64 positions, one
error, on `acgt`x20 — five exact occurrences; `ManberSub` reports nothing (model as it is, shift value 0, shift value 1);
`ManberIndel` reports nothing (0) or all 80 end positions with one error (1). -/
theorem len64_d33_witness :
    (∀ b, compile strACGT16 1 b = .ok (patACGT16 b) ∧ (patACGT16 b).patlen = 64) ∧
    [0, 4, 8, 12, 16].map (fun i => hamCost (patACGT16 false).codes (textACGT20.drop i)) =
      [some 0, some 0, some 0, some 0, some 0] ∧
    (manberSub (patACGT16 false) textACGT20 0 144 = [] ∧ manberSubWith 0 (patACGT16 false) textACGT20 0 144 = [] ∧
      manberSubWith 1 (patACGT16 false) textACGT20 0 144 = []) ∧
    (manberIndelWith 0 (patACGT16 true) textACGT20 0 144 = [] ∧
      manberIndelWith 1 (patACGT16 true) textACGT20 0 144 = (List.range 80).map (fun (i : Nat) => ((i : Int) - 63, 1))) :=
  ⟨fun b => ⟨patACGT16_compiles b, patACGT16_patlen b⟩, acgt16_spec, acgt16_sub_reports_nothing, acgt16_indel_reports_garbage⟩

/-! ## round 3 — strand symmetry with indels -/

/-- **the edit distance is strand-symmetric**: `codes'` = the mirror of the reversed code list (what `complementPattern`
computes); the distance of the complemented pattern to the substring `d[a:b]` is the distance of the pattern to the
mirror image `rc(d)[n-b : n-a]` of that substring (letters only and no `u` in the sequence). -/
theorem editDist_strand (codes codes' d : List Nat) (hmir : MirrorList codes.reverse codes')
    (hd : ∀ c ∈ d, c < 26 ∧ c ≠ 20) (a b : Nat) (hab : a ≤ b) (hb : b ≤ d.length) :
    editDist accepts codes' ((d.drop a).take (b - a)) =
      editDist accepts codes (((rcData d).drop (d.length - b)).take (d.length - a - (d.length - b))) :=
  editDist_sub_rc codes codes' d hmir hd a b hab hb

/-- **matching the reverse-complemented pattern ≡ matching the pattern on the reverse-complemented sequence, with indels**
(`ManberIndel`, whole-sequence search, pattern of 1..63 positions without `#`).  A hit of the indel automaton is located by
its END and stands for a substring of variable length, so the hit lists are not mirror images position by position
(`match_revcomp_indel_locus` says what corresponds to what); the symmetric statement is per error level: for every `K`, the
complemented pattern `P'` has a hit with at most `K` errors on `d` iff `P` has one on `rc(d)`.  With `K = maxerr`: a match is
reported on one strand iff it is on the other; with all `K`: the least error count over the hits is the same. -/
theorem match_revcomp_indel (P P' : Pattern) (d : List Nat) (hmir : MirrorList P.codes.reverse P'.codes)
    (he : P'.maxerr = P.maxerr) (hm1 : 1 ≤ P.patlen) (hm : P.patlen ≤ 63)
    (hno : ∀ a ∈ P.codes, oblig a = false) (hd : ∀ c ∈ d, c < 26 ∧ c ≠ 20) (K : Nat) :
    (∃ i k, k ≤ K ∧ (i, k) ∈ manberIndel P' d 0 d.length) ↔
      (∃ i k, k ≤ K ∧ (i, k) ∈ manberIndel P (rcData d) 0 d.length) :=
  manberIndel_revcomp P P' d hmir he hm1 hm hno
    (hmir.no_oblig (fun a ha => hno a (List.mem_reverse.1 ha))) hd K

/-- … in particular **a match is reported on one strand iff it is reported on the other** -/
theorem match_revcomp_indel_nonempty (P P' : Pattern) (d : List Nat) (hmir : MirrorList P.codes.reverse P'.codes)
    (he : P'.maxerr = P.maxerr) (hm1 : 1 ≤ P.patlen) (hm : P.patlen ≤ 63)
    (hno : ∀ a ∈ P.codes, oblig a = false) (hd : ∀ c ∈ d, c < 26 ∧ c ≠ 20) :
    manberIndel P' d 0 d.length ≠ [] ↔ manberIndel P (rcData d) 0 d.length ≠ [] := by
  have hl : P'.patlen = P.patlen := by unfold Pattern.patlen; simpa using hmir.length_eq
  have hno' := hmir.no_oblig (fun a ha => hno a (List.mem_reverse.1 ha))
  have key : ∀ (Q : Pattern) (D : List Nat), 1 ≤ Q.patlen → Q.patlen ≤ 63 → (∀ c ∈ D, c < 26) →
      (∀ a ∈ Q.codes, oblig a = false) →
      (manberIndel Q D 0 D.length ≠ [] ↔ ∃ i k, k ≤ Q.maxerr ∧ (i, k) ∈ manberIndel Q D 0 D.length) := by
    intro Q D h1 h2 h3 h4
    constructor
    · intro hne
      obtain ⟨⟨i, k⟩, hx⟩ := List.exists_mem_of_ne_nil _ hne
      obtain ⟨_, _, _, _, hk, _⟩ := (indel_iff Q D 0 D.length h1 h2 h3 h4 i k).1 hx
      exact ⟨i, k, hk, hx⟩
    · rintro ⟨i, k, _, hx⟩; exact List.ne_nil_of_mem hx
  have h2 := key P (rcData d) hm1 hm (rcData_lt d (fun c hc => (hd c hc).1)) hno
  rw [rcData_length] at h2
  rw [key P' d (by omega) (by omega) (fun c hc => (hd c hc).1) hno', h2, he]
  exact match_revcomp_indel P P' d hmir he hm1 hm hno hd P.maxerr

/-- **what corresponds to what**: a hit of `P'` on `d` ending at `pos` with `k` errors stands for a substring `d[a .. pos]` at
edit distance `k`; when that substring is not empty, `P` has a hit on `rc(d)` ending at the mirror image `n - 1 - a` of its
START, with at most `k` errors (mirrored coordinates of the located occurrence, not of the raw hit). -/
theorem match_revcomp_indel_locus (P P' : Pattern) (d : List Nat) (hmir : MirrorList P.codes.reverse P'.codes)
    (he : P'.maxerr = P.maxerr) (hm1 : 1 ≤ P.patlen) (hm : P.patlen ≤ 63)
    (hno : ∀ a ∈ P.codes, oblig a = false) (hd : ∀ c ∈ d, c < 26 ∧ c ≠ 20)
    (i : Int) (k : Nat) (hmem : (i, k) ∈ manberIndel P' d 0 d.length) :
    ∃ pos a : Nat, i = (pos : Int) - P.patlen + 1 ∧ pos < d.length ∧ a ≤ pos + 1 ∧
      editDist accepts P'.codes ((d.drop a).take (pos + 1 - a)) = k ∧
      (a ≤ pos → ∃ k', k' ≤ k ∧
        (((d.length - 1 - a : Nat) : Int) - P.patlen + 1, k') ∈ manberIndel P (rcData d) 0 d.length) :=
  manberIndel_revcomp_locus P P' d hmir he hm1 hm hno
    (hmir.no_oblig (fun a ha => hno a (List.mem_reverse.1 ha))) hd i k hmem

/-- **the same at the string level**: for every pattern string of the documented grammar without `#`, at most 63 positions,
the pattern returned by `ReverseComplement` (`complementPattern`) and the pattern itself are strand-symmetric with indels. -/
theorem match_revcomp_indel_string (ts : List Tok) (hts : ∀ t ∈ ts, t.WF) (hne : ts ≠ []) (hlen : ts.length ≤ 63)
    (hnob : ∀ t ∈ ts, t.oblig = false)
    (e : Nat) (b : Bool) (d : List Nat) (hd : ∀ c ∈ d, c < 26 ∧ c ≠ 20) (K : Nat) :
    ∃ P P' : Pattern, compile (patStr ts) e b = .ok P ∧ reverseComplement P = .ok P' ∧
      ((∃ i k, k ≤ K ∧ (i, k) ∈ manberIndel P' d 0 d.length) ↔
        (∃ i k, k ≤ K ∧ (i, k) ∈ manberIndel P (rcData d) 0 d.length)) := by
  obtain ⟨h1, h2⟩ := reverseComplement_pat ts hts hne e b
  have hpos : 1 ≤ ts.length := List.length_pos_iff.2 hne
  refine ⟨_, _, compile_pat ts hts hne e b, h1, ?_⟩
  refine match_revcomp_indel ⟨patStr ts, ts.map Tok.code, e, b⟩
    ⟨patStr (ts.reverse.map Tok.comp), (ts.reverse.map Tok.comp).map Tok.code, e, b⟩ d h2 rfl (by show 1 ≤ (ts.map Tok.code).length; rw [List.length_map]; exact hpos)
    (by show (ts.map Tok.code).length ≤ 63; rw [List.length_map]; exact hlen) ?_ hd K
  intro a ha
  simp only [List.mem_map] at ha
  obtain ⟨t, ht, rfl⟩ := ha
  rw [oblig_code]; exact hnob t ht

set_option maxRecDepth 100000 in
/-- non-vacuity / test (sample evaluation): `ACGGT` / its complement `ACCGT`, one error, indels, on `ttacgttt` and its reverse
complement `aaacgtaa`: both hit lists are non-empty with the same least error count 1 -/
example :
    (compile ([65, 67, 67, 71, 84] : Bytes) 1 true).toOption.map (fun P => manberIndel P [19, 19, 0, 2, 6, 19, 19, 19] 0 8)
      = some [(1, 1)] ∧
    (compile ([65, 67, 71, 71, 84] : Bytes) 1 true).toOption.map (fun P => manberIndel P (rcData [19, 19, 0, 2, 6, 19, 19, 19]) 0 8)
      = some [(1, 1)] := by
  refine ⟨?_, ?_⟩ <;> decide

/-! ## round 3 — strand symmetry at the level of the Go API (`FindAllIndex` on the stored bytes, `obiseq` reverse complement) -/

/-- **`FindAllIndex` of the complemented pattern on `seq` ≡ `FindAllIndex` of the pattern on `seq.ReverseComplement()`, mirrored
coordinates `(s, e, k) ↦ (n - e, n - s, k)`** — exact and mismatch-only mode, whole-sequence search (`begin = 0`, `length = -1`),
sequence of lower-case letters without `u` (`SeqOps.rc` = the `obiseq` reverse complement, C07's model). -/
theorem findAllIndex_revcomp (P P' : Pattern) (seq : Bytes) (hmir : MirrorList P.codes.reverse P'.codes)
    (he : P'.maxerr = P.maxerr) (hi : P'.hasIndel = P.hasIndel) (hmode : P.hasIndel = false ∨ P.maxerr = 0)
    (hm1 : 1 ≤ P.patlen) (hm : P.patlen ≤ 63) (hseq : ∀ b ∈ seq, isLower b = true ∧ b ≠ 117) (s e k : Int) :
    (s, e, k) ∈ findAllIndex P' seq false 0 (-1) ↔
      ((seq.length : Int) - e, (seq.length : Int) - s, k) ∈ findAllIndex P (SeqOps.rc seq) false 0 (-1) := by
  have hl : P'.patlen = P.patlen := by unfold Pattern.patlen; simpa using hmir.length_eq
  have hmode' : P'.hasIndel = false ∨ P'.maxerr = 0 := by rw [hi, he]; exact hmode
  have hd := encode_letters seq hseq
  have hdl : (seq.map encodeByte).length = seq.length := List.length_map ..
  have h0 : (if (0 : Int) < 0 then (0 : Int) else 0).toNat = 0 := by decide
  have hn : ∀ n : Nat, (if (-1 : Int) < 0 then (n : Int) else -1).toNat = n := by intro n; simp
  have hmin : min (0 + (seq.length + Gen.apatMaxPatLen)) seq.length = seq.length := Nat.min_eq_right (by omega)
  rw [findAllIndex_exact P' seq 0 (-1) hmode' (by omega) (by omega),
    findAllIndex_exact P (SeqOps.rc seq) 0 (-1) hmode hm1 hm,
    encode_rc seq (fun b hb => (hseq b hb).1), rc_length, h0, hn, hl, he, hmin]
  have hpl : P.patlen = P.codes.length := rfl
  rw [hpl] at hm1 hm ⊢
  constructor
  · rintro ⟨i', k', h1, h2, h3, _, h5, h6, h7⟩
    refine ⟨seq.length - i' - P.codes.length, k', by omega, by omega, h3, Nat.zero_le _, by omega, ?_, h7⟩
    rw [← h6]
    have := hamCost_rc P.codes P'.codes (seq.map encodeByte) hmir hd i' (by rw [hdl]; exact h5)
    rw [hdl] at this
    exact this.symm
  · rintro ⟨j, k', h1, h2, h3, _, h5, h6, h7⟩
    refine ⟨seq.length - j - P.codes.length, k', by omega, by omega, h3, Nat.zero_le _, by omega, ?_, h7⟩
    rw [← h6]
    have := hamCost_rc P.codes P'.codes (seq.map encodeByte) hmir hd (seq.length - j - P.codes.length)
      (by rw [hdl]; omega)
    rw [hdl, show seq.length - (seq.length - j - P.codes.length) - P.codes.length = j by omega] at this
    exact this

/-- **the same with indels**, per error level: for every `K`, `FindAllIndex` of the complemented pattern reports a hit with at
most `K` errors on `seq` iff `FindAllIndex` of the pattern reports one on `seq.ReverseComplement()` (pattern without `#`) -/
theorem findAllIndex_revcomp_indel (P P' : Pattern) (seq : Bytes) (hmir : MirrorList P.codes.reverse P'.codes)
    (he : P'.maxerr = P.maxerr) (hi : P'.hasIndel = P.hasIndel) (hind : P.hasIndel = true) (he0 : P.maxerr ≠ 0)
    (hm1 : 1 ≤ P.patlen) (hm : P.patlen ≤ 63) (hno : ∀ a ∈ P.codes, oblig a = false)
    (hseq : ∀ b ∈ seq, isLower b = true ∧ b ≠ 117) (K : Nat) :
    (∃ h ∈ findAllIndex P' seq false 0 (-1), h.2.2 ≤ (K : Int)) ↔
      (∃ h ∈ findAllIndex P (SeqOps.rc seq) false 0 (-1), h.2.2 ≤ (K : Int)) := by
  have hd := encode_letters seq hseq
  have hdl : (seq.map encodeByte).length = seq.length := List.length_map ..
  have key : ∀ (Q : Pattern) (sq : Bytes), Q.hasIndel = true → Q.maxerr ≠ 0 →
      ((∃ h ∈ findAllIndex Q sq false 0 (-1), h.2.2 ≤ (K : Int)) ↔
        ∃ i k, k ≤ K ∧ (i, k) ∈ manberIndel Q (sq.map encodeByte) 0 (sq.map encodeByte).length) := by
    intro Q sq hQ hQe
    unfold findAllIndex seqData
    simp only [Bool.false_eq_true, if_false]
    rw [manberAll_indel Q _ _ _ hQ hQe]
    have h0 : (if (0 : Int) < 0 then (0 : Int) else 0).toNat = 0 := by decide
    have hn : (if (-1 : Int) < 0 then (sq.length : Int) else -1).toNat = sq.length := by simp
    rw [h0, hn, manberIndel_clip Q _ _ (by rw [List.length_map]; omega)]
    constructor
    · rintro ⟨h, hmem, hk⟩
      obtain ⟨⟨a, b⟩, hab, rfl⟩ := List.mem_map.1 hmem
      exact ⟨a, b, by simpa using hk, hab⟩
    · rintro ⟨i, k, hk, hmem⟩
      exact ⟨_, List.mem_map.2 ⟨(i, k), hmem, rfl⟩, by simpa using hk⟩
  rw [key P' seq (by rw [hi]; exact hind) (by rw [he]; exact he0), key P (SeqOps.rc seq) hind he0,
    encode_rc seq (fun b hb => (hseq b hb).1), rcData_length]
  exact match_revcomp_indel P P' (seq.map encodeByte) hmir he hm1 hm hno hd K

/-- **the property clause as stated, at the string level**: for every pattern string of the documented grammar (at most 63
positions, `!`, `#` and `[...]` included), any mismatch budget, and every sequence of lower-case letters without `u`:
`MakeApatPattern(p).ReverseComplement().FindAllIndex(seq)` ≡ `MakeApatPattern(p).FindAllIndex(seq.ReverseComplement())` with
mirrored coordinates. -/
theorem findAllIndex_revcomp_string (ts : List Tok) (hts : ∀ t ∈ ts, t.WF) (hne : ts ≠ []) (hlen : ts.length ≤ 63)
    (emax : Nat) (seq : Bytes) (hseq : ∀ b ∈ seq, isLower b = true ∧ b ≠ 117) (s e k : Int) :
    ∃ P P' : Pattern, compile (patStr ts) emax false = .ok P ∧ reverseComplement P = .ok P' ∧
      ((s, e, k) ∈ findAllIndex P' seq false 0 (-1) ↔
        ((seq.length : Int) - e, (seq.length : Int) - s, k) ∈ findAllIndex P (SeqOps.rc seq) false 0 (-1)) := by
  obtain ⟨h1, h2⟩ := reverseComplement_pat ts hts hne emax false
  have hpos : 1 ≤ ts.length := List.length_pos_iff.2 hne
  refine ⟨_, _, compile_pat ts hts hne emax false, h1, ?_⟩
  exact findAllIndex_revcomp ⟨patStr ts, ts.map Tok.code, emax, false⟩
    ⟨patStr (ts.reverse.map Tok.comp), (ts.reverse.map Tok.comp).map Tok.code, emax, false⟩ seq h2 rfl rfl (Or.inl rfl)
    (by show 1 ≤ (ts.map Tok.code).length; rw [List.length_map]; exact hpos)
    (by show (ts.map Tok.code).length ≤ 63; rw [List.length_map]; exact hlen) hseq s e k

set_option maxRecDepth 100000 in
/-- non-vacuity / test: `ACGGT` and its complement `ACCGT`, one mismatch, on `ttaccgtaacggt` and its reverse complement -/
example :
    (compile ([65, 67, 67, 71, 84] : Bytes) 1 false).toOption.map
      (fun P => findAllIndex P ([116, 116, 97, 99, 99, 103, 116, 97, 97, 99, 103, 103, 116] : Bytes) false 0 (-1))
      = some [(2, 7, 0), (8, 13, 1)] ∧
    (compile ([65, 67, 71, 71, 84] : Bytes) 1 false).toOption.map
      (fun P => findAllIndex P (SeqOps.rc ([116, 116, 97, 99, 99, 103, 116, 97, 97, 99, 103, 103, 116] : Bytes)) false 0 (-1))
      = some [(0, 5, 1), (6, 11, 0)] := by
  refine ⟨?_, ?_⟩ <;> decide

/-! ## round 3 — `FindAllIndex` on a circular sequence is `FindAllIndex` on the extended linear buffer -/

/-- **`FindAllIndex` on a circular sequence = `FindAllIndex` on the linear sequence extended by its first `min(len, MAX_PAT_LEN)`
symbols** (what `new_apatseq` builds, as repaired: `C10-circular-short-overread`), with the window length the API computes from
the ORIGINAL length.  Every theorem about linear sequences (`findAllIndex_exact`, `findAllIndex_indel`, `findAllIndex_inside`, …)
therefore describes the hits on a circular sequence, in every mode: positions are positions of the extended buffer. -/
theorem findAllIndex_circular_is_extended (P : Pattern) (seq : Bytes) (begin length : Int) :
    findAllIndex P seq true begin length =
      findAllIndex P (seq ++ seq.take Gen.apatMaxPatLen) false begin (if length < 0 then (seq.length : Int) else length) := by
  unfold findAllIndex seqData
  simp only [if_true, Bool.false_eq_true, if_false, List.map_append, List.map_take]
  have h : (if (if length < 0 then (seq.length : Int) else length) < 0
      then ((seq ++ List.take Gen.apatMaxPatLen seq).length : Int)
      else (if length < 0 then (seq.length : Int) else length)) = (if length < 0 then (seq.length : Int) else length) := by
    by_cases hl : length < 0
    · simp only [hl, if_true]
      rw [if_neg (by omega)]
    · simp only [hl, if_false]
  rw [h]

/-- … for instance with indels: the hits on a circular sequence are the end positions `pos` of the extended buffer with the least
edit distance of a substring of the extended buffer ending there (instance of `findAllIndex_indel`) -/
theorem findAllIndex_indel_circular (P : Pattern) (seq : Bytes) (begin length : Int)
    (hi : P.hasIndel = true) (he : P.maxerr ≠ 0) (hm1 : 1 ≤ P.patlen) (hm : P.patlen ≤ 63)
    (hno : ∀ a ∈ P.codes, oblig a = false) (s e k : Int) :
    (s, e, k) ∈ findAllIndex P seq true begin length ↔
      (s, e, k) ∈ findAllIndex P (seq ++ seq.take Gen.apatMaxPatLen) false begin (if length < 0 then (seq.length : Int) else length) ∧
      ∃ pos k' : Nat, s = (pos : Int) - P.patlen + 1 ∧ e = s + P.patlen ∧ k = (k' : Int) ∧ k' ≤ P.maxerr ∧
        pos < seq.length + min Gen.apatMaxPatLen seq.length := by
  rw [findAllIndex_circular_is_extended]
  constructor
  · intro h
    refine ⟨h, ?_⟩
    obtain ⟨pos, k', h1, h2, h3, _, h5, h6, _⟩ := (findAllIndex_indel P _ begin _ hi he hm1 hm hno s e k).1 h
    refine ⟨pos, k', h1, h2, h3, h6, ?_⟩
    have hl : (seq ++ List.take Gen.apatMaxPatLen seq).length = seq.length + min Gen.apatMaxPatLen seq.length := by simp
    rw [hl] at h5
    omega
  · exact fun h => h.1

set_option maxRecDepth 100000 in
/-- test: `ACGT` across the origin of the circular sequence `gtttac` (shorter than `MAX_PAT_LEN`): one hit at 4 -/
example : (compile ([65, 67, 71, 84] : Bytes) 0 false).toOption.map
      (fun P => (findAllIndex P ([103, 116, 116, 116, 97, 99] : Bytes) true 0 (-1),
        findAllIndex P ([103, 116, 116, 116, 97, 99] ++ [103, 116, 116, 116, 97, 99] : Bytes) false 0 6))
      = some ([(4, 8, 0)], [(4, 8, 0)]) := by decide

end ObiVerif.Props.C10
