import ObiVerif.Model.Fp
import ObiVerif.Gen.FpGen
import ObiVerif.Lemmas.FpShift
set_option Elab.async false
namespace ObiVerif.Props.C20Gen
open ObiVerif

theorem subw_of_le {a b : Nat} (h : b ≤ a) (ha : a < Fp.W) : Gen.Fp.subw a b = a - b := by
  unfold Gen.Fp.subw; simp only [Fp.W] at *; omega

theorem shl64_one {n : Nat} (h : n < 64) : Fp.shl64 1 n = 2 ^ n := by
  unfold Fp.shl64
  have : 2 ^ n < 2 ^ 64 := Nat.pow_lt_pow_right (by decide) h
  rw [Nat.one_mul, Nat.mod_eq_of_lt (by simpa [Fp.W] using this)]

theorem subw_pow_one {n : Nat} (h : n < 64) : Gen.Fp.subw (2 ^ n) 1 = 2 ^ n - 1 := by
  have : 2 ^ n < 2 ^ 64 := Nat.pow_lt_pow_right (by decide) h
  exact subw_of_le (Nat.one_le_two_pow) (by simpa [Fp.W] using this)

@[simp] theorem gen_U64_leftShift64 : ∀ u n c, Gen.Fp.U64.leftShift64 u n c = Fp.leftShift64 u.w0 n c := by
  intro u n c
  unfold Gen.Fp.U64.leftShift64 Fp.leftShift64
  by_cases h0 : n = 0
  · simp [h0]
  by_cases h1 : n < 64
  · have e3 : Gen.Fp.subw 64 n = 64 - n := subw_of_le (by omega) (by decide)
    simp [h0, h1, shl64_one h1, subw_pow_one h1, e3]
  by_cases h2 : n = 64
  · simp [h2]
  by_cases h3 : n < 128
  · have e : Gen.Fp.subw n 64 = n - 64 := subw_of_le (by omega) (by simp only [Fp.W]; omega)
    simp [h0, h1, h2, h3, e]
  · simp [h0, h1, h2, h3]

@[simp] theorem gen_U64_rightShift64 : ∀ u n c, Gen.Fp.U64.rightShift64 u n c = Fp.rightShift64 u.w0 n c := by
  intro u n c
  unfold Gen.Fp.U64.rightShift64 Fp.rightShift64
  by_cases h0 : n = 0
  · simp [h0]
  by_cases h1 : n < 64
  · have e3 : Gen.Fp.subw 64 n = 64 - n := subw_of_le (by omega) (by decide)
    have h1' : 64 - n < 64 := by omega
    simp [h0, h1, e3, shl64_one h1', subw_pow_one h1']
  by_cases h2 : n = 64
  · simp [h2]
  by_cases h3 : n < 128
  · have e : Gen.Fp.subw n 64 = n - 64 := subw_of_le (by omega) (by simp only [Fp.W]; omega)
    simp [h0, h1, h2, h3, e]
  · simp [h0, h1, h2, h3]

@[simp] theorem gen_U64_zero : ∀ u, Gen.Fp.U64.zero u = Fp.U64.zero u := by
  intro u; first | rfl | simp [Gen.Fp.U64.zero, Fp.U64.zero]

@[simp] theorem gen_U64_maxValue : ∀ u, Gen.Fp.U64.maxValue u = Fp.U64.maxValue u := by
  intro u; first | rfl | simp [Gen.Fp.U64.maxValue, Fp.U64.maxValue]

@[simp] theorem gen_U64_isZero : ∀ u, Gen.Fp.U64.isZero u = Fp.U64.isZero u := by
  intro u; first | rfl | simp [Gen.Fp.U64.isZero, Fp.U64.isZero]

@[simp] theorem gen_U64_toU64 : ∀ u, Gen.Fp.U64.toU64 u = Fp.U64.toU64 u := by
  intro u; first | rfl | simp [Gen.Fp.U64.toU64, Fp.U64.toU64]

@[simp] theorem gen_U64_toU128 : ∀ u, Gen.Fp.U64.toU128 u = Fp.U64.toU128 u := by
  intro u; first | rfl | simp [Gen.Fp.U64.toU128, Fp.U64.toU128]

@[simp] theorem gen_U64_toU256 : ∀ u, Gen.Fp.U64.toU256 u = Fp.U64.toU256 u := by
  intro u; first | rfl | simp [Gen.Fp.U64.toU256, Fp.U64.toU256]

@[simp] theorem gen_U64_not : ∀ u, Gen.Fp.U64.not u = Fp.U64.not u := by
  intro u; first | rfl | simp [Gen.Fp.U64.not, Fp.U64.not]

@[simp] theorem gen_U64_asUint64 : ∀ u, Gen.Fp.U64.asUint64 u = Fp.U64.asUint64 u := by
  intro u; first | rfl | simp [Gen.Fp.U64.asUint64, Fp.U64.asUint64]

@[simp] theorem gen_U64_set64 : ∀ u x, Gen.Fp.U64.set64 u x = Fp.U64.set64 u x := by
  intro u x; first | rfl | simp [Gen.Fp.U64.set64, Fp.U64.set64]

@[simp] theorem gen_U64_add : ∀ u v, Gen.Fp.U64.add u v = Fp.U64.add u v := by
  intro u v; first | rfl | simp [Gen.Fp.U64.add, Fp.U64.add]

@[simp] theorem gen_U64_sub : ∀ u v, Gen.Fp.U64.sub u v = Fp.U64.sub u v := by
  intro u v; first | rfl | simp [Gen.Fp.U64.sub, Fp.U64.sub]

@[simp] theorem gen_U64_mul : ∀ u v, Gen.Fp.U64.mul u v = Fp.U64.mul u v := by
  intro u v; first | rfl | simp [Gen.Fp.U64.mul, Fp.U64.mul]

@[simp] theorem gen_U64_cmp : ∀ u v, Gen.Fp.U64.cmp u v = Fp.U64.cmp u v := by
  intro u v; first | rfl | simp [Gen.Fp.U64.cmp, Fp.U64.cmp]

@[simp] theorem gen_U64_equals : ∀ u v, Gen.Fp.U64.equals u v = Fp.U64.equals u v := by
  intro u v; first | rfl | simp [Gen.Fp.U64.equals, Fp.U64.equals]

@[simp] theorem gen_U64_lessThan : ∀ u v, Gen.Fp.U64.lessThan u v = Fp.U64.lessThan u v := by
  intro u v; first | rfl | simp [Gen.Fp.U64.lessThan, Fp.U64.lessThan]

@[simp] theorem gen_U64_greaterThan : ∀ u v, Gen.Fp.U64.greaterThan u v = Fp.U64.greaterThan u v := by
  intro u v; first | rfl | simp [Gen.Fp.U64.greaterThan, Fp.U64.greaterThan]

@[simp] theorem gen_U64_lessThanOrEqual : ∀ u v, Gen.Fp.U64.lessThanOrEqual u v = Fp.U64.lessThanOrEqual u v := by
  intro u v; first | rfl | simp [Gen.Fp.U64.lessThanOrEqual, Fp.U64.lessThanOrEqual]

@[simp] theorem gen_U64_greaterThanOrEqual : ∀ u v, Gen.Fp.U64.greaterThanOrEqual u v = Fp.U64.greaterThanOrEqual u v := by
  intro u v; first | rfl | simp [Gen.Fp.U64.greaterThanOrEqual, Fp.U64.greaterThanOrEqual]

@[simp] theorem gen_U64_and : ∀ u v, Gen.Fp.U64.and u v = Fp.U64.and u v := by
  intro u v; first | rfl | simp [Gen.Fp.U64.and, Fp.U64.and]

@[simp] theorem gen_U64_or : ∀ u v, Gen.Fp.U64.or u v = Fp.U64.or u v := by
  intro u v; first | rfl | simp [Gen.Fp.U64.or, Fp.U64.or]

@[simp] theorem gen_U64_xor : ∀ u v, Gen.Fp.U64.xor u v = Fp.U64.xor u v := by
  intro u v; first | rfl | simp [Gen.Fp.U64.xor, Fp.U64.xor]

@[simp] theorem gen_U64_leftShift : ∀ u n, Gen.Fp.U64.leftShift u n = Fp.U64.leftShift u n := by
  intro u n; first | rfl | simp [Gen.Fp.U64.leftShift, Fp.U64.leftShift]

@[simp] theorem gen_U64_rightShift : ∀ u n, Gen.Fp.U64.rightShift u n = Fp.U64.rightShift u n := by
  intro u n; first | rfl | simp [Gen.Fp.U64.rightShift, Fp.U64.rightShift]

@[simp] theorem gen_U64_add64 : ∀ u v c, Gen.Fp.U64.add64 u v c = Fp.U64.add64 u v c := by
  intro u v c; first | rfl | simp [Gen.Fp.U64.add64, Fp.U64.add64]

@[simp] theorem gen_U64_sub64 : ∀ u v c, Gen.Fp.U64.sub64 u v c = Fp.U64.sub64 u v c := by
  intro u v c; first | rfl | simp [Gen.Fp.U64.sub64, Fp.U64.sub64]

@[simp] theorem gen_U64_mul64 : ∀ u v, Gen.Fp.U64.mul64 u v = Fp.U64.mul64 u v := by
  intro u v; first | rfl | simp [Gen.Fp.U64.mul64, Fp.U64.mul64]

@[simp] theorem gen_U128_zero : ∀ u, Gen.Fp.U128.zero u = Fp.U128.zero u := by
  intro u; first | rfl | simp [Gen.Fp.U128.zero, Fp.U128.zero]

@[simp] theorem gen_U128_maxValue : ∀ u, Gen.Fp.U128.maxValue u = Fp.U128.maxValue u := by
  intro u; first | rfl | simp [Gen.Fp.U128.maxValue, Fp.U128.maxValue]

@[simp] theorem gen_U128_isZero : ∀ u, Gen.Fp.U128.isZero u = Fp.U128.isZero u := by
  intro u; first | rfl | simp [Gen.Fp.U128.isZero, Fp.U128.isZero]

@[simp] theorem gen_U128_toU64 : ∀ u, Gen.Fp.U128.toU64 u = Fp.U128.toU64 u := by
  intro u; first | rfl | simp [Gen.Fp.U128.toU64, Fp.U128.toU64]

@[simp] theorem gen_U128_toU128 : ∀ u, Gen.Fp.U128.toU128 u = Fp.U128.toU128 u := by
  intro u; first | rfl | simp [Gen.Fp.U128.toU128, Fp.U128.toU128]

@[simp] theorem gen_U128_toU256 : ∀ u, Gen.Fp.U128.toU256 u = Fp.U128.toU256 u := by
  intro u; first | rfl | simp [Gen.Fp.U128.toU256, Fp.U128.toU256]

@[simp] theorem gen_U128_not : ∀ u, Gen.Fp.U128.not u = Fp.U128.not u := by
  intro u; first | rfl | simp [Gen.Fp.U128.not, Fp.U128.not]

@[simp] theorem gen_U128_asUint64 : ∀ u, Gen.Fp.U128.asUint64 u = Fp.U128.asUint64 u := by
  intro u; first | rfl | simp [Gen.Fp.U128.asUint64, Fp.U128.asUint64]

@[simp] theorem gen_U128_set64 : ∀ u x, Gen.Fp.U128.set64 u x = Fp.U128.set64 u x := by
  intro u x; first | rfl | simp [Gen.Fp.U128.set64, Fp.U128.set64]

@[simp] theorem gen_U128_add : ∀ u v, Gen.Fp.U128.add u v = Fp.U128.add u v := by
  intro u v; first | rfl | simp [Gen.Fp.U128.add, Fp.U128.add]

@[simp] theorem gen_U128_sub : ∀ u v, Gen.Fp.U128.sub u v = Fp.U128.sub u v := by
  intro u v; first | rfl | simp [Gen.Fp.U128.sub, Fp.U128.sub]

@[simp] theorem gen_U128_mul : ∀ u v, Gen.Fp.U128.mul u v = Fp.U128.mul u v := by
  intro u v; first | rfl | simp [Gen.Fp.U128.mul, Fp.U128.mul]

@[simp] theorem gen_U128_cmp : ∀ u v, Gen.Fp.U128.cmp u v = Fp.U128.cmp u v := by
  intro u v; first | rfl | simp [Gen.Fp.U128.cmp, Fp.U128.cmp]

@[simp] theorem gen_U128_equals : ∀ u v, Gen.Fp.U128.equals u v = Fp.U128.equals u v := by
  intro u v; first | rfl | simp [Gen.Fp.U128.equals, Fp.U128.equals]

@[simp] theorem gen_U128_lessThan : ∀ u v, Gen.Fp.U128.lessThan u v = Fp.U128.lessThan u v := by
  intro u v; first | rfl | simp [Gen.Fp.U128.lessThan, Fp.U128.lessThan]

@[simp] theorem gen_U128_greaterThan : ∀ u v, Gen.Fp.U128.greaterThan u v = Fp.U128.greaterThan u v := by
  intro u v; first | rfl | simp [Gen.Fp.U128.greaterThan, Fp.U128.greaterThan]

@[simp] theorem gen_U128_lessThanOrEqual : ∀ u v, Gen.Fp.U128.lessThanOrEqual u v = Fp.U128.lessThanOrEqual u v := by
  intro u v; first | rfl | simp [Gen.Fp.U128.lessThanOrEqual, Fp.U128.lessThanOrEqual]

@[simp] theorem gen_U128_greaterThanOrEqual : ∀ u v, Gen.Fp.U128.greaterThanOrEqual u v = Fp.U128.greaterThanOrEqual u v := by
  intro u v; first | rfl | simp [Gen.Fp.U128.greaterThanOrEqual, Fp.U128.greaterThanOrEqual]

@[simp] theorem gen_U128_and : ∀ u v, Gen.Fp.U128.and u v = Fp.U128.and u v := by
  intro u v; first | rfl | simp [Gen.Fp.U128.and, Fp.U128.and]

@[simp] theorem gen_U128_or : ∀ u v, Gen.Fp.U128.or u v = Fp.U128.or u v := by
  intro u v; first | rfl | simp [Gen.Fp.U128.or, Fp.U128.or]

@[simp] theorem gen_U128_xor : ∀ u v, Gen.Fp.U128.xor u v = Fp.U128.xor u v := by
  intro u v; first | rfl | simp [Gen.Fp.U128.xor, Fp.U128.xor]

@[simp] theorem gen_U128_leftShift : ∀ u n, Gen.Fp.U128.leftShift u n = Fp.U128.leftShift u n := by
  intro u n; first | rfl | simp [Gen.Fp.U128.leftShift, Fp.U128.leftShift]

@[simp] theorem gen_U128_rightShift : ∀ u n, Gen.Fp.U128.rightShift u n = Fp.U128.rightShift u n := by
  intro u n; first | rfl | simp [Gen.Fp.U128.rightShift, Fp.U128.rightShift]

@[simp] theorem gen_U128_add64 : ∀ u x, Gen.Fp.U128.add64 u x = Fp.U128.add64 u x := by
  intro u x; first | rfl | simp [Gen.Fp.U128.add64, Fp.U128.add64]

@[simp] theorem gen_U128_mul64 : ∀ u x, Gen.Fp.U128.mul64 u x = Fp.U128.mul64 u x := by
  intro u x; first | rfl | simp [Gen.Fp.U128.mul64, Fp.U128.mul64]

@[simp] theorem gen_U128_quoRem64 : ∀ u x, Gen.Fp.U128.quoRem64 u x = Fp.U128.quoRem64 u x := by
  intro u x
  unfold Gen.Fp.U128.quoRem64 Fp.U128.quoRem64
  by_cases h : u.w1 < x
  · simp only [h, decide_true, if_true]
    cases Fp.bitsDiv64 u.w1 u.w0 x with
    | error e => rfl
    | ok a => cases a; rfl
  · simp only [h, decide_false, if_false, Bool.false_eq_true]
    cases Fp.bitsDiv64 0 u.w1 x with
    | error e => rfl
    | ok a =>
      obtain ⟨q1, r1⟩ := a
      simp only [bind, Except.bind]
      cases Fp.bitsDiv64 r1 u.w0 x with
      | error e => rfl
      | ok b => cases b; rfl

@[simp] theorem gen_U128_div64 : ∀ u x, Gen.Fp.U128.div64 u x = Fp.U128.div64 u x := by
  intro u x
  unfold Gen.Fp.U128.div64 Fp.U128.div64
  rw [gen_U128_quoRem64]
  cases Fp.U128.quoRem64 u x with
  | error e => rfl
  | ok a => cases a; rfl

@[simp] theorem gen_U128_mod64 : ∀ u x, Gen.Fp.U128.mod64 u x = Fp.U128.mod64 u x := by
  intro u x
  unfold Gen.Fp.U128.mod64 Fp.U128.mod64
  rw [gen_U128_quoRem64]
  cases Fp.U128.quoRem64 u x with
  | error e => rfl
  | ok a => cases a; rfl

@[simp] theorem gen_U128_cmp64 : ∀ u x, Gen.Fp.U128.cmp64 u x = Fp.U128.cmp64 u x := by
  intro u x; first | rfl | simp [Gen.Fp.U128.cmp64, Fp.U128.cmp64]

theorem lz_le {x : Nat} (h : x ≠ 0) : Fp.bitsLeadingZeros64 x ≤ 63 := by
  unfold Fp.bitsLeadingZeros64; simp only [h, if_false]; omega

theorem bitsDiv64_q_lt {hi lo y q r : Nat} (hlo : lo < Fp.W) (h : Fp.bitsDiv64 hi lo y = .ok (q, r)) : q < Fp.W := by
  unfold Fp.bitsDiv64 at h
  split at h
  · cases h
  · rename_i hc
    have hy : hi < y := by omega
    injection h with h; injection h with h1 h2
    subst h1
    apply Nat.div_lt_of_lt_mul
    calc hi * Fp.W + lo < hi * Fp.W + Fp.W := by omega
      _ = (hi + 1) * Fp.W := by rw [Nat.add_mul, Nat.one_mul]
      _ ≤ y * Fp.W := Nat.mul_le_mul_right _ hy

theorem gen_U128_quoRem : ∀ u v, u.WF → Gen.Fp.U128.quoRem u v = Fp.U128.quoRem u v := by
  intro u v hu
  unfold Gen.Fp.U128.quoRem Fp.U128.quoRem
  simp only [gen_U128_quoRem64, gen_U128_leftShift, gen_U128_rightShift, gen_U128_mul64, gen_U128_sub, gen_U128_cmp, gen_U128_add64]
  by_cases hv : v.w1 = 0
  · simp only [hv, beq_self_eq_true, if_true]
    cases Fp.U128.quoRem64 u v.w0 with
    | error e => rfl
    | ok a => cases a; rfl
  · have hb : (v.w1 == 0) = false := by simp [hv]
    simp only [hb, hv, if_false, Bool.false_eq_true]
    have hn := subw_of_le (lz_le hv) (by decide : 63 < Fp.W)
    simp only [hn]
    have hwf := (Fp.U128.rightShift_spec u 1 hu).1
    cases hd : Fp.bitsDiv64 (u.rightShift 1).w1 (u.rightShift 1).w0 (v.leftShift (Fp.bitsLeadingZeros64 v.w1)).w1 with
    | error e => rfl
    | ok a =>
      obtain ⟨tq, r0⟩ := a
      have hq : tq < Fp.W := bitsDiv64_q_lt hwf.2 hd
      simp only [bind, Except.bind]
      have hle : Fp.shr64 tq (63 - Fp.bitsLeadingZeros64 v.w1) ≤ tq := Nat.div_le_self _ _
      generalize Fp.shr64 tq (63 - Fp.bitsLeadingZeros64 v.w1) = t at hle ⊢
      by_cases ht : t = 0
      · subst ht
        simp only [bne_self_eq_false, Bool.false_eq_true, if_false]
        simp only [decide_eq_true_eq]
        generalize Fp.U128.mul64 v _ = m
        cases m with
        | error e => rfl
        | ok m =>
          simp only []
          generalize Fp.U128.sub u m = r
          cases r with
          | error e => rfl
          | ok r =>
            simp only []
            by_cases hc : r.cmp v ≥ 0
            · simp only [hc, if_true]
              generalize Fp.U128.add64 _ 1 = q
              cases q with
              | error e => rfl
              | ok q =>
                simp only []
                generalize Fp.U128.sub r v = r'
                cases r' with
                | error e => rfl
                | ok r' => rfl
            · simp only [hc, if_false]; rfl
      · have hne : (t != 0) = true := by simp [ht]
        have hs : Gen.Fp.subw t 1 = t - 1 := subw_of_le (by omega) (by omega)
        simp only [hne, if_true, hs]
        simp only [decide_eq_true_eq]
        generalize Fp.U128.mul64 v _ = m
        cases m with
        | error e => rfl
        | ok m =>
          simp only []
          generalize Fp.U128.sub u m = r
          cases r with
          | error e => rfl
          | ok r =>
            simp only []
            by_cases hc : r.cmp v ≥ 0
            · simp only [hc, if_true]
              generalize Fp.U128.add64 _ 1 = q
              cases q with
              | error e => rfl
              | ok q =>
                simp only []
                generalize Fp.U128.sub r v = r'
                cases r' with
                | error e => rfl
                | ok r' => rfl
            · simp only [hc, if_false]; rfl

theorem gen_U128_div : ∀ u v, u.WF → Gen.Fp.U128.div u v = Fp.U128.div u v := by
  intro u v hu
  unfold Gen.Fp.U128.div Fp.U128.div
  rw [gen_U128_quoRem u v hu]
  cases Fp.U128.quoRem u v with
  | error e => rfl
  | ok a => cases a; rfl

theorem gen_U128_mod : ∀ u v, u.WF → Gen.Fp.U128.mod u v = Fp.U128.mod u v := by
  intro u v hu
  unfold Gen.Fp.U128.mod Fp.U128.mod
  rw [gen_U128_quoRem u v hu]
  cases Fp.U128.quoRem u v with
  | error e => rfl
  | ok a => cases a; rfl



@[simp] theorem gen_U256_zero : ∀ u, Gen.Fp.U256.zero u = Fp.U256.zero u := by
  intro u; first | rfl | simp [Gen.Fp.U256.zero, Fp.U256.zero]

@[simp] theorem gen_U256_maxValue : ∀ u, Gen.Fp.U256.maxValue u = Fp.U256.maxValue u := by
  intro u; first | rfl | simp [Gen.Fp.U256.maxValue, Fp.U256.maxValue]

@[simp] theorem gen_U256_isZero : ∀ u, Gen.Fp.U256.isZero u = Fp.U256.isZero u := by
  intro u
  obtain ⟨a, b, c, d⟩ := u
  rw [Bool.eq_iff_iff]
  simp [Gen.Fp.U256.isZero, Fp.U256.isZero, and_assoc]

@[simp] theorem gen_U256_toU64 : ∀ u, Gen.Fp.U256.toU64 u = Fp.U256.toU64 u := by
  intro u; first | rfl | simp [Gen.Fp.U256.toU64, Fp.U256.toU64]

@[simp] theorem gen_U256_toU128 : ∀ u, Gen.Fp.U256.toU128 u = Fp.U256.toU128 u := by
  intro u; first | rfl | simp [Gen.Fp.U256.toU128, Fp.U256.toU128]

@[simp] theorem gen_U256_toU256 : ∀ u, Gen.Fp.U256.toU256 u = Fp.U256.toU256 u := by
  intro u; first | rfl | simp [Gen.Fp.U256.toU256, Fp.U256.toU256]

@[simp] theorem gen_U256_not : ∀ u, Gen.Fp.U256.not u = Fp.U256.not u := by
  intro u; first | rfl | simp [Gen.Fp.U256.not, Fp.U256.not]

@[simp] theorem gen_U256_asUint64 : ∀ u, Gen.Fp.U256.asUint64 u = Fp.U256.asUint64 u := by
  intro u; first | rfl | simp [Gen.Fp.U256.asUint64, Fp.U256.asUint64]

@[simp] theorem gen_U256_set64 : ∀ u x, Gen.Fp.U256.set64 u x = Fp.U256.set64 u x := by
  intro u x; first | rfl | simp [Gen.Fp.U256.set64, Fp.U256.set64]

@[simp] theorem gen_U256_add : ∀ u v, Gen.Fp.U256.add u v = Fp.U256.add u v := by
  intro u v; first | rfl | simp [Gen.Fp.U256.add, Fp.U256.add]

@[simp] theorem gen_U256_sub : ∀ u v, Gen.Fp.U256.sub u v = Fp.U256.sub u v := by
  intro u v; first | rfl | simp [Gen.Fp.U256.sub, Fp.U256.sub]

@[simp] theorem gen_U256_cmp : ∀ u v, Gen.Fp.U256.cmp u v = Fp.U256.cmp u v := by
  intro u v; first | rfl | simp [Gen.Fp.U256.cmp, Fp.U256.cmp]

@[simp] theorem gen_U256_equals : ∀ u v, Gen.Fp.U256.equals u v = Fp.U256.equals u v := by
  intro u v; first | rfl | simp [Gen.Fp.U256.equals, Fp.U256.equals]

@[simp] theorem gen_U256_lessThan : ∀ u v, Gen.Fp.U256.lessThan u v = Fp.U256.lessThan u v := by
  intro u v; first | rfl | simp [Gen.Fp.U256.lessThan, Fp.U256.lessThan]

@[simp] theorem gen_U256_greaterThan : ∀ u v, Gen.Fp.U256.greaterThan u v = Fp.U256.greaterThan u v := by
  intro u v; first | rfl | simp [Gen.Fp.U256.greaterThan, Fp.U256.greaterThan]

@[simp] theorem gen_U256_lessThanOrEqual : ∀ u v, Gen.Fp.U256.lessThanOrEqual u v = Fp.U256.lessThanOrEqual u v := by
  intro u v; first | rfl | simp [Gen.Fp.U256.lessThanOrEqual, Fp.U256.lessThanOrEqual]

@[simp] theorem gen_U256_greaterThanOrEqual : ∀ u v, Gen.Fp.U256.greaterThanOrEqual u v = Fp.U256.greaterThanOrEqual u v := by
  intro u v; first | rfl | simp [Gen.Fp.U256.greaterThanOrEqual, Fp.U256.greaterThanOrEqual]

@[simp] theorem gen_U256_and : ∀ u v, Gen.Fp.U256.and u v = Fp.U256.and u v := by
  intro u v; first | rfl | simp [Gen.Fp.U256.and, Fp.U256.and]

@[simp] theorem gen_U256_or : ∀ u v, Gen.Fp.U256.or u v = Fp.U256.or u v := by
  intro u v; first | rfl | simp [Gen.Fp.U256.or, Fp.U256.or]

@[simp] theorem gen_U256_xor : ∀ u v, Gen.Fp.U256.xor u v = Fp.U256.xor u v := by
  intro u v; first | rfl | simp [Gen.Fp.U256.xor, Fp.U256.xor]


/-! ## unint.go: the generic constructors at the three widths -/

theorem gen_zeroUint : Gen.Fp.zeroUint64 = Fp.zeroUint64 ∧ Gen.Fp.zeroUint128 = Fp.zeroUint128 ∧
    Gen.Fp.zeroUint256 = Fp.zeroUint256 := ⟨rfl, rfl, rfl⟩
theorem gen_oneUint : Gen.Fp.oneUint64 = Fp.oneUint64 ∧ Gen.Fp.oneUint128 = Fp.oneUint128 ∧
    Gen.Fp.oneUint256 = Fp.oneUint256 := ⟨rfl, rfl, rfl⟩
theorem gen_from64 : ∀ x, Gen.Fp.from64_64 x = Fp.from64_64 x ∧ Gen.Fp.from64_128 x = Fp.from64_128 x ∧
    Gen.Fp.from64_256 x = Fp.from64_256 x := fun _ => ⟨rfl, rfl, rfl⟩

/-! ## log.Warnf counts -/

@[simp] theorem gen_U64_leftShift64_warns : ∀ u n c, Gen.Fp.U64.leftShift64_warns u n c = Fp.leftShift64Warns n := by
  intro u n c
  unfold Gen.Fp.U64.leftShift64_warns Fp.leftShift64Warns
  by_cases h3 : n < 128
  · by_cases h0 : n = 0
    · simp [h0]
    by_cases h1 : n < 64
    · simp [h0, h1, h3]
    by_cases h2 : n = 64
    · simp [h2]
    simp [h0, h1, h2, h3]
  · have h0 : ¬ n = 0 := by omega
    have h1 : ¬ n < 64 := by omega
    have h2 : ¬ n = 64 := by omega
    simp [h0, h1, h2, h3]

@[simp] theorem gen_U64_rightShift64_warns : ∀ u n c, Gen.Fp.U64.rightShift64_warns u n c = Fp.rightShift64Warns n := by
  intro u n c
  unfold Gen.Fp.U64.rightShift64_warns Fp.rightShift64Warns
  by_cases h3 : n < 128
  · by_cases h0 : n = 0
    · simp [h0]
    by_cases h1 : n < 64
    · simp [h0, h1, h3]
    by_cases h2 : n = 64
    · simp [h2]
    simp [h0, h1, h2, h3]
  · have h0 : ¬ n = 0 := by omega
    have h1 : ¬ n < 64 := by omega
    have h2 : ¬ n = 64 := by omega
    simp [h0, h1, h2, h3]

theorem gen_U64_leftShift_warns : ∀ u n, Gen.Fp.U64.leftShift_warns u n = Fp.U64.leftShiftWarns u n := by
  intro u n; simp [Gen.Fp.U64.leftShift_warns, Fp.U64.leftShiftWarns]
theorem gen_U64_rightShift_warns : ∀ u n, Gen.Fp.U64.rightShift_warns u n = Fp.U64.rightShiftWarns u n := by
  intro u n; simp [Gen.Fp.U64.rightShift_warns, Fp.U64.rightShiftWarns]
theorem gen_U128_leftShift_warns : ∀ u n, Gen.Fp.U128.leftShift_warns u n = Fp.U128.leftShiftWarns u n := by
  intro u n; simp [Gen.Fp.U128.leftShift_warns, Fp.U128.leftShiftWarns]
theorem gen_U128_rightShift_warns : ∀ u n, Gen.Fp.U128.rightShift_warns u n = Fp.U128.rightShiftWarns u n := by
  intro u n; simp [Gen.Fp.U128.rightShift_warns, Fp.U128.rightShiftWarns]
theorem gen_U128_toU64_warns : ∀ u, Gen.Fp.U128.toU64_warns u = Fp.U128.toU64Warns u := by
  intro u; simp [Gen.Fp.U128.toU64_warns, Fp.U128.toU64Warns]
theorem gen_U256_toU64_warns : ∀ u, Gen.Fp.U256.toU64_warns u = Fp.U256.toU64Warns u := by
  intro u; simp [Gen.Fp.U256.toU64_warns, Fp.U256.toU64Warns]
theorem gen_U256_toU128_warns : ∀ u, Gen.Fp.U256.toU128_warns u = Fp.U256.toU128Warns u := by
  intro u; simp [Gen.Fp.U256.toU128_warns, Fp.U256.toU128Warns]

/-! ## The index of what the translator did: a method added to / removed from pkg/obifp, a method that stops being
straight-line (or starts being so), a new `log.Warnf` / `log.Panicf` site changes one of these lists and breaks the
corresponding `rfl`. -/

/-- exactly these four methods (the ones with a `for`) are NOT regenerated and stay hand transcribed in Model/Fp.lean -/
theorem gen_untranslated : Gen.Fp.untranslated =
    ["Uint256.LeftShift: for statement", "Uint256.RightShift: for statement", "Uint256.Mul: for statement",
     "Uint256.Div: for statement"] := rfl

theorem gen_translated : Gen.Fp.translated =
    ["Uint64.Zero", "Uint64.MaxValue", "Uint64.IsZero", "Uint64.Uint64", "Uint64.Uint128", "Uint64.Uint256", "Uint64.Set64",
     "Uint64.LeftShift64", "Uint64.RightShift64", "Uint64.Add64", "Uint64.Sub64", "Uint64.Mul64", "Uint64.LeftShift",
     "Uint64.RightShift", "Uint64.Add", "Uint64.Sub", "Uint64.Mul", "Uint64.Cmp", "Uint64.Equals", "Uint64.LessThan",
     "Uint64.GreaterThan", "Uint64.LessThanOrEqual", "Uint64.GreaterThanOrEqual", "Uint64.And", "Uint64.Or", "Uint64.Xor",
     "Uint64.Not", "Uint64.AsUint64",
     "Uint128.Zero", "Uint128.MaxValue", "Uint128.IsZero", "Uint128.Uint64", "Uint128.Uint128", "Uint128.Uint256",
     "Uint128.Set64", "Uint128.LeftShift", "Uint128.RightShift", "Uint128.Add", "Uint128.Add64", "Uint128.Sub", "Uint128.Mul",
     "Uint128.Mul64", "Uint128.QuoRem", "Uint128.QuoRem64", "Uint128.Div", "Uint128.Div64", "Uint128.Mod", "Uint128.Mod64",
     "Uint128.Cmp", "Uint128.Cmp64", "Uint128.Equals", "Uint128.LessThan", "Uint128.GreaterThan", "Uint128.LessThanOrEqual",
     "Uint128.GreaterThanOrEqual", "Uint128.And", "Uint128.Or", "Uint128.Xor", "Uint128.Not", "Uint128.AsUint64",
     "Uint256.Zero", "Uint256.MaxValue", "Uint256.IsZero", "Uint256.Uint64", "Uint256.Uint128", "Uint256.Uint256",
     "Uint256.Set64", "Uint256.Cmp", "Uint256.Add", "Uint256.Sub", "Uint256.Equals", "Uint256.LessThan",
     "Uint256.GreaterThan", "Uint256.LessThanOrEqual", "Uint256.GreaterThanOrEqual", "Uint256.And", "Uint256.Or",
     "Uint256.Xor", "Uint256.Not", "Uint256.AsUint64",
     "ZeroUint[Uint64]", "ZeroUint[Uint128]", "ZeroUint[Uint256]", "OneUint[Uint64]", "OneUint[Uint128]", "OneUint[Uint256]",
     "From64[Uint64]", "From64[Uint128]", "From64[Uint256]"] := rfl

/-- the methods with a regenerated warning count (the other members of `mayWarn` are the four loop methods and the
QuoRem family, which may also panic: their count is hand written / tied by the harness) -/
theorem gen_withWarnCount : Gen.Fp.withWarnCount =
    ["Uint64.LeftShift64", "Uint64.RightShift64", "Uint64.LeftShift", "Uint64.RightShift", "Uint128.Uint64",
     "Uint128.LeftShift", "Uint128.RightShift", "Uint256.Uint64", "Uint256.Uint128"] := rfl

/-- syntactic closure (by method name) of the `log.Warnf` sites: no other function of the package can log a warning -/
theorem gen_mayWarn : Gen.Fp.mayWarn =
    ["Uint128.Div", "Uint128.LeftShift", "Uint128.Mod", "Uint128.QuoRem", "Uint128.RightShift", "Uint128.Uint64",
     "Uint256.Div", "Uint256.LeftShift", "Uint256.RightShift", "Uint256.Uint128", "Uint256.Uint64", "Uint64.LeftShift",
     "Uint64.LeftShift64", "Uint64.RightShift", "Uint64.RightShift64"] := rfl

/-- syntactic closure of the `log.Panicf` / `bits.Div64` sites: exactly the functions whose model returns `Except` -/
theorem gen_mayPanic : Gen.Fp.mayPanic =
    ["Uint128.Add", "Uint128.Add64", "Uint128.Div", "Uint128.Div64", "Uint128.Mod", "Uint128.Mod64", "Uint128.Mul",
     "Uint128.Mul64", "Uint128.QuoRem", "Uint128.QuoRem64", "Uint128.Sub", "Uint256.Add", "Uint256.Div", "Uint256.Mul",
     "Uint256.Sub", "Uint64.Add", "Uint64.Mul", "Uint64.Sub"] := rfl

end ObiVerif.Props.C20Gen
