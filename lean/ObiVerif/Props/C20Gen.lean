import ObiVerif.Model.Fp
import ObiVerif.Gen.FpGen
set_option Elab.async false
namespace ObiVerif.Props.C20Gen
open ObiVerif

@[simp] theorem gen_U64_leftShift64 : ∀ u n c, Gen.Fp.U64.leftShift64 u n c = Fp.leftShift64 u.w0 n c := by
  intro u n c; first | rfl | simp [Gen.Fp.U64.leftShift64, Fp.leftShift64]
@[simp] theorem gen_U64_rightShift64 : ∀ u n c, Gen.Fp.U64.rightShift64 u n c = Fp.rightShift64 u.w0 n c := by
  intro u n c; first | rfl | simp [Gen.Fp.U64.rightShift64, Fp.rightShift64]

@[simp] theorem gen_U64_zero : ∀ u, Gen.Fp.U64.zero u = Fp.U64.zero u := by
  intro u; first | rfl | simp [Gen.Fp.U64.zero, Fp.U64.zero]

@[simp] theorem gen_U64_maxValue : ∀ u, Gen.Fp.U64.maxValue u = Fp.U64.maxValue u := by
  intro u; first | rfl | simp [Gen.Fp.U64.maxValue, Fp.U64.maxValue]

@[simp] theorem gen_U64_isZero : ∀ u, Gen.Fp.U64.isZero u = Fp.U64.isZero u := by
  intro u; first | rfl | simp [Gen.Fp.U64.isZero, Fp.U64.isZero]

@[simp] theorem gen_U64_toU64 : ∀ u, Gen.Fp.U64.toU64 u = Fp.U64.toU64 u := by
  intro u; first | rfl | simp [Gen.Fp.U64.toU64, Fp.U64.toU64]

@[simp] theorem gen_U64_toU128 : ∀ u, Gen.Fp.U64.toU128 u = Fp.U64.toU128 u := by
  intro u; first | rfl | simp [Gen.Fp.U64.toU128, Fp.U64.toU128]

@[simp] theorem gen_U64_toU256 : ∀ u, Gen.Fp.U64.toU256 u = Fp.U64.toU256 u := by
  intro u; first | rfl | simp [Gen.Fp.U64.toU256, Fp.U64.toU256]

@[simp] theorem gen_U64_not : ∀ u, Gen.Fp.U64.not u = Fp.U64.not u := by
  intro u; first | rfl | simp [Gen.Fp.U64.not, Fp.U64.not]

@[simp] theorem gen_U64_asUint64 : ∀ u, Gen.Fp.U64.asUint64 u = Fp.U64.asUint64 u := by
  intro u; first | rfl | simp [Gen.Fp.U64.asUint64, Fp.U64.asUint64]

@[simp] theorem gen_U64_set64 : ∀ u x, Gen.Fp.U64.set64 u x = Fp.U64.set64 u x := by
  intro u x; first | rfl | simp [Gen.Fp.U64.set64, Fp.U64.set64]

@[simp] theorem gen_U64_add : ∀ u v, Gen.Fp.U64.add u v = Fp.U64.add u v := by
  intro u v; first | rfl | simp [Gen.Fp.U64.add, Fp.U64.add]

@[simp] theorem gen_U64_sub : ∀ u v, Gen.Fp.U64.sub u v = Fp.U64.sub u v := by
  intro u v; first | rfl | simp [Gen.Fp.U64.sub, Fp.U64.sub]

@[simp] theorem gen_U64_mul : ∀ u v, Gen.Fp.U64.mul u v = Fp.U64.mul u v := by
  intro u v; first | rfl | simp [Gen.Fp.U64.mul, Fp.U64.mul]

@[simp] theorem gen_U64_cmp : ∀ u v, Gen.Fp.U64.cmp u v = Fp.U64.cmp u v := by
  intro u v; first | rfl | simp [Gen.Fp.U64.cmp, Fp.U64.cmp]

@[simp] theorem gen_U64_equals : ∀ u v, Gen.Fp.U64.equals u v = Fp.U64.equals u v := by
  intro u v; first | rfl | simp [Gen.Fp.U64.equals, Fp.U64.equals]

@[simp] theorem gen_U64_lessThan : ∀ u v, Gen.Fp.U64.lessThan u v = Fp.U64.lessThan u v := by
  intro u v; first | rfl | simp [Gen.Fp.U64.lessThan, Fp.U64.lessThan]

@[simp] theorem gen_U64_greaterThan : ∀ u v, Gen.Fp.U64.greaterThan u v = Fp.U64.greaterThan u v := by
  intro u v; first | rfl | simp [Gen.Fp.U64.greaterThan, Fp.U64.greaterThan]

@[simp] theorem gen_U64_lessThanOrEqual : ∀ u v, Gen.Fp.U64.lessThanOrEqual u v = Fp.U64.lessThanOrEqual u v := by
  intro u v; first | rfl | simp [Gen.Fp.U64.lessThanOrEqual, Fp.U64.lessThanOrEqual]

@[simp] theorem gen_U64_greaterThanOrEqual : ∀ u v, Gen.Fp.U64.greaterThanOrEqual u v = Fp.U64.greaterThanOrEqual u v := by
  intro u v; first | rfl | simp [Gen.Fp.U64.greaterThanOrEqual, Fp.U64.greaterThanOrEqual]

@[simp] theorem gen_U64_and : ∀ u v, Gen.Fp.U64.and u v = Fp.U64.and u v := by
  intro u v; first | rfl | simp [Gen.Fp.U64.and, Fp.U64.and]

@[simp] theorem gen_U64_or : ∀ u v, Gen.Fp.U64.or u v = Fp.U64.or u v := by
  intro u v; first | rfl | simp [Gen.Fp.U64.or, Fp.U64.or]

@[simp] theorem gen_U64_xor : ∀ u v, Gen.Fp.U64.xor u v = Fp.U64.xor u v := by
  intro u v; first | rfl | simp [Gen.Fp.U64.xor, Fp.U64.xor]

@[simp] theorem gen_U64_leftShift : ∀ u n, Gen.Fp.U64.leftShift u n = Fp.U64.leftShift u n := by
  intro u n; first | rfl | simp [Gen.Fp.U64.leftShift, Fp.U64.leftShift]

@[simp] theorem gen_U64_rightShift : ∀ u n, Gen.Fp.U64.rightShift u n = Fp.U64.rightShift u n := by
  intro u n; first | rfl | simp [Gen.Fp.U64.rightShift, Fp.U64.rightShift]

@[simp] theorem gen_U64_add64 : ∀ u v c, Gen.Fp.U64.add64 u v c = Fp.U64.add64 u v c := by
  intro u v c; first | rfl | simp [Gen.Fp.U64.add64, Fp.U64.add64]

@[simp] theorem gen_U64_sub64 : ∀ u v c, Gen.Fp.U64.sub64 u v c = Fp.U64.sub64 u v c := by
  intro u v c; first | rfl | simp [Gen.Fp.U64.sub64, Fp.U64.sub64]

@[simp] theorem gen_U64_mul64 : ∀ u v, Gen.Fp.U64.mul64 u v = Fp.U64.mul64 u v := by
  intro u v; first | rfl | simp [Gen.Fp.U64.mul64, Fp.U64.mul64]

@[simp] theorem gen_U128_zero : ∀ u, Gen.Fp.U128.zero u = Fp.U128.zero u := by
  intro u; first | rfl | simp [Gen.Fp.U128.zero, Fp.U128.zero]

@[simp] theorem gen_U128_maxValue : ∀ u, Gen.Fp.U128.maxValue u = Fp.U128.maxValue u := by
  intro u; first | rfl | simp [Gen.Fp.U128.maxValue, Fp.U128.maxValue]

@[simp] theorem gen_U128_isZero : ∀ u, Gen.Fp.U128.isZero u = Fp.U128.isZero u := by
  intro u; first | rfl | simp [Gen.Fp.U128.isZero, Fp.U128.isZero]

@[simp] theorem gen_U128_toU64 : ∀ u, Gen.Fp.U128.toU64 u = Fp.U128.toU64 u := by
  intro u; first | rfl | simp [Gen.Fp.U128.toU64, Fp.U128.toU64]

@[simp] theorem gen_U128_toU128 : ∀ u, Gen.Fp.U128.toU128 u = Fp.U128.toU128 u := by
  intro u; first | rfl | simp [Gen.Fp.U128.toU128, Fp.U128.toU128]

@[simp] theorem gen_U128_toU256 : ∀ u, Gen.Fp.U128.toU256 u = Fp.U128.toU256 u := by
  intro u; first | rfl | simp [Gen.Fp.U128.toU256, Fp.U128.toU256]

@[simp] theorem gen_U128_not : ∀ u, Gen.Fp.U128.not u = Fp.U128.not u := by
  intro u; first | rfl | simp [Gen.Fp.U128.not, Fp.U128.not]

@[simp] theorem gen_U128_asUint64 : ∀ u, Gen.Fp.U128.asUint64 u = Fp.U128.asUint64 u := by
  intro u; first | rfl | simp [Gen.Fp.U128.asUint64, Fp.U128.asUint64]

@[simp] theorem gen_U128_set64 : ∀ u x, Gen.Fp.U128.set64 u x = Fp.U128.set64 u x := by
  intro u x; first | rfl | simp [Gen.Fp.U128.set64, Fp.U128.set64]

@[simp] theorem gen_U128_add : ∀ u v, Gen.Fp.U128.add u v = Fp.U128.add u v := by
  intro u v; first | rfl | simp [Gen.Fp.U128.add, Fp.U128.add]

@[simp] theorem gen_U128_sub : ∀ u v, Gen.Fp.U128.sub u v = Fp.U128.sub u v := by
  intro u v; first | rfl | simp [Gen.Fp.U128.sub, Fp.U128.sub]

@[simp] theorem gen_U128_mul : ∀ u v, Gen.Fp.U128.mul u v = Fp.U128.mul u v := by
  intro u v; first | rfl | simp [Gen.Fp.U128.mul, Fp.U128.mul]

@[simp] theorem gen_U128_cmp : ∀ u v, Gen.Fp.U128.cmp u v = Fp.U128.cmp u v := by
  intro u v; first | rfl | simp [Gen.Fp.U128.cmp, Fp.U128.cmp]

@[simp] theorem gen_U128_equals : ∀ u v, Gen.Fp.U128.equals u v = Fp.U128.equals u v := by
  intro u v; first | rfl | simp [Gen.Fp.U128.equals, Fp.U128.equals]

@[simp] theorem gen_U128_lessThan : ∀ u v, Gen.Fp.U128.lessThan u v = Fp.U128.lessThan u v := by
  intro u v; first | rfl | simp [Gen.Fp.U128.lessThan, Fp.U128.lessThan]

@[simp] theorem gen_U128_greaterThan : ∀ u v, Gen.Fp.U128.greaterThan u v = Fp.U128.greaterThan u v := by
  intro u v; first | rfl | simp [Gen.Fp.U128.greaterThan, Fp.U128.greaterThan]

@[simp] theorem gen_U128_lessThanOrEqual : ∀ u v, Gen.Fp.U128.lessThanOrEqual u v = Fp.U128.lessThanOrEqual u v := by
  intro u v; first | rfl | simp [Gen.Fp.U128.lessThanOrEqual, Fp.U128.lessThanOrEqual]

@[simp] theorem gen_U128_greaterThanOrEqual : ∀ u v, Gen.Fp.U128.greaterThanOrEqual u v = Fp.U128.greaterThanOrEqual u v := by
  intro u v; first | rfl | simp [Gen.Fp.U128.greaterThanOrEqual, Fp.U128.greaterThanOrEqual]

@[simp] theorem gen_U128_and : ∀ u v, Gen.Fp.U128.and u v = Fp.U128.and u v := by
  intro u v; first | rfl | simp [Gen.Fp.U128.and, Fp.U128.and]

@[simp] theorem gen_U128_or : ∀ u v, Gen.Fp.U128.or u v = Fp.U128.or u v := by
  intro u v; first | rfl | simp [Gen.Fp.U128.or, Fp.U128.or]

@[simp] theorem gen_U128_xor : ∀ u v, Gen.Fp.U128.xor u v = Fp.U128.xor u v := by
  intro u v; first | rfl | simp [Gen.Fp.U128.xor, Fp.U128.xor]

@[simp] theorem gen_U128_leftShift : ∀ u n, Gen.Fp.U128.leftShift u n = Fp.U128.leftShift u n := by
  intro u n; first | rfl | simp [Gen.Fp.U128.leftShift, Fp.U128.leftShift]

@[simp] theorem gen_U128_rightShift : ∀ u n, Gen.Fp.U128.rightShift u n = Fp.U128.rightShift u n := by
  intro u n; first | rfl | simp [Gen.Fp.U128.rightShift, Fp.U128.rightShift]

@[simp] theorem gen_U128_add64 : ∀ u x, Gen.Fp.U128.add64 u x = Fp.U128.add64 u x := by
  intro u x; first | rfl | simp [Gen.Fp.U128.add64, Fp.U128.add64]

@[simp] theorem gen_U128_mul64 : ∀ u x, Gen.Fp.U128.mul64 u x = Fp.U128.mul64 u x := by
  intro u x; first | rfl | simp [Gen.Fp.U128.mul64, Fp.U128.mul64]

@[simp] theorem gen_U128_quoRem64 : ∀ u x, Gen.Fp.U128.quoRem64 u x = Fp.U128.quoRem64 u x := by
  intro u x; first | rfl | simp [Gen.Fp.U128.quoRem64, Fp.U128.quoRem64]

@[simp] theorem gen_U128_div64 : ∀ u x, Gen.Fp.U128.div64 u x = Fp.U128.div64 u x := by
  intro u x; first | rfl | simp [Gen.Fp.U128.div64, Fp.U128.div64]

@[simp] theorem gen_U128_mod64 : ∀ u x, Gen.Fp.U128.mod64 u x = Fp.U128.mod64 u x := by
  intro u x; first | rfl | simp [Gen.Fp.U128.mod64, Fp.U128.mod64]

@[simp] theorem gen_U128_cmp64 : ∀ u x, Gen.Fp.U128.cmp64 u x = Fp.U128.cmp64 u x := by
  intro u x; first | rfl | simp [Gen.Fp.U128.cmp64, Fp.U128.cmp64]

@[simp] theorem gen_U128_quoRem : ∀ u v, Gen.Fp.U128.quoRem u v = Fp.U128.quoRem u v := by
  intro u v; first | rfl | simp [Gen.Fp.U128.quoRem, Fp.U128.quoRem]

@[simp] theorem gen_U128_div : ∀ u v, Gen.Fp.U128.div u v = Fp.U128.div u v := by
  intro u v; first | rfl | simp [Gen.Fp.U128.div, Fp.U128.div]

@[simp] theorem gen_U128_mod : ∀ u v, Gen.Fp.U128.mod u v = Fp.U128.mod u v := by
  intro u v; first | rfl | simp [Gen.Fp.U128.mod, Fp.U128.mod]

@[simp] theorem gen_U256_zero : ∀ u, Gen.Fp.U256.zero u = Fp.U256.zero u := by
  intro u; first | rfl | simp [Gen.Fp.U256.zero, Fp.U256.zero]

@[simp] theorem gen_U256_maxValue : ∀ u, Gen.Fp.U256.maxValue u = Fp.U256.maxValue u := by
  intro u; first | rfl | simp [Gen.Fp.U256.maxValue, Fp.U256.maxValue]

@[simp] theorem gen_U256_isZero : ∀ u, Gen.Fp.U256.isZero u = Fp.U256.isZero u := by
  intro u; first | rfl | simp [Gen.Fp.U256.isZero, Fp.U256.isZero]

@[simp] theorem gen_U256_toU64 : ∀ u, Gen.Fp.U256.toU64 u = Fp.U256.toU64 u := by
  intro u; first | rfl | simp [Gen.Fp.U256.toU64, Fp.U256.toU64]

@[simp] theorem gen_U256_toU128 : ∀ u, Gen.Fp.U256.toU128 u = Fp.U256.toU128 u := by
  intro u; first | rfl | simp [Gen.Fp.U256.toU128, Fp.U256.toU128]

@[simp] theorem gen_U256_toU256 : ∀ u, Gen.Fp.U256.toU256 u = Fp.U256.toU256 u := by
  intro u; first | rfl | simp [Gen.Fp.U256.toU256, Fp.U256.toU256]

@[simp] theorem gen_U256_not : ∀ u, Gen.Fp.U256.not u = Fp.U256.not u := by
  intro u; first | rfl | simp [Gen.Fp.U256.not, Fp.U256.not]

@[simp] theorem gen_U256_asUint64 : ∀ u, Gen.Fp.U256.asUint64 u = Fp.U256.asUint64 u := by
  intro u; first | rfl | simp [Gen.Fp.U256.asUint64, Fp.U256.asUint64]

@[simp] theorem gen_U256_set64 : ∀ u x, Gen.Fp.U256.set64 u x = Fp.U256.set64 u x := by
  intro u x; first | rfl | simp [Gen.Fp.U256.set64, Fp.U256.set64]

@[simp] theorem gen_U256_add : ∀ u v, Gen.Fp.U256.add u v = Fp.U256.add u v := by
  intro u v; first | rfl | simp [Gen.Fp.U256.add, Fp.U256.add]

@[simp] theorem gen_U256_sub : ∀ u v, Gen.Fp.U256.sub u v = Fp.U256.sub u v := by
  intro u v; first | rfl | simp [Gen.Fp.U256.sub, Fp.U256.sub]

@[simp] theorem gen_U256_cmp : ∀ u v, Gen.Fp.U256.cmp u v = Fp.U256.cmp u v := by
  intro u v; first | rfl | simp [Gen.Fp.U256.cmp, Fp.U256.cmp]

@[simp] theorem gen_U256_equals : ∀ u v, Gen.Fp.U256.equals u v = Fp.U256.equals u v := by
  intro u v; first | rfl | simp [Gen.Fp.U256.equals, Fp.U256.equals]

@[simp] theorem gen_U256_lessThan : ∀ u v, Gen.Fp.U256.lessThan u v = Fp.U256.lessThan u v := by
  intro u v; first | rfl | simp [Gen.Fp.U256.lessThan, Fp.U256.lessThan]

@[simp] theorem gen_U256_greaterThan : ∀ u v, Gen.Fp.U256.greaterThan u v = Fp.U256.greaterThan u v := by
  intro u v; first | rfl | simp [Gen.Fp.U256.greaterThan, Fp.U256.greaterThan]

@[simp] theorem gen_U256_lessThanOrEqual : ∀ u v, Gen.Fp.U256.lessThanOrEqual u v = Fp.U256.lessThanOrEqual u v := by
  intro u v; first | rfl | simp [Gen.Fp.U256.lessThanOrEqual, Fp.U256.lessThanOrEqual]

@[simp] theorem gen_U256_greaterThanOrEqual : ∀ u v, Gen.Fp.U256.greaterThanOrEqual u v = Fp.U256.greaterThanOrEqual u v := by
  intro u v; first | rfl | simp [Gen.Fp.U256.greaterThanOrEqual, Fp.U256.greaterThanOrEqual]

@[simp] theorem gen_U256_and : ∀ u v, Gen.Fp.U256.and u v = Fp.U256.and u v := by
  intro u v; first | rfl | simp [Gen.Fp.U256.and, Fp.U256.and]

@[simp] theorem gen_U256_or : ∀ u v, Gen.Fp.U256.or u v = Fp.U256.or u v := by
  intro u v; first | rfl | simp [Gen.Fp.U256.or, Fp.U256.or]

@[simp] theorem gen_U256_xor : ∀ u v, Gen.Fp.U256.xor u v = Fp.U256.xor u v := by
  intro u v; first | rfl | simp [Gen.Fp.U256.xor, Fp.U256.xor]


end ObiVerif.Props.C20Gen
