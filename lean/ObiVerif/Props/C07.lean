import ObiVerif.Model.SeqOps
import ObiVerif.Lemmas.SeqOps
import ObiVerif.Lemmas.SeqHeapStep
import ObiVerif.Lemmas.SeqHeapRefine
import ObiVerif.Lemmas.SeqAnnot
import ObiVerif.Lemmas.SeqAnnotSub
import ObiVerif.Lemmas.SeqHeapMut
import ObiVerif.Lemmas.SeqAnnTree
/-!
# C07 — reverse complement, subsequence and copy obey their algebraic laws (property theorems)

`Gen.revcmpDNA`, `Gen.kmerRevcompnuc`, `Gen.apatCdnaAlpha` are regenerated from /repo on every run, so
the table theorems below are re-checked against what the source says now.
-/
namespace ObiVerif.Props.C07
open ObiVerif.SeqOps

/-- the IUPAC DNA alphabet of the property (stored sequences are lower-case) plus `. - [ ]` -/
def alphabet : List UInt8 :=
  [97, 99, 103, 116, 114, 121, 109, 107, 115, 119, 98, 100, 104, 118, 110, 46, 45, 91, 93]

def inAlphabet (b : UInt8) : Bool := alphabet.contains b

/-- the complement is an involution on the whole alphabet (decided over the generated table) -/
theorem comp_involutive : ∀ b ∈ alphabet, nucComplement (nucComplement b) = b := by decide

theorem comp_closed : ∀ b ∈ alphabet, nucComplement b ∈ alphabet := by decide

/-- the three complement tables of the code base agree on the 15 IUPAC nucleotide symbols:
`obiseq._revcmpDNA`, `obikmer.revcompnuc`, and the C matcher's `LX_BIO_CDNA_ALPHA` (upper case,
indexed by letter) -/
theorem tables_agree :
    ∀ b ∈ [97, 99, 103, 116, 114, 121, 109, 107, 115, 119, 98, 100, 104, 118, 110],
      (Gen.kmerRevcompnuc.lookup b.toNat = some (nucComplement b).toNat) ∧
      (Gen.apatCdnaAlpha.getD (b.toNat - 97) 0 = (nucComplement b).toNat - 32) := by decide

theorem map_comp_comp (s : Bytes) (h : ∀ b ∈ s, b ∈ alphabet) :
    (s.map nucComplement).map nucComplement = s := by
  induction s with
  | nil => rfl
  | cons a t ih =>
    simp only [List.map_cons]
    rw [comp_involutive a (h a (by simp)), ih (fun b hb => h b (List.mem_cons_of_mem _ hb))]

/-- reverse-complementing twice restores the nucleotides, for every sequence over the alphabet -/
theorem rc_rc (s : Bytes) (h : ∀ b ∈ s, b ∈ alphabet) : rc (rc s) = s := by
  unfold rc
  rw [List.map_reverse, List.reverse_reverse, map_comp_comp s h]

/-- … and stays in the alphabet -/
theorem rc_closed (s : Bytes) (h : ∀ b ∈ s, b ∈ alphabet) : ∀ b ∈ rc s, b ∈ alphabet := by
  intro b hb
  unfold rc at hb
  rw [List.mem_reverse, List.mem_map] at hb
  obtain ⟨a, ha, rfl⟩ := hb
  exact comp_closed a (h a ha)

/-- the coordinate transform of position-bearing annotations under reverse complement is an involution -/
theorem revcmpPos_involutive (l p : Int) : revcmpPos l (revcmpPos l p) = p := by
  unfold revcmpPos; omega

/-! ## No shared state: an operation only changes its target -/

/-- frame property: an operation leaves every object other than its target unchanged -/
theorem applyOp_frame {st st' : Store} {op : Op} {m : String}
    (h : applyOp st op = .ok st') (hm : m ≠ op.target) : st'.get m = st.get m := by
  cases op with
  | new a s q =>
    simp only [applyOp, Except.ok.injEq] at h
    subst h; exact Store.get_put_ne _ _ _ _ hm
  | copy a b =>
    simp only [applyOp] at h
    cases hg : st.get a with
    | none => simp [hg, optE, bind, Except.bind] at h
    | some o =>
      simp only [hg, optE, bind, Except.bind, pure, Except.pure, Except.ok.injEq] at h
      subst h; exact Store.get_put_ne _ _ _ _ hm
  | rc a b =>
    simp only [applyOp] at h
    cases hg : st.get a with
    | none => simp [hg, optE, bind, Except.bind] at h
    | some o =>
      simp only [hg, optE, bind, Except.bind, pure, Except.pure, Except.ok.injEq] at h
      subst h; exact Store.get_put_ne _ _ _ _ hm
  | rci a =>
    simp only [applyOp] at h
    cases hg : st.get a with
    | none => simp [hg, optE, bind, Except.bind] at h
    | some o =>
      simp only [hg, optE, bind, Except.bind, pure, Except.pure, Except.ok.injEq] at h
      subst h; exact Store.get_put_ne _ _ _ _ hm
  | sub a b f t c =>
    simp only [applyOp] at h
    cases hg : st.get a with
    | none => simp [hg, optE, bind, Except.bind] at h
    | some o =>
      simp only [hg, optE, bind, Except.bind, pure, Except.pure] at h
      split at h
      · simp only [Except.ok.injEq] at h
        subst h; exact Store.get_put_ne _ _ _ _ hm
      · cases h
      · simp only [Except.ok.injEq] at h
        subst h; rfl
  | set a p v =>
    simp only [applyOp] at h
    cases hg : st.get a with
    | none => simp [hg, optE, bind, Except.bind] at h
    | some o =>
      simp only [hg, optE, bind, Except.bind, pure, Except.pure, Except.ok.injEq] at h
      subst h; exact Store.get_put_ne _ _ _ _ hm
  | recycle a =>
    simp only [applyOp] at h
    cases hg : st.get a with
    | none => simp [hg, optE, bind, Except.bind] at h
    | some o =>
      simp only [hg, optE, bind, Except.bind, pure, Except.pure, Except.ok.injEq] at h
      subst h; exact Store.get_put_ne _ _ _ _ hm
  | mapset a key k v =>
    simp only [applyOp] at h
    cases hg : st.get a with
    | none => simp [hg, optE, bind, Except.bind] at h
    | some o =>
      simp only [hg, optE, bind, Except.bind, pure, Except.pure, Except.ok.injEq] at h
      subst h; exact Store.get_put_ne _ _ _ _ hm

/-- non-vacuity: recycling `y` leaves `x` as it was -/
example :
    let st : Store := [("x", ⟨[97, 99], none, []⟩), ("y", ⟨[103], none, []⟩)]
    ∀ st', applyOp st (.recycle "y") = .ok st' → st'.get "x" = st.get "x" ∧ (st'.get "y").map (·.seq) = some [] := by
  intro st st' h
  refine ⟨applyOp_frame h (by decide), ?_⟩
  cases h; decide

/-- no aliasing along a whole history: an object that no operation of the history targets is
unchanged at the end (modifying or recycling one object never changes another) -/
theorem no_alias (ops : List Op) (st st' : Store) (m : String)
    (h : ops.foldlM applyOp st = .ok st') (hm : ∀ op ∈ ops, m ≠ op.target) :
    st'.get m = st.get m := by
  induction ops generalizing st with
  | nil =>
    simp only [List.foldlM_nil, pure, Except.pure, Except.ok.injEq] at h
    subst h; rfl
  | cons op t ih =>
    simp only [List.foldlM_cons, bind, Except.bind] at h
    cases h1 : applyOp st op with
    | error e => simp [h1] at h
    | ok st1 =>
      simp only [h1] at h
      rw [ih st1 h (fun o ho => hm o (List.mem_cons_of_mem _ ho))]
      exact applyOp_frame h1 (hm op (by simp))

/-- non-vacuity: a history that copies `x` to `y`, reverse-complements `y` in place, cuts `z` out of
`y`, mutates and recycles `y` succeeds, and `x` is untouched -/
example :
    let st0 : Store := [("x", ⟨[97, 99, 103, 116], some [1, 2, 3, 4], [("merged_sample", [("s1", 3)])]⟩)]
    let ops := [Op.copy "x" "y", Op.rci "y", Op.sub "y" "z" 1 3 false, Op.mapset "y" "merged_sample" "s1" 100,
      Op.set "y" 0 110, Op.recycle "y"]
    ∃ st', ops.foldlM applyOp st0 = .ok st' ∧ st'.get "x" = st0.get "x" ∧
      (st'.get "y").map (·.seq) = some [] ∧ (st'.get "z").map (·.seq) = some [99, 103] := by
  intro st0 ops
  refine ⟨_, rfl, no_alias ops st0 _ "x" rfl (by decide), ?_, ?_⟩ <;> decide

/-! ## Subsequence: linear windows and error cases -/

/-- a linear window `0 ≤ a < b ≤ length` yields exactly the bytes `a..b-1` (0-based) and the shift `a` -/
theorem subsequence_linear (s : Bytes) (a b : Nat) (hab : a < b) (hb : b ≤ s.length) :
    subsequence s a b false = .ok ((s.drop a).take (b - a), a) := by
  have h1 : Int.tmod (a : Int) (s.length : Int) = a := Int.tmod_eq_of_lt (by omega) (by omega)
  have h2 : Int.tmod ((b : Int) - 1) (s.length : Int) = b - 1 := Int.tmod_eq_of_lt (by omega) (by omega)
  have hs : s ≠ [] := List.ne_nil_of_length_pos (by omega)
  have e1 : ¬ b ≤ a := by omega
  have e3 : ¬ s.length ≤ a := by omega
  have e5 : ¬ s.length < b := by omega
  have e6 : ¬ (b : Int) < 0 := by omega
  unfold subsequence
  simp only [h1, h2]
  simp [e1, e3, e5, e6, hs, hab]

/-- Go's error cases of `Subsequence`, linear -/
theorem subsequence_fromGeTo (s : Bytes) (f t : Int) (h : f ≥ t) :
    subsequence s f t false = .error .fromGeTo := by
  unfold subsequence
  simp [h]

theorem subsequence_fromNeg (s : Bytes) (f t : Int) (c : Bool) (h : f < 0) (hc : c = true ∨ f < t) :
    subsequence s f t c = .error .fromNeg := by
  unfold subsequence
  rcases hc with hc | hc
  · simp [h, hc]
  · have : ¬ t ≤ f := by omega
    simp [h, this]

theorem subsequence_fromOut (s : Bytes) (f t : Int) (h0 : 0 ≤ f) (hft : f < t) (h : (s.length : Int) ≤ f) :
    subsequence s f t false = .error .fromOut := by
  unfold subsequence
  have e1 : ¬ t ≤ f := by omega
  have e2 : ¬ f < 0 := by omega
  simp [e1, e2, h]

theorem subsequence_toOut (s : Bytes) (f t : Int) (h0 : 0 ≤ f) (hft : f < t) (hf : f < s.length)
    (h : (s.length : Int) < t) :
    subsequence s f t false = .error .toOut := by
  unfold subsequence
  have e1 : ¬ t ≤ f := by omega
  have e2 : ¬ f < 0 := by omega
  have e3 : ¬ (s.length : Int) ≤ f := by omega
  have hs : s ≠ [] := List.ne_nil_of_length_pos (by omega)
  simp [e1, e2, e3, hs, h]

/-- a linear subsequence succeeds exactly on a window `0 ≤ from < to ≤ length` and never panics -/
theorem subsequence_linear_ok_iff (s : Bytes) (f t : Int) :
    (∃ r, subsequence s f t false = .ok r) ↔ (0 ≤ f ∧ f < t ∧ t ≤ s.length) := by
  constructor
  · rintro ⟨r, hr⟩
    by_cases h1 : f ≥ t
    · rw [subsequence_fromGeTo s f t h1] at hr; cases hr
    by_cases h2 : f < 0
    · rw [subsequence_fromNeg s f t false h2 (Or.inr (by omega))] at hr; cases hr
    by_cases h3 : (s.length : Int) ≤ f
    · rw [subsequence_fromOut s f t (by omega) (by omega) h3] at hr; cases hr
    by_cases h4 : (s.length : Int) < t
    · rw [subsequence_toOut s f t (by omega) (by omega) (by omega) h4] at hr; cases hr
    omega
  · rintro ⟨h0, hft, ht⟩
    have hf : f = (f.toNat : Int) := by omega
    have ht' : t = (t.toNat : Int) := by omega
    rw [hf, ht', subsequence_linear s f.toNat t.toNat (by omega) (by omega)]
    exact ⟨_, rfl⟩

theorem subsequence_linear_no_panic (s : Bytes) (f t : Int) :
    subsequence s f t false ≠ .error .panic := by
  intro hr
  by_cases h1 : f ≥ t
  · rw [subsequence_fromGeTo s f t h1] at hr; cases hr
  by_cases h2 : f < 0
  · rw [subsequence_fromNeg s f t false h2 (Or.inr (by omega))] at hr; cases hr
  by_cases h3 : (s.length : Int) ≤ f
  · rw [subsequence_fromOut s f t (by omega) (by omega) h3] at hr; cases hr
  by_cases h4 : (s.length : Int) < t
  · rw [subsequence_toOut s f t (by omega) (by omega) (by omega) h4] at hr; cases hr
  have hf : f = (f.toNat : Int) := by omega
  have ht' : t = (t.toNat : Int) := by omega
  rw [hf, ht', subsequence_linear s f.toNat t.toNat (by omega) (by omega)] at hr
  cases hr

example : subsequence [97, 99, 103, 116, 110] 1 4 false = .ok ([99, 103, 116], 1) :=
  subsequence_linear [97, 99, 103, 116, 110] 1 4 (by decide) (by decide)
example : subsequence [97, 99, 103] 2 2 false = .error .fromGeTo := subsequence_fromGeTo _ _ _ (by decide)
example : subsequence [97, 99, 103] (-1) 2 false = .error .fromNeg :=
  subsequence_fromNeg _ _ _ _ (by decide) (Or.inr (by decide))
example : subsequence [97, 99, 103] 3 5 false = .error .fromOut :=
  subsequence_fromOut _ _ _ (by decide) (by decide) (by decide)
example : subsequence [97, 99, 103] 1 4 false = .error .toOut :=
  subsequence_toOut _ _ _ (by decide) (by decide) (by decide) (by decide)

/-! ## Reverse complement of a subsequence -/

/-- the reverse complement of a subsequence is the mirrored subsequence of the reverse complement -/
theorem rc_subseq (s : Bytes) (a b : Nat) (hab : a ≤ b) (hb : b ≤ s.length) :
    rc ((s.drop a).take (b - a)) = ((rc s).drop (s.length - b)).take (b - a) := by
  unfold rc
  rw [List.map_take, List.map_drop, List.reverse_take, List.reverse_drop, List.drop_take]
  simp only [List.length_drop, List.length_map]
  congr 1
  · omega
  · congr 1; omega

example : rc (([97, 97, 99, 103, 116] : Bytes).drop 1 |>.take 2) = ((rc [97, 97, 99, 103, 116]).drop 2).take 2 :=
  rc_subseq [97, 97, 99, 103, 116] 1 3 (by decide) (by decide)

/-! ## Circular subsequence -/

/-- a circular subsequence is the matching window of the sequence concatenated with itself
(`a ≥ b` wraps around the origin; `b = 0` behaves as `b = length`, except on a 1-byte sequence
where Go's truncated `%` makes `to = 1`, which is the same window) -/
theorem circ_window (s : Bytes) (a b : Nat) (ha : a < s.length) (hb : b ≤ s.length) :
    subsequence s a b true =
      .ok (((s ++ s).drop a).take ((if a < b then b else b + s.length) - a), a) := by
  rcases Nat.eq_zero_or_pos b with hb0 | hb0
  · subst hb0
    by_cases hn : s.length = 1
    · have ha0 : a = 0 := by omega
      subst ha0
      rw [subsequence_circ_core s 0 _ 1 ha (by rw [hn]; decide)]
      simp only [Nat.lt_irrefl, if_false, Nat.zero_add, Nat.sub_zero, List.drop_zero]
      rw [if_pos (by decide), List.take_append_of_le_length (by omega), hn]
    · have h2 : Int.tmod (((0 : Nat) : Int) - 1) (s.length : Int) + 1 = ((0 : Nat) : Int) := by
        have := tmod_neg_one s.length (by omega)
        simp only [Int.natCast_zero, Int.zero_sub, this]; rfl
      rw [subsequence_circ_core s a _ 0 ha h2]
      simp only [Nat.not_lt_zero, if_false]
      rw [window_ge s a 0 (by omega)]
  · have h2 : Int.tmod ((b : Int) - 1) (s.length : Int) + 1 = b := by
      rw [Int.tmod_eq_of_lt (by omega) (by omega)]; omega
    rw [subsequence_circ_core s a _ b ha h2]
    by_cases hab : a < b
    · simp only [hab, if_true]; rw [window_lt s a b (by omega) hb]
    · simp only [hab, if_false]; rw [window_ge s a b (by omega)]

example : subsequence [97, 99, 103, 116, 110] 3 2 true = .ok ([116, 110, 97, 99], 3) :=
  circ_window [97, 99, 103, 116, 110] 3 2 (by decide) (by decide)
example : subsequence [97, 99, 103, 116, 110] 1 3 true = .ok ([99, 103], 1) :=
  circ_window [97, 99, 103, 116, 110] 1 3 (by decide) (by decide)

/-! ## The in-place loop computes the specification -/

/-- the two-index in-place loop of `ReverseComplement` computes reverse ∘ map complement, for every
sequence (any length, odd or even, empty included) -/
theorem revcompInPlace_eq_rc (s : Bytes) : revcompInPlace s = rc s := by
  unfold revcompInPlace rc
  rw [rcLoop_eq_genLoop]
  exact genLoop_spec nucComplement s (s.length + 1) s.toArray s.length 0 (LoopInv.init _ _) (by omega)

/-- the same loop on qualities is list reversal -/
theorem reverseInPlace_eq_reverse (q : Bytes) : reverseInPlace q = q.reverse := by
  unfold reverseInPlace
  rw [revLoop_eq_genLoop, genLoop_spec id q (q.length + 1) q.toArray q.length 0 (LoopInv.init _ _) (by omega),
    List.map_id]

/-- reverse-complementing in place twice restores the nucleotides -/
theorem rc_rc_inplace (s : Bytes) (h : ∀ b ∈ s, b ∈ alphabet) :
    revcompInPlace (revcompInPlace s) = s := by
  rw [revcompInPlace_eq_rc, revcompInPlace_eq_rc, rc_rc s h]

/-- … and the qualities -/
theorem reverse_reverse_inplace (q : Bytes) : reverseInPlace (reverseInPlace q) = q := by
  rw [reverseInPlace_eq_reverse, reverseInPlace_eq_reverse, List.reverse_reverse]

example : revcompInPlace (revcompInPlace [97, 99, 103, 116, 110, 114, 91]) = [97, 99, 103, 116, 110, 114, 91] :=
  rc_rc_inplace _ (by decide)

/-- the bound to the alphabet is needed: `x` (120) is not an IUPAC code and is complemented to `n` -/
example : revcompInPlace (revcompInPlace [120]) ≠ [120] := by decide

/-- reverse complement of a subsequence, stated on the model functions: cutting `[a, b)` and reverse
complementing gives the same bytes as reverse complementing and cutting the mirrored window -/
theorem rc_subseq_model (s : Bytes) (a b : Nat) (hab : a < b) (hb : b ≤ s.length) :
    (subsequence s a b false).map (fun r => revcompInPlace r.1) =
      (subsequence (revcompInPlace s) (s.length - b : Nat) (s.length - a : Nat) false).map (·.1) := by
  have hl : (rc s).length = s.length := by simp [rc]
  rw [subsequence_linear s a b hab hb, revcompInPlace_eq_rc s,
    subsequence_linear (rc s) (s.length - b) (s.length - a) (by omega) (by rw [hl]; omega)]
  simp only [Except.map, revcompInPlace_eq_rc]
  rw [rc_subseq s a b (by omega) hb]
  have e : s.length - a - (s.length - b) = b - a := by omega
  rw [e]

example :
    (subsequence [97, 97, 99, 103, 116] 1 3 false).map (fun r => revcompInPlace r.1) =
      (subsequence (revcompInPlace [97, 97, 99, 103, 116]) 2 4 false).map (·.1) :=
  rc_subseq_model [97, 97, 99, 103, 116] 1 3 (by decide) (by decide)

/-! ## Coordinates of position-bearing annotations -/

/-- the annotated base after reverse complement is the complement of the annotated base before
(positions are 1-based) -/
theorem revcmpPos_base (s : Bytes) (p : Nat) (h1 : 1 ≤ p) (hn : p ≤ s.length) :
    (rc s)[(revcmpPos s.length p).toNat - 1]? = (s[p - 1]?).map nucComplement := by
  have e : (revcmpPos s.length p).toNat - 1 = s.length - p := by unfold revcmpPos; omega
  unfold rc
  rw [e, List.getElem?_reverse (by simp; omega), List.getElem?_map, List.length_map]
  congr 2; omega

theorem revcmpPos_base_inplace (s : Bytes) (p : Nat) (h1 : 1 ≤ p) (hn : p ≤ s.length) :
    (revcompInPlace s)[(revcmpPos s.length p).toNat - 1]? = (s[p - 1]?).map nucComplement := by
  rw [revcompInPlace_eq_rc]; exact revcmpPos_base s p h1 hn

/-- … and the transformed position is again a position of the sequence -/
theorem revcmpPos_range (n p : Int) (h1 : 1 ≤ p) (hn : p ≤ n) :
    1 ≤ revcmpPos n p ∧ revcmpPos n p ≤ n := by
  unfold revcmpPos; omega

example : (rc [97, 97, 99, 103, 116])[(revcmpPos 5 3).toNat - 1]? = some 103 :=
  revcmpPos_base [97, 97, 99, 103, 116] 3 (by decide) (by decide)

/-- length of the window cut by `subsequence s a b _` -/
def windowLen (n a b : Nat) : Nat := (if a < b then b else b + n) - a

/-- linear and circular subsequences in one statement: the window of `s ++ s` starting at `a` -/
theorem subsequence_window (s : Bytes) (a b : Nat) (circ : Bool) (ha : a < s.length) (hb : b ≤ s.length)
    (hc : circ = false → a < b) :
    subsequence s a b circ = .ok (((s ++ s).drop a).take (windowLen s.length a b), a) := by
  unfold windowLen
  cases circ with
  | true => exact circ_window s a b ha hb
  | false =>
    have hab := hc rfl
    rw [subsequence_linear s a b hab hb, if_pos hab, window_lt s a b (by omega) hb]

/-- coordinates of a position-bearing annotation after `Subsequence`: a kept position designates
the same base and lies inside the new sequence -/
theorem subseqPos_spec (s : Bytes) (a b : Nat) (circ : Bool) (ha : a < s.length) (hb : b ≤ s.length)
    (hc : circ = false → a < b) (sub : Bytes) (shift : Nat)
    (h : subsequence s a b circ = .ok (sub, shift))
    (p : Nat) (hp1 : 1 ≤ p) (hpn : p ≤ s.length) (np : Int)
    (hnp : subseqPos shift s.length sub.length p = some np) :
    sub[np.toNat - 1]? = s[p - 1]? ∧ 1 ≤ np ∧ np ≤ sub.length := by
  rw [subsequence_window s a b circ ha hb hc] at h
  simp only [Except.ok.injEq, Prod.mk.injEq] at h
  obtain ⟨hsub, hshift⟩ := h
  subst hshift
  have hL : windowLen s.length a b ≤ s.length := by unfold windowLen; split <;> omega
  have hlen : sub.length = windowLen s.length a b := by
    rw [← hsub]; exact window_length s a _ (by omega)
  rw [hlen] at hnp ⊢
  rw [subseqPos_some_iff a s.length _ p np (by omega)] at hnp
  rw [← hsub]
  rcases hnp with ⟨h1, h2, h3⟩ | ⟨h1, h2, h3⟩
  · have e : np.toNat - 1 = p - a - 1 := by omega
    rw [e, window_getElem? s a _ _ (by omega)]
    have e2 : a + (p - a - 1) = p - 1 := by omega
    rw [e2, double_getElem?_left s _ (by omega)]
    exact ⟨rfl, by omega, by omega⟩
  · have e : np.toNat - 1 = p + s.length - a - 1 := by omega
    rw [e, window_getElem? s a _ _ (by omega)]
    have e2 : a + (p + s.length - a - 1) = s.length + (p - 1) := by omega
    rw [e2, double_getElem?_right s]
    exact ⟨rfl, by omega, by omega⟩

/-- a position is dropped exactly when it lies outside the window: outside `(a, b]` for a
non-wrapping window (linear, or circular with `a < b`), inside `(b, a]` for a wrapping circular
window (`b ≤ a`) — positions 1-based -/
theorem subseqPos_none_iff_window (s : Bytes) (a b : Nat) (circ : Bool) (ha : a < s.length)
    (hb : b ≤ s.length) (hc : circ = false → a < b) (sub : Bytes) (shift : Nat)
    (h : subsequence s a b circ = .ok (sub, shift))
    (p : Nat) (hp1 : 1 ≤ p) (hpn : p ≤ s.length) :
    subseqPos shift s.length sub.length p = none ↔
      (if a < b then p ≤ a ∨ b < p else b < p ∧ p ≤ a) := by
  rw [subsequence_window s a b circ ha hb hc] at h
  simp only [Except.ok.injEq, Prod.mk.injEq] at h
  obtain ⟨hsub, hshift⟩ := h
  subst hshift
  have hlen : sub.length = windowLen s.length a b := by
    rw [← hsub]; exact window_length s a _ (by unfold windowLen; split <;> omega)
  rw [hlen, subseqPos_none_iff a s.length _ p (by omega)]
  unfold windowLen
  split <;> omega

/-- linear case, stated directly -/
theorem subseqPos_linear (s : Bytes) (a b : Nat) (hab : a < b) (hb : b ≤ s.length)
    (p : Nat) (hp1 : 1 ≤ p) (hpn : p ≤ s.length) :
    subseqPos a s.length (b - a : Nat) p = (if a < p ∧ p ≤ b then some ((p : Int) - a) else none) := by
  split
  · rw [subseqPos_some_iff a s.length _ p _ (by omega)]; omega
  · rw [subseqPos_none_iff a s.length _ p (by omega)]; omega

/-- wrapping circular case, stated directly -/
theorem subseqPos_wrapped (s : Bytes) (a b : Nat) (_hba : b ≤ a) (ha : a < s.length)
    (p : Nat) (hp1 : 1 ≤ p) (hpn : p ≤ s.length) :
    subseqPos a s.length (b + s.length - a : Nat) p =
      (if a < p then some ((p : Int) - a) else if p ≤ b then some ((p : Int) + s.length - a) else none) := by
  split
  · rw [subseqPos_some_iff a s.length _ p _ (by omega)]; omega
  · split
    · rw [subseqPos_some_iff a s.length _ p _ (by omega)]; omega
    · rw [subseqPos_none_iff a s.length _ p (by omega)]; omega

/-- non-vacuity, wrapping window `from = 3, to = 2` of `acgtn` = `tnac`: position 1 (`a`) moves to 3 -/
example : ([116, 110, 97, 99] : Bytes)[(3 : Int).toNat - 1]? = ([97, 99, 103, 116, 110] : Bytes)[1 - 1]? ∧
    (1 : Int) ≤ 3 ∧ (3 : Int) ≤ ([116, 110, 97, 99] : Bytes).length :=
  subseqPos_spec [97, 99, 103, 116, 110] 3 2 true (by decide) (by decide) (by decide)
    [116, 110, 97, 99] 3 rfl 1 (by decide) (by decide) 3 (by decide)

/-- … and position 3 (`g`), outside the window, is dropped -/
example : subseqPos 3 5 4 3 = none :=
  (subseqPos_none_iff_window [97, 99, 103, 116, 110] 3 2 true (by decide) (by decide) (by decide)
    [116, 110, 97, 99] 3 rfl 3 (by decide) (by decide)).mpr (by decide)

/-- linear window `from = 1, to = 4` of `acgtn` = `cgt`: position 3 (`g`) moves to 2, position 1 is dropped -/
example : subseqPos 1 5 3 3 = some 2 :=
  subseqPos_linear [97, 99, 103, 116, 110] 1 4 (by decide) (by decide) 3 (by decide) (by decide)
example : subseqPos 1 5 3 1 = none :=
  subseqPos_linear [97, 99, 103, 116, 110] 1 4 (by decide) (by decide) 1 (by decide) (by decide)
example : subseqPos 3 5 4 2 = some 4 :=
  subseqPos_wrapped [97, 99, 103, 116, 110] 3 2 (by decide) (by decide) 2 (by decide) (by decide)

/-! ## The byte-slice pool: value semantics is a theorem about the heap (Model/SeqHeap.lean)

`SeqHeap.step` transcribes `GetSlice`/`RecycleSlice`/`CopySlice`, `Copy`, `Recycle`, `SetQualities`,
`SetFeatures`, `ReverseComplement`, `Subsequence` over a heap of arrays, slice variables and a pool of
**addresses of slice variables**; `ch` are the decisions of `sync.Pool` (which item `Get` returns, or none)
and of `append` (spare capacity).  All theorems hold for every `ch`. -/

open ObiVerif.SeqHeap in
/-- every state reached from the empty heap by a well-behaved history satisfies the heap invariant,
whatever the pool decides -/
theorem heap_run_inv (ops : List HOp) (ch : Nat → Nat → Nat) (i : Nat) (h h' : Heap) (hI : Inv h)
    (hr : SeqHeap.run h ch i ops = .ok h') : Inv h' := by
  induction ops generalizing h i with
  | nil => simp only [SeqHeap.run, Except.ok.injEq] at hr; subst hr; exact hI
  | cons op t ih =>
    simp only [SeqHeap.run] at hr
    cases hs : step h (ch i) op with
    | error e => simp [hs] at hr
    | ok h1 => simp only [hs] at hr; exact ih (i + 1) h1 (step_ok hI hs).1 hr

open ObiVerif.SeqHeap in
/-- **no shared buffer**: in every reachable state, two different slice fields of live objects (of the
same object or of two objects) never show the same backing array — and no pooled slice shows the array
of a live object -/
theorem no_shared_buffer (ops : List HOp) (ch : Nat → Nat → Nat) (h' : Heap)
    (hr : SeqHeap.run Heap.empty ch 0 ops = .ok h')
    (n m : String) (o o' : HObj) (i j : Nat) (hi : i < 3) (hj : j < 3)
    (hn : h'.objs n = some o) (hm : h'.objs m = some o') (hne : n ≠ m ∨ i ≠ j)
    (s t : Slice) (hs : h'.cells (o.base + i) = some s) (ht : h'.cells (o'.base + j) = some t) :
    s.buf ≠ t.buf ∧ ∀ p ∈ h'.pool, ∀ u, h'.cells p = some u → u.buf ≠ s.buf := by
  have hI := heap_run_inv ops ch 0 _ h' Inv.empty hr
  have f1 : Fld h' (o.base + i) := fld_of hn i hi
  have f2 : Fld h' (o'.base + j) := fld_of hm j hj
  refine ⟨?_, ?_⟩
  · intro heq
    have e := hI.sep _ _ s t (fld_owner f1) (fld_owner f2) hs ht heq
    rcases hne with hne | hne
    · have := hI.disj n m o o' hn hm hne; omega
    · by_cases hnm : n = m
      · subst hnm; rw [hn] at hm; cases hm; omega
      · have := hI.disj n m o o' hn hm hnm; omega
  · intro p hp u hu heq
    have e := hI.sep p _ u s (Or.inl hp) (fld_owner f1) hu hs heq
    exact hI.poolNotFld p hp (e ▸ f1)

open ObiVerif.SeqHeap in
/-- **frame** on the heap: an operation leaves every object other than its target exactly as it was
(bases, qualities, features, annotations), whatever buffers the pool hands out -/
theorem heap_frame {h h' : Heap} {ch : Nat → Nat} {op : HOp} (hI : Inv h) (hs : step h ch op = .ok h')
    (n : String) (hn : some n ≠ op.target) : h'.view n = h.view n := (step_ok hI hs).2 n hn

open ObiVerif.SeqHeap in
/-- no aliasing along a whole history on the heap: an object that no operation targets (copies made
from it, reverse complements, subsequences, recycling of those, scratch buffers … are all allowed) shows
the same bytes at the end -/
theorem heap_no_alias (ops : List HOp) (ch : Nat → Nat → Nat) (i : Nat) (h h' : Heap) (hI : Inv h)
    (hr : SeqHeap.run h ch i ops = .ok h') (n : String) (hn : ∀ op ∈ ops, some n ≠ op.target) :
    h'.view n = h.view n := by
  induction ops generalizing h i with
  | nil => simp only [SeqHeap.run, Except.ok.injEq] at hr; subst hr; rfl
  | cons op t ih =>
    simp only [SeqHeap.run] at hr
    cases hs : step h (ch i) op with
    | error e => simp [hs] at hr
    | ok h1 =>
      simp only [hs] at hr
      rw [ih (i + 1) h1 (step_ok hI hs).1 hr (fun o ho => hn o (List.mem_cons_of_mem _ ho))]
      exact (step_ok hI hs).2 n (hn op (by simp))

/-! ## The heap implements the value semantics: the algebraic laws hold of the heap-level transcription

`SeqHeap.vstep` is the value semantics (objects are values).  `heap_step_refines` /
`heap_run_refines`: whatever `sync.Pool` and `append` decide, what can be observed of every object
after the heap-level operation(s) is what the value semantics computes — so `rc_rc_inplace`,
`rc_subseq`, … proved on values hold of the objects living in pooled buffers (`heap_rc_rc`,
`heap_rc_sub` below). -/

open ObiVerif.SeqHeap in
theorem heap_step_refines {h : Heap} (hI : Inv h) (ch : Nat → Nat) (op : HOp) :
    sim (step h ch op) = vstep h.view op := step_refines hI ch op

open ObiVerif.SeqHeap in
theorem heap_run_refines (ops : List HOp) (ch : Nat → Nat → Nat) (i : Nat) (h : Heap) (hI : Inv h) :
    sim (SeqHeap.run h ch i ops) = vrun h.view ops := run_refines ops ch i h hI

open ObiVerif.SeqHeap in
/-- from the empty heap: a history succeeds on the heap exactly when it does in the value semantics, with
the same error otherwise, and then every object shows the value the value semantics gives it -/
theorem heap_run_refines_empty (ops : List HOp) (ch : Nat → Nat → Nat) :
    sim (SeqHeap.run Heap.empty ch 0 ops) = vrun (fun _ => none) ops :=
  run_refines ops ch 0 Heap.empty Inv.empty

open ObiVerif.SeqHeap in
theorem run_of_vrun {ops : List HOp} {ch : Nat → Nat → Nat} {i : Nat} {h : Heap} (hI : Inv h) {v' : VStore}
    (hv : vrun h.view ops = .ok v') : ∃ h', SeqHeap.run h ch i ops = .ok h' ∧ h'.view = v' := by
  have hr := run_refines ops ch i h hI
  rw [hv] at hr
  cases hs : SeqHeap.run h ch i ops with
  | error e => rw [hs] at hr; simp [sim] at hr
  | ok h' =>
    rw [hs] at hr
    simp only [sim, Except.ok.injEq] at hr
    exact ⟨h', rfl, hr⟩

open ObiVerif.SeqHeap in
theorem vput_same (v : VStore) (a : String) (o : Option OV) : vput v a o a = o := by simp [vput]
open ObiVerif.SeqHeap in
theorem vput_ne (v : VStore) {a n : String} (o : Option OV) (h : n ≠ a) : vput v a o n = v n := by simp [vput, h]

open ObiVerif.SeqHeap in
/-- value semantics: `b := a.ReverseComplement(false); c := b.ReverseComplement(false)` gives `c` the
value of `a` (bases, qualities, features, annotations) and leaves `a` alone -/
theorem vrun_rc_rc (v : VStore) (a b c : String) (oa : OV) (ha : v a = some oa) (hb : v b = none)
    (hc : v c = none) (hbc : b ≠ c) (hal : ∀ x ∈ oa.seq, x ∈ alphabet) :
    ∃ v', vrun v [.rc a b, .rc b c] = .ok v' ∧ v' c = some oa ∧ v' a = some oa := by
  have hab : a ≠ b := by intro e; rw [e, hb] at ha; cases ha
  have hac : a ≠ c := by intro e; rw [e, hc] at ha; cases ha
  refine ⟨vput (vput v b (some ⟨revcompInPlace oa.seq, reverseInPlace oa.qual, oa.feat, oa.ann⟩)) c
    (some ⟨revcompInPlace (revcompInPlace oa.seq), reverseInPlace (reverseInPlace oa.qual), oa.feat, oa.ann⟩), ?_, ?_, ?_⟩
  · simp only [vrun, vstep, ha, hb, vput_same, vput_ne _ _ (Ne.symm hbc), hc]
  · rw [vput_same, rc_rc_inplace _ hal, reverse_reverse_inplace]
  · rw [vput_ne _ _ hac, vput_ne _ _ hab, ha]

open ObiVerif.SeqHeap in
/-- **rc ∘ rc = id on the heap**: for every reachable-style heap (invariant), every live object `a` over
the alphabet, and every decision of the pool during the two `ReverseComplement(false)` calls (buffers
handed out again, fresh ones, …): the second reverse complement shows exactly the bases, qualities,
features and annotations of `a`, and `a` still shows them too. -/
theorem heap_rc_rc {h : Heap} (hI : Inv h) (ch : Nat → Nat → Nat) (i : Nat) (a b c : String) (oa : OV)
    (ha : h.view a = some oa) (hb : h.view b = none) (hc : h.view c = none) (hbc : b ≠ c)
    (hal : ∀ x ∈ oa.seq, x ∈ alphabet) :
    ∃ h', SeqHeap.run h ch i [.rc a b, .rc b c] = .ok h' ∧ h'.view c = some oa ∧ h'.view a = some oa := by
  obtain ⟨v', hv, h1, h2⟩ := vrun_rc_rc h.view a b c oa ha hb hc hbc hal
  obtain ⟨h', hr, he⟩ := run_of_vrun (ch := ch) (i := i) hI hv
  exact ⟨h', hr, by rw [he]; exact h1, by rw [he]; exact h2⟩

/-- non-vacuity of `heap_rc_rc`: from the empty heap, under the pool policy "always hand out the most
recently recycled buffer", after building `a` (with qualities), recycling a scratch buffer and a copy -/
example : ∃ h h', SeqHeap.run SeqHeap.Heap.empty (fun _ _ => 0) 0
      [.new "a" [97, 99, 103, 116, 110] (some [1, 2, 3, 4, 5]), .scratch 5 7, .copy "a" "x", .recycle "x"] = .ok h ∧
    SeqHeap.run h (fun _ _ => 0) 4 [.rc "a" "b", .rc "b" "c"] = .ok h' ∧
    h'.view "c" = some ⟨[97, 99, 103, 116, 110], [1, 2, 3, 4, 5], [], []⟩ := by
  have hv : SeqHeap.vrun (fun _ => none)
      [.new "a" [97, 99, 103, 116, 110] (some [1, 2, 3, 4, 5]), .scratch 5 7, .copy "a" "x", .recycle "x"] =
      .ok (SeqHeap.vput (SeqHeap.vput (SeqHeap.vput (fun _ => none) "a" (some ⟨[97, 99, 103, 116, 110], [1, 2, 3, 4, 5], [], []⟩))
        "x" (some ⟨[97, 99, 103, 116, 110], [1, 2, 3, 4, 5], [], []⟩)) "x" none) := by
    simp [SeqHeap.vrun, SeqHeap.vstep, SeqHeap.vput, SeqHeap.badQual, lower]
  obtain ⟨h, hr, he⟩ := run_of_vrun (ch := fun _ _ => 0) (i := 0) SeqHeap.Inv.empty hv
  have hI := heap_run_inv _ _ 0 _ h SeqHeap.Inv.empty hr
  obtain ⟨h', hr', h1, _⟩ := heap_rc_rc hI (fun _ _ => 0) 4 "a" "b" "c" ⟨[97, 99, 103, 116, 110], [1, 2, 3, 4, 5], [], []⟩
    (by rw [he]; simp [SeqHeap.vput]) (by rw [he]; simp [SeqHeap.vput]) (by rw [he]; simp [SeqHeap.vput])
    (by decide) (by decide)
  exact ⟨h, h', hr, hr', h1⟩

open ObiVerif.SeqHeap in
/-- value semantics of the two ways round a linear window `[fr, to)` of an object whose qualities are
absent or as long as the sequence: cut then reverse-complement (`c`), reverse-complement then cut the
mirrored window (`d`) — same bases, same qualities, same annotations -/
theorem vrun_rc_sub (v : VStore) (a b c r d : String) (oa : OV) (fr to : Nat)
    (ha : v a = some oa) (hb : v b = none) (hc : v c = none) (hr : v r = none) (hd : v d = none)
    (hbc : b ≠ c) (hrd : r ≠ d) (hft : fr < to) (hto : to ≤ oa.seq.length)
    (hq : oa.qual = [] ∨ oa.qual.length = oa.seq.length) :
    ∃ v1 v2, vrun v [.sub a b fr to false, .rc b c] = .ok v1 ∧
      vrun v [.rc a r, .sub r d ((oa.seq.length - to : Nat) : Int) ((oa.seq.length - fr : Nat) : Int) false] = .ok v2 ∧
      v1 c = v2 d ∧ v1 c = some ⟨revcompInPlace (win oa.seq fr to), reverseInPlace (win oa.qual fr to), [], oa.ann⟩ := by
  have hl : (revcompInPlace oa.seq).length = oa.seq.length := revcompInPlace_length _
  have w1 := subWindow_linear oa.seq.length fr to hft hto
  have w2 := subWindow_linear oa.seq.length (oa.seq.length - to) (oa.seq.length - fr) (by omega) (by omega)
  have es : revcompInPlace (win oa.seq fr to) =
      win (revcompInPlace oa.seq) (oa.seq.length - to) (oa.seq.length - fr) := by
    rw [revcompInPlace_eq_rc, revcompInPlace_eq_rc]
    exact map_rev_win nucComplement oa.seq fr to (by omega) hto
  have eq : reverseInPlace (win oa.qual fr to) =
      win (reverseInPlace oa.qual) (oa.seq.length - to) (oa.seq.length - fr) := by
    rcases hq with hq | hq
    · rw [hq, win_nil, reverseInPlace_nil, win_nil]
    · rw [reverseInPlace_eq_reverse, reverseInPlace_eq_reverse, ← hq]
      have := map_rev_win id oa.qual fr to (by omega) (by omega)
      simpa using this
  refine ⟨vput (vput v b (some ⟨win oa.seq fr to, win oa.qual fr to, [], oa.ann⟩)) c
      (some ⟨revcompInPlace (win oa.seq fr to), reverseInPlace (win oa.qual fr to), [], oa.ann⟩),
    vput (vput v r (some ⟨revcompInPlace oa.seq, reverseInPlace oa.qual, oa.feat, oa.ann⟩)) d
      (some ⟨win (revcompInPlace oa.seq) (oa.seq.length - to) (oa.seq.length - fr),
        win (reverseInPlace oa.qual) (oa.seq.length - to) (oa.seq.length - fr), [], oa.ann⟩), ?_, ?_, ?_, ?_⟩
  · simp only [vrun, vstep, ha, hb, w1, hft, if_true, vput_same, vput_ne _ _ (Ne.symm hbc), hc]
  · have hlt : oa.seq.length - to < oa.seq.length - fr := by omega
    simp only [vrun, vstep, ha, hr, vput_same, vput_ne _ _ (Ne.symm hrd), hd, hl, w2, hlt, if_true]
  · rw [vput_same, vput_same, es, eq]
  · rw [vput_same]

open ObiVerif.SeqHeap in
/-- **rc of a subsequence = mirrored subsequence of rc, on the heap**, for all decisions of the pool in
both histories (they may differ): the two derived objects show the same bases, qualities, features and
annotations -/
theorem heap_rc_sub {h : Heap} (hI : Inv h) (ch ch' : Nat → Nat → Nat) (i j : Nat) (a b c r d : String)
    (oa : OV) (fr to : Nat)
    (ha : h.view a = some oa) (hb : h.view b = none) (hc : h.view c = none) (hr : h.view r = none)
    (hd : h.view d = none) (hbc : b ≠ c) (hrd : r ≠ d) (hft : fr < to) (hto : to ≤ oa.seq.length)
    (hq : oa.qual = [] ∨ oa.qual.length = oa.seq.length) :
    ∃ h1 h2, SeqHeap.run h ch i [.sub a b fr to false, .rc b c] = .ok h1 ∧
      SeqHeap.run h ch' j [.rc a r, .sub r d ((oa.seq.length - to : Nat) : Int) ((oa.seq.length - fr : Nat) : Int) false] = .ok h2 ∧
      h1.view c = h2.view d ∧
      h1.view c = some ⟨revcompInPlace (win oa.seq fr to), reverseInPlace (win oa.qual fr to), [], oa.ann⟩ := by
  obtain ⟨v1, v2, e1, e2, e3, e4⟩ := vrun_rc_sub h.view a b c r d oa fr to ha hb hc hr hd hbc hrd hft hto hq
  obtain ⟨h1, r1, q1⟩ := run_of_vrun (ch := ch) (i := i) hI e1
  obtain ⟨h2, r2, q2⟩ := run_of_vrun (ch := ch') (i := j) hI e2
  exact ⟨h1, h2, r1, r2, by rw [q1, q2]; exact e3, by rw [q1]; exact e4⟩

/-- non-vacuity of `vrun_rc_sub` -/
example : ∃ v1 v2,
    SeqHeap.vrun (SeqHeap.vput (fun _ => none) "a" (some ⟨[97, 97, 99, 103, 116], [1, 2, 3, 4, 5], [], []⟩))
      [.sub "a" "b" 1 3 false, .rc "b" "c"] = .ok v1 ∧
    SeqHeap.vrun (SeqHeap.vput (fun _ => none) "a" (some ⟨[97, 97, 99, 103, 116], [1, 2, 3, 4, 5], [], []⟩))
      [.rc "a" "r", .sub "r" "d" 2 4 false] = .ok v2 ∧ v1 "c" = v2 "d" ∧
    v1 "c" = some ⟨revcompInPlace [97, 99], reverseInPlace [2, 3], [], []⟩ :=
  vrun_rc_sub _ "a" "b" "c" "r" "d" ⟨[97, 97, 99, 103, 116], [1, 2, 3, 4, 5], [], []⟩ 1 3
    (by simp [SeqHeap.vput]) (by simp [SeqHeap.vput]) (by simp [SeqHeap.vput]) (by simp [SeqHeap.vput])
    (by simp [SeqHeap.vput]) (by decide) (by decide) (by decide) (by decide) (Or.inr rfl)

/-! ## The repaired defect, as a theorem about the OLD `SetFeatures`

`Heap.setFeaturesOld` is `SetFeatures` as it was (`RecycleSlice(&s.feature); s.feature = feature`). -/

open ObiVerif.SeqHeap in
/-- the state after `a := NewBioSequence("acgt"); b := a.Copy()` (pool empty, every `GetSlice` ran `New`) -/
def demoHeap : Heap :=
  match SeqHeap.run Heap.empty (fun _ _ => 0) 0 [.new "a" [97, 99, 103, 116] none, .copy "a" "b"] with
  | .ok h => h
  | .error _ => Heap.empty

/-- `"FT   source 1..8"` -/
def demoFeat : Bytes := [70, 84, 32, 32, 32, 115, 111, 117, 114, 99, 101, 32, 49, 46, 46, 56]

set_option maxRecDepth 8192 in
open ObiVerif.SeqHeap in
/-- **counterexample for the old `SetFeatures`** (defect repaired by
notes/patches/C07-pool-keeps-address-of-live-field.diff): after `b := a.Copy(); b.SetFeatures(feat)` with
the OLD code, (1) the pool holds the address of the live field `b.feature`, so the heap invariant is
lost; (2) the very next `NewBioSequence("tttttttt")` gets that field's array from `GetSlice`: `c.sequence`
and `b.feature` show the same backing array and `b.Features()` reads `"ttttttttrce 1..8"`.  With the
repaired `setFeatures` none of this happens (`heap_run_inv`, `no_shared_buffer`, `heap_frame`). -/
theorem setFeaturesOld_breaks :
    SeqHeap.run Heap.empty (fun _ _ => 0) 0 [.new "a" [97, 99, 103, 116] none, .copy "a" "b"] = .ok demoHeap ∧
    Inv demoHeap ∧ demoHeap.objs "b" = some ⟨3, []⟩ ∧
    (let h1 := demoHeap.setFeaturesOld 3 demoFeat 0
     5 ∈ h1.pool ∧ Fld h1 5 ∧ ¬ Inv h1 ∧ (h1.view "b").map (·.feat) = some demoFeat ∧
     ∃ h2, step h1 (fun _ => 0) (.new "c" [116, 116, 116, 116, 116, 116, 116, 116] none) = .ok h2 ∧
       (h2.view "b").map (·.feat) = some ([116, 116, 116, 116, 116, 116, 116, 116] ++ demoFeat.drop 8) ∧
       (h2.objs "c").map (·.base) = some 6 ∧
       (h2.cells 5).map (·.buf) = (h2.cells 6).map (·.buf) ∧ (h2.cells 6).isSome) := by
  have hrun : SeqHeap.run Heap.empty (fun _ _ => 0) 0 [.new "a" [97, 99, 103, 116] none, .copy "a" "b"] = .ok demoHeap := rfl
  have hb : demoHeap.objs "b" = some ⟨3, []⟩ := rfl
  refine ⟨hrun, heap_run_inv _ _ 0 _ _ Inv.empty hrun, hb, ?_⟩
  have hp0 : (demoHeap.setFeaturesOld 3 demoFeat 0).pool = [5] := rfl
  have hp : 5 ∈ (demoHeap.setFeaturesOld 3 demoFeat 0).pool := by rw [hp0]; simp
  have hf : Fld (demoHeap.setFeaturesOld 3 demoFeat 0) 5 := ⟨"b", ⟨3, []⟩, hb, by decide, by decide⟩
  exact ⟨hp, hf, fun hI => hI.poolNotFld 5 hp hf, rfl, _, rfl, rfl, rfl, rfl, rfl⟩

/-! ## Whole-object laws: bases, qualities AND the `pairing_mismatches` attribute (Model/SeqAnnot.lean) -/

set_option maxRecDepth 8192 in
theorem cc_fixed_nat : ∀ n, n < 256 →
    (nucComplement (nucComplement (UInt8.ofNat n)) = UInt8.ofNat n ↔ UInt8.ofNat n ∈ alphabet) := by decide

/-- over ALL 256 bytes (decided on the generated table): complementing twice restores a byte exactly when
it belongs to the 19-symbol alphabet of the property (upper-case letters come back lower-case, `u` comes
back as `t`, every other byte as `n`) -/
theorem cc_fixed_iff (b : UInt8) : SeqAnnot.cc b = b ↔ b ∈ alphabet := by
  have := cc_fixed_nat b.toNat (UInt8.toNat_lt b)
  simpa [SeqAnnot.cc] using this

/-- **the key rewriting of `_revcmpMutation` is an involution exactly on the well-formed keys**: for a key
of at least 13 bytes, rewriting twice gives the key back iff its two symbols (bytes 1 and 9) belong to the
alphabet; a shorter key makes `rev` panic (`SeqAnnot.revcmpKey_none_iff`) -/
theorem revcmpKey_involutive_iff_alphabet (k : Bytes) (h : 13 ≤ k.length) :
    (revcmpKey k).bind revcmpKey = some k ↔ (k.getD 1 0 ∈ alphabet ∧ k.getD 9 0 ∈ alphabet) := by
  rw [SeqAnnot.revcmpKey_involutive_iff k h, cc_fixed_iff, cc_fixed_iff]

theorem revcmpKey_panics_iff (k : Bytes) : revcmpKey k = none ↔ k.length < 13 := SeqAnnot.revcmpKey_none_iff k

/-- `(a:30)->(c:12)` ↦ `(g:12)->(t:30)` ↦ back -/
example : revcmpKey [40, 97, 58, 51, 48, 41, 45, 62, 40, 99, 58, 49, 50, 41] =
      some [40, 103, 58, 49, 50, 41, 45, 62, 40, 116, 58, 51, 48, 41] ∧
    (revcmpKey [40, 97, 58, 51, 48, 41, 45, 62, 40, 99, 58, 49, 50, 41]).bind revcmpKey =
      some [40, 97, 58, 51, 48, 41, 45, 62, 40, 99, 58, 49, 50, 41] :=
  ⟨by decide, (revcmpKey_involutive_iff_alphabet _ (by decide)).mpr (by decide)⟩

/-- an ill-formed key (`x` is no IUPAC code) is not restored: `(x:30)->(c:12)` comes back as `(n:30)->(c:12)` -/
example : (revcmpKey [40, 120, 58, 51, 48, 41, 45, 62, 40, 99, 58, 49, 50, 41]).bind revcmpKey ≠
    some [40, 120, 58, 51, 48, 41, 45, 62, 40, 99, 58, 49, 50, 41] := by
  rw [Ne, revcmpKey_involutive_iff_alphabet _ (by decide)]; decide

/-- well-formed whole object: bases over the alphabet, qualities absent or as long as the bases, every
`pairing_mismatches` key at least 13 bytes long with its two symbols in the alphabet -/
structure WFObj (o : SeqAnnot.WObj) : Prop where
  seq : ∀ b ∈ o.seq, b ∈ alphabet
  qual : o.qual = [] ∨ o.qual.length = o.seq.length
  keys : ∀ m, o.mm = some m → ∀ kp ∈ m, 13 ≤ kp.1.length ∧ kp.1.getD 1 0 ∈ alphabet ∧ kp.1.getD 9 0 ∈ alphabet

/-- **rc (rc x) = x on the whole object**: bases, qualities, and every annotation `ReverseComplement`
rewrites (keys and positions of `pairing_mismatches`); the other annotations are carried unchanged.
Neither call panics. -/
theorem rcW_rcW (o : SeqAnnot.WObj) (hw : WFObj o) :
    ∃ o', SeqAnnot.rcW o = some o' ∧ SeqAnnot.rcW o' = some o :=
  SeqAnnot.rcW_rcW o
    ⟨hw.qual, fun m hm kp hkp => ⟨(hw.keys m hm kp hkp).1, (cc_fixed_iff _).mpr (hw.keys m hm kp hkp).2.1,
      (cc_fixed_iff _).mpr (hw.keys m hm kp hkp).2.2⟩⟩
    (rc_rc_inplace o.seq hw.seq)

/-- non-vacuity: an object with qualities and two mismatches -/
example : ∃ o', SeqAnnot.rcW ⟨[97, 99, 103, 116, 110], [1, 2, 3, 4, 5],
      some [([40, 97, 58, 51, 48, 41, 45, 62, 40, 99, 58, 49, 50, 41], 2),
            ([40, 116, 58, 49, 50, 41, 45, 62, 40, 45, 58, 48, 48, 41], 5)], []⟩ = some o' ∧
    SeqAnnot.rcW o' = some ⟨[97, 99, 103, 116, 110], [1, 2, 3, 4, 5],
      some [([40, 97, 58, 51, 48, 41, 45, 62, 40, 99, 58, 49, 50, 41], 2),
            ([40, 116, 58, 49, 50, 41, 45, 62, 40, 45, 58, 48, 48, 41], 5)], []⟩ :=
  rcW_rcW _ ⟨by decide, Or.inr rfl, by
    intro m hm kp hkp
    simp only [Option.some.injEq] at hm
    subst hm
    simp only [List.mem_cons, List.not_mem_nil, or_false] at hkp
    rcases hkp with e | e <;> subst e <;> decide⟩

/-- no two well-formed keys are rewritten to the same key: the Go map written by `_revcmpMutation` has as
many entries as the one it reads, whatever the iteration order -/
theorem revcmpKey_no_collision {k1 k2 k : Bytes}
    (h1 : 13 ≤ k1.length ∧ k1.getD 1 0 ∈ alphabet ∧ k1.getD 9 0 ∈ alphabet)
    (h2 : 13 ≤ k2.length ∧ k2.getD 1 0 ∈ alphabet ∧ k2.getD 9 0 ∈ alphabet)
    (e1 : revcmpKey k1 = some k) (e2 : revcmpKey k2 = some k) : k1 = k2 :=
  SeqAnnot.revcmpKey_injective ⟨h1.1, (cc_fixed_iff _).mpr h1.2.1, (cc_fixed_iff _).mpr h1.2.2⟩
    ⟨h2.1, (cc_fixed_iff _).mpr h2.2.1, (cc_fixed_iff _).mpr h2.2.2⟩ e1 e2

/-- … and ill-formed keys do collide: `(x:30)->(c:12)` and `(n:30)->(c:12)` are both rewritten to
`(g:12)->(n:30)` (then the surviving entry depends on Go's map iteration order) -/
example : revcmpKey [40, 120, 58, 51, 48, 41, 45, 62, 40, 99, 58, 49, 50, 41] =
    revcmpKey [40, 110, 58, 51, 48, 41, 45, 62, 40, 99, 58, 49, 50, 41] := by decide

/-- the position transforms of cut-then-mirror and mirror-then-cut agree on every position of the sequence
(the `pairing_mismatches` part of rc (sub x) = sub' (rc x)) -/
theorem subseqPos_revcmpPos (n fr to : Nat) (p : Int) (hft : fr < to) (hto : to ≤ n) (h1 : 1 ≤ p) (hn : p ≤ n) :
    (subseqPos fr n (to - fr : Nat) p).map (revcmpPos (to - fr : Nat)) =
      subseqPos (n - to : Nat) n (to - fr : Nat) (revcmpPos n p) :=
  SeqAnnot.subseqPos_revcmpPos n fr to p hft hto h1 hn

example : (subseqPos 1 5 3 3).map (revcmpPos 3) = subseqPos 1 5 3 (revcmpPos 5 3) :=
  subseqPos_revcmpPos 5 1 4 3 (by decide) (by decide) (by decide) (by decide)

/-- **the proposed finding as a theorem** (`BioSequence.Join`, pkg/obiseq/join.go): joining a non-empty
sequence to a receiver that has qualities leaves an object on which `ReverseComplement` panics -/
theorem join_then_rc_panics (o o2 : SeqAnnot.WObj) (hq : o.qual ≠ []) (hl : o.qual.length = o.seq.length)
    (h2 : o2.seq ≠ []) : SeqAnnot.rcW (SeqAnnot.joinW o o2) = none :=
  SeqAnnot.join_then_rc_panics o o2 hq hl h2

example : SeqAnnot.rcW (SeqAnnot.joinW ⟨[97, 99], [1, 2], none, []⟩ ⟨[103, 103], [], none, []⟩) = none :=
  join_then_rc_panics _ _ (by decide) rfl (by decide)

/-! ## Third pass: rc (sub x) = sub' (rc x) on the WHOLE object, every window (Lemmas/SeqAnnotSub.lean) -/

/-- **rc (sub x) = sub' (rc x) on the whole object**: bases, qualities, the WHOLE `pairing_mismatches` map
(absent / empty / any entries: the same entries are dropped, the others get the same rewritten key and the
same position, in the same order), other annotations; for every window `fr < n`, `1 ≤ to ≤ n`: one piece
(`fr < to`) or wrapping across the origin (`to ≤ fr`, circular).  Both routes succeed and give the same
object `x`, of `wlen fr to n` bases. -/
theorem rcW_subW (o : SeqAnnot.WObj) (fr to : Nat) (c : Bool)
    (hq : o.qual = [] ∨ o.qual.length = o.seq.length)
    (hk : ∀ m, o.mm = some m → ∀ kp ∈ m, 13 ≤ kp.1.length ∧ 1 ≤ kp.2 ∧ kp.2 ≤ o.seq.length)
    (hfr : fr < o.seq.length) (hto1 : 1 ≤ to) (hto : to ≤ o.seq.length) (hc : fr < to ∨ c = true) :
    ∃ s r x, SeqAnnot.subW o fr to c = .ok s ∧ SeqAnnot.rcW s = some x ∧ SeqAnnot.rcW o = some r ∧
      SeqAnnot.subW r ((o.seq.length - to : Nat) : Int) ((o.seq.length - fr : Nat) : Int) c = .ok x ∧
      x.seq.length = SeqAnnot.wlen fr to o.seq.length :=
  SeqAnnot.rcW_subW o fr to c hq hk hfr hto1 hto hc

/-- non-vacuity, WRAPPING window `[3, 2)` of 5 bases with qualities and two mismatches (position 2 is kept,
position 3 is dropped by both routes) -/
example : ∃ s r x, SeqAnnot.subW ⟨[97, 99, 103, 116, 110], [1, 2, 3, 4, 5],
      some [([40, 97, 58, 51, 48, 41, 45, 62, 40, 99, 58, 49, 50, 41], 2),
            ([40, 116, 58, 49, 50, 41, 45, 62, 40, 45, 58, 48, 48, 41], 3)], []⟩ (3 : Nat) (2 : Nat) true = .ok s ∧
    SeqAnnot.rcW s = some x ∧ SeqAnnot.rcW ⟨[97, 99, 103, 116, 110], [1, 2, 3, 4, 5],
      some [([40, 97, 58, 51, 48, 41, 45, 62, 40, 99, 58, 49, 50, 41], 2),
            ([40, 116, 58, 49, 50, 41, 45, 62, 40, 45, 58, 48, 48, 41], 3)], []⟩ = some r ∧
    SeqAnnot.subW r ((5 - 2 : Nat) : Int) ((5 - 3 : Nat) : Int) true = .ok x ∧ x.seq.length = 4 :=
  rcW_subW _ 3 2 true (Or.inr rfl) (by
    intro m hm kp hkp
    simp only [Option.some.injEq] at hm
    subst hm
    simp only [List.mem_cons, List.not_mem_nil, or_false] at hkp
    rcases hkp with e | e <;> subst e <;> decide) (by decide) (by decide) (by decide) (Or.inr rfl)

/-- the position part for every window, wrapping included -/
theorem subseqPos_revcmpPos_window (n fr to : Nat) (p : Int) (hfr : fr < n) (hto1 : 1 ≤ to) (hto : to ≤ n)
    (h1 : 1 ≤ p) (hn : p ≤ n) :
    (subseqPos fr n (SeqAnnot.wlen fr to n) p).map (revcmpPos (SeqAnnot.wlen fr to n)) =
      subseqPos (n - to : Nat) n (SeqAnnot.wlen fr to n) (revcmpPos n p) :=
  SeqAnnot.subseqPos_revcmpPos_gen n fr to p hfr hto1 hto h1 hn

/-! ## Third pass: mutator histories on the heap (Model/SeqHeapMut.lean, Lemmas/SeqHeapMut.lean) -/

open ObiVerif.SeqHeap in
/-- **every mutator of `BioSequence`** (`Write*`, `Clear*`, `Join`, `SetSequence`, `SetId`, `SetAttribute`,
`ReverseComplement` / `Subsequence` with `_revcmpMutation` / `_subseqMutation`, and all the operations of
`SeqHeap.step`) **refines its value semantics**, for every decision of the pool and of `append` -/
theorem mut_step_refines {h : Heap} (hI : Inv h) (ch : Nat → Nat) (op : MOp) :
    sim (mstep h ch op) = mvstep h.view op := mstep_refines hI ch op

open ObiVerif.SeqHeap in
theorem mut_run_refines (ops : List MOp) (ch : Nat → Nat → Nat) :
    sim (mrun Heap.empty ch 0 ops) = mvrun (fun _ => none) ops :=
  mrun_refines ops ch 0 Heap.empty Inv.empty

open ObiVerif.SeqHeap in
/-- after ANY history of mutators, two different live slice fields never show the same backing array, and no
pooled slice variable shows the array of a live object -/
theorem mut_no_shared_buffer (ops : List MOp) (ch : Nat → Nat → Nat) (h' : Heap)
    (hr : mrun Heap.empty ch 0 ops = .ok h') :
    ∀ c d s t, Owner h' c → Owner h' d → h'.cells c = some s → h'.cells d = some t → s.buf = t.buf → c = d :=
  (mrun_inv ops ch 0 Heap.empty h' Inv.empty hr).sep

open ObiVerif.SeqHeap in
/-- **the rc law after every mutator, as a theorem**: in every heap satisfying the invariant (every heap
reached by a history of mutators: `mrun_inv`), whatever the pool decides, `b := a.ReverseComplement(false)`
shows the reverse complement of what `a` shows NOW (bases), its qualities reversed, its features, its
annotations with `pairing_mismatches` rewritten — and `a` still shows what it showed. -/
theorem mut_rc_current {h : Heap} (hI : Inv h) (ch : Nat → Nat) (a b : String) (oa : OV) (ann' : Ann)
    (ha : h.view a = some oa) (hb : h.view b = none) (hann : rcAnn oa.seq.length oa.ann = some ann') :
    ∃ h', mstep h ch (.rcm a b) = .ok h' ∧
      h'.view b = some ⟨revcompInPlace oa.seq, reverseInPlace oa.qual, oa.feat, ann'⟩ ∧ h'.view a = some oa := by
  have hab : a ≠ b := by intro e; rw [e, hb] at ha; cases ha
  have hr := mstep_refines hI ch (.rcm a b)
  have hv : mvstep h.view (.rcm a b) =
      .ok (vput (vput h.view b (some ⟨revcompInPlace oa.seq, reverseInPlace oa.qual, oa.feat, oa.ann⟩)) b
        (some ⟨revcompInPlace oa.seq, reverseInPlace oa.qual, oa.feat, ann'⟩)) := by
    simp only [mvstep, vstep, ha, hb, vAnnApply, vput_same, revcompInPlace_length, hann]
  rw [hv] at hr
  cases hs : mstep h ch (.rcm a b) with
  | error e => rw [hs] at hr; simp [sim] at hr
  | ok h' =>
    rw [hs] at hr
    simp only [sim, Except.ok.injEq] at hr
    refine ⟨h', rfl, ?_, ?_⟩
    · rw [hr, vput_same]
    · rw [hr, vput_ne _ _ hab, vput_ne _ _ hab, ha]

/-- non-vacuity: `Clear` then `Write` (appended IN PLACE: the array has spare capacity), then the law -/
example : ∃ v, SeqHeap.mvrun (fun _ => none)
      [.base (.new "a" [97, 99, 103, 116] none), .clear "a", .write "a" [116, 116, 99], .rcm "a" "b"] = .ok v ∧
    v "b" = some ⟨revcompInPlace [116, 116, 99], [], [], []⟩ := by
  refine ⟨_, rfl, ?_⟩
  simp [SeqHeap.vput, reverseInPlace_eq_reverse, lower]

open ObiVerif.SeqHeap in
/-- **capacity: `append` never writes into an array it does not own.**  `cell c = append(cell c, data...)`
on a field of a live object — in place when `len + len(data) ≤ cap`, in a new array otherwise — leaves every
other live field and every pooled slice variable as it was and leaves their WHOLE backing array (spare
capacity included) untouched.  Every `appendCell` of `step` / `mstep` is applied to a field of the target
object (obligation `Fld` of `Tgt.append0/1` in the refinement proofs).  The seeded regression C07-m4
(`append(seq[from:], seq[0:to]...)`) appends to a slice of the SOURCE's array: it is outside this model and
is caught by the oracle `hist.shared-buffer`. -/
theorem append_private {h : Heap} (hI : Inv h) {c : Nat} (hc : Fld h c) (data : Bytes) (g : Nat)
    {d : Nat} (hd : Owner h d) (hdc : d ≠ c) {t : Slice} (ht : h.cells d = some t) :
    (h.appendCell c data g).cells d = some t ∧ (h.appendCell c data g).bufs t.buf = h.bufs t.buf :=
  appendCell_private hI hc data g hd hdc ht

open ObiVerif.SeqHeap in
/-- … and the in-place branch exists: with enough capacity the slice keeps its array -/
theorem append_in_place {h : Heap} {c : Nat} {s : Slice} (hs : h.cells c = some s) (data : Bytes) (g : Nat)
    (hcap : s.len + data.length ≤ (h.bufs s.buf).length) :
    (h.appendCell c data g).cells c = some ⟨s.buf, s.len + data.length⟩ ∧ (h.appendCell c data g).nbuf = h.nbuf :=
  appendCell_in_place hs data g hcap

/-! ## Third pass: annotation values with sharing (Model/SeqAnnTree.lean, Lemmas/SeqAnnTree.lean) -/

open ObiVerif.AnnTree in
/-- **no annotation value is shared**: after any history of `SetAttribute` / `Copy` / `ReverseComplement(false)`
/ `Subsequence` / in-place edits of nested maps and slices / `Recycle`, for every decision of the annotation
pool, no pointer (top-level map, nested map, slice, at any depth) occurs in two live objects, and no pooled
top-level map belongs to a live object -/
theorem no_shared_annotation (ops : List AOp) (ch : Nat → Nat) (s' : State)
    (hr : arun State.empty ch 0 ops = .ok s') :
    (∀ p ∈ s'.objs, ∀ q ∈ s'.objs, p.name ≠ q.name → ∀ x ∈ p.ids, x ∉ q.ids) ∧
    (∀ p ∈ s'.pool, ∀ o ∈ s'.objs, p ∉ o.ids) :=
  ⟨(arun_inv ops ch 0 _ s' Inv.empty hr).disj, (arun_inv ops ch 0 _ s' Inv.empty hr).poolFree⟩

open ObiVerif.AnnTree in
/-- **frame**: every operation — the in-place edit `node[k] = v` of a container reached through its target
included, which rewrites every occurrence of the pointer in every object — leaves all other live objects
exactly as they were -/
theorem ann_frame {s s' : State} (hI : Inv s) {ch : Nat} {op : AOp} (h : astep s ch op = .ok s') :
    ∀ o ∈ s.objs, o.name ≠ op.target → o ∈ s'.objs := astep_frame hI h

open ObiVerif.AnnTree in
/-- `deepcopy` allocates only new pointers (`MustFillMap` = `AForest.fill`) -/
theorem fill_fresh (f : AForest) (n : Nat) : ∀ x ∈ (f.fill n).1.ids, n ≤ x ∧ x < (f.fill n).2 :=
  (AForest.fill_spec f n).2

open ObiVerif.AnnTree in
/-- the integer stored at `o.annotations[k1][k2]` -/
def intAt (o : AObj) (k1 k2 : String) : Option Int :=
  match o.kids.get k1 with
  | some (.node _ _ ks) => match ks.get k2 with
    | some (.leaf (.int v)) => some v
    | _ => none
  | _ => none

open ObiVerif.AnnTree in
/-- **counterexample for the shallow copy** (seeded/C07-m1, `maps.Copy` instead of `MustFillMap`): `a` carries
`m = {x: 1}` (pointer 1); after `b := a.Copy()` with the shallow fill, pointer 1 occurs in both objects (the
invariant of `no_shared_annotation` is lost), and the edit `b.m["x"] = 100` is seen through `a` -/
theorem shallow_copy_shares :
    ∃ s1 s2 s3, arun State.empty (fun _ => 0) 0
        [.new "a", .setattr "a" "m" (.node 0 true (.cons "x" (.leaf (.int 1)) .nil))] = .ok s1 ∧
      deriveShallow s1 0 "a" "b" = .ok s2 ∧
      (s2.find "a").map (·.ids) = some [0, 1] ∧ (s2.find "b").map (·.ids) = some [2, 1] ∧
      (s2.find "a").map (intAt · "m" "x") = some (some 1) ∧
      astep s2 0 (.edit "b" ["m"] "x" (.int 100)) = .ok s3 ∧
      (s3.find "a").map (intAt · "m" "x") = some (some 100) :=
  ⟨_, _, _, rfl, rfl, rfl, rfl, rfl, rfl, rfl⟩

open ObiVerif.AnnTree in
/-- … while with the real fill (`derive`) the same edit leaves `a` alone (instance of `ann_frame`) -/
example : ∃ s2 s3, arun State.empty (fun _ => 0) 0
        [.new "a", .setattr "a" "m" (.node 0 true (.cons "x" (.leaf (.int 1)) .nil)), .derive "a" "b"] = .ok s2 ∧
      (s2.find "b").map (·.ids) = some [2, 3] ∧
      astep s2 0 (.edit "b" ["m"] "x" (.int 100)) = .ok s3 ∧
      (s3.find "a").map (intAt · "m" "x") = some (some 1) ∧ (s3.find "b").map (intAt · "m" "x") = some (some 100) :=
  ⟨_, _, rfl, rfl, rfl, rfl, rfl⟩

end ObiVerif.Props.C07
