import ObiVerif.Model.SeqOps
/-!
# C07 — reverse complement, subsequence and copy obey their algebraic laws (property theorems)

`Gen.revcmpDNA`, `Gen.kmerRevcompnuc`, `Gen.apatCdnaAlpha` are regenerated from /repo on every run, so
the table theorems below are re-checked against what the source says now.
-/
namespace ObiVerif.Props.C07
open ObiVerif.SeqOps

/-- the IUPAC DNA alphabet of the property (stored sequences are lower-case) plus `. - [ ]` -/
def alphabet : List UInt8 :=
  [97, 99, 103, 116, 114, 121, 109, 107, 115, 119, 98, 100, 104, 118, 110, 46, 45, 91, 93]

def inAlphabet (b : UInt8) : Bool := alphabet.contains b

/-- the complement is an involution on the whole alphabet (decided over the generated table) -/
theorem comp_involutive : ∀ b ∈ alphabet, nucComplement (nucComplement b) = b := by decide

theorem comp_closed : ∀ b ∈ alphabet, nucComplement b ∈ alphabet := by decide

/-- the three complement tables of the code base agree on the 15 IUPAC nucleotide symbols:
`obiseq._revcmpDNA`, `obikmer.revcompnuc`, and the C matcher's `LX_BIO_CDNA_ALPHA` (upper case,
indexed by letter) -/
theorem tables_agree :
    ∀ b ∈ [97, 99, 103, 116, 114, 121, 109, 107, 115, 119, 98, 100, 104, 118, 110],
      (Gen.kmerRevcompnuc.lookup b.toNat = some (nucComplement b).toNat) ∧
      (Gen.apatCdnaAlpha.getD (b.toNat - 97) 0 = (nucComplement b).toNat - 32) := by decide

theorem map_comp_comp (s : Bytes) (h : ∀ b ∈ s, b ∈ alphabet) :
    (s.map nucComplement).map nucComplement = s := by
  induction s with
  | nil => rfl
  | cons a t ih =>
    simp only [List.map_cons]
    rw [comp_involutive a (h a (by simp)), ih (fun b hb => h b (List.mem_cons_of_mem _ hb))]

/-- reverse-complementing twice restores the nucleotides, for every sequence over the alphabet -/
theorem rc_rc (s : Bytes) (h : ∀ b ∈ s, b ∈ alphabet) : rc (rc s) = s := by
  unfold rc
  rw [List.map_reverse, List.reverse_reverse, map_comp_comp s h]

/-- … and stays in the alphabet -/
theorem rc_closed (s : Bytes) (h : ∀ b ∈ s, b ∈ alphabet) : ∀ b ∈ rc s, b ∈ alphabet := by
  intro b hb
  unfold rc at hb
  rw [List.mem_reverse, List.mem_map] at hb
  obtain ⟨a, ha, rfl⟩ := hb
  exact comp_closed a (h a ha)

/-- the coordinate transform of position-bearing annotations under reverse complement is an involution -/
theorem revcmpPos_involutive (l p : Int) : revcmpPos l (revcmpPos l p) = p := by
  unfold revcmpPos; omega

end ObiVerif.Props.C07
