import ObiVerif.Model.SeqOps
import ObiVerif.Lemmas.SeqOps
/-!
# C07 — reverse complement, subsequence and copy obey their algebraic laws (property theorems)

`Gen.revcmpDNA`, `Gen.kmerRevcompnuc`, `Gen.apatCdnaAlpha` are regenerated from /repo on every run, so
the table theorems below are re-checked against what the source says now.
-/
namespace ObiVerif.Props.C07
open ObiVerif.SeqOps

/-- the IUPAC DNA alphabet of the property (stored sequences are lower-case) plus `. - [ ]` -/
def alphabet : List UInt8 :=
  [97, 99, 103, 116, 114, 121, 109, 107, 115, 119, 98, 100, 104, 118, 110, 46, 45, 91, 93]

def inAlphabet (b : UInt8) : Bool := alphabet.contains b

/-- the complement is an involution on the whole alphabet (decided over the generated table) -/
theorem comp_involutive : ∀ b ∈ alphabet, nucComplement (nucComplement b) = b := by decide

theorem comp_closed : ∀ b ∈ alphabet, nucComplement b ∈ alphabet := by decide

/-- the three complement tables of the code base agree on the 15 IUPAC nucleotide symbols:
`obiseq._revcmpDNA`, `obikmer.revcompnuc`, and the C matcher's `LX_BIO_CDNA_ALPHA` (upper case,
indexed by letter) -/
theorem tables_agree :
    ∀ b ∈ [97, 99, 103, 116, 114, 121, 109, 107, 115, 119, 98, 100, 104, 118, 110],
      (Gen.kmerRevcompnuc.lookup b.toNat = some (nucComplement b).toNat) ∧
      (Gen.apatCdnaAlpha.getD (b.toNat - 97) 0 = (nucComplement b).toNat - 32) := by decide

theorem map_comp_comp (s : Bytes) (h : ∀ b ∈ s, b ∈ alphabet) :
    (s.map nucComplement).map nucComplement = s := by
  induction s with
  | nil => rfl
  | cons a t ih =>
    simp only [List.map_cons]
    rw [comp_involutive a (h a (by simp)), ih (fun b hb => h b (List.mem_cons_of_mem _ hb))]

/-- reverse-complementing twice restores the nucleotides, for every sequence over the alphabet -/
theorem rc_rc (s : Bytes) (h : ∀ b ∈ s, b ∈ alphabet) : rc (rc s) = s := by
  unfold rc
  rw [List.map_reverse, List.reverse_reverse, map_comp_comp s h]

/-- … and stays in the alphabet -/
theorem rc_closed (s : Bytes) (h : ∀ b ∈ s, b ∈ alphabet) : ∀ b ∈ rc s, b ∈ alphabet := by
  intro b hb
  unfold rc at hb
  rw [List.mem_reverse, List.mem_map] at hb
  obtain ⟨a, ha, rfl⟩ := hb
  exact comp_closed a (h a ha)

/-- the coordinate transform of position-bearing annotations under reverse complement is an involution -/
theorem revcmpPos_involutive (l p : Int) : revcmpPos l (revcmpPos l p) = p := by
  unfold revcmpPos; omega

/-! ## No shared state: an operation only changes its target -/

/-- frame property: an operation leaves every object other than its target unchanged -/
theorem applyOp_frame {st st' : Store} {op : Op} {m : String}
    (h : applyOp st op = .ok st') (hm : m ≠ op.target) : st'.get m = st.get m := by
  cases op with
  | new a s q =>
    simp only [applyOp, Except.ok.injEq] at h
    subst h; exact Store.get_put_ne _ _ _ _ hm
  | copy a b =>
    simp only [applyOp] at h
    cases hg : st.get a with
    | none => simp [hg, optE, bind, Except.bind] at h
    | some o =>
      simp only [hg, optE, bind, Except.bind, pure, Except.pure, Except.ok.injEq] at h
      subst h; exact Store.get_put_ne _ _ _ _ hm
  | rc a b =>
    simp only [applyOp] at h
    cases hg : st.get a with
    | none => simp [hg, optE, bind, Except.bind] at h
    | some o =>
      simp only [hg, optE, bind, Except.bind, pure, Except.pure, Except.ok.injEq] at h
      subst h; exact Store.get_put_ne _ _ _ _ hm
  | rci a =>
    simp only [applyOp] at h
    cases hg : st.get a with
    | none => simp [hg, optE, bind, Except.bind] at h
    | some o =>
      simp only [hg, optE, bind, Except.bind, pure, Except.pure, Except.ok.injEq] at h
      subst h; exact Store.get_put_ne _ _ _ _ hm
  | sub a b f t c =>
    simp only [applyOp] at h
    cases hg : st.get a with
    | none => simp [hg, optE, bind, Except.bind] at h
    | some o =>
      simp only [hg, optE, bind, Except.bind, pure, Except.pure] at h
      split at h
      · simp only [Except.ok.injEq] at h
        subst h; exact Store.get_put_ne _ _ _ _ hm
      · cases h
      · simp only [Except.ok.injEq] at h
        subst h; rfl
  | set a p v =>
    simp only [applyOp] at h
    cases hg : st.get a with
    | none => simp [hg, optE, bind, Except.bind] at h
    | some o =>
      simp only [hg, optE, bind, Except.bind, pure, Except.pure, Except.ok.injEq] at h
      subst h; exact Store.get_put_ne _ _ _ _ hm
  | recycle a =>
    simp only [applyOp] at h
    cases hg : st.get a with
    | none => simp [hg, optE, bind, Except.bind] at h
    | some o =>
      simp only [hg, optE, bind, Except.bind, pure, Except.pure, Except.ok.injEq] at h
      subst h; exact Store.get_put_ne _ _ _ _ hm

/-- no aliasing along a whole history: an object that no operation of the history targets is
unchanged at the end (modifying or recycling one object never changes another) -/
theorem no_alias (ops : List Op) (st st' : Store) (m : String)
    (h : ops.foldlM applyOp st = .ok st') (hm : ∀ op ∈ ops, m ≠ op.target) :
    st'.get m = st.get m := by
  induction ops generalizing st with
  | nil =>
    simp only [List.foldlM_nil, pure, Except.pure, Except.ok.injEq] at h
    subst h; rfl
  | cons op t ih =>
    simp only [List.foldlM_cons, bind, Except.bind] at h
    cases h1 : applyOp st op with
    | error e => simp [h1] at h
    | ok st1 =>
      simp only [h1] at h
      rw [ih st1 h (fun o ho => hm o (List.mem_cons_of_mem _ ho))]
      exact applyOp_frame h1 (hm op (by simp))

/-- non-vacuity: a history that copies `x` to `y`, reverse-complements `y` in place, cuts `z` out of
`y`, mutates and recycles `y` succeeds, and `x` is untouched -/
example :
    let st0 : Store := [("x", ⟨[97, 99, 103, 116], some [1, 2, 3, 4]⟩)]
    let ops := [Op.copy "x" "y", Op.rci "y", Op.sub "y" "z" 1 3 false, Op.set "y" 0 110, Op.recycle "y"]
    ∃ st', ops.foldlM applyOp st0 = .ok st' ∧ st'.get "x" = st0.get "x" ∧
      (st'.get "y").map (·.seq) = some [] ∧ (st'.get "z").map (·.seq) = some [99, 103] := by
  intro st0 ops
  refine ⟨_, rfl, no_alias ops st0 _ "x" rfl (by decide), ?_, ?_⟩ <;> decide

/-! ## Subsequence: linear windows and error cases -/

/-- a linear window `0 ≤ a < b ≤ length` yields exactly the bytes `a..b-1` (0-based) and the shift `a` -/
theorem subsequence_linear (s : Bytes) (a b : Nat) (hab : a < b) (hb : b ≤ s.length) :
    subsequence s a b false = .ok ((s.drop a).take (b - a), a) := by
  have h1 : Int.tmod (a : Int) (s.length : Int) = a := Int.tmod_eq_of_lt (by omega) (by omega)
  have h2 : Int.tmod ((b : Int) - 1) (s.length : Int) = b - 1 := Int.tmod_eq_of_lt (by omega) (by omega)
  have hs : s ≠ [] := List.ne_nil_of_length_pos (by omega)
  have e1 : ¬ b ≤ a := by omega
  have e3 : ¬ s.length ≤ a := by omega
  have e5 : ¬ s.length < b := by omega
  have e6 : ¬ (b : Int) < 0 := by omega
  unfold subsequence
  simp only [h1, h2]
  simp [e1, e3, e5, e6, hs, hab]

/-- Go's error cases of `Subsequence`, linear -/
theorem subsequence_fromGeTo (s : Bytes) (f t : Int) (h : f ≥ t) :
    subsequence s f t false = .error .fromGeTo := by
  unfold subsequence
  simp [h]

theorem subsequence_fromNeg (s : Bytes) (f t : Int) (c : Bool) (h : f < 0) (hc : c = true ∨ f < t) :
    subsequence s f t c = .error .fromNeg := by
  unfold subsequence
  rcases hc with hc | hc
  · simp [h, hc]
  · have : ¬ t ≤ f := by omega
    simp [h, this]

theorem subsequence_fromOut (s : Bytes) (f t : Int) (h0 : 0 ≤ f) (hft : f < t) (h : (s.length : Int) ≤ f) :
    subsequence s f t false = .error .fromOut := by
  unfold subsequence
  have e1 : ¬ t ≤ f := by omega
  have e2 : ¬ f < 0 := by omega
  simp [e1, e2, h]

theorem subsequence_toOut (s : Bytes) (f t : Int) (h0 : 0 ≤ f) (hft : f < t) (hf : f < s.length)
    (h : (s.length : Int) < t) :
    subsequence s f t false = .error .toOut := by
  unfold subsequence
  have e1 : ¬ t ≤ f := by omega
  have e2 : ¬ f < 0 := by omega
  have e3 : ¬ (s.length : Int) ≤ f := by omega
  have hs : s ≠ [] := List.ne_nil_of_length_pos (by omega)
  simp [e1, e2, e3, hs, h]

/-- a linear subsequence succeeds exactly on a window `0 ≤ from < to ≤ length` and never panics -/
theorem subsequence_linear_ok_iff (s : Bytes) (f t : Int) :
    (∃ r, subsequence s f t false = .ok r) ↔ (0 ≤ f ∧ f < t ∧ t ≤ s.length) := by
  constructor
  · rintro ⟨r, hr⟩
    by_cases h1 : f ≥ t
    · rw [subsequence_fromGeTo s f t h1] at hr; cases hr
    by_cases h2 : f < 0
    · rw [subsequence_fromNeg s f t false h2 (Or.inr (by omega))] at hr; cases hr
    by_cases h3 : (s.length : Int) ≤ f
    · rw [subsequence_fromOut s f t (by omega) (by omega) h3] at hr; cases hr
    by_cases h4 : (s.length : Int) < t
    · rw [subsequence_toOut s f t (by omega) (by omega) (by omega) h4] at hr; cases hr
    omega
  · rintro ⟨h0, hft, ht⟩
    have hf : f = (f.toNat : Int) := by omega
    have ht' : t = (t.toNat : Int) := by omega
    rw [hf, ht', subsequence_linear s f.toNat t.toNat (by omega) (by omega)]
    exact ⟨_, rfl⟩

theorem subsequence_linear_no_panic (s : Bytes) (f t : Int) :
    subsequence s f t false ≠ .error .panic := by
  intro hr
  by_cases h1 : f ≥ t
  · rw [subsequence_fromGeTo s f t h1] at hr; cases hr
  by_cases h2 : f < 0
  · rw [subsequence_fromNeg s f t false h2 (Or.inr (by omega))] at hr; cases hr
  by_cases h3 : (s.length : Int) ≤ f
  · rw [subsequence_fromOut s f t (by omega) (by omega) h3] at hr; cases hr
  by_cases h4 : (s.length : Int) < t
  · rw [subsequence_toOut s f t (by omega) (by omega) (by omega) h4] at hr; cases hr
  have hf : f = (f.toNat : Int) := by omega
  have ht' : t = (t.toNat : Int) := by omega
  rw [hf, ht', subsequence_linear s f.toNat t.toNat (by omega) (by omega)] at hr
  cases hr

example : subsequence [97, 99, 103, 116, 110] 1 4 false = .ok ([99, 103, 116], 1) :=
  subsequence_linear [97, 99, 103, 116, 110] 1 4 (by decide) (by decide)
example : subsequence [97, 99, 103] 2 2 false = .error .fromGeTo := subsequence_fromGeTo _ _ _ (by decide)
example : subsequence [97, 99, 103] (-1) 2 false = .error .fromNeg :=
  subsequence_fromNeg _ _ _ _ (by decide) (Or.inr (by decide))
example : subsequence [97, 99, 103] 3 5 false = .error .fromOut :=
  subsequence_fromOut _ _ _ (by decide) (by decide) (by decide)
example : subsequence [97, 99, 103] 1 4 false = .error .toOut :=
  subsequence_toOut _ _ _ (by decide) (by decide) (by decide) (by decide)

end ObiVerif.Props.C07
