import ObiVerif.Props.C15W
import ObiVerif.Lemmas.TagExact
/-!
# C15 — third deepening round: the assigned taxon is EXACTLY an LCA (not only an ancestor)

The property asks for "an ancestor-or-self of the taxon of every best-matching reference".  The root satisfies that
for every query: the statement below says how deep the assigned taxon is.  Consequence: the assigned TAXID does not
depend on the order in which the unstable `sort.Sort` presents candidates sharing the same number of 4-mers — only
`bestmatch` does (`Props/C15V.lean` §13).
-/
namespace ObiVerif.Props.C15X
open ObiVerif.Tag ObiVerif.Tax ObiVerif.QGram ObiVerif.Kmer ObiVerif.Lcs

/-- **the assigned taxon, exactly** (`Identify` of obitag, `FindClosests` + `BestConsensus` of obitag2; indices
built by `IndexSequence`): `m` being the minimal LCS distance between the query and the references, and `m` being
below the length of every best reference (the range covered by the indices), either the identity of the best match
is below 0.5 and the root is assigned, or the ancestors-or-self of the assigned taxon `z` are EXACTLY the taxa that
are ancestors-or-self of the taxon of every reference `j` lying within `m` of some best reference `b` — i.e. `z` is
the LCA of the taxa of all references within `m` of a best reference (the best references themselves included).
The right-hand side mentions no candidate order. -/
theorem assigned_taxon_is_exact_lca {t : Taxo} {depth : Nat → Nat} {fuel : Nat}
    (wf : WF t 1 depth) (hf : FuelOK t fuel)
    (taxids : List Nat) (htax : ∀ x ∈ taxids, ∃ n, t.node x = some n)
    (v : Variant) (lq : Nat) (c : Nat → Cand) (o : List Nat)
    (hperm : ∀ j, j ∈ o ↔ j < taxids.length)
    (hs : SortedByCw c o) (hq : QGramBound lq c o)
    (lens : Nat → Nat) (cs : Nat → Nat → Cand) (ows : Nat → List Nat)
    (hpermb : ∀ b, b < taxids.length → ∀ j, j ∈ ows b ↔ j < taxids.length)
    (hsb : ∀ b, b < taxids.length → SortedByCw (cs b) (ows b))
    (hqb : ∀ b, b < taxids.length → QGramBound (lens b) (cs b) (ows b))
    (hself : ∀ b, b < taxids.length → (cs b b).dist = 0)
    (m : Nat) (hmin : ∀ i ∈ o, m ≤ (c i).dist) (hex : ∃ i ∈ o, (c i).dist = m)
    (hD : ∀ b ∈ o, (c b).dist = m → m < lens b)
    (z bm n : Nat)
    (h : identify t fuel (findClosests v lq c o)
          (fun b => indexSequence t fuel taxids b (lens b) (cs b) (ows b)) = .ok z bm n) :
    (z = 1 ∧ ∃ bid idxs, findClosests v lq c o = .ok m bid bm idxs ∧ ¬ (bid.2 ≠ 0 ∧ 2 * bid.1 ≥ bid.2)) ∨
    (∀ x, Anc t x z ↔
      ∀ b ∈ o, (c b).dist = m → ∀ j, j < taxids.length → (cs b j).dist ≤ m → Anc t x (taxids.getD j 0)) := by
  obtain ⟨i0, hi0, ei0⟩ := hex
  have hne : o ≠ [] := by intro e; rw [e] at hi0; cases hi0
  obtain ⟨m', bid, bm', hfc, h1, j0, hj0, ej0⟩ := findClosests_spec v lq c o hs hq hne
  have em : m' = m := by
    have a1 := h1 i0 hi0
    have a2 := hmin j0 hj0
    omega
  subst em
  rw [hfc, ← identifyG_eq] at h
  unfold identifyG at h
  simp only at h
  -- what the selection returns in the index of a best reference
  have key : ∀ b ∈ o.filter (fun i => (c i).dist = m'), ∀ idx mm,
      indexSequence t fuel taxids b (lens b) (cs b) (ows b) = .ok idx → selectEntry idx m' = .ok mm →
      (∃ nn, t.node mm = some nn) ∧
      ∀ x, Anc t x mm ↔ ∀ j, j < taxids.length → (cs b j).dist ≤ m' → Anc t x (taxids.getD j 0) := by
    intro b hb idx mm hidx hsel
    have hbo : b ∈ o := (List.mem_filter.1 hb).1
    have hbd : (c b).dist = m' := by simpa using (List.mem_filter.1 hb).2
    have hbl : b < taxids.length := (hperm b).1 hbo
    have hlt : m' < lens b := hD b hbo hbd
    obtain ⟨e, he, rfl⟩ := selectEntry_mem hsel
    refine ⟨(indexSequence_anc hidx e he).2, ?_⟩
    obtain ⟨idx1, hi1, _, hall⟩ := C15.selection_never_falls_back wf hf taxids htax b (lens b) hbl (cs b) (ows b)
      (hpermb b hbl) (hsb b hbl) (hqb b hbl) (hself b hbl) (by omega) (fun _ => []) (fun _ => [])
    rw [hidx] at hi1
    cases hi1
    obtain ⟨m0, hl0, hs0, _⟩ := hall m'
    rw [hsel] at hs0
    cases hs0
    obtain ⟨idx2, hi2, hlook⟩ := C15.index_lookup_is_lca wf hf taxids htax b (lens b) hbl (cs b) (ows b)
      (hpermb b hbl) (hsb b hbl) (hqb b hbl) (hself b hbl)
    rw [hidx] at hi2
    cases hi2
    exact (hlook m' e.2 hlt hl0).2
  split at h
  · right
    cases hsel : selectAllG selectEntry (fun b => indexSequence t fuel taxids b (lens b) (cs b) (ows b)) m'
        (o.filter (fun i => (c i).dist = m')) with
    | error e => rw [hsel] at h; cases h
    | ok ms =>
      rw [hsel] at h
      simp only at h
      cases hcons : consensus t fuel none ms with
      | error e => rw [hcons] at h; cases h
      | ok r =>
        rw [hcons] at h
        cases r with
        | none => cases h
        | some z' =>
          simp only [IdOut.ok.injEq] at h
          obtain ⟨ez, _, _⟩ := h
          subst ez
          obtain ⟨s1, s2⟩ := selectAllG_spec hsel
          have hnodes : ∀ mm ∈ ms, ∃ nn, t.node mm = some nn := by
            intro mm hmm
            obtain ⟨b, hb, idx, hidx, hse⟩ := s2 mm hmm
            exact (key b hb idx mm hidx hse).1
          have hexact := consensus_exact wf hf ms none z' hnodes (by intro x hx; cases hx) hcons
          intro x
          rw [hexact x]
          constructor
          · rintro ⟨_, hall⟩ b hbo hbd j hj hjd
            have hb : b ∈ o.filter (fun i => (c i).dist = m') := by simp [List.mem_filter, hbo, hbd]
            obtain ⟨mm, hmm, idx, hidx, hse⟩ := s1 b hb
            exact ((key b hb idx mm hidx hse).2 x).1 (hall mm hmm) j hj hjd
          · intro hall
            refine ⟨(by intro y hy; cases hy), ?_⟩
            intro mm hmm
            obtain ⟨b, hb, idx, hidx, hse⟩ := s2 mm hmm
            have hbo : b ∈ o := (List.mem_filter.1 hb).1
            have hbd : (c b).dist = m' := by simpa using (List.mem_filter.1 hb).2
            exact ((key b hb idx mm hidx hse).2 x).2 (hall b hbo hbd)
  · left
    rename_i hid
    cases hn1 : t.node 1 with
    | none => rw [hn1] at h; cases h
    | some n1 =>
      rw [hn1] at h
      simp only [IdOut.ok.injEq] at h
      obtain ⟨ez, ebm, _⟩ := h
      exact ⟨ez.symm, bid, _, (by rw [← ebm]; exact hfc), hid⟩

/-- **the assigned taxid does not depend on the candidate orders**: two runs of `Identify` on the same query and
data base that scan the candidates in different orders `o`, `o'` (both by non-increasing shared count — the unstable
sort may give either) and build the indices with different orders `ows`, `ows'`, both assigning a taxon below the
identity threshold branch, assign the SAME taxon.  (`bestmatch` may differ: `Props/C15V.lean` §13.) -/
theorem assigned_taxid_order_independent {t : Taxo} {depth : Nat → Nat}
    (wf : WF t 1 depth) (taxids : List Nat) (c : Nat → Cand) (o o' : List Nat)
    (hmem : ∀ j, j ∈ o ↔ j ∈ o') (cs : Nat → Nat → Cand) (m z z' : Nat)
    (hz : ∀ x, Anc t x z ↔
      ∀ b ∈ o, (c b).dist = m → ∀ j, j < taxids.length → (cs b j).dist ≤ m → Anc t x (taxids.getD j 0))
    (hz' : ∀ x, Anc t x z' ↔
      ∀ b ∈ o', (c b).dist = m → ∀ j, j < taxids.length → (cs b j).dist ≤ m → Anc t x (taxids.getD j 0)) :
    z = z' := by
  apply eq_of_same_ancestors wf
  intro a
  rw [hz a, hz' a]
  constructor
  · intro h b hb; exact h b ((hmem b).2 hb)
  · intro h b hb; exact h b ((hmem b).1 hb)

/-- the rows of the three references of the example of `Props/C15.lean` §3, the third one completed -/
def exRows3 : Nat → Nat → Cand
  | 2 => fun j => match j with
    | 2 => ⟨10, 7, 10, 10⟩ | _ => ⟨10, 0, 6, 10⟩
  | b => C15.exRows b

def exOws (b : Nat) : List Nat := if b = 1 then [1, 0, 2] else if b = 2 then [2, 0, 1] else [0, 1, 2]

/-- non-vacuity of `assigned_taxon_is_exact_lca` (taxonomy `exT`: 3, 4 → 2 → 1, 5 → 1; references of taxa 3, 4, 5;
best references 0 and 1 at distance `m = 1`): every hypothesis holds, taxon 2 is assigned (identity 0.9) -/
example : (∀ j, j ∈ [0, 1, 2] ↔ j < [3, 4, 5].length) ∧ SortedByCw C15.exQ [0, 1, 2] ∧ QGramBound 10 C15.exQ [0, 1, 2] ∧
    (∀ b, b < [3, 4, 5].length → ∀ j, j ∈ exOws b ↔ j < [3, 4, 5].length) ∧
    (∀ b, b < [3, 4, 5].length → SortedByCw (exRows3 b) (exOws b)) ∧
    (∀ b, b < [3, 4, 5].length → QGramBound 10 (exRows3 b) (exOws b)) ∧
    (∀ b, b < [3, 4, 5].length → (exRows3 b b).dist = 0) ∧
    (∀ i ∈ [0, 1, 2], 1 ≤ (C15.exQ i).dist) ∧ (∃ i ∈ [0, 1, 2], (C15.exQ i).dist = 1) ∧
    (∀ b ∈ [0, 1, 2], (C15.exQ b).dist = 1 → 1 < 10) ∧
    identify exT 6 (findClosests .tag1 10 C15.exQ [0, 1, 2])
      (fun b => indexSequence exT 6 [3, 4, 5] b 10 (exRows3 b) (exOws b)) = .ok 2 0 2 := by
  have hb3 : ∀ b, b < [3, 4, 5].length → b = 0 ∨ b = 1 ∨ b = 2 := by
    intro b hb; simp only [List.length_cons, List.length_nil] at hb; omega
  refine ⟨?_, by simp [SortedByCw, C15.exQ], ?_, ?_, ?_, ?_, ?_, ?_, ⟨0, by simp, by decide⟩, fun _ _ _ => by omega, by decide⟩
  · intro j
    simp only [List.mem_cons, List.not_mem_nil, or_false, List.length_cons, List.length_nil]
    omega
  · intro i hi d hd
    simp only [List.mem_cons, List.not_mem_nil, or_false] at hi
    rcases hi with rfl | rfl | rfl <;> simp [C15.exQ, Cand.dist] at hd ⊢ <;> omega
  · intro b hb j
    rcases hb3 b hb with rfl | rfl | rfl <;>
      simp only [exOws, List.length_cons, List.length_nil] <;>
      simp <;> omega
  · intro b hb
    rcases hb3 b hb with rfl | rfl | rfl <;> simp [SortedByCw, exOws, exRows3, C15.exRows, C15.exJ]
  · intro b hb i hi d hd
    rcases hb3 b hb with rfl | rfl | rfl <;>
      simp only [exOws] at hi <;> simp at hi <;>
      rcases hi with rfl | rfl | rfl <;> simp [exRows3, C15.exRows, C15.exJ, Cand.dist] at hd ⊢ <;> omega
  · intro b hb
    rcases hb3 b hb with rfl | rfl | rfl <;> simp [exRows3, C15.exRows, C15.exJ, Cand.dist]
  · intro i hi
    simp only [List.mem_cons, List.not_mem_nil, or_false] at hi
    rcases hi with rfl | rfl | rfl <;> simp [C15.exQ, Cand.dist]

/-- **… on the transcription closest to the code** (`identifyTextV`: verbatim kernels in the search and in
`IndexSequence`, text indices, verbatim selection loop), sequences over `a c g t`, `|x| + |y| < 30000` for every
pair, every scan by non-increasing shared 4-mers: NO kernel hypothesis, NO q-gram hypothesis -/
theorem assigned_taxon_is_exact_lca_verbatim {t : Taxo} {depth : Nat → Nat} {fuel : Nat}
    (wf : WF t 1 depth) (hf : FuelOK t fuel) (nm rk : Nat → Text)
    (taxids : List Nat) (htax : ∀ x ∈ taxids, ∃ n, t.node x = some n)
    (v : Variant) (q : Bytes) (refs : Nat → Bytes) (o : List Nat) (ows : Nat → List Nat)
    (hperm : ∀ j, j ∈ o ↔ j < taxids.length)
    (hpermb : ∀ b, b < taxids.length → ∀ j, j ∈ ows b ↔ j < taxids.length)
    (hq : IsACGT q)
    (hr : ∀ j, j < taxids.length → IsACGT (refs j) ∧ q.length + (refs j).length + 1 ≤ 30000)
    (hrr : ∀ b, IsACGT (refs b) ∧ ∀ j ∈ ows b, IsACGT (refs j) ∧ (refs b).length + (refs j).length + 1 ≤ 30000)
    (hs : SortedByCw (fun i => candOf q (refs i)) o)
    (hsb : ∀ b, b < taxids.length → SortedByCw (fun j => candOf (refs b) (refs j)) (ows b))
    (m : Nat) (hmin : ∀ i ∈ o, m ≤ (candOf q (refs i)).dist) (hex : ∃ i ∈ o, (candOf q (refs i)).dist = m)
    (hD : ∀ b ∈ o, (candOf q (refs b)).dist = m → m < (refs b).length)
    (z bm n : Nat)
    (h : identifyTextV t fuel v nm rk q refs taxids o ows = .ok z bm n) :
    (z = 1 ∧ ∃ bid idxs, findClosestsV v q refs o = .ok (.ok m bid bm idxs) ∧ ¬ (bid.2 ≠ 0 ∧ 2 * bid.1 ≥ bid.2)) ∨
    (∀ x, Anc t x z ↔
      ∀ b ∈ o, (candOf q (refs b)).dist = m → ∀ j, j < taxids.length →
        (candOf (refs b) (refs j)).dist ≤ m → Anc t x (taxids.getD j 0)) := by
  have hro : ∀ i ∈ o, IsACGT (refs i) ∧ q.length + (refs i).length + 1 ≤ 30000 := fun i hi => hr i ((hperm i).1 hi)
  rw [C15W.identifyTextV_refines t fuel v nm rk q refs taxids o ows hq hro hrr,
    identifyV_refines t fuel v q refs taxids o ows hq hro hrr] at h
  obtain ⟨i0, hi0, _⟩ := hex
  have hlq : q.length ≤ 65538 := by have := (hro i0 hi0).2; omega
  have hqg := qgramBound_acgt q refs o hq hlq (fun i hi => ⟨(hro i hi).1, by have := (hro i hi).2; omega⟩)
  rcases assigned_taxon_is_exact_lca wf hf taxids htax v q.length (fun i => candOf q (refs i)) o hperm hs hqg
      (fun b => (refs b).length) (fun b j => candOf (refs b) (refs j)) ows hpermb hsb
      (fun b hb => qgramBound_acgt (refs b) refs (ows b) (hrr b).1
        (by have := (hr b hb).2; omega)
        (fun j hj => ⟨((hrr b).2 j hj).1, by have := ((hrr b).2 j hj).2; omega⟩))
      (fun b _ => (candOf_dist_zero_iff (refs b) (refs b) (hrr b).1 (hrr b).1).2 rfl)
      m hmin ⟨i0, hi0, by assumption⟩ hD z bm n h with ⟨hz, bid, idxs, hfc, hid⟩ | hz
  · left
    exact ⟨hz, bid, idxs, by rw [findClosestsV_refines v q refs o hq hro, hfc], hid⟩
  · right; exact hz

end ObiVerif.Props.C15X
