import ObiVerif.Lemmas.PEAlign
import ObiVerif.Lemmas.PECons
import ObiVerif.Lemmas.PEFast
import ObiVerif.Lemmas.PEFillV
import ObiVerif.Lemmas.PEVote
import ObiVerif.Lemmas.PERows
import ObiVerif.Lemmas.PEArena
import ObiVerif.Lemmas.PEUnique
import ObiVerif.Lemmas.PESingleDiag
import ObiVerif.Lemmas.PEFragment
import ObiVerif.Lemmas.PEQual
import ObiVerif.Lemmas.PEAnnot
import ObiVerif.Lemmas.PEFastArena
import ObiVerif.Lemmas.PESide
import ObiVerif.Lemmas.PEBound
import ObiVerif.Model.PECli
/-!
# C08 — paired-end assembly: valid path, optimal score, correct consensus (property theorems)

Every theorem quantifies over **all** column scores `s : Nat → Nat → Int` (the float-derived tables of
`dnamatrix.go` are data, DESIGN §3.4), **all** gap penalties `g`, all read lengths.  `left` / `right`
are the two end-gap-free schemes documented in `pairedendalign.go`:

* left  (`cALeft`, `cBLeft`):  a base of A alone is free before B starts, a base of B alone is free after A ended;
* right (`cARight`, `cBRight`): a base of B alone is free before A starts, a base of A alone is free after B ended;

everything else costs `g`.  `Align.scoreOf s cA cB p` recomputes the score of a run-length path `p`
column by column, `Align.consumes p la lb` says that `p` is a list of (indel, diag ≥ 0) pairs using
exactly `la` bases of A and `lb` bases of B.
-/
namespace ObiVerif.Props.C08
open ObiVerif.PEAlign ObiVerif.Align

/-! ## one fill and its backtracking (both schemes are instances of `fill`) -/

/-- `_Backtracking` on the matrices of any fill never reads outside them, terminates, and returns a
path that consumes both reads exactly — for every score function, every pair of indel-cost functions,
all non-empty reads. -/
theorem backtrack_consumes (s : Nat → Nat → Int) (cA cB : Nat → Int) (la lb : Nat) (hla : 0 < la) (hlb : 0 < lb) :
    ∃ r, fill s cA cB la lb = some r ∧ consumes r.path la lb := by
  obtain ⟨p, h, hc, _⟩ := fill_ok s cA cB la lb hla hlb
  exact ⟨_, h, hc⟩

/-- the score returned by a fill (corner of the score matrix) is the score recomputed along the
backtracked path under the same scheme -/
theorem fill_score_is_path (s : Nat → Nat → Int) (cA cB : Nat → Int) (la lb : Nat) (hla : 0 < la) (hlb : 0 < lb) :
    ∃ r, fill s cA cB la lb = some r ∧ r.score = scoreOf s cA cB r.path := by
  obtain ⟨p, h, _, hs⟩ := fill_ok s cA cB la lb hla hlb
  exact ⟨_, h, hs.symm⟩

/-- no path consuming both reads scores higher than the fill: the fill is the optimum of the scheme -/
theorem fill_optimal (s : Nat → Nat → Int) (cA cB : Nat → Int) (la lb : Nat) (hla : 0 < la) (hlb : 0 < lb) :
    ∃ r, fill s cA cB la lb = some r ∧ ∀ p, consumes p la lb → scoreOf s cA cB p ≤ r.score := by
  obtain ⟨p, h, _, _⟩ := fill_ok s cA cB la lb hla hlb
  exact ⟨_, h, fun q hq => fill_optimal_cells s cA cB la lb q hq⟩

/-- an empty read is a panic of the Go fills (`seqA[la-1]`), kept as an explicit outcome -/
theorem fill_empty (s : Nat → Nat → Int) (cA cB : Nat → Int) (lb : Nat) : fill s cA cB 0 lb = none := by
  simp [fill]

/-! ## `PEAlign`, exact mode -/

/-- Exact mode returns the better of the two schemes (left only when strictly better), with **its**
score (D11: the unpatched code returned 0) and **its** path; that path consumes both reads, its
recomputed score under its own scheme is the reported score, and no consuming path scores higher under
either scheme. -/
theorem pealign_exact (s : Nat → Nat → Int) (g : Int) (la lb : Nat) (hla : 0 < la) (hlb : 0 < lb) :
    ∃ l r, fillLeft s g la lb = some l ∧ fillRight s g la lb = some r ∧
      peAlignExact s g la lb =
        some (if l.score > r.score then ⟨true, l.score, l.path⟩ else ⟨false, r.score, r.path⟩) ∧
      ∃ res, peAlignExact s g la lb = some res ∧
        consumes res.path la lb ∧
        res.score = (if res.isLeft then scoreOf s (cALeft g) (cBLeft g la) res.path
                     else scoreOf s (cARight g lb) (cBRight g) res.path) ∧
        (∀ p, consumes p la lb → scoreOf s (cALeft g) (cBLeft g la) p ≤ res.score) ∧
        (∀ p, consumes p la lb → scoreOf s (cARight g lb) (cBRight g) p ≤ res.score) := by
  obtain ⟨pl, hl, hcl, hsl⟩ := fill_ok s (cALeft g) (cBLeft g la) la lb hla hlb
  obtain ⟨pr, hr, hcr, hsr⟩ := fill_ok s (cARight g lb) (cBRight g) la lb hla hlb
  have optl := fill_optimal_cells s (cALeft g) (cBLeft g la) la lb
  have optr := fill_optimal_cells s (cARight g lb) (cBRight g) la lb
  refine ⟨_, _, hl, hr, ?_, ?_⟩
  · unfold peAlignExact fillLeft fillRight
    rw [hl, hr]
    simp only
    split <;> rfl
  · unfold peAlignExact fillLeft fillRight
    rw [hl, hr]
    simp only
    by_cases hgt : Mf s (cALeft g) (cBLeft g la) la la lb > Mf s (cARight g lb) (cBRight g) la la lb
    · refine ⟨⟨true, Mf s (cALeft g) (cBLeft g la) la la lb, pl⟩, by rw [if_pos hgt], hcl, ?_,
        fun p hp => optl p hp, fun p hp => ?_⟩
      · show Mf s (cALeft g) (cBLeft g la) la la lb = scoreOf s (cALeft g) (cBLeft g la) pl
        exact hsl.symm
      · have := optr p hp
        show scoreOf s (cARight g lb) (cBRight g) p ≤ Mf s (cALeft g) (cBLeft g la) la la lb
        omega
    · refine ⟨⟨false, Mf s (cARight g lb) (cBRight g) la la lb, pr⟩, by rw [if_neg hgt], hcr, ?_,
        fun p hp => ?_, fun p hp => optr p hp⟩
      · show Mf s (cARight g lb) (cBRight g) la la lb = scoreOf s (cARight g lb) (cBRight g) pr
        exact hsr.symm
      · have := optl p hp
        show scoreOf s (cALeft g) (cBLeft g la) p ≤ Mf s (cARight g lb) (cBRight g) la la lb
        omega

/-- non-vacuity (test on one input): two reads of 3 bases, match +2 / mismatch −1, gap −3 -/
example :
    let s := fun i j => if (([1, 2, 3] : List Nat).getD i 0) = (([2, 3, 4] : List Nat).getD j 9) then (2 : Int) else -1
    peAlignExact s (-3) 3 3 = some ⟨true, 4, [-1, 2, 1, 0]⟩ := by decide

/-! ## `PEAlign`, fast mode -/

/-- what every result of the 4-mer vote satisfies: the diagonal crosses both reads, and a diagonal
with `count` matching 4-mers is at least `count + 3` long in both reads -/
def VoteInRange (la lb : Nat) (shift count : Int) : Prop :=
  -(lb : Int) < shift ∧ shift < la ∧ (1 ≤ count → count + 3 ≤ la ∧ count + 3 ≤ lb)

/-- Fast mode (working tree, i.e. with `C08-fast-path-extension` and `C08-fast-no-shared-4mer`): for
**every** vote result in range, every delta, every score table, the returned path consumes both reads
exactly — also when the local alignment starts or ends with a gap in the other read (D12). -/
theorem fast_path_consumes (s : Nat → Nat → Int) (g : Int) (la lb delta : Nat) (shift count : Int)
    (hla : 0 < la) (hlb : 0 < lb) (hv : VoteInRange la lb shift count) :
    ∃ r, peAlignFastFrom s g la lb delta shift count = some r ∧ consumes r.path la lb :=
  fastFrom_consumes s g la lb delta shift count hla hlb hv.1 hv.2.1 hv.2.2

/-- the extension of the **unpatched** code: `path[0] += extra5; if last == 0 {path[len-2] += extra3} else append` -/
def extendUnpatched (extra5 extra3 : Int) : List Int → List Int
  | [] => []
  | p0 :: rest =>
    let p := (p0 + extra5) :: rest
    match p.reverse with
    | last :: prev :: revInit =>
      if last = 0 then ((prev + extra3) :: revInit).reverse ++ [last] else p ++ [extra3, 0]
    | _ => p ++ [extra3, 0]

/-- D12, concrete counterexample for the unpatched rule: a local path that starts with one base of B
alone (`+1`) and three unaligned bases of A in front (`extra5 = -3`): the runs of opposite signs are
summed and two bases of A / one of B are lost.  (The real-code witness is in the harness corpus.) -/
theorem fast_path_consumes_unpatched_false :
    consumes [1, 4] 4 5 ∧ ¬ consumes (extendUnpatched (-3) 0 [1, 4]) 7 5 ∧
    consumes (extend3 0 (extend5 (-3) [1, 4])) 7 5 := by decide

example : VoteInRange 40 40 20 7 := by unfold VoteInRange; omega

/-- **fast mode, score** (was: oracle only).  For every vote result in range, every delta: the reported
score equals the score recomputed along the **extended** path under the end-gap-free scheme of the
**whole** reads named by `isLeft` — the *left* scheme when the vote shift is positive (the local fill is
`_FillMatrixPeLeftAlign` on `A[startA:]`, `B[:partLen]`; the prepended bases of A come before B starts and
the appended bases of B after A ended, both free under the left scheme), the *right* scheme otherwise.
Holds for the DP branch and for the "identical overlap" branch (`C08-fast-identical-score`). -/
theorem fast_score_is_path (s : Nat → Nat → Int) (g : Int) (la lb delta : Nat) (shift count : Int)
    (hla : 0 < la) (hlb : 0 < lb) (hv : VoteInRange la lb shift count) :
    ∃ r, peAlignFastFrom s g la lb delta shift count = some r ∧ consumes r.path la lb ∧
      r.isLeft = decide (shift > 0) ∧
      r.score = (if r.isLeft then scoreOf s (cALeft g) (cBLeft g la) r.path
                 else scoreOf s (cARight g lb) (cBRight g) r.path) := by
  obtain ⟨r, h, hc⟩ := fastFrom_consumes s g la lb delta shift count hla hlb hv.1 hv.2.1 hv.2.2
  obtain ⟨r', h', hl, hs⟩ := fastFrom_score s g la lb delta shift count hla hlb hv.1 hv.2.1 hv.2.2
  have : r' = r := by rw [h] at h'; exact (Option.some.inj h').symm
  subst this
  refine ⟨r', h, hc, hl, ?_⟩
  rw [hs, hl]
  by_cases hp : shift > 0 <;> simp [hp]


/-- non-vacuity (test on one input): two reads of 6 bases, vote (shift 2, count 1): DP branch, delta 1 -/
example :
    let s := fun i j => if (([1, 2, 3, 4, 1, 2] : List Nat).getD i 0) = (([3, 4, 1, 3, 2, 2] : List Nat).getD j 9) then (2 : Int) else -1
    (peAlignFastFrom s (-3) 6 6 1 2 1).map (fun r => (r.isLeft, r.score, r.path, scoreOf s (cALeft (-3)) (cBLeft (-3) 6) r.path))
      = some (true, 5, [-2, 4, 2, 0], 5) := by decide

/-! ## the 4-mer vote (`Encode4mer`, `Index4mer`, `FastShiftFourMer`) -/

/-- **the vote is in range** (was: hypothesis checked through the correspondence only): for all non-empty
reads the pair (shift, count) computed by the model of `FastShiftFourMer` satisfies `VoteInRange` -/
theorem vote_in_range (rel : Bool) (a b : Bytes) (ha : 0 < a.length) (hb : 0 < b.length) :
    VoteInRange a.length b.length (fastShift rel a b).shift (fastShift rel a b).count := by
  obtain ⟨h1, h2, _, h4⟩ := fastShift_inRange rel a b ha hb
  exact ⟨h1, h2, h4⟩

/-- **the vote does not depend on the iteration order of the Go map**: the selection loop
`if score > maxscore {…} else if score == maxscore && shift < maxshift {…}` computes the maximum of the
total order (score, then smaller shift) over entries with pairwise distinct shifts.  Any enumeration `l'`
of the map (a permutation of the entry list) gives the same (shift, count, score). -/
theorem vote_order_independent (rel : Bool) (a b : Bytes) (l' : List (Int × Nat))
    (h : (shiftCounts (encode4mer a) (encode4mer b)).Perm l') :
    l'.foldl (voteStep rel a.length b.length) ⟨0, 0, -1, 1⟩ = fastShift rel a b :=
  fastShift_order_independent rel a b l' h

/-- what the vote returns: the entry of the map with the best score, the smallest shift among the entries
with that score (scores `count/den` compared exactly by cross-multiplication; `den = 1` in absolute mode) -/
theorem vote_is_best (rel : Bool) (a b : Bytes) (hne : shiftCounts (encode4mer a) (encode4mer b) ≠ []) :
    ∃ e ∈ shiftCounts (encode4mer a) (encode4mer b),
      fastShift rel a b = ⟨e.1, e.2, e.2, voteDen rel a.length b.length e.1⟩ ∧
      ∀ e' ∈ shiftCounts (encode4mer a) (encode4mer b),
        (e'.2 : Int) * voteDen rel a.length b.length e.1 ≤ (e.2 : Int) * voteDen rel a.length b.length e'.1 ∧
        ((e'.2 : Int) * voteDen rel a.length b.length e.1 = (e.2 : Int) * voteDen rel a.length b.length e'.1 → e.1 ≤ e'.1) :=
  (voteFold_spec rel a.length b.length _ (fastShift_hyps rel a b)).2 hne

/-- **fast mode end to end** (vote + local fill + extension): never a panic on non-empty reads, the path
consumes both reads, the score is the score of that path under the scheme named by `isLeft` -/
theorem pealign_fast (s : Nat → Nat → Int) (g : Int) (rel : Bool) (a b : Bytes) (delta : Nat)
    (ha : 0 < a.length) (hb : 0 < b.length) :
    ∃ r, peAlignFastFrom s g a.length b.length delta (fastShift rel a b).shift (fastShift rel a b).count = some r ∧
      consumes r.path a.length b.length ∧
      r.score = (if r.isLeft then scoreOf s (cALeft g) (cBLeft g a.length) r.path
                 else scoreOf s (cARight g b.length) (cBRight g) r.path) := by
  obtain ⟨r, h, hc, _, hs⟩ := fast_score_is_path s g a.length b.length delta _ _ ha hb (vote_in_range rel a b ha hb)
  exact ⟨r, h, hc, hs⟩


/-- test on one input: "acgtacgt" against "gtacgtaa": 4-mers acgt,cgta,gtac,tacg,acgt / gtac,tacg,acgt,cgta,gtaa;
best diagonal: shift 2 with 3 matching 4-mers (relative score 3/3; the other diagonal −2 has 2) -/
example : fastShift true [97, 99, 103, 116, 97, 99, 103, 116] [103, 116, 97, 99, 103, 116, 97, 97] = ⟨2, 3, 3, 3⟩ := by decide

/-! ## the fills as loop nests over the flat arena matrices -/

/-- **refinement of the verbatim fills** (was: "modelled as one recurrence rather than as two loop nests").
`fillLeftA` / `fillRightA` are `_FillMatrixPeLeftAlign` / `_FillMatrixPeRightAlign` transcribed statement
by statement over the flat column-major matrices (`_SetMatrices`, `_GetMatrix`, `_GetMatrixFrom` index
arithmetic, special first row / column, special last line / column) followed by `_Backtracking` reading
the flat path matrix.  For **every** previous content of the arena (stale matrices of any size) they
return exactly the score and path of `fillLeft` / `fillRight`; hence `backtrack_consumes`,
`fill_score_is_path`, `fill_optimal` hold for the loop nests. -/
theorem fills_verbatim_refine (s : Nat → Nat → Int) (g : Int) (la lb : Nat) (m0 : Mats) (hla : 0 < la) (hlb : 0 < lb) :
    (fillLeftA s g la lb m0).map (·.1) = fillLeft s g la lb ∧
    (fillRightA s g la lb m0).map (·.1) = fillRight s g la lb ∧
    (peAlignExactA s g la lb m0).map (·.1) = peAlignExact s g la lb :=
  ⟨fillLeftA_eq s g la lb m0 hla hlb, fillRightA_eq s g la lb m0 hla hlb, peAlignExactA_eq s g la lb m0 hla hlb⟩

/-- the optimality theorem transferred to the loop nests: the score left in the corner of the flat
matrix by the verbatim left fill is the optimum of the left scheme, whatever the arena held before -/
theorem fillLeftV_optimal (s : Nat → Nat → Int) (g : Int) (la lb : Nat) (m0 : Mats) (hla : 0 < la) (hlb : 0 < lb) :
    ∃ sc m, fillLeftV s g la lb m0 = some (sc, m) ∧
      (∀ p, consumes p la lb → scoreOf s (cALeft g) (cBLeft g la) p ≤ sc) ∧
      m.sm.size = (la + 1) * (lb + 1) ∧ m.pm.size = (la + 1) * (lb + 1) := by
  obtain ⟨m, h, hg⟩ := fillLeftV_ok s g la lb m0 hla hlb
  exact ⟨_, m, h, fun p hp => fill_optimal_cells s _ _ la lb p hp, hg.szS, hg.szP⟩

theorem fillRightV_optimal (s : Nat → Nat → Int) (g : Int) (la lb : Nat) (m0 : Mats) (hla : 0 < la) (hlb : 0 < lb) :
    ∃ sc m, fillRightV s g la lb m0 = some (sc, m) ∧
      (∀ p, consumes p la lb → scoreOf s (cARight g lb) (cBRight g) p ≤ sc) ∧
      m.sm.size = (la + 1) * (lb + 1) ∧ m.pm.size = (la + 1) * (lb + 1) := by
  obtain ⟨m, h, hg⟩ := fillRightV_ok s g la lb m0 hla hlb
  exact ⟨_, m, h, fun p hp => fill_optimal_cells s _ _ la lb p hp, hg.szS, hg.szP⟩


/-! ## consensus -/

/-- `BuildQualityConsensus` on a path that consumes both reads: no panic; the two gapped rows, the
consensus sequence and the consensus qualities all have exactly one entry per path column; the base
of column `k` is `consBase` of that column of the gapped rows (bases with gap ' ', qualities with gap
0), independently of the float-derived quality adjustment `adj`. -/
theorem consensus_columns (adj : UInt8 → UInt8) (a qa b qb : Bytes) (p : List Int)
    (hqa : qa.length = a.length) (hqb : qb.length = b.length) (hp : consumes p a.length b.length) :
    ∃ sA sB qA qB c,
      buildAlignment a b 32 p 0 0 = some (sA, sB) ∧ buildAlignment qa qb 0 p 0 0 = some (qA, qB) ∧
      consensus adj a qa b qb p = some c ∧
      sA.length = ncols p ∧ sB.length = ncols p ∧ qA.length = ncols p ∧ qB.length = ncols p ∧
      c.seq.length = ncols p ∧ c.qual.length = ncols p ∧
      ∀ k, k < ncols p → c.seq.getD k 0 = consBase (sA.getD k 0) (qA.getD k 0) (sB.getD k 0) (qB.getD k 0) := by
  obtain ⟨hw, hA, hB⟩ := hp
  obtain ⟨sA, sB, h1, l1, l2⟩ := buildAlignment_ok a b 32 p 0 0 hw (by omega) (by omega)
  obtain ⟨qA, qB, h2, l3, l4⟩ := buildAlignment_ok qa qb 0 p 0 0 hw (by omega) (by omega)
  obtain ⟨c1, c2, c3⟩ := consLoop_spec adj sA sB qA qB 0 0 (by omega) (by omega) (by omega)
  refine ⟨sA, sB, qA, qB, ⟨(consLoop adj 0 0 sA sB qA qB).1, (consLoop adj 0 0 sA sB qA qB).2.1,
    (consLoop adj 0 0 sA sB qA qB).2.2⟩, h1, h2, by simp only [consensus, h1, h2], l1, l2, l3, l4,
    by simpa [l1] using c1, by simpa [l1] using c2, ?_⟩
  intro k hk
  exact c3 k (by omega)

/-- **content of the gapped rows of `_BuildAlignment`** (was: only their lengths).  For a path consuming
both reads, for the base rows (gap ' ') and the quality rows (gap 0): row A is read A seen through the
A-positions of the path columns, row B likewise (`buildAlignment_rows`); restricted to the columns where
the path shows a base of that read each row gives back the read, and the other columns hold the gap
symbol.  The restriction is by the path mask: a real quality 0 is not a gap. -/
theorem rows_content (a b : Bytes) (gap : UInt8) (p : List Int) (hp : consumes p a.length b.length) :
    ∃ ra rb, buildAlignment a b gap p 0 0 = some (ra, rb) ∧
      ra = (columns p 0 0).map (fun c => cellOf a gap c.1) ∧ rb = (columns p 0 0).map (fun c => cellOf b gap c.2) ∧
      ra.length = ncols p ∧ rb.length = ncols p ∧
      keep ra ((columns p 0 0).map (·.1)) = a ∧ keep rb ((columns p 0 0).map (·.2)) = b ∧
      (∀ k, k < ncols p → ((columns p 0 0).getD k (none, none)).1 = none → ra.getD k 0 = gap) ∧
      (∀ k, k < ncols p → ((columns p 0 0).getD k (none, none)).2 = none → rb.getD k 0 = gap) ∧
      (columns p 0 0).filterMap (·.1) = List.range' 0 a.length ∧
      (columns p 0 0).filterMap (·.2) = List.range' 0 b.length := by
  obtain ⟨ra, rb, h, l1, l2, k1, k2, g1, g2⟩ := rows_restrict a b gap p hp
  have hr := buildAlignment_rows a b gap p 0 0 hp.1 (by have := hp.2.1; omega) (by have := hp.2.2; omega)
  rw [hr] at h
  simp only [Option.some.injEq, Prod.mk.injEq] at h
  refine ⟨ra, rb, by rw [hr, h.1, h.2], h.1.symm, h.2.symm, l1, l2, k1, k2, g1, g2, ?_, ?_⟩
  · rw [columns_A p 0 0 hp.1, hp.2.1]
  · rw [columns_B p 0 0 hp.1, hp.2.2]

/-- **consensus correctness, column by column, about the real rows and the original reads**: column `k`
holds `consBase` of (base, quality) of A at the position the path shows there — (' ', 0) when the path has
a gap in A — and of (base, quality) of B.  With `consensus_higher_quality_wins` and `consensus_gap_column`:
the higher-quality base wins, a single-read column keeps its base. -/
theorem consensus_columns_real (adj : UInt8 → UInt8) (a qa b qb : Bytes) (p : List Int)
    (hqa : qa.length = a.length) (hqb : qb.length = b.length) (hp : consumes p a.length b.length) :
    ∃ c, consensus adj a qa b qb p = some c ∧ c.seq.length = ncols p ∧ c.qual.length = ncols p ∧
      ∀ k, k < ncols p →
        c.seq.getD k 0 =
          consBase (cellOf a 32 ((columns p 0 0).getD k (none, none)).1) (cellOf qa 0 ((columns p 0 0).getD k (none, none)).1)
                   (cellOf b 32 ((columns p 0 0).getD k (none, none)).2) (cellOf qb 0 ((columns p 0 0).getD k (none, none)).2) :=
  consensus_column_real adj a qa b qb p hqa hqb hp

/-- test on one input: the columns of `[-1, 2, 1, 0]` -/
example : columns [-1, 2, 1, 0] 0 0 = [(some 0, none), (some 1, some 0), (some 2, some 1), (none, some 2)] := by decide

/-- the column rule: the base with the strictly higher quality wins; equal qualities and equal bases
keep the base; equal qualities and different bases give the IUPAC symbol of the union of the two
4-bit codes (`_FourBitsBaseCode` / `_FourBitsBaseDecode`, regenerated from the source) -/
theorem consensus_higher_quality_wins (nA qA nB qB : UInt8) :
    (qA > qB → consBase nA qA nB qB = nA) ∧
    (qB > qA → consBase nA qA nB qB = nB) ∧
    (qA = qB → nA = nB → consBase nA qA nB qB = nA) ∧
    (qA = qB → nA ≠ nB → consBase nA qA nB qB =
      UInt8.ofNat (Gen.fourBitsBaseDecode.getD (fourCode nA ||| fourCode nB) 0)) :=
  consBase_rule nA qA nB qB

/-- a gap column (' ' with quality 0) against a real base always yields the real base when that base
is one of the 15 IUPAC nucleotide symbols in lower case — decided over the whole table -/
theorem consensus_gap_column :
    ∀ n ∈ ("acgtrymkswbdhvn".toList.map (fun c => UInt8.ofNat c.toNat)), ∀ q : UInt8,
      consBase 32 0 n q = n ∧ consBase n q 32 0 = n := by
  intro n hn q
  have hdec : ∀ n ∈ ("acgtrymkswbdhvn".toList.map (fun c => UInt8.ofNat c.toNat)),
      UInt8.ofNat (Gen.fourBitsBaseDecode.getD (fourCode 32 ||| fourCode n) 0) = n ∧
      UInt8.ofNat (Gen.fourBitsBaseDecode.getD (fourCode n ||| fourCode 32) 0) = n ∧ n ≠ 32 := by decide
  obtain ⟨d1, d2, d3⟩ := hdec n hn
  unfold consBase
  by_cases hq : q > 0
  · have h1 : ¬ ((0 : UInt8) > q) := by
      simp only [gt_iff_lt, UInt8.lt_iff_toNat_lt] at hq ⊢; omega
    have h2 : ¬ ((0 : UInt8) = q) := by
      intro e; subst e; simp only [gt_iff_lt, UInt8.lt_iff_toNat_lt] at hq; omega
    simp [hq, h1, h2]
  · have hq0 : q = 0 := by
      simp only [gt_iff_lt, UInt8.lt_iff_toNat_lt, UInt8.toNat_zero] at hq
      exact UInt8.toNat_inj.mp (by simp; omega)
    subst hq0
    have h1 : ¬ ((0 : UInt8) > 0) := by decide
    simp only [h1, if_false, true_and]
    have e1 : (32 : UInt8) ≠ n := fun e => d3 e.symm
    simp only [List.getD_eq_getElem?_getD] at d1 d2
    simp [e1, d3, d1, d2]

/-! ## statistics of `AssemblePESequences` -/

/-- ali_length + seq_a_single + seq_b_single is the length of the returned sequence in alignment mode
(with `C08-single-side`: the two counts are taken from the sign of the end runs), the mode is
`alignment` exactly when both thresholds hold, and in join mode the record is A, ten dots, B. -/
theorem stats_consistent (a qa b qb : Bytes) (minOverlap idn idd : Nat) (r : PERes) (c : Cons) :
    let out := assemble a qa b qb minOverlap idn idd r c
    let ali : Int := (c.seq.length : Int) - (endRuns r.path).1.natAbs - (endRuns r.path).2.natAbs
    out.aliLength = ali ∧ out.nmatch = c.nmatch ∧ out.score = r.score ∧
    (out.alignment = true ↔ (ali ≥ minOverlap ∧ identityOK c.nmatch ali idn idd = true)) ∧
    (out.alignment = true → out.seq = c.seq ∧ out.qual = c.qual ∧ out.dirLeft = some r.isLeft ∧
      ∃ aS bS, out.aSingle = some aS ∧ out.bSingle = some bS ∧ 0 ≤ aS ∧ 0 ≤ bS ∧
        out.aliLength + aS + bS = (out.seq.length : Int) ∧
        aS = (if (endRuns r.path).1 < 0 then ((endRuns r.path).1.natAbs : Int) else 0)
              + (if (endRuns r.path).2 < 0 then ((endRuns r.path).2.natAbs : Int) else 0)) ∧
    (out.alignment = false → out.seq = a ++ List.replicate 10 46 ++ b ∧
      out.qual = qa ++ List.replicate 10 0 ++ qb) := by
  simp only [assemble]
  by_cases h : (c.seq.length : Int) - (endRuns r.path).1.natAbs - (endRuns r.path).2.natAbs ≥ minOverlap ∧
      identityOK c.nmatch ((c.seq.length : Int) - (endRuns r.path).1.natAbs - (endRuns r.path).2.natAbs) idn idd = true
  · simp only [h, and_self, if_true, true_and, forall_const, Bool.true_eq_false, false_implies, and_true]
    refine ⟨_, _, rfl, rfl, ?_, ?_, ?_, rfl⟩
    · split <;> split <;> omega
    · split <;> split <;> omega
    · split <;> split <;> omega
  · simp only [h, if_false, Bool.false_eq_true, false_implies, forall_const, and_self]

/-- non-vacuity (tests on sample inputs): the consensus of `acgt`/`cgac` along `[-1,3,1,0]` (t/a at equal quality gives `w`) -/
example : (consensus (fun _ => 0) [97, 99, 103, 116] [40, 40, 30, 40] [99, 103, 97, 99] [40, 40, 40, 40] [-1, 3, 1, 0]).map
    (fun c => (c.seq, c.qual, c.nmatch)) = some ([97, 99, 103, 119, 99], [40, 80, 70, 40, 40], 2) := by decide

/-! ## error-free reassembly (partial) -/

/-- Full claim of the property: two error-free reads overlapping by at least the minimum overlap are
reassembled into the fragment.  It is false as stated (repeats: several diagonals tie; one read strictly
inside the other: neither scheme has both overhangs of the same read free — both observed on the real
code, see the `reassembly.*-containment` finding).  What is proved, for every score table: the exact
alignment scores at least as much as **any** consuming path `tp` (in particular the true overlap path)
under both schemes, and if `tp` is the only consuming path reaching the score of `tp` under the scheme
that was kept, the returned path **is** `tp`.  (That the consensus along the true path of identical
columns spells the fragment is checked by the oracle only.) -/
theorem errorfree_reassembly_partial (s : Nat → Nat → Int) (g : Int) (la lb : Nat) (hla : 0 < la) (hlb : 0 < lb)
    (tp : List Int) (htp : consumes tp la lb) :
    ∃ res, peAlignExact s g la lb = some res ∧
      scoreOf s (cALeft g) (cBLeft g la) tp ≤ res.score ∧ scoreOf s (cARight g lb) (cBRight g) tp ≤ res.score ∧
      (res.isLeft = true → (∀ q, consumes q la lb →
          scoreOf s (cALeft g) (cBLeft g la) tp ≤ scoreOf s (cALeft g) (cBLeft g la) q → q = tp) → res.path = tp) ∧
      (res.isLeft = false → (∀ q, consumes q la lb →
          scoreOf s (cARight g lb) (cBRight g) tp ≤ scoreOf s (cARight g lb) (cBRight g) q → q = tp) → res.path = tp) := by
  obtain ⟨_, _, _, _, _, res, hres, hc, hs, oL, oR⟩ := pealign_exact s g la lb hla hlb
  refine ⟨res, hres, oL tp htp, oR tp htp, ?_, ?_⟩
  · intro hl huniq
    rw [hl] at hs
    simp only [if_true] at hs
    exact huniq res.path hc (by rw [← hs]; exact oL tp htp)
  · intro hl huniq
    rw [hl] at hs
    simp only [Bool.false_eq_true, if_false] at hs
    exact huniq res.path hc (by rw [← hs]; exact oR tp htp)


/-- The uniqueness hypothesis of `errorfree_reassembly_partial` is stated on run-length lists, and run-length
lists are not canonical (`[0,0,-2,3]` and `[-2,3]` are the same alignment): that hypothesis can never be
met.  Here uniqueness is **up to the alignment columns**: if every consuming path scoring at least as
much as `tp` under the scheme that was kept has the columns of `tp`, the returned path has the columns of
`tp`, and the consensus built along it is the consensus built along `tp` (`consensus_congr`). -/
theorem errorfree_reassembly_columns (s : Nat → Nat → Int) (g : Int) (adj : UInt8 → UInt8) (a qa b qb : Bytes)
    (ha : 0 < a.length) (hb : 0 < b.length) (hqa : qa.length = a.length) (hqb : qb.length = b.length)
    (tp : List Int) (htp : consumes tp a.length b.length) :
    ∃ res, peAlignExact s g a.length b.length = some res ∧
      (res.isLeft = true → (∀ q, consumes q a.length b.length →
          scoreOf s (cALeft g) (cBLeft g a.length) tp ≤ scoreOf s (cALeft g) (cBLeft g a.length) q →
          columns q 0 0 = columns tp 0 0) →
        columns res.path 0 0 = columns tp 0 0 ∧ consensus adj a qa b qb res.path = consensus adj a qa b qb tp) ∧
      (res.isLeft = false → (∀ q, consumes q a.length b.length →
          scoreOf s (cARight g b.length) (cBRight g) tp ≤ scoreOf s (cARight g b.length) (cBRight g) q →
          columns q 0 0 = columns tp 0 0) →
        columns res.path 0 0 = columns tp 0 0 ∧ consensus adj a qa b qb res.path = consensus adj a qa b qb tp) := by
  obtain ⟨_, _, _, _, _, res, hres, hc, hs, oL, oR⟩ := pealign_exact s g a.length b.length ha hb
  refine ⟨res, hres, ?_, ?_⟩
  · intro hl huniq
    rw [hl] at hs
    simp only [if_true] at hs
    have hcol := huniq res.path hc (by rw [← hs]; exact oL tp htp)
    exact ⟨hcol, consensus_congr adj a qa b qb _ _ hqa hqb hc htp hcol⟩
  · intro hl huniq
    rw [hl] at hs
    simp only [Bool.false_eq_true, if_false] at hs
    have hcol := huniq res.path hc (by rw [← hs]; exact oR tp htp)
    exact ⟨hcol, consensus_congr adj a qa b qb _ _ hqa hqb hc htp hcol⟩

/-- the error-free claim is false for repeats, for every table that is positive on matches: two error-free
reads `aaaa` / `aaaa` cut two bases apart from `aaaaaa` (true path `[-2,2,2,0]`, 6 columns) are aligned
base to base (4 columns) — concrete refutation on the model, match +2, mismatch −1, gap −3 (the real-code
witnesses are the `errorfree:exact-ambiguous-differs` cases of the harness) -/
theorem errorfree_reassembly_repeat_false :
    consumes [-2, 2, 2, 0] 4 4 ∧
    (peAlignExact (fun _ _ => 2) (-3) 4 4).map (fun r => (r.score, r.path)) = some (8, [0, 4]) ∧
    scoreOf (fun _ _ => 2) (cALeft (-3)) (cBLeft (-3) 4) [-2, 2, 2, 0] = 4 := by decide

/-! ## second deepening round -/

/-! ### the arena: fast mode on the verbatim fills, `_Backtracking` on its real path buffer -/

/-- **fast mode runs the verbatim fills** (was: the fast driver path executed the recurrence level).  For every
vote result in range, every delta and every previous content of the arena, `PEAlign` in fast mode with the
local fill transcribed as the loop nest over the flat matrices returns exactly `peAlignFastFrom`: every
fast-mode theorem above is about what the driver executes. -/
theorem fast_verbatim_refines (s : Nat → Nat → Int) (g : Int) (la lb delta : Nat) (shift count : Int) (m0 : Mats)
    (hla : 0 < la) (hlb : 0 < lb) (hv : VoteInRange la lb shift count) :
    (peAlignFastFromA s g la lb delta shift count m0).map (·.1) = peAlignFastFrom s g la lb delta shift count :=
  peAlignFastFromA_eq s g la lb delta shift count m0 hla hlb hv.1 hv.2.1

/-- **`_Backtracking` with its path buffer** (was: modelled by prepending to a list).  The slice taken from the
arena, regrown to `2·(la+lb)` cells when too small, written from its END with a decreasing index, the result
being `path[p:cap]`: for EVERY path matrix (also ones on which the loop fails: `none` on both sides) and EVERY
previous content and capacity of the buffer the returned path is the list model's path; no write is ever out
of range (`2·(la+lb)` cells always suffice), the buffer keeps its size and the path fits in it. -/
theorem backtracking_buffer_refines (P : Nat → Nat → Int) (la lb : Nat) (buf0 : Array Int) :
    (backtrackBuf P la lb buf0).map (·.1) = backtrack P la lb ∧
    ∀ p b, backtrackBuf P la lb buf0 = some (p, b) →
      b.size = (growPath buf0 ((la + lb) * 2)).size ∧ p.length ≤ (la + lb) * 2 :=
  ⟨backtrackBuf_eq P la lb buf0, fun p b h => backtrackBuf_size P la lb buf0 p b h⟩

/-- **the whole arena** (flat score / path matrices + path buffer, all holding whatever the previous pair
left): one fill, exact mode and fast mode return exactly the recurrence-level results on which optimality,
score = path score and path consumption are proved. -/
theorem arena_refines (s : Nat → Nat → Int) (g : Int) (la lb : Nat) (ar : Arena) (hla : 0 < la) (hlb : 0 < lb) :
    (fillLeftB s g la lb ar).map (·.1) = fillLeft s g la lb ∧
    (fillRightB s g la lb ar).map (·.1) = fillRight s g la lb ∧
    (peAlignExactB s g la lb ar).map (·.1) = peAlignExact s g la lb ∧
    ∀ (delta : Nat) (shift count : Int), VoteInRange la lb shift count →
      (peAlignFastFromB s g la lb delta shift count ar).map (·.1) = peAlignFastFrom s g la lb delta shift count := by
  have e : ∀ {α : Type} (o : Option (α × Arena)), o.map (·.1) = (o.map (fun x => (x.1, x.2.m))).map (·.1) := by
    intro α o; cases o <;> rfl
  refine ⟨?_, ?_, ?_, ?_⟩
  · rw [e, fillLeftB_eq]; exact fillLeftA_eq s g la lb ar.m hla hlb
  · rw [e, fillRightB_eq]; exact fillRightA_eq s g la lb ar.m hla hlb
  · rw [e, peAlignExactB_eq]; exact peAlignExactA_eq s g la lb ar.m hla hlb
  · intro delta shift count hv
    rw [e, peAlignFastFromB_eq]
    exact peAlignFastFromA_eq s g la lb delta shift count ar.m hla hlb hv.1 hv.2.1

/-! ### error-free reassembly, end to end -/

/-- **the decidable uniqueness hypothesis**.  `strictAlong M … (stepsOf tp)`: in every cell of the DP matrix
that the true path enters, the candidate coming from the true path's predecessor is strictly better than the
other candidates of the recurrence (same condition as "the independent DP counts one optimal path").  Then the
score of `tp` is the optimum and every consuming path scoring at least as much has the alignment columns of
`tp` — the hypothesis of `errorfree_reassembly_columns`. -/
theorem errorfree_unique_optimum (s : Nat → Nat → Int) (cA cB : Nat → Int) (la lb : Nat) (tp : List Int)
    (htp : consumes tp la lb)
    (hs : strictAlong (Mf s cA cB la) s cA cB 0 0 (stepsOf tp) = true) :
    scoreOf s cA cB tp = Mf s cA cB la la lb ∧
    ∀ q, consumes q la lb → scoreOf s cA cB tp ≤ scoreOf s cA cB q → columns q 0 0 = columns tp 0 0 :=
  ⟨strictAlong_score (isFill_cells s cA cB la lb) tp htp hs,
   fun q hq hge => unique_of_strictAlong (isFill_cells s cA cB la lb) tp q htp hq hs hge⟩

/-- **the consensus along the true path is the fragment** (was: oracle only).  Reads cut from one fragment
`X ++ O ++ Y` without sequencing error, over the 15 IUPAC symbols, any qualities (also 0): A first
(`a = X ++ O`, `b = O ++ Y`) the consensus along `[-|X|, |O|, |Y|, 0]` is `a ++ b.drop |O|`; B first
(`b = X ++ O`, `a = O ++ Y`) the consensus along `[|X|, |O|, -|Y|, 0]` is `b ++ a.drop |O|`. -/
theorem consensus_true_path_is_fragment (adj : UInt8 → UInt8) (a qa b qb : Bytes) (d ov e : Nat)
    (hqa : qa.length = a.length) (hqb : qb.length = b.length)
    (ha : ∀ x ∈ a, x ∈ sym15) (hb : ∀ x ∈ b, x ∈ sym15) :
    (a.length = d + ov → b.length = ov + e → (∀ k, k < ov → a.getD (d + k) 32 = b.getD k 32) →
      ∃ c, consensus adj a qa b qb [-(d : Int), (ov : Int), (e : Int), 0] = some c ∧ c.seq = a ++ b.drop ov) ∧
    (a.length = ov + e → b.length = d + ov → (∀ k, k < ov → a.getD k 32 = b.getD (d + k) 32) →
      ∃ c, consensus adj a qa b qb [(d : Int), (ov : Int), -(e : Int), 0] = some c ∧ c.seq = b ++ a.drop ov) :=
  ⟨fun hla hlb hov => consensus_true_left adj a qa b qb d ov e hla hlb hqa hqb ha hb hov,
   fun hla hlb hov => consensus_true_right adj a qa b qb d ov e hla hlb hqa hqb ha hb hov⟩

/-- **error-free reassembly, end to end, A first** (the full claim of the property is false for repeats and
containment, see `errorfree_reassembly_repeat_false`; this is the claim under an explicit decidable
hypothesis).  Reads `a = X ++ O`, `b = O ++ Y` without sequencing error.  If the left scheme wins
(`hside`, a comparison of two integers) and the true path is strict in the left matrix (`hstrict`), exact
mode returns a left alignment with the columns of the true path and `BuildQualityConsensus` along the
returned path spells the fragment `X ++ O ++ Y`. -/
theorem errorfree_reassembly_left (s : Nat → Nat → Int) (g : Int) (adj : UInt8 → UInt8) (a qa b qb : Bytes)
    (d ov e : Nat) (hov : 0 < ov) (hla : a.length = d + ov) (hlb : b.length = ov + e)
    (hqa : qa.length = a.length) (hqb : qb.length = b.length)
    (ha : ∀ x ∈ a, x ∈ sym15) (hb : ∀ x ∈ b, x ∈ sym15)
    (herr : ∀ k, k < ov → a.getD (d + k) 32 = b.getD k 32)
    (hside : Mf s (cARight g b.length) (cBRight g) a.length a.length b.length
              < Mf s (cALeft g) (cBLeft g a.length) a.length a.length b.length)
    (hstrict : strictAlong (Mf s (cALeft g) (cBLeft g a.length) a.length) s (cALeft g) (cBLeft g a.length) 0 0
                (stepsOf [-(d : Int), (ov : Int), (e : Int), 0]) = true) :
    ∃ res c, peAlignExact s g a.length b.length = some res ∧ res.isLeft = true ∧
      columns res.path 0 0 = columns [-(d : Int), (ov : Int), (e : Int), 0] 0 0 ∧
      consensus adj a qa b qb res.path = some c ∧ c.seq = a ++ b.drop ov := by
  have hpa : 0 < a.length := by omega
  have hpb : 0 < b.length := by omega
  have htp : consumes [-(d : Int), (ov : Int), (e : Int), 0] a.length b.length := by
    rw [hla, hlb]; exact consumes_true_left d ov e
  obtain ⟨pl, hl, hcl, hsl⟩ := fill_ok s (cALeft g) (cBLeft g a.length) a.length b.length hpa hpb
  obtain ⟨pr, hr, _, _⟩ := fill_ok s (cARight g b.length) (cBRight g) a.length b.length hpa hpb
  obtain ⟨_, huniq⟩ := errorfree_unique_optimum s (cALeft g) (cBLeft g a.length) a.length b.length _ htp hstrict
  have hcol := huniq pl hcl (by rw [hsl]; exact fill_optimal_cells s _ _ a.length b.length _ htp)
  obtain ⟨c, hc, hseq⟩ := consensus_true_left adj a qa b qb d ov e hla hlb hqa hqb ha hb herr
  refine ⟨⟨true, Mf s (cALeft g) (cBLeft g a.length) a.length a.length b.length, pl⟩, c, ?_, rfl, hcol, ?_, hseq⟩
  · unfold peAlignExact fillLeft fillRight
    rw [hl, hr]
    simp only
    rw [if_pos hside]
  · rw [consensus_congr adj a qa b qb pl _ hqa hqb hcl htp hcol]; exact hc

/-- **error-free reassembly, end to end, B first**: `b = X ++ O`, `a = O ++ Y`; the right scheme is kept
(`hside`: the left scheme is not strictly better) and the true path is strict in the right matrix -/
theorem errorfree_reassembly_right (s : Nat → Nat → Int) (g : Int) (adj : UInt8 → UInt8) (a qa b qb : Bytes)
    (d ov e : Nat) (hov : 0 < ov) (hla : a.length = ov + e) (hlb : b.length = d + ov)
    (hqa : qa.length = a.length) (hqb : qb.length = b.length)
    (ha : ∀ x ∈ a, x ∈ sym15) (hb : ∀ x ∈ b, x ∈ sym15)
    (herr : ∀ k, k < ov → a.getD k 32 = b.getD (d + k) 32)
    (hside : ¬ (Mf s (cALeft g) (cBLeft g a.length) a.length a.length b.length
              > Mf s (cARight g b.length) (cBRight g) a.length a.length b.length))
    (hstrict : strictAlong (Mf s (cARight g b.length) (cBRight g) a.length) s (cARight g b.length) (cBRight g) 0 0
                (stepsOf [(d : Int), (ov : Int), -(e : Int), 0]) = true) :
    ∃ res c, peAlignExact s g a.length b.length = some res ∧ res.isLeft = false ∧
      columns res.path 0 0 = columns [(d : Int), (ov : Int), -(e : Int), 0] 0 0 ∧
      consensus adj a qa b qb res.path = some c ∧ c.seq = b ++ a.drop ov := by
  have hpa : 0 < a.length := by omega
  have hpb : 0 < b.length := by omega
  have htp : consumes [(d : Int), (ov : Int), -(e : Int), 0] a.length b.length := by
    rw [hla, hlb]; exact consumes_true_right d ov e
  obtain ⟨pl, hl, _, _⟩ := fill_ok s (cALeft g) (cBLeft g a.length) a.length b.length hpa hpb
  obtain ⟨pr, hr, hcr, hsr⟩ := fill_ok s (cARight g b.length) (cBRight g) a.length b.length hpa hpb
  obtain ⟨_, huniq⟩ := errorfree_unique_optimum s (cARight g b.length) (cBRight g) a.length b.length _ htp hstrict
  have hcol := huniq pr hcr (by rw [hsr]; exact fill_optimal_cells s _ _ a.length b.length _ htp)
  obtain ⟨c, hc, hseq⟩ := consensus_true_right adj a qa b qb d ov e hla hlb hqa hqb ha hb herr
  refine ⟨⟨false, Mf s (cARight g b.length) (cBRight g) a.length a.length b.length, pr⟩, c, ?_, rfl, hcol, ?_, hseq⟩
  · unfold peAlignExact fillLeft fillRight
    rw [hl, hr]
    simp only
    rw [if_neg hside]
  · rw [consensus_congr adj a qa b qb pr _ hqa hqb hcr htp hcol]; exact hc

/-- **a closed condition for the uniqueness hypothesis: the overlap is the only thing that matches.**  Every
score table that is positive on the columns of the true diagonal and negative on every other pair of
positions (for the real tables: positive match / negative mismatch scores and no base of A equal to a base of
B off the true diagonal), with a non-positive gap penalty: the true path is strict in the left matrix, hence
(`errorfree_reassembly_left`) the reads are reassembled whenever the left scheme wins. -/
theorem errorfree_single_diagonal_strict (s : Nat → Nat → Int) (g : Int) (d ov e : Nat) (hov : 0 < ov) (hg : g ≤ 0)
    (hpos : ∀ k, k < ov → 0 < s (d + k) k)
    (hneg : ∀ i j, i < d + ov → j < ov + e → i ≠ d + j → s i j < 0) :
    strictAlong (Mf s (cALeft g) (cBLeft g (d + ov)) (d + ov)) s (cALeft g) (cBLeft g (d + ov)) 0 0
      (stepsOf [-(d : Int), (ov : Int), (e : Int), 0]) = true :=
  strictAlong_single_diagonal d ov e hov (isFill_cells s (cALeft g) (cBLeft g (d + ov)) (d + ov) (ov + e))
    (fun j => by unfold cALeft; split <;> omega) (fun i => by unfold cBLeft; split <;> omega)
    (by simp [cALeft]) (by simp [cBLeft]) hpos hneg

/-- end to end under the closed condition -/
theorem errorfree_reassembly_single_diagonal (s : Nat → Nat → Int) (g : Int) (adj : UInt8 → UInt8) (a qa b qb : Bytes)
    (d ov e : Nat) (hov : 0 < ov) (hg : g ≤ 0) (hla : a.length = d + ov) (hlb : b.length = ov + e)
    (hqa : qa.length = a.length) (hqb : qb.length = b.length)
    (ha : ∀ x ∈ a, x ∈ sym15) (hb : ∀ x ∈ b, x ∈ sym15)
    (herr : ∀ k, k < ov → a.getD (d + k) 32 = b.getD k 32)
    (hpos : ∀ k, k < ov → 0 < s (d + k) k)
    (hneg : ∀ i j, i < d + ov → j < ov + e → i ≠ d + j → s i j < 0)
    (hside : Mf s (cARight g b.length) (cBRight g) a.length a.length b.length
              < Mf s (cALeft g) (cBLeft g a.length) a.length a.length b.length) :
    ∃ res c, peAlignExact s g a.length b.length = some res ∧ res.isLeft = true ∧
      consensus adj a qa b qb res.path = some c ∧ c.seq = a ++ b.drop ov := by
  have hstrict := errorfree_single_diagonal_strict s g d ov e hov hg hpos hneg
  rw [← hla] at hstrict
  obtain ⟨res, c, h1, h2, _, h4, h5⟩ :=
    errorfree_reassembly_left s g adj a qa b qb d ov e hov hla hlb hqa hqb ha hb herr hside hstrict
  exact ⟨res, c, h1, h2, h4, h5⟩

/-- the weaker condition "the overlap occurs once" (no other offset gives a full-length exact match) is NOT
sufficient for tables with positive match / negative mismatch scores: `ctga` / `atgg` cut from `ctgatgg`
(true overlap `a`, path `[-3,1,3,0]`, score 5 with match +5, mismatch −1, gap −3; no other offset aligns the
two reads without a mismatch) are aligned base to base (`t/t`, `g/g`: score 8) — concrete refutation on the model -/
theorem errorfree_overlap_once_insufficient :
    let a : List Nat := [2, 4, 3, 1]
    let b : List Nat := [1, 4, 3, 3]
    let s := fun i j => if a.getD i 0 = b.getD j 9 then (5 : Int) else -1
    consumes [-3, 1, 3, 0] 4 4 ∧ scoreOf s (cALeft (-3)) (cBLeft (-3) 4) [-3, 1, 3, 0] = 5 ∧
    (peAlignExact s (-3) 4 4).map (fun r => (r.score, r.path)) = some (8, [0, 4]) := by decide

/-- non-vacuity of the hypotheses of `errorfree_reassembly_left` (test on one input): `gac` / `acc` cut from
`gacc`, match +2 / mismatch −1, gap −3: the left scheme wins and the true path `[-1,2,1,0]` is strict -/
example :
    let a : List Nat := [3, 1, 2]
    let b : List Nat := [1, 2, 2]
    let s := fun i j => if a.getD i 0 = b.getD j 9 then (2 : Int) else -1
    Mf s (cARight (-3) 3) (cBRight (-3)) 3 3 3 < Mf s (cALeft (-3)) (cBLeft (-3) 3) 3 3 3 ∧
    strictAlong (Mf s (cALeft (-3)) (cBLeft (-3) 3) 3) s (cALeft (-3)) (cBLeft (-3) 3) 0 0 (stepsOf [-1, 2, 1, 0]) = true := by
  decide

/-! ### the quality written in every column -/

/-- **the quality row and the match count, column by column, about the original reads**: column `k` holds
`colQual` of the (base, quality) the path shows there for A and for B, in the `(qM, qm)` state left by the
first `k` columns (`qState`; since `C08-consensus-quality-column` that state is irrelevant, see
`consensus_quality_column_local`);
`seq_ab_match` counts the columns with the same symbol and two positive qualities. -/
theorem consensus_quality_columns (adj : UInt8 → UInt8) (a qa b qb : Bytes) (p : List Int)
    (hqa : qa.length = a.length) (hqb : qb.length = b.length) (hp : consumes p a.length b.length) :
    ∃ c, consensus adj a qa b qb p = some c ∧
      c.nmatch = colMatches a qa b qb (columns p 0 0) ∧
      ∀ k, k < ncols p →
        c.qual.getD k 0 =
          colQual adj (qState qa qb (0, 0) ((columns p 0 0).take k))
            (cellOf a 32 ((columns p 0 0).getD k (none, none)).1) (cellOf qa 0 ((columns p 0 0).getD k (none, none)).1)
            (cellOf b 32 ((columns p 0 0).getD k (none, none)).2) (cellOf qb 0 ((columns p 0 0).getD k (none, none)).2) := by
  obtain ⟨c, hc, hq, hm⟩ := consensus_qual adj a qa b qb p hqa hqb hp
  refine ⟨c, hc, hm, fun k hk => ?_⟩
  rw [hq]
  exact colQuals_getD adj a qa b qb _ _ k (by rw [columns_length p 0 0 hp.1]; exact hk)

/-- **the column rule for the quality** (byte arithmetic, every `adj`): a gap — or a quality-0 base — on one
side gives the other side's quality capped at 90; a match gives the sum capped at 90; a mismatch with
different qualities gives `max − adj(min)` capped at 90; a mismatch at EQUAL qualities gives `q − adj(q)` of
the column's own quality (third round, `C08-consensus-quality-column`: the unpatched code wrote
`qM − adj(qm)` of an EARLIER column there — `qM`/`qm` were only assigned when the two qualities differ — so
the quality of a column depended on other columns; shown on the real code by the oracle `cons.qual-local`,
witness `cons 61636774 28282828 61746774 28282828 2,2,-2,0` in the corpus). -/
theorem quality_rules (adj : UInt8 → UInt8) (st : UInt8 × UInt8) (nA qA nB qB : UInt8) :
    colQual adj st nA qA nB 0 = cap90 qA ∧ colQual adj st nA 0 nB qB = cap90 qB ∧
    colQual adj st nA qA nA qB = cap90 (qA + qB) ∧
    (qA > 0 → qB > 0 → nA ≠ nB → qA > qB → colQual adj st nA qA nB qB = cap90 (qA - adj qB)) ∧
    (qA > 0 → qB > 0 → nA ≠ nB → qB > qA → colQual adj st nA qA nB qB = cap90 (qB - adj qA)) ∧
    (qA > 0 → nA ≠ nB → colQual adj st nA qA nB qA = cap90 (qA - adj qA)) :=
  ⟨colQual_gapB adj st nA qA nB, colQual_gapA adj st nA nB qB, colQual_match adj st nA qA qB,
   fun hA hB hn h => (colQual_mismatch adj st nA qA nB qB hA hB hn).1 h,
   fun hA hB hn h => (colQual_mismatch adj st nA qA nB qB hA hB hn).2 h,
   fun hA hn => colQual_tie adj st nA nB qA hA hn⟩

/-- **one quality per column, a function of that column** (third round): column `k` of the quality row is
`colQual` of the (base, quality) of A and of B that the path shows in column `k` — and of nothing else: not of
the other columns, not of the position, not of a previous pair (`colQual … (0, 0)`: the `(qM, qm)` handed to
the column is irrelevant, `colQual_local`). -/
theorem consensus_quality_column_local (adj : UInt8 → UInt8) (a qa b qb : Bytes) (p : List Int)
    (hqa : qa.length = a.length) (hqb : qb.length = b.length) (hp : consumes p a.length b.length) :
    ∃ c, consensus adj a qa b qb p = some c ∧
      ∀ k, k < ncols p →
        c.qual.getD k 0 =
          colQual adj (0, 0)
            (cellOf a 32 ((columns p 0 0).getD k (none, none)).1) (cellOf qa 0 ((columns p 0 0).getD k (none, none)).1)
            (cellOf b 32 ((columns p 0 0).getD k (none, none)).2) (cellOf qb 0 ((columns p 0 0).getD k (none, none)).2) := by
  obtain ⟨c, hc, _, hq⟩ := consensus_quality_columns adj a qa b qb p hqa hqb hp
  exact ⟨c, hc, fun k hk => by rw [hq k hk]; exact colQual_local adj _ _ _ _ _ _⟩

/-- **exact integer values with the real tables** (`adjAmd64`, the literal the driver requires the harness
data to equal): match → `min 90 (qA + qB)`; mismatch → `min 90 (qM + mmBonus qm)` with
`mmBonus = 0,10,7,6,5,4,3,3,2,2,2,1,…,1,0,…`: the byte subtraction of a negative correction wraps to an
addition, a mismatch column never gets less than the higher of the two qualities. -/
theorem quality_values (qA qB : UInt8) (hA : qA.toNat ≤ 93) (hB : qB.toNat ≤ 93) :
    (cap90 (qA + qB)).toNat = min 90 (qA.toNat + qB.toNat) ∧
    (cap90 (qA - adjAmd64.getD qB.toNat 0)).toNat = min 90 (qA.toNat + mmBonus.getD qB.toNat 0) ∧
    qA.toNat ≤ qA.toNat + mmBonus.getD qB.toNat 0 :=
  ⟨match_quality_value qA qB (by omega), mismatch_quality_value qA qB hA (by omega), by omega⟩

/-- the tie on a concrete input (test): `aa` / `cc` with qualities 50,20 / 10,20 — the second column is a
mismatch at equal qualities 20 and gets 20 + mmBonus(20) = 20 (unpatched code: 52, the value of the first column) -/
example : (consensus (fun q => adjAmd64.getD q.toNat 0) [97, 97] [50, 20] [99, 99] [10, 20] [0, 2]).map
    (fun c => (c.seq, c.qual)) = some ([97, 109], [52, 20]) := by decide

/-! ### the annotations of the record (obipairing) -/

/-- **join mode**: the record is A, ten dots, B with qualities A, ten zeros, B (one quality per base), and
carries exactly `ali_length`, `mode=join`, `score`, `score_norm`, `seq_ab_match` -/
theorem join_record (fast : Bool) (v : Vote) (ovr : Int) (a qa b qb : Bytes) (minOverlap idn idd : Nat)
    (r : PERes) (c : Cons) (mm : List (String × Nat)) (hqa : qa.length = a.length) (hqb : qb.length = b.length)
    (hj : (assemble a qa b qb minOverlap idn idd r c).alignment = false) :
    let out := assemble a qa b qb minOverlap idn idd r c
    out.seq = a ++ List.replicate 10 46 ++ b ∧ out.qual = qa ++ List.replicate 10 0 ++ qb ∧
    out.seq.length = a.length + 10 + b.length ∧ out.qual.length = out.seq.length ∧
    (annotEntries fast v ovr out mm).map (·.1) = ["ali_length", "mode", "score", "score_norm", "seq_ab_match"] ∧
    ("mode", "join") ∈ annotEntries fast v ovr out mm := by
  have hs := (stats_consistent a qa b qb minOverlap idn idd r c).2.2.2.2.2 hj
  have ha := annot_join fast v ovr a qa b qb minOverlap idn idd r c mm hj
  refine ⟨hs.1, hs.2, by rw [hs.1]; simp; omega, by rw [hs.1, hs.2]; simp [hqa, hqb], ha.1, ha.2⟩

/-- **alignment mode**: the annotation keys -/
theorem alignment_annotations (fast : Bool) (v : Vote) (ovr : Int) (a qa b qb : Bytes) (minOverlap idn idd : Nat)
    (r : PERes) (c : Cons) (mm : List (String × Nat))
    (hj : (assemble a qa b qb minOverlap idn idd r c).alignment = true) :
    (annotEntries fast v ovr (assemble a qa b qb minOverlap idn idd r c) mm).map (·.1) =
      ["ali_dir", "ali_length", "mode"] ++ (if mm.isEmpty then [] else ["pairing_mismatches"]) ++
      (if fast then ["paring_fast_count", "paring_fast_overlap", "paring_fast_score"] else []) ++
      ["score", "score_norm", "seq_a_single", "seq_ab_match", "seq_b_single"] :=
  (annot_alignment fast v ovr a qa b qb minOverlap idn idd r c mm hj).1

/-- `score_norm` / `paring_fast_score` printed as thousandths: the integer nearest to `1000·num/den`, never
on a rounding boundary (where the model prints `~` instead) -/
theorem ratio_rounding_exact (num den k : Int) (hd : 0 < den) (h : thousandths num den = some k) :
    2 * den * k ≤ 2000 * num + den ∧ 2000 * num + den < 2 * den * k + 2 * den ∧ 2000 * num - den ≠ 2 * den * (k - 1) :=
  thousandths_spec num den k hd h

/-! ## third deepening round -/

/-! ### fast mode: history independence of everything one worker reuses from pair to pair -/

/-- **`Index4mer` on a reused index** (seeded/C08-m1 was a stale index): whatever the 256 position lists held
(the 4-mers of the previous forward read), after the call cell `c` holds exactly the positions of code `c` in the
new read, and the counting loop of `FastShiftFourMer` over these lists computes `shiftCounts` of the two reads;
with the `shifts` map empty at entry the vote is `fastShift` and the map is empty again at exit. -/
theorem index_history_independent (rel : Bool) (a b : Bytes) (idx0 : FIndex) :
    (∀ c, c < 256 → (index4mer idx0 (encode4mer a)).getD c [] = fa_posList c 0 (encode4mer a)) ∧
    shiftCountsIdx (index4mer idx0 (encode4mer a)) (encode4mer b) [] = shiftCounts (encode4mer a) (encode4mer b) ∧
    fastShiftIdx rel a.length b.length (index4mer idx0 (encode4mer a)) (encode4mer b) [] = (fastShift rel a b, []) :=
  ⟨fun c hc => index4mer_getD idx0 _ c hc, shiftCountsIdx_eq idx0 _ _, fastShiftIdx_eq rel a b idx0⟩

/-- **the path slice of fast mode** (was: "the buffer is not modelled there, only the returned path").  The two
extension statements `path[0] += extra5` / `append([]int{extra5,0}, path...)` and `path[len-2] += extra3` /
`append(path, extra3, 0)`, executed through the slice — a window of the arena buffer (`(*path)[p:cap]` after
`_Backtracking`, `append(arena.path[:0], 0, partLen)` in the identical-overlap branch, with the in-place
`append` when four cells are available) or a fresh array — give `extend3 (extend5 …)` of the slice content, for
every buffer; no index is out of range; the buffer keeps its length. -/
theorem fast_path_slice (e5 e3 : Int) (buf : List Int) (pl : PLoc) (h : fa_wf buf pl) (hl : 2 ≤ plLen pl) :
    ∃ buf' pl', extendC e5 e3 buf pl = some (buf', pl') ∧
      plList buf' pl' = extend3 e3 (extend5 e5 (plList buf pl)) ∧ buf'.length = buf.length :=
  extendC_spec e5 e3 buf pl h hl

/-- **fast mode is history independent** (like C09's `fastLCS_history_independent`): `PEAlign` in fast mode on
the whole state of a worker — 4-mer index left by ANY previous forward read, flat score / path matrices and
path buffer of ANY size and content, `shifts` map empty as every call leaves it — returns the result of the
recurrence level (`peAlignFastFrom` on the vote `fastShift`), hence the same result for any two histories; all
fast-mode theorems (`fast_path_consumes`, `fast_score_is_path`, `pealign_fast`) are about this function, which
is what the driver executes for op `fa`. -/
theorem fast_history_independent (s : Nat → Nat → Int) (g : Int) (rel : Bool) (a b : Bytes) (delta : Nat)
    (ar ar' : Arena) (idx idx' : FIndex) (ha : 0 < a.length) (hb : 0 < b.length) :
    (peAlignFastC s g rel a b delta ⟨ar, idx, []⟩).map (fun o => (o.res, o.vote, o.shifts)) =
      (peAlignFastFrom s g a.length b.length delta (fastShift rel a b).shift (fastShift rel a b).count).map
        (fun r => (r, fastShift rel a b, [])) ∧
    (peAlignFastC s g rel a b delta ⟨ar, idx, []⟩).map (fun o => (o.res, o.vote, o.shifts)) =
      (peAlignFastC s g rel a b delta ⟨ar', idx', []⟩).map (fun o => (o.res, o.vote, o.shifts)) := by
  have h1 := peAlignFastC_eq s g rel a b delta ar idx ha hb
  have h2 := peAlignFastC_eq s g rel a b delta ar' idx' ha hb
  exact ⟨h1, by rw [h1, h2]⟩

/-- tests on sample inputs: the identical-overlap path `[0, 6]` at the start of a 5-cell buffer full of stale
values, 2 bases of A in front and 2 of B behind: built in place in cells 0..3; in a 3-cell buffer the second
`append` reallocates; a window at the END of the buffer (after `_Backtracking`) with the other gap in front:
`append([]int{extra5, 0}, path...)` leaves the buffer alone -/
example : extendC (-2) 2 [0, 6, 4242, 4242, 4242] (.arena 0 2) = some ([-2, 6, 2, 0, 4242], .arena 0 4) := by decide
example : extendC (-2) 2 [0, 6, 4242] (.arena 0 2) = some ([-2, 6, 4242], .fresh [-2, 6, 2, 0]) := by decide
example : extendC (-3) 0 [7, 7, 1, 4] (.arena 2 2) = some ([7, 7, 1, 4], .fresh [-3, 0, 1, 4, 0, 0]) := by decide

/-! ### error-free reassembly: the B-first geometry and which scheme wins -/

/-- **the closed condition, B first / right scheme** (was: A-first geometry / left scheme only).  `b = X ++ O`,
`a = O ++ Y`: a table positive on the true diagonal `(k, d+k)` and negative on every other pair of positions, gap
penalty ≤ 0, makes the true path `[d, ov, -e, 0]` strict in the RIGHT matrix (by transposition of
`errorfree_single_diagonal_strict`: `isFill_transpose`, `strictAlong_transpose`). -/
theorem errorfree_single_diagonal_strict_right (s : Nat → Nat → Int) (g : Int) (d ov e : Nat) (hov : 0 < ov) (hg : g ≤ 0)
    (hpos : ∀ k, k < ov → 0 < s k (d + k))
    (hneg : ∀ i j, i < ov + e → j < d + ov → j ≠ d + i → s i j < 0) :
    strictAlong (Mf s (cARight g (d + ov)) (cBRight g) (ov + e)) s (cARight g (d + ov)) (cBRight g) 0 0
      (stepsOf [(d : Int), (ov : Int), -(e : Int), 0]) = true :=
  strictAlong_single_diagonal_right d ov e hov (isFill_cells s (cARight g (d + ov)) (cBRight g) (ov + e) (d + ov))
    (fun j => by unfold cARight; split <;> omega) (fun i => by unfold cBRight; split <;> omega)
    (by simp [cBRight]) (by simp [cARight]) hpos hneg

/-- **which scheme wins under the closed condition** (was: hypothesis `hside`).  A first (`d` bases of A before
B starts, `e` bases of B after A ended), gap penalty < 0 and `d > 0 ∨ e > 0`: the right optimum is STRICTLY below
the left optimum, so exact mode keeps the left alignment.  B first: the left optimum never exceeds the right
one, so exact mode keeps the right alignment (`scoreL > scoreR` is false). -/
theorem errorfree_which_scheme_wins (s : Nat → Nat → Int) (g : Int) (d ov e : Nat) (hov : 0 < ov) :
    (g < 0 → (0 < d ∨ 0 < e) →
      (∀ k, k < ov → 0 < s (d + k) k) → (∀ i j, i < d + ov → j < ov + e → i ≠ d + j → s i j < 0) →
      Mf s (cARight g (ov + e)) (cBRight g) (d + ov) (d + ov) (ov + e)
        < Mf s (cALeft g) (cBLeft g (d + ov)) (d + ov) (d + ov) (ov + e)) ∧
    (g ≤ 0 →
      (∀ k, k < ov → 0 < s k (d + k)) → (∀ i j, i < ov + e → j < d + ov → j ≠ d + i → s i j < 0) →
      Mf s (cALeft g) (cBLeft g (ov + e)) (ov + e) (ov + e) (d + ov)
        ≤ Mf s (cARight g (d + ov)) (cBRight g) (ov + e) (ov + e) (d + ov)) :=
  ⟨fun hg hde hpos hneg => right_lt_left_single_diagonal s g d ov e hov hg hde hpos hneg,
   fun hg hpos hneg => left_le_right_single_diagonal s g d ov e hov hg hpos hneg⟩

/-- **error-free reassembly under the closed condition, B first, end to end, no side hypothesis**: exact mode
returns a right alignment and `BuildQualityConsensus` along the returned path spells the fragment `X ++ O ++ Y` -/
theorem errorfree_reassembly_closed_right (s : Nat → Nat → Int) (g : Int) (adj : UInt8 → UInt8) (a qa b qb : Bytes)
    (d ov e : Nat) (hov : 0 < ov) (hg : g ≤ 0) (hla : a.length = ov + e) (hlb : b.length = d + ov)
    (hqa : qa.length = a.length) (hqb : qb.length = b.length)
    (ha : ∀ x ∈ a, x ∈ sym15) (hb : ∀ x ∈ b, x ∈ sym15)
    (herr : ∀ k, k < ov → a.getD k 32 = b.getD (d + k) 32)
    (hpos : ∀ k, k < ov → 0 < s k (d + k))
    (hneg : ∀ i j, i < ov + e → j < d + ov → j ≠ d + i → s i j < 0) :
    ∃ res c, peAlignExact s g a.length b.length = some res ∧ res.isLeft = false ∧
      consensus adj a qa b qb res.path = some c ∧ c.seq = b ++ a.drop ov := by
  have hstrict := errorfree_single_diagonal_strict_right s g d ov e hov hg hpos hneg
  have hside := left_le_right_single_diagonal s g d ov e hov hg hpos hneg
  rw [← hla, ← hlb] at hstrict hside
  obtain ⟨res, c, h1, h2, _, h4, h5⟩ :=
    errorfree_reassembly_right s g adj a qa b qb d ov e hov hla hlb hqa hqb ha hb herr (by omega) hstrict
  exact ⟨res, c, h1, h2, h4, h5⟩

/-- **error-free reassembly under the closed condition, A first, end to end, no side hypothesis** (gap penalty
< 0).  With an overhang (`d > 0 ∨ e > 0`) the left scheme wins strictly; without (`d = e = 0`: the reads are the
same stretch) the geometry is also "B first" and the right alignment is kept: in both cases the consensus along
the returned path is the fragment `a ++ b.drop ov`. -/
theorem errorfree_reassembly_closed_left (s : Nat → Nat → Int) (g : Int) (adj : UInt8 → UInt8) (a qa b qb : Bytes)
    (d ov e : Nat) (hov : 0 < ov) (hg : g < 0) (hla : a.length = d + ov) (hlb : b.length = ov + e)
    (hqa : qa.length = a.length) (hqb : qb.length = b.length)
    (ha : ∀ x ∈ a, x ∈ sym15) (hb : ∀ x ∈ b, x ∈ sym15)
    (herr : ∀ k, k < ov → a.getD (d + k) 32 = b.getD k 32)
    (hpos : ∀ k, k < ov → 0 < s (d + k) k)
    (hneg : ∀ i j, i < d + ov → j < ov + e → i ≠ d + j → s i j < 0) :
    ∃ res c, peAlignExact s g a.length b.length = some res ∧ res.isLeft = decide (0 < d ∨ 0 < e) ∧
      consensus adj a qa b qb res.path = some c ∧ c.seq = a ++ b.drop ov := by
  by_cases hde : 0 < d ∨ 0 < e
  · have hside := right_lt_left_single_diagonal s g d ov e hov hg hde hpos hneg
    rw [← hla, ← hlb] at hside
    obtain ⟨res, c, h1, h2, h4, h5⟩ :=
      errorfree_reassembly_single_diagonal s g adj a qa b qb d ov e hov (by omega) hla hlb hqa hqb ha hb herr hpos hneg hside
    exact ⟨res, c, h1, by rw [h2]; simp [hde], h4, h5⟩
  · have hd : d = 0 := by omega
    have he : e = 0 := by omega
    subst hd he
    have hla' : a.length = ov + 0 := by omega
    have hlb' : b.length = 0 + ov := by omega
    obtain ⟨res, c, h1, h2, h4, h5⟩ :=
      errorfree_reassembly_closed_right s g adj a qa b qb 0 ov 0 hov (by omega) hla' hlb' hqa hqb ha hb
        (fun k hk => by have := herr k hk; simpa using this)
        (fun k hk => by have := hpos k hk; simpa using this)
        (fun i j hi hj hij => hneg i j (by omega) (by omega) (by omega))
    refine ⟨res, c, h1, by rw [h2]; simp, h4, ?_⟩
    -- the fragment: b ++ a.drop ov = a ++ b.drop ov when both reads are the same `ov` bases
    rw [h5]
    have e1 : a.drop ov = [] := List.drop_eq_nil_of_le (by omega)
    have e2 : b.drop ov = [] := List.drop_eq_nil_of_le (by omega)
    rw [e1, e2, List.append_nil, List.append_nil]
    apply List.ext_getElem?
    intro k
    by_cases hk : k < ov
    · have := herr k hk
      simp only [Nat.zero_add, List.getD_eq_getElem?_getD] at this
      have h1 : k < a.length := by omega
      have h2 : k < b.length := by omega
      rw [List.getElem?_eq_getElem h1, List.getElem?_eq_getElem h2] at this ⊢
      simpa using this.symm
    · rw [List.getElem?_eq_none (by omega), List.getElem?_eq_none (by omega)]

/-! ### Go `int`: no overflow -/

/-- **the `Int` model is valid for all reads shorter than 2^31** (was: "far from 2^63").  With every column score
and the gap penalty within ±2^20 (the harness checks every score it hands over and the gap penalty against this
bound on every case; the real tables stay below 2^11): every cell of both matrices AND every intermediate value
the Go code holds in an `int` (`diag + score`, `left + gapPenalty`, `top + gapPenalty`) is strictly inside
(−2^62, 2^62) ⊂ int64; in general `|M i j| ≤ (i + j)·B` (`fill_abs_bound`), `|score of a consuming path| ≤
(la + lb)·B` (`scoreOf_abs_bound`), `|diagScore n| ≤ n·B`. -/
theorem int_model_valid (s : Nat → Nat → Int) (g : Int) (la lb : Nat) (hla : la < 2^31) (hlb : lb < 2^31)
    (hs : ∀ i j, i < la → j < lb → -(2^20 : Int) ≤ s i j ∧ s i j ≤ 2^20)
    (hg : -(2^20 : Int) ≤ g ∧ g ≤ 2^20) :
    (bd_NoOverflow s (cALeft g) (cBLeft g la) la lb (Mf s (cALeft g) (cBLeft g la) la) ∧
     bd_NoOverflow s (cARight g lb) (cBRight g) la lb (Mf s (cARight g lb) (cBRight g) la)) ∧
    (∀ r, peAlignExact s g la lb = some r → -(2^62 : Int) < r.score ∧ r.score < 2^62) ∧
    (∀ n i j, n < 2^31 → (∀ k, k < n → -(2^20 : Int) ≤ s (i + k) (j + k) ∧ s (i + k) (j + k) ≤ 2^20) →
      -(2^62 : Int) < diagScore s n i j ∧ diagScore s n i j < 2^62) :=
  ⟨fillLeft_fillRight_no_overflow s g la lb hla hlb hs hg,
   (fill_scores_no_overflow s g la lb hla hlb hs hg).2.2,
   fun n i j hn h => diagScore_no_overflow s n i j hn h⟩

/-- the general bound behind it: `|M i j| ≤ (i + j)·B` for every fill whose scores and costs are within ±B -/
theorem score_abs_bound {s : Nat → Nat → Int} {cA cB : Nat → Int} {la lb : Nat} {M P : Nat → Nat → Int} (B : Int) (hB : 0 ≤ B)
    (hf : IsFill s cA cB la lb M P)
    (hs : ∀ i j, i < la → j < lb → -B ≤ s i j ∧ s i j ≤ B)
    (hcA : ∀ j, -B ≤ cA j ∧ cA j ≤ B) (hcB : ∀ i, -B ≤ cB i ∧ cB i ≤ B) :
    (∀ (j i : Nat), i ≤ la → j ≤ lb → -(((i + j : Nat) : Int) * B) ≤ M i j ∧ M i j ≤ ((i + j : Nat) : Int) * B) ∧
    (∀ p, consumes p la lb →
      -(((la + lb : Nat) : Int) * B) ≤ scoreOf s cA cB p ∧ scoreOf s cA cB p ≤ ((la + lb : Nat) : Int) * B) :=
  ⟨fill_abs_bound B hB hf hs hcA hcB, fun p hp => scoreOf_abs_bound s cA cB la lb B hB hs hcA hcB p hp⟩

/-- non-vacuity (test on one input) of `int_model_valid`: match +2 / mismatch −1, gap −3, reads of 3 bases -/
example : (bd_NoOverflow (fun i j => if i = j then (2 : Int) else -1) (cALeft (-3)) (cBLeft (-3) 3) 3 3
      (Mf (fun i j => if i = j then 2 else -1) (cALeft (-3)) (cBLeft (-3) 3) 3)) :=
  (int_model_valid (fun i j => if i = j then 2 else -1) (-3) 3 3 (by decide) (by decide)
    (fun i j _ _ => by split <;> decide) (by decide)).1.1


/-! ### the `obipairing` command line -/

/-- the defaults of `options.go`: delta 5, min-overlap 20, min-identity 0.9, gap penalty 2.0, scale 1.0,
statistics on, fast mode on, relative 4-mer score -/
theorem cli_defaults :
    cliParse [] {} = some ⟨5, 20, 9, 10, "2.0", "1.0", true, true, true⟩ := rfl

-- which option sets which parameter is tied case by case through the real option parser (op `cl` of the
-- harness: every option alone in both spellings, then random combinations); string parsing does not reduce in
-- the kernel, so no `decide` test here.

/-- **`--fast-absolute` and `--delta` have no action in exact mode** (`options.go`: "no action in exact mode"):
with `--exact-mode` the record and all its annotations are the same for every value of the two options -/
theorem cli_exact_mode_ignores_fast_options (o : CliOpts) (r : Bool) (d : Nat) (s : Nat → Nat → Int) (g : Int)
    (adj : UInt8 → UInt8) (a qa b qb : Bytes) (ar : Arena) :
    cliAssemble { o with fast := false, rel := r, delta := d } s g adj a qa b qb ar =
      cliAssemble { o with fast := false } s g adj a qa b qb ar := by
  simp [cliAssemble]

/-- **assemble or join** at the command level: the record is the consensus (mode `alignment`) exactly when the
aligned length reaches `--min-overlap` and the identity reaches `--min-identity`; otherwise it is A, ten dots,
B (mode `join`); the two thresholds have no other effect (`PEAlign` and the consensus do not see them), and
raising `--min-overlap` can only turn an alignment into a join -/
theorem cli_assemble_or_join (o : CliOpts) (s : Nat → Nat → Int) (g : Int) (adj : UInt8 → UInt8) (a qa b qb : Bytes)
    (ar : Arena) (asm : Assembled) (ann : List (String × String))
    (h : cliAssemble o s g adj a qa b qb ar = some (asm, ann)) :
    ∃ r c, asm = assemble a qa b qb o.minOverlap o.idn o.idd r c ∧
      (asm.alignment = true ↔
        ((c.seq.length : Int) - (endRuns r.path).1.natAbs - (endRuns r.path).2.natAbs ≥ o.minOverlap ∧
         identityOK c.nmatch ((c.seq.length : Int) - (endRuns r.path).1.natAbs - (endRuns r.path).2.natAbs) o.idn o.idd = true)) ∧
      (asm.alignment = false → asm.seq = a ++ List.replicate 10 46 ++ b) ∧
      (∀ mo', o.minOverlap ≤ mo' → (assemble a qa b qb mo' o.idn o.idd r c).alignment = true → asm.alignment = true) := by
  unfold cliAssemble at h
  simp only at h
  split at h
  · rename_i r hr
    split at h
    · rename_i c hc
      simp only [Option.some.injEq, Prod.mk.injEq] at h
      obtain ⟨rfl, _⟩ := h
      have hsc := stats_consistent a qa b qb o.minOverlap o.idn o.idd r c
      simp only at hsc
      refine ⟨r, c, rfl, hsc.2.2.2.1, fun hj => (hsc.2.2.2.2.2 hj).1, ?_⟩
      intro mo' hmo h'
      have hsc' := stats_consistent a qa b qb mo' o.idn o.idd r c
      simp only at hsc'
      have := hsc'.2.2.2.1.mp h'
      exact hsc.2.2.2.1.mpr ⟨by omega, this.2⟩
    · cases h
  · cases h

/-- **`--without-stat`**: the record carries `mode` and, in alignment mode, what `PEAlign` /
`BuildQualityConsensus` wrote on the consensus (`pairing_mismatches`, `paring_fast_*` in fast mode) — no
`score`, `ali_length`, `ali_dir`, `seq_a_single`, `seq_b_single`, `seq_ab_match`, `score_norm` -/
theorem cli_without_stat_keys (fast : Bool) (v : Vote) (ovr : Int) (asm : Assembled) (mm : List (String × Nat)) :
    (annotEntriesS false fast v ovr asm mm).map (·.1) =
      ["mode"] ++ (if asm.alignment ∧ ¬ mm.isEmpty then ["pairing_mismatches"] else []) ++
      (if asm.alignment ∧ fast then ["paring_fast_count", "paring_fast_overlap", "paring_fast_score"] else []) ∧
    annotEntriesS true fast v ovr asm mm = annotEntries fast v ovr asm mm := by
  refine ⟨?_, rfl⟩
  cases hA : asm.alignment <;> cases fast <;> cases hm : mm.isEmpty <;> simp [annotEntriesS, hA, hm]


end ObiVerif.Props.C08
