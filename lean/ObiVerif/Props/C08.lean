import ObiVerif.Lemmas.PEAlign
import ObiVerif.Lemmas.PECons
/-!
# C08 — paired-end assembly: valid path, optimal score, correct consensus (property theorems)

Every theorem quantifies over **all** column scores `s : Nat → Nat → Int` (the float-derived tables of
`dnamatrix.go` are data, DESIGN §3.4), **all** gap penalties `g`, all read lengths.  `left` / `right`
are the two end-gap-free schemes documented in `pairedendalign.go`:

* left  (`cALeft`, `cBLeft`):  a base of A alone is free before B starts, a base of B alone is free after A ended;
* right (`cARight`, `cBRight`): a base of B alone is free before A starts, a base of A alone is free after B ended;

everything else costs `g`.  `Align.scoreOf s cA cB p` recomputes the score of a run-length path `p`
column by column, `Align.consumes p la lb` says that `p` is a list of (indel, diag ≥ 0) pairs using
exactly `la` bases of A and `lb` bases of B.
-/
namespace ObiVerif.Props.C08
open ObiVerif.PEAlign ObiVerif.Align

/-! ## one fill and its backtracking (both schemes are instances of `fill`) -/

/-- `_Backtracking` on the matrices of any fill never reads outside them, terminates, and returns a
path that consumes both reads exactly — for every score function, every pair of indel-cost functions,
all non-empty reads. -/
theorem backtrack_consumes (s : Nat → Nat → Int) (cA cB : Nat → Int) (la lb : Nat) (hla : 0 < la) (hlb : 0 < lb) :
    ∃ r, fill s cA cB la lb = some r ∧ consumes r.path la lb := by
  obtain ⟨p, h, hc, _⟩ := fill_ok s cA cB la lb hla hlb
  exact ⟨_, h, hc⟩

/-- the score returned by a fill (corner of the score matrix) is the score recomputed along the
backtracked path under the same scheme -/
theorem fill_score_is_path (s : Nat → Nat → Int) (cA cB : Nat → Int) (la lb : Nat) (hla : 0 < la) (hlb : 0 < lb) :
    ∃ r, fill s cA cB la lb = some r ∧ r.score = scoreOf s cA cB r.path := by
  obtain ⟨p, h, _, hs⟩ := fill_ok s cA cB la lb hla hlb
  exact ⟨_, h, hs.symm⟩

/-- no path consuming both reads scores higher than the fill: the fill is the optimum of the scheme -/
theorem fill_optimal (s : Nat → Nat → Int) (cA cB : Nat → Int) (la lb : Nat) (hla : 0 < la) (hlb : 0 < lb) :
    ∃ r, fill s cA cB la lb = some r ∧ ∀ p, consumes p la lb → scoreOf s cA cB p ≤ r.score := by
  obtain ⟨p, h, _, _⟩ := fill_ok s cA cB la lb hla hlb
  exact ⟨_, h, fun q hq => fill_optimal_cells s cA cB la lb q hq⟩

/-- an empty read is a panic of the Go fills (`seqA[la-1]`), kept as an explicit outcome -/
theorem fill_empty (s : Nat → Nat → Int) (cA cB : Nat → Int) (lb : Nat) : fill s cA cB 0 lb = none := by
  simp [fill]

/-! ## `PEAlign`, exact mode -/

/-- Exact mode returns the better of the two schemes (left only when strictly better), with **its**
score (D11: the unpatched code returned 0) and **its** path; that path consumes both reads, its
recomputed score under its own scheme is the reported score, and no consuming path scores higher under
either scheme. -/
theorem pealign_exact (s : Nat → Nat → Int) (g : Int) (la lb : Nat) (hla : 0 < la) (hlb : 0 < lb) :
    ∃ l r, fillLeft s g la lb = some l ∧ fillRight s g la lb = some r ∧
      peAlignExact s g la lb =
        some (if l.score > r.score then ⟨true, l.score, l.path⟩ else ⟨false, r.score, r.path⟩) ∧
      ∃ res, peAlignExact s g la lb = some res ∧
        consumes res.path la lb ∧
        res.score = (if res.isLeft then scoreOf s (cALeft g) (cBLeft g la) res.path
                     else scoreOf s (cARight g lb) (cBRight g) res.path) ∧
        (∀ p, consumes p la lb → scoreOf s (cALeft g) (cBLeft g la) p ≤ res.score) ∧
        (∀ p, consumes p la lb → scoreOf s (cARight g lb) (cBRight g) p ≤ res.score) := by
  obtain ⟨pl, hl, hcl, hsl⟩ := fill_ok s (cALeft g) (cBLeft g la) la lb hla hlb
  obtain ⟨pr, hr, hcr, hsr⟩ := fill_ok s (cARight g lb) (cBRight g) la lb hla hlb
  have optl := fill_optimal_cells s (cALeft g) (cBLeft g la) la lb
  have optr := fill_optimal_cells s (cARight g lb) (cBRight g) la lb
  refine ⟨_, _, hl, hr, ?_, ?_⟩
  · unfold peAlignExact fillLeft fillRight
    rw [hl, hr]
    simp only
    split <;> rfl
  · unfold peAlignExact fillLeft fillRight
    rw [hl, hr]
    simp only
    by_cases hgt : Mf s (cALeft g) (cBLeft g la) la la lb > Mf s (cARight g lb) (cBRight g) la la lb
    · refine ⟨⟨true, Mf s (cALeft g) (cBLeft g la) la la lb, pl⟩, by rw [if_pos hgt], hcl, ?_,
        fun p hp => optl p hp, fun p hp => ?_⟩
      · show Mf s (cALeft g) (cBLeft g la) la la lb = scoreOf s (cALeft g) (cBLeft g la) pl
        exact hsl.symm
      · have := optr p hp
        show scoreOf s (cARight g lb) (cBRight g) p ≤ Mf s (cALeft g) (cBLeft g la) la la lb
        omega
    · refine ⟨⟨false, Mf s (cARight g lb) (cBRight g) la la lb, pr⟩, by rw [if_neg hgt], hcr, ?_,
        fun p hp => ?_, fun p hp => optr p hp⟩
      · show Mf s (cARight g lb) (cBRight g) la la lb = scoreOf s (cARight g lb) (cBRight g) pr
        exact hsr.symm
      · have := optl p hp
        show scoreOf s (cALeft g) (cBLeft g la) p ≤ Mf s (cARight g lb) (cBRight g) la la lb
        omega

/-- non-vacuity (test on one input): two reads of 3 bases, match +2 / mismatch −1, gap −3 -/
example :
    let s := fun i j => if (([1, 2, 3] : List Nat).getD i 0) = (([2, 3, 4] : List Nat).getD j 9) then (2 : Int) else -1
    peAlignExact s (-3) 3 3 = some ⟨true, 4, [-1, 2, 1, 0]⟩ := by decide

/-! ## `PEAlign`, fast mode -/

/-- what every result of the 4-mer vote satisfies: the diagonal crosses both reads, and a diagonal
with `count` matching 4-mers is at least `count + 3` long in both reads -/
def VoteInRange (la lb : Nat) (shift count : Int) : Prop :=
  -(lb : Int) < shift ∧ shift < la ∧ (1 ≤ count → count + 3 ≤ la ∧ count + 3 ≤ lb)

/-- Fast mode (working tree, i.e. with `C08-fast-path-extension` and `C08-fast-no-shared-4mer`): for
**every** vote result in range, every delta, every score table, the returned path consumes both reads
exactly — also when the local alignment starts or ends with a gap in the other read (D12). -/
theorem fast_path_consumes (s : Nat → Nat → Int) (g : Int) (la lb delta : Nat) (shift count : Int)
    (hla : 0 < la) (hlb : 0 < lb) (hv : VoteInRange la lb shift count) :
    ∃ r, peAlignFastFrom s g la lb delta shift count = some r ∧ consumes r.path la lb :=
  fastFrom_consumes s g la lb delta shift count hla hlb hv.1 hv.2.1 hv.2.2

/-- the extension of the **unpatched** code: `path[0] += extra5; if last == 0 {path[len-2] += extra3} else append` -/
def extendUnpatched (extra5 extra3 : Int) : List Int → List Int
  | [] => []
  | p0 :: rest =>
    let p := (p0 + extra5) :: rest
    match p.reverse with
    | last :: prev :: revInit =>
      if last = 0 then ((prev + extra3) :: revInit).reverse ++ [last] else p ++ [extra3, 0]
    | _ => p ++ [extra3, 0]

/-- D12, concrete counterexample for the unpatched rule: a local path that starts with one base of B
alone (`+1`) and three unaligned bases of A in front (`extra5 = -3`): the runs of opposite signs are
summed and two bases of A / one of B are lost.  (The real-code witness is in the harness corpus.) -/
theorem fast_path_consumes_unpatched_false :
    consumes [1, 4] 4 5 ∧ ¬ consumes (extendUnpatched (-3) 0 [1, 4]) 7 5 ∧
    consumes (extend3 0 (extend5 (-3) [1, 4])) 7 5 := by decide

example : VoteInRange 40 40 20 7 := by unfold VoteInRange; omega

/-! ## consensus -/

/-- `BuildQualityConsensus` on a path that consumes both reads: no panic; the two gapped rows, the
consensus sequence and the consensus qualities all have exactly one entry per path column; the base
of column `k` is `consBase` of that column of the gapped rows (bases with gap ' ', qualities with gap
0), independently of the float-derived quality adjustment `adj`. -/
theorem consensus_columns (adj : UInt8 → UInt8) (a qa b qb : Bytes) (p : List Int)
    (hqa : qa.length = a.length) (hqb : qb.length = b.length) (hp : consumes p a.length b.length) :
    ∃ sA sB qA qB c,
      buildAlignment a b 32 p 0 0 = some (sA, sB) ∧ buildAlignment qa qb 0 p 0 0 = some (qA, qB) ∧
      consensus adj a qa b qb p = some c ∧
      sA.length = ncols p ∧ sB.length = ncols p ∧ qA.length = ncols p ∧ qB.length = ncols p ∧
      c.seq.length = ncols p ∧ c.qual.length = ncols p ∧
      ∀ k, k < ncols p → c.seq.getD k 0 = consBase (sA.getD k 0) (qA.getD k 0) (sB.getD k 0) (qB.getD k 0) := by
  obtain ⟨hw, hA, hB⟩ := hp
  obtain ⟨sA, sB, h1, l1, l2⟩ := buildAlignment_ok a b 32 p 0 0 hw (by omega) (by omega)
  obtain ⟨qA, qB, h2, l3, l4⟩ := buildAlignment_ok qa qb 0 p 0 0 hw (by omega) (by omega)
  obtain ⟨c1, c2, c3⟩ := consLoop_spec adj sA sB qA qB 0 0 (by omega) (by omega) (by omega)
  refine ⟨sA, sB, qA, qB, ⟨(consLoop adj 0 0 sA sB qA qB).1, (consLoop adj 0 0 sA sB qA qB).2.1,
    (consLoop adj 0 0 sA sB qA qB).2.2⟩, h1, h2, by simp only [consensus, h1, h2], l1, l2, l3, l4,
    by simpa [l1] using c1, by simpa [l1] using c2, ?_⟩
  intro k hk
  exact c3 k (by omega)

/-- the column rule: the base with the strictly higher quality wins; equal qualities and equal bases
keep the base; equal qualities and different bases give the IUPAC symbol of the union of the two
4-bit codes (`_FourBitsBaseCode` / `_FourBitsBaseDecode`, regenerated from the source) -/
theorem consensus_higher_quality_wins (nA qA nB qB : UInt8) :
    (qA > qB → consBase nA qA nB qB = nA) ∧
    (qB > qA → consBase nA qA nB qB = nB) ∧
    (qA = qB → nA = nB → consBase nA qA nB qB = nA) ∧
    (qA = qB → nA ≠ nB → consBase nA qA nB qB =
      UInt8.ofNat (Gen.fourBitsBaseDecode.getD (fourCode nA ||| fourCode nB) 0)) :=
  consBase_rule nA qA nB qB

/-- a gap column (' ' with quality 0) against a real base always yields the real base when that base
is one of the 15 IUPAC nucleotide symbols in lower case — decided over the whole table -/
theorem consensus_gap_column :
    ∀ n ∈ ("acgtrymkswbdhvn".toList.map (fun c => UInt8.ofNat c.toNat)), ∀ q : UInt8,
      consBase 32 0 n q = n ∧ consBase n q 32 0 = n := by
  intro n hn q
  have hdec : ∀ n ∈ ("acgtrymkswbdhvn".toList.map (fun c => UInt8.ofNat c.toNat)),
      UInt8.ofNat (Gen.fourBitsBaseDecode.getD (fourCode 32 ||| fourCode n) 0) = n ∧
      UInt8.ofNat (Gen.fourBitsBaseDecode.getD (fourCode n ||| fourCode 32) 0) = n ∧ n ≠ 32 := by decide
  obtain ⟨d1, d2, d3⟩ := hdec n hn
  unfold consBase
  by_cases hq : q > 0
  · have h1 : ¬ ((0 : UInt8) > q) := by
      simp only [gt_iff_lt, UInt8.lt_iff_toNat_lt] at hq ⊢; omega
    have h2 : ¬ ((0 : UInt8) = q) := by
      intro e; subst e; simp only [gt_iff_lt, UInt8.lt_iff_toNat_lt] at hq; omega
    simp [hq, h1, h2]
  · have hq0 : q = 0 := by
      simp only [gt_iff_lt, UInt8.lt_iff_toNat_lt, UInt8.toNat_zero] at hq
      exact UInt8.toNat_inj.mp (by simp; omega)
    subst hq0
    have h1 : ¬ ((0 : UInt8) > 0) := by decide
    simp only [h1, if_false, true_and]
    have e1 : (32 : UInt8) ≠ n := fun e => d3 e.symm
    simp only [List.getD_eq_getElem?_getD] at d1 d2
    simp [e1, d3, d1, d2]

/-! ## statistics of `AssemblePESequences` -/

/-- ali_length + seq_a_single + seq_b_single is the length of the returned sequence in alignment mode
(with `C08-single-side`: the two counts are taken from the sign of the end runs), the mode is
`alignment` exactly when both thresholds hold, and in join mode the record is A, ten dots, B. -/
theorem stats_consistent (a qa b qb : Bytes) (minOverlap idn idd : Nat) (r : PERes) (c : Cons) :
    let out := assemble a qa b qb minOverlap idn idd r c
    let ali : Int := (c.seq.length : Int) - (endRuns r.path).1.natAbs - (endRuns r.path).2.natAbs
    out.aliLength = ali ∧ out.nmatch = c.nmatch ∧ out.score = r.score ∧
    (out.alignment = true ↔ (ali ≥ minOverlap ∧ identityOK c.nmatch ali idn idd = true)) ∧
    (out.alignment = true → out.seq = c.seq ∧ out.qual = c.qual ∧ out.dirLeft = some r.isLeft ∧
      ∃ aS bS, out.aSingle = some aS ∧ out.bSingle = some bS ∧ 0 ≤ aS ∧ 0 ≤ bS ∧
        out.aliLength + aS + bS = (out.seq.length : Int) ∧
        aS = (if (endRuns r.path).1 < 0 then ((endRuns r.path).1.natAbs : Int) else 0)
              + (if (endRuns r.path).2 < 0 then ((endRuns r.path).2.natAbs : Int) else 0)) ∧
    (out.alignment = false → out.seq = a ++ List.replicate 10 46 ++ b ∧
      out.qual = qa ++ List.replicate 10 0 ++ qb) := by
  simp only [assemble]
  by_cases h : (c.seq.length : Int) - (endRuns r.path).1.natAbs - (endRuns r.path).2.natAbs ≥ minOverlap ∧
      identityOK c.nmatch ((c.seq.length : Int) - (endRuns r.path).1.natAbs - (endRuns r.path).2.natAbs) idn idd = true
  · simp only [h, and_self, if_true, true_and, forall_const, Bool.true_eq_false, false_implies, and_true]
    refine ⟨_, _, rfl, rfl, ?_, ?_, ?_, rfl⟩
    · split <;> split <;> omega
    · split <;> split <;> omega
    · split <;> split <;> omega
  · simp only [h, if_false, Bool.false_eq_true, false_implies, forall_const, and_self]

/-- non-vacuity (tests on sample inputs): the consensus of `acgt`/`cgac` along `[-1,3,1,0]` (t/a at equal quality gives `w`) -/
example : (consensus (fun _ => 0) [97, 99, 103, 116] [40, 40, 30, 40] [99, 103, 97, 99] [40, 40, 40, 40] [-1, 3, 1, 0]).map
    (fun c => (c.seq, c.qual, c.nmatch)) = some ([97, 99, 103, 119, 99], [40, 80, 70, 40, 40], 2) := by decide

/-! ## error-free reassembly (partial) -/

/-- Full claim of the property: two error-free reads overlapping by at least the minimum overlap are
reassembled into the fragment.  It is false as stated (repeats: several diagonals tie; one read strictly
inside the other: neither scheme has both overhangs of the same read free — both observed on the real
code, see the `reassembly.*-containment` finding).  What is proved, for every score table: the exact
alignment scores at least as much as **any** consuming path `tp` (in particular the true overlap path)
under both schemes, and if `tp` is the only consuming path reaching the score of `tp` under the scheme
that was kept, the returned path **is** `tp`.  (That the consensus along the true path of identical
columns spells the fragment is checked by the oracle only.) -/
theorem errorfree_reassembly_partial (s : Nat → Nat → Int) (g : Int) (la lb : Nat) (hla : 0 < la) (hlb : 0 < lb)
    (tp : List Int) (htp : consumes tp la lb) :
    ∃ res, peAlignExact s g la lb = some res ∧
      scoreOf s (cALeft g) (cBLeft g la) tp ≤ res.score ∧ scoreOf s (cARight g lb) (cBRight g) tp ≤ res.score ∧
      (res.isLeft = true → (∀ q, consumes q la lb →
          scoreOf s (cALeft g) (cBLeft g la) tp ≤ scoreOf s (cALeft g) (cBLeft g la) q → q = tp) → res.path = tp) ∧
      (res.isLeft = false → (∀ q, consumes q la lb →
          scoreOf s (cARight g lb) (cBRight g) tp ≤ scoreOf s (cARight g lb) (cBRight g) q → q = tp) → res.path = tp) := by
  obtain ⟨_, _, _, _, _, res, hres, hc, hs, oL, oR⟩ := pealign_exact s g la lb hla hlb
  refine ⟨res, hres, oL tp htp, oR tp htp, ?_, ?_⟩
  · intro hl huniq
    rw [hl] at hs
    simp only [if_true] at hs
    exact huniq res.path hc (by rw [← hs]; exact oL tp htp)
  · intro hl huniq
    rw [hl] at hs
    simp only [Bool.false_eq_true, if_false] at hs
    exact huniq res.path hc (by rw [← hs]; exact oR tp htp)

end ObiVerif.Props.C08
