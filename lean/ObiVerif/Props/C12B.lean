import ObiVerif.Lemmas.NgsFilterBytes
import ObiVerif.Lemmas.NgsFilterOld
import ObiVerif.Lemmas.DemuxGate
/-!
# C12 — the sample sheet from its bytes; gated searches

Theorems on `Model/NgsFilterBytes.lean` (byte-level layers of `ReadNGSFilter`: `encoding/csv` as configured by the
reader and by the two detectors, `mimetype.Detect` as far as it chooses the reader, `_readLines`), built on the
line / field models written for C14 and C04, and on C10's model of `FilterBestMatch` for the gated searches.
-/
-- sequential elaboration (address-space limit of the build)
set_option Elab.async false

namespace ObiVerif.Props.C12

open ObiVerif.NgsFilterBytes ObiVerif.NgsFilter

/-- READ-BACK (CSV): every rendering of a list of records — blanks before any field, LF or CRLF per line,
comment lines and empty lines anywhere — is read back by `encoding/csv` as configured by `ReadCSVNGSFilter`
as exactly the declared records -/
theorem csv_rendering_read_back (items : List Item) (h : ∀ it ∈ items, it.OK) :
    csvAll true 44 (render items) = some (items.filterMap Item.record) :=
  csvAll_render items h

/-- the two detectors (no `TrimLeadingSpace`) see the same records, blanks included -/
theorem csv_rendering_seen_by_detectors (items : List Item) (h : ∀ it ∈ items, it.OK)
    (hq : ∀ cs crlf, Item.row cs crlf ∈ items → ∀ c ∈ cs, (cellBytes c).head? ≠ some 34) :
    csvAll false 44 (render items) = some (items.filterMap Item.rawRecord) :=
  csvAll_render_raw items h hq

/-- ACCEPTED SHEET = DECLARED TABLE (CSV format), partial: stated for renderings shorter than the 3072 bytes the
detectors look at, that do not look like a sequence file (`seqFormatDetect`: the detectors the command attached
to the mimetype tree when it opened its input) and hold no "binary data byte" (beyond the window the detectors see a prefix cut at a line end: modelled
— `detectorInput` — and tied by the correspondence check, not covered by this theorem).  Such a rendering, when
its records have a constant number > 1 of fields (or those that are not `@param` lines do), goes to
`ReadCSVNGSFilter`, which works on exactly the declared records -/
theorem accepted_csv_sheet_is_declared_table_partial (items : List Item) (hok : ∀ it ∈ items, it.OK)
    (hq : ∀ cs crlf, Item.row cs crlf ∈ items → ∀ c ∈ cs, (cellBytes c).head? ≠ some 34)
    (short : (render items).length < readLimit) (hseq : seqFormatDetect (render items) = false)
    (hbin : (render items).any isBinaryByte = false)
    (hcsv : (widthsOK (items.filterMap Item.rawRecord) || ngsOK (items.filterMap Item.rawRecord)) = true) :
    readSheetBytes (render items) = some (csvBranch (items.filterMap Item.record)) :=
  readSheetBytes_render items hok hq short hseq hbin hcsv

/-- which reader a rendering goes to (same hypotheses) -/
theorem rendering_reader_choice (items : List Item) (hok : ∀ it ∈ items, it.OK)
    (hq : ∀ cs crlf, Item.row cs crlf ∈ items → ∀ c ∈ cs, (cellBytes c).head? ≠ some 34)
    (short : (render items).length < readLimit) (hseq : seqFormatDetect (render items) = false)
    (hbin : (render items).any isBinaryByte = false) :
    whichReader (render items) =
      some (if widthsOK (items.filterMap Item.rawRecord) || ngsOK (items.filterMap Item.rawRecord) then .csv else .old) :=
  whichReader_render items hok hq short hseq hbin

/-- non-vacuity (test on a concrete value): an `@param` line with CRLF and a blank before a field, a comment, an
empty line, two rows: the declared records come back, and the text goes to the CSV reader through
`NGSFilterCsvDetector` (the `@param` line has three fields, the rows two) -/
example :
    let items : List Item := [
      .comment [32, 120] false,
      .row [([], paramHead), ([], [115]), ([32], [51])] true,
      .empty false,
      .row [([], [97]), ([32, 9], [98])] false,
      .row [([], [99]), ([], [100])] true]
    csvAll true 44 (render items) = some [[paramHead, [115], [51]], [[97], [98]], [[99], [100]]] ∧
      csvAll false 44 (render items) = some [[paramHead, [115], [32, 51]], [[97], [32, 9, 98]], [[99], [100]]] ∧
      whichReader (render items) = some .csv := by
  decide

/-- the hypotheses are satisfiable: a row with a blank before its second field -/
example : (Item.row [([], [97]), ([32], [98])] false).OK := by
  refine ⟨by simp, ?_, ?_, ?_, by simp [body, cellBytes, TaxLoad.joinBytes]⟩
  · intro c hc
    simp at hc
    rcases hc with rfl | rfl <;> simp [IsPad]
  · intro c hc
    simp at hc
    rcases hc with rfl | rfl <;> exact ⟨by decide, by decide, by decide, by intro x hx; simp at hx; subst hx; decide⟩
  · intro x hx
    simp [body, cellBytes, TaxLoad.joinBytes] at hx
    subst hx
    decide

/-- READ-BACK (old format): whatever the blanks around the lines, LF / CRLF and blank lines, `_readLines` returns the
declared lines -/
theorem old_rendering_read_back (items : List OItem) (h : ∀ it ∈ items, it.OK) :
    readLines (renderOld items) = items.filterMap OItem.content :=
  readLines_renderOld items h

/-- the hypotheses are satisfiable: a line between a blank and a tab, CRLF; a line of blanks -/
example : (OItem.line [32] [101, 32, 102] [9] true).OK ∧ (OItem.blank [32, 9] false).OK := by
  refine ⟨⟨?_, by decide, ?_, by decide, ⟨by simp, by decide, ?_, ?_⟩⟩, ?_, by decide⟩
  · intro c hc; simp at hc; subst hc; decide
  · intro c hc; simp at hc; subst hc; decide
  · intro x hx; simp at hx; subst hx; decide
  · intro x hx; simp at hx; subst hx; decide
  · intro c hc; simp at hc; rcases hc with rfl | rfl <;> decide

/-- SAFETY FROM THE BYTES: a library returned by the model of `ReadNGSFilter` for ANY text, by either reader, has
no primer used twice and consistent tag lengths in every marker — the hypotheses under which
`never_wrong_sample` / `accepted_sheet_never_wrong_sample` hold -/
theorem accepted_bytes_wellformed (text : Bytes) (lib : Lib) (h : readSheetBytes text = some (.ok lib)) :
    unicity lib = true ∧ ∀ m ∈ lib, ∃ mk, toMarker m = some mk := by
  have key := readSheetBytes_wf text lib h
  refine ⟨key.1, ?_⟩
  intro m hm
  have := List.all_eq_true.1 key.2 m hm
  unfold toMarker
  cases hc : Demux.checkTagLength m.samples with
  | none => simp [hc] at this
  | some p => exact ⟨_, rfl⟩

/-! ## gated searches -/

open ObiVerif.DemuxGate in
/-- the model `gate` of the symmetry theorems (a search started at `begin` = the hits of the whole read starting
there) is exact when the raw hits of the pattern are pairwise non-overlapping -/
theorem gated_search_is_filter_on_separated_hits (raw : List Apat.Hit) (q : Apat.Hit → Bool)
    (hr : ∀ x ∈ raw, Real x) (hp : List.Pairwise NoOverlap raw) :
    Apat.filterBest (raw.filter q) = (Apat.filterBest raw).filter q :=
  gate_is_filter_of_separated raw q hr hp

open ObiVerif.DemuxGate in
/-- … and false in general: overlapping raw hits form different chains from different starting points -/
theorem gated_search_is_not_filter_in_general :
    ∃ (raw : List Apat.Hit) (q : Apat.Hit → Bool),
      Apat.filterBest (raw.filter q) ≠ (Apat.filterBest raw).filter q :=
  ⟨[(5, 21, 2), (19, 35, 3), (27, 43, 3)], fun x => decide (8 ≤ x.1), by decide⟩

end ObiVerif.Props.C12
