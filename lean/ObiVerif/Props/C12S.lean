import ObiVerif.Model.DemuxState
/-!
# C12 — the library object: state, worker options, read-independence

Theorems on `Model/DemuxState.lean`: the mutable state of `obingslibrary.NGSLibrary` (parameters,
sample tables, compiled patterns) threaded through worker constructions and reads.
-/
-- sequential elaboration (address-space limit of the build)
set_option Elab.async false

namespace ObiVerif.Props.C12

open ObiVerif.Demux ObiVerif.DemuxState
open ObiVerif.NgsFilter (LMarker Lib)
open ObiVerif.SeqOps (Bytes)

/-! ## a read never writes the library -/

/-- FRAME: `ExtractMultiBarcode` leaves the library object exactly as it found it (parameters, sample
tables, compiled patterns), whatever the read and whatever the matcher returns -/
theorem read_leaves_library_unchanged (scan : Scan) (s : LibSt) (id : String) (seq : Bytes) :
    (readStep scan s id seq).2 = s := rfl

theorem history_leaves_library_unchanged (scan : Scan) (rds : List (String × Bytes)) :
    ∀ s : LibSt, (runHistory scan s rds).2 = s := by
  induction rds with
  | nil => intro s; rfl
  | cons rd rds ih =>
    intro s
    simp only [runHistory, readStep]
    exact ih s

/-- READ-INDEPENDENCE (the statement that the seeded stale-cache change C12-m3 falsified on the real
code): on one library object, the results of a history of reads are the results of each read ALONE on
the library in its initial state -/
theorem read_independence (scan : Scan) (rds : List (String × Bytes)) :
    ∀ s : LibSt, (runHistory scan s rds).1 = rds.map (fun rd => (readStep scan s rd.1 rd.2).1) := by
  induction rds with
  | nil => intro s; rfl
  | cons rd rds ih =>
    intro s
    simp only [runHistory, List.map_cons]
    rw [show (readStep scan s rd.1 rd.2).2 = s from rfl, ih s]

/-- the answer for a read does not depend on the reads demultiplexed before it: after ANY two
histories `pre₁`, `pre₂` the read gets the same records -/
theorem answer_independent_of_history (scan : Scan) (s : LibSt) (pre₁ pre₂ : List (String × Bytes))
    (id : String) (seq : Bytes) :
    (readStep scan (runHistory scan s pre₁).2 id seq).1 = (readStep scan (runHistory scan s pre₂).2 id seq).1 := by
  rw [history_leaves_library_unchanged, history_leaves_library_unchanged]

/-- … and it is a function of (sheet parameters, frozen budgets, read): the order of the reads of a data
set is immaterial (parallel workers take the batches in any order) -/
theorem history_perm (scan : Scan) (s : LibSt) (rds rds' : List (String × Bytes)) (h : rds.Perm rds') :
    ((runHistory scan s rds).1).Perm ((runHistory scan s rds').1) := by
  rw [read_independence, read_independence]
  exact h.map _

/-- test of the statements on a concrete value: two markers, a matcher that reports one forward hit -/
example :
    let lib : Lib := [{ fp := "acgt", rp := "ttga", samples := [⟨[97], [99], "s", "e", []⟩] }]
    let scan : Scan := fun _ _ _ _ => ⟨[(1, 5, 0)], [], [], []⟩
    let s := mkWorker 0 false (fresh lib)
    ((runHistory scan s [("r0", [97, 97, 99, 103, 116, 116]), ("r1", [99])]).1).length = 2 ∧
      (match (readStep scan s "r1" [99]).1 with | .ok [r] => r.id == "r1" | _ => false) = true := by
  decide

/-! ## the worker constructor writes it: option → library parameters -/

/-- `--allowed-mismatches e` / `--with-indels` → parameters of every marker: a positive `e` replaces
BOTH error budgets of EVERY marker (whatever the sheet's `@param` lines said), `e ≤ 0` (the default of
the command is -1) leaves the sheet's values; `--with-indels` switches indels on for both primers of
every marker and can never switch them off; nothing else is touched -/
theorem worker_options_spec (e : Int) (indel : Bool) (m : LMarker) :
    let m' := applyOpts e indel m
    m'.ferr = (if e > 0 then e else m.ferr) ∧ m'.rerr = (if e > 0 then e else m.rerr) ∧
    m'.fpi = (indel || m.fpi) ∧ m'.rpi = (indel || m.rpi) ∧
    m'.fp = m.fp ∧ m'.rp = m.rp ∧ m'.samples = m.samples ∧ m'.fsp = m.fsp ∧ m'.rsp = m.rsp ∧
    m'.fdl = m.fdl ∧ m'.rdl = m.rdl ∧ m'.fin = m.fin ∧ m'.rin = m.rin ∧ m'.fmode = m.fmode ∧ m'.rmode = m.rmode := by
  unfold applyOpts
  cases indel <;> by_cases h : e > 0 <;> simp [h]

/-- after the construction the compiled patterns carry the parameters of the object (no stale pattern) -/
theorem worker_compiles_current_parameters (e : Int) (indel : Bool) (s : LibSt) :
    ∀ x ∈ mkWorker e indel s, x.pat = some ⟨x.m.ferr, x.m.rerr, x.m.fpi, x.m.rpi⟩ := by
  intro x hx
  unfold mkWorker at hx
  obtain ⟨y, _, rfl⟩ := List.mem_map.mp hx
  rfl

theorem applyOpts_idem (e : Int) (indel : Bool) (m : LMarker) :
    applyOpts e indel (applyOpts e indel m) = applyOpts e indel m := by
  unfold applyOpts
  cases indel <;> by_cases h : e > 0 <;> simp [h]

/-- building the same worker twice on one library object changes nothing the second time -/
theorem mkWorker_idem (e : Int) (indel : Bool) (s : LibSt) :
    mkWorker e indel (mkWorker e indel s) = mkWorker e indel s := by
  unfold mkWorker
  rw [List.map_map]
  apply List.map_congr_left
  intro x _
  simp [Function.comp, applyOpts_idem]

/-- BUT the object remembers the workers built before (this is the state that exists in the code as it
is): a worker with the default options built after a worker with `-e 3 --with-indels` on the same
object keeps budget 3 and indels — obimultiplex builds exactly one worker per library object, so no
command is affected; a caller that reuses a library must read the sheet again. -/
theorem worker_options_persist :
    ∃ (lib : Lib), runWorkers (fresh lib) [(3, true), (-1, false)] ≠
      (runWorkers (fresh lib) [(3, true)]) ++ (runWorkers (fresh lib) [(-1, false)]) ∧
      (runWorkers (fresh lib) [(3, true), (-1, false)]).map (fun l => l.map (fun m => (m.ferr, m.fpi))) =
        [[(3, true)], [(3, true)]] := by
  refine ⟨[{ fp := "acgt", rp := "ttga" }], ?_, ?_⟩
  · intro h
    have := congrArg (fun l => l.map (fun (x : Lib) => x.map (fun m => m.ferr))) h
    revert this
    decide
  · decide

end ObiVerif.Props.C12

namespace ObiVerif.Props.C12

open ObiVerif.NgsFilter

/-! ## `@param` lines: order semantics -/

/-- the `@param` lines are applied one after the other, in file order, each on the library left by the previous
ones: a sheet with the lines `ps ++ qs` is the sheet with `qs` applied to what `ps` gives — so a later line
OVERRIDES an earlier conflicting one for the markers / sides it addresses (a global `spacer` after a per-primer
`spacer` resets that primer, a per-primer line after a global one refines it), and a fatal / malformed line
stops the reading whatever follows -/
theorem params_applied_in_order (lib : Lib) (ps qs : List (List String)) :
    applyParams lib (ps ++ qs) = (applyParams lib ps >>= fun l => applyParams l qs) := by
  induction ps generalizing lib with
  | nil => simp [applyParams, bind, Except.bind]
  | cons r rest ih =>
    simp only [List.cons_append, applyParams]
    split
    · rename_i name v vs
      simp only [bind, Except.bind]
      cases h : applyParam lib name (v :: vs) with
      | error e => rfl
      | ok l => simpa [bind, Except.bind] using ih l
    · rfl
    · rfl

/-- the value a side ends with is the one of the LAST line that addresses it: two global `spacer` lines -/
theorem last_global_param_wins (m : LMarker) (a b : Int) :
    (setSide m .spacer true (.int a)).bind (fun m' => setSide m' .spacer true (.int b)) =
      setSide m .spacer true (.int b) := by
  simp [setSide, Option.bind]

end ObiVerif.Props.C12
