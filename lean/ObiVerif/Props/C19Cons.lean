import ObiVerif.Props.C19
import ObiVerif.Lemmas.Consensus
/-!
# C19, short glue pass: the obiconsensus command level (`BuildConsensus`, the choice of `MinionDenoise`)

Model: `Model/Consensus.lean`; lemmas: `Lemmas/Consensus.lean`; tie: operation `cons` / `consc` of
`harness/c19_cons.go` (the real `BuildConsensus`; the real option parser + `CLIOBIMinion`).
-/
set_option Elab.async false
namespace ObiVerif.Props.C19Cons
open ObiVerif.Kmer ObiVerif.DeBruijn

/-- **The k-mer size loop of `BuildConsensus` ends** (the code has no upper bound on `kmer_size`): from any
starting size `k0` and any reads, within `loopFuel` trials, at a size `k` with `k0 ≤ k ≤ max k0 (longest read + 1)`;
`k` is the SMALLEST size of the sequence of trials `k0, k0+1, …` whose graph has no directed cycle. -/
theorem consensus_loop_terminates (reads : List (Bytes × Nat)) (k0 : Nat) :
    ∃ k, kLoop reads (loopFuel reads k0) k0 = some (k, graphOf k reads) ∧ k0 ≤ k ∧ k ≤ max k0 (maxLen reads + 1) ∧
      ¬ (graphOf k reads).Cyclic ∧ ∀ j, k0 ≤ j → j < k → (graphOf j reads).Cyclic := by
  obtain ⟨k, e, h1, h2, h3, h4⟩ := kLoop_spec reads k0
  exact ⟨k, e, h1, h2, ((C19.hasCycle_iff _).2.1).mp h3, fun j a b => ((C19.hasCycle_iff _).1).mp (h4 j a b)⟩

/-- the bound is reached: "aca" and "cac" close a cycle at k = 2 and at k = 3; at k = 4 = longest read + 1 the graph
is empty and the command falls back (error "graph is empty") -/
example : buildConsensus 100 [([97, 99, 97], 1), ([99, 97, 99], 1)] 2 = .err 4 := by decide

/-- **`cli_consensus_exact`** — for a pack of at least two reads, `--kmer-size` = `kopt` (negative: estimated) and
`--low-coverage` 0: when the starting size is `k0` (`startK`: the option, or 1 + the length of the longest substring
occurring twice in one read), `BuildConsensus` answers with `LongestConsensus` of THE graph of all the reads (every
read pushed once with its count) at the smallest size `k ≥ k0` of the trials whose graph is acyclic, never runs out
of trials, and annotates `obiconsensus_kmer_size = k`, `obiconsensus_weight` = the sum of the read counts,
`obiconsensus_kmer_max_occur = MaxWeight`, graph sizes = `Len`; an empty graph (every read shorter than `k`) is the
error, i.e. the caller's fall-back. -/
theorem cli_consensus_exact (fuel : Nat) (r1 r2 : Bytes × Nat) (rest : List (Bytes × Nat)) (kopt : Int) (k0 : Nat)
    (hk0 : startK (r1 :: r2 :: rest) kopt = some k0) :
    let reads := r1 :: r2 :: rest
    ∃ k, k0 ≤ k ∧ k ≤ max k0 (maxLen reads + 1) ∧ ¬ (graphOf k reads).Cyclic ∧
      (∀ j, k0 ≤ j → j < k → (graphOf j reads).Cyclic) ∧
      buildConsensus fuel reads kopt =
        (match (graphOf k reads).longestConsensusH fuel with
         | .seq s => .cons s k (sumCounts reads) (graphOf k reads).maxWeight (graphOf k reads).len
         | .err => .err k
         | .panic => .panic
         | .fuel => .fuel) ∧
      ((graphOf k reads).nodes = [] → buildConsensus fuel reads kopt = .err k) := by
  intro reads
  obtain ⟨k, e, h1, h2, h3, h4⟩ := consensus_loop_terminates reads k0
  have hb : buildConsensus fuel reads kopt =
        (match (graphOf k reads).longestConsensusH fuel with
         | .seq s => .cons s k (sumCounts reads) (graphOf k reads).maxWeight (graphOf k reads).len
         | .err => .err k
         | .panic => .panic
         | .fuel => .fuel) := by
    simp only [buildConsensus, buildConsensusWith, reads, hk0]
    simp only [reads] at e
    rw [e]
    rfl
  refine ⟨k, h1, h2, h3, h4, hb, ?_⟩
  intro hn
  rw [hb]
  simp [Graph.longestConsensusH, hn]

/-- **The consensus is a heaviest path of that graph** (`_partial`: the size `k` reached by the loop must satisfy
`1 ≤ k ≤ 32`, the domain of the graph theorems — beyond 32 the word holds the last 32 bases only; read counts ≥ 1;
fuel above `hpBound`).  Then the graph at `k` (not empty) has the weights of `push_weights`, `HaviestPath` returns a
walk from a node without predecessor that no such walk outweighs, and `BuildConsensus` returns its decoding with the
annotations. -/
theorem cli_consensus_heaviest_partial (fuel : Nat) (r1 r2 : Bytes × Nat) (rest : List (Bytes × Nat)) (kopt : Int)
    (k : Nat) (hk : 1 ≤ k) (h32 : k ≤ 32)
    (hc : ∀ r ∈ r1 :: r2 :: rest, 1 ≤ r.2)
    (hloop : ∃ k0, startK (r1 :: r2 :: rest) kopt = some k0 ∧
      kLoop (r1 :: r2 :: rest) (loopFuel (r1 :: r2 :: rest) k0) k0 = some (k, graphOf k (r1 :: r2 :: rest)))
    (hne : (graphOf k (r1 :: r2 :: rest)).nodes ≠ [])
    (hf : (graphOf k (r1 :: r2 :: rest)).hpBound ≤ fuel) :
    let reads := r1 :: r2 :: rest
    let g := graphOf k reads
    (∀ x, g.weight x = (reads.map fun r => r.2 * winCount k x (validPrefix r.1)).sum) ∧
    ∃ p, g.heaviestPathH fuel = .path p ∧
      (g.Walk p ∧ ∃ s t, p = s :: t ∧ s ∈ g.heads ∧ g.IsSource s) ∧
      (∀ s t, g.IsSource s → g.Walk (s :: t) → g.pathWeight (s :: t) ≤ g.pathWeight p) ∧
      buildConsensus fuel reads kopt = .cons (g.decodePath p) k (sumCounts reads) g.maxWeight g.len := by
  intro reads g
  obtain ⟨k0, hk0, e⟩ := hloop
  obtain ⟨k', e', _, _, h3, _⟩ := consensus_loop_terminates reads k0
  have hkk : k' = k := by
    have := e'.symm.trans e
    simp only [Option.some.injEq, Prod.mk.injEq] at this
    exact this.1
  subst hkk
  have hyp := C19.hypotheses_of_pushes k' hk h32 reads hc
  have hwf : g.WF := hyp.1
  have hpos : ∀ x ∈ g.keys, 0 < g.weight x := hyp.2
  have hH := C19.heaviestH_correct g hwf fuel
  obtain ⟨p, hp⟩ := (hH.2.2 h3 hf).2 hne hpos
  have hw := (hH.2.1 p hp)
  refine ⟨fun x => C19.push_weights k' hk h32 reads x, p, hp, hw.1, hw.2 hpos, ?_⟩
  obtain ⟨s, t, hst, _, _⟩ := hw.1.2
  have hgk : g.k = k' := graphOf_k k' reads
  have hd : (g.decodePath p).isEmpty = false := by
    rw [hst]; exact decodePath_ne_nil g (by omega) s t
  have hnn : g.nodes.isEmpty = false := by
    cases hh : g.nodes with
    | nil => exact absurd hh hne
    | cons a b => rfl
  have hlc : g.longestConsensusH fuel = .seq (g.decodePath p) := by
    simp [Graph.longestConsensusH, hnn, hp, hd]
  simp only [buildConsensus, buildConsensusWith, reads, hk0]
  rw [e]
  simp only [g, reads] at hlc
  simp only [hlc]
  rfl

/-- non-vacuity: an amplicon (count 5), a low-count variant and a chimera closing a cycle at k = 3: the command
moves to k = 4 (still cyclic), then to k = 5 and returns the amplicon -/
example : buildConsensus 1000 [([97, 99, 103, 116, 99, 97, 103], 5), ([97, 99, 103, 116, 97, 97, 103], 1), ([99, 97, 103, 97, 99, 103], 1)] 3
    = .cons [97, 99, 103, 116, 99, 97, 103] 5 7 5 8 := by decide

/-- the estimate: "acgtcag" repeats "c", "a", "g" (length 1) -> 2; "acacg" repeats "ac" -> 3; an empty read panics -/
example : estimateK [([97, 99, 103, 116, 99, 97, 103], 1), ([97, 99, 103], 1)] = some 2 ∧
    estimateK [([97, 99, 97, 99, 103], 1), ([97, 99, 103], 1)] = some 3 ∧ estimateK [([97], 1), ([], 1)] = none := by decide

/-- **Beyond k = 32 the answer is no longer a heaviest path** (why `cli_consensus_heaviest_partial` needs `k ≤ 32`; the
loop of `BuildConsensus` and `--kmer-size` have no upper bound).  `--kmer-size 33`, a read of 35 bases (count 12) and a
read of 18 bases: the word holds the last 32 bases of each of the three windows, `prevc = prevg = prevt = 0` so `Previouses`
only sees a predecessor starting with `a`, every node whose predecessor starts with c, g or t is a "head", and the command
returns `a` + the LAST 32 bases of the read (weight 12) instead of the read (the walk of the three nodes, weight 36).
Observed on the real code (corpus of `harness/c19_cons.go`; stat `cons:k>32-consensus-not-a-heaviest-walk`). -/
theorem consensus_above_32_counterexample :
    buildConsensus 1000 [([99, 99, 103, 99, 97, 116, 116, 116, 116, 116, 99, 99, 103, 116, 103, 99, 99, 116, 99, 99, 116, 99, 97, 99, 116, 116, 97, 103, 116, 103, 97, 103, 97, 99, 103], 12), ([116, 99, 97, 99, 116, 116, 97, 103, 116, 103, 97, 103, 97, 99, 103, 99, 99, 103], 2)] 33
      = .cons [97, 99, 97, 116, 116, 116, 116, 116, 99, 99, 103, 116, 103, 99, 99, 116, 99, 99, 116, 99, 97, 99, 116, 116, 97, 103, 116, 103, 97, 103, 97, 99, 103] 33 14 12 3 := by decide

/-- **The choice of `MinionDenoise`**: the record written for a vertex is a consensus iff the vertex has more than
four neighbours AND `BuildConsensus` of the neighbours and the vertex itself succeeded — then it carries that
consensus, its k-mer size and weight; in every other case (few neighbours, error of `BuildConsensus`) it is the
sequence of the vertex itself, flagged false, weight 1.  (No fall-back when a consensus exists; no consensus made
from anything but neighbours ++ [vertex].) -/
theorem cli_denoise_vertex (fuel : Nat) (kopt : Int) (v : Bytes × Nat) (nbrs : List (Bytes × Nat)) (d : Denoised)
    (h : denoiseVertex fuel kopt v nbrs = some d) :
    (d.isCons = true ↔ nbrs.length > 4 ∧ ∃ s k w a b, buildConsensus fuel (nbrs ++ [v]) kopt = .cons s k w a b ∧
        d = ⟨s, true, k, w⟩) ∧
    (d.isCons = false → d = ⟨v.1, false, 0, 1⟩) := by
  unfold denoiseVertex at h
  by_cases hn : nbrs.length > 4
  · simp only [hn, if_true] at h
    have hne : ∀ s w, buildConsensus fuel (nbrs ++ [v]) kopt ≠ .single s w := by
      intro s w
      cases nbrs with
      | nil => simp at hn
      | cons a t =>
        cases t with
        | nil => simp at hn
        | cons b t => simp [buildConsensus, buildConsensusWith]; split <;> (try split) <;> (try split) <;> simp
    cases hb : buildConsensus fuel (nbrs ++ [v]) kopt with
    | cons s k w a b =>
      rw [hb] at h; simp only [Option.some.injEq] at h; subst h
      exact ⟨⟨fun _ => ⟨hn, s, k, w, a, b, rfl, rfl⟩, fun _ => rfl⟩, fun h => by simp at h⟩
    | err k => rw [hb] at h; simp only [Option.some.injEq] at h; subst h; simp
    | noSeq => rw [hb] at h; simp only [Option.some.injEq] at h; subst h; simp
    | single s w => exact absurd hb (hne s w)
    | panic => rw [hb] at h; simp at h
    | fuel => rw [hb] at h; simp at h
  · simp only [hn, if_false] at h
    simp only [Option.some.injEq] at h; subst h
    simp [hn]

end ObiVerif.Props.C19Cons
