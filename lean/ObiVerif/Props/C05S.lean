import ObiVerif.Lemmas.Summary
/-!
# C05, glue pass: the merge of the per-worker partial summaries of obisummary, field by field

`ISummary` gives every worker goroutine its own `DataSummary`; which worker takes which batch is decided by the
scheduler.  The theorems below say that what the command prints is the summary of the whole input whatever the number
of workers, the batch partition and the sharing of the batches: this holds only if EVERY field of `DataSummary.Add` is
the sum of the same field of its two arguments (`add` is transcribed one field at a time from the code; with any field
fed from a neighbouring one, `summary_merge_is_sum` is false — see `slip_refuted`).
-/
set_option Elab.async false
namespace ObiVerif.Props.C05S
open ObiVerif.Command ObiVerif.Summary

/-- **The merged summary is the summary of the whole input**, for every number of workers (`shares.length`, at least
one), every partition of the input into batches, every sharing of the batches between the workers and every order in
which a worker meets its batches: `shares` lists, per worker, the batches it took; their records are, in some order,
the records of `input`. -/
theorem summary_merge_is_sum (shares : List (List (List SRec))) (hne : shares ≠ []) (input : List SRec)
    (h : shares.flatten.flatten.Perm input) :
    mergeSummaries (shares.map workerSummary) = some (summaryOf input) := by
  cases shares with
  | nil => exact absurd rfl hne
  | cons w ws =>
    have e := merge_fold ws empty w.flatten
    simp only [List.map_cons, mergeSummaries]
    rw [workerSummary_eq, e]
    unfold summaryOf
    rw [foldl_update]
    congr 1
    apply plusRecs_perm
    simpa [List.flatten_cons, List.flatten_append] using h

/-- **Every field of the summary of a data set is the sum it should be** (`plusRecs empty`: `read_count` = Σ counts,
`variant_count` = number of records, `has_obiclean_status` = number of records carrying the attribute, …, every map =
union-with-sum of the records' (key, increment) pairs): the specification of the kernel `Update` over a data set -/
theorem summary_fields_are_sums (input : List SRec) : summaryOf input = plusRecs empty input :=
  foldl_update input empty

/-- **User level**: the document printed by `obisummary` for a given input does not depend on `--max-cpu` (number of
workers), on the batch partition nor on which goroutine took which batch: it is the document of the sequential summary -/
theorem cli_summary_is_sequential (shares : List (List (List SRec))) (hne : shares ≠ []) (input : List SRec)
    (h : shares.flatten.flatten.Perm input) :
    iSummary shares = some (render (summaryOf input)) := by
  unfold iSummary
  rw [summary_merge_is_sum shares hne input h]; rfl

/-- two runs on the same records (any order), any two parallelism configurations and schedules: same document -/
theorem cli_summary_parallelism_independent (s₁ s₂ : List (List (List SRec))) (h₁ : s₁ ≠ []) (h₂ : s₂ ≠ [])
    (h : s₁.flatten.flatten.Perm s₂.flatten.flatten) : iSummary s₁ = iSummary s₂ := by
  rw [cli_summary_is_sequential s₁ h₁ _ h, cli_summary_is_sequential s₂ h₂ _ (List.Perm.refl _)]

/-- without any worker `ISummary` indexes `summaries[0]` out of range (the option parser never yields 0 workers) -/
theorem no_worker_panics : iSummary [] = none := rfl

/-- a cleaned record (sample 7 twice, status "i") WITHOUT `obiclean_weight` -/
def exRec : SRec := ⟨2, 10, some [(7, 2)], some [(7, true)], none, true, false, [], [3, 4], []⟩

/-- non-vacuity (test on a sample): two records met by two different workers, a third worker idle -/
example : iSummary [[[exRec]], [], [[exRec]]] = some (render (summaryOf [exRec, exRec])) :=
  cli_summary_is_sequential _ (by simp) _ (by simp)

/-- the `Add` of seeded regression C05-m6: `has_obiclean_status` fed from `has_obiclean_weight` -/
def addSlip (a b : DataSummary) : DataSummary :=
  { add a b with has_obiclean_status := a.has_obiclean_status + b.has_obiclean_weight }

/-- with that `Add` the property fails as soon as a record with status and without weight is met by a worker other
than worker 0: the `obiclean_bad` figure disappears from the document (test on a sample, by evaluation) -/
theorem slip_refuted :
    render ((([[[exRec]], [[exRec]]] : List (List (List SRec))).map workerSummary).foldl addSlip empty)
      ≠ render (summaryOf [exRec, exRec]) := by decide

end ObiVerif.Props.C05S
