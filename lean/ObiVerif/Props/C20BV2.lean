import ObiVerif.Props.C20BV
set_option Elab.async false
/-!
# C20 — BitVec restatements, completion

`Props/C20BV.lean` restates add/sub/mul, the shifts, the bitwise operations, `ult`/`ule`/equality, `Cmp`, `Div`/`Mod`,
the casts and `Add64`/`Mul64` of Uint128 against `BitVec 64/128/256`.  This module adds the remaining exported
methods, so that EVERY exported method of `pkg/obifp` has a `Nat`-level theorem (`Props/C20.lean`) and a `BitVec`-level
one: `QuoRem`, `QuoRem64`, `Div64`, `Mod64`, `Cmp64`, `Set64`, `Zero`, `MaxValue`, `IsZero`, `GreaterThan`,
`GreaterThanOrEqual`, `AsUint64`, the no-op casts, the generic constructors of unint.go, and the carry forms of Uint64
(`Add64`, `Sub64`, `Mul64`, `LeftShift64`, `RightShift64`) as 128-bit registers.
A 64-bit word argument `v` is the bit-vector `BitVec.ofNat 64 v`, zero-extended (`BitVec.ofNat 128 v` for `v < 2^64`).
-/
namespace ObiVerif.Props.C20BV2
open ObiVerif.Fp ObiVerif.Props.C20 ObiVerif.Props.C20BV

theorem W_lt_128 {v : Nat} (hv : v < W) : v < 2 ^ 128 :=
  Nat.lt_of_lt_of_le (W_eq_pow ▸ hv) (Nat.pow_le_pow_right (by decide) (by decide))
theorem W_lt_256 {v : Nat} (hv : v < W) : v < 2 ^ 256 :=
  Nat.lt_of_lt_of_le (W_eq_pow ▸ hv) (Nat.pow_le_pow_right (by decide) (by decide))

/-! ## division family of Uint128 -/

/-- `QuoRem` is (`BitVec.udiv`, `BitVec.umod`) for `v ≠ 0` -/
theorem u128_quoRem_bv (u v : U128) (hu : u.WF) (hv : v.WF) (hv0 : v.toNat ≠ 0) :
    ∃ q r, U128.quoRem u v = .ok (q, r) ∧ q.WF ∧ r.WF ∧ q.toBV = u.toBV / v.toBV ∧ r.toBV = u.toBV % v.toBV := by
  have hq : u.toNat / v.toNat < W * W := Nat.lt_of_le_of_lt (Nat.div_le_self _ _) (U128.toNat_lt hu)
  have hr : u.toNat % v.toNat < W * W := Nat.lt_of_le_of_lt (Nat.mod_le _ _) (U128.toNat_lt hu)
  refine ⟨_, _, u128_quoRem_exact u v hu hv hv0, U128.ofNat_WF _, U128.ofNat_WF _, ?_, ?_⟩
  · unfold U128.toBV; rw [U128.toNat_ofNat hq, bv_div (U128.toNat_lt' hu) (U128.toNat_lt' hv)]
  · unfold U128.toBV; rw [U128.toNat_ofNat hr, bv_mod (U128.toNat_lt' hu) (U128.toNat_lt' hv)]

/-- `QuoRem64`: quotient and remainder by the zero-extended word; the remainder, returned as a `uint64`, is the low
64 bits of the 128-bit remainder (which is below `v < 2^64`) -/
theorem u128_quoRem64_bv (u : U128) (v : Nat) (hu : u.WF) (hv : v < W) (hv0 : v ≠ 0) :
    ∃ q r, U128.quoRem64 u v = .ok (q, r) ∧ q.WF ∧ r < W ∧ q.toBV = u.toBV / BitVec.ofNat 128 v ∧
      BitVec.ofNat 128 r = u.toBV % BitVec.ofNat 128 v := by
  have hq : u.toNat / v < W * W := Nat.lt_of_le_of_lt (Nat.div_le_self _ _) (U128.toNat_lt hu)
  have hr : u.toNat % v < W := Nat.lt_trans (Nat.mod_lt _ (Nat.pos_of_ne_zero hv0)) hv
  refine ⟨_, _, u128_quoRem64_exact u v hu hv0, U128.ofNat_WF _, hr, ?_, ?_⟩
  · unfold U128.toBV; rw [U128.toNat_ofNat hq, bv_div (U128.toNat_lt' hu) (W_lt_128 hv)]
  · unfold U128.toBV; rw [bv_mod (U128.toNat_lt' hu) (W_lt_128 hv)]

theorem u128_div64_bv (u : U128) (v : Nat) (hu : u.WF) (hv : v < W) (hv0 : v ≠ 0) :
    ∃ q, U128.div64 u v = .ok q ∧ q.WF ∧ q.toBV = u.toBV / BitVec.ofNat 128 v := by
  have hq : u.toNat / v < W * W := Nat.lt_of_le_of_lt (Nat.div_le_self _ _) (U128.toNat_lt hu)
  refine ⟨_, u128_div64_exact u v hu hv0, U128.ofNat_WF _, ?_⟩
  unfold U128.toBV; rw [U128.toNat_ofNat hq, bv_div (U128.toNat_lt' hu) (W_lt_128 hv)]

theorem u128_mod64_bv (u : U128) (v : Nat) (hu : u.WF) (hv : v < W) (hv0 : v ≠ 0) :
    ∃ r, U128.mod64 u v = .ok r ∧ r < W ∧ BitVec.ofNat 128 r = u.toBV % BitVec.ofNat 128 v := by
  have hr : u.toNat % v < W := Nat.lt_trans (Nat.mod_lt _ (Nat.pos_of_ne_zero hv0)) hv
  refine ⟨_, u128_mod64_exact u v hu hv0, hr, ?_⟩
  unfold U128.toBV; rw [bv_mod (U128.toNat_lt' hu) (W_lt_128 hv)]

/-- `Cmp64` is the three-way unsigned comparison with the zero-extended word -/
theorem u128_cmp64_bv (u : U128) (v : Nat) (hu : u.WF) (hv : v < W) :
    U128.cmp64 u v = if u.toBV < BitVec.ofNat 128 v then -1 else if u.toBV = BitVec.ofNat 128 v then 0 else 1 := by
  have hu' := U128.toNat_lt' hu; have hv' := W_lt_128 hv
  rw [u128_cmp64_exact u v hu hv]
  unfold U128.toBV
  simp only [BitVec.lt_def, bv_toNat hu', bv_toNat hv', bv_inj hu' hv']

/-! ## `Set64`, `Zero`, `MaxValue`, `IsZero`, `AsUint64`, the no-op casts, the constructors of unint.go -/

theorem u64_set64_bv (u : U64) (v : Nat) : (U64.set64 u v).toBV = BitVec.ofNat 64 v := rfl
theorem u128_set64_bv (u : U128) (v : Nat) (hv : v < W) : (U128.set64 u v).toBV = BitVec.ofNat 128 v := by
  unfold U128.toBV; rw [(u128_set64_exact u v hv).2]
theorem u256_set64_bv (u : U256) (v : Nat) (hv : v < W) : (U256.set64 u v).toBV = BitVec.ofNat 256 v := by
  unfold U256.toBV; rw [(u256_set64_exact u v hv).2]

theorem u64_zero_bv (u : U64) : (U64.zero u).toBV = 0#64 := rfl
theorem u128_zero_bv (u : U128) : (U128.zero u).toBV = 0#128 := by
  unfold U128.toBV; rw [(u128_zero_exact u).2]
theorem u256_zero_bv (u : U256) : (U256.zero u).toBV = 0#256 := by
  unfold U256.toBV; rw [(u256_zero_exact u).2]

theorem u64_maxValue_bv (u : U64) : (U64.maxValue u).toBV = BitVec.allOnes 64 := by
  unfold U64.toBV; rw [(u64_maxValue_exact u).2.1]; decide
theorem u128_maxValue_bv (u : U128) : (U128.maxValue u).toBV = BitVec.allOnes 128 := by
  unfold U128.toBV; rw [(u128_maxValue_exact u).2.1]; decide
theorem u256_maxValue_bv (u : U256) : (U256.maxValue u).toBV = BitVec.allOnes 256 := by
  unfold U256.toBV; rw [(u256_maxValue_exact u).2.1]; decide

theorem u64_isZero_bv (u : U64) (hu : u.WF) : U64.isZero u = true ↔ u.toBV = 0#64 := by
  unfold U64.toBV
  rw [u64_isZero_exact, show (0#64) = BitVec.ofNat 64 0 from rfl, bv_inj (U64.toNat_lt' hu) (by decide)]
theorem u128_isZero_bv (u : U128) (hu : u.WF) : U128.isZero u = true ↔ u.toBV = 0#128 := by
  unfold U128.toBV
  rw [u128_isZero_exact, show (0#128) = BitVec.ofNat 128 0 from rfl, bv_inj (U128.toNat_lt' hu) (by decide)]
theorem u256_isZero_bv (u : U256) (hu : u.WF) : U256.isZero u = true ↔ u.toBV = 0#256 := by
  unfold U256.toBV
  rw [u256_isZero_exact, show (0#256) = BitVec.ofNat 256 0 from rfl, bv_inj (U256.toNat_lt' hu) (by decide)]

/-- `AsUint64` is the truncation to 64 bits -/
theorem u64_asUint64_bv (u : U64) : BitVec.ofNat 64 (U64.asUint64 u) = u.toBV := rfl
theorem u128_asUint64_bv (u : U128) (hu : u.WF) : BitVec.ofNat 64 (U128.asUint64 u) = u.toBV.setWidth 64 := by
  unfold U128.toBV
  rw [(u128_asUint64_exact u hu).1, W_eq_pow, bv_setWidth 64 (U128.toNat_lt' hu)]
theorem u256_asUint64_bv (u : U256) (hu : u.WF) : BitVec.ofNat 64 (U256.asUint64 u) = u.toBV.setWidth 64 := by
  unfold U256.toBV
  rw [(u256_asUint64_exact u hu).1, W_eq_pow, bv_setWidth 64 (U256.toNat_lt' hu)]

theorem u64_toU64_bv (u : U64) : (U64.toU64 u).toBV = u.toBV := rfl
theorem u128_toU128_bv (u : U128) : (U128.toU128 u).toBV = u.toBV := rfl
theorem u256_toU256_bv (u : U256) : (U256.toU256 u).toBV = u.toBV := rfl

theorem zeroUint_bv : zeroUint64.toBV = 0#64 ∧ zeroUint128.toBV = 0#128 ∧ zeroUint256.toBV = 0#256 :=
  ⟨rfl, by unfold U128.toBV; rw [zeroUint_exact.2.1], by unfold U256.toBV; rw [zeroUint_exact.2.2.1]⟩
theorem oneUint_bv : oneUint64.toBV = 1#64 ∧ oneUint128.toBV = 1#128 ∧ oneUint256.toBV = 1#256 :=
  ⟨rfl, by unfold U128.toBV; rw [oneUint_exact.2.1], by unfold U256.toBV; rw [oneUint_exact.2.2.1]⟩
theorem from64_bv (v : Nat) (hv : v < W) : (from64_64 v).toBV = BitVec.ofNat 64 v ∧
    (from64_128 v).toBV = BitVec.ofNat 128 v ∧ (from64_256 v).toBV = BitVec.ofNat 256 v :=
  ⟨rfl, u128_set64_bv _ v hv, u256_set64_bv _ v hv⟩

/-! ## `GreaterThan` / `GreaterThanOrEqual` -/

theorem u64_greaterThan_bv (u v : U64) (hu : u.WF) (hv : v.WF) : U64.greaterThan u v = v.toBV.ult u.toBV := by
  unfold U64.toBV
  rw [bv_ult (U64.toNat_lt' hv) (U64.toNat_lt' hu), Bool.eq_iff_iff, u64_greaterThan_exact, decide_eq_true_iff]
theorem u64_greaterThanOrEqual_bv (u v : U64) (hu : u.WF) (hv : v.WF) :
    U64.greaterThanOrEqual u v = v.toBV.ule u.toBV := by
  unfold U64.toBV
  rw [bv_ule (U64.toNat_lt' hv) (U64.toNat_lt' hu), Bool.eq_iff_iff, u64_greaterThanOrEqual_exact, decide_eq_true_iff]
theorem u128_greaterThan_bv (u v : U128) (hu : u.WF) (hv : v.WF) : U128.greaterThan u v = v.toBV.ult u.toBV := by
  unfold U128.toBV
  rw [bv_ult (U128.toNat_lt' hv) (U128.toNat_lt' hu), Bool.eq_iff_iff, u128_greaterThan_exact u v hu hv,
    decide_eq_true_iff]
theorem u128_greaterThanOrEqual_bv (u v : U128) (hu : u.WF) (hv : v.WF) :
    U128.greaterThanOrEqual u v = v.toBV.ule u.toBV := by
  unfold U128.toBV
  rw [bv_ule (U128.toNat_lt' hv) (U128.toNat_lt' hu), Bool.eq_iff_iff, u128_greaterThanOrEqual_exact u v hu hv,
    decide_eq_true_iff]
theorem u256_greaterThan_bv (u v : U256) (hu : u.WF) (hv : v.WF) : U256.greaterThan u v = v.toBV.ult u.toBV := by
  unfold U256.toBV
  rw [bv_ult (U256.toNat_lt' hv) (U256.toNat_lt' hu), Bool.eq_iff_iff, u256_greaterThan_exact u v hu hv,
    decide_eq_true_iff]
theorem u256_greaterThanOrEqual_bv (u v : U256) (hu : u.WF) (hv : v.WF) :
    U256.greaterThanOrEqual u v = v.toBV.ule u.toBV := by
  unfold U256.toBV
  rw [bv_ule (U256.toNat_lt' hv) (U256.toNat_lt' hu), Bool.eq_iff_iff, u256_greaterThanOrEqual_exact u v hu hv,
    decide_eq_true_iff]

/-! ## carry forms of Uint64 as 128-bit registers: `carry:value = BitVec.ofNat 128 (value + carry * 2^64)` -/

/-- `Add64`: the register `carry:value` is the 128-bit sum of the zero-extended operands and the carry-in; the value
alone is the wrapping 64-bit sum -/
theorem u64_add64_bv (u v : U64) (c : Nat) :
    BitVec.ofNat 128 ((U64.add64 u v c).1 + (U64.add64 u v c).2 * W) =
      BitVec.ofNat 128 u.toNat + BitVec.ofNat 128 v.toNat + BitVec.ofNat 128 c ∧
    BitVec.ofNat 64 (U64.add64 u v c).1 = u.toBV + v.toBV + BitVec.ofNat 64 c := by
  refine ⟨by rw [(u64_add64_exact u v c).1, BitVec.ofNat_add, BitVec.ofNat_add], ?_⟩
  unfold U64.toBV U64.add64 bitsAdd64 U64.toNat
  rw [← BitVec.ofNat_add, ← BitVec.ofNat_add]
  apply BitVec.eq_of_toNat_eq
  simp only [BitVec.toNat_ofNat, W]
  omega

/-- `Sub64` (borrow-in 0 or 1): the value is the wrapping 64-bit difference, the borrow is 1 exactly when
`u < v + borrowIn` -/
theorem u64_sub64_bv (u v : U64) (c : Nat) (hu : u.WF) (hv : v.WF) (hc : c ≤ 1) :
    BitVec.ofNat 64 (U64.sub64 u v c).1 = u.toBV - v.toBV - BitVec.ofNat 64 c ∧
    ((U64.sub64 u v c).2 = if u.toNat < v.toNat + c then 1 else 0) := by
  unfold U64.WF at hu hv
  unfold U64.toBV U64.sub64 bitsSub64 U64.toNat
  constructor
  · apply BitVec.eq_of_toNat_eq
    simp only [BitVec.toNat_sub, BitVec.toNat_ofNat]
    simp only [W] at *
    split <;> simp only [] <;> omega
  · split
    · rw [if_neg (by omega)]
    · rw [if_pos (by omega)]

/-- `Mul64`: `carry:value` is the full 128-bit product of the zero-extended operands -/
theorem u64_mul64_bv (u v : U64) (hu : u.WF) (hv : v.WF) :
    BitVec.ofNat 128 ((U64.mul64 u v).1 + (U64.mul64 u v).2 * W) = BitVec.ofNat 128 u.toNat * BitVec.ofNat 128 v.toNat ∧
    BitVec.ofNat 64 (U64.mul64 u v).1 = u.toBV * v.toBV := by
  refine ⟨by rw [(u64_mul64_exact u v hu hv).1, BitVec.ofNat_mul], ?_⟩
  unfold U64.toBV U64.mul64 bitsMul64 U64.toNat
  rw [← BitVec.ofNat_mul]
  apply BitVec.eq_of_toNat_eq
  simp only [BitVec.toNat_ofNat, W]
  omega

/-- `LeftShift64(n, carryIn)` for `n < 128`: `carry:value` is the zero-extended word shifted left by `n` in a 128-bit
register, plus the low `n` bits of `carryIn` -/
theorem u64_leftShift64_bv (w n c : Nat) (hn : n < 128) (hw : w < W) (hc : c < W) :
    BitVec.ofNat 128 ((leftShift64 w n c).1 + (leftShift64 w n c).2 * W) =
      BitVec.ofNat 128 w <<< n + BitVec.ofNat 128 (c % 2 ^ n) := by
  rw [u64_leftShift64_register w n c hn hw hc, ← bv_shl n (W_lt_128 hw), WW_eq_pow, ← BitVec.ofNat_add]
  apply BitVec.eq_of_toNat_eq
  simp only [BitVec.toNat_ofNat]
  omega

/-- `RightShift64(n, carryIn)` for `n < 128`: `value:carry` is the register `w:0` shifted right by `n`, plus the high
`min n 64` bits of `carryIn` in place in the high word -/
theorem u64_rightShift64_bv (w n c : Nat) (hn : n < 128) (hw : w < W) (hc : c < W) :
    BitVec.ofNat 128 ((rightShift64 w n c).1 * W + (rightShift64 w n c).2) =
      BitVec.ofNat 128 (w * W) >>> n + BitVec.ofNat 128 (c / 2 ^ (64 - n) * 2 ^ (64 - n) * W) := by
  have hww : w * W < 2 ^ 128 := by
    rw [← WW_eq_pow]; exact Nat.mul_lt_mul_of_lt_of_le hw (Nat.le_refl _) W_pos
  rw [u64_rightShift64_register w n c hn hw hc, ← bv_shr n hww, ← BitVec.ofNat_add]

/-- the statements compute: `(2^64-1) * (2^64-1)` as a 128-bit product, `7:5 / 3` -/
example : U64.WF ⟨18446744073709551615⟩ ∧
    BitVec.ofNat 128 ((U64.mul64 ⟨18446744073709551615⟩ ⟨18446744073709551615⟩).1 +
        (U64.mul64 ⟨18446744073709551615⟩ ⟨18446744073709551615⟩).2 * W) =
      BitVec.ofNat 128 18446744073709551615 * BitVec.ofNat 128 18446744073709551615 ∧
    U128.WF ⟨7, 5⟩ ∧ (3 : Nat) < W ∧ (3 : Nat) ≠ 0 :=
  ⟨by decide, (u64_mul64_bv _ _ (by decide) (by decide)).1, by decide, by decide, by decide⟩

end ObiVerif.Props.C20BV2
