import ObiVerif.Lemmas.LoopSteps
import ObiVerif.Lemmas.LoopMachines
import ObiVerif.Props.C03
/-!
# C03 — "always terminates" for the single-goroutine combinators (property theorems, second part)

`Props/C03.lean` §13 treats the goroutines of *source → N workers → SortBatches → consumer*
(`Model/ReseqSteps.lean`).  Here the same three results — safety invariant, deadlock freedom when every
output is consumed, termination with everything delivered — are proved ONCE for the generic stage of
`Model/LoopSteps.lean` (one loop goroutine between `nin` inputs and `nout` outputs, producers, closers,
consumers, channels of any capacity `cap ≥ 0`, `cap = 0` being the code) and instantiated with the loops
of `Rebatch`, `FilterEmpty`, `DivideOn`, `CopyTee`, the one-push-per-batch stages (`LimitMemory`, `Speed`,
`PairedWith`), `CompleteFileIterator`, `Concat` (any number of inputs) and the zip loop of `PairTo`
(`Model/LoopMachines.lean`).  Every theorem is for all inputs, all schedulings.
-/
namespace ObiVerif.Props.C03S
open ObiVerif.LoopSteps ObiVerif.Iter

/-- **Generic stage** (any loop satisfying `Law`).
(i) safety: in every reachable state, the pushes done so far followed by the big-step run of the loop from
its current state on what is still upstream (`cin i ++ todo i`) is the big-step run from the start — no
batch lost, duplicated or reordered by the scheduling — and what was pushed on output `j` is
`delivered j ++ cout j` in push order;
(ii) every step decreases `rank`; every execution has at most `rank init` steps;
(iii) if no output is left unconsumed: a reachable state in which some consumer has not seen the end of
its stream has an enabled step (no deadlock, any `cap`), and some execution ends;
(iv) every ended execution has delivered on each output exactly the pushes of the big-step run, in order. -/
theorem loop_stage_correct {σ : Type} {S : Sys σ} {μ : σ → Nat} {w : Item → Nat} {known : σ → Nat → Prop}
    (L : Law S μ w known) (m0 : σ) (ins0 : Nat → List Item) (opened0 : Nat → Bool)
    (hk : ∀ j, known m0 j → opened0 j = true) :
    (∀ s, Reach S (init ins0 m0 opened0) s →
        (∀ tr, Exec S.act m0 ins0 tr →
          ∃ tr', Exec S.act s.m (fun i => s.cin i ++ s.todo i) tr' ∧ tr = s.sent ++ tr') ∧
        ∀ j, proj j s.sent = s.delivered j ++ s.cout j) ∧
    (∀ s s', Step S s s' → rank S μ w s' < rank S μ w s) ∧
    (∀ s n, Run S (init ins0 m0 opened0) s n → n ≤ rank S μ w (init ins0 m0 opened0)) ∧
    ((∀ j, j < S.nout → S.absent j = false) →
      (∀ s, Reach S (init ins0 m0 opened0) s → ¬ Final S s → ∃ s', Step S s s') ∧
      ∃ s n, Run S (init ins0 m0 opened0) s n ∧ Final S s) ∧
    ∀ s n, Run S (init ins0 m0 opened0) s n → Final S s → ∀ tr, Exec S.act m0 ins0 tr →
      ∀ j, j < S.nout → s.delivered j = proj j tr :=
  loop_stage L m0 ins0 opened0 hk

/-- the loop is deterministic: its pushes are a function of what it is fed -/
theorem loop_deterministic {σ : Type} (act : σ → Act σ) (m : σ) (ins : Nat → List Item)
    (tr tr' : List (Nat × Item)) (h : Exec act m ins tr) (h' : Exec act m ins tr') : tr = tr' :=
  exec_det h h'

/-- **Fold stages** (`for iterator.Next() { … Push … }; … Push …; Done()`): with every output consumed, for
every capacity, every input list and every scheduling: no deadlock, at most `rank` steps, some execution
ends, and every ended execution has delivered on output `j` exactly `proj j (foldTrace F t0 items)` — the
pushes of the sequential loop — in order. -/
theorem fold_stage {τ : Type} (F : Fold τ) (ν : τ → Nat) (w : Item → Nat) (hF : FLaw F ν w) (cap : Nat)
    (absent : Nat → Bool) (hab : ∀ j, j < F.nout → absent j = false) (items : List Item) (t0 : τ)
    (hok : FoldOk F t0 [] items) (opened0 : Nat → Bool) (hop : F.lazy = false → ∀ j, opened0 j = true) :
    let S := F.sys cap absent
    let s0 := init (one items) (FoldSt.out [] t0 []) opened0
    Exec F.act (.out [] t0 []) (one items) (foldTrace F t0 items) ∧
    (∀ s, Reach S s0 s → ∀ j, proj j s.sent = s.delivered j ++ s.cout j) ∧
    (∀ s, Reach S s0 s → ¬ Final S s → ∃ s', Step S s s') ∧
    (∀ s n, Run S s0 s n → n ≤ rank S (foldMu ν) w s0) ∧
    (∃ s n, Run S s0 s n ∧ Final S s) ∧
    ∀ s n, Run S s0 s n → Final S s → ∀ j, j < F.nout → s.delivered j = proj j (foldTrace F t0 items) := by
  intro S s0
  have L := fold_law F ν w hF cap absent
  have hk : ∀ j, foldKnown F (FoldSt.out [] t0 []) j → opened0 j = true := by
    intro j hj
    rcases hj with hj | hj
    · exact hop hj j
    · cases hj
  have hE : Exec F.act (.out [] t0 []) (one items) (foldTrace F t0 items) := by
    have := exec_fold F items [] t0 [] trivial hok
    simpa [pushes] using this
  obtain ⟨h1, _, h3, h4, h5⟩ := loop_stage L (FoldSt.out [] t0 []) (one items) opened0 hk
  refine ⟨hE, fun s hr => (h1 s hr).2, (h4 hab).1, h3, (h4 hab).2, ?_⟩
  intro s n r hf j hj
  exact h5 s n r hf _ hE j hj

/-- **Rebatch** (behind its `SortBatches`, whose stage is §13 of `Props/C03.lean`): every ended execution
has delivered exactly the batches of `Iter.rebatch size arr`, in order — hence (`rebatch_spec`) numbered
0,1,2,…, all records once in input order, sizes obeyed — for every scheduling and capacity -/
theorem rebatch_stage (size cap : Nat) (arr : List Batch) :
    let S := (rebatchF size).sys cap (fun _ => false)
    let s0 := init (one (sortBatches arr)) (FoldSt.out [] ([], 0, []) []) (fun _ => true)
    (∀ s, Reach S s0 s → ¬ Final S s → ∃ s', Step S s s') ∧
    (∃ s n, Run S s0 s n ∧ Final S s) ∧
    (∀ s n, Run S s0 s n → n ≤ rank S (foldMu fun t => t.2.2.length) (fun it => 2 * it.2.length + 1) s0) ∧
    ∀ s n, Run S s0 s n → Final S s → s.delivered 0 = rebatch size arr := by
  intro S s0
  obtain ⟨_, _, h3, h4, h5, h6⟩ := fold_stage (rebatchF size) _ _ (rebatch_flaw size) cap (fun _ => false)
    (fun _ _ => rfl) (sortBatches arr) ([], 0, []) (rebatch_foldOk size _ _ _) (fun _ => true) (fun _ _ => rfl)
  refine ⟨h3, h5, h4, ?_⟩
  intro s n r hf
  rw [h6 s n r hf 0 (by show 0 < 1; omega), rebatch_eq]
  have := rebatch_trace size (sortBatches arr) ([], 0, [])
  simpa using this

/-- **FilterEmpty**: delivered = `Iter.filterEmpty arr` -/
theorem filterEmpty_stage (cap : Nat) (arr : List Batch) :
    let S := filterEmptyF.sys cap (fun _ => false)
    let s0 := init (one (sortBatches arr)) (FoldSt.out [] 0 []) (fun _ => true)
    (∀ s, Reach S s0 s → ¬ Final S s → ∃ s', Step S s s') ∧
    (∃ s n, Run S s0 s n ∧ Final S s) ∧
    ∀ s n, Run S s0 s n → Final S s → s.delivered 0 = filterEmpty arr := by
  intro S s0
  obtain ⟨_, _, h3, _, h5, h6⟩ := fold_stage filterEmptyF _ _ filterEmpty_flaw cap (fun _ => false)
    (fun _ _ => rfl) (sortBatches arr) 0 (filterEmpty_foldOk _ _ _) (fun _ => true) (fun _ _ => rfl)
  refine ⟨h3, h5, ?_⟩
  intro s n r hf
  rw [h6 s n r hf 0 (by show 0 < 1; omega)]
  have := filterEmpty_trace (sortBatches arr) 0 []
  simpa [filterEmpty] using this

/-- **DivideOn**, both outputs consumed: no deadlock, termination, and each output gets the pushes of the
sequential loop (`divideF`), in order -/
theorem divide_stage (p : Iter.Rec → Bool) (size cap : Nat) (items : List Item) :
    let S := (divideF p size).sys cap (fun _ => false)
    let s0 := init (one items) (FoldSt.out [] ⟨[], [], 0, 0, [], []⟩ []) (fun _ => true)
    (∀ s, Reach S s0 s → ¬ Final S s → ∃ s', Step S s s') ∧
    (∃ s n, Run S s0 s n ∧ Final S s) ∧
    ∀ s n, Run S s0 s n → Final S s → ∀ j, j < 2 →
      s.delivered j = proj j (foldTrace (divideF p size) ⟨[], [], 0, 0, [], []⟩ items) := by
  intro S s0
  obtain ⟨_, _, h3, _, h5, h6⟩ := fold_stage (divideF p size) _ _ (divide_flaw p size) cap (fun _ => false)
    (fun _ _ => rfl) items ⟨[], [], 0, 0, [], []⟩ (divide_foldOk p size _ _ _) (fun _ => true) (fun _ _ => rfl)
  exact ⟨h3, h5, fun s n r hf j hj => h6 s n r hf j hj⟩

/-- **DivideOn with one output left unconsumed** (unbuffered channels, as in the code): as soon as the loop
has a batch for the unconsumed output, the OTHER output hangs too — its consumer never sees the end of the
stream.  Concrete instance: predicate "even", size 1, the single record 1 (odd: goes to output 1, whose
consumer is absent); after the first hand-off no reachable state is final.  This is why both results of
`DivideOn` must be consumed (obigrep `--save-discarded`, obimultiplex / obitagpcr `--unidentified` do:
a writer goroutine on the second output). -/
theorem divide_absent_consumer_blocks :
    let S := (divideF (fun r => r % 2 == 0) 1).sys 0 (fun j => j == 1)
    let s0 := init (one [(0, [1])]) (FoldSt.out [] ⟨[], [], 0, 0, [], []⟩ []) (fun _ => true)
    ∃ s, Reach S s0 s ∧ ∀ s', Reach S s s' → ¬ Final S s' := by
  intro S s0
  let F := divideF (fun r => r % 2 == 0) 1
  let d0 : DivSt := ⟨[], [], 0, 0, [], []⟩
  let f : Item → FoldSt DivSt := fun it => FoldSt.out (F.onItem d0 it).2 (F.onItem d0 it).1 []
  let s1 : St (FoldSt DivSt) := { s0 with todo := upd s0.todo 0 [], m := f (0, [1]) }
  have st : Step S s0 s1 := Step.prodHand s0 0 (0, [1]) [] f (FoldSt.fl (F.flush d0) []) rfl rfl rfl rfl
  refine ⟨s1, Reach.step Reach.init st, ?_⟩
  intro s' hr hf
  have hb : BlockedOn S 1 s1 := ⟨⟨_, _, rfl⟩, rfl, fun _ => rfl⟩
  have := (absent_blocks (S := S) rfl (j := 1) rfl hb s' hr).2 0 (by show 0 < 2; omega)
  rw [(hf 0 (by show 0 < 2; omega)).1] at this
  cases this

/-- **Distribute** (outputs created lazily: the consumer of output `j` exists only after `news <- j` has been
received; no consumer at all at the start), `cls r < nkeys`: the loop never pushes on an output it has not
announced (`distribute_foldOk`), hence — the client consuming every announced output — no deadlock,
termination, and each class output gets the pushes of the sequential loop, in order -/
theorem distribute_stage (cls : Iter.Rec → Nat) (size nkeys cap : Nat) (hc : ∀ r, cls r < nkeys)
    (items : List Item) :
    let S := (distributeF cls size nkeys).sys cap (fun _ => false)
    let s0 := init (one items) (FoldSt.out [] [] []) (fun _ => false)
    Exec (distributeF cls size nkeys).act (.out [] [] []) (one items) (foldTrace (distributeF cls size nkeys) [] items) ∧
    (∀ s, Reach S s0 s → ¬ Final S s → ∃ s', Step S s s') ∧
    (∃ s n, Run S s0 s n ∧ Final S s) ∧
    ∀ s n, Run S s0 s n → Final S s → ∀ j, j < nkeys →
      s.delivered j = proj j (foldTrace (distributeF cls size nkeys) [] items) := by
  intro S s0
  obtain ⟨h1, _, h3, _, h5, h6⟩ := fold_stage (distributeF cls size nkeys) _ _ (distribute_flaw cls size nkeys) cap
    (fun _ => false) (fun _ _ => rfl) items [] (distribute_foldOk cls size nkeys hc items [] [] (by simp))
    (fun _ => false) (fun h => by cases h)
  exact ⟨h1, h3, h5, fun s n r hf j hj => h6 s n r hf j hj⟩

/-- **CopyTee**: both outputs consumed — no deadlock, termination, each output gets every batch in order -/
theorem tee_stage (cap : Nat) (items : List Item) :
    let S := teeF.sys cap (fun _ => false)
    let s0 := init (one items) (FoldSt.out [] () []) (fun _ => true)
    (∀ s, Reach S s0 s → ¬ Final S s → ∃ s', Step S s s') ∧
    (∃ s n, Run S s0 s n ∧ Final S s) ∧
    ∀ s n, Run S s0 s n → Final S s → s.delivered 0 = items ∧ s.delivered 1 = items := by
  intro S s0
  obtain ⟨_, _, h3, _, h5, h6⟩ := fold_stage teeF _ _ tee_flaw cap (fun _ => false)
    (fun _ _ => rfl) items () (tee_foldOk _ _ _) (fun _ => true) (fun _ _ => rfl)
  refine ⟨h3, h5, ?_⟩
  intro s n r hf
  rw [h6 s n r hf 0 (by show 0 < 2; omega), h6 s n r hf 1 (by show 1 < 2; omega)]
  exact tee_trace items

/-- one-push-per-batch stages (`LimitMemory`, `Speed`, `PairedWith`) and `CompleteFileIterator` -/
theorem map_complete_stage (g : Item → Item) (cap : Nat) (items : List Item) :
    (let S := (mapF g).sys cap (fun _ => false)
     let s0 := init (one items) (FoldSt.out [] () []) (fun _ => true)
     (∀ s, Reach S s0 s → ¬ Final S s → ∃ s', Step S s s') ∧ (∃ s n, Run S s0 s n ∧ Final S s)) ∧
    (let S := completeF.sys cap (fun _ => false)
     let s0 := init (one items) (FoldSt.out [] [] []) (fun _ => true)
     (∀ s, Reach S s0 s → ¬ Final S s → ∃ s', Step S s s') ∧ (∃ s n, Run S s0 s n ∧ Final S s)) := by
  constructor
  · intro S s0
    obtain ⟨_, _, h3, _, h5, _⟩ := fold_stage (mapF g) _ _ (map_flaw g) cap (fun _ => false)
      (fun _ _ => rfl) items () (map_foldOk g _ _ _) (fun _ => true) (fun _ _ => rfl)
    exact ⟨h3, h5⟩
  · intro S s0
    obtain ⟨_, _, h3, _, h5, _⟩ := fold_stage completeF _ _ complete_flaw cap (fun _ => false)
      (fun _ _ => rfl) items [] (complete_foldOk _ _ _) (fun _ => true) (fun _ _ => rfl)
    exact ⟨h3, h5⟩

/-- **Concat** of `nin` inputs (each fed by its own producer, any of them possibly empty) and the **zip
loop of PairTo** (two inputs read alternately; `fatal` = `log.Fatalf` when the second ends first): safety,
no deadlock, bounded executions, delivered = big-step pushes -/
theorem concat_zip_stage (nin cap : Nat) (ins : Nat → List Item) :
    (let S := concatSys nin cap (fun _ => false)
     let s0 := init ins concatInit (fun _ => true)
     (∀ s, Reach S s0 s → ¬ Final S s → ∃ s', Step S s s') ∧ (∃ s n, Run S s0 s n ∧ Final S s) ∧
     (∀ s n, Run S s0 s n → n ≤ rank S (concatMu nin) (fun _ => 1) s0) ∧
     ∀ s n, Run S s0 s n → Final S s → ∀ tr, Exec (concatAct nin) concatInit ins tr → s.delivered 0 = proj 0 tr) ∧
    (let S := zipSys cap (fun _ => false)
     let s0 := init ins ZipSt.a (fun _ => true)
     (∀ s, Reach S s0 s → ¬ Final S s → ∃ s', Step S s s') ∧ (∃ s n, Run S s0 s n ∧ Final S s) ∧
     (∀ s n, Run S s0 s n → n ≤ rank S zipMu (fun _ => 2) s0) ∧
     ∀ s n, Run S s0 s n → Final S s → ∀ tr, Exec zipAct ZipSt.a ins tr → s.delivered 0 = proj 0 tr) := by
  constructor
  · intro S s0
    obtain ⟨_, _, h3, h4, h5⟩ := loop_stage (concat_law nin cap (fun _ => false)) concatInit ins (fun _ => true)
      (fun _ _ => rfl)
    exact ⟨(h4 (fun _ _ => rfl)).1, (h4 (fun _ _ => rfl)).2, h3,
      fun s n r hf tr he => h5 s n r hf tr he 0 (by show 0 < 1; omega)⟩
  · intro S s0
    obtain ⟨_, _, h3, h4, h5⟩ := loop_stage (zip_law cap (fun _ => false)) ZipSt.a ins (fun _ => true)
      (fun _ _ => rfl)
    exact ⟨(h4 (fun _ _ => rfl)).1, (h4 (fun _ _ => rfl)).2, h3,
      fun s n r hf tr he => h5 s n r hf tr he 0 (by show 0 < 1; omega)⟩

/-- non-vacuity: the big-step run of `Concat` on (one batch, an empty stream, two batches) renumbers
0,1,2 — the `Exec` hypothesis of `concat_zip_stage` is satisfiable and is what `Iter.concat` computes -/
example : ∃ tr, Exec (concatAct 3) concatInit
      (fun i => if i = 0 then [(0, [7])] else if i = 2 then [(1, [9]), (0, [8])] else []) tr ∧
    proj 0 tr = [(0, [7]), (2, [9]), (1, [8])] ∧
    concat [(0, [7])] [[], [(1, [9]), (0, [8])]] = [(0, [7]), (2, [9]), (1, [8])] := by
  refine ⟨[(0, (0, [7])), (0, (2, [9])), (0, (1, [8]))], ?_, by decide, by decide⟩
  refine Exec.item (i := 0) (it := (0, [7])) (rest := []) rfl rfl ?_
  refine Exec.send (j := 0) (b := (0, [7])) rfl ?_
  refine Exec.closed (i := 0) rfl rfl ?_
  refine Exec.closed (i := 1) rfl rfl ?_
  refine Exec.item (i := 2) (it := (1, [9])) (rest := [(0, [8])]) rfl rfl ?_
  refine Exec.send (j := 0) (b := (2, [9])) rfl ?_
  refine Exec.item (i := 2) (it := (0, [8])) (rest := []) rfl rfl ?_
  refine Exec.send (j := 0) (b := (1, [8])) rfl ?_
  refine Exec.closed (i := 2) rfl rfl ?_
  exact Exec.halt rfl

/-! ## nil worker / nil condition branches of the record-to-slice adapters -/

/-- `SeqToSliceWorker(nil, _)` is the identity on every batch; `SeqToSliceConditionalWorker(nil, w, _)` is
`SeqToSliceWorker(w, _)`; `SeqToSliceConditionalWorker(cond, nil, _)` keeps exactly the records satisfying
the condition, unchanged, in order, and never fails; with both nil it is the identity -/
theorem adapters_nil_branches (g : Nat → Nat) (hg : Grows g) (cond : Iter.Rec → Bool) (w : SeqWorker)
    (boe : Bool) (input : List Iter.Rec) :
    seqToSliceOpt g none boe input = .ok input ∧
    seqToSliceCondOpt g none (some w) boe input = seqToSlice g w boe input ∧
    seqToSliceCondOpt g none none boe input = .ok input ∧
    seqToSliceCondOpt g (some cond) none boe input = .ok (input.filter cond) := by
  refine ⟨rfl, rfl, rfl, ?_⟩
  show seqToSliceCond g cond nilSeqWorker boe input = _
  rw [ObiVerif.Props.C03.seqToSliceCond_spec g hg]
  have h1 : ((input.filter cond).any fun s => (nilSeqWorker s).isNone) = false := by
    simp [nilSeqWorker]
  have h2 : ((input.filter cond).flatMap fun s => (nilSeqWorker s).getD []) = input.filter cond := by
    simp [nilSeqWorker]
  simp [h1, h2]

/-- `nil.ChainWorkers(next) = next`, `w.ChainWorkers(nil) = w`, both nil = nil -/
theorem chainWorkers_nil_branches (g : Nat → Nat) (w n : SeqWorker) :
    chainWorkersOpt g none (some n) = some n ∧ chainWorkersOpt g (some w) none = some w ∧
    chainWorkersOpt g none none = none ∧ chainWorkersOpt g (some w) (some n) = some (chainWorkers g w n) :=
  ⟨rfl, rfl, rfl, rfl⟩

end ObiVerif.Props.C03S
