import ObiVerif.Props.C18Z
import ObiVerif.Lemmas.WriteKind
/-!
# C18 — output write failures are fatal WHATEVER the error value (property theorems)

`Model/WriteKind.lean` carries the error value returned by the sink (`werr i` for the `i`-th failing `Write`,
`cerr` for `Close`) and the test `chk : ε → Bool` that the writer applies to an error before `log.Fatalf`.
The code has `if err != nil { log.Fatalf(..) }`: `chk = fun _ => true`.

* `rawE_eq_rawO_all` / `jsonE_eq_jsonO_all`: with the code's `chk` the value model equals the Bool model of
  `Model/WriteErr.lean` for every error type, every error value, every arrival history (no permutation
  hypothesis); `rawE_eq_rawO` / `jsonE_eq_jsonO` are the instances on the arrival orders of chunks `0..n-1`.
* `raw_error_kind_free` / `json_error_kind_free`: outcome and bytes in the sink do not depend on which errors the
  sink returns, only on whether `Close` fails (across error types too).
* `rawE_exact` / `jsonE_exact`: the characterisation of `rawO_exact` / `jsonO_exact` for every error value.
* `filter_breaks_raw` / `filter_breaks_json`: a writer that filters the errors (`chk = fun x => x != EPIPE`, the
  seeded regression C18-m3) exits `ok` with a truncated output.
-/
namespace ObiVerif.Props.C18
open ObiVerif.Reseq ObiVerif.WriteErr

/-! ## the value model with the code's check is the Bool model -/

/-- FASTA / FASTQ / CSV, every arrival history -/
theorem rawE_eq_rawO_all {ε : Type} (size limit : Nat) (werr : Nat → ε) (cerr : Option ε) (own : Bool)
    (arr : List (Nat × Bytes)) :
    writeRawE (fun _ => true) size limit werr cerr own arr = writeRawO size limit cerr.isSome own arr := by
  unfold writeRawE writeRawO
  exact closeWE_sim
    (run_rel Sim (emitRawE (fun _ => true)) emitRaw (fun _ _ x h => emitRawE_sim h x) _ _
      (sim_init size limit werr cerr) arr) own

/-- JSON, every arrival history -/
theorem jsonE_eq_jsonO_all {ε : Type} (size limit : Nat) (werr : Nat → ε) (cerr : Option ε) (own : Bool)
    (arr : List (Nat × Bytes)) :
    writeJsonE (fun _ => true) size limit werr cerr own arr = writeJsonO size limit cerr.isSome own arr := by
  unfold writeJsonE writeJsonO
  have h0 : SimJ (⟨checkedWrite (fun _ => true) (initE size limit werr cerr) openJson, false⟩ : JE ε)
      ⟨(⟨size, [], false, ⟨limit, [], cerr.isSome⟩⟩ : BW).write openJson, false⟩ :=
    ⟨checkedWrite_sim (sim_init size limit werr cerr) openJson, rfl⟩
  have h := run_rel SimJ (emitJsonE (fun _ => true)) emitJson (fun _ _ x h => emitJsonE_sim h x) _ _ h0 arr
  exact closeWE_sim (checkedWrite_sim h.1 closeJson) own

theorem rawE_eq_rawO {ε : Type} (size limit : Nat) (werr : Nat → ε) (cerr : Option ε) (own : Bool)
    (v : Nat → Bytes) (n : Nat) (ks : List Nat) (_hp : ks.Perm (List.range n)) :
    writeRawE (fun _ => true) size limit werr cerr own (ks.map fun k => (k, v k)) =
      writeRawO size limit cerr.isSome own (ks.map fun k => (k, v k)) :=
  rawE_eq_rawO_all size limit werr cerr own _

theorem jsonE_eq_jsonO {ε : Type} (size limit : Nat) (werr : Nat → ε) (cerr : Option ε) (own : Bool)
    (v : Nat → Bytes) (n : Nat) (ks : List Nat) (_hp : ks.Perm (List.range n)) :
    writeJsonE (fun _ => true) size limit werr cerr own (ks.map fun k => (k, v k)) =
      writeJsonO size limit cerr.isSome own (ks.map fun k => (k, v k)) :=
  jsonE_eq_jsonO_all size limit werr cerr own _

/-- a check that accepts no error as harmless is the code's check -/
theorem chk_total {ε : Type} (chk : ε → Bool) (h : ∀ x, chk x = true) : chk = fun _ => true := funext h

/-! ## the error values are irrelevant -/

/-- outcome AND bytes in the sink are the same whatever errors `Write` and `Close` return, of whatever type:
only "does `Close` fail" matters -/
theorem raw_error_kind_free {ε ε' : Type} (size limit : Nat) (werr : Nat → ε) (werr' : Nat → ε')
    (cerr : Option ε) (cerr' : Option ε') (hc : cerr.isSome = cerr'.isSome) (own : Bool)
    (arr : List (Nat × Bytes)) :
    writeRawE (fun _ => true) size limit werr cerr own arr =
      writeRawE (fun _ => true) size limit werr' cerr' own arr := by
  rw [rawE_eq_rawO_all, rawE_eq_rawO_all, hc]

theorem json_error_kind_free {ε ε' : Type} (size limit : Nat) (werr : Nat → ε) (werr' : Nat → ε')
    (cerr : Option ε) (cerr' : Option ε') (hc : cerr.isSome = cerr'.isSome) (own : Bool)
    (arr : List (Nat × Bytes)) :
    writeJsonE (fun _ => true) size limit werr cerr own arr =
      writeJsonE (fun _ => true) size limit werr' cerr' own arr := by
  rw [jsonE_eq_jsonO_all, jsonE_eq_jsonO_all, hc]

/-! ## complete characterisation, for every error value -/

/-- the sink ends with the first `limit` bytes of the complete result; the exit is fatal iff the result does
not fit or the owned `Close` fails: whatever the values of the errors -/
theorem rawE_exact {ε : Type} (size limit : Nat) (werr : Nat → ε) (cerr : Option ε) (own : Bool)
    (v : Nat → Bytes) (n : Nat) (ks : List Nat) (hp : ks.Perm (List.range n)) :
    writeRawE (fun _ => true) size limit werr cerr own (ks.map fun k => (k, v k)) =
      (if limit < (rawExpected v n).length || (own && cerr.isSome) then .fatal else .ok,
       (rawExpected v n).take limit) := by
  rw [rawE_eq_rawO_all, rawO_exact size limit cerr.isSome own v n ks hp]

theorem jsonE_exact {ε : Type} (size limit : Nat) (werr : Nat → ε) (cerr : Option ε) (own : Bool)
    (v : Nat → Bytes) (n : Nat) (ks : List Nat) (hp : ks.Perm (List.range n)) :
    writeJsonE (fun _ => true) size limit werr cerr own (ks.map fun k => (k, v k)) =
      (if limit < (jsonExpected v n).length || (own && cerr.isSome) then .fatal else .ok,
       (jsonExpected v n).take limit) := by
  rw [jsonE_eq_jsonO_all, jsonO_exact size limit cerr.isSome own v n ks hp]

/-- an `ok` exit implies the sink holds every byte, for every error value -/
theorem rawE_ok_all_bytes {ε : Type} (size limit : Nat) (werr : Nat → ε) (cerr : Option ε) (own : Bool)
    (v : Nat → Bytes) (n : Nat) (ks : List Nat) (hp : ks.Perm (List.range n)) (got : Bytes)
    (h : writeRawE (fun _ => true) size limit werr cerr own (ks.map fun k => (k, v k)) = (.ok, got)) :
    got = rawExpected v n ∧ (own && cerr.isSome) = false := by
  rw [rawE_exact size limit werr cerr own v n ks hp] at h
  exact exact_ok h

theorem jsonE_ok_all_bytes {ε : Type} (size limit : Nat) (werr : Nat → ε) (cerr : Option ε) (own : Bool)
    (v : Nat → Bytes) (n : Nat) (ks : List Nat) (hp : ks.Perm (List.range n)) (got : Bytes)
    (h : writeJsonE (fun _ => true) size limit werr cerr own (ks.map fun k => (k, v k)) = (.ok, got)) :
    got = jsonExpected v n ∧ (own && cerr.isSome) = false := by
  rw [jsonE_exact size limit werr cerr own v n ks hp] at h
  exact exact_ok h

/-! ## the arrival order is irrelevant for every check (used to evaluate the counterexamples) -/

theorem rawE_order_free {ε : Type} (chk : ε → Bool) (size limit : Nat) (werr : Nat → ε) (cerr : Option ε)
    (own : Bool) (v : Nat → Bytes) (n : Nat) (ks : List Nat) (hp : ks.Perm (List.range n)) :
    writeRawE chk size limit werr cerr own (ks.map fun k => (k, v k)) =
      closeWE chk own (((List.range n).map v).foldl (emitRawE chk) (initE size limit werr cerr)) := by
  unfold writeRawE
  rw [(run_perm (emitRawE chk) _ v n ks hp).1]

theorem jsonE_order_free {ε : Type} (chk : ε → Bool) (size limit : Nat) (werr : Nat → ε) (cerr : Option ε)
    (own : Bool) (v : Nat → Bytes) (n : Nat) (ks : List Nat) (hp : ks.Perm (List.range n)) :
    writeJsonE chk size limit werr cerr own (ks.map fun k => (k, v k)) =
      closeWE chk own (checkedWrite chk
        (((List.range n).map v).foldl (emitJsonE chk)
          ⟨checkedWrite chk (initE size limit werr cerr) openJson, false⟩).w closeJson) := by
  unfold writeJsonE
  simp only
  rw [(run_perm (emitJsonE chk) _ v n ks hp).1]

/-! ## a filtering check breaks the property: the seeded regression C18-m3 expressed in the model

`chk = fun x => x != 32`: the writer ignores the errors for which `errors.Is(err, syscall.EPIPE)` (EPIPE = 32).
Buffer 4 bytes, sink accepting 4 bytes, chunks `ABC`, ``, `CBC` arriving in the order 1, 0, 2 (6 bytes). -/

/-- the sink fails with EPIPE: the exit is `ok` although the sink holds 4 of the 6 bytes -/
theorem filter_breaks_raw :
    writeRawE (fun x : Nat => x != 32) 4 4 (fun _ => 32) none true ([1, 0, 2].map fun k => (k, exV k))
      = (.ok, [65, 66, 67, 67]) ∧
    rawExpected exV 3 = [65, 66, 67, 67, 66, 67] := by
  rw [rawE_order_free _ 4 4 _ none true exV 3 [1, 0, 2] (by decide)]
  decide

/-- the same filtering writer over a sink failing with ENOSPC (28) is fatal: the verdict depends on the error value -/
theorem filter_kind_dependent_raw :
    writeRawE (fun x : Nat => x != 32) 4 4 (fun _ => 28) none true ([1, 0, 2].map fun k => (k, exV k))
      = (.fatal, [65, 66, 67, 67]) := by
  rw [rawE_order_free _ 4 4 _ none true exV 3 [1, 0, 2] (by decide)]
  decide

/-- the code's check on the same two runs: fatal both times -/
theorem nofilter_raw :
    writeRawE (fun _ : Nat => true) 4 4 (fun _ => 32) none true ([1, 0, 2].map fun k => (k, exV k))
      = (.fatal, [65, 66, 67, 67]) ∧
    writeRawE (fun _ : Nat => true) 4 4 (fun _ => 28) none true ([1, 0, 2].map fun k => (k, exV k))
      = (.fatal, [65, 66, 67, 67]) := by
  rw [rawE_exact 4 4 _ none true exV 3 [1, 0, 2] (by decide),
    rawE_exact 4 4 _ none true exV 3 [1, 0, 2] (by decide)]
  decide

/-- JSON, limit 7 of 13 bytes, EPIPE ignored: `ok` with a truncated document -/
theorem filter_breaks_json :
    writeJsonE (fun x : Nat => x != 32) 4 7 (fun _ => 32) none true ([1, 0, 2].map fun k => (k, exV k))
      = (.ok, [91, 10, 65, 66, 67, 44, 10]) ∧
    (jsonExpected exV 3).length = 13 := by
  rw [jsonE_order_free _ 4 7 _ none true exV 3 [1, 0, 2] (by decide)]
  decide

/-- an ignored error of `Close` (everything fits, `Close` fails with EPIPE): `ok`; with another value: fatal -/
theorem filter_breaks_close :
    writeRawE (fun x : Nat => x != 32) 4 6 (fun _ => 0) (some 32) true ([1, 0, 2].map fun k => (k, exV k))
      = (.ok, [65, 66, 67, 67, 66, 67]) ∧
    writeRawE (fun x : Nat => x != 32) 4 6 (fun _ => 0) (some 5) true ([1, 0, 2].map fun k => (k, exV k))
      = (.fatal, [65, 66, 67, 67, 66, 67]) := by
  rw [rawE_order_free _ 4 6 _ (some 32) true exV 3 [1, 0, 2] (by decide),
    rawE_order_free _ 4 6 _ (some 5) true exV 3 [1, 0, 2] (by decide)]
  decide

/-! ## non-vacuity -/

/-- `rawE_eq_rawO`, two different error values on the two failing writes (EPIPE then ENOSPC) -/
example : writeRawE (fun _ : Nat => true) 4 4 (fun i => if i = 0 then 32 else 28) none true
      ([1, 0, 2].map fun k => (k, exV k)) =
    writeRawO 4 4 false true ([1, 0, 2].map fun k => (k, exV k)) :=
  rawE_eq_rawO 4 4 _ none true exV 3 [1, 0, 2] (by decide)

/-- `raw_error_kind_free` between an EPIPE sink and an ENOSPC sink, `Close` failing with different values;
both sides evaluated -/
example : writeRawE (fun _ : Nat => true) 4 4 (fun _ => 32) (some 32) true ([1, 0, 2].map fun k => (k, exV k)) =
    writeRawE (fun _ : Nat => true) 4 4 (fun _ => 28) (some 5) true ([1, 0, 2].map fun k => (k, exV k)) :=
  raw_error_kind_free 4 4 (fun _ => 32) (fun _ => 28) (some 32) (some 5) rfl true
    ([1, 0, 2].map fun k => (k, exV k))

example :
    writeRawE (fun _ : Nat => true) 4 4 (fun _ => 32) (some 32) true ([1, 0, 2].map fun k => (k, exV k))
      = (.fatal, [65, 66, 67, 67]) ∧
    writeRawE (fun _ : Nat => true) 4 4 (fun _ => 28) (some 5) true ([1, 0, 2].map fun k => (k, exV k))
      = (.fatal, [65, 66, 67, 67]) := by
  rw [rawE_order_free _ 4 4 _ (some 32) true exV 3 [1, 0, 2] (by decide),
    rawE_order_free _ 4 4 _ (some 5) true exV 3 [1, 0, 2] (by decide)]
  decide

/-- across error types: `Nat` errno against `String` messages -/
example : writeJsonE (fun _ : Nat => true) 4 7 (fun _ => 32) none false ([1, 0, 2].map fun k => (k, exV k)) =
    writeJsonE (fun _ : String => true) 4 7 (fun i => if i = 0 then "broken pipe" else "no space left on device")
      none false ([1, 0, 2].map fun k => (k, exV k)) :=
  json_error_kind_free (ε := Nat) (ε' := String) 4 7 (fun _ => 32)
    (fun i => if i = 0 then "broken pipe" else "no space left on device") none none rfl false
    ([1, 0, 2].map fun k => (k, exV k))

/-- `rawE_exact`: limit 4 of 6 bytes, EPIPE: fatal, first 4 bytes; limit 6, `Close` failing with EIO (5): fatal, all bytes;
limit 6, not owned: ok -/
example : writeRawE (fun _ : Nat => true) 4 4 (fun _ => 32) none true ([1, 0, 2].map fun k => (k, exV k))
    = (.fatal, [65, 66, 67, 67]) := by
  rw [rawE_exact 4 4 _ none true exV 3 [1, 0, 2] (by decide)]
  decide

example : writeRawE (fun _ : Nat => true) 4 6 (fun _ => 28) (some 5) true ([1, 0, 2].map fun k => (k, exV k))
    = (.fatal, [65, 66, 67, 67, 66, 67]) := by
  rw [rawE_exact 4 6 _ (some 5) true exV 3 [1, 0, 2] (by decide)]
  decide

example : writeRawE (fun _ : Nat => true) 4 6 (fun _ => 28) (some 5) false ([1, 0, 2].map fun k => (k, exV k))
    = (.ok, [65, 66, 67, 67, 66, 67]) := by
  rw [rawE_exact 4 6 _ (some 5) false exV 3 [1, 0, 2] (by decide)]
  decide

/-- `jsonE_exact`: the fault inside the separator, EPIPE and ENOSPC alike -/
example : writeJsonE (fun _ : Nat => true) 4 7 (fun _ => 32) none true ([1, 0, 2].map fun k => (k, exV k))
    = (.fatal, [91, 10, 65, 66, 67, 44, 10]) := by
  rw [jsonE_exact 4 7 _ none true exV 3 [1, 0, 2] (by decide)]
  decide

example : writeJsonE (fun _ : Nat => true) 4 7 (fun _ => 28) none true ([1, 0, 2].map fun k => (k, exV k))
    = (.fatal, [91, 10, 65, 66, 67, 44, 10]) := by
  rw [jsonE_exact 4 7 _ none true exV 3 [1, 0, 2] (by decide)]
  decide

/-- `rawE_ok_all_bytes` has a satisfiable hypothesis -/
example : ∃ got, writeRawE (fun _ : Nat => true) 4 6 (fun _ => 32) none true ([1, 0, 2].map fun k => (k, exV k))
    = (.ok, got) ∧ got = rawExpected exV 3 := by
  have h : writeRawE (fun _ : Nat => true) 4 6 (fun _ => 32) none true ([1, 0, 2].map fun k => (k, exV k))
      = (.ok, [65, 66, 67, 67, 66, 67]) := by
    rw [rawE_exact 4 6 _ none true exV 3 [1, 0, 2] (by decide)]
    decide
  exact ⟨_, h, (rawE_ok_all_bytes 4 6 _ none true exV 3 [1, 0, 2] (by decide) _ h).1⟩

/-- the stored error is the FIRST one (sticky): two failing flushes cannot happen, the value kept is `werr 0` -/
example : ((BWE.write (⟨2, [], none, ⟨3, [], fun i => 100 + i, 0, none⟩⟩ : BWE Nat) [1, 2, 3, 4, 5]).write
    [6, 7, 8]).err = some 100 := by decide

end ObiVerif.Props.C18
