import ObiVerif.Props.C18Proc
import ObiVerif.Model.WriteGlue
set_option Elab.async false
/-!
# C18 — the glue between the commands and the writers (property theorems)

`Model/WriteGlue.lean` transcribes `obiformats.WriteSequence` (`universal_write.go`) and
`obiconvert.CLIWriteBioSequences` (`sequence_writer.go`).  Over the writer theorems (`rawO_exact`, `jsonO_exact`,
`gz_raw_exact`, `gz_json_exact`) and the process theorems (`exit_nonzero_of_failure`):

* `choice_eq_guess`, `choice_ne_notReady`: `WriteSequence` starts `WriteFastq` iff the first batch **that arrives** is
  not empty and its first record has qualities, `WriteFasta` for any other first batch, nothing for a result with no
  batch; the branch "input iterator not ready" is dead;
* `writer_exact`: the four cases (format x compressed) of the anchored writers behind one statement;
* `ws_exact` (a result of at least one batch, empty batches included) and `ws_empty` (the explicit clause for a result
  with NO batch, as the code is: nothing has to be written, nothing is, the stream is not even closed);
* `cli_write_exact`: for EVERY result (the empty one included), every format option, compressed or not, file or
  standard output, every fault offset and `Close` behaviour: the stream ends with the first `limit` bytes of what the
  glue had to put on it (`glueExpected`) and the outcome is fatal iff the stream cannot be opened, or those bytes do not
  fit, or a writer was started, owns the stream and its `Close` fails;
* `cli_ok_complete`, `cli_exit0_all_complete`: exit status 0, under any interleaving, implies that every stream of the
  command (both files of a paired output) could be opened, holds every byte the glue had to write and was closed without
  error when the glue closes it; `cli_one_bad_exit_nonzero`: one stream that cannot take its bytes: never status 0;
* `cli_empty_guessed`: the empty result under the default format needs no byte, compressed or not (exit 0 on `/dev/full`
  is then correct), whereas under an explicit format with `-Z` it needs the gzip stream of the empty input
  (`cli_empty_explicit_gz`), and under `--json-output` the 5 bytes of the empty document;
* `swallowed_close_breaks`: a glue that, for the empty result, closes the wrapped stream and drops the error of that
  `Close` (the seeded regression C18-m6) does exit `ok` with bytes missing: the empty clause is not vacuous.
-/
namespace ObiVerif.Props.C18
open ObiVerif.Reseq ObiVerif.WriteErr ObiVerif.WriteGlue ObiVerif.WriteProc

/-- the complete uncompressed result in format `f`: batch 0, batch 1, …, batch n-1 -/
def plainExpected (f : Fmt) (gb : Nat → GB) (n : Nat) : Bytes :=
  match f with
  | .json => jsonExpected (fun k => (gb k).js) n
  | .fasta => rawExpected (fun k => (gb k).fa) n
  | .fastq => rawExpected (fun k => (gb k).fq) n

/-- what goes on the stream: the result, or its complete gzip stream -/
def onWire (c : Codec) (gz : Bool) (x : Bytes) : Bytes := if gz then c.stream x else x

/-- the format guessed by `WriteSequence` from the first batch that arrives -/
def fmtOf (b : GB) : Fmt := if b.firstQual = some true then .fastq else .fasta

def guess (arr : List GB) : Option Fmt := arr.head?.map fmtOf

/-! ## the choice made by `WriteSequence` -/

theorem choice_eq_guess (arr : List GB) :
    choice arr = match guess arr with
      | some f => .start f
      | none => .nothing := by
  cases arr with
  | nil => rfl
  | cons b t =>
    simp only [choice, next, guess, List.head?, Option.map, fmtOf, if_true]
    cases hq : b.firstQual with
    | none => simp
    | some q => cases q <;> simp

/-- "input iterator not ready" cannot happen: a false `Next()` leaves `finished` set -/
theorem choice_ne_notReady (arr : List GB) : choice arr ≠ .notReady := by
  rw [choice_eq_guess]
  cases guess arr <;> simp

/-- the explicit empty-result clause, as the code is: a result with no batch leaves the stream untouched (no byte,
no `Close`), whatever the stream, compressed or not -/
theorem ws_empty (e : Env) (o : Out) : writeSequence e o [] = ⟨.ok, [], 0⟩ := rfl

/-! ## the writers, behind one statement -/

def exactRes (limit : Nat) (closeFails : Bool) (w : Bytes) : Outcome × Bytes :=
  (if limit < w.length || closeFails then .fatal else .ok, w.take limit)

theorem chunks_map (f : Fmt) (gb : Nat → GB) (hord : ∀ k, (gb k).order = k) (ks : List Nat) :
    ((ks.map gb).map fun b => (b.order, b.text f)) = ks.map fun k => (k, (gb k).text f) := by
  rw [List.map_map]
  apply List.map_congr_left
  intro k _
  simp [hord]

theorem writer_exact (e : Env) (hm : Mono e.c) (f : Fmt) (o : Out) (gb : Nat → GB) (hord : ∀ k, (gb k).order = k)
    (n : Nat) (ks : List Nat) (hp : ks.Perm (List.range n)) :
    writer e f o (ks.map gb) =
      ⟨(exactRes o.limit (o.own && o.cf) (onWire e.c o.gz (plainExpected f gb n))).1,
       (exactRes o.limit (o.own && o.cf) (onWire e.c o.gz (plainExpected f gb n))).2,
       if o.own then 1 else 0⟩ := by
  obtain ⟨gz, limit, cf, own⟩ := o
  unfold writer
  simp only [chunks_map f gb hord ks]
  cases f <;> cases gz <;> simp only [GB.text, exactRes, onWire, plainExpected, Bool.false_eq_true, if_false, if_true]
  · rw [rawO_exact e.size limit cf own (fun k => (gb k).fa) n ks hp]
  · rw [gz_raw_exact e.c hm e.rep e.size limit cf own (fun k => (gb k).fa) n ks hp]
  · rw [rawO_exact e.size limit cf own (fun k => (gb k).fq) n ks hp]
  · rw [gz_raw_exact e.c hm e.rep e.size limit cf own (fun k => (gb k).fq) n ks hp]
  · rw [jsonO_exact e.size limit cf own (fun k => (gb k).js) n ks hp]
  · rw [gz_json_exact e.c hm e.rep e.size limit cf own (fun k => (gb k).js) n ks hp]

/-- `WriteSequence` on a result of at least one batch (empty batches included), any arrival order: the writer of the
format guessed from the first batch that arrives, over the whole result -/
theorem ws_exact (e : Env) (hm : Mono e.c) (o : Out) (gb : Nat → GB) (hord : ∀ k, (gb k).order = k)
    (n : Nat) (k0 : Nat) (ks : List Nat) (hp : (k0 :: ks).Perm (List.range n)) :
    writeSequence e o ((k0 :: ks).map gb) =
      ⟨(exactRes o.limit (o.own && o.cf) (onWire e.c o.gz (plainExpected (fmtOf (gb k0)) gb n))).1,
       (exactRes o.limit (o.own && o.cf) (onWire e.c o.gz (plainExpected (fmtOf (gb k0)) gb n))).2,
       if o.own then 1 else 0⟩ := by
  unfold writeSequence
  rw [choice_eq_guess]
  simp only [guess, List.map, List.head?, Option.map]
  exact writer_exact e hm (fmtOf (gb k0)) o gb hord n (k0 :: ks) hp

/-! ## `CLIWriteBioSequences` -/

/-- the bytes the glue has to put on one stream: under an explicit format the (compressed) result in that format, the
empty result included (gzip stream of nothing, empty JSON document); under the default format the (compressed) result
in the guessed format, and NOTHING for a result with no batch -/
def glueExpected (c : Codec) (gz : Bool) (fo : Option Fmt) (gb : Nat → GB) (n : Nat) (ks : List Nat) : Bytes :=
  match fo with
  | some f => onWire c gz (plainExpected f gb n)
  | none =>
    match ks with
    | [] => []
    | k0 :: _ => onWire c gz (plainExpected (fmtOf (gb k0)) gb n)

/-- is a writer goroutine started (and the stream wrapped, then closed) -/
def startsWriter (fo : Option Fmt) (ks : List Nat) : Bool := fo.isSome || !ks.isEmpty

theorem cli_write_exact (e : Env) (hm : Mono e.c) (c : Cli) (own : Bool) (d : Dest) (gb : Nat → GB)
    (hord : ∀ k, (gb k).order = k) (n : Nat) (ks : List Nat) (hp : ks.Perm (List.range n)) :
    ((cliOne e c own d (ks.map gb)).out, (cliOne e c own d (ks.map gb)).got) =
      (if !d.openable then (.fatal, [])
       else exactRes d.limit (startsWriter c.format ks && (own && d.cf)) (glueExpected e.c c.gz c.format gb n ks)) ∧
    (cliOne e c own d (ks.map gb)).closes = (if d.openable && startsWriter c.format ks && own then 1 else 0) := by
  unfold cliOne
  cases ho : d.openable with
  | false => simp
  | true =>
    simp only [Bool.not_true, Bool.false_eq_true, if_false, Bool.true_and]
    cases hf : c.format with
    | some f =>
      simp only [writer_exact e hm f ⟨c.gz, d.limit, d.cf, own⟩ gb hord n ks hp, glueExpected, startsWriter,
        Option.isSome, Bool.true_or, Bool.true_and]
      constructor <;> first | rfl | trivial
    | none =>
      cases ks with
      | nil =>
        simp only [List.map, ws_empty, glueExpected, startsWriter, Option.isSome, List.isEmpty, Bool.not_true,
          Bool.or_self, Bool.false_and, exactRes, List.length_nil, Nat.not_lt_zero, decide_false, List.take_nil]
        exact ⟨rfl, rfl⟩
      | cons k0 ks =>
        simp only [ws_exact e hm ⟨c.gz, d.limit, d.cf, own⟩ gb hord n k0 ks hp, glueExpected, startsWriter,
          Option.isSome, List.isEmpty, Bool.not_false, Bool.or_true, Bool.true_and]
        constructor <;> first | rfl | trivial

/-- an `ok` stream could be opened, holds every byte the glue had to write, and was closed without error if the
glue closes it -/
theorem cli_ok_complete (e : Env) (hm : Mono e.c) (c : Cli) (own : Bool) (d : Dest) (gb : Nat → GB)
    (hord : ∀ k, (gb k).order = k) (n : Nat) (ks : List Nat) (hp : ks.Perm (List.range n))
    (h : (cliOne e c own d (ks.map gb)).out = .ok) :
    d.openable = true ∧ (cliOne e c own d (ks.map gb)).got = glueExpected e.c c.gz c.format gb n ks ∧
      (startsWriter c.format ks = true → own = true → d.cf = false) := by
  have hx := (cli_write_exact e hm c own d gb hord n ks hp).1
  cases ho : d.openable with
  | false =>
    rw [ho] at hx
    simp only [Bool.not_false, if_true] at hx
    rw [h] at hx
    cases (Prod.mk.inj hx).1
  | true =>
    rw [ho] at hx
    simp only [Bool.not_true, Bool.false_eq_true, if_false, exactRes] at hx
    rw [h] at hx
    have h1 := (Prod.mk.inj hx).1
    have h2 := (Prod.mk.inj hx).2
    by_cases hc : (d.limit < (glueExpected e.c c.gz c.format gb n ks).length ||
        (startsWriter c.format ks && (own && d.cf))) = true
    · rw [if_pos hc] at h1; cases h1
    · simp only [Bool.or_eq_true, decide_eq_true_eq, not_or, Nat.not_lt, Bool.and_eq_true, not_and,
        Bool.not_eq_true] at hc
      refine ⟨rfl, ?_, fun hs ho' => hc.2 hs ho'⟩
      rw [h2, List.take_of_length_le hc.1]

/-- **the property at the level of the command**: for every result (empty or not), every format option, compressed or
not, file(s) or standard output, paired or not, every fault offset / `Close` behaviour / openability of each
destination, every arrival order of the result and of its mates, every interleaving of the goroutines: exit status 0
implies that every stream of the command was opened, holds every byte the glue had to write on it, and that its
`Close`, when the glue closes it, succeeded. -/
theorem cli_exit0_all_complete (e : Env) (hm : Mono e.c) (c : Cli) (ds : List Dest)
    (gb gb' : Nat → GB) (hord : ∀ k, (gb k).order = k) (hord' : ∀ k, (gb' k).order = k)
    (n n' : Nat) (ks ks' : List Nat) (hp : ks.Perm (List.range n)) (hp' : ks'.Perm (List.range n'))
    (sched : List Tid) (h : cliExit e c ds (ks.map gb) (ks'.map gb') sched = some 0) :
    ∀ sd ∈ c.streams.zip ds,
      sd.2.openable = true ∧
      (cliOne e c sd.1.2 sd.2 (if sd.1.1 then ks'.map gb' else ks.map gb)).got =
        (if sd.1.1 then glueExpected e.c c.gz c.format gb' n' ks' else glueExpected e.c c.gz c.format gb n ks) ∧
      (startsWriter c.format (if sd.1.1 then ks' else ks) = true → sd.1.2 = true → sd.2.cf = false) := by
  intro sd hsd
  have hok : (cliOne e c sd.1.2 sd.2 (if sd.1.1 then ks'.map gb' else ks.map gb)).out = .ok := by
    cases hc : (cliOne e c sd.1.2 sd.2 (if sd.1.1 then ks'.map gb' else ks.map gb)).out with
    | ok => rfl
    | fatal =>
      exfalso
      refine exit_nonzero_of_failure _ sched ?_ h
      refine List.mem_map.mpr ⟨cliOne e c sd.1.2 sd.2 (if sd.1.1 then ks'.map gb' else ks.map gb), ?_, by simp [hc]⟩
      unfold cliWrite
      exact List.mem_map.mpr ⟨sd, hsd, rfl⟩
  cases hm1 : sd.1.1 with
  | false =>
    rw [hm1] at hok
    simp only [Bool.false_eq_true, if_false] at hok ⊢
    exact cli_ok_complete e hm c sd.1.2 sd.2 gb hord n ks hp hok
  | true =>
    rw [hm1] at hok
    simp only [if_true] at hok ⊢
    exact cli_ok_complete e hm c sd.1.2 sd.2 gb' hord' n' ks' hp' hok

/-- one stream of the command that cannot be opened or cannot take its bytes: no interleaving exits 0 -/
theorem cli_one_bad_exit_nonzero (e : Env) (hm : Mono e.c) (c : Cli) (ds : List Dest)
    (gb gb' : Nat → GB) (hord : ∀ k, (gb k).order = k) (hord' : ∀ k, (gb' k).order = k)
    (n n' : Nat) (ks ks' : List Nat) (hp : ks.Perm (List.range n)) (hp' : ks'.Perm (List.range n'))
    (sd : (Bool × Bool) × Dest) (hsd : sd ∈ c.streams.zip ds)
    (hbad : sd.2.openable = false ∨
      sd.2.limit < (if sd.1.1 then glueExpected e.c c.gz c.format gb' n' ks'
                    else glueExpected e.c c.gz c.format gb n ks).length)
    (sched : List Tid) : cliExit e c ds (ks.map gb) (ks'.map gb') sched ≠ some 0 := by
  intro h
  have hc := cli_exit0_all_complete e hm c ds gb gb' hord hord' n n' ks ks' hp hp' sched h sd hsd
  rcases hbad with hb | hb
  · rw [hb] at hc; cases hc.1
  · have hl := congrArg List.length hc.2.1
    have hx := (cli_write_exact e hm c sd.1.2 sd.2 (if sd.1.1 then gb' else gb)
      (by cases sd.1.1 <;> simp [hord, hord']) (if sd.1.1 then n' else n) (if sd.1.1 then ks' else ks)
      (by cases sd.1.1 <;> simp [hp, hp'])).1
    simp only [hc.1, Bool.not_true, Bool.false_eq_true, if_false, exactRes] at hx
    have hg := congrArg (fun p => p.2.length) hx
    cases hm1 : sd.1.1 <;> rw [hm1] at hl hb hg <;>
      simp only [Bool.false_eq_true, if_false, if_true, List.length_take] at hl hb hg <;> omega

/-! ## the empty result -/

/-- default format, a result with no batch: every stream that can be opened ends `ok` with no byte written and no
`Close`, whatever it accepts, compressed or not — `obigrep <nothing selected> -Z -o /dev/full` exits 0 and nothing
of the result is missing, because the code writes no gzip member for it -/
theorem cli_empty_guessed (e : Env) (c : Cli) (hf : c.format = none) (own : Bool) (d : Dest)
    (ho : d.openable = true) : cliOne e c own d [] = ⟨.ok, [], 0⟩ := by
  unfold cliOne
  simp [ho, hf, ws_empty]

/-- explicit format, `-Z`, a result with no batch: the gzip stream of the empty input has to be written; a stream that
does not take all of it is fatal -/
theorem cli_empty_explicit_gz (e : Env) (hm : Mono e.c) (c : Cli) (f : Fmt) (hf : c.format = some f) (hz : c.gz = true)
    (hne : f ≠ .json) (own : Bool) (d : Dest) (ho : d.openable = true) (hl : d.limit < (e.c.stream []).length) :
    (cliOne e c own d []).out = .fatal := by
  have hx := (cli_write_exact e hm c own d (fun k => ⟨k, none, [], [], []⟩) (fun _ => rfl) 0 [] (List.Perm.refl _)).1
  simp only [List.map_nil, ho, Bool.not_true, Bool.false_eq_true, if_false, exactRes, glueExpected, hf, hz, onWire,
    if_true] at hx
  have he : plainExpected f (fun k => (⟨k, none, [], [], []⟩ : GB)) 0 = [] := by
    cases f
    · rfl
    · rfl
    · exact absurd rfl hne
  rw [he] at hx
  have h1 := (Prod.mk.inj hx).1
  rw [h1]
  simp [hl]

/-- `--json-output`, not compressed, a result with no batch: the 5 bytes `[\n\n]\n` have to be written -/
theorem cli_empty_json (e : Env) (hm : Mono e.c) (c : Cli) (hf : c.format = some .json) (hz : c.gz = false)
    (own : Bool) (d : Dest) (ho : d.openable = true) (hl : d.limit < 5) :
    (cliOne e c own d []).out = .fatal := by
  have hx := (cli_write_exact e hm c own d (fun k => ⟨k, none, [], [], []⟩) (fun _ => rfl) 0 [] (List.Perm.refl _)).1
  simp only [List.map_nil, ho, Bool.not_true, Bool.false_eq_true, if_false, exactRes, glueExpected, hf, hz, onWire]
    at hx
  have he : (plainExpected .json (fun k => (⟨k, none, [], [], []⟩ : GB)) 0).length = 5 := by decide
  have h1 := (Prod.mk.inj hx).1
  rw [h1, he]
  simp [hl]

/-! ## the seeded regression C18-m6: the empty branch closes the wrapped stream and drops the error -/

/-- `out, err := CompressStream(file, compressed, close); if err == nil { out.Close() }; return iterator, err` -/
def writeSequenceSwallow (e : Env) (o : Out) (arr : List GB) : Res :=
  match choice arr with
  | .nothing => ⟨.ok, (writer e .fasta o []).got, if o.own then 1 else 0⟩
  | _ => writeSequence e o arr

/-- with that glue an empty compressed result on a stream that takes no byte ends `ok` although the bytes written on a
healthy stream (the gzip member of the empty input) are missing -/
theorem swallowed_close_breaks (e : Env) (hm : Mono e.c) (hz : 0 < (e.c.stream []).length) :
    (writeSequenceSwallow e ⟨true, 0, false, true⟩ []).out = .ok ∧
    (writeSequenceSwallow e ⟨true, 0, false, true⟩ []).got.length <
      (writeSequenceSwallow e ⟨true, (e.c.stream []).length, false, true⟩ []).got.length := by
  have h0 := writer_exact e hm .fasta ⟨true, 0, false, true⟩ (fun k => ⟨k, none, [], [], []⟩) (fun _ => rfl) 0 []
    (List.Perm.refl _)
  have h1 := writer_exact e hm .fasta ⟨true, (e.c.stream []).length, false, true⟩ (fun k => ⟨k, none, [], [], []⟩)
    (fun _ => rfl) 0 [] (List.Perm.refl _)
  simp only [List.map_nil] at h0 h1
  have he : plainExpected .fasta (fun k => (⟨k, none, [], [], []⟩ : GB)) 0 = [] := rfl
  refine ⟨rfl, ?_⟩
  show (writer e .fasta ⟨true, 0, false, true⟩ []).got.length <
    (writer e .fasta ⟨true, (e.c.stream []).length, false, true⟩ []).got.length
  rw [h0, h1]
  simp only [exactRes, onWire, if_true, he, List.take_zero, List.length_nil, List.take_length]
  exact hz

/-! ## non-vacuity -/

/-- batches of the examples: batch 1 is empty, batch 0 and 2 hold records with qualities -/
def exGB (k : Nat) : GB :=
  ⟨k, if k = 1 then none else some true, [62, 65 + k.toUInt8, 10], [64, 65 + k.toUInt8, 10], [123, 125]⟩

def exEnv : Env := ⟨lenCodec 25, fun i => i % 2 = 1, 4⟩

/-- the first batch that arrives is the empty one: FASTA although the others have qualities -/
example : choice ([1, 0, 2].map exGB) = .start .fasta := by decide
example : choice ([0, 1, 2].map exGB) = .start .fastq := by decide
example : choice [] = .nothing := by decide

/-- `ws_exact` on arrival order 2,0,1 (FASTQ), limit 5 of 9 bytes: fatal with the first 5 bytes -/
example : writeSequence exEnv ⟨false, 5, false, true⟩ ([2, 0, 1].map exGB) =
    ⟨.fatal, [64, 65, 10, 64, 66], 1⟩ := by
  rw [ws_exact exEnv (lenCodec_mono 25) ⟨false, 5, false, true⟩ exGB (fun _ => rfl) 3 2 [0, 1] (by decide)]
  decide

/-- `cli_exit0_all_complete` is not vacuous: a paired FASTA output on two files that take everything exits 0 -/
example : cliExit exEnv ⟨some .fasta, true, false, true, false⟩ [⟨true, 100, false⟩, ⟨true, 100, false⟩]
    ([1, 0, 2].map exGB) ([0, 2, 1].map exGB) (canon 2) = some 0 := by
  have h1 := writer_exact exEnv (lenCodec_mono 25) .fasta ⟨false, 100, false, true⟩ exGB (fun _ => rfl) 3 [1, 0, 2]
    (by decide)
  have h2 := writer_exact exEnv (lenCodec_mono 25) .fasta ⟨false, 100, false, true⟩ exGB (fun _ => rfl) 3 [0, 2, 1]
    (by decide)
  simp only [List.map] at h1 h2
  simp only [cliExit, cliWrite, Cli.streams, cliOne, List.zip, List.zipWith, List.map, if_true, Bool.not_true,
    Bool.false_eq_true, if_false, h1, h2]
  decide

/-- … and with the second file one byte short it exits 1 -/
example : cliExit exEnv ⟨some .fasta, true, false, true, false⟩ [⟨true, 100, false⟩, ⟨true, 8, false⟩]
    ([1, 0, 2].map exGB) ([0, 2, 1].map exGB) (canon 2) = some 1 := by
  have h1 := writer_exact exEnv (lenCodec_mono 25) .fasta ⟨false, 100, false, true⟩ exGB (fun _ => rfl) 3 [1, 0, 2]
    (by decide)
  have h2 := writer_exact exEnv (lenCodec_mono 25) .fasta ⟨false, 8, false, true⟩ exGB (fun _ => rfl) 3 [0, 2, 1]
    (by decide)
  simp only [List.map] at h1 h2
  simp only [cliExit, cliWrite, Cli.streams, cliOne, List.zip, List.zipWith, List.map, if_true, Bool.not_true,
    Bool.false_eq_true, if_false, h1, h2]
  decide

/-- the empty result under the default format with `-Z` on a stream that takes nothing: exit 0, nothing to write -/
example : cliExit exEnv ⟨none, true, true, false, false⟩ [⟨true, 0, true⟩] [] [] (canon 1) = some 0 := by decide

/-- under `--fasta-output -Z` the same exits 1: the 25 bytes of the gzip member cannot be written -/
example : cliExit exEnv ⟨some .fasta, true, true, false, false⟩ [⟨true, 0, false⟩] [] [] (canon 1) = some 1 := by
  decide

example : 0 < ((lenCodec 25).stream []).length := by decide

end ObiVerif.Props.C18
