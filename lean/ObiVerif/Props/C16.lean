import ObiVerif.Model.Grep
import ObiVerif.Model.Annotate
import ObiVerif.Lemmas.Grep
import ObiVerif.Lemmas.Annotate
import ObiVerif.Lemmas.AnnotateLib
import ObiVerif.Lemmas.Distribute
import ObiVerif.Lemmas.Getopt
import ObiVerif.Lemmas.GetoptSpell
import ObiVerif.Lemmas.DistPattern
import ObiVerif.Props.C03
/-!
# C16 — obigrep, obiannotate, obidistribute act on each record as their options say

All theorems quantify over every value of the option globals (`GrepOpts`, `AnnotOpts`: all option
subsets at once), every record and every value of the oracle parameters (regexp, gval, taxonomy,
apat verdicts).  The stream-level clauses reuse the theorems of C03 (`divideOn_spec`,
`filterOn_spec`, `distribute_spec`, `pairTo_spec`): there a record is a natural number (its rank in
the input); `tbl : Nat → Rec` gives its content.
-/
namespace ObiVerif.Props.C16
open ObiVerif.Grep ObiVerif.Annotate

/-! ## 1. obigrep keeps exactly the records that satisfy every requested criterion -/

/-- for every option set and every record on which the `-p` expressions can be evaluated, the
predicate built by `CLISequenceSelectionPredicate` (nil = keep) says "keep" iff the record satisfies
every requested criterion, the verdict being inverted by `-v` -/
theorem grep_exact (O : Grep.Oracles) (o : GrepOpts) (r : Rec)
    (hE : ∀ e ∈ o.predicates, (O.evalBool e r).isSome) :
    (cliPredicate O o).eval r = some (selects O o r != o.invert) := by
  rw [eval_cli]
  have hx : allO (o.predicates.map fun e => O.evalBool e r) = some (expressionsHold O o r) := by
    rw [allO_of_isSome]
    · simp [expressionsHold, List.all_map, Function.comp_def]
    · intro x hx
      obtain ⟨e, he, rfl⟩ := List.mem_map.mp hx
      exact hE e he
  rw [hx]
  unfold selects
  cases o.invert <;> simp [Bool.and_assoc]

/-- without `-p` there is no side condition -/
theorem grep_exact_no_expression (O : Grep.Oracles) (o : GrepOpts) (r : Rec) (h : o.predicates = []) :
    (cliPredicate O o).eval r = some (selects O o r != o.invert) :=
  grep_exact O o r (by simp [h])

/-- the selection stops the program (`log.Fatalf`) only when a `-p` expression cannot be evaluated
on the record -/
theorem grep_fatal_only_expr (O : Grep.Oracles) (o : GrepOpts) (r : Rec)
    (h : (cliPredicate O o).eval r = none) : ∃ e ∈ o.predicates, O.evalBool e r = none := by
  rw [eval_cli] at h
  have hc : andO (some (selectsPre O o r))
      (andO (allO (o.predicates.map fun e => O.evalBool e r)) (some (selectsPost O o r))) = none := by
    cases hi : o.invert <;> simp [hi] at h <;> exact h
  have hx : allO (o.predicates.map fun e => O.evalBool e r) = none := by
    cases hp : selectsPre O o r <;> rw [hp] at hc
    · simp [andO] at hc
    · cases hx : allO (o.predicates.map fun e => O.evalBool e r) with
      | none => rfl
      | some b => rw [hx] at hc; cases b <;> simp [andO] at hc
  obtain ⟨e, he, h'⟩ := List.mem_map.mp (allO_none _ hx)
  exact ⟨e, he, h'⟩

/-- a record rejected by a length, count or taxonomic criterion is rejected (kept with `-v`) without
evaluating any expression -/
theorem grep_short_circuit (O : Grep.Oracles) (o : GrepOpts) (r : Rec) (h : selectsPre O o r = false) :
    (cliPredicate O o).eval r = some o.invert := by
  rw [eval_cli, h]
  cases o.invert <;> simp [andO]

/-- non-vacuity / test: `-C 3 -l 2 -A count` on a record with count 5 and on one with count 2 -/
def exO : Grep.Oracles := ⟨fun _ _ => true, fun _ _ => some true, fun _ _ => false, fun _ _ => false, fun _ _ => true,
  fun _ _ _ _ _ => true⟩
def exOpts : GrepOpts := { maxCount := 3, minLength := 2, requiredAttrs := ["count"] }
def exR5 : Rec := ⟨"a", [97, 99, 103], [("count", .int 5)]⟩
def exR2 : Rec := ⟨"b", [97, 99, 103], [("count", .int 2)]⟩

example : (cliPredicate exO exOpts).eval exR5 = some false ∧ (cliPredicate exO exOpts).eval exR2 = some true := by
  constructor <;> (rw [grep_exact exO exOpts _ (by simp [exOpts])]; decide)

/-- `--max-count` alone is a criterion (false of the unrepaired code, which ignored it) -/
example : (cliPredicate exO { maxCount := 3 }).eval exR5 = some false := by
  rw [grep_exact exO _ _ (by simp)]; decide

/-- `-v` alone keeps nothing (false of the unrepaired code, where `Not()` of nil was nil) -/
example : (cliPredicate exO { invert := true }).eval exR5 = some false := by
  rw [grep_exact exO _ _ (by simp)]; decide

/-! ## 2. paired modes -/

/-- the `switch` of `PairedPredicat` computes the six truth tables (decided over the whole table) -/
theorem paired_modes (m : Mode) (a b : Bool) : combine m a b = truthTable m a b := by
  cases m <;> cases a <;> cases b <;> rfl

/-- for every predicate (nil included) the verdict on a pair is the truth table of the mode applied
to the verdicts on the two mates -/
theorem paired_exact (m : Mode) (p : Pred) (r q : Rec) (a b : Bool)
    (ha : p.eval r = some a) (hb : p.eval q = some b) :
    pairedEval m p r (some q) = some (truthTable m a b) := by
  cases p with
  | none =>
    simp only [eval_none, Option.some.injEq] at ha hb
    subst ha; subst hb
    cases m <;> simp [pairedEval, pairedPred, pairedFun, combine, truthTable]
  | some f =>
    simp only [eval_some] at ha hb
    simp only [pairedEval, pairedPred]
    rw [pairedFun_some m f r q a b ha hb, ← paired_modes]
    cases m <;> simp [combine]

/-- an unpaired record is judged on itself whatever the mode -/
theorem unpaired_exact (m : Mode) (p : Pred) (r : Rec) : pairedEval m p r none = p.eval r := by
  cases p with
  | none => cases m <;> simp [pairedEval, pairedPred, pairedFun]
  | some f =>
    simp only [pairedEval, pairedPred, pairedFun, eval_some]
    cases f r <;> rfl

/-- obigrep on paired input: all option sets, all six modes -/
theorem paired_grep_exact (O : Grep.Oracles) (o : GrepOpts) (m : Mode) (r q : Rec)
    (hr : ∀ e ∈ o.predicates, (O.evalBool e r).isSome) (hq : ∀ e ∈ o.predicates, (O.evalBool e q).isSome) :
    pairedEval m (cliPredicate O o) r (some q)
      = some (truthTable m (selects O o r != o.invert) (selects O o q != o.invert)) :=
  paired_exact m _ r q _ _ (grep_exact O o r hr) (grep_exact O o q hq)

/-- the six mode names are accepted, anything else is refused (`log.Fatalf`) -/
theorem parseMode_names :
    parseMode "forward" = some .forward ∧ parseMode "reverse" = some .reverse ∧ parseMode "and" = some .and ∧
    parseMode "or" = some .or ∧ parseMode "andnot" = some .andnot ∧ parseMode "xor" = some .xor ∧
    ∀ s, s ∉ ["forward", "reverse", "and", "or", "andnot", "xor"] → parseMode s = none := by
  refine ⟨by decide, by decide, by decide, by decide, by decide, by decide, ?_⟩
  intro s hs
  simp only [List.mem_cons, List.not_mem_nil, or_false, not_or] at hs
  simp [parseMode, hs]

example : pairedEval .xor (cliPredicate exO exOpts) exR5 (some exR2) = some true := by
  rw [paired_grep_exact exO exOpts .xor exR5 exR2 (by simp [exOpts]) (by simp [exOpts])]; decide

/-! ## 3. kept / discarded streams (`CLIFilterSequence`), from the stream theorems of C03

Records of the stream model are their rank in the input; `tbl` gives the content of each.  `keep` is the
Boolean the real `DivideOn` / `FilterOn` gets from the predicate (nil = keep everything). -/

/-- the verdict `CLIFilterSequence` uses on unpaired input, as a function of the rank -/
def keepAt (O : Grep.Oracles) (o : GrepOpts) (tbl : Nat → Grep.Rec) (i : Nat) : Bool :=
  (cliPredicate O o).eval (tbl i) == some true

theorem keepAt_eq (O : Grep.Oracles) (o : GrepOpts) (tbl : Nat → Grep.Rec)
    (hE : ∀ i, ∀ e ∈ o.predicates, (O.evalBool e (tbl i)).isSome) :
    keepAt O o tbl = fun i => selects O o (tbl i) != o.invert := by
  funext i
  simp [keepAt, grep_exact O o (tbl i) (hE i)]

open ObiVerif.Iter ObiVerif.Props.C03 in
/-- `--save-discarded`: for every partition of the input into batches and every arrival order, the
kept stream is the input filtered by "satisfies every requested criterion (xor -v)", the discarded
stream is the input filtered by the negation, both in input order and numbered 0,1,2,…; together they
are a permutation of the input (nothing lost, nothing duplicated) -/
theorem grep_partition (O : Grep.Oracles) (o : GrepOpts) (tbl : Nat → Grep.Rec)
    (hE : ∀ i, ∀ e ∈ o.predicates, (O.evalBool e (tbl i)).isSome)
    (size : Nat) (hsize : 0 < size) (v : Nat → List Nat) (n : Nat) (ks : List Nat)
    (hp : ks.Perm (List.range n)) :
    let kept := (divideOn (keepAt O o tbl) size (ks.map fun k => (k, v k))).1
    let disc := (divideOn (keepAt O o tbl) size (ks.map fun k => (k, v k))).2
    Numbered kept ∧ Numbered disc ∧
    flatten kept = (inFlat v n).filter (fun i => selects O o (tbl i) != o.invert) ∧
    flatten disc = (inFlat v n).filter (fun i => !(selects O o (tbl i) != o.invert)) ∧
    (flatten kept ++ flatten disc).Perm (inFlat v n) := by
  intro kept disc
  obtain ⟨h1, h2, h3, h4, _⟩ := divideOn_spec (keepAt O o tbl) size hsize v n ks hp
  have hk := keepAt_eq O o tbl hE
  have e3 : flatten kept = (inFlat v n).filter (fun i => selects O o (tbl i) != o.invert) :=
    h3.trans (by rw [hk])
  have e4 : flatten disc = (inFlat v n).filter (fun i => !(selects O o (tbl i) != o.invert)) :=
    h4.trans (by rw [hk])
  refine ⟨h1, h2, e3, e4, ?_⟩
  rw [e3, e4]
  exact List.filter_append_perm _ _

open ObiVerif.Iter ObiVerif.Props.C03 in
/-- without `--save-discarded` (`FilterOn`, any number of workers): the output is the input filtered,
in input order -/
theorem grep_filter (O : Grep.Oracles) (o : GrepOpts) (tbl : Nat → Grep.Rec)
    (hE : ∀ i, ∀ e ∈ o.predicates, (O.evalBool e (tbl i)).isSome)
    (size : Nat) (hsize : 0 < size) (v : Nat → List Nat) (n : Nat) (ks : List Nat)
    (hp : ks.Perm (List.range n)) :
    let out := filterOn (keepAt O o tbl) size (ks.map fun k => (k, v k))
    Numbered out ∧ flatten out = (inFlat v n).filter (fun i => selects O o (tbl i) != o.invert) := by
  intro out
  obtain ⟨h1, h2, _⟩ := filterOn_spec (keepAt O o tbl) size hsize v n ks hp
  exact ⟨h1, h2.trans (by rw [keepAt_eq O o tbl hE])⟩

open ObiVerif.Iter ObiVerif.Props.C03 in
/-- paired input: a pair is one element of the stream (`PairTo` links the i-th records, C03
`pairTo_spec`) and is kept or discarded as a whole; the R1 and R2 files are written from the same
list of pairs, so the mates are at the same rank in both -/
theorem mates_stay_paired (O : Grep.Oracles) (o : GrepOpts) (m : Mode) (fwd rev : Nat → Grep.Rec)
    (hE : ∀ i, ∀ e ∈ o.predicates, (O.evalBool e (fwd i)).isSome ∧ (O.evalBool e (rev i)).isSome)
    (size : Nat) (hsize : 0 < size) (v : Nat → List Nat) (n : Nat) (ks : List Nat)
    (hp : ks.Perm (List.range n)) :
    let keep := fun i => pairedEval m (cliPredicate O o) (fwd i) (some (rev i)) == some true
    let kept := flatten (divideOn keep size (ks.map fun k => (k, v k))).1
    let disc := flatten (divideOn keep size (ks.map fun k => (k, v k))).2
    let sel := fun i => truthTable m (selects O o (fwd i) != o.invert) (selects O o (rev i) != o.invert)
    kept = (inFlat v n).filter sel ∧ disc = (inFlat v n).filter (fun i => !sel i) ∧
    (kept.map fwd).zip (kept.map rev) = kept.map (fun i => (fwd i, rev i)) ∧
    (disc.map fwd).zip (disc.map rev) = disc.map (fun i => (fwd i, rev i)) ∧
    (kept ++ disc).Perm (inFlat v n) := by
  intro keep kept disc sel
  have hk : keep = sel := by
    funext i
    simp [keep, sel, paired_grep_exact O o m (fwd i) (rev i) (fun e he => (hE i e he).1) (fun e he => (hE i e he).2)]
  obtain ⟨_, _, h3, h4, _⟩ := divideOn_spec keep size hsize v n ks hp
  have e3 : kept = (inFlat v n).filter sel := h3.trans (by rw [hk])
  have e4 : disc = (inFlat v n).filter (fun i => !sel i) := h4.trans (by rw [hk])
  refine ⟨e3, e4, ?_, ?_, ?_⟩
  · simp [List.zip_map']
  · simp [List.zip_map']
  · rw [e3, e4]; exact List.filter_append_perm _ _

open ObiVerif.Iter ObiVerif.Props.C03 in
/-- obimultiplex, unidentified reads (`DivideOn(HasAttribute("obimultiplex_error"))`): every record
goes to exactly one of the two outputs, chosen from the record alone, in input order -/
theorem unidentified_partition (tbl : Nat → Grep.Rec)
    (size : Nat) (hsize : 0 < size) (v : Nat → List Nat) (n : Nat) (ks : List Nat)
    (hp : ks.Perm (List.range n)) :
    let isErr := fun i => hasAttr "obimultiplex_error" (tbl i)
    let unid := flatten (divideOn isErr size (ks.map fun k => (k, v k))).1
    let out := flatten (divideOn isErr size (ks.map fun k => (k, v k))).2
    unid = (inFlat v n).filter isErr ∧ out = (inFlat v n).filter (fun i => !isErr i) ∧
    (unid ++ out).Perm (inFlat v n) := by
  intro isErr unid out
  obtain ⟨_, _, h3, h4, _⟩ := divideOn_spec isErr size hsize v n ks hp
  have e3 : unid = _ := h3
  have e4 : out = _ := h4
  exact ⟨e3, e4, by rw [e3, e4]; exact List.filter_append_perm _ _⟩

/-! ## 4. obidistribute -/

open ObiVerif.Iter ObiVerif.Props.C03 in
/-- `obidistribute -c key1 [-d key2]`: the class of a record is `dualClass` — a function of the record
alone —, the classifier numbers the classes by any injective `code`; the stream of a class holds
exactly the records of that class, in input order, each as often as it occurs in the input, and a
record occurs in no other stream -/
theorem distribute_partition (key1 key2 na : String) (tbl : Nat → Grep.Rec)
    (code : String × String → Nat) (hinj : ∀ a b, code a = code b → a = b)
    (size : Nat) (hsize : 0 < size) (v : Nat → List Nat) (n : Nat) (ks : List Nat)
    (hp : ks.Perm (List.range n)) (c : String × String) :
    let cls := fun i => code (dualClass key1 key2 na (tbl i))
    let out := distributeKey cls size (code c) (ks.map fun k => (k, v k))
    Numbered out ∧
    flatten out = (inFlat v n).filter (fun i => dualClass key1 key2 na (tbl i) == c) ∧
    ∀ i, (flatten out).count i = if dualClass key1 key2 na (tbl i) = c then (inFlat v n).count i else 0 := by
  intro cls out
  obtain ⟨h1, h2, _⟩ := distribute_spec cls size hsize v n ks hp (code c)
  have hr := distribute_routing cls size hsize v n ks hp (code c)
  have hc : ∀ i, (cls i == code c) = (dualClass key1 key2 na (tbl i) == c) := by
    intro i
    by_cases h : dualClass key1 key2 na (tbl i) = c
    · simp [cls, h]
    · have : code (dualClass key1 key2 na (tbl i)) ≠ code c := fun e => h (hinj _ _ e)
      show (code (dualClass key1 key2 na (tbl i)) == code c) = (dualClass key1 key2 na (tbl i) == c)
      rw [beq_eq_false_iff_ne.mpr this, beq_eq_false_iff_ne.mpr h]
  refine ⟨h1, ?_, ?_⟩
  · rw [h2]; congr 1; funext i; exact hc i
  · intro i
    rw [hr i]
    by_cases h : dualClass key1 key2 na (tbl i) = c
    · simp [cls, h]
    · have : code (dualClass key1 key2 na (tbl i)) ≠ code c := fun e => h (hinj _ _ e)
      simp [cls, h, this]

/-- test: the class of a record without the classifier tag is the NA value -/
example : dualClass "sample" "" "NA" exR5 = ("NA", "") ∧
    dualClass "count" "dir" "NA" exR5 = ("5", "NA") := by decide

/-! ### the other classifiers of obidistribute, and the files -/

open ObiVerif.Distribute in
/-- `CLISequenceClassifier`: `--classifier` has priority over `--batches`, which has priority over
`--hash`; without any of them the program stops -/
theorem classifier_choice (o : DistOpts) :
    (o.classifierTag ≠ "" → cliClassifier o = some (.dual o.classifierTag o.directoryTag o.naValue)) ∧
    (o.classifierTag = "" → o.batchCount > 0 → cliClassifier o = some (.rotate o.batchCount.toNat)) ∧
    (o.classifierTag = "" → o.batchCount ≤ 0 → o.hashSize > 0 → cliClassifier o = some (.hash o.hashSize.toNat)) ∧
    (o.classifierTag = "" → o.batchCount ≤ 0 → o.hashSize ≤ 0 → cliClassifier o = none) := by
  refine ⟨?_, ?_, ?_, ?_⟩
  · intro h; simp [cliClassifier, h]
  · intro h1 h2; simp [cliClassifier, h1, h2]
  · intro h1 h2 h3; simp [cliClassifier, h1, Int.not_lt.mpr h2, h3]
  · intro h1 h2 h3; simp [cliClassifier, h1, Int.not_lt.mpr h2, Int.not_lt.mpr h3]

open ObiVerif.Distribute in
/-- **the class is chosen from the record alone** (`--classifier`, `--hash`: whatever the rank; for
`--hash` from its sequence alone) **or from the rank alone** (`--batches`: round-robin) -/
theorem class_from_record_or_rank (c : Classifier) (i j : Nat) (r r' : Rec) :
    (∀ k1 k2 na, c = .dual k1 k2 na → classOf c i r = classOf c j r) ∧
    (∀ n, c = .hash n → classOf c i r = classOf c j r ∧ (r.seq = r'.seq → classOf c i r = classOf c j r')) ∧
    (∀ n, c = .rotate n → classOf c i r = classOf c i r' ∧ classOf c i r = (toString (i % n + 1), "")) := by
  refine ⟨?_, ?_, ?_⟩
  · intro k1 k2 na h; subst h; rfl
  · intro n h; subst h
    exact ⟨rfl, fun e => by simp [classOf, hashCode_seq n r r' e]⟩
  · intro n h; subst h; exact ⟨rfl, rfl⟩

open ObiVerif.Iter ObiVerif.Props.C03 ObiVerif.Distribute in
/-- `obidistribute --hash n`: the class of a record is `crc32(sequence) % n < n` (at most `n` files);
the stream of class `key` holds exactly the records of that class, in input order, each as often as
in the input, and no other stream holds them -/
theorem distribute_hash (n : Nat) (hn : 0 < n) (tbl : Nat → Grep.Rec)
    (size : Nat) (hsize : 0 < size) (v : Nat → List Nat) (m : Nat) (ks : List Nat)
    (hp : ks.Perm (List.range m)) (key : Nat) :
    let cls := fun i => hashCode n (tbl i)
    let out := distributeKey cls size key (ks.map fun k => (k, v k))
    Numbered out ∧ flatten out = (inFlat v m).filter (fun i => hashCode n (tbl i) == key) ∧
    (∀ i, (flatten out).count i = if hashCode n (tbl i) = key then (inFlat v m).count i else 0) ∧
    (∀ i, hashCode n (tbl i) < n) := by
  intro cls out
  obtain ⟨h1, h2, _⟩ := distribute_spec cls size hsize v m ks hp key
  exact ⟨h1, h2, fun i => distribute_routing cls size hsize v m ks hp key i, fun i => hashCode_lt n hn _⟩

open ObiVerif.Iter ObiVerif.Props.C03 ObiVerif.Distribute in
/-- `obidistribute --batches n`: the stateful `RotateClassifier`, called once per record on the sorted
stream by the single goroutine of `Distribute`, gives the record of rank `i` the class `i % n + 1`
(round-robin); with the records named by their rank (`hrank`), the stream of class `key` holds exactly
the ranks `≡ key - 1 (mod n)`, in order, once each, and the classes are `1..n` -/
theorem distribute_rotate (n : Nat) (hn : 0 < n)
    (size : Nat) (hsize : 0 < size) (v : Nat → List Nat) (m : Nat) (ks : List Nat)
    (hp : ks.Perm (List.range m)) (N : Nat) (hrank : inFlat v m = List.range N) (key : Nat) :
    rotateCodes n (inFlat v m) = (inFlat v m).map (fun i => i % n + 1) ∧
    let out := distributeKey (fun i => i % n + 1) size key (ks.map fun k => (k, v k))
    Numbered out ∧ flatten out = (List.range N).filter (fun i => i % n + 1 == key) ∧
    (∀ i, i < N → (flatten out).count i = if i % n + 1 = key then 1 else 0) ∧
    (∀ i, 1 ≤ i % n + 1 ∧ i % n + 1 ≤ n) := by
  refine ⟨by rw [hrank, rotateCodes_range], ?_⟩
  intro out
  obtain ⟨h1, h2, _⟩ := distribute_spec (fun i => i % n + 1) size hsize v m ks hp key
  refine ⟨h1, by rw [← hrank]; exact h2, ?_, fun i => rotate_code_bounds n i hn⟩
  intro i hi
  rw [distribute_routing (fun i => i % n + 1) size hsize v m ks hp key i, hrank]
  have : (List.range N).count i = 1 := by rw [List.count_range]; simp [hi]
  rw [this]

/-- test: 7 records in 3 batches -/
example : Distribute.rotateCodes 3 [10, 11, 12, 13, 14, 15, 16] = [1, 2, 3, 1, 2, 3, 1] := by decide

open ObiVerif.Distribute in
/-- **the file is determined by the class, and only by it** (`WriterDispatcher`): two classes get the
same file name iff they are equal, for plain names (no `/` in the pattern, keys and directories),
compressed or not and whatever the pattern.  (The former side condition "not compressed or pattern
suffix of 3 characters or more" is gone with the repair of `WriterDispatcher`: the `.gz` extension
depends on the pattern only — `fileNameL_no_gz_collision`, `compressed_extension`.) -/
theorem file_determined_by_class (o : DistOpts)
    (kd1 kd2 : String × String)
    (hp : '/' ∉ o.patPre.toList) (hs : '/' ∉ o.patSuf.toList)
    (h1 : '/' ∉ kd1.1.toList ∧ '/' ∉ kd1.2.toList) (h2 : '/' ∉ kd2.1.toList ∧ '/' ∉ kd2.2.toList) :
    fileName o kd1 = fileName o kd2 ↔ kd1 = kd2 := by
  constructor
  · intro h
    have h' := congrArg String.toList h
    simp only [fileName, String.toList_ofList] at h'
    obtain ⟨e1, e2⟩ := fileNameL_injective _ _ _ _ _ _ _ hp hs h1.1 h2.1 h1.2 h2.2 h'
    exact Prod.ext (String.toList_inj.mp e1) (String.toList_inj.mp e2)
  · intro h; rw [h]

open ObiVerif.Distribute in
/-- compressed output (`-Z`), whatever the pattern: the class `x` and the class `x.gz` never share a
file (they did before the repair of `WriterDispatcher` when the pattern did not end with `.gz`: the
records of one of the two were lost) -/
theorem gz_classes_distinct_files (o : DistOpts) (x dir : String)
    (hp : '/' ∉ o.patPre.toList) (hs : '/' ∉ o.patSuf.toList) (hx : '/' ∉ x.toList) (hd : '/' ∉ dir.toList) :
    fileName o (x, dir) ≠ fileName o (x ++ ".gz", dir) := by
  intro h
  have hx' : '/' ∉ (x ++ ".gz").toList := by
    simp only [String.toList_append, List.mem_append, not_or]
    exact ⟨hx, by decide⟩
  have e := (file_determined_by_class o (x, dir) (x ++ ".gz", dir) hp hs ⟨hx, hd⟩ ⟨hx', hd⟩).mp h
  have e1 : x = x ++ ".gz" := congrArg Prod.fst e
  have e2 := congrArg (fun s => s.toList.length) e1
  simp only [String.toList_append, List.length_append] at e2
  have : (".gz" : String).toList.length = 3 := by decide
  omega

open ObiVerif.Distribute in
/-- **the pattern as it is typed** (`-p`, `CLIFileNamePattern` repaired): a pattern is accepted iff it is
text (`%%` = a percent sign) around exactly one `%s` (`parsePatternL`); for an accepted pattern
`fmt.Sprintf(pattern, class)` is `prefix ++ class ++ suffix` — the class value printed once and in full —,
"the typed pattern ends with `.gz`" (`strings.HasSuffix`, the `-Z` rule of `WriterDispatcher`) is what the model
decides on `prefix%ssuffix`, and, for plain names, two classes get the same file iff they are equal.  Every other pattern stops the
command before a file is written (examples below: no verb, `%.0s`, `%[2]s`, `%.1s`, two verbs, `%d`,
`%%s`).  On the unrepaired code `-p out%.0s.fasta` gave every class the file `out.fasta` and the records
of all the classes but one were lost. -/
theorem name_pattern_exact (o o' : DistOpts) (pattern : String) (h : o.withPattern pattern = some o') :
    (∀ key, sprintfL key pattern.toList = o'.patPre.toList ++ key ++ o'.patSuf.toList) ∧
    (endsWithL pattern.toList gzSuffix = endsWithL (patternL o'.patPre.toList o'.patSuf.toList) gzSuffix) ∧
    (o'.compressed = o.compressed ∧ o'.classifierTag = o.classifierTag ∧ o'.directoryTag = o.directoryTag ∧
      o'.naValue = o.naValue ∧ o'.batchCount = o.batchCount ∧ o'.hashSize = o.hashSize ∧ o'.append = o.append) ∧
    ('/' ∉ pattern.toList → ∀ kd1 kd2 : String × String,
      '/' ∉ kd1.1.toList ∧ '/' ∉ kd1.2.toList → '/' ∉ kd2.1.toList ∧ '/' ∉ kd2.2.toList →
      (fileName o' kd1 = fileName o' kd2 ↔ kd1 = kd2)) := by
  unfold DistOpts.withPattern at h
  simp only [Option.map_eq_some_iff] at h
  obtain ⟨p, hp, rfl⟩ := h
  obtain ⟨pre, suf⟩ := p
  refine ⟨?_, ?_, ⟨rfl, rfl, rfl, rfl, rfl, rfl, rfl⟩, ?_⟩
  · intro key
    simp only [String.toList_ofList]
    exact sprintf_shape key pattern.toList.length pattern.toList pre suf (Nat.le_refl _) hp
  · simp only [String.toList_ofList]
    exact parsePatternL_gz pattern.toList pre suf hp
  · intro hs kd1 kd2 h1 h2
    have hmem := parsePatternL_mem pattern.toList.length pattern.toList pre suf (Nat.le_refl _) hp '/'
    exact file_determined_by_class _ kd1 kd2
      (by simp only [String.toList_ofList]; exact fun e => hs (hmem (Or.inl e)))
      (by simp only [String.toList_ofList]; exact fun e => hs (hmem (Or.inr e))) h1 h2

/-- test: accepted (`o_%s.f`, `a%%%s.f`) and refused (`o.f`, `o%.0s.f`, `o%[2]s`, `o%s%s`, `o%d`, `o%%s`) patterns -/
example :
    Distribute.parsePatternL ['o','_','%','s','.','f'] = some (['o','_'], ['.','f']) ∧
    Distribute.parsePatternL ['a','%','%','%','s','.','f'] = some (['a','%'], ['.','f']) ∧
    Distribute.parsePatternL ['o','.','f'] = none ∧
    Distribute.parsePatternL ['o','%','.','0','s','.','f'] = none ∧
    Distribute.parsePatternL ['o','%','[','2',']','s'] = none ∧
    Distribute.parsePatternL ['o','%','s','%','s'] = none ∧
    Distribute.parsePatternL ['o','%','d'] = none ∧
    Distribute.parsePatternL ['o','%','%','s'] = none := by
  refine ⟨?_, ?_, ?_, ?_, ?_, ?_, ?_, ?_⟩ <;> simp [Distribute.parsePatternL, Distribute.literalL]

open ObiVerif.Distribute in
/-- **every record is written to exactly one file, the one of its class, in input order**: the file
`g` holds the records (rank `i`, content `r`) with `fileName o (classOf c i r) = g`, in input order;
a record is in the list of `g` iff `g` is its file -/
theorem files_partition (o : DistOpts) (c : Classifier) (recs : List Rec) :
    (∀ g, ((distributeFiles o c recs).lookup g).getD [] =
      ((recs.zipIdx).filter fun ri => fileName o (classOf c ri.2 ri.1) == g).map (·.1.id)) ∧
    (∀ ri ∈ recs.zipIdx, ∀ g,
      ri ∈ ((recs.zipIdx).filter fun x => fileName o (classOf c x.2 x.1) == g) ↔ g = fileName o (classOf c ri.2 ri.1)) := by
  refine ⟨distributeFiles_content o c recs, ?_⟩
  intro ri hri g
  simp only [List.mem_filter, hri, true_and, beq_iff_eq]
  exact eq_comm

/-- test: `-p out_%s.fasta -c sample -d k --na-value none` and `-n 2 -Z` -/
example :
    Distribute.distributeFiles { patPre := "out_", patSuf := ".fasta", classifierTag := "sample", directoryTag := "k", naValue := "none" }
      (.dual "sample" "k" "none")
      [⟨"a", [97], [("sample", .str "A"), ("k", .int 2)]⟩, ⟨"b", [97], []⟩, ⟨"c", [97], [("k", .int 1)]⟩,
       ⟨"e", [97], [("sample", .str "A"), ("k", .int 2)]⟩]
      = [("2/out_A.fasta", ["a", "e"]), ("out_none.fasta", ["b"]), ("1/out_none.fasta", ["c"])] ∧
    Distribute.distributeFiles { patPre := "b", patSuf := "", batchCount := 2, compressed := true } (.rotate 2)
      [⟨"a", [97], []⟩, ⟨"b", [97], []⟩, ⟨"c", [97], []⟩]
      = [("b1.gz", ["a", "c"]), ("b2.gz", ["b"])] := by decide

open ObiVerif.Distribute in
/-- **`--append`**: after the run, a file the run writes holds — with `--append` — what it held before
followed by the records of its class in input order, and — without — only those records; a file that
is the file of no record of the input is exactly as before (with or without `--append`) -/
theorem append_effect (o : DistOpts) (c : Classifier) (existing : List (String × List String)) (recs : List Rec)
    (g : String) :
    let routed := ((recs.zipIdx).filter fun ri => fileName o (classOf c ri.2 ri.1) == g).map (·.1.id)
    (routed ≠ [] →
      (distributeFilesOn o c existing recs).lookup g =
        some ((if o.append then (existing.lookup g).getD [] else []) ++ routed)) ∧
    (routed = [] → (distributeFilesOn o c existing recs).lookup g = existing.lookup g) := by
  intro routed
  have hc := distributeFiles_content o c recs g
  have hd := distributeFilesOn_content o c existing recs g
  have hmem : ∀ ids, (distributeFiles o c recs).lookup g = some ids → ids ≠ [] := by
    intro ids h
    exact distributeFiles_nonempty o c recs g ids h
  constructor
  · intro hne
    cases hl : (distributeFiles o c recs).lookup g with
    | none => rw [hl] at hc; exact absurd hc.symm hne
    | some ids =>
      rw [hl] at hc hd
      rw [hd]
      simp only [Option.getD_some] at hc
      rw [hc]
  · intro he
    cases hl : (distributeFiles o c recs).lookup g with
    | none => rw [hl] at hd; exact hd
    | some ids =>
      rw [hl] at hc
      simp only [Option.getD_some] at hc
      exact absurd (hc.trans he) (hmem ids hl)

/-- test: `-A` on a directory holding `out_A.fasta` and `other.fasta` -/
example :
    Distribute.distributeFilesOn { patPre := "out_", patSuf := ".fasta", classifierTag := "sample", append := true }
      (.dual "sample" "" "NA") [("out_A.fasta", ["old1", "old2"]), ("other.fasta", ["old3"])]
      [⟨"a", [97], [("sample", .str "A")]⟩, ⟨"b", [97], []⟩, ⟨"c", [97], [("sample", .str "A")]⟩]
      = [("out_A.fasta", ["old1", "old2", "a", "c"]), ("out_NA.fasta", ["b"]), ("other.fasta", ["old3"])] ∧
    Distribute.distributeFilesOn { patPre := "out_", patSuf := ".fasta", classifierTag := "sample" }
      (.dual "sample" "" "NA") [("out_A.fasta", ["old1", "old2"]), ("other.fasta", ["old3"])]
      [⟨"a", [97], [("sample", .str "A")]⟩, ⟨"b", [97], []⟩, ⟨"c", [97], [("sample", .str "A")]⟩]
      = [("out_A.fasta", ["a", "c"]), ("out_NA.fasta", ["b"]), ("other.fasta", ["old3"])] := by decide

/-- `Value(Code(r))` of the annotation classifiers is the class of `r`: the codes are handed out in
order of first occurrence and `decode[code]` gives the class value back, whatever comes later; two
records get the same code iff they have the same class -/
theorem classifier_value_of_code (vs : List (String × String)) :
    (∀ i (h : i < vs.length) (h' : i < (Distribute.encodeAll [] vs).2.length),
      (Distribute.encodeAll [] vs).1[(Distribute.encodeAll [] vs).2[i]]? = some vs[i]) ∧
    (∀ i j (hi : i < vs.length) (hj : j < vs.length)
      (hi' : i < (Distribute.encodeAll [] vs).2.length) (hj' : j < (Distribute.encodeAll [] vs).2.length),
      (Distribute.encodeAll [] vs).2[i] = (Distribute.encodeAll [] vs).2[j] ↔ vs[i] = vs[j]) :=
  ⟨(Distribute.encodeAll_spec vs [] List.nodup_nil).2.2.2, Distribute.encodeAll_injective vs⟩

example : Distribute.encodeAll [] [("A", ""), ("NA", ""), ("A", ""), ("B", "")] =
    ([("A", ""), ("NA", ""), ("B", "")], [0, 1, 0, 2]) := by decide

/-! ## 5. obiannotate applies every requested edit and changes nothing else -/

/-- the worker built by `CLIAnnotationWorker` is the chain of the requested edits: one worker per
option that is given, none for an option that is not, in the fixed order clear, set-identifier,
delete-tag, keep, rename-tag, with-taxon-at-rank, taxonomic-path, taxonomic-rank, scientific-name,
add-lca-in, length, set-tag, aho-corasick, cut, pattern -/
theorem annotate_exact (O : Annotate.Oracles) (o : AnnotOpts) (r : Rec) :
    annotate O o r = applyAll (requestedEdits O o) r ∧
    requestedEdits O o =
      (if o.clearAll then [clearAll] else []) ++
      (if o.setId ≠ "" then [editId O o.setId] else []) ++
      (if o.toBeDeleted ≠ [] then [deleteAttributes o.toBeDeleted] else []) ++
      (if o.keepOnly ≠ [] then [keepAttributes o.keepOnly] else []) ++
      (if o.toBeRenamed ≠ [] then [renameAttributes o.toBeRenamed] else []) ++
      (if o.taxonAtRank ≠ [] then [addTaxonAtRank O o.taxonAtRank] else []) ++
      (if o.taxonomicPath then [setFromTaxonomy "taxonomic_path" O.taxPath] else []) ++
      (if o.withRank then [setFromTaxonomy "taxonomic_rank" O.taxRank] else []) ++
      (if o.withScientificName then [setFromTaxonomy "scienctific_name" O.sciName] else []) ++
      (if o.lcaSlot ≠ "" then [addLCA O o.lcaSlot o.lcaError] else []) ++
      (if o.setSeqLength then [addSeqLength] else []) ++
      (if o.evalAttribute ≠ [] then [evalAttributes O o.evalAttribute] else []) ++
      (if o.ahoCorasick then [ahoCorasick O] else []) ++
      (if o.cut.1 ≠ 0 ∧ o.cut.2 ≠ 0 then [cutSequence o.cut.1 o.cut.2] else []) ++
      (if o.pattern ≠ "" then
        [matchPattern O o.pattern o.patternName o.patternError o.patternIndel o.patternBothStrand] else []) :=
  ⟨rfl, rfl⟩

/-- `ChainWorkers` is sequential composition: the edits of `a`, then those of `b` on the result; a
record an edit fails on (expression that cannot be evaluated, empty cut) is dropped and a panic is a
panic, whatever follows -/
theorem chain_semantics (a b : List Edit) (r : Rec) :
    applyAll (a ++ b) r = (applyAll a r).bind (applyAll b) ∧
    applyAll [] r = .ok r ∧
    (∀ e, applyAll [e] r = e r) := by
  refine ⟨applyAll_append a b r, rfl, ?_⟩
  intro e
  rw [applyAll_cons]
  cases e r <;> rfl

/-- no option given: the record is unchanged -/
theorem annotate_nothing (O : Annotate.Oracles) (r : Rec) : annotate O {} r = .ok r := by
  simp [annotate, requestedEdits, applyAll]

/-- **the sequence is changed by `--cut` only** -/
theorem annotate_keeps_sequence (O : Annotate.Oracles) (o : AnnotOpts) (r r' : Rec)
    (hcut : o.cut.1 = 0 ∨ o.cut.2 = 0) (h : annotate O o r = .ok r') : r'.seq = r.seq := by
  refine applyAll_keeps (·.seq) (requestedEdits O o) ?_ r r' h
  intro e he
  unfold requestedEdits at he
  simp only [List.mem_append] at he
  rcases he with (((((((((((((he | he) | he) | he) | he) | he) | he) | he) | he) | he) | he) | he) | he) | he) | he <;>
    obtain ⟨hc, rfl⟩ := mem_ite_singleton he
  · exact clearAll_keeps_seq
  · exact editId_keeps _ O _ (fun _ _ => rfl)
  · exact deleteAttributes_keeps_seq _
  · exact keepAttributes_keeps_seq _
  · exact renameAttributes_keeps_seq _
  · exact addTaxonAtRank_keeps _ O _ (fun _ _ k _ v => setAttribute_keeps_seq k v)
  · exact setFromTaxonomy_keeps _ _ _ (fun v => setAttribute_keeps_seq _ v)
  · exact setFromTaxonomy_keeps _ _ _ (fun v => setAttribute_keeps_seq _ v)
  · exact setFromTaxonomy_keeps _ _ _ (fun v => setAttribute_keeps_seq _ v)
  · exact addLCA_keeps _ O _ _ (fun k _ v => setAttribute_keeps_seq k v)
  · exact addSeqLength_keeps_seq
  · exact evalAttributes_keeps_seq O _
  · exact dynAttrs_keeps _ _ _ (ahoCorasickAttrs_keys O) (fun k _ v => setAttribute_keeps_seq k v)
  · rcases hcut with h0 | h0
    · exact absurd h0 hc.1
    · exact absurd h0 hc.2
  · exact dynAttrs_keeps _ _ _ (matchPatternAttrs_keys O _ _ _ _ _) (fun k _ v => setAttribute_keeps_seq k v)

/-- **the identifier is changed only by `--set-identifier`, by `--cut` (which appends the cut
coordinates) and by a `--rename-tag id=…` / `--set-tag id=…`**.  (The former hypothesis `hlib`, "no
library-driven worker is asked to write an attribute called `id`", is now proved for every option set:
`id_not_libraryKey`, from `libraryKeys_not_reserved`.) -/
theorem annotate_keeps_identifier (O : Annotate.Oracles) (o : AnnotOpts) (r r' : Rec)
    (hid : o.setId = "") (hcut : o.cut.1 = 0 ∨ o.cut.2 = 0)
    (hren : ∀ p ∈ o.toBeRenamed, p.1 ≠ "id") (htag : ∀ p ∈ o.evalAttribute, p.1 ≠ "id")
    (h : annotate O o r = .ok r') : r'.id = r.id := by
  have hlib : "id" ∉ libraryKeys o := id_not_libraryKey o
  have hk : ∀ k ∈ libraryKeys o, ∀ v, Keeps (·.id) (setAttribute k v) :=
    fun k hk v => setAttribute_keeps_id k v (fun e => hlib (e ▸ hk))
  refine applyAll_keeps (·.id) (requestedEdits O o) ?_ r r' h
  intro e he
  unfold requestedEdits at he
  simp only [List.mem_append] at he
  rcases he with (((((((((((((he | he) | he) | he) | he) | he) | he) | he) | he) | he) | he) | he) | he) | he) | he <;>
    obtain ⟨hc, rfl⟩ := mem_ite_singleton he
  · exact clearAll_keeps_id
  · exact absurd hid hc
  · exact deleteAttributes_keeps_id _
  · exact keepAttributes_keeps_id _
  · exact renameAttributes_keeps_id _ hren
  · exact addTaxonAtRank_keeps _ O _ (fun rank hr k hkk v => hk k (mem_libraryKeys_rank o rank hr k hkk) v)
  · exact setFromTaxonomy_keeps _ _ _ (fun v => hk _ (by simp [libraryKeys, hc]) v)
  · exact setFromTaxonomy_keeps _ _ _ (fun v => hk _ (by simp [libraryKeys, hc]) v)
  · exact setFromTaxonomy_keeps _ _ _ (fun v => hk _ (by simp [libraryKeys, hc]) v)
  · exact addLCA_keeps _ O _ _ (fun k hkk v => hk k (mem_libraryKeys_lca o hc k hkk) v)
  · exact addSeqLength_keeps_id
  · exact evalAttributes_keeps_id O _ htag
  · exact dynAttrs_keeps _ _ _ (ahoCorasickAttrs_keys O) (fun k hkk v => hk k (by
      simp only [libraryKeys, hc, if_true, List.mem_append]; exact Or.inl (Or.inr hkk)) v)
  · rcases hcut with h0 | h0
    · exact absurd h0 hc.1
    · exact absurd h0 hc.2
  · exact dynAttrs_keeps _ _ _ (matchPatternAttrs_keys O _ _ _ _ _) (fun k hkk v => hk k (by
      simp only [libraryKeys, hc, ne_eq, not_false_eq_true, if_true, List.mem_append]; exact Or.inr hkk) v)

/-- **an attribute that no option names is unchanged** (present with the same value, or absent):
no `--clear`, not deleted, kept if `--keep` is used, neither side of a renaming, not `seq_length`
when `--length` is given, not the key of a `--set-tag` -/
theorem annotate_keeps_attribute (O : Annotate.Oracles) (o : AnnotOpts) (r r' : Rec) (k : String)
    (hclear : o.clearAll = false) (hdel : k ∉ o.toBeDeleted)
    (hkeep : o.keepOnly = [] ∨ k ∈ o.keepOnly)
    (hren : ∀ p ∈ o.toBeRenamed, k ≠ p.1 ∧ k ≠ p.2)
    (hlen : o.setSeqLength = false ∨ k ≠ "seq_length")
    (htag : ∀ p ∈ o.evalAttribute, k ≠ p.1)
    (hlib : k ∉ libraryKeys o)
    (h : annotate O o r = .ok r') : r'.attrs.lookup k = r.attrs.lookup k := by
  have hk : ∀ k' ∈ libraryKeys o, ∀ v, Keeps (fun r => r.attrs.lookup k) (setAttribute k' v) :=
    fun k' hk' v => setAttribute_keeps_attr k' v k (fun e => hlib (e ▸ hk'))
  refine applyAll_keeps (fun r => r.attrs.lookup k) (requestedEdits O o) ?_ r r' h
  intro e he
  unfold requestedEdits at he
  simp only [List.mem_append] at he
  rcases he with (((((((((((((he | he) | he) | he) | he) | he) | he) | he) | he) | he) | he) | he) | he) | he) | he <;>
    obtain ⟨hc, rfl⟩ := mem_ite_singleton he
  · simp [hclear] at hc
  · exact editId_keeps _ O _ (fun _ _ => rfl)
  · intro x x' hx
    show x'.attrs.lookup k = x.attrs.lookup k
    rw [deleteAttributes_lookup _ x x' hx k]; simp [hdel]
  · intro x x' hx
    show x'.attrs.lookup k = x.attrs.lookup k
    rw [keepAttributes_lookup _ x x' hx k]
    rcases hkeep with h0 | h0
    · exact absurd h0 hc
    · simp [h0]
  · exact renameAttributes_keeps_attr _ k hren
  · exact addTaxonAtRank_keeps _ O _ (fun rank hr k' hkk v => hk k' (mem_libraryKeys_rank o rank hr k' hkk) v)
  · exact setFromTaxonomy_keeps _ _ _ (fun v => hk _ (by simp [libraryKeys, hc]) v)
  · exact setFromTaxonomy_keeps _ _ _ (fun v => hk _ (by simp [libraryKeys, hc]) v)
  · exact setFromTaxonomy_keeps _ _ _ (fun v => hk _ (by simp [libraryKeys, hc]) v)
  · exact addLCA_keeps _ O _ _ (fun k' hkk v => hk k' (mem_libraryKeys_lca o hc k' hkk) v)
  · intro x x' hx
    show x'.attrs.lookup k = x.attrs.lookup k
    rw [addSeqLength_lookup x x' hx k]
    rcases hlen with h0 | h0
    · simp [h0] at hc
    · simp [h0]
  · exact evalAttributes_keeps_attr O _ k htag
  · exact dynAttrs_keeps _ _ _ (ahoCorasickAttrs_keys O) (fun k' hkk v => hk k' (by
      simp only [libraryKeys, hc, if_true, List.mem_append]; exact Or.inl (Or.inr hkk)) v)
  · intro x x' hx
    show x'.attrs.lookup k = x.attrs.lookup k
    have e : x'.attrs = x.attrs := cutSequence_keeps_attrs _ _ x x' hx
    rw [e]
  · exact dynAttrs_keeps _ _ _ (matchPatternAttrs_keys O _ _ _ _ _) (fun k' hkk v => hk k' (by
      simp only [libraryKeys, hc, ne_eq, not_false_eq_true, if_true, List.mem_append]; exact Or.inr hkk) v)

/-! ### what each edit does (one worker) -/

/-- `--delete-tag`: exactly the named attributes disappear -/
theorem delete_effect (ks : List String) (r : Rec) :
    ∃ r', deleteAttributes ks r = .ok r' ∧ r'.id = r.id ∧ r'.seq = r.seq ∧
      ∀ k, r'.attrs.lookup k = if k ∈ ks then none else r.attrs.lookup k :=
  ⟨_, rfl, deleteAttributes_keeps_id ks r _ rfl, deleteAttributes_keeps_seq ks r _ rfl,
    deleteAttributes_lookup ks r _ rfl⟩

/-- `--keep`: exactly the named attributes stay -/
theorem keep_effect (ks : List String) (r : Rec) :
    ∃ r', keepAttributes ks r = .ok r' ∧ r'.id = r.id ∧ r'.seq = r.seq ∧
      ∀ k, r'.attrs.lookup k = if k ∈ ks then r.attrs.lookup k else none :=
  ⟨_, rfl, rfl, rfl, keepAttributes_lookup ks r _ rfl⟩

/-- `--clear`: no attribute is left -/
theorem clear_effect (r : Rec) : clearAll r = .ok { r with attrs := [] } := rfl

/-- `--length`: `seq_length` is the length of the sequence, nothing else moves -/
theorem length_effect (r : Rec) :
    ∃ r', addSeqLength r = .ok r' ∧ r'.id = r.id ∧ r'.seq = r.seq ∧
      ∀ k, r'.attrs.lookup k = if k = "seq_length" then some (.int r.len) else r.attrs.lookup k := by
  refine ⟨{ r with attrs := setKey "seq_length" (.int r.len) r.attrs }, by simp [addSeqLength, setAttribute], rfl, rfl, ?_⟩
  intro k; simp [lookup_setKey]

/-- `--set-tag key=expr` on an ordinary key: the attribute gets the value of the expression on the
current record; a record on which the expression cannot be evaluated is dropped -/
theorem set_tag_effect (O : Annotate.Oracles) (k e : String) (r : Rec)
    (hk : k ≠ "id" ∧ k ≠ "sequence" ∧ k ≠ "qualities") :
    (∀ v, O.evalExpr e r = some v →
      ∃ r', editAttribute O k e r = .ok r' ∧ r'.id = r.id ∧ r'.seq = r.seq ∧
        ∀ k', r'.attrs.lookup k' = if k' = k then some v else r.attrs.lookup k') ∧
    (O.evalExpr e r = none → editAttribute O k e r = .dropped) := by
  constructor
  · intro v hv
    refine ⟨{ r with attrs := setKey k v r.attrs }, by simp [editAttribute, hv, setAttribute, hk], rfl, rfl, ?_⟩
    intro k'; simp [lookup_setKey]
  · intro hv; simp [editAttribute, hv]

/-- `--rename-tag new=old` between ordinary keys: `new` gets the value of `old`, `old` disappears,
a record without `old` is unchanged -/
theorem rename_effect (new old : String) (r : Rec)
    (hn : new ≠ "id" ∧ new ≠ "sequence" ∧ new ≠ "qualities")
    (ho : old ≠ "id" ∧ old ≠ "sequence" ∧ old ≠ "qualities") (hne : new ≠ old) :
    (∀ v, r.attrs.lookup old = some v →
      ∃ r', renameAttribute new old r = .ok r' ∧ r'.id = r.id ∧ r'.seq = r.seq ∧
        r'.attrs.lookup new = some v ∧ r'.attrs.lookup old = none ∧
        ∀ k, k ≠ new → k ≠ old → r'.attrs.lookup k = r.attrs.lookup k) ∧
    (r.attrs.lookup old = none → renameAttribute new old r = .ok r) := by
  have hg : getAttribute old r = r.attrs.lookup old := by simp [getAttribute, ho]
  constructor
  · intro v hv
    refine ⟨deleteAttribute old { r with attrs := setKey new v r.attrs }, ?_, rfl, rfl, ?_, ?_, ?_⟩
    · simp [renameAttribute, hg, hv, setAttribute, hn, Outcome.bind]
    · simp [deleteAttribute, lookup_delKey, lookup_setKey, hne]
    · simp [deleteAttribute, lookup_delKey]
    · intro k h1 h2; simp [deleteAttribute, lookup_delKey, lookup_setKey, h1, h2]
  · intro hv; simp [renameAttribute, hg, hv]

/-- `--set-identifier expr` -/
theorem set_identifier_effect (O : Annotate.Oracles) (e : String) (r : Rec) :
    (∀ v, O.evalExpr e r = some v → editId O e r = .ok { r with id := v.shown }) ∧
    (O.evalExpr e r = none → editId O e r = .dropped) := by
  constructor
  · intro v hv; simp [editId, hv]
  · intro hv; simp [editId, hv]

/-- `--cut from:to` never touches the attributes; with both bounds 0 it is the identity -/
theorem cut_frame (a b : Int) (r r' : Rec) (h : cutSequence a b r = .ok r') : r'.attrs = r.attrs :=
  cutSequence_keeps_attrs a b r r' h

/-- test: `--cut 2:5`, `--cut -3:-1` and a cut longer than the record (clamped) on "acgtacgtac" -/
example : cutSequence 2 5 ⟨"r", [97, 99, 103, 116, 97, 99, 103, 116, 97, 99], []⟩
      = .ok ⟨"r_sub[2..5]", [99, 103, 116, 97], []⟩ ∧
    cutSequence (-3) (-1) ⟨"r", [97, 99, 103, 116, 97, 99, 103, 116, 97, 99], []⟩
      = .ok ⟨"r_sub[9..10]", [97, 99], []⟩ ∧
    cutSequence 2 50 ⟨"r", [97, 99, 103], []⟩ = .ok ⟨"r_sub[2..3]", [99, 103], []⟩ ∧
    cutSequence 4 50 ⟨"r", [97, 99, 103], []⟩ = .dropped := by
  refine ⟨by decide, by decide, by decide, by decide⟩

/-- non-vacuity of the frame theorems: `--delete-tag a --length -S t='…'` on a record with `a`, `b` -/
def exA : Annotate.Oracles := { evalExpr := fun _ r => some (.str r.id) }
def exAOpts : AnnotOpts := { toBeDeleted := ["a"], setSeqLength := true, evalAttribute := [("t", "sequence.Id()")] }
def exRec : Rec := ⟨"r1", [97, 99], [("a", .int 1), ("b", .str "x")]⟩

example : annotate exA exAOpts exRec
    = .ok ⟨"r1", [97, 99], [("b", .str "x"), ("seq_length", .int 2), ("t", .str "r1")]⟩ := by decide

example : ∃ r', annotate exA exAOpts exRec = .ok r' ∧ r'.seq = exRec.seq ∧ r'.id = exRec.id ∧
    r'.attrs.lookup "b" = exRec.attrs.lookup "b" := by
  refine ⟨_, rfl, ?_, ?_, ?_⟩
  · exact annotate_keeps_sequence exA exAOpts exRec _ (by decide) rfl
  · exact annotate_keeps_identifier exA exAOpts exRec _ (by decide) (by decide) (by decide) (by decide) rfl
  · exact annotate_keeps_attribute exA exAOpts exRec _ "b" (by decide) (by decide) (by decide) (by decide)
      (by decide) (by decide) (by decide) rfl


/-! ### the library-driven workers: fresh slot names, and what each of them writes -/

/-- **for every option set, no attribute name a library-driven worker may write is a key that
`SetAttribute` treats specially** (`id`, `sequence`, `qualities`): these workers never touch the
identifier or the sequence and never panic on a reserved key -/
theorem library_slots_fresh (o : AnnotOpts) :
    ∀ k ∈ libraryKeys o, k ≠ "id" ∧ k ≠ "sequence" ∧ k ≠ "qualities" := by
  intro k hk
  have h := libraryKeys_not_reserved o k hk
  exact ⟨fun e => h (Or.inl e), fun e => h (Or.inr (Or.inl e)), fun e => h (Or.inr (Or.inr e))⟩

/-- **the names the library-driven workers may write, option by option** (what `hlib` of
`annotate_keeps_attribute` excludes): `RANK_taxid` / `RANK_name` for each `--with-taxon-at-rank RANK`,
`taxonomic_path`, `taxonomic_rank`, `scienctific_name` (sic) for the three taxonomy flags, `merged_taxid`
and the three slots of `--add-lca-in`, the three `aho_corasick` counters, the four slots of `--pattern`;
nothing when none of these options is given -/
theorem library_keys_documented (o : AnnotOpts) (k : String) :
    (k ∈ libraryKeys o ↔
      (∃ rank ∈ o.taxonAtRank, k = rank ++ "_taxid" ∨ k = rank ++ "_name") ∨
      (o.taxonomicPath = true ∧ k = "taxonomic_path") ∨ (o.withRank = true ∧ k = "taxonomic_rank") ∨
      (o.withScientificName = true ∧ k = "scienctific_name") ∨
      (o.lcaSlot ≠ "" ∧ (k = "merged_taxid" ∨ k = (lcaSlots o.lcaSlot).1 ∨ k = (lcaSlots o.lcaSlot).2.1 ∨
        k = (lcaSlots o.lcaSlot).2.2)) ∨
      (o.ahoCorasick = true ∧ (k = "aho_corasick" ∨ k = "aho_corasick_Fwd" ∨ k = "aho_corasick_Rev")) ∨
      (o.pattern ≠ "" ∧ (k = (patternSlots o.patternName).1 ∨ k = (patternSlots o.patternName).2.1 ∨
        k = (patternSlots o.patternName).2.2.1 ∨ k = (patternSlots o.patternName).2.2.2))) ∧
    (o.taxonAtRank = [] → o.taxonomicPath = false → o.withRank = false → o.withScientificName = false →
      o.lcaSlot = "" → o.ahoCorasick = false → o.pattern = "" → libraryKeys o = []) := by
  constructor
  · unfold libraryKeys
    simp only [List.mem_append, List.mem_flatMap, List.mem_cons, List.not_mem_nil, or_false]
    constructor
    · rintro ((((((h | h) | h) | h) | h) | h) | h)
      · exact Or.inl h
      · split at h <;> simp at h; rename_i hc; exact Or.inr (Or.inl ⟨hc, h⟩)
      · split at h <;> simp at h; rename_i hc; exact Or.inr (Or.inr (Or.inl ⟨hc, h⟩))
      · split at h <;> simp at h; rename_i hc; exact Or.inr (Or.inr (Or.inr (Or.inl ⟨hc, h⟩)))
      · split at h <;> simp at h; rename_i hc; exact Or.inr (Or.inr (Or.inr (Or.inr (Or.inl ⟨hc, h⟩))))
      · split at h <;> simp at h; rename_i hc; exact Or.inr (Or.inr (Or.inr (Or.inr (Or.inr (Or.inl ⟨hc, h⟩)))))
      · split at h <;> simp at h; rename_i hc; exact Or.inr (Or.inr (Or.inr (Or.inr (Or.inr (Or.inr ⟨hc, h⟩)))))
    · rintro (h | ⟨hc, h⟩ | ⟨hc, h⟩ | ⟨hc, h⟩ | ⟨hc, h⟩ | ⟨hc, h⟩ | ⟨hc, h⟩)
      · exact Or.inl (Or.inl (Or.inl (Or.inl (Or.inl (Or.inl h)))))
      · exact Or.inl (Or.inl (Or.inl (Or.inl (Or.inl (Or.inr (by simp [hc, h]))))))
      · exact Or.inl (Or.inl (Or.inl (Or.inl (Or.inr (by simp [hc, h])))))
      · exact Or.inl (Or.inl (Or.inl (Or.inr (by simp [hc, h]))))
      · exact Or.inl (Or.inl (Or.inr (by simp [hc]; exact h)))
      · exact Or.inl (Or.inr (by simp [hc]; exact h))
      · exact Or.inr (by simp [hc]; exact h)
  · intro h1 h2 h3 h4 h5 h6 h7
    simp [libraryKeys, h1, h2, h3, h4, h5, h6, h7]

/-- without any library-driven option the frame theorem has no side condition on the slots -/
theorem annotate_keeps_attribute_plain (O : Annotate.Oracles) (o : AnnotOpts) (r r' : Rec) (k : String)
    (hnolib : o.taxonAtRank = [] ∧ o.taxonomicPath = false ∧ o.withRank = false ∧ o.withScientificName = false ∧
      o.lcaSlot = "" ∧ o.ahoCorasick = false ∧ o.pattern = "")
    (hclear : o.clearAll = false) (hdel : k ∉ o.toBeDeleted)
    (hkeep : o.keepOnly = [] ∨ k ∈ o.keepOnly)
    (hren : ∀ p ∈ o.toBeRenamed, k ≠ p.1 ∧ k ≠ p.2)
    (hlen : o.setSeqLength = false ∨ k ≠ "seq_length")
    (htag : ∀ p ∈ o.evalAttribute, k ≠ p.1)
    (h : annotate O o r = .ok r') : r'.attrs.lookup k = r.attrs.lookup k := by
  obtain ⟨h1, h2, h3, h4, h5, h6, h7⟩ := hnolib
  exact annotate_keeps_attribute O o r r' k hclear hdel hkeep hren hlen htag
    (by rw [(library_keys_documented o k).2 h1 h2 h3 h4 h5 h6 h7]; exact List.not_mem_nil) h

/-- the slot names of `--add-lca-in SLOT`: the taxid slot ends with `taxid` (`SLOT` itself when it
already does, `SLOT_taxid` otherwise); the name and error slots are that name with its **first**
`taxid` replaced by `name` / `error` (nothing before it or after it changes), `scientific_name` /
`lca_error` when the result would be the bare word -/
theorem lca_slots_shape (slot : List Char) :
    taxidL <:+ (lcaSlotsL slot).1 ∧
    (taxidL <:+ slot → (lcaSlotsL slot).1 = slot) ∧
    (¬ taxidL <:+ slot → (lcaSlotsL slot).1 = slot ++ '_' :: taxidL) ∧
    ∃ pre post, (lcaSlotsL slot).1 = pre ++ taxidL ++ post ∧
      (∀ pre' post', (lcaSlotsL slot).1 = pre' ++ taxidL ++ post' → pre.length ≤ pre'.length) ∧
      (lcaSlotsL slot).2.1 = (if pre ++ nameL ++ post = nameL then
        ['s', 'c', 'i', 'e', 'n', 't', 'i', 'f', 'i', 'c', '_'] ++ nameL else pre ++ nameL ++ post) ∧
      (lcaSlotsL slot).2.2 = (if pre ++ errorL ++ post = errorL then ['l', 'c', 'a', '_'] ++ errorL
        else pre ++ errorL ++ post) := by
  refine ⟨lcaSlot_suffix slot, ?_, ?_, ?_⟩
  · intro h
    have : taxidL.isSuffixOf slot = true := List.isSuffixOf_iff_suffix.mpr h
    simp [lcaSlotsL, this]
  · intro h
    have : ¬ taxidL.isSuffixOf slot = true := fun e => h (List.isSuffixOf_iff_suffix.mp e)
    simp [lcaSlotsL, this]
  · have hin := taxid_in_lcaSlot slot
    obtain ⟨pre, post, e1, e2, e3⟩ := (replaceFirstL_spec taxidL nameL (by decide) _).2 hin
    obtain ⟨pre', post', f1, f2, f3⟩ := (replaceFirstL_spec taxidL errorL (by decide) _).2 hin
    -- the two decompositions are the same one: both are the first occurrence
    have hl : pre.length = pre'.length := Nat.le_antisymm (e3 pre' post' f1) (f3 pre post e1)
    have hpp : pre = pre' ∧ post = post' := by
      have e := e1.symm.trans f1
      rw [List.append_assoc, List.append_assoc] at e
      have h1 := List.append_inj e hl
      exact ⟨h1.1, List.append_cancel_left h1.2⟩
    obtain ⟨rfl, rfl⟩ := hpp
    refine ⟨pre, post, e1, e3, ?_, ?_⟩
    · show (if replaceFirstL taxidL nameL (lcaSlotsL slot).1 = nameL then _
        else replaceFirstL taxidL nameL (lcaSlotsL slot).1) = _
      rw [e2]
    · show (if replaceFirstL taxidL errorL (lcaSlotsL slot).1 = errorL then _
        else replaceFirstL taxidL errorL (lcaSlotsL slot).1) = _
      rw [f2]

/-- test: the slot names for `lca`, `taxid`, `sp_taxid` and `taxid_x` (first occurrence!) -/
example : lcaSlots "lca" = ("lca_taxid", "lca_name", "lca_error") ∧
    lcaSlots "taxid" = ("taxid", "scientific_name", "lca_error") ∧
    lcaSlots "sp_taxid" = ("sp_taxid", "sp_name", "sp_error") ∧
    lcaSlots "taxid_x" = ("taxid_x_taxid", "name_x_taxid", "error_x_taxid") := by
  refine ⟨by decide, by decide, by decide, by decide⟩

/-- `--with-taxon-at-rank RANK` (one rank; several ranks are applied from left to right,
`chain_semantics`): the record is unchanged when its taxid is unknown to the taxonomy; otherwise exactly
`RANK_taxid` and `RANK_name` are written — the ancestor found, or `-1` / `NA` when there is none —
and nothing else changes -/
theorem taxon_at_rank_effect (O : Annotate.Oracles) (rank : String) (r : Rec) :
    ∃ r', addTaxonAtRank O [rank] r = .ok r' ∧ r'.id = r.id ∧ r'.seq = r.seq ∧
      ∀ k, r'.attrs.lookup k =
        match O.taxonAtRank rank r with
        | none => r.attrs.lookup k
        | some x =>
          if k = rank ++ "_name" then some (.str ((x.map (·.2)).getD "NA"))
          else if k = rank ++ "_taxid" then some (.int ((x.map (·.1)).getD (-1)))
          else r.attrs.lookup k := by
  have hk : ∀ kv ∈ taxonAtRankAttrs O rank r, ¬ Reserved kv.1 := by
    intro kv h
    have := taxonAtRankAttrs_keys O rank r kv h
    simp only [List.mem_cons, List.not_mem_nil, or_false] at this
    rcases this with e | e <;> rw [e] <;> exact append_underscore_not_reserved _ _ (by decide)
  obtain ⟨r', e1, e2, e3, e4⟩ := setAttrs_effect _ hk r
  refine ⟨r', e1, e2, e3, ?_⟩
  intro k
  rw [e4 k]
  unfold taxonAtRankAttrs
  cases hx : O.taxonAtRank rank r with
  | none => simp [lastWrite_nil]
  | some x =>
    cases x with
    | none =>
      simp only [lastWrite_cons, lastWrite_nil, Option.map_none, Option.getD_none]
      by_cases h1 : k = rank ++ "_name" <;> by_cases h2 : k = rank ++ "_taxid" <;> simp [h1, h2]
    | some tn =>
      simp only [lastWrite_cons, lastWrite_nil, Option.map_some, Option.getD_some]
      by_cases h1 : k = rank ++ "_name" <;> by_cases h2 : k = rank ++ "_taxid" <;> simp [h1, h2]

/-- `--taxonomic-path`, `--taxonomic-rank`, `--scientific-name` (`key` = `taxonomic_path`,
`taxonomic_rank`, `scienctific_name`): exactly that attribute is written, with what the taxonomy says;
an unknown taxid stops the program -/
theorem taxonomy_slot_effect (key : String) (hkey : key ∈ ["taxonomic_path", "taxonomic_rank", "scienctific_name"])
    (f : Rec → Option String) (r : Rec) :
    (∀ s, f r = some s →
      ∃ r', setFromTaxonomy key f r = .ok r' ∧ r'.id = r.id ∧ r'.seq = r.seq ∧
        ∀ k, r'.attrs.lookup k = if k = key then some (.str s) else r.attrs.lookup k) ∧
    (f r = none → setFromTaxonomy key f r = .fatal) := by
  have hk : ¬ Reserved key := by
    simp only [List.mem_cons, List.not_mem_nil, or_false] at hkey
    rcases hkey with rfl | rfl | rfl <;> (unfold Reserved; decide)
  constructor
  · intro s hs
    refine ⟨{ r with attrs := setKey key (.str s) r.attrs }, ?_, rfl, rfl, ?_⟩
    · simp [setFromTaxonomy, hs, setAttribute_ordinary _ _ _ hk]
    · intro k; simp [lookup_setKey]
  · intro hs; simp [setFromTaxonomy, hs]

/-- `--aho-corasick FILE`: with at least one hit the three slots `aho_corasick` (total),
`aho_corasick_Fwd`, `aho_corasick_Rev` are written and nothing else changes; without hit the record
is unchanged -/
theorem aho_corasick_effect (O : Annotate.Oracles) (r : Rec) :
    ∃ r', ahoCorasick O r = .ok r' ∧ r'.id = r.id ∧ r'.seq = r.seq ∧
      ∀ k, r'.attrs.lookup k =
        if (O.aho r).1 + (O.aho r).2 > 0 then
          (if k = "aho_corasick" then some (.int ((O.aho r).1 + (O.aho r).2 : Nat))
           else if k = "aho_corasick_Fwd" then some (.int (O.aho r).1)
           else if k = "aho_corasick_Rev" then some (.int (O.aho r).2)
           else r.attrs.lookup k)
        else r.attrs.lookup k := by
  have hk : ∀ kv ∈ ahoCorasickAttrs O r, ¬ Reserved kv.1 := by
    intro kv h
    have := ahoCorasickAttrs_keys O r kv h
    simp only [List.mem_cons, List.not_mem_nil, or_false] at this
    rcases this with e | e | e <;> rw [e] <;> (unfold Reserved; decide)
  obtain ⟨r', e1, e2, e3, e4⟩ := setAttrs_effect _ hk r
  refine ⟨r', e1, e2, e3, ?_⟩
  intro k
  rw [e4 k]
  unfold ahoCorasickAttrs
  by_cases hpos : (O.aho r).1 + (O.aho r).2 > 0
  · simp only [hpos, if_true, lastWrite_cons, lastWrite_nil]
    by_cases h1 : k = "aho_corasick"
    · subst h1; simp
    · by_cases h2 : k = "aho_corasick_Fwd"
      · subst h2; simp
      · by_cases h3 : k = "aho_corasick_Rev" <;> simp [h1, h2, h3]
  · simp [hpos, lastWrite_nil]

/-- `--pattern P [--pattern-name N] [--pattern-error e] [--allows-indels] [--only-forward]`: the direct
strand first; the reverse strand only when the direct one does not match **and** `--only-forward` is not
given.  On a match the four slots of `patternSlots N` (pairwise distinct, `patternSlots_distinct`)
receive: the pattern, the matched text (reverse-complemented for a reverse-strand match), the number of
errors, the location (`a..b` / `complement(a..b)`); nothing else changes; without match the record is
unchanged -/
theorem pattern_effect (O : Annotate.Oracles) (pattern name : String) (e : Int) (indel both : Bool) (r : Rec) :
    ∃ r', matchPattern O pattern name e indel both r = .ok r' ∧ r'.id = r.id ∧ r'.seq = r.seq ∧
      (∀ k, r'.attrs.lookup k = (lastWrite (matchPatternAttrs O pattern name e indel both r) k).or (r.attrs.lookup k)) ∧
      (∀ k v, (k, v) ∈ matchPatternAttrs O pattern name e indel both r → r'.attrs.lookup k = some v) ∧
      (∀ k, k ∉ [(patternSlots name).1, (patternSlots name).2.1, (patternSlots name).2.2.1, (patternSlots name).2.2.2] →
        r'.attrs.lookup k = r.attrs.lookup k) ∧
      (both = false → O.bestMatch pattern e indel true r = none → r' = r) := by
  have hkeys := matchPatternAttrs_keys O pattern name e indel both r
  have hk : ∀ kv ∈ matchPatternAttrs O pattern name e indel both r, ¬ Reserved kv.1 := by
    intro kv h
    have := hkeys kv h
    obtain ⟨h1, h2, h3, h4⟩ := patternSlots_not_reserved name
    simp only [List.mem_cons, List.not_mem_nil, or_false] at this
    rcases this with e | e | e | e <;> rw [e] <;> assumption
  obtain ⟨r', e1, e2, e3, e4⟩ := setAttrs_effect _ hk r
  have hnd : ((matchPatternAttrs O pattern name e indel both r).map (·.1)).Nodup := by
    obtain ⟨d1, d2, d3, d4, d5, d6⟩ := patternSlots_distinct name
    unfold matchPatternAttrs
    simp only
    split
    · simp [d1, d2, d3, d4, d5, d6]
    · split
      · split
        · simp [d1, d2, d3, d4, d5, d6]
        · simp
      · simp
  refine ⟨r', e1, e2, e3, e4, ?_, ?_, ?_⟩
  · intro k v hkv
    rw [e4 k, lastWrite_of_nodup _ hnd k v hkv]; rfl
  · intro k hkn
    rw [e4 k, lastWrite_none _ k (fun kv h e => hkn (e ▸ hkeys kv h))]; rfl
  · intro hb hm
    have : matchPatternAttrs O pattern name e indel both r = [] := by
      unfold matchPatternAttrs; simp [hm, hb]
    rw [this] at e1
    exact (Outcome.ok.inj e1).symm

/-- test: a forward match and, with `--only-forward`, no annotation for a reverse-strand match -/
def exP : Annotate.Oracles :=
  { evalExpr := fun _ _ => none,
    bestMatch := fun _ _ _ direct _ => if direct then none else some ⟨1, 3, 0⟩ }
example :
    matchPattern exP "gt" "primer" 0 false true ⟨"r", [97, 97, 99, 103], []⟩
      = .ok ⟨"r", [97, 97, 99, 103], [("primer_pattern", .str "gt"), ("primer_match", .str "gt"), ("primer_error", .int 0),
          ("primer_location", .str "complement(2..3)")]⟩ ∧
    matchPattern exP "gt" "primer" 0 false false ⟨"r", [97, 97, 99, 103], []⟩ = .ok ⟨"r", [97, 97, 99, 103], []⟩ := by
  constructor <;> decide

/-- **`--only-forward`** (`bothStrand = false`; the unrepaired `MatchPatternWorker` ignored it): the
annotation depends on the direct strand alone — a record the pattern does not match on the direct strand
is left exactly as it is, whatever the reverse strand holds; a record it matches there is annotated as
without the option -/
theorem pattern_only_forward_effect (O : Annotate.Oracles) (pattern name : String) (e : Int) (indel : Bool) (r : Rec) :
    (O.bestMatch pattern e indel true r = none → matchPattern O pattern name e indel false r = .ok r) ∧
    ((O.bestMatch pattern e indel true r).isSome →
      matchPattern O pattern name e indel false r = matchPattern O pattern name e indel true r) ∧
    (∀ O' : Annotate.Oracles, (∀ p e i x, O'.bestMatch p e i true x = O.bestMatch p e i true x) →
      matchPatternAttrs O' pattern name e indel false r = matchPatternAttrs O pattern name e indel false r) := by
  refine ⟨?_, ?_, ?_⟩
  · intro hm
    obtain ⟨r', e1, _, _, _, _, _, e7⟩ := pattern_effect O pattern name e indel false r
    rw [e1, e7 rfl hm]
  · intro hm
    obtain ⟨m, hm⟩ := Option.isSome_iff_exists.mp hm
    simp [matchPattern, matchPatternAttrs, hm]
  · intro O' hO
    simp [matchPatternAttrs, hO]

/-- `--add-lca-in SLOT [--lca-error x]`: the three slots of `lcaSlots SLOT` receive the taxid, the
scientific name and the error of the ancestor the taxonomy finds (the last write wins if two names
coincide); `merged_taxid` is written too when the record did not carry these statistics (`StatsOn`
creates them — a side effect of the real worker that the model keeps); nothing else changes; a taxid
unknown to the taxonomy is a panic -/
theorem add_lca_effect (O : Annotate.Oracles) (slot err : String) (r : Rec) :
    (∀ v, O.lca err r = some v →
      ∃ r', addLCA O slot err r = .ok r' ∧ r'.id = r.id ∧ r'.seq = r.seq ∧
        (∀ k, r'.attrs.lookup k = (lastWrite (lcaAttrs slot v) k).or (r.attrs.lookup k)) ∧
        (∀ k, k ∉ ["merged_taxid", (lcaSlots slot).1, (lcaSlots slot).2.1, (lcaSlots slot).2.2] →
          r'.attrs.lookup k = r.attrs.lookup k) ∧
        r'.attrs.lookup (lcaSlots slot).2.2 = some v.err) ∧
    (O.lca err r = none → addLCA O slot err r = .panic) := by
  constructor
  · intro v hv
    have hkeys := lcaAttrs_keys slot v
    have hk : ∀ kv ∈ lcaAttrs slot v, ¬ Reserved kv.1 := by
      intro kv h
      have := hkeys kv h
      obtain ⟨h1, h2, h3⟩ := lcaSlots_not_reserved slot
      simp only [List.mem_cons, List.not_mem_nil, or_false] at this
      rcases this with e | e | e | e <;> rw [e]
      · unfold Reserved; decide
      · exact h1
      · exact h2
      · exact h3
    obtain ⟨r', e1, e2, e3, e4⟩ := setAttrs_effect _ hk r
    refine ⟨r', by simp [addLCA, hv, e1], e2, e3, e4, ?_, ?_⟩
    · intro k hkn
      rw [e4 k, lastWrite_none _ k (fun kv h e => hkn (e ▸ hkeys kv h))]; rfl
    · rw [e4]
      have : lastWrite (lcaAttrs slot v) (lcaSlots slot).2.2 = some v.err := by
        unfold lcaAttrs lastWrite
        rw [List.reverse_append]
        simp [List.lookup]
      rw [this]; rfl
  · intro hv; simp [addLCA, hv]

/-! ## 6. `CLIAnnotationPipeline`: selection, then the edits -/

/-- a record is in the output of obiannotate iff it is selected and no edit fails on it, and then
it is the edited record; without selection option every record is edited -/
theorem pipeline_exact (G : Grep.Oracles) (g : GrepOpts) (O : Annotate.Oracles) (o : AnnotOpts) (r : Rec)
    (hE : ∀ e ∈ g.predicates, (G.evalBool e r).isSome) :
    pipeline G g O o r =
      if selects G g r != g.invert then
        (match annotate O o r with
         | .ok r' => .out r'
         | .dropped => .absent
         | .panic => .panic
         | .fatal => .fatal)
      else .absent := by
  have h := grep_exact G g r hE
  unfold pipeline
  cases hp : cliPredicate G g with
  | none =>
    rw [hp] at h
    simp only [eval_none, Option.some.injEq] at h
    simp only [← h, if_true]
    cases annotate O o r <;> rfl
  | some p =>
    rw [hp] at h
    simp only [eval_some] at h
    simp only [h]
    cases selects G g r != g.invert
    · simp
    · simp only [if_true]
      cases annotate O o r <;> rfl


/-! ## 7. the command line: an option is honoured or the command fails, never silently ignored

`Getopt` is the model of go-getoptions as `GenerateOptionParser` configures it (bundling of short
options, abbreviations of long names, `--`, unknown options fatal); the declarations are a parameter. -/

open ObiVerif.Getopt in
/-- **every option occurrence on the command line is accounted for**: when the handling of one
occurrence (`--name[=v]`, or one letter of a bundle) does not end in an error, either an assignment to
a declared option has been recorded, or — when no declared name or alias matches — its name has been
recorded as unknown (which makes the command fail, `command_line_outcome`); a word with `n` bundled
options leaves at least `n` records -/
theorem option_never_silently_ignored (decls : List Decl) (word : String) :
    (∀ entry arg rest st st' rest', handlePair decls word entry arg rest st = .ok (st', rest') →
      st.accounted < st'.accounted ∧ st.unknown.length ≤ st'.unknown.length ∧
      (matchesOf decls entry = [] → st'.unknown = st.unknown ++ [entry])) ∧
    (∀ ps rest st st' rest', handlePairs decls word ps rest st = .ok (st', rest') →
      st.accounted + ps.length ≤ st'.accounted) :=
  ⟨fun entry arg rest st st' rest' h =>
      ⟨handlePair_accounts decls word entry arg rest st st' rest' h,
       handlePair_mono decls word entry arg rest st st' rest' h⟩,
   handlePairs_accounts decls word⟩

open ObiVerif.Getopt in
/-- **how the command ends**: it runs (`ok`) only when the whole command line was parsed, no option was
unknown, every required option was given and neither `--help` nor `--version` was asked; a parsing
error (ambiguous abbreviation, missing argument, argument starting with `-`, invalid integer / float /
`key=value`) or an unknown option ends it with exit status 1 (unless `--version` came first: then the
version is printed) -/
theorem command_line_outcome (decls : List Decl) (argv : List String) :
    (∀ st, outcome decls argv = .ok st →
      parse decls argv = .ok st ∧ st.unknown = [] ∧ (∀ d ∈ decls, d.required.isSome = true → called st d.name = true) ∧
      called st "help" = false ∧ called st "version" = false) ∧
    (∀ e st, parse decls argv = .error (e, st) → called st "version" = false → (outcome decls argv).exit = 1) ∧
    (∀ st, parse decls argv = .ok st → st.unknown ≠ [] → called st "version" = false →
      (outcome decls argv).exit = 1) := by
  refine ⟨?_, ?_, ?_⟩
  · intro st h
    unfold outcome at h
    cases hp : parse decls argv with
    | error es =>
      rw [hp] at h
      obtain ⟨e, st0⟩ := es
      simp only at h
      split at h
      · cases h
      · split at h <;> cases h
    | ok st0 =>
      rw [hp] at h
      simp only at h
      split at h
      · cases h
      · rename_i hh
        split at h
        · cases h
        · rename_i hv
          split at h
          · cases h
          · rename_i hreq
            split at h
            · cases h
            · rename_i hu
              cases h
              refine ⟨rfl, hu, ?_, by simpa using hh, by simpa using hv⟩
              intro d hd hr
              have := List.find?_eq_none.mp hreq d hd
              simp only [hr, Bool.true_and, Bool.not_eq_true, Bool.not_eq_false'] at this
              simpa using this
  · intro e st hp hv
    unfold outcome
    rw [hp]
    simp only [hv]
    split <;> rfl
  · intro st hp hu hv
    unfold outcome
    rw [hp]
    simp only [hv]
    split
    · rfl
    · simp only [Bool.false_eq_true, if_false]
      split
      · rfl
      · split
        · rfl
        · rename_i h0; exact absurd h0 hu

open ObiVerif.Getopt in
/-- the spellings: `--` ends the options (what follows is text whatever it looks like); a bundle
`-abc[=v]` is one option per letter, the argument going to the last; a declared name or alias is
itself, never an abbreviation of a longer name; an abbreviation stands for the only name it starts -/
theorem spellings (decls : List Decl) :
    (∀ fuel rest st, loop decls (fuel + 1) ("--" :: rest) st = .ok { st with text := st.text ++ rest }) ∧
    (∀ a b c arg, pairsOf (.short [a, b, c] arg) =
      [(String.singleton a, none), (String.singleton b, none), (String.singleton c, arg)]) ∧
    (∀ key, key ∈ decls.flatMap Decl.keys → matchesOf decls key = [key]) ∧
    (∀ entry key, entry ∉ decls.flatMap Decl.keys →
      (decls.flatMap Decl.keys).filter (fun k => entry.toList.isPrefixOf k.toList) = [key] →
      matchesOf decls entry = [key]) :=
  ⟨loop_terminator decls, pairsOf_short, matchesOf_exact decls, matchesOf_abbrev decls⟩

/-- tests on the declarations of obigrep: a misspelt option, a missing argument, a negative number after
a short option, a bundle, an abbreviation and `--` -/
example :
    (Getopt.outcome Getopt.grepDecls ["--min-lenght=3"]).exit = 1 ∧
    (Getopt.outcome Getopt.grepDecls ["-l"]).exit = 1 ∧
    (Getopt.outcome Getopt.grepDecls ["-l", "-3"]).exit = 1 ∧
    (Getopt.outcome Getopt.grepDecls ["-vq"]).exit = 1 := by
  refine ⟨by decide, by decide, by decide, by decide⟩

/-- the assignments and the remaining words of a command line that is accepted -/
def okEvents : Getopt.Outcome → Option (List (String × String) × List String)
  | .ok st => some (st.events.map (fun e => (e.name, e.value)), st.text)
  | _ => none

example :
    okEvents (Getopt.outcome Getopt.grepDecls ["-vl", "3", "--min-c", "2", "--", "-x"]) =
      some ([("inverse-match", "1"), ("min-length", "3"), ("min-count", "2")], ["-x"]) := by decide

open ObiVerif.Getopt in
/-- **any spelling of a command line is parsed like its canonical spelling** — over whole command lines, for
every declaration table whose names resolve to themselves (in particular the three real ones, below).
`Spells decls items ws`: the words `ws` write the options `items` — each option by its name, an alias or any
unambiguous abbreviation (`Resolves`), the short ones bundled in any way (`-vl 3`, `-lcv 3 4`: an option
taking a value inside a bundle takes the next word), a value attached with `=` or given as the next word,
positional words anywhere, `--` before trailing text.  `canon items` writes each option as `--name` /
`--name=value`.  The tokenizer gives both the same option assignments, unknown-option list and positional
words, or fails on both with the same error in the same state (`Agree`: the error message names the
spelling that was typed, nothing else differs); `parse_spelling`: that common result is `denote items`, the
meaning of the options independent of any spelling.  Outside the theorem: an empty value (it can only be
written as a separate word), `--flag=false`. -/
theorem canonical_spelling (decls : List Decl)
    (hcanon : ∀ d ∈ decls, Resolves decls d.name d ∧ EntryOK d.name.toList)
    (items : List Item) (ws : List String) (h : Spells decls items ws) :
    Agree (parse decls ws) (parse decls (canon items)) ∧
    Agree (parse decls ws) (denote items {}) ∧
    (∀ ws', Spells decls items ws' → Agree (parse decls ws) (parse decls ws')) :=
  ⟨Getopt.canonical_spelling decls hcanon items ws h, parse_spelling h, fun _ h' => spellings_agree h h'⟩

open ObiVerif.Getopt in
/-- the hypothesis of `canonical_spelling` holds of the declarations of the three commands (no name or
alias is declared twice) -/
theorem real_tables_canonical :
    (∀ d ∈ grepDecls, Resolves grepDecls d.name d ∧ EntryOK d.name.toList) ∧
    (∀ d ∈ annotDecls, Resolves annotDecls d.name d ∧ EntryOK d.name.toList) ∧
    (∀ d ∈ distDecls, Resolves distDecls d.name d ∧ EntryOK d.name.toList) :=
  ⟨grepDecls_canon, annotDecls_canon, distDecls_canon⟩

open ObiVerif.Getopt in
/-- two command lines the tokenizer treats alike end alike: same exit status, and the command runs on the
one iff it runs on the other, with the same option values and positional words -/
theorem spelling_same_outcome (decls : List Decl) (ws ws' : List String)
    (h : Agree (parse decls ws) (parse decls ws')) :
    (outcome decls ws).exit = (outcome decls ws').exit ∧
    (∀ st, outcome decls ws = .ok st ↔ outcome decls ws' = .ok st) := by
  unfold outcome
  cases h1 : parse decls ws with
  | ok a =>
    cases h2 : parse decls ws' with
    | ok b =>
      rw [h1, h2] at h
      have e : a = b := h
      subst e
      exact ⟨rfl, fun _ => Iff.rfl⟩
    | error eb => rw [h1, h2] at h; exact absurd h (by cases eb; exact id)
  | error ea =>
    cases h2 : parse decls ws' with
    | ok b => rw [h1, h2] at h; exact absurd h (by cases ea; exact id)
    | error eb =>
      rw [h1, h2] at h
      obtain ⟨e1, s1⟩ := ea
      obtain ⟨e2, s2⟩ := eb
      have hs : s1 = s2 := h.2
      subst hs
      simp only
      constructor
      · split
        · rfl
        · split <;> rfl
      · intro st
        split
        · exact Iff.intro (fun x => nomatch x) (fun x => nomatch x)
        · split <;> exact Iff.intro (fun x => nomatch x) (fun x => nomatch x)

/-- test: `-vl 3 --min-c=2 x -- -y` against `--inverse-match --min-length=3 --min-count=2 x -- -y` -/
example : (Getopt.outcome Getopt.grepDecls ["-vl", "3", "--min-c=2", "x", "--", "-y"]).exit =
    (Getopt.outcome Getopt.grepDecls ["--inverse-match", "--min-length=3", "--min-count=2", "x", "--", "-y"]).exit :=
  (spelling_same_outcome _ _ _
    (canonical_spelling Getopt.grepDecls real_tables_canonical.1 Getopt.Example.items _ Getopt.Example.spells).1).1

end ObiVerif.Props.C16
