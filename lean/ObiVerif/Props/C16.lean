import ObiVerif.Model.Grep
import ObiVerif.Model.Annotate
import ObiVerif.Lemmas.Grep
import ObiVerif.Lemmas.Annotate
import ObiVerif.Props.C03
/-!
# C16 — obigrep, obiannotate, obidistribute act on each record as their options say

All theorems quantify over every value of the option globals (`GrepOpts`, `AnnotOpts`: all option
subsets at once), every record and every value of the oracle parameters (regexp, gval, taxonomy,
apat verdicts).  The stream-level clauses reuse the theorems of C03 (`divideOn_spec`,
`filterOn_spec`, `distribute_spec`, `pairTo_spec`): there a record is a natural number (its rank in
the input); `tbl : Nat → Rec` gives its content.
-/
namespace ObiVerif.Props.C16
open ObiVerif.Grep ObiVerif.Annotate

/-! ## 1. obigrep keeps exactly the records that satisfy every requested criterion -/

/-- for every option set and every record on which the `-p` expressions can be evaluated, the
predicate built by `CLISequenceSelectionPredicate` (nil = keep) says "keep" iff the record satisfies
every requested criterion, the verdict being inverted by `-v` -/
theorem grep_exact (O : Grep.Oracles) (o : GrepOpts) (r : Rec)
    (hE : ∀ e ∈ o.predicates, (O.evalBool e r).isSome) :
    (cliPredicate O o).eval r = some (selects O o r != o.invert) := by
  rw [eval_cli]
  have hx : allO (o.predicates.map fun e => O.evalBool e r) = some (expressionsHold O o r) := by
    rw [allO_of_isSome]
    · simp [expressionsHold, List.all_map, Function.comp_def]
    · intro x hx
      obtain ⟨e, he, rfl⟩ := List.mem_map.mp hx
      exact hE e he
  rw [hx]
  unfold selects
  cases o.invert <;> simp [Bool.and_assoc]

/-- without `-p` there is no side condition -/
theorem grep_exact_no_expression (O : Grep.Oracles) (o : GrepOpts) (r : Rec) (h : o.predicates = []) :
    (cliPredicate O o).eval r = some (selects O o r != o.invert) :=
  grep_exact O o r (by simp [h])

/-- the selection stops the program (`log.Fatalf`) only when a `-p` expression cannot be evaluated
on the record -/
theorem grep_fatal_only_expr (O : Grep.Oracles) (o : GrepOpts) (r : Rec)
    (h : (cliPredicate O o).eval r = none) : ∃ e ∈ o.predicates, O.evalBool e r = none := by
  rw [eval_cli] at h
  have hc : andO (some (selectsPre O o r))
      (andO (allO (o.predicates.map fun e => O.evalBool e r)) (some (selectsPost O o r))) = none := by
    cases hi : o.invert <;> simp [hi] at h <;> exact h
  have hx : allO (o.predicates.map fun e => O.evalBool e r) = none := by
    cases hp : selectsPre O o r <;> rw [hp] at hc
    · simp [andO] at hc
    · cases hx : allO (o.predicates.map fun e => O.evalBool e r) with
      | none => rfl
      | some b => rw [hx] at hc; cases b <;> simp [andO] at hc
  obtain ⟨e, he, h'⟩ := List.mem_map.mp (allO_none _ hx)
  exact ⟨e, he, h'⟩

/-- a record rejected by a length, count or taxonomic criterion is rejected (kept with `-v`) without
evaluating any expression -/
theorem grep_short_circuit (O : Grep.Oracles) (o : GrepOpts) (r : Rec) (h : selectsPre O o r = false) :
    (cliPredicate O o).eval r = some o.invert := by
  rw [eval_cli, h]
  cases o.invert <;> simp [andO]

/-- non-vacuity / test: `-C 3 -l 2 -A count` on a record with count 5 and on one with count 2 -/
def exO : Grep.Oracles := ⟨fun _ _ => true, fun _ _ => some true, fun _ _ => false, fun _ _ => false, fun _ _ => true,
  fun _ _ _ _ _ => true⟩
def exOpts : GrepOpts := { maxCount := 3, minLength := 2, requiredAttrs := ["count"] }
def exR5 : Rec := ⟨"a", [97, 99, 103], [("count", .int 5)]⟩
def exR2 : Rec := ⟨"b", [97, 99, 103], [("count", .int 2)]⟩

example : (cliPredicate exO exOpts).eval exR5 = some false ∧ (cliPredicate exO exOpts).eval exR2 = some true := by
  constructor <;> (rw [grep_exact exO exOpts _ (by simp [exOpts])]; decide)

/-- `--max-count` alone is a criterion (false of the unrepaired code, which ignored it) -/
example : (cliPredicate exO { maxCount := 3 }).eval exR5 = some false := by
  rw [grep_exact exO _ _ (by simp)]; decide

/-- `-v` alone keeps nothing (false of the unrepaired code, where `Not()` of nil was nil) -/
example : (cliPredicate exO { invert := true }).eval exR5 = some false := by
  rw [grep_exact exO _ _ (by simp)]; decide

/-! ## 2. paired modes -/

/-- the `switch` of `PairedPredicat` computes the six truth tables (decided over the whole table) -/
theorem paired_modes (m : Mode) (a b : Bool) : combine m a b = truthTable m a b := by
  cases m <;> cases a <;> cases b <;> rfl

/-- for every predicate (nil included) the verdict on a pair is the truth table of the mode applied
to the verdicts on the two mates -/
theorem paired_exact (m : Mode) (p : Pred) (r q : Rec) (a b : Bool)
    (ha : p.eval r = some a) (hb : p.eval q = some b) :
    pairedEval m p r (some q) = some (truthTable m a b) := by
  cases p with
  | none =>
    simp only [eval_none, Option.some.injEq] at ha hb
    subst ha; subst hb
    cases m <;> simp [pairedEval, pairedPred, pairedFun, combine, truthTable]
  | some f =>
    simp only [eval_some] at ha hb
    simp only [pairedEval, pairedPred]
    rw [pairedFun_some m f r q a b ha hb, ← paired_modes]
    cases m <;> simp [combine]

/-- an unpaired record is judged on itself whatever the mode -/
theorem unpaired_exact (m : Mode) (p : Pred) (r : Rec) : pairedEval m p r none = p.eval r := by
  cases p with
  | none => cases m <;> simp [pairedEval, pairedPred, pairedFun]
  | some f =>
    simp only [pairedEval, pairedPred, pairedFun, eval_some]
    cases f r <;> rfl

/-- obigrep on paired input: all option sets, all six modes -/
theorem paired_grep_exact (O : Grep.Oracles) (o : GrepOpts) (m : Mode) (r q : Rec)
    (hr : ∀ e ∈ o.predicates, (O.evalBool e r).isSome) (hq : ∀ e ∈ o.predicates, (O.evalBool e q).isSome) :
    pairedEval m (cliPredicate O o) r (some q)
      = some (truthTable m (selects O o r != o.invert) (selects O o q != o.invert)) :=
  paired_exact m _ r q _ _ (grep_exact O o r hr) (grep_exact O o q hq)

/-- the six mode names are accepted, anything else is refused (`log.Fatalf`) -/
theorem parseMode_names :
    parseMode "forward" = some .forward ∧ parseMode "reverse" = some .reverse ∧ parseMode "and" = some .and ∧
    parseMode "or" = some .or ∧ parseMode "andnot" = some .andnot ∧ parseMode "xor" = some .xor ∧
    ∀ s, s ∉ ["forward", "reverse", "and", "or", "andnot", "xor"] → parseMode s = none := by
  refine ⟨by decide, by decide, by decide, by decide, by decide, by decide, ?_⟩
  intro s hs
  simp only [List.mem_cons, List.not_mem_nil, or_false, not_or] at hs
  simp [parseMode, hs]

example : pairedEval .xor (cliPredicate exO exOpts) exR5 (some exR2) = some true := by
  rw [paired_grep_exact exO exOpts .xor exR5 exR2 (by simp [exOpts]) (by simp [exOpts])]; decide

end ObiVerif.Props.C16
