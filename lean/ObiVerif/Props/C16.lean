import ObiVerif.Model.Grep
import ObiVerif.Model.Annotate
import ObiVerif.Lemmas.Grep
import ObiVerif.Lemmas.Annotate
import ObiVerif.Props.C03
/-!
# C16 — obigrep, obiannotate, obidistribute act on each record as their options say

All theorems quantify over every value of the option globals (`GrepOpts`, `AnnotOpts`: all option
subsets at once), every record and every value of the oracle parameters (regexp, gval, taxonomy,
apat verdicts).  The stream-level clauses reuse the theorems of C03 (`divideOn_spec`,
`filterOn_spec`, `distribute_spec`, `pairTo_spec`): there a record is a natural number (its rank in
the input); `tbl : Nat → Rec` gives its content.
-/
namespace ObiVerif.Props.C16
open ObiVerif.Grep ObiVerif.Annotate

/-! ## 1. obigrep keeps exactly the records that satisfy every requested criterion -/

/-- for every option set and every record on which the `-p` expressions can be evaluated, the
predicate built by `CLISequenceSelectionPredicate` (nil = keep) says "keep" iff the record satisfies
every requested criterion, the verdict being inverted by `-v` -/
theorem grep_exact (O : Grep.Oracles) (o : GrepOpts) (r : Rec)
    (hE : ∀ e ∈ o.predicates, (O.evalBool e r).isSome) :
    (cliPredicate O o).eval r = some (selects O o r != o.invert) := by
  rw [eval_cli]
  have hx : allO (o.predicates.map fun e => O.evalBool e r) = some (expressionsHold O o r) := by
    rw [allO_of_isSome]
    · simp [expressionsHold, List.all_map, Function.comp_def]
    · intro x hx
      obtain ⟨e, he, rfl⟩ := List.mem_map.mp hx
      exact hE e he
  rw [hx]
  unfold selects
  cases o.invert <;> simp [Bool.and_assoc]

/-- without `-p` there is no side condition -/
theorem grep_exact_no_expression (O : Grep.Oracles) (o : GrepOpts) (r : Rec) (h : o.predicates = []) :
    (cliPredicate O o).eval r = some (selects O o r != o.invert) :=
  grep_exact O o r (by simp [h])

/-- the selection stops the program (`log.Fatalf`) only when a `-p` expression cannot be evaluated
on the record -/
theorem grep_fatal_only_expr (O : Grep.Oracles) (o : GrepOpts) (r : Rec)
    (h : (cliPredicate O o).eval r = none) : ∃ e ∈ o.predicates, O.evalBool e r = none := by
  rw [eval_cli] at h
  have hc : andO (some (selectsPre O o r))
      (andO (allO (o.predicates.map fun e => O.evalBool e r)) (some (selectsPost O o r))) = none := by
    cases hi : o.invert <;> simp [hi] at h <;> exact h
  have hx : allO (o.predicates.map fun e => O.evalBool e r) = none := by
    cases hp : selectsPre O o r <;> rw [hp] at hc
    · simp [andO] at hc
    · cases hx : allO (o.predicates.map fun e => O.evalBool e r) with
      | none => rfl
      | some b => rw [hx] at hc; cases b <;> simp [andO] at hc
  obtain ⟨e, he, h'⟩ := List.mem_map.mp (allO_none _ hx)
  exact ⟨e, he, h'⟩

/-- a record rejected by a length, count or taxonomic criterion is rejected (kept with `-v`) without
evaluating any expression -/
theorem grep_short_circuit (O : Grep.Oracles) (o : GrepOpts) (r : Rec) (h : selectsPre O o r = false) :
    (cliPredicate O o).eval r = some o.invert := by
  rw [eval_cli, h]
  cases o.invert <;> simp [andO]

/-- non-vacuity / test: `-C 3 -l 2 -A count` on a record with count 5 and on one with count 2 -/
def exO : Grep.Oracles := ⟨fun _ _ => true, fun _ _ => some true, fun _ _ => false, fun _ _ => false, fun _ _ => true,
  fun _ _ _ _ _ => true⟩
def exOpts : GrepOpts := { maxCount := 3, minLength := 2, requiredAttrs := ["count"] }
def exR5 : Rec := ⟨"a", [97, 99, 103], [("count", .int 5)]⟩
def exR2 : Rec := ⟨"b", [97, 99, 103], [("count", .int 2)]⟩

example : (cliPredicate exO exOpts).eval exR5 = some false ∧ (cliPredicate exO exOpts).eval exR2 = some true := by
  constructor <;> (rw [grep_exact exO exOpts _ (by simp [exOpts])]; decide)

/-- `--max-count` alone is a criterion (false of the unrepaired code, which ignored it) -/
example : (cliPredicate exO { maxCount := 3 }).eval exR5 = some false := by
  rw [grep_exact exO _ _ (by simp)]; decide

/-- `-v` alone keeps nothing (false of the unrepaired code, where `Not()` of nil was nil) -/
example : (cliPredicate exO { invert := true }).eval exR5 = some false := by
  rw [grep_exact exO _ _ (by simp)]; decide

/-! ## 2. paired modes -/

/-- the `switch` of `PairedPredicat` computes the six truth tables (decided over the whole table) -/
theorem paired_modes (m : Mode) (a b : Bool) : combine m a b = truthTable m a b := by
  cases m <;> cases a <;> cases b <;> rfl

/-- for every predicate (nil included) the verdict on a pair is the truth table of the mode applied
to the verdicts on the two mates -/
theorem paired_exact (m : Mode) (p : Pred) (r q : Rec) (a b : Bool)
    (ha : p.eval r = some a) (hb : p.eval q = some b) :
    pairedEval m p r (some q) = some (truthTable m a b) := by
  cases p with
  | none =>
    simp only [eval_none, Option.some.injEq] at ha hb
    subst ha; subst hb
    cases m <;> simp [pairedEval, pairedPred, pairedFun, combine, truthTable]
  | some f =>
    simp only [eval_some] at ha hb
    simp only [pairedEval, pairedPred]
    rw [pairedFun_some m f r q a b ha hb, ← paired_modes]
    cases m <;> simp [combine]

/-- an unpaired record is judged on itself whatever the mode -/
theorem unpaired_exact (m : Mode) (p : Pred) (r : Rec) : pairedEval m p r none = p.eval r := by
  cases p with
  | none => cases m <;> simp [pairedEval, pairedPred, pairedFun]
  | some f =>
    simp only [pairedEval, pairedPred, pairedFun, eval_some]
    cases f r <;> rfl

/-- obigrep on paired input: all option sets, all six modes -/
theorem paired_grep_exact (O : Grep.Oracles) (o : GrepOpts) (m : Mode) (r q : Rec)
    (hr : ∀ e ∈ o.predicates, (O.evalBool e r).isSome) (hq : ∀ e ∈ o.predicates, (O.evalBool e q).isSome) :
    pairedEval m (cliPredicate O o) r (some q)
      = some (truthTable m (selects O o r != o.invert) (selects O o q != o.invert)) :=
  paired_exact m _ r q _ _ (grep_exact O o r hr) (grep_exact O o q hq)

/-- the six mode names are accepted, anything else is refused (`log.Fatalf`) -/
theorem parseMode_names :
    parseMode "forward" = some .forward ∧ parseMode "reverse" = some .reverse ∧ parseMode "and" = some .and ∧
    parseMode "or" = some .or ∧ parseMode "andnot" = some .andnot ∧ parseMode "xor" = some .xor ∧
    ∀ s, s ∉ ["forward", "reverse", "and", "or", "andnot", "xor"] → parseMode s = none := by
  refine ⟨by decide, by decide, by decide, by decide, by decide, by decide, ?_⟩
  intro s hs
  simp only [List.mem_cons, List.not_mem_nil, or_false, not_or] at hs
  simp [parseMode, hs]

example : pairedEval .xor (cliPredicate exO exOpts) exR5 (some exR2) = some true := by
  rw [paired_grep_exact exO exOpts .xor exR5 exR2 (by simp [exOpts]) (by simp [exOpts])]; decide

/-! ## 3. kept / discarded streams (`CLIFilterSequence`), from the stream theorems of C03

Records of the stream model are their rank in the input; `tbl` gives the content of each.  `keep` is the
Boolean the real `DivideOn` / `FilterOn` gets from the predicate (nil = keep everything). -/

/-- the verdict `CLIFilterSequence` uses on unpaired input, as a function of the rank -/
def keepAt (O : Grep.Oracles) (o : GrepOpts) (tbl : Nat → Grep.Rec) (i : Nat) : Bool :=
  (cliPredicate O o).eval (tbl i) == some true

theorem keepAt_eq (O : Grep.Oracles) (o : GrepOpts) (tbl : Nat → Grep.Rec)
    (hE : ∀ i, ∀ e ∈ o.predicates, (O.evalBool e (tbl i)).isSome) :
    keepAt O o tbl = fun i => selects O o (tbl i) != o.invert := by
  funext i
  simp [keepAt, grep_exact O o (tbl i) (hE i)]

open ObiVerif.Iter ObiVerif.Props.C03 in
/-- `--save-discarded`: for every partition of the input into batches and every arrival order, the
kept stream is the input filtered by "satisfies every requested criterion (xor -v)", the discarded
stream is the input filtered by the negation, both in input order and numbered 0,1,2,…; together they
are a permutation of the input (nothing lost, nothing duplicated) -/
theorem grep_partition (O : Grep.Oracles) (o : GrepOpts) (tbl : Nat → Grep.Rec)
    (hE : ∀ i, ∀ e ∈ o.predicates, (O.evalBool e (tbl i)).isSome)
    (size : Nat) (hsize : 0 < size) (v : Nat → List Nat) (n : Nat) (ks : List Nat)
    (hp : ks.Perm (List.range n)) :
    let kept := (divideOn (keepAt O o tbl) size (ks.map fun k => (k, v k))).1
    let disc := (divideOn (keepAt O o tbl) size (ks.map fun k => (k, v k))).2
    Numbered kept ∧ Numbered disc ∧
    flatten kept = (inFlat v n).filter (fun i => selects O o (tbl i) != o.invert) ∧
    flatten disc = (inFlat v n).filter (fun i => !(selects O o (tbl i) != o.invert)) ∧
    (flatten kept ++ flatten disc).Perm (inFlat v n) := by
  intro kept disc
  obtain ⟨h1, h2, h3, h4, _⟩ := divideOn_spec (keepAt O o tbl) size hsize v n ks hp
  have hk := keepAt_eq O o tbl hE
  have e3 : flatten kept = (inFlat v n).filter (fun i => selects O o (tbl i) != o.invert) :=
    h3.trans (by rw [hk])
  have e4 : flatten disc = (inFlat v n).filter (fun i => !(selects O o (tbl i) != o.invert)) :=
    h4.trans (by rw [hk])
  refine ⟨h1, h2, e3, e4, ?_⟩
  rw [e3, e4]
  exact List.filter_append_perm _ _

open ObiVerif.Iter ObiVerif.Props.C03 in
/-- without `--save-discarded` (`FilterOn`, any number of workers): the output is the input filtered,
in input order -/
theorem grep_filter (O : Grep.Oracles) (o : GrepOpts) (tbl : Nat → Grep.Rec)
    (hE : ∀ i, ∀ e ∈ o.predicates, (O.evalBool e (tbl i)).isSome)
    (size : Nat) (hsize : 0 < size) (v : Nat → List Nat) (n : Nat) (ks : List Nat)
    (hp : ks.Perm (List.range n)) :
    let out := filterOn (keepAt O o tbl) size (ks.map fun k => (k, v k))
    Numbered out ∧ flatten out = (inFlat v n).filter (fun i => selects O o (tbl i) != o.invert) := by
  intro out
  obtain ⟨h1, h2, _⟩ := filterOn_spec (keepAt O o tbl) size hsize v n ks hp
  exact ⟨h1, h2.trans (by rw [keepAt_eq O o tbl hE])⟩

open ObiVerif.Iter ObiVerif.Props.C03 in
/-- paired input: a pair is one element of the stream (`PairTo` links the i-th records, C03
`pairTo_spec`) and is kept or discarded as a whole; the R1 and R2 files are written from the same
list of pairs, so the mates are at the same rank in both -/
theorem mates_stay_paired (O : Grep.Oracles) (o : GrepOpts) (m : Mode) (fwd rev : Nat → Grep.Rec)
    (hE : ∀ i, ∀ e ∈ o.predicates, (O.evalBool e (fwd i)).isSome ∧ (O.evalBool e (rev i)).isSome)
    (size : Nat) (hsize : 0 < size) (v : Nat → List Nat) (n : Nat) (ks : List Nat)
    (hp : ks.Perm (List.range n)) :
    let keep := fun i => pairedEval m (cliPredicate O o) (fwd i) (some (rev i)) == some true
    let kept := flatten (divideOn keep size (ks.map fun k => (k, v k))).1
    let disc := flatten (divideOn keep size (ks.map fun k => (k, v k))).2
    let sel := fun i => truthTable m (selects O o (fwd i) != o.invert) (selects O o (rev i) != o.invert)
    kept = (inFlat v n).filter sel ∧ disc = (inFlat v n).filter (fun i => !sel i) ∧
    (kept.map fwd).zip (kept.map rev) = kept.map (fun i => (fwd i, rev i)) ∧
    (disc.map fwd).zip (disc.map rev) = disc.map (fun i => (fwd i, rev i)) ∧
    (kept ++ disc).Perm (inFlat v n) := by
  intro keep kept disc sel
  have hk : keep = sel := by
    funext i
    simp [keep, sel, paired_grep_exact O o m (fwd i) (rev i) (fun e he => (hE i e he).1) (fun e he => (hE i e he).2)]
  obtain ⟨_, _, h3, h4, _⟩ := divideOn_spec keep size hsize v n ks hp
  have e3 : kept = (inFlat v n).filter sel := h3.trans (by rw [hk])
  have e4 : disc = (inFlat v n).filter (fun i => !sel i) := h4.trans (by rw [hk])
  refine ⟨e3, e4, ?_, ?_, ?_⟩
  · simp [List.zip_map']
  · simp [List.zip_map']
  · rw [e3, e4]; exact List.filter_append_perm _ _

open ObiVerif.Iter ObiVerif.Props.C03 in
/-- obimultiplex, unidentified reads (`DivideOn(HasAttribute("obimultiplex_error"))`): every record
goes to exactly one of the two outputs, chosen from the record alone, in input order -/
theorem unidentified_partition (tbl : Nat → Grep.Rec)
    (size : Nat) (hsize : 0 < size) (v : Nat → List Nat) (n : Nat) (ks : List Nat)
    (hp : ks.Perm (List.range n)) :
    let isErr := fun i => hasAttr "obimultiplex_error" (tbl i)
    let unid := flatten (divideOn isErr size (ks.map fun k => (k, v k))).1
    let out := flatten (divideOn isErr size (ks.map fun k => (k, v k))).2
    unid = (inFlat v n).filter isErr ∧ out = (inFlat v n).filter (fun i => !isErr i) ∧
    (unid ++ out).Perm (inFlat v n) := by
  intro isErr unid out
  obtain ⟨_, _, h3, h4, _⟩ := divideOn_spec isErr size hsize v n ks hp
  have e3 : unid = _ := h3
  have e4 : out = _ := h4
  exact ⟨e3, e4, by rw [e3, e4]; exact List.filter_append_perm _ _⟩

/-! ## 4. obidistribute -/

open ObiVerif.Iter ObiVerif.Props.C03 in
/-- `obidistribute -c key1 [-d key2]`: the class of a record is `dualClass` — a function of the record
alone —, the classifier numbers the classes by any injective `code`; the stream of a class holds
exactly the records of that class, in input order, each as often as it occurs in the input, and a
record occurs in no other stream -/
theorem distribute_partition (key1 key2 na : String) (tbl : Nat → Grep.Rec)
    (code : String × String → Nat) (hinj : ∀ a b, code a = code b → a = b)
    (size : Nat) (hsize : 0 < size) (v : Nat → List Nat) (n : Nat) (ks : List Nat)
    (hp : ks.Perm (List.range n)) (c : String × String) :
    let cls := fun i => code (dualClass key1 key2 na (tbl i))
    let out := distributeKey cls size (code c) (ks.map fun k => (k, v k))
    Numbered out ∧
    flatten out = (inFlat v n).filter (fun i => dualClass key1 key2 na (tbl i) == c) ∧
    ∀ i, (flatten out).count i = if dualClass key1 key2 na (tbl i) = c then (inFlat v n).count i else 0 := by
  intro cls out
  obtain ⟨h1, h2, _⟩ := distribute_spec cls size hsize v n ks hp (code c)
  have hr := distribute_routing cls size hsize v n ks hp (code c)
  have hc : ∀ i, (cls i == code c) = (dualClass key1 key2 na (tbl i) == c) := by
    intro i
    by_cases h : dualClass key1 key2 na (tbl i) = c
    · simp [cls, h]
    · have : code (dualClass key1 key2 na (tbl i)) ≠ code c := fun e => h (hinj _ _ e)
      show (code (dualClass key1 key2 na (tbl i)) == code c) = (dualClass key1 key2 na (tbl i) == c)
      rw [beq_eq_false_iff_ne.mpr this, beq_eq_false_iff_ne.mpr h]
  refine ⟨h1, ?_, ?_⟩
  · rw [h2]; congr 1; funext i; exact hc i
  · intro i
    rw [hr i]
    by_cases h : dualClass key1 key2 na (tbl i) = c
    · simp [cls, h]
    · have : code (dualClass key1 key2 na (tbl i)) ≠ code c := fun e => h (hinj _ _ e)
      simp [cls, h, this]

/-- test: the class of a record without the classifier tag is the NA value -/
example : dualClass "sample" "" "NA" exR5 = ("NA", "") ∧
    dualClass "count" "dir" "NA" exR5 = ("5", "NA") := by decide

end ObiVerif.Props.C16
