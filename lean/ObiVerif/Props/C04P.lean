import ObiVerif.Lemmas.PairedSteps
import ObiVerif.Lemmas.PairedStepsLive
/-!
# C04 — the goroutine protocol of a paired output: no loss, no duplicate, in order, for every interleaving

`Model/PairedSteps.lean` is the transition system of the goroutines of `Write…ToFile(…, WritePairedReadsTo(f2))`:
`N1` formatting workers and the writer goroutine of the first writer, the goroutine of `iterator.PairedWith()`,
`N2` formatting workers and the writer goroutine of the second writer, the consumer, all channels unbuffered.
`Reach src N1 N2 s`: `s` is reachable by SOME interleaving of the steps from the initial state in which the source
delivers the batch numbers `src` (any permutation of `0..n-1`).  The theorems hold for every reachable state, i.e. for
every interleaving; the arrival orders at the two writer goroutines (`arrived1`, `arrived2`) are whatever the
interleaving makes them (they differ in general).
-/
set_option Elab.async false
namespace ObiVerif.Props.C04
open ObiVerif.Reseq ObiVerif.PairedSteps

/-- **first file**: in every interleaving, when writer goroutine 1 closes its file it has written the batches
`0, 1, …, n-1` — each exactly once, in increasing order — and its map of early chunks is empty (nothing lost). -/
theorem paired_file1_complete_in_order (src : List Nat) (n N1 N2 : Nat) (hp : src.Perm (List.range n)) (hN1 : 0 < N1)
    (s : St) (hr : Reach src N1 N2 s) (hc : s.closed1 = true) :
    s.w1.acc = List.range n ∧ s.w1.next = n ∧ s.w1.pending = [] := by
  have h := reach_inv hr
  rw [h.r1]
  exact runId_perm _ n ((arrived1_perm h hN1 (h.fcl1 hc)).trans hp)

/-- **second file**: the hand-over first writer → `PairedWith()` → second writer loses and duplicates nothing: when
writer goroutine 2 closes its file it has written the (mates of) batches `0, 1, …, n-1`, each once, in order. -/
theorem paired_file2_complete_in_order (src : List Nat) (n N1 N2 : Nat) (hp : src.Perm (List.range n)) (hN1 : 0 < N1)
    (hN2 : 0 < N2) (s : St) (hr : Reach src N1 N2 s) (hc : s.closed2 = true) :
    s.w2.acc = List.range n ∧ s.w2.next = n ∧ s.w2.pending = [] := by
  have h := reach_inv hr
  rw [h.r2]
  exact runId_perm _ n ((arrived2_perm h hN1 hN2 (h.fcl2 hc)).trans hp)

/-- **the two files are in step**: at the end of every interleaving both files hold the batches in the same order
(batch `k` of file 2 is the batch of the mates of batch `k` of file 1: `WriterFmt.writePaired`), and the consumer has
received every batch exactly once. -/
theorem paired_final_in_step (src : List Nat) (n N1 N2 : Nat) (hp : src.Perm (List.range n)) (hN1 : 0 < N1) (hN2 : 0 < N2)
    (s : St) (hr : Reach src N1 N2 s) (hf : Final s) :
    s.w1.acc = List.range n ∧ s.w2.acc = s.w1.acc ∧ s.delivered.Perm (List.range n) := by
  have h := reach_inv hr
  have h1 := paired_file1_complete_in_order src n N1 N2 hp hN1 s hr hf.1
  have h2 := paired_file2_complete_in_order src n N1 N2 hp hN1 hN2 s hr hf.2.1
  refine ⟨h1.1, by rw [h1.1, h2.1], ?_⟩
  have hall := h.fcl2 hf.2.1
  refine List.Perm.trans ?_ ((arrived2_perm h hN1 hN2 hall).trans hp)
  apply perm_of_count
  intro k
  have := h.c3 k
  rw [pushHeld_all_done _ hall] at this
  simp at this
  exact this.symm

/-- **no send on a closed channel** (a Go panic): a formatting worker never holds a chunk or a batch once the channel
of its writer goroutine / of its iterator has been closed. -/
theorem paired_no_send_after_close (src : List Nat) (N1 N2 : Nat) (s : St) (hr : Reach src N1 N2 s) :
    ((s.closed1 = true ∨ s.mid1Closed = true) → fmtHeld s.ws1 = [] ∧ pushHeld s.ws1 = []) ∧
    ((s.closed2 = true ∨ s.outClosed = true) → fmtHeld s.ws2 = [] ∧ pushHeld s.ws2 = []) ∧
    (s.mid2Closed = true → s.pw = none) := by
  have h := reach_inv hr
  refine ⟨?_, ?_, ?_⟩
  · intro hc
    have hall : ∀ pc ∈ s.ws1, pc = .done := by
      rcases hc with hc | hc
      · exact h.fcl1 hc
      · exact h.fmid1 hc
    exact ⟨fmtHeld_all_done _ hall, pushHeld_all_done _ hall⟩
  · intro hc
    have hall : ∀ pc ∈ s.ws2, pc = .done := by
      rcases hc with hc | hc
      · exact h.fcl2 hc
      · exact h.fout hc
    exact ⟨fmtHeld_all_done _ hall, pushHeld_all_done _ hall⟩
  · intro hc
    exact (h.fpw (h.fmid2 hc)).2

/-- non-vacuity: a complete interleaving of one batch through one worker per writer reaches a final state -/
example : ∃ s, Reach [0] 1 1 s ∧ Final s := by
  have r0 : Reach [0] 1 1 (init [0] 1 1) := .init
  have r1 : Reach [0] 1 1 (⟨[], false, [.fmt 0], ⟨0, [], []⟩, [], false, false, none, false, false, [.idle], ⟨0, [], []⟩, [], false, false, []⟩ : St) :=
    r0.step (.srcHand _ 0 [] 0 rfl rfl)
  have r2 : Reach [0] 1 1 (⟨[], false, [.push 0], recv ⟨0, [], []⟩ 0, [0], false, false, none, false, false, [.idle], ⟨0, [], []⟩, [], false, false, []⟩ : St) :=
    r1.step (.f1Chunk _ 0 0 rfl)
  have r3 : Reach [0] 1 1 (⟨[], false, [.idle], recv ⟨0, [], []⟩ 0, [0], false, false, some 0, false, false, [.idle], ⟨0, [], []⟩, [], false, false, []⟩ : St) :=
    r2.step (.f1Push _ 0 0 rfl rfl rfl)
  have r4 : Reach [0] 1 1 (⟨[], false, [.idle], recv ⟨0, [], []⟩ 0, [0], false, false, none, false, false, [.fmt 0], ⟨0, [], []⟩, [], false, false, []⟩ : St) :=
    r3.step (.pwHand _ 0 0 rfl rfl)
  have r5 : Reach [0] 1 1 (⟨[], false, [.idle], recv ⟨0, [], []⟩ 0, [0], false, false, none, false, false, [.push 0], recv ⟨0, [], []⟩ 0, [0], false, false, []⟩ : St) :=
    r4.step (.f2Chunk _ 0 0 rfl)
  have r6 : Reach [0] 1 1 (⟨[], false, [.idle], recv ⟨0, [], []⟩ 0, [0], false, false, none, false, false, [.idle], recv ⟨0, [], []⟩ 0, [0], false, false, [0]⟩ : St) :=
    r5.step (.f2Push _ 0 0 rfl)
  have r7 : Reach [0] 1 1 (⟨[], true, [.idle], recv ⟨0, [], []⟩ 0, [0], false, false, none, false, false, [.idle], recv ⟨0, [], []⟩ 0, [0], false, false, [0]⟩ : St) :=
    r6.step (.srcClose _ rfl rfl)
  have r8 : Reach [0] 1 1 (⟨[], true, [.done], recv ⟨0, [], []⟩ 0, [0], false, false, none, false, false, [.idle], recv ⟨0, [], []⟩ 0, [0], false, false, [0]⟩ : St) :=
    r7.step (.f1Finish _ 0 rfl rfl)
  have r9 : Reach [0] 1 1 (⟨[], true, [.done], recv ⟨0, [], []⟩ 0, [0], true, false, none, false, false, [.idle], recv ⟨0, [], []⟩ 0, [0], false, false, [0]⟩ : St) :=
    r8.step (.close1 _ (by simp) rfl)
  have r10 : Reach [0] 1 1 (⟨[], true, [.done], recv ⟨0, [], []⟩ 0, [0], true, true, none, false, false, [.idle], recv ⟨0, [], []⟩ 0, [0], false, false, [0]⟩ : St) :=
    r9.step (.mid1Close _ (by simp) rfl)
  have r11 : Reach [0] 1 1 (⟨[], true, [.done], recv ⟨0, [], []⟩ 0, [0], true, true, none, true, false, [.idle], recv ⟨0, [], []⟩ 0, [0], false, false, [0]⟩ : St) :=
    r10.step (.pwFinish _ rfl rfl rfl)
  have r12 : Reach [0] 1 1 (⟨[], true, [.done], recv ⟨0, [], []⟩ 0, [0], true, true, none, true, true, [.idle], recv ⟨0, [], []⟩ 0, [0], false, false, [0]⟩ : St) :=
    r11.step (.mid2Close _ rfl rfl)
  have r13 : Reach [0] 1 1 (⟨[], true, [.done], recv ⟨0, [], []⟩ 0, [0], true, true, none, true, true, [.done], recv ⟨0, [], []⟩ 0, [0], false, false, [0]⟩ : St) :=
    r12.step (.f2Finish _ 0 rfl rfl)
  have r14 : Reach [0] 1 1 (⟨[], true, [.done], recv ⟨0, [], []⟩ 0, [0], true, true, none, true, true, [.done], recv ⟨0, [], []⟩ 0, [0], true, false, [0]⟩ : St) :=
    r13.step (.close2 _ (by simp) rfl)
  have r15 : Reach [0] 1 1 (⟨[], true, [.done], recv ⟨0, [], []⟩ 0, [0], true, true, none, true, true, [.done], recv ⟨0, [], []⟩ 0, [0], true, true, [0]⟩ : St) :=
    r14.step (.outClose _ (by simp) rfl)
  exact ⟨_, r15, rfl, rfl, rfl⟩

/-- **deadlock freedom**: a reachable state that is not final always has an enabled step, whatever the interleaving so
far (with at least one formatting worker per writer): the hand-over first writer → `PairedWith()` → second writer →
consumer cannot get stuck, the `Close` protocol always comes to its end. -/
theorem paired_no_deadlock (src : List Nat) (N1 N2 : Nat) (hN1 : 0 < N1) (hN2 : 0 < N2) (s : St)
    (hr : Reach src N1 N2 s) (hnf : ¬ Final s) : ∃ s', Step s s' :=
  progress hN1 hN2 (reach_inv hr) hnf

/-- **termination**: every interleaving is finite — a run from the initial state has at most
`8·|src| + N1 + N2 + 7` steps (each step decreases `rank`); with `paired_no_deadlock` every maximal run ends in a final
state, where `paired_final_in_step` applies. -/
theorem paired_terminates (src : List Nat) (N1 N2 : Nat) (s : St) (m : Nat) (r : Run (init src N1 N2) s m) :
    m ≤ rank (init src N1 N2) := by
  have := run_bounded r
  omega

end ObiVerif.Props.C04
