import ObiVerif.Props.C15
import ObiVerif.Lemmas.TagBest
import ObiVerif.Lemmas.TagStage
/-!
# C15 — second deepening round (property theorems)

10. the theorems of `Props/C15.lean` on the loops that CALL THE VERBATIM KERNELS of C09 (`Model/TagV.lean`:
    `FastLCSEGFScoreByte` on the scratch buffer shared by the calls of one scan, `D1Or0`, byte comparison): no
    hypothesis on the kernels is left — the "kernel readings" of `Model/Tag.lean` are theorems
    (`Lemmas/TagKernel.lean`).  Hypotheses on the inputs: sequences over `a c g t` and `|q| + |r| < 30000` for every
    pair compared (beyond, the packed 16-bit cells of the LCS kernel and its 30000 sentinel mean nothing, C09);
11. the two stages of `obitag2.Identify`: the ancestor statement for the list searched last, and what is NOT claimed;
12. every recorded distance of `IndexSequence` is the minimum of its lineage level;
13. `bestId` / `bestmatch`: which reference is reported among ties.
-/
namespace ObiVerif.Props.C15V
open ObiVerif.Tag ObiVerif.Tax ObiVerif.QGram ObiVerif.Kmer ObiVerif.Lcs

/-! ## 10. the verbatim kernels -/

/-- **the reading of `D1Or0` is a theorem**: on words over `a c g t` (any lengths) the verbatim `D1Or0` does not
panic and its verdict is 0 / 1 exactly when the LCS distance `alilength - lcs` of `FastLCSScore` without bound is
0 / 1 (else -1); and then the shortest alignment achieving the LCS is as long as the longer word, which is what
`FindClosests` assumes when it rebuilds `alilength = max(len)`, `lcs = alilength - d` from the verdict -/
theorem d1or0_is_lcs_distance (q r : Bytes) (hq : IsACGT q) (hr : IsACGT r) :
    ∃ d, Lcs.d1or0 q r = .ok d ∧
      (d.verdict = 0 ↔ (candOf q r).dist = 0) ∧ (d.verdict = 1 ↔ (candOf q r).dist = 1) ∧
      (d.verdict = 0 ∨ d.verdict = 1 ∨ d.verdict = -1) ∧
      ((candOf q r).dist ≤ 1 → (candOf q r).ali = max q.length r.length) ∧
      ((candOf q r).dist = 0 ↔ q = r) := by
  obtain ⟨h0, hz, ho, hc⟩ := d1or0_acgt q r hq hr
  refine ⟨_, h0, hz, ho, hc, ?_, candOf_dist_zero_iff q r hq hr⟩
  intro hd
  have : (candOf q r).dist = 0 ∨ (candOf q r).dist = 1 := by omega
  rcases this with e | e
  · have := (candOf_dist_zero_iff q r hq hr).1 e
    subst this
    have := lcsDP_self samenuc q (fun x hx => samenuc_self_acgt x (hq x hx))
    simp only [candOf, this]; omega
  · exact ((candOf_dist_one_iff q r hq hr).2 e).1

/-- **the reading of the bounded `FastLCSScore` is a theorem**: on ANY scratch buffer (whatever the previous calls
left in it) the verbatim call with the bound `maxe` (`none` = -1) does not panic and answers the unbounded
`(lcs, alilength)` of `candOf` when `alilength - lcs ≤ maxe` (always when `maxe = -1`); beyond the bound it answers
`-1` or a pair that is itself beyond the bound.  `candOf q r` IS the answer of the verbatim kernel without bound. -/
theorem fastLCS_call_is_as_read (q r : Bytes) (hlen : q.length + r.length + 1 ≤ 30000) (maxe : Option Nat)
    (buf : Array UInt64) :
    Lcs.fastLCSScore q r (-1) = .ok (((candOf q r).lcs : Int), ((candOf q r).ali : Int)) ∧
    ∃ X buf', lcsCallV q r maxe buf = .ok (X, buf') ∧
      ((maxe = none ∨ ∃ e, maxe = some e ∧ (candOf q r).dist ≤ e) → X = some ((candOf q r).dist, (candOf q r).lcs, (candOf q r).ali)) ∧
      (∀ e, maxe = some e → e < (candOf q r).dist → X = none ∨ ∃ s l a, X = some (s, l, a) ∧ e < s) := by
  refine ⟨?_, ?_⟩
  · unfold fastLCSScore
    rw [ObiVerif.Lcs.fastLCS_verbatim_refines, bandLCS_exact_unbounded q r hlen]
    rfl
  · obtain ⟨X, buf', hX, hrel⟩ := lcsCallV_spec q r hlen maxe buf
    refine ⟨X, buf', hX, ?_, ?_⟩
    · rintro (h | ⟨e, h, hd⟩)
      · subst h
        rcases hrel with h | ⟨h, _⟩
        · exact h
        · cases h
      · subst h
        simp only [boundedLCS, hd, if_true, Option.map_some] at hrel
        rcases hrel with h | ⟨h, _⟩
        · exact h
        · cases h
    · intro e h hd
      subst h
      have : ¬ (candOf q r).dist ≤ e := by omega
      simp only [boundedLCS, this, if_false, Option.map_none] at hrel
      rcases hrel with h | ⟨_, e', s, l, a, he, hX', hlt⟩
      · exact .inl h
      · cases he; exact .inr ⟨s, l, a, hX', hlt⟩

/-- **refinement**: `FindClosests` (obitag and obitag2) with every kernel call verbatim — `FastLCSEGFScoreByte` on
the scratch buffer shared by the scan, `D1Or0`, byte comparison — never panics inside a kernel and returns what the
loop of `Model/Tag.lean` returns on `candOf`; any candidate order -/
theorem findClosests_verbatim_refines (v : Variant) (q : Bytes) (refs : Nat → Bytes) (o : List Nat) (hq : IsACGT q)
    (hr : ∀ i ∈ o, IsACGT (refs i) ∧ q.length + (refs i).length + 1 ≤ 30000) :
    findClosestsV v q refs o = .ok (findClosests v q.length (fun i => candOf q (refs i)) o) :=
  findClosestsV_refines v q refs o hq hr

/-- **lossless search, verbatim kernels, NO kernel hypothesis**: for a query and references over `a c g t` with
`|q| + |r| < 30000`, scanned by non-increasing number of shared 4-mers, `FindClosests` calling the verbatim kernels
returns the least LCS distance over ALL the references and exactly the references at that distance (all ties, each
once, in scan order), the distance of a reference being `alilength - lcs` of the verbatim `FastLCSScore` without
bound (`fastLCS_call_is_as_read`) -/
theorem findClosests_lossless_verbatim (v : Variant) (q : Bytes) (refs : Nat → Bytes) (o : List Nat)
    (hq : IsACGT q) (hr : ∀ i ∈ o, IsACGT (refs i) ∧ q.length + (refs i).length + 1 ≤ 30000)
    (hs : SortedByCw (fun i => candOf q (refs i)) o) (hne : o ≠ []) :
    ∃ m idxs bestId bestmatch,
      findClosestsV v q refs o = .ok (.ok m bestId bestmatch idxs) ∧
      bruteClosests (fun i => candOf q (refs i)) o = some (m, idxs) := by
  have hlq : q.length ≤ 65538 := by
    cases o with
    | nil => exact absurd rfl hne
    | cons i _ => have := (hr i List.mem_cons_self).2; omega
  obtain ⟨m, idxs, bestId, bm, h1, h2⟩ := C15.findClosests_lossless_acgt v q refs o hq hlq
    (fun i hi => ⟨(hr i hi).1, by have := (hr i hi).2; omega⟩) hs hne
  exact ⟨m, idxs, bestId, bm, by rw [findClosestsV_refines v q refs o hq hr, h1], h2⟩

/-- non-vacuity: the hypotheses hold for the three 10-letter references of `Props/C15.lean` -/
example : IsACGT (C15.exRefs 0) ∧
    (∀ i ∈ [0, 1, 2], IsACGT (C15.exRefs i) ∧ (C15.exRefs 0).length + (C15.exRefs i).length + 1 ≤ 30000) := by decide

/-- (test) the loop with the verbatim kernels, evaluated: query `acgtacgtac` against itself with one substitution,
itself, and a deletion — the exact match wins, after one unbounded call, one `D1Or0` and one byte comparison -/
example : findClosestsV .tag2 [97,99,103,116,97,99,103,116,97,99]
    (fun i => match i with
      | 0 => [97,99,103,116,97,99,103,116,116,99]
      | 1 => [97,99,103,116,97,99,103,116,97,99]
      | _ => [97,99,103,116,97,99,103,116,97]) [0, 1, 2] = .ok (.ok 0 (10, 10) 1 [1]) := by decide +kernel

/-- **refinement of `IndexSequence`** with the verbatim kernels -/
theorem indexSequence_verbatim_refines (t : Taxo) (fuel : Nat) (taxids : List Nat) (seqidx : Nat) (refs : Nat → Bytes)
    (ow : List Nat) (hs : IsACGT (refs seqidx))
    (hr : ∀ j ∈ ow, IsACGT (refs j) ∧ (refs seqidx).length + (refs j).length + 1 ≤ 30000) :
    indexSequenceV t fuel taxids seqidx refs ow =
      .ok (indexSequence t fuel taxids seqidx (refs seqidx).length (fun j => candOf (refs seqidx) (refs j)) ow) :=
  indexSequenceV_refines t fuel taxids seqidx refs ow hs hr

/-- **the index is the LCA table, verbatim kernels**: `IndexSequence` calling the verbatim kernels succeeds and maps
every recorded distance `d` to the LCA of the taxa of ALL the references within `d` of the indexed sequence; what
`Identify` reads for an observed distance `D` below the length of the sequence is the LCA of all references within `D` -/
theorem index_is_lca_verbatim {t : Taxo} {root : Nat} {depth : Nat → Nat} {fuel : Nat}
    (wf : WF t root depth) (hf : FuelOK t fuel)
    (taxids : List Nat) (htax : ∀ x ∈ taxids, ∃ n, t.node x = some n)
    (refs : Nat → Bytes) (seqidx : Nat) (hidx : seqidx < taxids.length) (ow : List Nat)
    (hperm : ∀ j, j ∈ ow ↔ j < taxids.length)
    (hr : ∀ j, j < taxids.length → IsACGT (refs j) ∧ (refs seqidx).length + (refs j).length + 1 ≤ 30000)
    (hs : SortedByCw (fun j => candOf (refs seqidx) (refs j)) ow) :
    ∃ idx, indexSequenceV t fuel taxids seqidx refs ow = .ok (.ok idx) ∧
      (∀ e ∈ idx, ∀ x, Anc t x e.2 ↔
        ∀ j, j < taxids.length → (candOf (refs seqidx) (refs j)).dist ≤ e.1 → Anc t x (taxids.getD j 0)) ∧
      (∀ D a, D < (refs seqidx).length → lookDown idx D = some a →
        selectEntry idx D = .ok a ∧
        ∀ x, Anc t x a ↔ ∀ j, j < taxids.length → (candOf (refs seqidx) (refs j)).dist ≤ D → Anc t x (taxids.getD j 0)) := by
  have hr' : ∀ j, j < taxids.length → IsACGT (refs j) ∧ (refs j).length ≤ 65538 :=
    fun j hj => ⟨(hr j hj).1, by have := (hr j hj).2; omega⟩
  obtain ⟨idx, h1, h2⟩ := C15.index_is_lca_acgt wf hf taxids htax refs seqidx hidx ow hperm hr' hs
  obtain ⟨idx', h1', h3⟩ := C15.index_lookup_is_lca_acgt wf hf taxids htax refs seqidx hidx ow hperm hr' hs
  rw [h1] at h1'
  cases h1'
  refine ⟨idx, ?_, h2, h3⟩
  rw [indexSequenceV_refines t fuel taxids seqidx refs ow (hr seqidx hidx).1 (fun j hj => hr j ((hperm j).1 hj)), h1]

/-- **`Identify` with every kernel call verbatim = `identify` on `candOf`** -/
theorem identify_verbatim_refines (t : Taxo) (fuel : Nat) (v : Variant) (q : Bytes) (refs : Nat → Bytes)
    (taxids : List Nat) (o : List Nat) (ows : Nat → List Nat) (hq : IsACGT q)
    (hr : ∀ i ∈ o, IsACGT (refs i) ∧ q.length + (refs i).length + 1 ≤ 30000)
    (hrr : ∀ b, IsACGT (refs b) ∧ ∀ j ∈ ows b, IsACGT (refs j) ∧ (refs b).length + (refs j).length + 1 ≤ 30000) :
    identifyV t fuel v q refs taxids o ows =
      identify t fuel (findClosests v q.length (fun i => candOf q (refs i)) o)
        (fun b => indexSequence t fuel taxids b (refs b).length (fun j => candOf (refs b) (refs j)) (ows b)) :=
  identifyV_refines t fuel v q refs taxids o ows hq hr hrr

/-- **the assigned taxon is an ancestor-or-self of the taxon of EVERY reference at minimal LCS distance from the
query — search, indices and consensus computed with the verbatim kernels** (`Identify` of obitag, `FindClosests` +
`BestConsensus` of obitag2 on indices built by `IndexSequence`); all sequences over `a c g t`, `|x| + |y| < 30000`
for every pair; candidates of the query scanned by non-increasing shared 4-mers (any order for the indices) -/
theorem assigned_is_ancestor_of_every_best_verbatim {t : Taxo} {depth : Nat → Nat} {fuel : Nat}
    (wf : WF t 1 depth) (hf : FuelOK t fuel)
    (taxids : List Nat) (htax : ∀ x ∈ taxids, ∃ n, t.node x = some n)
    (v : Variant) (q : Bytes) (refs : Nat → Bytes) (o : List Nat) (ows : Nat → List Nat)
    (hperm : ∀ j, j ∈ o ↔ j < taxids.length)
    (hq : IsACGT q)
    (hr : ∀ j, j < taxids.length → IsACGT (refs j) ∧ q.length + (refs j).length + 1 ≤ 30000)
    (hrr : ∀ b, IsACGT (refs b) ∧ ∀ j ∈ ows b, IsACGT (refs j) ∧ (refs b).length + (refs j).length + 1 ≤ 30000)
    (hs : SortedByCw (fun i => candOf q (refs i)) o) (z bm n : Nat)
    (h : identifyV t fuel v q refs taxids o ows = .ok z bm n) :
    ∀ i ∈ o, (∀ j ∈ o, (candOf q (refs i)).dist ≤ (candOf q (refs j)).dist) → Anc t z (taxids.getD i 0) := by
  rw [identifyV_refines t fuel v q refs taxids o ows hq (fun i hi => hr i ((hperm i).1 hi)) hrr] at h
  intro i hi
  have hlq : q.length ≤ 65538 := by have := (hr i ((hperm i).1 hi)).2; omega
  exact C15.assigned_is_ancestor_of_every_best_acgt wf hf taxids htax v q refs o hperm hq hlq
    (fun j hj => ⟨(hr j hj).1, by have := (hr j hj).2; omega⟩) hs
    (fun b => (refs b).length) (fun b j => candOf (refs b) (refs j)) ows z bm n h i hi

/-! ## 11. the two stages of `obitag2.Identify`

WHAT IS CLAIMED: when the exact-match table has no entry for the query, the taxon assigned by `obitag2.Identify` is the
root (identity of the first search below 0.5) or an ancestor-or-self of the taxon of every best reference OF THE LIST
SEARCHED LAST — the members of one family (`.family f`) or the cluster heads (`.clusters`); with the hypotheses of
`findClosests_lossless` on that last search, "every best reference" is every member of that list at the minimal LCS
distance within the list.

WHAT IS NOT CLAIMED: that this list contains the references closest to the query in the whole data base.  The first
stage only compares the query with the cluster heads, the second one with ONE family (the family above the consensus
of the best heads): a reference closer to the query than every cluster head, belonging to a cluster whose head is
farther, is never looked at (`identify2_two_stage_is_heuristic`).  This is the design of obitag2 (the clusters are
built by obireffamidx so that it should be rare), not a pruning defect: no losslessness theorem is stated for the
two-stage search as a whole. -/

/-- **ancestor statement for the two stages** (indices = the text of what `IndexSequence` builds for the cluster
heads, resp. the members of a family; the verbatim selection loop on that text): see the section header -/
theorem identify2_last_search_is_ancestor {t : Taxo} {depth : Nat → Nat} {fuel : Nat}
    (wf : WF t 1 depth) (hf : FuelOK t fuel) (nm rk : Nat → Text)
    (fcC : FCOut) (taxC : List Nat) (lensC : Nat → Nat) (csC : Nat → Nat → Cand) (owsC : Nat → List Nat)
    (fam : Nat → Option (FCOut × (Nat → Res (List (Nat × Text)))))
    (taxF : Nat → List Nat) (lensF : Nat → Nat → Nat) (csF : Nat → Nat → Nat → Cand) (owsF : Nat → Nat → List Nat)
    (hfam : ∀ f fcF indexF, fam f = some (fcF, indexF) → indexF = fun b =>
      (indexSequence t fuel (taxF f) b (lensF f b) (csF f b) (owsF f b)).map (textIndex nm rk))
    (z bm w : Nat) (stage : Id2Stage)
    (h : identify2 (selectText t) t fuel none fcC
      (fun b => (indexSequence t fuel taxC b (lensC b) (csC b) (owsC b)).map (textIndex nm rk)) fam = .ok z bm w stage) :
    (∃ f, stage = .family f ∧ ∃ maxe2 bid2 idxs2 indexF, fam f = some (.ok maxe2 bid2 bm idxs2, indexF) ∧
        ∀ b ∈ idxs2, Anc t z ((taxF f).getD b 0)) ∨
    (stage = .clusters ∧ ∃ maxe bid idxs, fcC = .ok maxe bid bm idxs ∧ w = idxs.length ∧
        (z = 1 ∨ ∀ b ∈ idxs, Anc t z (taxC.getD b 0))) := by
  apply identify2_anc wf hf (selectText t) fcC _ fam (fun b => taxC.getD b 0) (fun f b => (taxF f).getD b 0) _ _ z bm w stage h
  · intro b T D m hT hm
    exact selectText_index_anc nm rk hT hm
  · intro f fcF indexF hf' b T D m hT hm
    rw [hfam f fcF indexF hf'] at hT
    exact selectText_index_anc nm rk hT hm

/-- … and with the hypotheses of `findClosests_lossless` on the search of the family: the assigned taxon is an
ancestor-or-self of the taxon of EVERY member of the family list at minimal LCS distance from the query within
that list -/
theorem identify2_family_stage_every_best {t : Taxo} {depth : Nat → Nat} {fuel : Nat}
    (wf : WF t 1 depth) (hf : FuelOK t fuel) (nm rk : Nat → Text)
    (fcC : FCOut) (indexC : Nat → Res (List (Nat × Text)))
    (lq : Nat) (cF : Nat → Nat → Cand) (oF : Nat → List Nat)
    (taxF : Nat → List Nat) (lensF : Nat → Nat → Nat) (csF : Nat → Nat → Nat → Cand) (owsF : Nat → Nat → List Nat)
    (hsF : ∀ f, SortedByCw (cF f) (oF f)) (hqF : ∀ f, QGramBound lq (cF f) (oF f))
    (z bm w f : Nat)
    (h : identify2 (selectText t) t fuel none fcC indexC
      (fun f => some (findClosests .tag2 lq (cF f) (oF f), fun b =>
        (indexSequence t fuel (taxF f) b (lensF f b) (csF f b) (owsF f b)).map (textIndex nm rk))) = .ok z bm w (.family f)) :
    ∀ i ∈ oF f, (∀ j ∈ oF f, (cF f i).dist ≤ (cF f j).dist) → Anc t z ((taxF f).getD i 0) := by
  intro i hi hmin
  -- work directly on the family branch
  unfold identify2 at h
  simp only at h
  cases fcC with
  | panic => cases h
  | ok maxe bestId bestmatch idxs =>
    simp only at h
    split at h
    · cases h1 : selectAllG (selectText t) indexC maxe idxs with
      | error e => rw [h1] at h; cases h
      | ok ms =>
        rw [h1] at h
        simp only at h
        cases h2 : consensus t fuel none ms with
        | error e => rw [h2] at h; cases h
        | ok r =>
          rw [h2] at h
          cases r with
          | none => cases h
          | some f0 =>
            simp only at h
            cases h3 : Tax.taxonAtRank t "family" fuel f0 with
            | error e => rw [h3] at h; cases h
            | ok r3 =>
              rw [h3] at h
              cases r3 with
              | none => simp only at h; cases h
              | some f' =>
                simp only at h
                cases hfc : findClosests .tag2 lq (cF f') (oF f') with
                | panic => rw [hfc] at h; cases h
                | ok maxe2 bid2 bm2 idxs2 =>
                  rw [hfc] at h
                  simp only at h
                  cases h5 : selectAllG (selectText t) (fun b =>
                      (indexSequence t fuel (taxF f') b (lensF f' b) (csF f' b) (owsF f' b)).map (textIndex nm rk)) maxe2 idxs2 with
                  | error e => rw [h5] at h; cases h
                  | ok ms2 =>
                    rw [h5] at h
                    simp only at h
                    cases h6 : consensus t fuel none ms2 with
                    | error e => rw [h6] at h; cases h
                    | ok r6 =>
                      rw [h6] at h
                      cases r6 with
                      | none => cases h
                      | some z' =>
                        simp only [Id2Out.ok.injEq, Id2Stage.family.injEq] at h
                        obtain ⟨e1, _, _, e4⟩ := h
                        subst e1 e4
                        have hanc := stage_anc wf hf (selectText t) _ (fun b => (taxF f').getD b 0) maxe2 idxs2 ms2 z'
                          (fun b _ T m hT hm => selectText_index_anc nm rk hT hm) h5 h6
                        have hne' : oF f' ≠ [] := by intro e; rw [e] at hi; simp at hi
                        obtain ⟨m, bestId', bm', hfc', hall, j, hj, ej⟩ :=
                          findClosests_spec .tag2 lq (cF f') (oF f') (hsF f') (hqF f') hne'
                        rw [hfc] at hfc'
                        simp only [FCOut.ok.injEq] at hfc'
                        obtain ⟨em, _, _, eidx⟩ := hfc'
                        apply hanc i
                        rw [eidx]
                        have hdi : (cF f' i).dist = m := by
                          have := hall i hi
                          have := hmin j hj
                          omega
                        simp [List.mem_filter, hi, hdi]
    · cases h1 : t.node 1 with
      | none => rw [h1] at h; cases h
      | some n1 => rw [h1] at h; cases h

/-- the taxonomy of the counterexample: two families 10 and 20 under the root, species 11 in the first, 21 and 22 in
the second -/
def exT2 : Taxo :=
  { ids := [1, 10, 20, 11, 21, 22],
    node := fun k => match k with
      | 1 => some ⟨1, "no rank"⟩ | 10 => some ⟨1, "family"⟩ | 20 => some ⟨1, "family"⟩
      | 11 => some ⟨10, "species"⟩ | 21 => some ⟨20, "species"⟩ | 22 => some ⟨20, "species"⟩
      | _ => none,
    alias := fun _ => none }

/-- the three references seen from the query: 0 (taxon 11, a cluster head) at distance 2, 1 (taxon 21, a cluster
head) at distance 3, 2 (taxon 22, in the cluster of head 1) at distance 1 -/
def exAll : Nat → Cand
  | 0 => ⟨10, 3, 8, 10⟩
  | 1 => ⟨10, 0, 7, 10⟩
  | _ => ⟨10, 5, 9, 10⟩

/-- **what is NOT claimed — the two-stage search is a heuristic**: on this data base the reference closest to the
query is reference 2 (distance 1, taxon 22 of family 20), but the closest cluster head is reference 0 (distance 2,
family 10): `Identify` searches family 10 only and assigns taxon 11, which is not on the lineage `22 > 20 > 1` of the
closest reference.  Every search involved is exhaustive on its own list (sorted candidates, q-gram bound). -/
theorem identify2_two_stage_is_heuristic :
    bruteClosests exAll [2, 0, 1] = some (1, [2]) ∧
    SortedByCw exAll [0, 1] ∧ QGramBound 10 exAll [0, 1] ∧
    identify2 selectEntry exT2 7 none (findClosests .tag2 10 exAll [0, 1])
      (fun b => if b = 0 then .ok [(5, 1), (0, 11)] else .ok [(5, 1), (0, 21)])
      (fun f => if f = 10 then some (findClosests .tag2 10 exAll [0], fun _ => .ok [(0, 11)]) else none)
      = .ok 11 0 1 (.family 10) ∧
    Tax.path exT2 7 22 = .ok [22, 20, 1] := by
  refine ⟨by decide, by simp [SortedByCw, exAll], ?_, by decide, by decide⟩
  intro i hi d hd
  simp only [List.mem_cons, List.not_mem_nil, or_false] at hi
  rcases hi with rfl | rfl <;> simp [exAll, Cand.dist] at hd ⊢ <;> omega

/-! ## 12. the recorded distances of `IndexSequence` -/

/-- **every recorded distance is the minimum of its own lineage level**: under the hypotheses of `index_is_lca`, an
entry `d ↦ a` of the index of reference `seqidx` is such that some reference whose LCA with the indexed sequence is
`a` lies at distance exactly `d`, and no reference whose LCA with the indexed sequence is `a` is closer.  (With
`index_keys_decrease_along_lineage` — a deeper level is recorded only for a strictly smaller distance — and
`index_is_lca` — nothing above the level is within `d` — this characterises the index completely.) -/
theorem index_entry_is_level_minimum {t : Taxo} {root : Nat} {depth : Nat → Nat} {fuel : Nat}
    (wf : WF t root depth) (hf : FuelOK t fuel)
    (taxids : List Nat) (htax : ∀ x ∈ taxids, ∃ n, t.node x = some n)
    (seqidx lseq : Nat) (hidx : seqidx < taxids.length) (c : Nat → Cand) (ow : List Nat)
    (hperm : ∀ j, j ∈ ow ↔ j < taxids.length)
    (hs : SortedByCw c ow) (hq : QGramBound lseq c ow) :
    ∃ idx, indexSequence t fuel taxids seqidx lseq c ow = .ok idx ∧
      ∀ e ∈ idx,
        (∃ j, j < taxids.length ∧ Tax.lca t fuel (taxids.getD seqidx 0) (taxids.getD j 0) = .ok e.2 ∧ (c j).dist = e.1) ∧
        (∀ j, j < taxids.length → Tax.lca t fuel (taxids.getD seqidx 0) (taxids.getD j 0) = .ok e.2 → e.1 ≤ (c j).dist) :=
  indexSequence_level_min wf hf taxids htax seqidx lseq hidx c ow hperm hs hq

/-- … for actual sequences over `a c g t` and the verbatim kernels -/
theorem index_entry_is_level_minimum_verbatim {t : Taxo} {root : Nat} {depth : Nat → Nat} {fuel : Nat}
    (wf : WF t root depth) (hf : FuelOK t fuel)
    (taxids : List Nat) (htax : ∀ x ∈ taxids, ∃ n, t.node x = some n)
    (refs : Nat → Bytes) (seqidx : Nat) (hidx : seqidx < taxids.length) (ow : List Nat)
    (hperm : ∀ j, j ∈ ow ↔ j < taxids.length)
    (hr : ∀ j, j < taxids.length → IsACGT (refs j) ∧ (refs seqidx).length + (refs j).length + 1 ≤ 30000)
    (hs : SortedByCw (fun j => candOf (refs seqidx) (refs j)) ow) :
    ∃ idx, indexSequenceV t fuel taxids seqidx refs ow = .ok (.ok idx) ∧
      ∀ e ∈ idx,
        (∃ j, j < taxids.length ∧ Tax.lca t fuel (taxids.getD seqidx 0) (taxids.getD j 0) = .ok e.2 ∧
          (candOf (refs seqidx) (refs j)).dist = e.1) ∧
        (∀ j, j < taxids.length → Tax.lca t fuel (taxids.getD seqidx 0) (taxids.getD j 0) = .ok e.2 →
          e.1 ≤ (candOf (refs seqidx) (refs j)).dist) := by
  obtain ⟨idx, h1, h2⟩ := indexSequence_level_min wf hf taxids htax seqidx (refs seqidx).length hidx
    (fun j => candOf (refs seqidx) (refs j)) ow hperm hs
    (qgramBound_acgt _ refs ow (hr seqidx hidx).1 (by have := (hr seqidx hidx).2; omega)
      (fun j hj => ⟨(hr j ((hperm j).1 hj)).1, by have := (hr j ((hperm j).1 hj)).2; omega⟩))
  refine ⟨idx, ?_, h2⟩
  rw [indexSequenceV_refines t fuel taxids seqidx refs ow (hr seqidx hidx).1 (fun j hj => hr j ((hperm j).1 hj)), h1]

/-- (test) on the example of `Props/C15.lean` §2: the index of reference 0 is `{4 ↦ 1, 1 ↦ 2, 0 ↦ 3}`; the level of
taxon 2 holds reference 1 only, at distance 1 -/
example : indexSequence exT 6 [3, 4, 5] 0 10 C15.exJ [0, 1, 2] = .ok [(4, 1), (1, 2), (0, 3)] ∧
    Tax.lca exT 6 3 4 = .ok 2 ∧ (C15.exJ 1).dist = 1 := by decide

/-! ## 13. `bestId` and `bestmatch` -/

/-- **which reference is `bestmatch`, what `bestId` is**: on coherent candidate data (`Coherent`: `lcs ≤ alilength`,
non-empty alignment, within one difference the alignment is as long as the longer sequence), for ANY candidate order,
the answer `(m, bestId, bestmatch, idxs)` of `FindClosests` is such that `bestmatch` is the FIRST reference of `idxs`
(scan order) whose alignment is the longest among `idxs` — all of `idxs` are at distance `m`, so the identity
`lcs/alilength = 1 - m/alilength` grows with the alignment length; when `m = 0` simply the first of `idxs` —, `bestId`
is its `(lcs, alilength)`, and it lies at the best distance -/
theorem bestmatch_is_first_longest (v : Variant) (lq : Nat) (c : Nat → Cand) (o : List Nat)
    (hc : ∀ i ∈ o, Coherent lq (c i)) (m : Nat) (bestId : Nat × Nat) (bm : Nat) (idxs : List Nat)
    (h : findClosests v lq c o = .ok m bestId bm idxs) :
    (∃ pre post, idxs = pre ++ bm :: post ∧
      (∀ j ∈ pre, m ≠ 0 ∧ (c j).ali < (c bm).ali) ∧ (∀ j ∈ post, m = 0 ∨ (c j).ali ≤ (c bm).ali)) ∧
    bestId = ((c bm).lcs, (c bm).ali) ∧ (c bm).dist = m := by
  obtain ⟨⟨pre, post, e, h1, h2⟩, hb, hd⟩ := findClosests_best v lq c o hc m bestId bm idxs h
  refine ⟨⟨pre, post, e, ?_, ?_⟩, hb, hd⟩
  · intro j hj
    have := h1 j hj
    unfold bestKey at this
    by_cases h0 : m = 0
    · simp [h0] at this
    · simp only [h0, if_false] at this; exact ⟨h0, this⟩
  · intro j hj
    have := h2 j hj
    unfold bestKey at this
    by_cases h0 : m = 0
    · exact .inl h0
    · simp only [h0, if_false] at this; exact .inr this

/-- **… it is determined by the candidate order**: for a duplicate-free order there is exactly one reference with
that property, so two runs that scan the candidates in the same order report the same `bestmatch`; and with the
verbatim kernels on sequences over `a c g t` (non-empty query) the hypotheses hold: the reported `bestmatch` is the
first, in scan order, of the longest-alignment references among ALL the references at minimal distance -/
theorem bestmatch_verbatim (v : Variant) (q : Bytes) (refs : Nat → Bytes) (o : List Nat) (hq : IsACGT q) (hne : q ≠ [])
    (hr : ∀ i ∈ o, IsACGT (refs i) ∧ q.length + (refs i).length + 1 ≤ 30000)
    (hs : SortedByCw (fun i => candOf q (refs i)) o) (hnd : o.Nodup)
    (m : Nat) (bestId : Nat × Nat) (bm : Nat) (idxs : List Nat)
    (h : findClosestsV v q refs o = .ok (.ok m bestId bm idxs)) :
    idxs = o.filter (fun i => (candOf q (refs i)).dist = m) ∧ (∀ i ∈ o, m ≤ (candOf q (refs i)).dist) ∧
    FirstMax (bestKey (fun i => candOf q (refs i)) m) idxs bm ∧
    (∀ bm', FirstMax (bestKey (fun i => candOf q (refs i)) m) idxs bm' → bm' = bm) ∧
    bestId = ((candOf q (refs bm)).lcs, (candOf q (refs bm)).ali) := by
  rw [findClosestsV_refines v q refs o hq hr] at h
  have h' := Except.ok.inj h
  have hcoh : ∀ i ∈ o, Coherent q.length (candOf q (refs i)) :=
    fun i hi => candOf_coherent q (refs i) hq (hr i hi).1 hne
  obtain ⟨hfm, hb, _⟩ := findClosests_best v q.length _ o hcoh m bestId bm idxs h'
  have hne' : o ≠ [] := by
    intro e; subst e
    simp [findClosests, findClosestsWith] at h'
  have hlq : q.length ≤ 65538 := by
    cases o with
    | nil => exact absurd rfl hne'
    | cons i _ => have := (hr i List.mem_cons_self).2; omega
  obtain ⟨m', bestId', bm', hfc, hall, _⟩ := findClosests_spec v q.length (fun i => candOf q (refs i)) o hs
    (qgramBound_acgt q refs o hq hlq (fun i hi => ⟨(hr i hi).1, by have := (hr i hi).2; omega⟩)) hne'
  rw [h'] at hfc
  simp only [FCOut.ok.injEq] at hfc
  obtain ⟨em, _, _, eidx⟩ := hfc
  subst em
  refine ⟨eidx, hall, hfm, ?_, hb⟩
  intro bm'' hfm'
  exact firstMax_unique hfm' hfm (by rw [eidx]; exact hnd.filter _)

/-- (test) the answer depends on the order in which tied candidates are scanned — the unstable `sort.Sort` of the
shared counts may give either —: two references at distance 1 with the same shared count and the same alignment
length; both orders are sorted; `bestmatch` is the first scanned, `bestId` and the best set do not change -/
example : findClosests .tag1 10 C15.exQ [0, 1, 2] = .ok 1 (9, 10) 0 [0, 1] ∧
    findClosests .tag1 10 C15.exQ [1, 0, 2] = .ok 1 (9, 10) 1 [1, 0] ∧
    SortedByCw C15.exQ [0, 1, 2] ∧ SortedByCw C15.exQ [1, 0, 2] := by
  refine ⟨by decide, by decide, by simp [SortedByCw, C15.exQ], by simp [SortedByCw, C15.exQ]⟩

/-- non-vacuity of `bestmatch_is_first_longest`: the candidates of that example are coherent -/
example : ∀ i ∈ [0, 1, 2], Coherent 10 (C15.exQ i) := by
  intro i hi
  simp only [List.mem_cons, List.not_mem_nil, or_false] at hi
  rcases hi with rfl | rfl | rfl <;> simp [Coherent, C15.exQ, Cand.dist]

end ObiVerif.Props.C15V
