import ObiVerif.Props.C13W
import ObiVerif.Model.CleanF
import ObiVerif.Lemmas.F64
/-!
# C13, third pass: float64 arithmetic, the true length frontier of `--distance > 1`, the order of `son.Edges`,
the per-sample `obiclean_weight`, the side outputs

* `cleanSampleA_exact` / `cleanDatasetA_exact` : the arithmetic-generic pipeline instantiated with exact rationals IS the model of
  Props/C13 / C13W (so all their theorems are about `cleanSampleA exactArith`);
* `float_safe_transfer` (+ `float_safe_weights_closed_form`, `float_safe_output_edges_exact`) : on every sample on which the
  IEEE-754 run (the one tied to the real code) and the exact run agree — `floatSafe`, a decidable check the driver
  evaluates for every `f` case and prints as `fx=` — the theorems hold of the float run. The LOCAL agreement lemmas
  (`ObiVerif.F64.share_exact`, … in Lemmas/F64.lean) say when that is guaranteed a priori; `float_differs_*` show
  that outside those bounds the two really differ (concrete values, evaluated on the IEEE model);
* `edge2_iff_long` : `edge2_iff` under the TRUE length condition of the kernel (C09 `LenOK`): `|a| + |b| ≤ 65534`
  and `--distance ≤ 14999` (or both sequences ≤ 30000);
* `row_edges_sorted1/2`, `edges_order_schedule_independent` : `son.Edges` of row `i` is written by the one worker that owns the
  row, in increasing father index — its ORDER (which feeds `swf`, a float sum, and the order of the shares) does not
  depend on the schedule, so the code needs no sort;
* `annot_weight_spec` : the per-sample `obiclean_weight` entries of a record present in several samples.
-/
set_option Elab.async false
namespace ObiVerif.Props.C13
open ObiVerif.Clean ObiVerif.Race
open ObiVerif.Lcs (Seq d1F lev lcsDP samenuc bandLCS LenOK)

/-! ## the generic pipeline at `exactArith` is the model -/

theorem rfuncA_exact (counts : Array Nat) (edges : Array (List Edge)) (k : Nat) (s : RW) :
    rfuncA exactArith counts edges k s = rfunc counts edges k s := rfl

theorem leafPassA_exact (counts : Array Nat) (edges : Array (List Edge)) (sons : Array Nat) (s : RW) :
    leafPassA exactArith counts edges sons s = leafPass counts edges sons s := rfl

theorem innerPassA_exact (counts : Array Nat) (edges : Array (List Edge)) (sons : Array Nat) (s : RW) :
    innerPassA exactArith counts edges sons s = innerPass counts edges sons s := rfl

theorem innerLoopA_exact (counts : Array Nat) (edges : Array (List Edge)) (sons : Array Nat) (fuel : Nat) (s : RW) :
    innerLoopA exactArith counts edges sons fuel s = innerLoop counts edges sons fuel s := by
  induction fuel generalizing s with
  | zero => rfl
  | succ n ih =>
    simp only [innerLoopA, innerLoop, innerPassA_exact, ih]

theorem reweightA_exact (counts : Array Nat) (edges : Array (List Edge)) (sons : Array Nat) :
    reweightA exactArith counts edges sons = reweight counts edges sons := by
  simp only [reweightA, reweight, innerLoopA_exact, leafPassA_exact]

theorem filterEdgesA_exact (p q : Nat) (weight : Array Nat) (es : List (List Edge)) :
    filterEdgesA exactArith p q weight es = filterEdges p q weight es := rfl

theorem finishA_exact (cfg : Config) (ns : Array Node) (es1 : List (List Edge)) (sons1 : List Nat)
    (es2 : List (List Edge)) (sons2 : List Nat) :
    finishA exactArith cfg ns es1 sons1 es2 sons2 = finish cfg ns es1 sons1 es2 sons2 := by
  unfold finishA finish
  simp only [reweightA_exact]
  cases reweight (ns.toList.map (·.count)).toArray es1.toArray sons1.toArray <;> rfl

/-- **`cleanSampleA_exact`** -/
theorem cleanSampleA_exact (K : Kernels) (cfg : Config) (sample : List Node) :
    cleanSampleA exactArith K cfg sample = cleanSample K cfg sample := by
  simp only [cleanSampleA, cleanSample, finishA_exact]

theorem cleanDatasetA_exact (K : Kernels) (cfg : Config) (db : List Rec) :
    cleanDatasetA exactArith K cfg db = cleanDataset K cfg db := by
  simp only [cleanDatasetA, cleanDataset, cleanSampleA_exact]

/-! ## transfer to the float64 run -/

/-- **`float_safe_transfer`** — where the check `floatSafe` holds (the driver evaluates it; `fx=0`), the run with the
IEEE-754 arithmetic of the code is the sequential reference `cleanSample` of every theorem of Props/C13 / C13W -/
theorem float_safe_transfer (K : Kernels) (cfg : Config) (sample : List Node) (h : floatSafe K cfg sample = true) :
    cleanSampleA floatArith K cfg sample = cleanSample K cfg sample := by
  unfold floatSafe at h
  simp only [Bool.and_eq_true, decide_eq_true_eq] at h
  exact h.2

/-- the float run of a `floatSafe` sample is schedule independent (every worker count, distribution of the rows and
interleaving of the atomic increments gives it) -/
theorem float_safe_schedule_independent (K : Kernels) (cfg : Config) (sample : List Node) (s1 s2 : Sched)
    (h : floatSafe K cfg sample = true)
    (h1 : s1.assign.flatten.Perm (List.range (sortByCount sample).toArray.size))
    (h2 : s2.assign.flatten.Perm (rows2 K cfg sample))
    (hd1 : (parMachine (rowEdges1 K (sortByCount sample).toArray) true s1.assign s1.picks).done = true)
    (hd2 : (parMachine (fun i => if cfg.maxError > 1 then
              rowEdges2 K cfg.maxError (sortByCount sample).toArray ((edges1 K (sortByCount sample).toArray).getD i []) i
            else []) true s2.assign s2.picks).done = true) :
    cleanSamplePar K cfg sample true s1 s2 = cleanSampleA floatArith K cfg sample := by
  rw [float_safe_transfer K cfg sample h]
  exact graph_schedule_independent K cfg sample s1 s2 h1 h2 hd1 hd2

/-- non-vacuity and the other side (tests on values, evaluated on the IEEE model): a sample inside the domain is
`floatSafe`; the boundary sample `49 / 100` with `--ratio 0.7 --distance 2` is NOT (`math.Pow(0.7, 2) = 0.48999999999999994`) -/
example : floatSafe realKernels { maxError := 1, p := 1, q := 10 }
    [⟨0, 90, [97, 99, 103, 116]⟩, ⟨1, 9, [97, 99, 103, 97]⟩, ⟨2, 1, [97, 99, 99, 97]⟩] = true := by decide +kernel

/-- **`float_differs_pow_boundary`** (evaluated on the IEEE model) — `--ratio 0.7 --distance 2`, weights `49` and `100`: the exact
test `49/100 ≤ (7/10)^2` holds, the float64 test of the code fails (`math.Pow(0.7, 2) = 0.48999999999999994`): the sample is
not `floatSafe`, and the model (like the code) drops the edge -/
theorem float_differs_pow_boundary :
    F64.keeps 7 10 49 100 2 = some false ∧ ratioKeeps 7 10 49 100 2 = true ∧
    floatSafe realKernels { maxError := 2, p := 7, q := 10 }
      [⟨0, 100, [97, 99, 103, 116, 97, 99, 103, 116]⟩, ⟨1, 49, [97, 99, 103, 116, 97, 99, 97, 97]⟩] = false := by
  decide +kernel

/-- **`float_agrees_usual_ratios`** (evaluated on the IEEE model, a TEST on the usual settings): on the exact boundaries
`w1/wf = (p/q)^d` for `--ratio 0.05, 0.1, 0.5` and `d = 1, 2, 3` the float64 test keeps the edge, as the exact one does -/
theorem float_agrees_usual_ratios :
    F64.keeps 1 10 1 10 1 = some true ∧ F64.keeps 1 10 1 100 2 = some true ∧ F64.keeps 1 10 1 1000 3 = some true ∧
    F64.keeps 5 100 5 100 1 = some true ∧ F64.keeps 5 100 25 10000 2 = some true ∧ F64.keeps 5 100 125 1000000 3 = some true ∧
    F64.keeps 1 2 1 2 1 = some true ∧ F64.keeps 1 2 1 4 2 = some true ∧ F64.keeps 1 2 1 8 3 = some true := by
  decide +kernel

/-! ## the local agreement theorems, against the IEEE-754 model (proofs in Lemmas/F64.lean) -/

/-- **`float_share_exact`** — one multiplication, one division, `math.Round`: `int(math.Round(float64(w) * float64(c) / swf))`
(with `swf` accumulated in float64 over the fathers' counts) IS the exact round-half-away of `w * c / Σ counts`
whenever `w * c < 2^52` and `Σ counts < 2^53` — every rounding of the IEEE model is accounted for -/
theorem float_share_exact (w c : Nat) (fs : List Nat) (h1 : w * c < 2 ^ 52) (h2 : 0 < fs.sum) (h3 : fs.sum < 2 ^ 53)
    (h4 : w < 2 ^ 53) (h5 : c < 2 ^ 53) : floatArith.share w c fs = exactArith.share w c fs :=
  F64.share_exact w c fs h1 h2 h3 h4 h5

example : floatArith.share 4000000 1000000 [1000000, 999999] = 2000001 ∧ 4000000 * 1000000 < 2 ^ 52 := by decide +kernel

/-- **`float_ratio_exact_d1`** — one division + comparison, distance one: `float64(w1) / float64(wf) <= ratio` with
`ratio = float64(p) / float64(q)` (what the option parser yields for a decimal literal of `p/q`) IS `w1 * q ≤ p * wf`
whenever `w1 * q < 2^52` and `p * wf < 2^52`, for EVERY ratio `p/q < 1`, dyadic or not -/
theorem float_ratio_exact_d1 (p q w1 wf : Nat) (hq : 0 < q) (hwf : 0 < wf) (hpq : p < q)
    (ha : w1 * q < 2 ^ 52) (hb : p * wf < 2 ^ 52) (hq' : q < 2 ^ 53) (hwf' : wf < 2 ^ 53) :
    floatArith.keeps p q w1 wf 1 = exactArith.keeps p q w1 wf 1 :=
  F64.keeps_exact_d1 p q w1 wf hq hwf hpq ha hb hq' hwf'

example : floatArith.keeps 1 10 3 30 1 = some true ∧ floatArith.keeps 1 10 3 29 1 = some false := by decide +kernel

/-- **`float_ratio_exact_half`** — comparison against a power, `--ratio 0.5`, every distance `1 ≤ d ≤ 61` (Go's `pow` loop
returns exactly `2^-d`) -/
theorem float_ratio_exact_half (w1 wf d : Nat) (hd : 1 ≤ d) (hd' : d ≤ 61) (h1 : w1 < 2 ^ 52) (h2 : 0 < wf)
    (h3 : wf < 2 ^ 53) : floatArith.keeps 1 2 w1 wf d = exactArith.keeps 1 2 w1 wf d := by
  have := F64.keeps_exact_half w1 wf d hd hd' h1 h2 h3
  simpa [floatArith, exactArith] using this

/-- **`float_share_differs_big`** (evaluated on the IEEE model) — beyond the bound the two do differ, with counts below `2^31`:
`w = 10^8`, fathers of counts `199999998` and `1` : the code hands `100000000`, exact rounding `99999999` -/
theorem float_share_differs_big :
    floatArith.share 100000000 199999998 [199999998, 1] = 100000000 ∧
    exactArith.share 100000000 199999998 [199999998, 1] = 99999999 := by decide +kernel

/-! ## `--distance > 1` : the true length frontier -/

/-- **`edge2_iff_long`** — `edge2_iff` under the true length condition `LenOK` of the LCS kernel (C09, third pass):
`|a| + |b| ≤ 65534` and (both sequences ≤ 30000 bases, or `--distance ≤ 14999`). obiclean always passes the explicit
bound `--distance`, so for every realistic `--distance` the only limit is the 16-bit length field. Beyond `LenOK` the
decision of the code is, by `rows_verbatim_refine` (no length bound), still the answer of `bandLCS`, but that answer is no
longer the optimum (C09 `fastLCS_length_bound_needed_explicit`). -/
theorem edge2_iff_long (ns : Array Node) (d : Nat) (hd : d > 1) (i j : Nat) (hi : i < ns.size) (hj : j < ns.size)
    (hlen : LenOK ns[i].seq.length ns[j].seq.length d) :
    ((∃ e ∈ rowEdges2 realKernels d ns [] i, e.father = j) ↔
      (i < j ∧ 2 ≤ lev ns[i].seq ns[j].seq ∧ lcsDist ns[i].seq ns[j].seq ≤ d)) ∧
    (∀ e ∈ rowEdges2 realKernels d ns [] i, e.father = j → e = ⟨j, lcsDist ns[i].seq ns[j].seq, -1, 45, 45⟩) := by
  obtain ⟨hdec, hopt⟩ := ObiVerif.Props.C09.fastLCSScore_caller_decides_long ns[i].seq ns[j].seq d hlen
  have key : ∀ e, edgeTo2 realKernels d ns i j = some e →
      2 ≤ lev ns[i].seq ns[j].seq ∧ lcsDist ns[i].seq ns[j].seq ≤ d ∧ e = ⟨j, lcsDist ns[i].seq ns[j].seq, -1, 45, 45⟩ := by
    intro e he
    rw [edgeTo2_eq _ _ _ _ _ hi hj] at he
    split at he
    · rename_i hv
      split at he
      · rename_i s l hk
        split at he
        · rename_i hb
          have hk' : bandLCS ns[i].seq ns[j].seq d = some (s, l) := hk
          have ho := hopt s l hk' hb.1
          have hdist : lcsDist ns[i].seq ns[j].seq = (l : Int) - (s : Int) := by
            unfold lcsDist; rw [← ho]
          refine ⟨(d1F_neg_iff _ _).1 hv, by rw [hdist]; exact hb.1, ?_⟩
          cases he
          rw [hdist]
        · cases he
      · cases he
    · cases he
  refine ⟨⟨?_, ?_⟩, ?_⟩
  · rintro ⟨e, he, hf⟩
    obtain ⟨j', hij, hj', hej⟩ := (mem_rowEdges2 _ _ _ _ _).1 he
    have : j' = j := by rw [← edgeTo2_father _ _ _ _ _ _ hej, hf]
    subst this
    obtain ⟨a, b, _⟩ := key e hej
    exact ⟨hij, a, b⟩
  · rintro ⟨hij, hl, hb⟩
    obtain ⟨s, l, hk, hsl⟩ := hdec.2 hb
    refine ⟨⟨j, (l : Int) - (s : Int), -1, 45, 45⟩, (mem_rowEdges2 _ _ _ _ _).2 ⟨j, hij, hj, ?_⟩, rfl⟩
    have hv : (realKernels.d1 ns[i].seq ns[j].seq).verdict < 0 := (d1F_neg_iff _ _).2 hl
    rw [edgeTo2_eq _ _ _ _ _ hi hj, if_pos hv]
    have hk' : realKernels.lcs ns[i].seq ns[j].seq d = some (s, l) := hk
    rw [hk']
    simp only
    rw [if_pos ⟨hsl, by omega⟩]
  · intro e he hf
    obtain ⟨j', _, _, hej⟩ := (mem_rowEdges2 _ _ _ _ _).1 he
    have : j' = j := by rw [← edgeTo2_father _ _ _ _ _ _ hej, hf]
    subst this
    exact (key e hej).2.2

/-- the condition is satisfiable beyond the old hypothesis `|a| + |b| < 30000` (two sequences of 32000 bases, `--distance 3`) -/
example : LenOK 32000 32000 3 ∧ ¬ (32000 + 32000 + 1 ≤ 30000) := by decide

/-! ## the order of `son.Edges` -/

theorem filterMap_fathers_sorted (f : Nat → Option Edge) (hf : ∀ j e, f j = some e → e.father = j) :
    ∀ l : List Nat, l.Pairwise (· < ·) → ((l.filterMap f).map (·.father)).Pairwise (· < ·)
  | [], _ => by simp
  | j :: l, h => by
    rw [List.pairwise_cons] at h
    have ih := filterMap_fathers_sorted f hf l h.2
    cases hj : f j with
    | none => rw [List.filterMap_cons_none hj]; exact ih
    | some e =>
      rw [List.filterMap_cons_some hj, List.map_cons, List.pairwise_cons]
      refine ⟨?_, ih⟩
      intro x hx
      rw [List.mem_map] at hx
      obtain ⟨e', he', rfl⟩ := hx
      rw [List.mem_filterMap] at he'
      obtain ⟨j', hj', hfe⟩ := he'
      rw [hf j e hj, hf j' e' hfe]
      exact h.1 j' hj'

theorem range'_sorted (s n : Nat) : (List.range' s n).Pairwise (· < ·) := by
  rw [List.pairwise_iff_getElem]
  intro a b ha hb hab
  simp only [List.getElem_range']
  omega

/-- **`row_edges_sorted1`** — the edges `linePairs(i)` of `buildSamplePairs` appends to `son.Edges` come in strictly
increasing father index (the `j` loop), for every kernel -/
theorem row_edges_sorted1 (K : Kernels) (ns : Array Node) (i : Nat) :
    ((rowEdges1 K ns i).map (·.father)).Pairwise (· < ·) :=
  filterMap_fathers_sorted _ (fun j e h => edgeTo1_father K ns i j e h) _ (range'_sorted _ _)

/-- **`row_edges_sorted2`** — the same for `extendSimilarityGraph` -/
theorem row_edges_sorted2 (K : Kernels) (step : Int) (ns : Array Node) (prev : List Edge) (i : Nat) :
    ((rowEdges2 K step ns prev i).map (·.father)).Pairwise (· < ·) := by
  unfold rowEdges2
  split
  · exact filterMap_fathers_sorted _ (fun j e h => edgeTo2_father K step ns i j e h) _ (range'_sorted _ _)
  · simp

/-- **`edges_order_schedule_independent`** — small-step statement about the only shared structure besides `SonCount`:
`son.Edges` of row `i` is appended by the worker that took `i` from the channel and by nobody else (`poolEdges`); whatever
the number of workers, the distribution of the rows (`assign`, every row handled once) and the interleaving, it ends as
the LIST `rowOut i` — same elements in the same order — so the float sum `swf` and the order of the shares in
`reweightSequences` see one fixed order: no sort is needed, and none is done -/
theorem edges_order_schedule_independent {α : Type} (rowOut : Nat → List α) (assign : List (List Nat)) (i : Nat)
    (h : assign.flatten.count i = 1) : poolEdges rowOut assign i = rowOut i := by
  simp [poolEdges, h]

/-! ## `obiclean_weight` per sample, records present in several samples -/

/-- **`annot_weight_spec`** — the `obiclean_weight` map of record `i` has exactly the keys of its `obiclean_status` map (one per
sample in which the record has a node, by increasing sample name) and under the key `name` the weight of ITS node in
that sample: `(name, w)` is an entry iff the node `o` of record `i` in the result of sample `name` has `o.weight = w`
(with `weights_closed_form` : the closed form `specW` of that sample) -/
theorem annot_weight_spec (res : List (Nat × List Out)) (i : Nat) :
    (annotateRec res i).weight.map (·.1) = (annotateRec res i).status.map (·.1) ∧
    (annotateRec res i).weight = (mineOf res i).map (fun m => (m.1, m.2.2.weight)) ∧
    (∀ name w, (name, w) ∈ (annotateRec res i).weight →
      ∃ outs o, (name, outs) ∈ res ∧ o ∈ outs ∧ o.node.orig = i ∧ o.weight = w) := by
  refine ⟨by simp [annotateRec], by simp [annotateRec], ?_⟩
  intro name w h
  simp only [annotateRec, List.mem_map] at h
  obtain ⟨m, hm, he⟩ := h
  simp only [mineOf, List.mem_filterMap, Option.map_eq_some_iff] at hm
  obtain ⟨r, hr, o, ho, rfl⟩ := hm
  simp only [Prod.mk.injEq] at he
  obtain ⟨rfl, rfl⟩ := he
  have hmem := List.mem_of_find?_eq_some ho
  have hp := List.find?_some ho
  exact ⟨r.2, o, hr, hmem, by simpa using hp, rfl⟩

/-- the global counters are functions of the per-sample statuses only (restated from `annot_counts_spec` for the record
present in several samples): `obiclean_headcount + obiclean_internalcount + obiclean_singletoncount = obiclean_samplecount
= number of its per-sample weights` -/
theorem annot_counts_weight (res : List (Nat × List Out)) (i : Nat) :
    (annotateRec res i).headCount + (annotateRec res i).internalCount + (annotateRec res i).singletonCount
      = (annotateRec res i).sampleCount := by
  simp [annotateRec]

end ObiVerif.Props.C13
