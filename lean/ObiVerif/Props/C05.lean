import ObiVerif.Model.Command
import ObiVerif.Lemmas.Iter
import ObiVerif.Props.C03
import ObiVerif.Props.C04
/-!
# C05 — command output is a function of input and options, not of parallelism (property theorems)

`v, n` is the partition of the input into reader batches (so: every `--batch-size`), `ks` the order in
which the batches leave the reader, `arr1` the order in which the N workers push their results
(every `--max-cpu`, every scheduling), `arrW` the order in which the formatted batches reach the
writer.  The bytes written depend on none of them.
-/
namespace ObiVerif.Props.C05
open ObiVerif.Reseq ObiVerif.Iter ObiVerif.Writer ObiVerif.Command ObiVerif.Props.C03

theorem batchText_keyed (fmt : Rec → Command.Bytes) (w : Nat → List Rec) (ks : List Nat) :
    (ks.map fun k => ((k, w k) : Batch)).map (batchText fmt) = ks.map fun k => (k, ((w k).map fmt).flatten) := by
  simp [batchText, List.map_map, Function.comp_def]

theorem flatten_map_flatMap (fmt : Rec → Command.Bytes) (w : Nat → List Rec) (n : Nat) :
    ((List.range n).map fun k => ((w k).map fmt).flatten).flatten
      = (((List.range n).flatMap w).map fmt).flatten := by
  induction (List.range n) with
  | nil => simp
  | cons a t ih => simp [List.flatMap_cons, ih]

/-- **Schedule independence.**  Whatever the partition of the input into batches, the order in which
batches are read, the order in which the workers deliver them and the order in which the formatted
batches reach the writer, the bytes written are the per-record results of the input records, in
input order. -/
theorem command_deterministic (f : Rec → List Rec) (fmt : Rec → Command.Bytes)
    (v : Nat → List Rec) (n : Nat) (ks : List Nat) (hp : ks.Perm (List.range n))
    (arr1 : List Batch) (h1 : arr1.Perm (workerStage f (ks.map fun k => (k, v k))))
    (arrW : List Batch) (hW : arrW.Perm arr1) :
    commandOutput fmt arrW = (((inFlat v n).flatMap f).map fmt).flatten := by
  rw [workerStage_keyed] at h1
  obtain ⟨hk, he⟩ := keyed_of_perm (fun k => (v k).flatMap f) ks arrW (hW.trans h1)
  unfold commandOutput
  rw [he, batchText_keyed]
  rw [ObiVerif.Props.C04.raw_writer_perm (fun k => (((v k).flatMap f).map fmt).flatten) n _ (hk.trans hp)]
  rw [flatten_map_flatMap fmt (fun k => (v k).flatMap f) n]
  have e : (List.range n).flatMap (fun k => (v k).flatMap f) = (inFlat v n).flatMap f := inFlat_flatMap v n f
  rw [e]

/-- two runs of the same command on the same records with different batch sizes, worker counts and
schedules write the same bytes -/
theorem command_config_independent (f : Rec → List Rec) (fmt : Rec → Command.Bytes)
    (v₁ : Nat → List Rec) (n₁ : Nat) (ks₁ : List Nat) (hp₁ : ks₁.Perm (List.range n₁))
    (a₁ w₁ : List Batch) (h₁ : a₁.Perm (workerStage f (ks₁.map fun k => (k, v₁ k)))) (hw₁ : w₁.Perm a₁)
    (v₂ : Nat → List Rec) (n₂ : Nat) (ks₂ : List Nat) (hp₂ : ks₂.Perm (List.range n₂))
    (a₂ w₂ : List Batch) (h₂ : a₂.Perm (workerStage f (ks₂.map fun k => (k, v₂ k)))) (hw₂ : w₂.Perm a₂)
    (hin : inFlat v₁ n₁ = inFlat v₂ n₂) :
    commandOutput fmt w₁ = commandOutput fmt w₂ := by
  rw [command_deterministic f fmt v₁ n₁ ks₁ hp₁ a₁ h₁ w₁ hw₁,
      command_deterministic f fmt v₂ n₂ ks₂ hp₂ a₂ h₂ w₂ hw₂, hin]

/-- one batch's contribution commutes with any other batch's -/
theorem count_batch_comm (cnt : Rec → Nat × Nat × Nat) (acc : Nat × Nat × Nat) (l : List Rec) :
    l.foldl (fun a r => (a.1 + (cnt r).1, a.2.1 + (cnt r).2.1, a.2.2 + (cnt r).2.2)) acc
      = (acc.1 + (l.map fun r => (cnt r).1).sum, acc.2.1 + (l.map fun r => (cnt r).2.1).sum,
         acc.2.2 + (l.map fun r => (cnt r).2.2).sum) := by
  induction l generalizing acc with
  | nil => simp
  | cons r t ih => rw [List.foldl_cons, ih]; simp [Nat.add_assoc]

/-- the counters of an aggregating command (obicount) do not depend on the order in which the batches
arrive -/
theorem count_perm (cnt : Rec → Nat × Nat × Nat) (a b : List Batch) (h : a.Perm b) :
    countOutput cnt a = countOutput cnt b := by
  unfold countOutput
  apply List.Perm.foldl_eq' h
  intro x _ y _ z
  simp only [count_batch_comm]
  ext <;> simp <;> omega

end ObiVerif.Props.C05
