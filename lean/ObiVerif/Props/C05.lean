import ObiVerif.Model.Command
import ObiVerif.Lemmas.Iter
import ObiVerif.Props.C03
import ObiVerif.Props.C04
import ObiVerif.Lemmas.Command
import ObiVerif.Lemmas.CommandShapes
import ObiVerif.Props.C06
/-!
# C05 — command output is a function of input and options, not of parallelism (property theorems)

`v, n` is the partition of the input into reader batches (so: every `--batch-size`), `ks` the order in
which the batches leave the reader, `arr1` the order in which the N workers push their results
(every `--max-cpu`, every scheduling), `arrW` the order in which the formatted batches reach the
writer.  The bytes written depend on none of them.
-/
namespace ObiVerif.Props.C05
open ObiVerif.Reseq ObiVerif.Iter ObiVerif.Writer ObiVerif.Command ObiVerif.Props.C03

theorem batchText_keyed (fmt : Rec → Command.Bytes) (w : Nat → List Rec) (ks : List Nat) :
    (ks.map fun k => ((k, w k) : Batch)).map (batchText fmt) = ks.map fun k => (k, ((w k).map fmt).flatten) := by
  simp [batchText, List.map_map, Function.comp_def]

theorem flatten_map_flatMap (fmt : Rec → Command.Bytes) (w : Nat → List Rec) (n : Nat) :
    ((List.range n).map fun k => ((w k).map fmt).flatten).flatten
      = (((List.range n).flatMap w).map fmt).flatten := by
  induction (List.range n) with
  | nil => simp
  | cons a t ih => simp [List.flatMap_cons, ih]

/-- **Schedule independence.**  Whatever the partition of the input into batches, the order in which
batches are read, the order in which the workers deliver them and the order in which the formatted
batches reach the writer, the bytes written are the per-record results of the input records, in
input order. -/
theorem command_deterministic (f : Rec → List Rec) (fmt : Rec → Command.Bytes)
    (v : Nat → List Rec) (n : Nat) (ks : List Nat) (hp : ks.Perm (List.range n))
    (arr1 : List Batch) (h1 : arr1.Perm (workerStage f (ks.map fun k => (k, v k))))
    (arrW : List Batch) (hW : arrW.Perm arr1) :
    commandOutput fmt arrW = (((inFlat v n).flatMap f).map fmt).flatten := by
  rw [workerStage_keyed] at h1
  obtain ⟨hk, he⟩ := keyed_of_perm (fun k => (v k).flatMap f) ks arrW (hW.trans h1)
  unfold commandOutput
  rw [he, batchText_keyed]
  rw [ObiVerif.Props.C04.raw_writer_perm (fun k => (((v k).flatMap f).map fmt).flatten) n _ (hk.trans hp)]
  rw [flatten_map_flatMap fmt (fun k => (v k).flatMap f) n]
  have e : (List.range n).flatMap (fun k => (v k).flatMap f) = (inFlat v n).flatMap f := inFlat_flatMap v n f
  rw [e]

/-- two runs of the same command on the same records with different batch sizes, worker counts and
schedules write the same bytes -/
theorem command_config_independent (f : Rec → List Rec) (fmt : Rec → Command.Bytes)
    (v₁ : Nat → List Rec) (n₁ : Nat) (ks₁ : List Nat) (hp₁ : ks₁.Perm (List.range n₁))
    (a₁ w₁ : List Batch) (h₁ : a₁.Perm (workerStage f (ks₁.map fun k => (k, v₁ k)))) (hw₁ : w₁.Perm a₁)
    (v₂ : Nat → List Rec) (n₂ : Nat) (ks₂ : List Nat) (hp₂ : ks₂.Perm (List.range n₂))
    (a₂ w₂ : List Batch) (h₂ : a₂.Perm (workerStage f (ks₂.map fun k => (k, v₂ k)))) (hw₂ : w₂.Perm a₂)
    (hin : inFlat v₁ n₁ = inFlat v₂ n₂) :
    commandOutput fmt w₁ = commandOutput fmt w₂ := by
  rw [command_deterministic f fmt v₁ n₁ ks₁ hp₁ a₁ h₁ w₁ hw₁,
      command_deterministic f fmt v₂ n₂ ks₂ hp₂ a₂ h₂ w₂ hw₂, hin]

/-- one batch's contribution commutes with any other batch's -/
theorem count_batch_comm (cnt : Rec → Nat × Nat × Nat) (acc : Nat × Nat × Nat) (l : List Rec) :
    l.foldl (fun a r => (a.1 + (cnt r).1, a.2.1 + (cnt r).2.1, a.2.2 + (cnt r).2.2)) acc
      = (acc.1 + (l.map fun r => (cnt r).1).sum, acc.2.1 + (l.map fun r => (cnt r).2.1).sum,
         acc.2.2 + (l.map fun r => (cnt r).2.2).sum) := by
  induction l generalizing acc with
  | nil => simp
  | cons r t ih => rw [List.foldl_cons, ih]; simp [Nat.add_assoc]

/-- the counters of an aggregating command (obicount) do not depend on the order in which the batches
arrive -/
theorem count_perm (cnt : Rec → Nat × Nat × Nat) (a b : List Batch) (h : a.Perm b) :
    countOutput cnt a = countOutput cnt b := by
  unfold countOutput
  apply List.Perm.foldl_eq' h
  intro x _ y _ z
  simp only [count_batch_comm]
  ext <;> simp <;> omega

/-! ## Commands that filter, write JSON / CSV, have two outputs or dispatch -/

/-- the stream leaving the workers, whatever the partition and the delivery order -/
theorem worker_isStream (f : Rec → List Rec) (v : Nat → List Rec) (n : Nat) (ks : List Nat)
    (hp : ks.Perm (List.range n)) (arr1 : List Batch)
    (h1 : arr1.Perm (workerStage f (ks.map fun k => (k, v k)))) :
    IsStream arr1 n ((inFlat v n).flatMap f) := by
  rw [workerStage_keyed] at h1
  have s1 := isStream_of_perm_keyed (fun k => (v k).flatMap f) n ks hp arr1 h1
  have e : (List.range n).flatMap (fun k => (v k).flatMap f) = (inFlat v n).flatMap f := inFlat_flatMap v n f
  rwa [e] at s1

/-- **obigrep-like commands** (`MakeISliceWorker f`, then `FilterOn p size`, then the writer): the bytes are
the texts of the kept results in input order, for every batch partition, every `size > 0`, every delivery
order between the stages. -/
theorem filter_command_deterministic (f : Rec → List Rec) (p : Rec → Bool) (size : Nat) (hsize : 0 < size)
    (fmt : Rec → Command.Bytes) (v : Nat → List Rec) (n : Nat) (ks : List Nat) (hp : ks.Perm (List.range n))
    (arr1 : List Batch) (h1 : arr1.Perm (workerStage f (ks.map fun k => (k, v k))))
    (arrW : List Batch) (hW : arrW.Perm (filterOn p size arr1)) :
    commandOutput fmt arrW = ((((inFlat v n).flatMap f).filter p).map fmt).flatten :=
  write_isStream fmt (((worker_isStream f v n ks hp arr1 h1).filterOn p size hsize).isStream_of_perm hW)

/-- **JSON output**: one array holding the objects of the results, in input order -/
theorem json_command_deterministic (f : Rec → List Rec) (obj : Rec → Command.Bytes) (hne : ∀ r, obj r ≠ [])
    (v : Nat → List Rec) (n : Nat) (ks : List Nat) (hp : ks.Perm (List.range n))
    (arr1 : List Batch) (h1 : arr1.Perm (workerStage f (ks.map fun k => (k, v k))))
    (arrW : List Batch) (hW : arrW.Perm arr1) :
    commandJson obj arrW = openJson ++ joinSep sepJson (((inFlat v n).flatMap f).map obj) ++ closeJson := by
  have s := worker_isStream f v n ks hp arr1 h1
  obtain ⟨ks', w, hp', rfl, hF⟩ := s
  obtain ⟨hk, he⟩ := keyed_of_perm w ks' arrW hW
  exact json_isStream obj hne ⟨arrW.map (·.1), w, hk.trans hp', he, hF⟩

/-- **CSV output** (obicsv): the header once, then the rows in input order (input of at least one batch) -/
theorem csv_command_deterministic (f : Rec → List Rec) (header : Command.Bytes) (row : Rec → Command.Bytes)
    (v : Nat → List Rec) (n : Nat) (hn : 0 < n) (ks : List Nat) (hp : ks.Perm (List.range n))
    (arr1 : List Batch) (h1 : arr1.Perm (workerStage f (ks.map fun k => (k, v k))))
    (arrW : List Batch) (hW : arrW.Perm arr1) :
    commandCsv header row arrW = header ++ (((inFlat v n).flatMap f).map row).flatten := by
  have s := worker_isStream f v n ks hp arr1 h1
  obtain ⟨ks', w, hp', rfl, hF⟩ := s
  obtain ⟨hk, he⟩ := keyed_of_perm w ks' arrW hW
  exact csv_isStream header row hn ⟨arrW.map (·.1), w, hk.trans hp', he, hF⟩

/-- **Two outputs** (obigrep --save-discarded, obimultiplex -u: `DivideOn`): the first output holds the texts of
the results satisfying `p`, the second one those of the others, both in input order; `pT`, `pF` are the
(arbitrary) re-orderings of the two streams on their way to their writers. -/
theorem divide_command_deterministic (f : Rec → List Rec) (p : Rec → Bool) (size : Nat) (hsize : 0 < size)
    (fmt : Rec → Command.Bytes) (v : Nat → List Rec) (n : Nat) (ks : List Nat) (hp : ks.Perm (List.range n))
    (arr1 : List Batch) (h1 : arr1.Perm (workerStage f (ks.map fun k => (k, v k))))
    (pT pF : List Batch → List Batch) (hT : ∀ l, (pT l).Perm l) (hF : ∀ l, (pF l).Perm l) :
    divideOutputs p size fmt arr1 pT pF =
      (((((inFlat v n).flatMap f).filter p).map fmt).flatten,
       ((((inFlat v n).flatMap f).filter (fun r => !p r)).map fmt).flatten) := by
  have s := worker_isStream f v n ks hp arr1 h1
  obtain ⟨ct, cf⟩ := divideOn_chunked p size hsize arr1
  rw [s.sort.2.2] at ct cf
  unfold divideOutputs
  rw [write_isStream fmt (ct.isStream_of_perm (hT _)), write_isStream fmt (cf.isStream_of_perm (hF _))]

/-- **Dispatching command** (obidistribute): the file of class `key` holds the texts of the results of that
class, in input order -/
theorem distribute_command_deterministic (f : Rec → List Rec) (cls : Rec → Nat) (size : Nat) (hsize : 0 < size)
    (fmt : Rec → Command.Bytes) (v : Nat → List Rec) (n : Nat) (ks : List Nat) (hp : ks.Perm (List.range n))
    (arr1 : List Batch) (h1 : arr1.Perm (workerStage f (ks.map fun k => (k, v k))))
    (key : Nat) (pK : List Batch → List Batch) (hK : ∀ l, (pK l).Perm l) :
    distributeFile cls size fmt key arr1 pK =
      ((((inFlat v n).flatMap f).filter (fun r => cls r == key)).map fmt).flatten := by
  have s := worker_isStream f v n ks hp arr1 h1
  have c := distributeKey_chunked cls size hsize key arr1
  rw [s.sort.2.2] at c
  unfold distributeFile
  rw [write_isStream fmt (c.isStream_of_perm (hK _))]

/-- non-vacuity (test on a sample): 3 batches read in the order 1,0,2, kept/discarded by parity, both
streams reversed before their writers -/
example : divideOutputs (fun r => r % 2 == 0) 2 (fun r => [r.toUInt8]) ([1, 0, 2].map fun k => (k, exV k))
      List.reverse List.reverse = ([10, 12, 14], [11, 13]) := by
  rw [divide_command_deterministic (fun r => [r]) (fun r => r % 2 == 0) 2 (by decide) _ exV 3 [1, 0, 2]
    (by decide) _ (by simp [workerStage]) _ _ (fun l => List.reverse_perm l) (fun l => List.reverse_perm l)]
  decide

/-! ## Aggregating commands -/

/-- **Aggregation in a commutative monoid** (obicount, the scalar counters of obisummary): `shares` says which
worker took which batches and in which order — any sharing of any partition of the input; each worker
accumulates from `e`, the partial results are merged with `op`: the result is the fold over the input. -/
theorem aggregate_deterministic {σ : Type} (op : σ → σ → σ) (e : σ) (val : Rec → σ)
    (hassoc : ∀ a b c, op (op a b) c = op a (op b c)) (hcomm : ∀ a b, op a b = op b a) (hid : ∀ a, op e a = a)
    (shares : List (List Batch)) (v : Nat → List Rec) (n : Nat)
    (h : shares.flatten.Perm ((List.range n).map fun k => (k, v k))) :
    aggOutput (fun a r => op a (val r)) op e shares = (inFlat v n).foldl (fun a r => op a (val r)) e := by
  have hidr : ∀ a, op a e = a := fun a => by rw [hcomm, hid]
  unfold aggOutput
  rw [aggOutput_flat op e val hassoc hidr hid]
  have hf : (Iter.flatten shares.flatten).Perm (inFlat v n) := by
    have := h.flatMap_right (fun b : Batch => b.2)
    have e2 : Iter.flatten ((List.range n).map fun k => (k, v k)) = inFlat v n := flatten_keyed v _
    unfold Iter.flatten at e2 ⊢
    rwa [e2] at this
  apply List.Perm.foldl_eq' hf
  intro x _ y _ z
  rw [hassoc, hassoc, hcomm (val x)]

/-- **Map-valued counters** (obisummary): same statement for the maps of counters, `mergeCounters` being
`sumUpdateIntMap` and a record contributing the (key, increment) pairs `cnt r` -/
theorem summary_deterministic (cnt : Rec → Counters) (init : Counters)
    (shares : List (List Batch)) (v : Nat → List Rec) (n : Nat)
    (h : shares.flatten.Perm ((List.range n).map fun k => (k, v k))) :
    summaryOutput cnt init shares = mergeCounters init ((inFlat v n).flatMap cnt) := by
  rw [summaryOutput_flat]
  apply mergeCounters_perm
  have := h.flatMap_right (fun b : Batch => b.2.flatMap cnt)
  unfold items
  refine this.trans (List.Perm.of_eq ?_)
  simp only [List.flatMap_map, inFlat, List.flatMap_assoc]

/-- two runs of obisummary on the same records, with different batch partitions, worker counts and
schedules, print the same counters -/
theorem summary_config_independent (cnt : Rec → Counters) (init : Counters)
    (s₁ : List (List Batch)) (v₁ : Nat → List Rec) (n₁ : Nat)
    (h₁ : s₁.flatten.Perm ((List.range n₁).map fun k => (k, v₁ k)))
    (s₂ : List (List Batch)) (v₂ : Nat → List Rec) (n₂ : Nat)
    (h₂ : s₂.flatten.Perm ((List.range n₂).map fun k => (k, v₂ k)))
    (hin : inFlat v₁ n₁ = inFlat v₂ n₂) :
    summaryOutput cnt init s₁ = summaryOutput cnt init s₂ := by
  rw [summary_deterministic cnt init s₁ v₁ n₁ h₁, summary_deterministic cnt init s₂ v₂ n₂ h₂, hin]

/-- non-vacuity (test on a sample): two workers, the second one serving batches 2 then 0 -/
example : summaryOutput (fun r => [(r % 3, 1), (7, r)]) [] [[(1, exV 1)], [(2, exV 2), (0, exV 0)]]
    = [(0, 1), (1, 2), (2, 2), (7, 60)] := by
  rw [summary_deterministic _ _ _ exV 3 (by decide)]
  decide

/-! ## Third pass: the other command shapes

For each shape: the bytes (or, where only that is claimed, the multiset of the texts) are independent of the batch
partition, of the order in which the workers deliver and of the order in which the writer receives. -/

/-- obisummary merges the per-worker summaries in index order (`rep = rep.Add(summaries[i])`): the result would
be the same for ANY order of the merge (integer sums and map unions only, no floating point) -/
theorem summary_merge_order_independent (cnt : Rec → Counters) (init : Counters)
    (shares shares' : List (List Batch)) (h : shares'.Perm shares) :
    summaryOutput cnt init shares' = summaryOutput cnt init shares := by
  rw [summaryOutput_flat, summaryOutput_flat]
  apply mergeCounters_perm
  unfold items
  exact (h.flatten).flatMap_right _

/-- **Group-by then per-group function** (obiuniq: `key` = (sequence, categories), `g` = `BioSequenceSlice.Merge`
observed up to the identifier; obiclean's per-sample graphs): `arr` = ANY arrival order of the input batches at the
stage that accumulates the data set (so: any batch partition, any read/parse schedule), `ks` = the classes in ANY
order of delivery by the workers.  For a per-class function that does not depend on the order of the members
(`hg`: for obiuniq this is `ObiVerif.Props.C06.uniq_perm`), the texts written are, up to their order, the texts
of the classes of the input `ks0`.  (The ORDER of the output is not claimed for this shape.) -/
theorem groupby_command_deterministic (key : Rec → Nat) (g : List Rec → Command.Bytes)
    (hg : ∀ l l', l.Perm l' → g l = g l') (v : Nat → List Rec) (n : Nat)
    (arr : List Batch) (harr : arr.Perm ((List.range n).map fun k => (k, v k)))
    (ks ks0 : List Nat) (hnd : ks.Nodup) (hnd0 : ks0.Nodup)
    (hks : ∀ k, k ∈ ks ↔ ∃ r ∈ inFlat v n, key r = k) (hks0 : ∀ k, k ∈ ks0 ↔ ∃ r ∈ inFlat v n, key r = k) :
    (groupOutputs key g (Iter.flatten arr) ks).Perm (groupOutputs key g (inFlat v n) ks0) := by
  have hdb := flatten_perm_inFlat v n arr harr
  have hk : ks.Perm ks0 := (List.perm_ext_iff_of_nodup hnd hnd0).mpr (fun k => (hks k).trans (hks0 k).symm)
  have e : groupOutputs key g (Iter.flatten arr) ks = groupOutputs key g (inFlat v n) ks := by
    unfold groupOutputs
    apply List.map_congr_left
    intro k _
    exact hg _ _ (hdb.filter _)
  rw [e]
  exact hk.map _

/-- two runs of a group-by command on the same records (different batch partitions, arrival orders, class
delivery orders): every rendering of the output that does not look at the order of the records (`canon`: the
sorted multiset the harness compares) gives the same bytes -/
theorem groupby_command_config_independent (key : Rec → Nat) (g : List Rec → Command.Bytes)
    (hg : ∀ l l', l.Perm l' → g l = g l')
    (canon : List Command.Bytes → Command.Bytes) (hc : ∀ a b, a.Perm b → canon a = canon b)
    (v₁ : Nat → List Rec) (n₁ : Nat) (arr₁ : List Batch) (h₁ : arr₁.Perm ((List.range n₁).map fun k => (k, v₁ k)))
    (ks₁ : List Nat) (hnd₁ : ks₁.Nodup) (hks₁ : ∀ k, k ∈ ks₁ ↔ ∃ r ∈ inFlat v₁ n₁, key r = k)
    (v₂ : Nat → List Rec) (n₂ : Nat) (arr₂ : List Batch) (h₂ : arr₂.Perm ((List.range n₂).map fun k => (k, v₂ k)))
    (ks₂ : List Nat) (hnd₂ : ks₂.Nodup) (hks₂ : ∀ k, k ∈ ks₂ ↔ ∃ r ∈ inFlat v₂ n₂, key r = k)
    (hin : inFlat v₁ n₁ = inFlat v₂ n₂) :
    canon (groupOutputs key g (Iter.flatten arr₁) ks₁) = canon (groupOutputs key g (Iter.flatten arr₂) ks₂) := by
  apply hc
  have a := groupby_command_deterministic key g hg v₁ n₁ arr₁ h₁ ks₁ ks₂ hnd₁ hnd₂ hks₁ (by rw [hin]; exact hks₂)
  have b := groupby_command_deterministic key g hg v₂ n₂ arr₂ h₂ ks₂ ks₂ hnd₂ hnd₂ hks₂ hks₂
  rw [hin] at a
  exact a.trans b.symm

/-- **obiuniq, with its real per-class function** (the model of C06: `Uniq.uniq` = chunks by hash, sequence stage,
category stages, `BioSequenceSlice.Merge`): `batches` = the input as the reader cut it, `arr` = ANY arrival order of
those batches at `ISequenceChunk` (so: any parse schedule), `h`, `h'` = any chunk functions (any `--chunk-count`).
Every record of one run has an observably equal record (sequence, categories, count, requested merged maps, kept
attributes — not the identifier) in the other; the statement is symmetric in the two runs.  Instance of the
group-by shape for which the order-freeness hypothesis `hg` is a theorem (`ObiVerif.Props.C06.uniq_perm`). -/
theorem obiuniq_arrival_independent (h h' : ObiVerif.Uniq.Seq → Nat) (o : ObiVerif.Uniq.Opts)
    (batches arr : List (List ObiVerif.Uniq.Rec)) (harr : arr.Perm batches)
    (ok : ObiVerif.Uniq.InputOK o batches.flatten) :
    (∀ out ∈ ObiVerif.Uniq.uniq h o batches.flatten, ∃ out' ∈ ObiVerif.Uniq.uniq h' o arr.flatten,
        ObiVerif.Props.C06.ObsEq o out out') ∧
    (∀ out ∈ ObiVerif.Uniq.uniq h' o arr.flatten, ∃ out' ∈ ObiVerif.Uniq.uniq h o batches.flatten,
        ObiVerif.Props.C06.ObsEq o out out') :=
  ⟨ObiVerif.Props.C06.uniq_perm h h' o batches.flatten arr.flatten harr.flatten ok,
   ObiVerif.Props.C06.uniq_perm h' h o arr.flatten batches.flatten harr.symm.flatten (ok.perm harr.flatten)⟩

/-- **Load in batch order then a function of the whole data set** (obiclean with `SortBatches().Load()`): the
bytes are `G` of the processed input in input order — for every `G`, order-sensitive ones included -/
theorem loaded_command_deterministic (G : List Rec → Command.Bytes) (f : Rec → List Rec)
    (v : Nat → List Rec) (n : Nat) (ks : List Nat) (hp : ks.Perm (List.range n))
    (arr1 : List Batch) (h1 : arr1.Perm (workerStage f (ks.map fun k => (k, v k)))) :
    loadedCommand G arr1 = G ((inFlat v n).flatMap f) := by
  unfold loadedCommand
  rw [(worker_isStream f v n ks hp arr1 h1).sort.2.2]

/-- …whereas `Load()` on the arrival order (obiclean before the fix `C05-obiclean-load-order`) is NOT a function
of the input: two arrival orders of the same two batches, a `G` that prints the records in data-set order
(concrete counterexample, by evaluation) -/
theorem load_arrival_order_dependent :
    ∃ (G : List Rec → Command.Bytes) (arr arr' : List Batch), arr'.Perm arr ∧
      loadedCommandArrival G arr ≠ loadedCommandArrival G arr' :=
  ⟨fun l => l.map (·.toUInt8), [(0, [1]), (1, [2])], [(1, [2]), (0, [1])], by decide, by decide⟩

/-- **Two inputs zipped** (obipairing, obigrep --paired-with): the two files are cut in batches independently
(`va na`, `vb nb`), their batches reach `PairTo` in any orders `ka`, `kb`, the paired batches are re-ordered in any
way `pW` by the assembling workers before the writer: the bytes are the texts of the pairs (i-th record of one file,
i-th record of the other), in order -/
theorem paired_command_deterministic (size : Nat) (hsize : 0 < size) (asm : Rec × Rec → Command.Bytes)
    (va : Nat → List Rec) (na : Nat) (ka : List Nat) (hpa : ka.Perm (List.range na))
    (vb : Nat → List Rec) (nb : Nat) (kb : List Nat) (hpb : kb.Perm (List.range nb))
    (hlen : (inFlat va na).length = (inFlat vb nb).length)
    (pW : List (Nat × Command.Bytes) → List (Nat × Command.Bytes)) (hW : ∀ l, (pW l).Perm l) :
    pairedCommand size asm (ka.map fun k => (k, va k)) (kb.map fun k => (k, vb k)) pW
      = (((inFlat va na).zip (inFlat vb nb)).map asm).flatten := by
  have hs := pairTo_spec size hsize va na ka hpa vb nb kb hpb hlen
  have hk := hs.1
  have hf := hs.2
  unfold pairedCommand
  generalize pairTo size (ka.map fun k => (k, va k)) (kb.map fun k => (k, vb k)) = out at hk hf ⊢
  have htk : (out.map (pairBatchText asm)).map (·.1) = List.range (out.map (pairBatchText asm)).length := by
    rw [List.map_map, List.length_map]
    exact hk
  have hrep := numbered_rep_gen ([] : Command.Bytes) _ htk
  generalize htxt : out.map (pairBatchText asm) = txt at hrep ⊢
  obtain ⟨w, m, hw⟩ : ∃ (w : Nat → Command.Bytes) (m : Nat), txt = (List.range m).map fun k => (k, w k) :=
    ⟨_, _, hrep⟩
  subst hw
  obtain ⟨h1, h2⟩ := keyed_of_perm_gen w (List.range m) (pW _) (hW _)
  rw [h2, ObiVerif.Props.C04.raw_writer_perm w m _ h1]
  have e : (List.range m).map w = out.map fun pb => (pb.2.map asm).flatten := by
    have := congrArg (List.map (·.2)) htxt
    simpa [List.map_map, Function.comp_def, pairBatchText] using this.symm
  rw [e, ← hf, List.flatMap_def]
  have := flatten_map_flatten asm (out.map (·.2))
  simpa [List.map_map, Function.comp_def] using this

/-- **One-to-many worker through the record → slice adapter** (obipcr, obimultiplex: `MakeIWorker(worker, breakOnError)`,
output slice grown on demand by any growth function `g` that grows): when no record makes the run stop
(`breakOnError` off, or no failing record), the bytes are the texts of the results of the accepted records, in
input order — for every batch partition, reading order `ks` and re-ordering `pW` of the pushed batches -/
theorem adapter_command_deterministic (g : Nat → Nat) (hg : Grows g) (worker : SeqWorker) (boe : Bool)
    (fmt : Rec → Command.Bytes) (v : Nat → List Rec) (n : Nat) (ks : List Nat) (hp : ks.Perm (List.range n))
    (hno : boe = true → ∀ k, ∀ r ∈ v k, (worker r).isSome)
    (pW : List Batch → List Batch) (hW : ∀ l, (pW l).Perm l) :
    adapterCommand g worker boe fmt (ks.map fun k => (k, v k)) pW
      = some (((keepOk worker (inFlat v n)).map fmt).flatten) := by
  have hw : ∀ b ∈ (ks.map fun k => ((k, v k) : Batch)), seqToSlice g worker boe b.2 = .ok (keepOk worker b.2) := by
    intro b hb
    obtain ⟨k, _, rfl⟩ := List.mem_map.mp hb
    rw [seqToSlice_eq_spec g hg]
    unfold sliceSpec
    cases boe with
    | false => simp [filter_true']
    | true =>
      have hall : ¬ ∃ x, x ∈ v k ∧ worker x = none := by
        intro ⟨x, hx, h⟩
        have := hno rfl k x hx
        simp [h] at this
      simp [hall, filter_true']
  unfold adapterCommand iWorker
  rw [sliceWorkerStage_ok _ (keepOk worker) boe _ hw]
  simp only [List.map_map, Function.comp_def]
  have s := isStream_of_perm_keyed (fun k => keepOk worker (v k)) n ks hp (pW _) (hW _)
  rw [write_isStream fmt s]
  congr 3
  unfold inFlat
  generalize List.range n = l
  induction l with
  | nil => rfl
  | cons a t ih => simp [List.flatMap_cons, keepOk_append, ih]

/-- non-vacuity (test on a sample): two files cut differently (3+0+2 and 4+1 records), batches reaching `PairTo`
in the orders 2,0,1 and 1,0, paired batches reversed before the writer -/
example : pairedCommand 2 (fun p => [p.1.toUInt8, p.2.toUInt8]) ([2, 0, 1].map fun k => (k, exV k))
      ([1, 0].map fun k => (k, if k = 0 then [20, 21, 22, 23] else [24])) List.reverse
    = [10, 20, 11, 21, 12, 22, 13, 23, 14, 24] := by
  rw [paired_command_deterministic 2 (by decide) _ exV 3 [2, 0, 1] (by decide)
    (fun k => if k = 0 then [20, 21, 22, 23] else [24]) 2 [1, 0] (by decide) (by decide) _ (fun l => List.reverse_perm l)]
  decide

/-- non-vacuity (test on a sample): classes by parity of a data set that arrived as batches 2,0,1, classes delivered
odd first; `g` = the sum of the members (order-free) -/
example : (groupOutputs (fun r => r % 2) (fun l => [l.sum.toUInt8]) (Iter.flatten ([2, 0, 1].map fun k => (k, exV k))) [1, 0]).Perm
    (groupOutputs (fun r => r % 2) (fun l => [l.sum.toUInt8]) (inFlat exV 3) [0, 1]) := by
  have hmem : ∀ k, (k = 0 ∨ k = 1) ↔ ∃ r ∈ inFlat exV 3, r % 2 = k := by
    intro k
    have e : inFlat exV 3 = [10, 11, 12, 13, 14] := by decide
    rw [e]
    constructor
    · rintro (rfl | rfl)
      · exact ⟨10, by decide, rfl⟩
      · exact ⟨11, by decide, rfl⟩
    · rintro ⟨r, _, rfl⟩
      exact Nat.mod_two_eq_zero_or_one r
  exact groupby_command_deterministic _ _ (fun _ _ h => by rw [h.sum_nat]) exV 3 _ (by decide) _ _ (by decide) (by decide)
    (fun k => by rw [← hmem k]; simp [or_comm]) (fun k => by rw [← hmem k]; simp)

/-- non-vacuity (test on a sample): the input of the C06 example cut in two batches that arrive in the other order,
two different chunk functions -/
example : ∀ out ∈ ObiVerif.Uniq.uniq (fun s => s.length % 2) ObiVerif.Props.C06.exO ([ObiVerif.Props.C06.exIn.take 3, ObiVerif.Props.C06.exIn.drop 3].flatten),
    ∃ out' ∈ ObiVerif.Uniq.uniq (fun _ => 0) ObiVerif.Props.C06.exO ([ObiVerif.Props.C06.exIn.drop 3, ObiVerif.Props.C06.exIn.take 3].flatten),
      ObiVerif.Props.C06.ObsEq ObiVerif.Props.C06.exO out out' := by
  refine (obiuniq_arrival_independent _ _ _ _ _ (List.Perm.swap _ _ []) ?_).1
  refine ⟨by decide, ?_, ?_⟩
  · intro r hr; simp [ObiVerif.Props.C06.exIn] at hr; rcases hr with rfl | rfl | rfl | rfl <;> decide
  · intro r hr; simp [ObiVerif.Props.C06.exIn] at hr; rcases hr with rfl | rfl | rfl | rfl <;> simp [ObiVerif.Uniq.Rec.WF]

/-- non-vacuity (test on a sample): a worker that rejects odd records and doubles the others, 3 batches read in
the order 1,0,2, pushed batches reversed -/
example : adapterCommand growMin (fun r => if r % 2 = 0 then some [r, r] else none) false (fun r => [r.toUInt8])
      ([1, 0, 2].map fun k => (k, exV k)) List.reverse = some [10, 10, 12, 12, 14, 14] := by
  rw [adapter_command_deterministic growMin growMin_grows _ false _ exV 3 [1, 0, 2] (by decide) (by intro h; cases h)
    _ (fun l => List.reverse_perm l)]
  decide


end ObiVerif.Props.C05
