import ObiVerif.Props.C18Proc
import ObiVerif.Props.C18Open
import ObiVerif.Model.WriteSide
set_option Elab.async false
/-!
# C18 — the side files of `obiclean` (`--save-ratio`, `--save-graph`) are outputs (property theorems)

* `side_exact`: for every room left on the device, Close behaviour, openability, number and size of the write calls:
  the side file ends with the first `room` bytes of what it has to hold and the outcome is fatal iff it cannot be
  created, or those bytes do not fit, or Close fails (buffered = the ratio table, unbuffered = a graph file);
* `side_ok_complete`: outcome ok implies created, every byte, closed without error;
* `side_exit0_all_complete`: exit status 0 under ANY interleaving of the writers implies that every side file asked
  for was created, holds every byte and was closed, and that no writer of sequences failed;
* `side_file_failure_exit_nonzero`: a side file that cannot be created / written / closed: no interleaving ends with 0;
* `side_no_false_alarm`: all side files fine and no writer failing: the status is never 1;
* `side_is_one_more_output`: the verdict is the verdict of the process model with one more (static) output per side file;
* `ignoring_breaks`: the code before the repair (errors ignored) exits 0 with the table lost.
-/
namespace ObiVerif.Props.C18
open ObiVerif.WriteErr ObiVerif.WriteProc ObiVerif.WriteSide

theorem sideRun_exact (buffered : Bool) (texts : List Bytes) (room : Nat) (cf : Bool) :
    sideRun buffered texts room cf =
      (if room < texts.flatten.length || cf then .fatal else .ok, texts.flatten.take room) := by
  unfold sideRun
  cases buffered with
  | true =>
    have h := foldl_emitRaw_inv texts _ _ (BWInv.init 4096 room cf)
    simp only [if_true]
    rw [closeW_eq h]
    simp
  | false =>
    simp only [Sink.write, Bool.false_eq_true, if_false, List.length_nil, Nat.sub_zero, List.nil_append]
    generalize texts.flatten = e
    by_cases hr : room < e.length
    · have h1 : min e.length room = room := by omega
      simp [hr, h1]
    · have h1 : min e.length room = e.length := by omega
      have h2 : e.take room = e := List.take_of_length_le (by omega)
      simp [hr, h1, h2]

theorem side_exact (s : Side) :
    s.write = if s.slot.openable then
        (if s.slot.room < s.expected.length || s.slot.closeFails then .fatal else .ok,
         some (s.expected.take s.slot.room))
      else (.fatal, s.slot.old) := by
  unfold Side.write withOpen Side.expected
  cases s.slot.openable <;> simp [sideRun_exact]

theorem side_ok_complete (s : Side) (h : s.write.1 = .ok) :
    s.slot.openable = true ∧ s.write.2 = some s.expected ∧ s.slot.closeFails = false := by
  rw [side_exact] at h ⊢
  cases ho : s.slot.openable with
  | false => simp [ho] at h
  | true =>
    simp only [ho, if_true] at h ⊢
    by_cases hc : (s.slot.room < s.expected.length || s.slot.closeFails) = true
    · simp [hc] at h
    · simp only [Bool.or_eq_true, decide_eq_true_eq, not_or, Nat.not_lt, Bool.not_eq_true] at hc
      simp [List.take_of_length_le hc.1, hc.2]

theorem side_bad_iff (s : Side) :
    s.bad = true ↔ (s.slot.openable = false ∨ s.slot.room < s.expected.length ∨ s.slot.closeFails = true) := by
  unfold Side.bad
  rw [side_exact]
  cases s.slot.openable <;> cases s.slot.closeFails <;> by_cases hr : s.slot.room < s.expected.length <;> simp [hr]

/-- exit status 0, whatever the interleaving: every side file was created, holds every byte, was closed without error;
and no writer of sequences failed (compose with `exit0_all_complete` / `cli_exit0_all_complete` for their bytes) -/
theorem side_exit0_all_complete (sides : List Side) (fails : List Bool) (sched : List Tid)
    (h : exitSide sides fails sched = some 0) :
    (∀ s ∈ sides, s.slot.openable = true ∧ s.write.2 = some s.expected ∧ s.slot.closeFails = false) ∧
      (∀ f ∈ fails, f = false) := by
  unfold exitSide at h
  by_cases ha : sides.any Side.bad = true
  · simp [ha] at h
  · simp only [ha, Bool.false_eq_true, if_false] at h
    constructor
    · intro s hs
      apply side_ok_complete
      have hb : s.bad = false := by
        cases hb : s.bad with
        | false => rfl
        | true => exact absurd (List.any_eq_true.mpr ⟨s, hs, hb⟩) ha
      unfold Side.bad at hb
      cases hw : s.write.1 with
      | ok => rfl
      | fatal => simp [hw] at hb
    · intro f hf
      cases f with
      | false => rfl
      | true => exact absurd h (exit_nonzero_of_failure fails sched hf)

/-- a side file that cannot be created, or written completely, or closed: no interleaving ends with status 0 -/
theorem side_file_failure_exit_nonzero (sides : List Side) (fails : List Bool) (sched : List Tid)
    (s : Side) (hs : s ∈ sides)
    (h : s.slot.openable = false ∨ s.slot.room < s.expected.length ∨ s.slot.closeFails = true) :
    exitSide sides fails sched = some 1 ∧ exitSide sides fails sched ≠ some 0 := by
  have ha : sides.any Side.bad = true := List.any_eq_true.mpr ⟨s, hs, (side_bad_iff s).mpr h⟩
  simp [exitSide, ha]

/-- no false alarm -/
theorem side_no_false_alarm (sides : List Side) (fails : List Bool) (sched : List Tid)
    (hs : ∀ s ∈ sides, s.slot.openable = true ∧ s.expected.length ≤ s.slot.room ∧ s.slot.closeFails = false)
    (hf : ∀ f ∈ fails, f = false) : exitSide sides fails sched ≠ some 1 := by
  have ha : sides.any Side.bad = false := by
    apply Bool.eq_false_iff.mpr
    intro hany
    obtain ⟨s, hm, hb⟩ := List.any_eq_true.mp hany
    obtain ⟨h1, h2, h3⟩ := hs s hm
    rcases (side_bad_iff s).mp hb with h | h | h
    · simp [h1] at h
    · omega
    · simp [h3] at h
  simp only [exitSide, ha, Bool.false_eq_true, if_false]
  exact exit_not_one_of_no_failure false fails sched hf

/-- a side file is one more output of the process: once both have exited, the status is the one the process model
gives with one more writer per side file (whatever the two interleavings) -/
theorem side_is_one_more_output (sides : List Side) (fails : List Bool) (sched sched' : List Tid) (c c' : Nat)
    (h : exitSide sides fails sched = some c) (h' : exitOf (sides.map Side.bad ++ fails) sched' = some c') : c = c' := by
  rw [exit_sound _ _ _ h']
  unfold exitSide at h
  by_cases ha : sides.any Side.bad = true
  · simp only [ha, if_true, Option.some.injEq] at h
    have : (sides.map Side.bad ++ fails).any id = true := by
      obtain ⟨s, hm, hb⟩ := List.any_eq_true.mp ha
      exact List.any_eq_true.mpr ⟨true, List.mem_append_left _ (List.mem_map.mpr ⟨s, hm, hb⟩), rfl⟩
    simp [this, ← h]
  · simp only [ha, Bool.false_eq_true, if_false] at h
    rw [exit_sound _ _ _ h]
    have hb : (sides.map Side.bad).any id = false := by
      simpa [List.any_map] using ha
    simp [List.any_append, hb]

/-- the hypotheses are satisfiable, the statuses are reached (tests on samples) -/
example : exitSide [⟨true, ⟨true, none, 0, false⟩, [[1, 2], [3]]⟩] [false] (canon 1) = some 1 := by decide
example : exitSide [⟨false, ⟨false, none, 100, false⟩, [[1, 2], [3]]⟩] [false] (canon 1) = some 1 := by decide
example : exitSide [⟨true, ⟨true, none, 3, false⟩, [[1, 2], [3]]⟩, ⟨false, ⟨true, some [9], 3, false⟩, [[1, 2, 3]]⟩] [false]
    (canon 1) = some 0 := by decide
example : filesAfter [⟨true, ⟨true, none, 2, false⟩, [[1, 2], [3]]⟩, ⟨false, ⟨true, some [9], 3, false⟩, [[1, 2, 3]]⟩] =
    [some [1, 2], some [9]] := by decide

/-- the code before the repair: `obiclean --save-ratio /dev/full` ends with status 0 and the table is lost -/
theorem ignoring_breaks :
    let s : Side := ⟨true, ⟨true, none, 0, false⟩, [[83, 97], [10]]⟩
    exitIgnoring [s] [false] (canon 1) = some 0 ∧ s.write = (.fatal, some []) ∧ s.expected ≠ [] := by decide

end ObiVerif.Props.C18
