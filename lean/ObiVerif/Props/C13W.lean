import ObiVerif.Props.C13
import ObiVerif.Lemmas.CleanWeight
import ObiVerif.Lemmas.CleanData
import ObiVerif.Props.C03
/-!
# Property C13, deepening round 3 — closed form of `obiclean_weight`, firing-order independence of
`reweightSequences`, acyclicity of the graph, the edge theorems on the VERBATIM kernels

`Props/C13.lean` holds the theorems of the earlier rounds; this file adds to them (same namespace).
-/
namespace ObiVerif.Props.C13
open ObiVerif.Clean ObiVerif.Race
open ObiVerif.Lcs (Seq d1F lev OneEdit lcsDP samenuc bandLCS d1or0 fastLCSEGFScoreByte Err)

/-! ## The weights: closed form, uniqueness, independence of the firing order -/

/-- the counts `cleanSample` hands to `reweightSequences` (rows in stable count order) -/
def countsOf (sample : List Node) : Array Nat := ((sortByCount sample).toArray.toList.map (·.count)).toArray

/-- the graph `cleanSample` hands to `reweightSequences` : the distance-one edges of every row -/
def edgesOf (K : Kernels) (sample : List Node) : Array (List Edge) := (edges1 K (sortByCount sample).toArray).toArray

/-- `SonCount` as `buildSamplePairs` leaves it when no increment is lost -/
def sonsOfSample (K : Kernels) (sample : List Node) : Array Nat :=
  (sonCount (sortByCount sample).toArray.size (edges1 K (sortByCount sample).toArray)).toArray

/-- **the recursive definition**, spelled out: the weight of row `k` is its count plus, for every edge `i → k`, the share
`round(weight i · count k / Σ_{e ∈ edges of i} count (father e))` (`roundDiv` = `math.Round` of the exact quotient,
half away from zero). `specW` is defined by this recursion on the row number (`specTable`). -/
theorem weight_recursion (counts : Array Nat) (edges : Array (List Edge)) (k : Nat) :
    specW counts edges k = counts.getD k 0 + ((List.range k).map (fun i =>
      ((edges.getD i []).map (·.father)).count k *
        roundDiv (specW counts edges i * counts.getD k 0)
          (((edges.getD i []).map (fun e => counts.getD e.father 0)).sum))).sum :=
  specW_eq counts edges k

/-- **`edge_strict_count`** — from `edge_iff`: every edge of the distance-one graph goes to a STRICTLY more abundant
sequence -/
theorem edge_strict_count (ns : Array Node) (hs : ns.toList.Pairwise (fun a b => a.count ≤ b.count))
    (i : Nat) (hi : i < ns.size) (e : Edge) (he : e ∈ rowEdges1 realKernels ns i) :
    ∃ hj : e.father < ns.size, ns[e.father].count > ns[i].count :=
  ⟨(rowEdges1_father_lt _ _ _ _ he).2,
    ((edge_iff ns hs i e.father hi (rowEdges1_father_lt _ _ _ _ he).2).1 ⟨e, he, rfl⟩).1⟩

theorem fathers_edgesOf (K : Kernels) (sample : List Node) (i : Nat) (hi : i < (sortByCount sample).toArray.size) :
    fathers (edgesOf K sample) i = (rowEdges1 K (sortByCount sample).toArray i).map (·.father) := by
  have hi' : i < (sortByCount sample).length := by simpa using hi
  simp [fathers, edgesOf, edges1, Array.getD_eq_getD_getElem?, List.getElem?_range hi']

theorem fathers_edgesOf_out (K : Kernels) (sample : List Node) (i : Nat) (hi : ¬ i < (sortByCount sample).toArray.size) :
    fathers (edgesOf K sample) i = [] := by
  have : (edges1 K (sortByCount sample).toArray).toArray[i]? = none := by
    apply Array.getElem?_eq_none
    simp [edges1]; simpa using hi
  simp [fathers, edgesOf, Array.getD_eq_getD_getElem?, this]

/-- the count strictly increases along every edge of the graph handed to `reweightSequences` (through `edge_iff`) -/
theorem count_rank (sample : List Node) (i : Nat) (f : Nat) (hf : f ∈ fathers (edgesOf realKernels sample) i) :
    (countsOf sample).getD i 0 < (countsOf sample).getD f 0 := by
  by_cases hi : i < (sortByCount sample).toArray.size
  · rw [fathers_edgesOf _ _ _ hi] at hf
    obtain ⟨e, he, rfl⟩ := List.mem_map.1 hf
    obtain ⟨hj, hc⟩ := edge_strict_count _ (by simpa using sortByCount_sorted sample) i hi e he
    have hi' : i < (sortByCount sample).length := by simpa using hi
    have hj' : e.father < (sortByCount sample).length := by simpa using hj
    simp only [countsOf, Array.getD_eq_getD_getElem?, List.getElem?_toArray, List.getElem?_map,
      List.getElem?_eq_getElem hi', List.getElem?_eq_getElem hj', Option.map_some, Option.getD_some]
    simpa using hc
  · rw [fathers_edgesOf_out _ _ _ hi] at hf; cases hf

/-- **`graph_acyclic`** — the son → father graph of a sample has no cycle: along every path the count strictly
increases (`edge_iff`), so no sequence reaches itself -/
theorem graph_acyclic (sample : List Node) (i j : Nat) (h : Reach (edgesOf realKernels sample) i j) :
    (countsOf sample).getD i 0 < (countsOf sample).getD j 0 ∧ i ≠ j := by
  have := h.rank_lt (fun i => (countsOf sample).getD i 0) (fun i f hf => count_rank sample i f hf)
  exact ⟨this, fun e => by subst e; omega⟩

theorem countsOf_size (sample : List Node) : (countsOf sample).size = (sortByCount sample).toArray.size := by
  simp [countsOf]

/-- the closed form solves the recursive definition on the graph of any sample (any kernel) -/
theorem specW_isSolution (K : Kernels) (sample : List Node) :
    IsWeightSolution (sortByCount sample).toArray.size (countsOf sample) (edgesOf K sample)
      (specW (countsOf sample) (edgesOf K sample)) :=
  specW_solution _ _ _ (reweight_graph_forward K sample).fwd

/-- **`weights_closed_form`** — `obiclean_weight`, for every sample, every kernel pair, every distance and ratio: the weight
written for the `i`-th sequence of the count-sorted sample is `specW … i`, the value given by the recursive definition
`weight k = count k + Σ_{edges i → k} round(weight i · count k / Σ_{fathers f of i} count f)` (`weight_recursion`) on the
distance-one graph; `specW` solves that system (`IsWeightSolution`). -/
theorem weights_closed_form (K : Kernels) (cfg : Config) (sample : List Node) (outs : List Out)
    (h : cleanSample K cfg sample = .ok outs) (i : Nat) (o : Out) (hi : outs[i]? = some o) :
    o.weight = specW (countsOf sample) (edgesOf K sample) i ∧
    IsWeightSolution (sortByCount sample).toArray.size (countsOf sample) (edgesOf K sample)
      (specW (countsOf sample) (edgesOf K sample)) := by
  refine ⟨?_, specW_isSolution K sample⟩
  obtain ⟨w, hw, hall⟩ := finish_weight cfg (sortByCount sample).toArray _ _ _ _ outs h
  obtain ⟨hlt, hwo⟩ := hall i o hi
  obtain ⟨w', hw', _, hval⟩ := (reweight_graph_forward K sample).reweight_spec (countsOf sample) (countsOf_size sample)
    _ (specW_isSolution K sample)
  have : w = w' := by
    have e : reweight (countsOf sample) (edgesOf K sample) (sonsOfSample K sample) = some w := hw
    have e' : reweight (countsOf sample) (edgesOf K sample) (sonsOfSample K sample) = some w' := hw'
    rw [e] at e'; exact Option.some.inj e'
  rw [hwo, this, hval i hlt]

/-- the same for the whole sample, with the executable table `specWeights` (what `vm_C13` recomputes next to the loop on
every correspondence case: answer `spec-mismatch` if the two differ) -/
theorem weights_closed_form_list (K : Kernels) (cfg : Config) (sample : List Node) (outs : List Out)
    (h : cleanSample K cfg sample = .ok outs) :
    outs.map (·.weight) = specWeights (countsOf sample) (edgesOf K sample) := by
  rw [specWeights_eq]
  have hlen := (finish_edges_weight cfg (sortByCount sample).toArray _ _ _ _ (by simp [edges1]) (by simp [edges2]) outs h).1
  apply List.ext_getElem?
  intro i
  rw [List.getElem?_map, List.getElem?_map]
  by_cases hi : i < outs.length
  · have hi' : i < (countsOf sample).size := by rw [countsOf_size, ← hlen]; exact hi
    rw [List.getElem?_eq_getElem hi, List.getElem?_range hi', Option.map_some, Option.map_some,
      (weights_closed_form K cfg sample outs h i _ (List.getElem?_eq_getElem hi)).1]
  · have hi' : ¬ i < (countsOf sample).size := by rw [countsOf_size, ← hlen]; exact hi
    rw [List.getElem?_eq_none (by omega), List.getElem?_eq_none (by simp; omega)]
    rfl

/-- **`weights_unique`** — the recursive definition has exactly one solution on the graph of a sample, BECAUSE the count
strictly increases along every edge (`count_rank`, i.e. `edge_iff`): any `W` satisfying it is the closed form, hence
the written weights. (Real kernels; for an arbitrary kernel pair the same holds with the row number as rank.) -/
theorem weights_unique (sample : List Node) (W : Nat → Nat)
    (hW : IsWeightSolution (sortByCount sample).toArray.size (countsOf sample) (edgesOf realKernels sample) W) :
    ∀ k, k < (sortByCount sample).toArray.size → W k = specW (countsOf sample) (edgesOf realKernels sample) k :=
  weightSolution_unique _ _ _ (fun i => (countsOf sample).getD i 0)
    (fun i _ f hf => count_rank sample i f hf) W _ hW (specW_isSolution realKernels sample)

/-- **`reweight_order_independent`** — the result of `reweightSequences` does not depend on the order in which the nodes
are visited: fire the rows in ANY order `ks` in which every row is fired once, after all its sons (`FiringOrder`),
until all have fired; the weights are the closed form — the same as those of the loop of the code
(`weights_closed_form`). Any kernel pair, any sample. -/
theorem reweight_order_independent (K : Kernels) (sample : List Node) (ks : List Nat)
    (ho : FiringOrder (sortByCount sample).toArray.size (edgesOf K sample) [] ks)
    (hall : ∀ i, i < (sortByCount sample).toArray.size → i ∈ ks) :
    ∀ j, j < (sortByCount sample).toArray.size →
      (fireAll (countsOf sample) (edgesOf K sample) ks
        { weight := countsOf sample, added := Array.replicate (countsOf sample).size 0 }).weight.getD j 0 =
      specW (countsOf sample) (edgesOf K sample) j :=
  fireAll_weight (specW_isSolution K sample) (countsOf_size sample) ks ho hall

/-- **`reweight_guard_is_firing_order`** — the condition of the Go loop IS that order: a duplicate-free list of rows is a
`FiringOrder` exactly when each row satisfies `SonCount == AddedSons` at the moment it is fired (`GuardedRun`), the
son counters being those `buildSamplePairs` leaves when no increment is lost. (A lost increment breaks exactly this:
`graph_split_schedule_dependent`.) -/
theorem reweight_guard_is_firing_order (K : Kernels) (sample : List Node) (ks : List Nat) (hnd : ks.Nodup)
    (hlt : ∀ k ∈ ks, k < (sortByCount sample).toArray.size) :
    GuardedRun (countsOf sample) (edgesOf K sample) (sonsOfSample K sample)
        { weight := countsOf sample, added := Array.replicate (countsOf sample).size 0 } ks ↔
      FiringOrder (sortByCount sample).toArray.size (edgesOf K sample) [] ks := by
  exact guardedRun_firingOrder (specW_isSolution K sample) (sonsOfSample K sample)
    (reweight_graph_forward K sample).sons_eq ks [] _
    (Fired.init' (countsOf sample) (countsOf_size sample) (edgesOf K sample) _) (by simpa using hnd) hlt

/-- non-vacuity (tests on one sample: hub "acgt" ×9, variants "acga" ×2 and "acgc" ×1, and "acca" ×1 a son of "acga"):
the weights written, the closed form, and two different firing orders (leaves first / depth first) -/
def exW : List Node := [⟨0, 9, [97, 99, 103, 116]⟩, ⟨1, 2, [97, 99, 103, 97]⟩, ⟨2, 1, [97, 99, 103, 99]⟩, ⟨3, 1, [97, 99, 99, 97]⟩]

example :
    (match cleanSample realKernels exCfg exW with | .ok outs => outs.map (·.weight) | .hang => []) = [1, 1, 3, 13] ∧
    (List.range 4).map (specW (countsOf exW) (edgesOf realKernels exW)) = [1, 1, 3, 13] ∧
    FiringOrder 4 (edgesOf realKernels exW) [] [1, 0, 2, 3] ∧ FiringOrder 4 (edgesOf realKernels exW) [] [0, 1, 2, 3] ∧
    ¬ FiringOrder 4 (edgesOf realKernels exW) [] [2, 0, 1, 3] ∧
    (fireAll (countsOf exW) (edgesOf realKernels exW) [1, 0, 2, 3]
      { weight := countsOf exW, added := Array.replicate 4 0 }).weight = #[1, 1, 3, 13] := by
  decide +kernel

/-! ## The edge theorems on the VERBATIM kernels (index-loop transcriptions of `D1Or0` and `FastLCSEGFScoreByte`)

`edge_iff`, `mutation_reproduces_edit` and `edge2_iff` are stated on the structural layers `d1F` / `bandLCS`. The loops
below are the bodies of `linePairs` of `buildSamplePairs` / `extendSimilarityGraph` on the verbatim transcriptions
`d1or0` / `fastLCSEGFScoreByte` (a Go panic = `.error`), with ANY scratch buffer content (`fill`) for the LCS kernel.
With `d1or0_verbatim_refines` and `fastLCS_verbatim_refines` (C09) they never panic and build exactly the rows of the
structural model, so that the three theorems hold of them. -/

/-- collect the edges of one row: `for j := i + 1; j < nseq; j++ { … append … }`, a panic aborts -/
def rowV (f : Nat → Except Err (Option Edge)) : List Nat → Except Err (List Edge)
  | [] => .ok []
  | j :: js =>
    match f j with
    | .error e => .error e
    | .ok r =>
      match rowV f js with
      | .error e => .error e
      | .ok rs => .ok (match r with | some e => e :: rs | none => rs)

theorem rowV_ok (f : Nat → Except Err (Option Edge)) (g : Nat → Option Edge) (h : ∀ j, f j = .ok (g j)) (js : List Nat) :
    rowV f js = .ok (js.filterMap g) := by
  induction js with
  | nil => rfl
  | cons j js ih =>
    simp only [rowV, h j, ih, List.filterMap_cons]
    cases g j <;> rfl

/-- body of the inner loop of `buildSamplePairs.linePairs` on the verbatim `D1Or0` -/
def edgeTo1V (ns : Array Node) (i j : Nat) : Except Err (Option Edge) :=
  match ns[i]?, ns[j]? with
  | some son, some father =>
    if father.count > son.count then
      match d1or0 son.seq father.seq with
      | .error e => .error e
      | .ok d => .ok (if d.verdict > 0 then some ⟨j, d.verdict, d.pos, d.a2, d.a1⟩ else none)
    else .ok none
  | _, _ => .ok none

/-- body of the inner loop of `extendSimilarityGraph.linePairs` on the verbatim kernels:
`d := D1Or0; if d < 0 { lcs, lali := FastLCSScore(son, father, step, matrix); d := lali - lcs;
if lcs >= 0 && d <= step && step > 0 { edge } }` -/
def edgeTo2V (step : Int) (fill : Option UInt64) (ns : Array Node) (i j : Nat) : Except Err (Option Edge) :=
  match ns[i]?, ns[j]? with
  | some son, some father =>
    match d1or0 son.seq father.seq with
    | .error e => .error e
    | .ok d =>
      if d.verdict < 0 then
        match fastLCSEGFScoreByte son.seq father.seq step false fill with
        | .error e => .error e
        | .ok (lcs, lali, _) =>
          .ok (if lcs ≥ 0 ∧ lali - lcs ≤ step ∧ step > 0 then some ⟨j, lali - lcs, -1, 45, 45⟩ else none)
      else .ok none
  | _, _ => .ok none

def rowEdges1V (ns : Array Node) (i : Nat) : Except Err (List Edge) :=
  rowV (edgeTo1V ns i) (List.range' (i + 1) (ns.size - (i + 1)))

def rowEdges2V (step : Int) (fill : Nat → Option UInt64) (ns : Array Node) (prev : List Edge) (i : Nat) :
    Except Err (List Edge) :=
  if prev.isEmpty then rowV (fun j => edgeTo2V step (fill j) ns i j) (List.range' (i + 1) (ns.size - (i + 1)))
  else .ok []

theorem edgeTo1V_refines (ns : Array Node) (i j : Nat) : edgeTo1V ns i j = .ok (edgeTo1 realKernels ns i j) := by
  unfold edgeTo1V edgeTo1
  cases ns[i]? with
  | none => rfl
  | some son =>
    cases ns[j]? with
    | none => rfl
    | some father =>
      simp only [ObiVerif.Props.C09.d1or0_verbatim_refines, realKernels]
      split <;> rfl

theorem edgeTo2V_refines (step : Int) (fill : Option UInt64) (ns : Array Node) (i j : Nat) :
    edgeTo2V step fill ns i j = .ok (edgeTo2 realKernels step ns i j) := by
  unfold edgeTo2V edgeTo2
  cases ns[i]? with
  | none => rfl
  | some son =>
    cases ns[j]? with
    | none => rfl
    | some father =>
      simp only [ObiVerif.Props.C09.d1or0_verbatim_refines, ObiVerif.Props.C09.fastLCS_verbatim_refines, realKernels]
      by_cases hv : (d1F son.seq father.seq).verdict < 0
      · simp only [hv, ↓reduceIte]
        cases hb : bandLCS son.seq father.seq step with
        | none => simp [ObiVerif.Lcs.resOf]
        | some p =>
          obtain ⟨s, l⟩ := p
          have : ((s : Int) ≥ 0) := Int.natCast_nonneg s
          simp only [ObiVerif.Lcs.resOf, this, true_and]
      · simp only [hv, ↓reduceIte]

/-- **`rows_verbatim_refine`** — the rows built with the verbatim kernels: no panic, no fuel exhaustion, and exactly the
rows of the structural model (both phases; any scratch-buffer content at every call of the LCS kernel) -/
theorem rows_verbatim_refine (ns : Array Node) (i : Nat) (step : Int) (fill : Nat → Option UInt64) (prev : List Edge) :
    rowEdges1V ns i = .ok (rowEdges1 realKernels ns i) ∧
    rowEdges2V step fill ns prev i = .ok (rowEdges2 realKernels step ns prev i) := by
  constructor
  · exact rowV_ok _ _ (edgeTo1V_refines ns i) _
  · unfold rowEdges2V rowEdges2
    split
    · exact rowV_ok _ _ (fun j => edgeTo2V_refines step (fill j) ns i j) _
    · rfl

/-- **`edge_iff_verbatim`** — `edge_iff` and `mutation_reproduces_edit` about the row computed with the VERBATIM `D1Or0` -/
theorem edge_iff_verbatim (ns : Array Node) (hs : ns.toList.Pairwise (fun a b => a.count ≤ b.count))
    (i : Nat) (hi : i < ns.size) :
    ∃ row, rowEdges1V ns i = .ok row ∧
      (∀ j (hj : j < ns.size), (∃ e ∈ row, e.father = j) ↔ (ns[j].count > ns[i].count ∧ lev ns[i].seq ns[j].seq = 1)) ∧
      (∀ e ∈ row, ∃ (hj : e.father < ns.size) (n : Nat), e.pos = (n : Int) ∧ e.dist = 1 ∧ i < e.father ∧
        OneEdit ns[i].seq ns[e.father].seq n e.to e.frm) :=
  ⟨_, (rows_verbatim_refine ns i 0 (fun _ => none) []).1, fun j hj => edge_iff ns hs i j hi hj,
    fun e he => mutation_reproduces_edit ns i hi e he⟩

/-- **`edge2_iff_verbatim`** — `edge2_iff` about the row computed with the VERBATIM `D1Or0` and `FastLCSEGFScoreByte`,
whatever the scratch buffer holds at each call -/
theorem edge2_iff_verbatim (ns : Array Node) (d : Nat) (hd : d > 1) (fill : Nat → Option UInt64) (i : Nat) (hi : i < ns.size) :
    ∃ row, rowEdges2V d fill ns [] i = .ok row ∧
      ∀ j (hj : j < ns.size), ns[i].seq.length + ns[j].seq.length + 1 ≤ 30000 →
        ((∃ e ∈ row, e.father = j) ↔ (i < j ∧ 2 ≤ lev ns[i].seq ns[j].seq ∧ lcsDist ns[i].seq ns[j].seq ≤ d)) ∧
        (∀ e ∈ row, e.father = j → e = ⟨j, lcsDist ns[i].seq ns[j].seq, -1, 45, 45⟩) :=
  ⟨_, (rows_verbatim_refine ns i d fill []).2, fun j hj hlen => edge2_iff ns d hd i j hi hj hlen⟩

/-- non-vacuity (tests on one value): the verbatim rows of the two-substitution pair of `edge2_iff`'s example, with a
poisoned scratch buffer, and of `exSample` -/
example : rowEdges2V 2 (fun _ => some 0xdeadbeefdeadbeef)
      #[⟨1, 1, [97, 103, 103, 99, 97]⟩, ⟨0, 4, [97, 99, 103, 116, 97]⟩] [] 0 = .ok [⟨1, 2, -1, 45, 45⟩] ∧
    rowEdges1V (sortByCount exSample).toArray 0 = .ok [⟨2, 1, 3, 116, 97⟩] := by
  rw [(rows_verbatim_refine _ _ _ _ _).2, (rows_verbatim_refine _ 0 0 (fun _ => none) []).1]
  exact ⟨congrArg _ (by decide +kernel), congrArg _ (by decide +kernel)⟩

/-! ## `obiclean_samplecount` -/

/-- **`samplecount_spec`** — for every data set, kernel pair, distance and ratio: `obiclean_samplecount` of record `i` is the
number of samples of the data set in which the record occurs, i.e. the number of sample names `name` for which its
`merged_sample` map has an entry; when the keys of that map are distinct (always, for a Go map) it is the size of
`merged_sample`. So are the lengths of `obiclean_status` and `obiclean_weight`. -/
theorem samplecount_spec (K : Kernels) (cfg : Config) (db : List Rec) (res : List (Nat × List Out))
    (h : runSamples (fun _ s => cleanSample K cfg s) db = some res) (i : Nat) (r : Rec) (hi : db[i]? = some r) :
    (annotateRec res i).sampleCount =
      ((sampleNames db).filter (fun name => r.counts.any (fun kv => kv.1 == name))).length ∧
    (annotateRec res i).status.length = (annotateRec res i).sampleCount ∧
    (annotateRec res i).weight.length = (annotateRec res i).sampleCount ∧
    ((r.counts.map (·.1)).Nodup → (annotateRec res i).sampleCount = r.counts.length) := by
  have hs := (annot_counts_spec res i).2.2.2.1
  have hl : (annotateRec res i).status.length = (mineOf res i).length := by simp [annotateRec]
  have hw : (annotateRec res i).weight.length = (mineOf res i).length := by simp [annotateRec]
  have hm := mineOf_length K cfg db res h i r hi
  refine ⟨by rw [hs, hl, hm], hs.symm, by rw [hw, hs, hl], fun hk => ?_⟩
  rw [hs, hl, hm, samples_of_record_length db i r hi hk]

/-! ## The output order without the "one batch" assumption

`annotateOBIClean` sends the data set through `IBatchOver(source, db, 1000)` and `MakeISliceWorker(annot)`: batches of
1000 records numbered 0, 1, 2, …, which reach the consumer in ANY order once there are several workers; with `--head`
the stream then goes through `FilterOn(IsHead, 1000)` (filter in place, `Rebatch`). The combinators are those of
`Model/Iter.lean` (property C03); a record is its index in the data set. -/

open ObiVerif.Iter in
/-- the batches the iterator returned by `CLIOBIClean` delivers, given the arrival order `arr1` of the annotated batches -/
def cliBatches (onlyHead : Bool) (head : Nat → Bool) (arr1 : List Batch) : List Batch :=
  if onlyHead then filterOn head 1000 arr1 else arr1

theorem filter_map_fst {β : Type} (P : Nat × β → Bool) (Q : Nat → Bool) (l : List (Nat × β))
    (h : ∀ r ∈ l, P r = Q r.1) : (l.filter P).map (·.1) = (l.map (·.1)).filter Q := by
  induction l with
  | nil => rfl
  | cons x xs ih =>
    have hx := h x List.mem_cons_self
    have ih' := ih (fun r hr => h r (List.mem_cons_of_mem _ hr))
    by_cases hq : Q x.1 = true
    · simp [hx, hq, ih']
    · have hq' : Q x.1 = false := by simpa using hq
      simp [hx, hq', ih']

/-- the record numbers `cliOutput` writes -/
theorem cliOutput_indices (onlyHead : Bool) (as : List Annot) :
    (cliOutput onlyHead as).map (·.1) =
      (List.range as.length).filter (fun i => !onlyHead || ((as[i]?.map (·.head)).getD false)) := by
  unfold cliOutput
  have hfull : ((as.zipIdx.map (fun (r : Annot × Nat) => (r.2, r.1))).map (·.1)) = List.range as.length := by
    rw [List.map_map]
    apply List.ext_getElem?
    intro i
    by_cases hi : i < as.length
    · simp [List.getElem?_map, List.getElem?_zipIdx, List.getElem?_eq_getElem hi, List.getElem?_range hi]
    · have h1 : as[i]? = none := List.getElem?_eq_none (by omega)
      have h2 : (List.range as.length)[i]? = none := List.getElem?_eq_none (by simp; omega)
      simp [List.getElem?_map, List.getElem?_zipIdx, h1, h2]
  rw [filter_map_fst _ (fun i => !onlyHead || ((as[i]?.map (·.head)).getD false)), hfull]
  intro r hr
  obtain ⟨⟨a, i⟩, hm, rfl⟩ := List.mem_map.1 hr
  have := List.mem_zipIdx_iff_getElem?.1 hm
  simp only at this
  simp [this]

open ObiVerif.Iter in
/-- **`cli_output_any_size`** — the records written by the `obiclean` command, for a data set of ANY size (no "one batch of at
most 1000 records" assumption): whatever the order `arr1` in which the annotated batches leave `MakeISliceWorker`, and
whatever the order `arr2` in which the batches of the returned iterator reach a consumer that re-sequences them by
their number (`SortBatches`: what the writers do, property C05), the records delivered are exactly those of
`cliOutput` (`cli_head_spec`), in data-set order — all of them without `--head`, those with `obiclean_head` with it. -/
theorem cli_output_any_size (onlyHead : Bool) (as : List Annot) (arr1 arr2 : List Batch)
    (hp1 : arr1.Perm (batchOver 1000 (as.length + 1) (List.range as.length) 0))
    (hp2 : arr2.Perm (cliBatches onlyHead (fun i => (as[i]?.map (·.head)).getD false) arr1)) :
    flatten (sortBatches arr2) = (cliOutput onlyHead as).map (·.1) := by
  have hb := ObiVerif.Props.C03.batchOver_spec 1000 (by decide) (List.range as.length)
  simp only [List.length_range] at hb
  obtain ⟨hnum, hflat, _, _⟩ := hb
  have S1 := ObiVerif.Iter.isStream_of_perm_numbered _ arr1 hnum hp1
  rw [hflat] at S1
  rw [cliOutput_indices]
  cases onlyHead with
  | false =>
    simp only [cliBatches, Bool.false_eq_true, if_false] at hp2
    have S2 := ObiVerif.Iter.isStream_of_perm_numbered _ arr2 hnum (hp2.trans hp1)
    rw [hflat] at S2
    rw [S2.sort.2.2]
    exact (List.filter_eq_self.2 (fun _ _ => rfl)).symm
  | true =>
    simp only [cliBatches, if_true] at hp2
    have C := S1.filterOn (fun i => (as[i]?.map (·.head)).getD false) 1000 (by decide)
    rw [(C.isStream_of_perm hp2).sort.2.2]
    simp

open ObiVerif.Iter in
/-- non-vacuity (test on one value; batches of 1000: 2300 records make 3 batches, here arriving as 2, 0, 1) -/
example : (batchOver 1000 2301 (List.range 2300) 0).map (fun b => (b.1, b.2.length)) = [(0, 1000), (1, 1000), (2, 300)] := by
  decide +kernel

end ObiVerif.Props.C13
