import ObiVerif.Lemmas.DemuxMirror
import ObiVerif.Lemmas.DemuxSym
/-!
# C12 — what a selected pair of hits yields is strand-symmetric for ARBITRARY flanks (chimeras)
-/
set_option Elab.async false

namespace ObiVerif.Props.C12

open ObiVerif.SeqOps (Bytes rc)
open ObiVerif.Demux

/-- **Strand symmetry of the yield of a pair, arbitrary chimeras** (fixed-length or absent tags on both sides
of the marker; any spacers).  Any read and any pair of in-range hits `f.begin < f.end < m.begin < m.end` is
`A ++ P1 ++ BC ++ P2 ++ B` with the hits at `P1`, `P2`; the flanks `A` and `B` are ARBITRARY — other amplicons of
a chimera, lone priming sites, a tag window that reaches into the neighbouring amplicon, a flank too short for the
tag.  The pair yields the amplicon `yieldOf …` (barcode `BC` oriented forward → reverse, the two primer matches,
the error counts, the tags read `spacer` bytes away from the primers in `A` and `rc B`, the identification), and
the reverse-complemented read with the mirrored hits yields THE SAME amplicon with the direction flipped and the
coordinates mirrored.  Together with `symmetric_class` (the machine selects the mirrored pairs) this is strand
symmetry of whole chimeric reads for fixed-length tags.  Outside the class: delimited tags with a spacer > 0
(`delimited_window_asymmetry`: the two windows have different widths — exact counterexample); rescue tags are
proved on built reads only (`strand_symmetry_rescue`). -/
theorem pair_yield_strand_symmetric (markers : List Marker) (mk : Marker) (i : Nat) (hi : 0 < i)
    (hmk : markers[i - 1]? = some mk) (hF : FixedSide mk.fside) (hR : FixedSide mk.rside)
    (fw : Bool) (e1 e2 : Int) (A P1 BC P2 B : Bytes) (h1 : 0 < P1.length) (hb : 0 < BC.length) (h2 : 0 < P2.length)
    (halpha : ∀ b ∈ A ++ P1 ++ BC ++ P2 ++ B, b ∈ alphabet) :
    let seq := A ++ P1 ++ BC ++ P2 ++ B
    let L : Int := seq.length
    let f : PrimerMatch := ⟨A.length, (A.length : Int) + P1.length, e1, i, fw⟩
    let m : PrimerMatch := ⟨(A.length : Int) + P1.length + BC.length, (A.length : Int) + P1.length + BC.length + P2.length, e2, -(i : Int), fw⟩
    emit markers (rc seq) (mirrorMatch L m) (mirrorMatch L f) =
      .ok (some (mirrorAmplicon L (yieldOf mk i fw e1 e2 A P1 BC P2 B))) ∧
    emit markers seq f m = .ok (some (yieldOf mk i fw e1 e2 A P1 BC P2 B)) :=
  emit_mirror markers mk i hi hmk hF hR fw e1 e2 A P1 BC P2 B h1 hb h2 halpha

/-- the amplicon of a pair does not depend on what lies beyond the tag positions in the flanks: two reads that
agree on `P1 BC P2` and on the two fixed tag windows give the same amplicon (up to its coordinates) — the neighbours
of a chimera cannot leak into an amplicon -/
theorem pair_yield_depends_on_tag_windows_only (mk : Marker) (i : Nat) (fw : Bool) (e1 e2 : Int)
    (A A' P1 BC P2 B B' : Bytes) (hA : A.length = A'.length)
    (h1 : flankTag mk.fside A = flankTag mk.fside A') (h2 : flankTag mk.rside A = flankTag mk.rside A')
    (h3 : flankTag mk.fside (rc B) = flankTag mk.fside (rc B')) (h4 : flankTag mk.rside (rc B) = flankTag mk.rside (rc B')) :
    yieldOf mk i fw e1 e2 A P1 BC P2 B = yieldOf mk i fw e1 e2 A' P1 BC P2 B' := by
  unfold yieldOf
  simp only [h1, h2, h3, h4, hA]

/-- the hypotheses are satisfiable: a marker with a 2-base forward tag one base away from the primer and no
reverse tag; test of `flankTag` on a flank that holds the tag and on one that is too short -/
example : FixedSide ⟨2, 1, 0, 0⟩ ∧ FixedSide ⟨0, 0, 0, 0⟩ ∧
    flankTag ⟨2, 1, 0, 0⟩ [103, 97, 99, 116] = [97, 99] ∧ flankTag ⟨2, 1, 0, 0⟩ [97, 99] = [] := by
  refine ⟨Or.inr ⟨rfl, by decide, by decide⟩, Or.inl rfl, by decide, by decide⟩

/-! ## the gating finding: would scanning the complemented primer "when the direct one misses" be enough? -/

/-- NO: the gating has two parts — the complemented partner is searched (1) only if the primer hits and (2) only
after its first hit.  Part (2) alone breaks strand symmetry on a read in which BOTH direct primers hit, so a fix
limited to the reads where a direct primer misses leaves this asymmetry (and costs the same fourth scan on every
ordinary read, whose reverse primer misses).  Hits of one marker in a read of 100 bases: R@5 CR@12 CF@30 F@50.
On the read the CR hit at 12 lies before the first F hit and is dropped: R@5 … CF@30 comes out as an amplicon.
On the reverse complement the mirrored F hit (a CF hit at 45) lies before the first R hit and is dropped, the
mirrored CR hit is kept and separates the pair: nothing.  Without any gating both strands give nothing
(`symmetric_iff_ungated`: symmetric iff the gating drops NOTHING on either strand). -/
theorem positional_gating_breaks_symmetry :
    let all : Hits := ⟨[(50, 55, 0)], [(12, 17, 0)], [(5, 10, 0)], [(30, 35, 0)]⟩
    ((gate all).cr = [] ∧ (gate all).cf = [(30, 35, 0)]) ∧
    ((mirrorHits 100 all).f = [(65, 70, 0)] ∧ (mirrorHits 100 all).r = [(83, 88, 0)] ∧
      (gate (mirrorHits 100 all)).cr = [(90, 95, 0)] ∧ (gate (mirrorHits 100 all)).cf = []) ∧
    (adjPairs (sortByBegin (collect [gate all] 1))).length = 1 ∧
    adjPairs (sortByBegin (collect [gate (mirrorHits 100 all)] 1)) = [] ∧
    adjPairs (sortByBegin (collect [all] 1)) = [] ∧
    adjPairs (sortByBegin (collect [mirrorHits 100 all] 1)) = [] := by
  decide

end ObiVerif.Props.C12
