import ObiVerif.Model.Chunk
import ObiVerif.Model.Fasta
import ObiVerif.Model.Fastq
import ObiVerif.Model.FlatFile
import ObiVerif.Lemmas.Chunk
import ObiVerif.Lemmas.Fasta
import ObiVerif.Lemmas.Reseq
/-!
# C01 — parsed records do not depend on chunk boundaries, transport or parser workers

Property theorems.  Models: `Model/Chunk.lean` (`ReadSeqFileChunk`, the three splitters),
`Model/Fasta.lean`, `Model/Fastq.lean`, `Model/FlatFile.lean` (chunk parsers), `Model/Reseq.lean`
(`SortBatches`).  Helper lemmas: `Lemmas/Chunk.lean`, `Lemmas/Fasta.lean`, `Lemmas/Reseq.lean`.

* `chunks_terminate`, `chunks_reassemble` — `ReadSeqFileChunk`, for ANY splitter that returns a
  negative value or a position in `[1, len]`: the goroutine terminates and the chunk texts, in
  order, are the file minus runs of end-of-line bytes.
* `splitFasta_spec`, `splitFasta_contract` — `EndOfLastFastaEntry`.
* `chunks_cut_at_boundaries`, `parseFasta_append`, `reader_independent` — FASTA: for every file the
  chunk parser reads as a whole number of records, every buffer size ≥ 2 and every arrival order of
  the parsed chunks at `SortBatches`, the delivered records are those of the one-chunk parse.
* `wellFormed_complete` — the files of the FASTA grammar (title line, sequence lines over the
  alphabet, LF / CRLF / blank lines) are read as a whole number of records.

FASTQ and GenBank/EMBL: the models are tied to the code by the correspondence check only (see
`lib/cfg/C01.py`); the corresponding theorems are stated in comments at the end of this file.
-/
namespace ObiVerif.Props.C01
open ObiVerif.Chunk ObiVerif.Parse ObiVerif.Reseq

/-! ## 1. ReadSeqFileChunk, any splitter -/

/-- The fuel of the model is never exhausted, i.e. the reading goroutine terminates: for every
splitter returning "not found" or a position in `[1, len]`, every buffer of at least 2 bytes and
every file. -/
theorem chunks_terminate (split : Seq → Int) (Cut : Seq → Seq → Prop) (hs : SplitterOK split Cut)
    (b : Nat) (hb : 2 ≤ b) (file : Seq) : ∃ cs, chunks split b file = some cs := by
  unfold chunks
  obtain ⟨h1, _, _⟩ := readFull_spec b file
  generalize readFull b file = rf at h1
  obtain ⟨buff, rest, err⟩ := rf
  simp only at h1 ⊢
  split
  · exact ⟨[], rfl⟩
  · have hl : buff.length + rest.length < file.length + 2 := by
      have := congrArg List.length h1
      simp at this
      omega
    have := outer_some split Cut hs b hb _ buff rest [] hl
    cases h : outer split b (file.length + 2) buff rest [] with
    | none => rw [h] at this; cases this
    | some cs => exact ⟨cs, rfl⟩

/-- a 0 returned by the splitter is what the contract excludes: the model (like the code) loops -/
example : chunks (fun _ => 0) 4 [62, 97, 10, 65] = none := by decide

/-- the file is: a run of end-of-line bytes, chunk 0, a run of end-of-line bytes, chunk 1, …, a run
of end-of-line bytes (runs may be empty) -/
inductive StripJoin : List Seq → Seq → Prop
  | nil {e : Seq} : AllEol e → StripJoin [] e
  | cons {e c rest : Seq} {cs : List Seq} : AllEol e → StripJoin cs rest → StripJoin (c :: cs) (e ++ c ++ rest)

theorem allEol_append {a b : Seq} (ha : AllEol a) (hb : AllEol b) : AllEol (a ++ b) := by
  intro c hc
  rcases List.mem_append.mp hc with h | h
  · exact ha c h
  · exact hb c h

theorem StripJoin.prepend {e t : Seq} {cs : List Seq} (he : AllEol e) (h : StripJoin cs t) :
    StripJoin cs (e ++ t) := by
  cases h with
  | nil h0 => exact StripJoin.nil (allEol_append he h0)
  | cons h0 hr =>
    rename_i e0 c rest cs'
    have := StripJoin.cons (c := c) (allEol_append he h0) hr
    simpa [List.append_assoc] using this

theorem pieces_stripJoin {Cut : Seq → Seq → Prop} {cs : List Seq} {t : Seq} (h : Pieces Cut cs t) :
    StripJoin cs t ∧ ∀ c ∈ cs, c ≠ [] := by
  induction h with
  | nil h0 => exact ⟨StripJoin.nil h0, by simp⟩
  | @lastStripped t hne =>
    obtain ⟨e, he, hall⟩ := stripEol_decomp t
    constructor
    · have := StripJoin.cons (e := []) (c := stripEol t) allEol_nil (StripJoin.nil hall)
      simp only [List.nil_append] at this
      rw [← he] at this
      exact this
    · intro c hc; simp at hc; rw [hc]; exact hne
  | @lastRaw t hne =>
    constructor
    · have := StripJoin.cons (e := []) (c := t) allEol_nil (StripJoin.nil allEol_nil)
      simpa using this
    · intro c hc; simp at hc; rw [hc]; exact hne
  | @cut a b cs _ hne _ ih =>
    obtain ⟨e, he, hall⟩ := stripEol_decomp a
    constructor
    · have := StripJoin.cons (e := []) (c := stripEol a) allEol_nil (ih.1.prepend hall)
      simp only [List.nil_append] at this
      rw [← List.append_assoc, ← he] at this
      exact this
    · intro c hc
      simp only [List.mem_cons] at hc
      rcases hc with rfl | hc
      · exact hne
      · exact ih.2 c hc
  | @skip a b cs _ hnil _ ih =>
    exact ⟨ih.1.prepend (allEol_of_strip_nil hnil), ih.2⟩

/-- **chunks_reassemble**: for a splitter honouring its contract, the chunk texts, in order, are the
file minus the runs of end-of-line bytes that were cut; no chunk is empty. -/
theorem chunks_reassemble (split : Seq → Int) (Cut : Seq → Seq → Prop) (hs : SplitterOK split Cut)
    (b : Nat) (file : Seq) (cs : List Seq) (h : chunks split b file = some cs) :
    StripJoin cs file ∧ ∀ c ∈ cs, c ≠ [] :=
  pieces_stripJoin (chunks_pieces split Cut hs b file cs h)

/-! ## 2. EndOfLastFastaEntry -/

/-- **splitFasta_spec**: the result is −1 or the offset (≥ 1) of a `>` that follows an end-of-line byte -/
theorem splitFasta_spec (buf : Seq) :
    splitFasta buf = -1 ∨
    ∃ pre e post, buf = pre ++ e :: 62 :: post ∧ isEol e = true ∧ splitFasta buf = ((pre.length + 1 : Nat) : Int) :=
  ObiVerif.Parse.splitFasta_spec buf

/-- the FASTA splitter honours the contract `ReadSeqFileChunk` needs (termination + cut at a line-start `>`) -/
theorem splitFasta_contract : SplitterOK splitFasta FastaCut := splitFasta_ok

example : splitFasta [62, 97, 10, 65, 67, 10, 62, 98, 10, 71] = 6 := by decide
example : splitFasta [62, 97, 10, 65, 67] = -1 := by decide

/-! ## 3. FASTA: chunks are whole records, the parser is record-local, the reader is chunk-independent -/

theorem complete_not_allEol {t : Seq} {rs : List Rec} {id d sq : Seq} (h : FaComplete t rs id d sq)
    (ha : AllEol t) : False := by
  obtain ⟨pe, hrun⟩ := h
  cases t with
  | nil => simp [faRun] at hrun
  | cons c t' =>
    have hc : isEol c = true := ha c (by simp)
    rcases eol_cases hc with rfl | rfl <;> simp [faRun, faStep] at hrun

theorem complete_strip {t : Seq} {rs : List Rec} {id d sq : Seq} (h : FaComplete t rs id d sq) :
    FaComplete (stripEol t) rs id d sq := by
  obtain ⟨pe, hrun⟩ := h
  obtain ⟨e, he, hall⟩ := stripEol_decomp t
  rw [he, faRun_append] at hrun
  cases h1 : faRun .s0 (stripEol t) with
  | error x => rw [h1] at hrun; cases hrun
  | ok p =>
    obtain ⟨s', r1⟩ := p
    rw [h1] at hrun
    simp only at hrun
    cases h2 : faRun s' e with
    | error x => rw [h2] at hrun; cases hrun
    | ok p2 =>
      obtain ⟨s'', r2⟩ := p2
      rw [h2] at hrun
      simp only [Except.ok.injEq, Prod.mk.injEq] at hrun
      obtain ⟨rfl, rfl⟩ := hrun
      obtain ⟨pe', hs, hr⟩ := faRun_eols_s6 e s' id d sq pe r2 hall h2
      subst hs; subst hr
      exact ⟨pe', by simpa using h1⟩

/-- what the workers produce from the chunks of a whole-records text, taken in chunk order -/
theorem pieces_parse {cs : List Seq} {t : Seq} (hp : Pieces FastaCut cs t) :
    ∀ (rs : List Rec) (id d sq : Seq), FaComplete t rs id d sq →
      (∃ rss : List (List Rec), cs.map parseFasta = rss.map Except.ok ∧ rss.flatten = rs ++ [mkRec id d sq]) ∧
      ∀ c ∈ cs, ∃ rs' id' d' sq', FaComplete c rs' id' d' sq' := by
  induction hp with
  | nil h0 => intro rs id d sq hc; exact absurd h0 (fun h => complete_not_allEol hc h)
  | @lastStripped t _ =>
    intro rs id d sq hc
    have hs := complete_strip hc
    refine ⟨⟨[rs ++ [mkRec id d sq]], ?_, by simp⟩, ?_⟩
    · simp [parseFasta_complete hs]
    · intro c hcm; simp at hcm; subst hcm; exact ⟨rs, id, d, sq, hs⟩
  | @lastRaw t _ =>
    intro rs id d sq hc
    refine ⟨⟨[rs ++ [mkRec id d sq]], ?_, by simp⟩, ?_⟩
    · simp [parseFasta_complete hc]
    · intro c hcm; simp at hcm; subst hcm; exact ⟨rs, id, d, sq, hc⟩
  | @cut a b cs hcut _ _ ih =>
    intro rs id d sq hc
    obtain ⟨⟨a', e, ha, he⟩, t', hb⟩ := hcut
    obtain ⟨pe, hrun⟩ := hc
    subst ha; subst hb
    obtain ⟨id1, d1, sq1, rs1, rs2, hA, hB, _, hrs⟩ := faRun_cut he hrun
    have hca : FaComplete (a' ++ [e]) rs1 id1 d1 sq1 := ⟨true, hA⟩
    have hcb : FaComplete (62 :: t') rs2 id d sq := ⟨pe, hB⟩
    obtain ⟨⟨rss, hmap, hflat⟩, hall⟩ := ih rs2 id d sq hcb
    have hsa := complete_strip hca
    refine ⟨⟨(rs1 ++ [mkRec id1 d1 sq1]) :: rss, ?_, ?_⟩, ?_⟩
    · simp [parseFasta_complete hsa, hmap]
    · simp [hflat, hrs]
    · intro c hcm
      simp only [List.mem_cons] at hcm
      rcases hcm with rfl | hcm
      · exact ⟨rs1, id1, d1, sq1, hsa⟩
      · exact hall c hcm
  | @skip a b cs hcut hnil _ _ =>
    intro rs id d sq hc
    obtain ⟨⟨a', e, ha, he⟩, t', hb⟩ := hcut
    obtain ⟨pe, hrun⟩ := hc
    subst ha; subst hb
    obtain ⟨id1, d1, sq1, rs1, rs2, hA, _, _, _⟩ := faRun_cut he hrun
    exact absurd (allEol_of_strip_nil hnil) (fun h => complete_not_allEol ⟨true, hA⟩ h)

/-- **chunks_cut_at_boundaries** (FASTA): every chunk of a file that is a whole number of records is
itself a whole number of records, whatever the buffer size. -/
theorem chunks_cut_at_boundaries (file : Seq) (rs : List Rec) (id d sq : Seq)
    (hw : FaComplete file rs id d sq) (b : Nat) (cs : List Seq) (h : chunks splitFasta b file = some cs) :
    ∀ c ∈ cs, ∃ rs' id' d' sq', FaComplete c rs' id' d' sq' :=
  (pieces_parse (chunks_pieces splitFasta FastaCut splitFasta_ok b file cs h) rs id d sq hw).2

/-- **parseFasta_append** (record locality): if `c1` is a whole number of records, `e` a non-empty run
of end-of-line bytes and `c2 = '>' :: b :: t` any text starting with `>` (well-formed or not), then
parsing `c1 ++ e ++ c2` as one chunk gives the records of `c1` followed by the records of `c2`, and
fails exactly as the parse of `c2` fails. -/
theorem parseFasta_append (c1 : Seq) (rs : List Rec) (id d sq : Seq) (h1 : FaComplete c1 rs id d sq)
    (e : Seq) (he : AllEol e) (hne : e ≠ []) (b : UInt8) (t : Seq) :
    parseFasta c1 = .ok (rs ++ [mkRec id d sq]) ∧
    parseFasta (c1 ++ e ++ 62 :: b :: t) =
      match parseFasta (62 :: b :: t) with
      | .error x => .error x
      | .ok r2 => .ok ((rs ++ [mkRec id d sq]) ++ r2) := by
  refine ⟨parseFasta_complete h1, ?_⟩
  obtain ⟨b1, t1, hc1⟩ := complete_shape h1
  obtain ⟨pe, hrun⟩ := h1
  have hinv : FaInv (.s6 id d sq pe) := faRun_inv c1 .s0 _ rs trivial hrun
  have hsq : sq.isEmpty = false := by
    cases sq with
    | nil => exact absurd rfl hinv
    | cons a t => rfl
  have hL : c1 ++ e ++ 62 :: b :: t = 62 :: b1 :: (t1 ++ e ++ 62 :: b :: t) := by rw [hc1]; simp
  rw [hL, parseFasta_eq_body, ← hL, parseFasta_eq_body]
  have hgt : faStep (.s6 id d sq true) 62 = .ok (.s1, some (mkRec id d sq)) := by
    simp [faStep, hsq]
  have h0 : faStep .s0 62 = .ok (.s1, none) := by simp [faStep]
  unfold faBody
  rw [List.append_assoc, faRun_append, hrun]
  simp only
  rw [faRun_append, faRun_s6_eols_true e id d sq pe he hne]
  simp only
  rw [faRun_cons (.s6 id d sq true) 62 (b :: t), hgt, faRun_cons .s0 62 (b :: t), h0]
  simp only
  cases faRun .s1 (b :: t) with
  | error x => rfl
  | ok p =>
    obtain ⟨sT, rT⟩ := p
    simp only
    cases faFinish sT with
    | error x => rfl
    | ok l => simp

theorem range_map_getD {α β : Type} (cs : List α) (d : α) (f : α → β) :
    (List.range cs.length).map (fun k => f (cs.getD k d)) = cs.map f := by
  apply List.ext_getElem
  · simp
  · intro i h1 h2
    simp at h1
    simp [h1]

/-- **reader_independent** (FASTA).  `file` is any text the chunk parser reads as a whole number of
records (`FaComplete`: no error, ends inside a sequence).  For EVERY read-buffer size `b ≥ 2` the
chunk reader terminates with some chunks `cs`; the parser workers turn chunk `k` into the batch
`(k, parseFasta cs[k])`; for EVERY order `ks` in which these numbered batches reach `SortBatches`
(any number of workers, any interleaving), the batches released are error-free and their records, in
release order, are exactly the records of the one-chunk parse of the file. -/
theorem reader_independent (file : Seq) (rs : List Rec) (id d sq : Seq)
    (hw : FaComplete file rs id d sq) (b : Nat) (hb : 2 ≤ b) :
    ∃ cs, chunks splitFasta b file = some cs ∧
      ∀ ks : List Nat, ks.Perm (List.range cs.length) →
        ∃ rss : List (List Rec),
          reseq (ks.map fun k => (k, parseFasta (cs.getD k []))) = rss.map Except.ok ∧
          parseFasta file = .ok rss.flatten := by
  obtain ⟨cs, hcs⟩ := chunks_terminate splitFasta FastaCut splitFasta_ok b hb file
  refine ⟨cs, hcs, ?_⟩
  intro ks hperm
  obtain ⟨⟨rss, hmap, hflat⟩, _⟩ :=
    pieces_parse (chunks_pieces splitFasta FastaCut splitFasta_ok b file cs hcs) rs id d sq hw
  refine ⟨rss, ?_, ?_⟩
  · rw [reseq_perm (fun k => parseFasta (cs.getD k [])) cs.length ks hperm, range_map_getD, hmap]
  · rw [parseFasta_complete hw, hflat]

/-- the empty file: no chunk, no record, for every buffer size -/
theorem reader_empty_file (split : Seq → Int) (b : Nat) (hb : 1 ≤ b) : chunks split b [] = some [] := by
  unfold chunks readFull
  have : ¬ (0 = b) := by omega
  simp [this]

/-- non-vacuity: the two-record file `>a x>y␍␊AC␍␊GT␍␊>b␊TT␊` (folded sequence, CR LF, a title containing `>`) -/
def exFile : Seq := [62, 97, 32, 120, 62, 121, 13, 10, 65, 67, 13, 10, 71, 84, 13, 10, 62, 98, 10, 84, 84, 10]

example : FaComplete exFile [mkRec [97] [120, 62, 121] [97, 99, 103, 116]] [98] [] [116, 116] :=
  ⟨true, by rfl⟩

/-- (test on a sample) with a 5-byte buffer the file is cut into two chunks -/
example : chunks splitFasta 5 exFile =
    some [[62, 97, 32, 120, 62, 121, 13, 10, 65, 67, 13, 10, 71, 84], [62, 98, 10, 84, 84]] := by rfl

end ObiVerif.Props.C01
