import ObiVerif.Model.Chunk
import ObiVerif.Model.Fasta
import ObiVerif.Model.Fastq
import ObiVerif.Model.FlatFile
import ObiVerif.Lemmas.Chunk
import ObiVerif.Lemmas.Fasta
import ObiVerif.Lemmas.Reseq
import ObiVerif.Lemmas.Splitters
import ObiVerif.Lemmas.FastaGrammar
import ObiVerif.Lemmas.Embl
import ObiVerif.Lemmas.FlatSplit
import ObiVerif.Lemmas.FastqSplit
import ObiVerif.Lemmas.FastqGrammar
import ObiVerif.Lemmas.Genbank
import ObiVerif.Lemmas.ScanMax
import ObiVerif.Lemmas.FastaContent
import ObiVerif.Lemmas.FastqContent
/-!
# C01 — parsed records do not depend on chunk boundaries, transport or parser workers

Property theorems.  Models: `Model/Chunk.lean` (`ReadSeqFileChunk`, the three splitters),
`Model/Fasta.lean`, `Model/Fastq.lean`, `Model/FlatFile.lean` (chunk parsers), `Model/Reseq.lean`
(`SortBatches`).  Helper lemmas: `Lemmas/Chunk.lean`, `Lemmas/Fasta.lean`, `Lemmas/Reseq.lean`,
`Lemmas/FastqSplit.lean`, `Lemmas/FastqGrammar.lean`, `Lemmas/Genbank.lean`, ….

* `chunks_terminate`, `chunks_reassemble` — `ReadSeqFileChunk`, for ANY splitter that returns a
  negative value or a position in `[1, len]`: the goroutine terminates and the chunk texts, in
  order, are the file minus runs of end-of-line bytes.
* `splitFasta_spec`, `splitFasta_contract` — `EndOfLastFastaEntry`.
* `chunks_cut_at_boundaries`, `parseFasta_append`, `reader_independent` — FASTA: for every file the
  chunk parser reads as a whole number of records, every buffer size ≥ 2 and every arrival order of
  the parsed chunks at `SortBatches`, the delivered records are those of the one-chunk parse.
* `wellFormed_complete` — the files of the FASTA grammar (title line, sequence lines over the
  alphabet, LF / CRLF / blank lines) are read as a whole number of records.

* `splitFastq_pattern`, `splitFastq_is_record_start`, `parseFastq_append`,
  `reader_independent_fastq`, `wellFormedFastq_complete`, `reader_independent_fastq_wellFormed` — FASTQ:
  the same chain; a cut of `EndOfLastFastqEntry` in a prefix of a text the parser reads without error
  is a record start, never the `@` of a quality line.
* `parseEmbl_append`, `parseGenbank_append`, `reader_independent_embl`, `reader_independent_genbank`,
  `reader_independent_flat` — flat files: record locality after a `//` line and the composed reader
  for files whose lines end with `\n` or `\r\n` (`regularEol`; counterexamples without it).
-/
namespace ObiVerif.Props.C01
open ObiVerif.Chunk ObiVerif.Parse ObiVerif.Reseq

/-! ## 1. ReadSeqFileChunk, any splitter -/

/-- The fuel of the model is never exhausted, i.e. the reading goroutine terminates: for every
splitter returning "not found" or a position in `[1, len]`, every buffer of at least 2 bytes and
every file. -/
theorem chunks_terminate (split : Seq → Int) (Cut : Seq → Seq → Prop) (hs : SplitterOK split Cut)
    (b : Nat) (hb : 2 ≤ b) (file : Seq) : ∃ cs, chunks split b file = some cs := by
  unfold chunks
  obtain ⟨h1, _, _⟩ := readFull_spec b file
  generalize readFull b file = rf at h1
  obtain ⟨buff, rest, err⟩ := rf
  simp only at h1 ⊢
  split
  · exact ⟨[], rfl⟩
  · have hl : buff.length + rest.length < file.length + 2 := by
      have := congrArg List.length h1
      simp at this
      omega
    have := outer_some split Cut hs b hb _ buff rest [] hl
    cases h : outer split b (file.length + 2) buff rest [] with
    | none => rw [h] at this; cases this
    | some cs => exact ⟨cs, rfl⟩

/-- a 0 returned by the splitter is what the contract excludes: the model (like the code) loops -/
example : chunks (fun _ => 0) 4 [62, 97, 10, 65] = none := by decide

/-- **chunks_reassemble**: for a splitter honouring its contract, the chunk texts, in order, are the
file minus the runs of end-of-line bytes that were cut; no chunk is empty. -/
theorem chunks_reassemble (split : Seq → Int) (Cut : Seq → Seq → Prop) (hs : SplitterOK split Cut)
    (b : Nat) (file : Seq) (cs : List Seq) (h : chunks split b file = some cs) :
    StripJoin cs file ∧ ∀ c ∈ cs, c ≠ [] :=
  pieces_stripJoin (chunks_pieces split Cut hs b file cs h)

/-! ## 2. EndOfLastFastaEntry -/

/-- **splitFasta_spec**: the result is −1 or the offset (≥ 1) of a `>` that follows an end-of-line byte -/
theorem splitFasta_spec (buf : Seq) :
    splitFasta buf = -1 ∨
    ∃ pre e post, buf = pre ++ e :: 62 :: post ∧ isEol e = true ∧ splitFasta buf = ((pre.length + 1 : Nat) : Int) :=
  ObiVerif.Parse.splitFasta_spec buf

/-- the FASTA splitter honours the contract `ReadSeqFileChunk` needs (termination + cut at a line-start `>`) -/
theorem splitFasta_contract : SplitterOK splitFasta FastaCut := splitFasta_ok

example : splitFasta [62, 97, 10, 65, 67, 10, 62, 98, 10, 71] = 6 := by decide
example : splitFasta [62, 97, 10, 65, 67] = -1 := by decide

/-! ## 3. FASTA: chunks are whole records, the parser is record-local, the reader is chunk-independent -/

/-- **chunks_cut_at_boundaries** (FASTA): every chunk of a file that is a whole number of records is
itself a whole number of records, whatever the buffer size. -/
theorem chunks_cut_at_boundaries (file : Seq) (rs : List Rec) (id d sq : Seq)
    (hw : FaComplete file rs id d sq) (b : Nat) (cs : List Seq) (h : chunks splitFasta b file = some cs) :
    ∀ c ∈ cs, ∃ rs' id' d' sq', FaComplete c rs' id' d' sq' :=
  (pieces_parse (chunks_pieces splitFasta FastaCut splitFasta_ok b file cs h) rs id d sq hw).2

/-- **parseFasta_append** (record locality): if `c1` is a whole number of records, `e` a non-empty run
of end-of-line bytes and `c2 = '>' :: b :: t` any text starting with `>` (well-formed or not), then
parsing `c1 ++ e ++ c2` as one chunk gives the records of `c1` followed by the records of `c2`, and
fails exactly as the parse of `c2` fails. -/
theorem parseFasta_append (c1 : Seq) (rs : List Rec) (id d sq : Seq) (h1 : FaComplete c1 rs id d sq)
    (e : Seq) (he : AllEol e) (hne : e ≠ []) (b : UInt8) (t : Seq) :
    parseFasta c1 = .ok (rs ++ [mkRec id d sq]) ∧
    parseFasta (c1 ++ e ++ 62 :: b :: t) =
      match parseFasta (62 :: b :: t) with
      | .error x => .error x
      | .ok r2 => .ok ((rs ++ [mkRec id d sq]) ++ r2) := by
  refine ⟨parseFasta_complete h1, ?_⟩
  obtain ⟨b1, t1, hc1⟩ := complete_shape h1
  obtain ⟨pe, hrun⟩ := h1
  have hinv : FaInv (.s6 id d sq pe) := faRun_inv c1 .s0 _ rs trivial hrun
  have hsq : sq.isEmpty = false := by
    cases sq with
    | nil => exact absurd rfl hinv
    | cons a t => rfl
  have hL : c1 ++ e ++ 62 :: b :: t = 62 :: b1 :: (t1 ++ e ++ 62 :: b :: t) := by rw [hc1]; simp
  rw [hL, parseFasta_eq_body, ← hL, parseFasta_eq_body]
  have hgt : faStep (.s6 id d sq true) 62 = .ok (.s1, some (mkRec id d sq)) := by
    simp [faStep, hsq]
  have h0 : faStep .s0 62 = .ok (.s1, none) := by simp [faStep]
  unfold faBody
  rw [List.append_assoc, faRun_append, hrun]
  simp only
  rw [faRun_append, faRun_s6_eols_true e id d sq pe he hne]
  simp only
  rw [faRun_cons (.s6 id d sq true) 62 (b :: t), hgt, faRun_cons .s0 62 (b :: t), h0]
  simp only
  cases faRun .s1 (b :: t) with
  | error x => rfl
  | ok p =>
    obtain ⟨sT, rT⟩ := p
    simp only
    cases faFinish sT with
    | error x => rfl
    | ok l => simp

/-- **reader_independent** (FASTA).  `file` is any text the chunk parser reads as a whole number of
records (`FaComplete`: no error, ends inside a sequence).  For EVERY read-buffer size `b ≥ 2` the
chunk reader terminates with some chunks `cs`; the parser workers turn chunk `k` into the batch
`(k, parseFasta cs[k])`; for EVERY order `ks` in which these numbered batches reach `SortBatches`
(any number of workers, any interleaving), the batches released are error-free and their records, in
release order, are exactly the records of the one-chunk parse of the file. -/
theorem reader_independent (file : Seq) (rs : List Rec) (id d sq : Seq)
    (hw : FaComplete file rs id d sq) (b : Nat) (hb : 2 ≤ b) :
    ∃ cs, chunks splitFasta b file = some cs ∧
      ∀ ks : List Nat, ks.Perm (List.range cs.length) →
        ∃ rss : List (List Rec),
          reseq (ks.map fun k => (k, parseFasta (cs.getD k []))) = rss.map Except.ok ∧
          parseFasta file = .ok rss.flatten := by
  obtain ⟨cs, hcs⟩ := chunks_terminate splitFasta FastaCut splitFasta_ok b hb file
  refine ⟨cs, hcs, ?_⟩
  intro ks hperm
  obtain ⟨⟨rss, hmap, hflat⟩, _⟩ :=
    pieces_parse (chunks_pieces splitFasta FastaCut splitFasta_ok b file cs hcs) rs id d sq hw
  refine ⟨rss, ?_, ?_⟩
  · rw [reseq_perm (fun k => parseFasta (cs.getD k [])) cs.length ks hperm, range_map_getD, hmap]
  · rw [parseFasta_complete hw, hflat]

/-- **wellFormed_complete**: every file of the FASTA grammar `WellFormedFasta` (Lemmas/FastaGrammar.lean:
title lines starting with a non-blank byte and containing anything but `\n`/`\r` — also `>`, `@`,
`+` —, sequences over the alphabet folded over any number of lines, LF / CR LF / blank lines as
separators, optional trailing end-of-line bytes) is read as a whole number of records. -/
theorem wellFormed_complete (file : Seq) (h : WellFormedFasta file) :
    ∃ rs id d sq, FaComplete file rs id d sq := ObiVerif.Parse.wellFormed_complete h

/-- **reader_independent** stated on the grammar: ∀ well-formed FASTA file, ∀ buffer size ≥ 2,
∀ arrival order of the parsed chunks at the re-sequencer: the released batches carry, in order, the
records of the one-chunk parse. -/
theorem reader_independent_wellFormed (file : Seq) (hw : WellFormedFasta file) (b : Nat) (hb : 2 ≤ b) :
    ∃ cs, chunks splitFasta b file = some cs ∧
      ∀ ks : List Nat, ks.Perm (List.range cs.length) →
        ∃ rss : List (List Rec),
          reseq (ks.map fun k => (k, parseFasta (cs.getD k []))) = rss.map Except.ok ∧
          parseFasta file = .ok rss.flatten := by
  obtain ⟨rs, id, d, sq, hc⟩ := ObiVerif.Parse.wellFormed_complete hw
  exact reader_independent file rs id d sq hc b hb

instance (e : Seq) : Decidable (AllEol e) := by unfold AllEol; infer_instance
instance (e : Seq) : Decidable (NoEol e) := by unfold NoEol; infer_instance
instance (e : Seq) : Decidable (SeqBytes e) := by unfold SeqBytes; infer_instance

/-- non-vacuity of the grammar: `>a x␊AC␊GT␊>b␍␊T␊` -/
example : WellFormedFasta [62, 97, 32, 120, 10, 65, 67, 10, 71, 84, 10, 62, 98, 13, 10, 84, 10] :=
  ⟨_, [10],
    FastaRecords.more (h := [97, 32, 120]) (e := [10]) (body := [65, 67, 10, 71, 84]) (e' := [10])
      (rest := [62, 98, 13, 10, 84])
      ⟨97, [32, 120], rfl, by decide, by decide⟩ ⟨by decide, by decide⟩
      (SeqLines.more (l := [65, 67]) (e := [10]) (rest := [71, 84]) ⟨by decide, by decide⟩
        ⟨by decide, by decide⟩ (SeqLines.one ⟨by decide, by decide⟩))
      ⟨by decide, by decide⟩
      (FastaRecords.one (h := [98]) (e := [13, 10]) (body := [84]) ⟨98, [], rfl, by decide, by decide⟩
        ⟨by decide, by decide⟩ (SeqLines.one ⟨by decide, by decide⟩)),
    by decide, rfl⟩

/-- the empty file: no chunk, no record, for every buffer size -/
theorem reader_empty_file (split : Seq → Int) (b : Nat) (hb : 1 ≤ b) : chunks split b [] = some [] := by
  unfold chunks readFull
  have : ¬ (0 = b) := by omega
  simp [this]

/-! ## 4. FASTQ and flat-file splitters: contract of `ReadSeqFileChunk` -/

/-- `EndOfLastFastqEntry` returns −1 or a position in `[1, len]` -/
theorem splitFastq_contract : SplitterOK splitFastq (fun _ _ => True) := splitFastq_ok

/-- a non-negative result of `EndOfLastFastqEntry` follows an end-of-line byte (it is a line start) -/
theorem splitFastq_line_start (buf : Seq) (h : 0 ≤ splitFastq buf) :
    ∃ e, buf[(splitFastq buf).toNat - 1]? = some e ∧ isEol e = true := by
  unfold splitFastq at h ⊢
  rcases fqScan_spec buf.reverse with h1 | ⟨cut, h1, h2, h3, e, he, hee⟩
  · omega
  · rw [h1]
    simp only [Int.toNat_natCast]
    refine ⟨e, ?_, hee⟩
    simp only [List.length_reverse] at he h3
    rw [List.getElem?_reverse (by omega)] at he
    have : buf.length - 1 - (buf.length - cut) = cut - 1 := by omega
    rw [this] at he
    exact he

/-- `EndOfLastFlatFileEntry` returns −1 or a position in `[1, len]` that follows an end-of-record line -/
theorem splitFlat_contract : SplitterOK splitFlat FlatCut := splitFlat_ok_cut

/-- **splitFlat_spec**: the bytes before a non-negative result end with `\n//\n` or `\n//\r\n` -/
theorem splitFlat_spec (buf : Seq) (h : 0 ≤ splitFlat buf) : FlatEnd (buf.take (splitFlat buf).toNat) :=
  splitFlat_cut buf h

/-- **parseEmbl_append** (EMBL record locality, repaired parser, real `bufio.Scanner`): if `a` ends with an
end-of-record line and has no line of 65536 bytes or more, then for EVERY `b` the records of `a ++ b`
parsed as one chunk are the records of `a` followed by what the parser returns on `b` alone (no record
inherits `taxid`, `scientific_name`, `id`, definition, features or sequence bytes from the previous one).
`EmblChunkParser` has no error path.  `emblRecs` = the line machine on ALL the lines of the text
(Lemmas/Embl.lean); it is what the parser returns on every text without over-long line (third clause).
The hypothesis on `a` is needed: `embl_long_line_truncates`. -/
theorem parseEmbl_append (withFeat : Bool) (a b : Seq) (h : FlatEnd a) (hs : shortLines maxScanTok a = true) :
    parseEmbl withFeat a = .ok (emblRecs withFeat a) ∧
    parseEmbl withFeat (a ++ b) =
      (match parseEmbl withFeat b with
       | .error e => .error e
       | .ok rb => .ok (emblRecs withFeat a ++ rb)) ∧
    (shortLines maxScanTok b = true → parseEmbl withFeat b = .ok (emblRecs withFeat b)) := by
  refine ⟨parseEmbl_eq_short withFeat a hs, ?_, parseEmbl_eq_short withFeat b⟩
  rw [parseEmbl_eq, parseEmbl_eq, parseEmblMax_append maxScanTok withFeat h hs b]

/-- **embl_long_line_truncates** (what the code does with a line the scanner cannot hold, for ANY token
limit `max`, in particular the real 65536): `pre` is empty or ends with `\n` and has no long line, `l` is a
line of `max` bytes or more: the parser returns the records of `pre` only — the long line and every
record after it in the same chunk are dropped without any error (`scanner.Err()` is never consulted). -/
theorem embl_long_line_truncates (max : Nat) (withFeat : Bool) (pre l rest : Seq)
    (hpre : pre = [] ∨ ∃ p, pre = p ++ [10]) (hshort : shortLines max pre = true)
    (hl : ∀ c ∈ l, c ≠ 10) (hlen : max ≤ l.length) (hrest : rest = [] ∨ ∃ r, rest = 10 :: r) :
    parseEmblMax max withFeat (pre ++ l ++ rest) = .ok (emblRecs withFeat pre) := by
  unfold parseEmblMax emblRecs
  rw [linesScanMax_stops max pre l rest hpre hshort hl hlen hrest]

/-- such inputs are outside the property (an EMBL line has at most 80 bytes), and they are read
chunk-dependently.  Illustration with an 8-byte token buffer, `ID   A;␊XXXXXXXX␊//␊ID   B;␊//␊`: as one
chunk nothing is returned; cut after the first `//` line, the second chunk yields record `B`. -/
theorem reader_embl_longline_counterexample :
    let file : Seq := [73, 68, 32, 32, 32, 65, 59, 10, 88, 88, 88, 88, 88, 88, 88, 88, 10, 47, 47, 10, 73, 68, 32, 32, 32, 66, 59, 10, 47, 47, 10]
    shortLines 8 file = false ∧ parseEmblMax 8 false file = .ok [] ∧
    (chunks splitFlat 4 file).map (fun cs => cs.map (parseEmblMax 8 false)) =
      some [.ok [], .ok [{ id := [66], defn := [], seq := [], flat := some (1, [], []) }]] := by
  refine ⟨by decide, by rfl, by rfl⟩

/-- non-vacuity: `ID   A;␊//␊` ends with an end-of-record line -/
example : FlatEnd [73, 68, 32, 32, 32, 65, 59, 10, 47, 47, 10] := ⟨[73, 68, 32, 32, 32, 65, 59], Or.inl rfl⟩

/-- hence, for the four formats: whatever the buffer size ≥ 2, the chunk reader terminates and its
chunks, in order, are the file minus runs of end-of-line bytes; no chunk is empty -/
theorem chunks_all_formats (b : Nat) (hb : 2 ≤ b) (file : Seq) :
    ∀ split ∈ [splitFasta, splitFastq, splitFlat],
      ∃ cs, chunks split b file = some cs ∧ StripJoin cs file ∧ ∀ c ∈ cs, c ≠ [] := by
  intro split hmem
  simp only [List.mem_cons, List.not_mem_nil, or_false] at hmem
  rcases hmem with rfl | rfl | rfl
  · obtain ⟨cs, h⟩ := chunks_terminate _ _ splitFasta_ok b hb file
    exact ⟨cs, h, chunks_reassemble _ _ splitFasta_ok b file cs h⟩
  · obtain ⟨cs, h⟩ := chunks_terminate _ _ splitFastq_ok b hb file
    exact ⟨cs, h, chunks_reassemble _ _ splitFastq_ok b file cs h⟩
  · obtain ⟨cs, h⟩ := chunks_terminate _ _ splitFlat_ok_cut b hb file
    exact ⟨cs, h, chunks_reassemble _ _ splitFlat_ok_cut b file cs h⟩

/-- (tests on samples) `@a␊AC␊+␊@I␊@b␊GG␊+␊II`: the `@` of the quality line (offset 8) is not a cut, the
record start at offset 11 is; GenBank-like text: the cut follows `␊//␊` -/
example : splitFastq [64, 97, 10, 65, 67, 10, 43, 10, 64, 73, 10, 64, 98, 10, 71, 71, 10, 43, 10, 73, 73] = 11 := by decide
example : splitFlat [120, 120, 10, 47, 47, 10, 76, 79] = 6 := by decide

/-! ## 4b. FASTQ: the splitter cuts at record starts, the parser is record-local, the reader is chunk-independent -/

/-- **what `EndOfLastFastqEntry` recognises**, for ANY buffer: a non-negative result is the offset of
an `@` that follows an end-of-line byte and is followed by `x EOL⁺ s sep* EOL '+'`, `x` without
end-of-line byte, `s` a non-empty run over the sequence alphabet (`FastqCut`, Lemmas/FastqSplit.lean) -/
theorem splitFastq_pattern : SplitterOK splitFastq FastqCut := splitFastq_ok_cut

/-- **splitFastq_is_record_start**.  `buf` is a prefix (what `ReadSeqFileChunk` has read so far) of a
text `buf ++ more` that the byte machine of `FastqChunkParser` reads without error (in particular: of
any well-formed file, next theorem).  A non-negative result `n` of `EndOfLastFastqEntry(buf)` is the
offset of an `@` at which the parser, having read `buf[0..n)`, is waiting for a record (state 11): the
`@` is never the first byte of a quality line (nor of a sequence line).  The rest of the run is the run of
a fresh parser on `buf[n..] ++ more`, and the records are split accordingly. -/
theorem splitFastq_is_record_start (sh : UInt8) (wq : Bool) (buf more : Seq) (sF : FqSt) (rs : List Rec)
    (hread : fqRun sh wq .s0 (buf ++ more) = .ok (sF, rs)) (h : 0 ≤ splitFastq buf) :
    ∃ rs1 rs2 t, buf.drop (splitFastq buf).toNat = 64 :: t ∧
      fqRun sh wq .s0 (buf.take (splitFastq buf).toNat) = .ok (.s11, rs1) ∧
      fqRun sh wq .s0 (buf.drop (splitFastq buf).toNat ++ more) = .ok (sF, rs2) ∧ rs = rs1 ++ rs2 := by
  have hcut := splitFastq_ok_cut.ext _ _ more (splitFastq_cut buf h)
  have hsplit : buf ++ more = buf.take (splitFastq buf).toNat ++ (buf.drop (splitFastq buf).toNat ++ more) := by
    rw [← List.append_assoc, List.take_append_drop]
  rw [hsplit] at hread
  obtain ⟨rs1, rs2, hA, hB, hrs⟩ := fqRun_cut sh wq hcut hread
  obtain ⟨_, x, eols, s, seps, e2, rest, hb, _⟩ := splitFastq_cut buf h
  exact ⟨rs1, rs2, _, by rw [hb]; simp only [List.cons_append, List.append_assoc]; rfl, hA, hB, hrs⟩

/-- **wellFormedFastq_complete**: every file of the FASTQ grammar `WellFormedFastq`
(Lemmas/FastqGrammar.lean: four-line records `@`title / sequence over the alphabet / `+`anything / quality
line of the same length and any bytes but `\n`,`\r` — it may start with `@` or `+` —, LF / CR LF / blank
lines as separators, optional trailing end-of-line bytes) is read as a whole number of records, with or
without qualities. -/
theorem wellFormedFastq_complete (sh : UInt8) (wq : Bool) (file : Seq) (h : WellFormedFastq file) :
    ∃ rs, FqComplete sh wq file rs := ObiVerif.Parse.wellFormedFastq_complete sh wq h

/-- `splitFastq_is_record_start` on the grammar: on every prefix of every well-formed file -/
theorem splitFastq_is_record_start_wellFormed (sh : UInt8) (wq : Bool) (buf more : Seq)
    (hw : WellFormedFastq (buf ++ more)) (h : 0 ≤ splitFastq buf) :
    ∃ rs1 t, buf.drop (splitFastq buf).toNat = 64 :: t ∧
      fqRun sh wq .s0 (buf.take (splitFastq buf).toNat) = .ok (.s11, rs1) := by
  obtain ⟨rs, s, rs0, l, hrun, _⟩ := ObiVerif.Parse.wellFormedFastq_complete sh wq hw
  obtain ⟨rs1, _, t, ht, hA, _⟩ := splitFastq_is_record_start sh wq buf more s rs0 hrun h
  exact ⟨rs1, t, ht, hA⟩

/-- **never the `@` of a quality line**, in grammar terms: on a prefix of a well-formed file a
non-negative result is not the offset at which a quality line starts (`BeforeQual`,
Lemmas/FastqGrammar.lean: whole records, then `@`title, sequence line, `+` line and the end-of-line
run that precedes the quality line) — there the parser is in state 9, not 11. -/
theorem splitFastq_never_quality_line (buf more : Seq) (hw : WellFormedFastq (buf ++ more))
    (h : 0 ≤ splitFastq buf) : ¬ BeforeQual (buf.take (splitFastq buf).toNat) := by
  intro hb
  obtain ⟨rs1, t, _, hA⟩ := splitFastq_is_record_start_wellFormed 0 false buf more hw h
  obtain ⟨r, rs, hr⟩ := beforeQual_state 0 false hb
  rw [hr] at hA
  cases hA

/-- **chunks_cut_at_boundaries** (FASTQ): every chunk of a file that is a whole number of records is
itself a whole number of records, whatever the buffer size. -/
theorem chunks_cut_at_boundaries_fastq (sh : UInt8) (wq : Bool) (file : Seq) (rs : List Rec)
    (hw : FqComplete sh wq file rs) (b : Nat) (cs : List Seq) (h : chunks splitFastq b file = some cs) :
    ∀ c ∈ cs, ∃ rs', FqComplete sh wq c rs' :=
  (pieces_parse_fastq sh wq (chunks_pieces splitFastq FastqCut splitFastq_ok_cut b file cs h) rs hw).2

/-- **parseFastq_append** (record locality): if `c1` is a whole number of records, `e` a non-empty run
of end-of-line bytes and `c2 = '@' :: t` any text starting with `@` (well-formed or not), then parsing
`c1 ++ e ++ c2` as one chunk gives the records of `c1` followed by the records of `c2`, and fails
exactly as the parse of `c2` fails. -/
theorem parseFastq_append (sh : UInt8) (wq : Bool) (c1 : Seq) (rs : List Rec) (h1 : FqComplete sh wq c1 rs)
    (e : Seq) (he : AllEol e) (hne : e ≠ []) (t : Seq) :
    parseFastq sh wq c1 = .ok rs ∧
    parseFastq sh wq (c1 ++ e ++ 64 :: t) =
      match parseFastq sh wq (64 :: t) with
      | .error x => .error x
      | .ok r2 => .ok (rs ++ r2) :=
  ⟨parseFastq_complete sh wq h1, parseFastq_append_complete sh wq h1 he hne t⟩

/-- **reader_independent_fastq**.  `file` is any text the chunk parser reads as a whole number of
records (`FqComplete`: no error, ends in or just after a quality line), for any quality shift, with or
without qualities.  For EVERY read-buffer size `b ≥ 2` the chunk reader terminates with some chunks
`cs`; the parser workers turn chunk `k` into the batch `(k, parseFastq cs[k])`; for EVERY order `ks` in
which these numbered batches reach `SortBatches`, the batches released are error-free and their
records, in release order, are exactly the records of the one-chunk parse of the file. -/
theorem reader_independent_fastq (sh : UInt8) (wq : Bool) (file : Seq) (rs : List Rec)
    (hw : FqComplete sh wq file rs) (b : Nat) (hb : 2 ≤ b) :
    ∃ cs, chunks splitFastq b file = some cs ∧
      ∀ ks : List Nat, ks.Perm (List.range cs.length) →
        ∃ rss : List (List Rec),
          reseq (ks.map fun k => (k, parseFastq sh wq (cs.getD k []))) = rss.map Except.ok ∧
          parseFastq sh wq file = .ok rss.flatten := by
  obtain ⟨cs, hcs⟩ := chunks_terminate splitFastq FastqCut splitFastq_ok_cut b hb file
  refine ⟨cs, hcs, ?_⟩
  intro ks hperm
  obtain ⟨⟨rss, hmap, hflat⟩, _⟩ :=
    pieces_parse_fastq sh wq (chunks_pieces splitFastq FastqCut splitFastq_ok_cut b file cs hcs) rs hw
  refine ⟨rss, ?_, ?_⟩
  · rw [reseq_perm (fun k => parseFastq sh wq (cs.getD k [])) cs.length ks hperm, range_map_getD, hmap]
  · rw [parseFastq_complete sh wq hw, hflat]

/-- **reader_independent_fastq** stated on the grammar: ∀ well-formed single-line FASTQ file, ∀ quality
shift, with or without qualities, ∀ buffer size ≥ 2, ∀ arrival order of the parsed chunks at the
re-sequencer: the released batches carry, in order, the records of the one-chunk parse. -/
theorem reader_independent_fastq_wellFormed (sh : UInt8) (wq : Bool) (file : Seq) (hw : WellFormedFastq file)
    (b : Nat) (hb : 2 ≤ b) :
    ∃ cs, chunks splitFastq b file = some cs ∧
      ∀ ks : List Nat, ks.Perm (List.range cs.length) →
        ∃ rss : List (List Rec),
          reseq (ks.map fun k => (k, parseFastq sh wq (cs.getD k []))) = rss.map Except.ok ∧
          parseFastq sh wq file = .ok rss.flatten := by
  obtain ⟨rs, hc⟩ := ObiVerif.Parse.wellFormedFastq_complete sh wq hw
  exact reader_independent_fastq sh wq file rs hc b hb

/-- non-vacuity: the two-record file `@a␊AC␊+␊@I␊@b␊GG␊+␊II` whose first quality line starts with `@` -/
def exFastq : Seq := [64, 97, 10, 65, 67, 10, 43, 10, 64, 73, 10, 64, 98, 10, 71, 71, 10, 43, 10, 73, 73]

example : WellFormedFastq exFastq :=
  ⟨_, [],
    FastqRecords.more (h := [97]) (e1 := [10]) (sq := [65, 67]) (e2 := [10]) (p := []) (e3 := [10])
      (q := [64, 73]) (e4 := [10]) (rest := [64, 98, 10, 71, 71, 10, 43, 10, 73, 73])
      ⟨97, [], rfl, by decide, by decide⟩ ⟨by decide, by decide⟩ ⟨by decide, by decide⟩ ⟨by decide, by decide⟩
      (by decide) ⟨by decide, by decide⟩ (by decide) rfl ⟨by decide, by decide⟩
      (FastqRecords.one (h := [98]) (e1 := [10]) (sq := [71, 71]) (e2 := [10]) (p := []) (e3 := [10])
        (q := [73, 73]) ⟨98, [], rfl, by decide, by decide⟩ ⟨by decide, by decide⟩ ⟨by decide, by decide⟩
        ⟨by decide, by decide⟩ (by decide) ⟨by decide, by decide⟩ (by decide) rfl),
    by decide, rfl⟩

/-- offset 8 of the sample, the `@` that starts the first quality line, is such a position -/
example : BeforeQual (exFastq.take 8) :=
  BeforeQual.first (h := [97]) (e1 := [10]) (sq := [65, 67]) (e2 := [10]) (p := []) (e3 := [10])
    ⟨97, [], rfl, by decide, by decide⟩ ⟨by decide, by decide⟩ ⟨by decide, by decide⟩ ⟨by decide, by decide⟩
    (by decide) ⟨by decide, by decide⟩

/-- (tests on the sample) on the 20-byte prefix the splitter answers 11 = the `@` of the second record,
not 8 = the `@` that starts the first quality line; with a 5-byte buffer the file is cut there -/
example : splitFastq (exFastq.take 20) = 11 := by decide
example : chunks splitFastq 5 exFastq =
    some [[64, 97, 10, 65, 67, 10, 43, 10, 64, 73], [64, 98, 10, 71, 71, 10, 43, 10, 73, 73]] := by rfl
example : FqComplete 33 true exFastq
    [{ id := [97], defn := [], seq := [97, 99], qual := some [31, 40] },
     { id := [98], defn := [], seq := [103, 103], qual := some [40, 40] }] :=
  ⟨.s10 _ _, _, _, by rfl, trivial, by rfl, by rfl⟩
/-- the hypothesis of `parseFastq_append` on a chunk that ends with its end-of-line byte -/
example : FqComplete 33 true (exFastq.take 11) [{ id := [97], defn := [], seq := [97, 99], qual := some [31, 40] }] :=
  ⟨.s11, _, _, by rfl, trivial, by rfl, by rfl⟩

/-! ## 4c. GenBank / EMBL: record locality and the composed reader under regular line ends -/

/-- **parseGenbank_append** (GenBank record locality, repaired parser): if `a` ends with an
end-of-record line (`\n//\n` or `\n//\r\n`), parsing `a ++ b` as one chunk gives the records of `a`
followed by the records of `b`, for every `b`; it fails as `a` fails, else as `b` fails.  After `//`
the parser is back in `inHeader` with `taxid`, `scientific_name`, definition and features reset; the two
fields it does not reset (`id`, sequence bytes) are dead: only a `LOCUS` line leaves `inHeader` and it
overwrites both. -/
theorem parseGenbank_append (withFeat : Bool) (a b : Seq) (h : FlatEnd a) :
    parseGenbank withFeat (a ++ b) =
      match parseGenbank withFeat a with
      | .error e => .error e
      | .ok ra =>
        match parseGenbank withFeat b with
        | .error e => .error e
        | .ok rb => .ok (ra ++ rb) := parseGenbank_append_flatEnd withFeat h b

/-- **reader_independent_embl**.  `regularEol file`: every `\r` of the file is followed by `\n` (lines
end with `\n` or `\r\n`; Lemmas/Genbank.lean); `shortLines maxScanTok file`: no line of 65536 bytes or more
(the `bufio.Scanner` token limit; needed: `embl_long_line_truncates`, `reader_embl_longline_counterexample`).
For every such file — records or not —, every buffer
size ≥ 2 and every arrival order of the parsed chunks at the re-sequencer, the released batches carry,
in order, exactly the records of the one-chunk parse (`EmblChunkParser` has no error path). -/
theorem reader_independent_embl (withFeat : Bool) (file : Seq) (hreg : regularEol file = true)
    (hshort : shortLines maxScanTok file = true) (b : Nat) (hb : 2 ≤ b) :
    ∃ cs, chunks splitFlat b file = some cs ∧
      ∀ ks : List Nat, ks.Perm (List.range cs.length) →
        ∃ rss : List (List Rec),
          reseq (ks.map fun k => (k, parseEmbl withFeat (cs.getD k []))) = rss.map Except.ok ∧
          parseEmbl withFeat file = .ok rss.flatten := by
  obtain ⟨cs, hcs⟩ := chunks_terminate splitFlat FlatCut splitFlat_ok_cut b hb file
  refine ⟨cs, hcs, ?_⟩
  intro ks hperm
  have hpc := chunks_pieces splitFlat FlatCut splitFlat_ok_cut b file cs hcs
  have hp := pieces_parse_embl withFeat hpc hreg
  have hsc := pieces_short (max := maxScanTok) hpc hshort
  refine ⟨cs.map (emblRecs withFeat), ?_, ?_⟩
  · rw [reseq_perm (fun k => parseEmbl withFeat (cs.getD k [])) cs.length ks hperm, range_map_getD, List.map_map]
    apply List.map_congr_left
    intro c hc
    exact parseEmbl_eq_short withFeat c (hsc c hc)
  · rw [parseEmbl_eq_short withFeat file hshort, hp]

/-- **reader_independent_genbank**.  For every file with regular line ends that `GenbankChunkParser`
reads without a fatal error as one chunk, every buffer size ≥ 2 and every arrival order of the parsed
chunks at the re-sequencer, the released batches are error-free and carry, in order, exactly the
records of the one-chunk parse. -/
theorem reader_independent_genbank (withFeat : Bool) (file : Seq) (hreg : regularEol file = true)
    (rs : List Rec) (hok : parseGenbank withFeat file = .ok rs) (b : Nat) (hb : 2 ≤ b) :
    ∃ cs, chunks splitFlat b file = some cs ∧
      ∀ ks : List Nat, ks.Perm (List.range cs.length) →
        ∃ rss : List (List Rec),
          reseq (ks.map fun k => (k, parseGenbank withFeat (cs.getD k []))) = rss.map Except.ok ∧
          parseGenbank withFeat file = .ok rss.flatten := by
  obtain ⟨cs, hcs⟩ := chunks_terminate splitFlat FlatCut splitFlat_ok_cut b hb file
  refine ⟨cs, hcs, ?_⟩
  intro ks hperm
  obtain ⟨rss, hmap, hflat⟩ :=
    pieces_parse_genbank withFeat (chunks_pieces splitFlat FlatCut splitFlat_ok_cut b file cs hcs) hreg rs hok
  refine ⟨rss, ?_, ?_⟩
  · rw [reseq_perm (fun k => parseGenbank withFeat (cs.getD k [])) cs.length ks hperm, range_map_getD, hmap]
  · rw [hok, hflat]

/-- **reader_independent_flat**: both flat-file formats, same chunks (the splitter is shared) -/
theorem reader_independent_flat (withFeat : Bool) (file : Seq) (hreg : regularEol file = true)
    (b : Nat) (hb : 2 ≤ b) :
    ∃ cs, chunks splitFlat b file = some cs ∧
      ∀ ks : List Nat, ks.Perm (List.range cs.length) →
        (shortLines maxScanTok file = true →
          ∃ rss : List (List Rec),
          reseq (ks.map fun k => (k, parseEmbl withFeat (cs.getD k []))) = rss.map Except.ok ∧
          parseEmbl withFeat file = .ok rss.flatten) ∧
        (∀ rs, parseGenbank withFeat file = .ok rs →
          ∃ rss : List (List Rec),
            reseq (ks.map fun k => (k, parseGenbank withFeat (cs.getD k []))) = rss.map Except.ok ∧
            parseGenbank withFeat file = .ok rss.flatten) := by
  obtain ⟨cs, hcs⟩ := chunks_terminate splitFlat FlatCut splitFlat_ok_cut b hb file
  refine ⟨cs, hcs, fun ks hperm => ⟨fun hshort => ?_, fun rs hok => ?_⟩⟩
  · obtain ⟨cs', hcs', hE⟩ := reader_independent_embl withFeat file hreg hshort b hb
    rw [hcs] at hcs'
    cases hcs'
    exact hE ks hperm
  · obtain ⟨cs', hcs', hG⟩ := reader_independent_genbank withFeat file hreg rs hok b hb
    rw [hcs] at hcs'
    cases hcs'
    exact hG ks hperm

/-- non-vacuity: two-record files, the second record with CR LF line ends.
GenBank `LOCUS       A␊FEATURES    ␊ORIGIN␊        1 ac␊//␊LOCUS       B␍␊…␍␊//␍␊`,
EMBL `ID   A;␊     ac 2␊//␊ID   B;␍␊     gg 2␍␊//␍␊` -/
def exGenbank : Seq := [76, 79, 67, 85, 83, 32, 32, 32, 32, 32, 32, 32, 65, 10, 70, 69, 65, 84, 85, 82, 69, 83, 32, 32, 32, 32, 10, 79, 82, 73, 71, 73, 78, 10, 32, 32, 32, 32, 32, 32, 32, 32, 49, 32, 97, 99, 10, 47, 47, 10, 76, 79, 67, 85, 83, 32, 32, 32, 32, 32, 32, 32, 66, 13, 10, 70, 69, 65, 84, 85, 82, 69, 83, 32, 32, 32, 32, 13, 10, 79, 82, 73, 71, 73, 78, 13, 10, 32, 32, 32, 32, 32, 32, 32, 32, 49, 32, 103, 103, 13, 10, 47, 47, 13, 10]
def exEmbl : Seq := [73, 68, 32, 32, 32, 65, 59, 10, 32, 32, 32, 32, 32, 97, 99, 32, 50, 10, 47, 47, 10, 73, 68, 32, 32, 32, 66, 59, 13, 10, 32, 32, 32, 32, 32, 103, 103, 32, 50, 13, 10, 47, 47, 13, 10]

example : regularEol exGenbank = true ∧ regularEol exEmbl = true := by decide
example : shortLines maxScanTok exEmbl = true := by decide
example : parseGenbank false exGenbank =
    .ok [{ id := [65], defn := [], seq := [97, 99], flat := some (1, [], []) },
         { id := [66], defn := [], seq := [103, 103], flat := some (1, [], []) }] := by rfl
/-- (tests on the samples) with an 8-byte buffer both files are cut after the first `//` line -/
example : (chunks splitFlat 8 exGenbank).map List.length = some 2 := by rfl
example : (chunks splitFlat 8 exEmbl).map (fun cs => cs.map (parseEmbl false)) =
    some [.ok [{ id := [65], defn := [], seq := [97, 99], flat := some (1, [], []) }],
          .ok [{ id := [66], defn := [], seq := [103, 103], flat := some (1, [], []) }]] := by rfl

/-- **the regular-line-end hypothesis is needed** (irregular files, not well-formed ones).
EMBL `ID   A;␊//␍␍␊`: as one chunk the line `//␍` is not an end of record and no record is returned;
`ReadSeqFileChunk` strips the whole run `␍␍␊` from its (single) chunk, whose parse returns one record. -/
theorem reader_embl_irregular_counterexample :
    let file : Seq := [73, 68, 32, 32, 32, 65, 59, 10, 47, 47, 13, 13, 10]
    regularEol file = false ∧ parseEmbl false file = .ok [] ∧
    chunks splitFlat 4 file = some [[73, 68, 32, 32, 32, 65, 59, 10, 47, 47]] ∧
    parseEmbl false [73, 68, 32, 32, 32, 65, 59, 10, 47, 47] =
      .ok [{ id := [65], defn := [], seq := [], flat := some (1, [], []) }] := by
  refine ⟨by decide, by rfl, by rfl, by rfl⟩

/-- GenBank `LOCUS       A␊FEATURES    ␊ORIGIN␊//␍` (a last line ending with a lone `␍`): as one chunk
`ReadLine` returns `//␍`, taken as a sequence line shorter than 10 bytes (`line[10:]` panics); the
chunk reader strips the `␍` and the parse of its chunk returns one record. -/
theorem reader_genbank_irregular_counterexample :
    let file : Seq := [76, 79, 67, 85, 83, 32, 32, 32, 32, 32, 32, 32, 65, 10, 70, 69, 65, 84, 85, 82, 69, 83, 32, 32, 32, 32, 10, 79, 82, 73, 71, 73, 78, 10, 47, 47, 13]
    regularEol file = false ∧ parseGenbank false file = .error .panic ∧
    (chunks splitFlat 4 file).map (fun cs => cs.map (parseGenbank false)) =
      some [.ok [{ id := [65], defn := [], seq := [], flat := some (1, [], []) }]] := by
  refine ⟨by decide, by rfl, by rfl⟩

/-! ## 5. Scope of the hypotheses

FASTA, FASTQ: the composed theorems hold for every text the chunk parser reads as a whole number of
records (`FaComplete`, `FqComplete`), in particular for every file of the grammars `WellFormedFasta`,
`WellFormedFastq`.  A FASTQ text that ends inside a record (e.g. after the sequence line) is outside
`FqComplete`: the final flush strips its trailing end-of-line bytes, which changes the state in which
the parser ends.
GenBank / EMBL: `regularEol` (every `\r` followed by `\n`) is needed only for the LAST chunk, the
only one whose stripped end-of-line run is not known to be `\n` or `\r\n`; the two counterexamples
above are irregular files.  EMBL record locality (`parseEmbl_append`) and GenBank record locality
(`parseGenbank_append`) are false before the repair `C01-flatfile-record-state-reset` (witness: two
records, the second without `/db_xref="taxon:`). -/

/-- non-vacuity: the two-record file `>a x>y␍␊AC␍␊GT␍␊>b␊TT␊` (folded sequence, CR LF, a title containing `>`) -/
def exFile : Seq := [62, 97, 32, 120, 62, 121, 13, 10, 65, 67, 13, 10, 71, 84, 13, 10, 62, 98, 10, 84, 84, 10]

example : FaComplete exFile [mkRec [97] [120, 62, 121] [97, 99, 103, 116]] [98] [] [116, 116] :=
  ⟨true, by rfl⟩

/-- (test on a sample) with a 5-byte buffer the file is cut into two chunks -/
example : chunks splitFasta 5 exFile =
    some [[62, 97, 32, 120, 62, 121, 13, 10, 65, 67, 13, 10, 71, 84], [62, 98, 10, 84, 84]] := by rfl

/-! ## 6. Record content = what the record's own text says (FASTA, FASTQ)

`FaSrc` / `FqSrc` (Lemmas/FastaContent.lean, Lemmas/FastqContent.lean): the source text of one record —
title, sequence line(s), `+` line, quality line — with its own lay-out (end-of-line runs, folding);
`faFileText` / `fqFileText` render a first record, further records each preceded by a non-empty
end-of-line run, and an end-of-line tail.  `FaSrc.record` / `FqSrc.record`: identifier = title up to
the first blank/tab, definition = the rest after that run of blanks/tabs, sequence = the sequence
line(s) lower-cased, qualities = quality line minus the shift. -/

/-- the rendered files are exactly the files of the FASTA grammar -/
theorem wellFormedFasta_iff_rendered (file : Seq) :
    WellFormedFasta file ↔
      ∃ (r0 : FaSrc) (rest : List (Seq × FaSrc)) (tail : Seq), r0.OK ∧ (∀ p ∈ rest, EolRun p.1 ∧ p.2.OK) ∧
        AllEol tail ∧ file = faFileText r0 rest tail :=
  ⟨wellFormed_faFileText, fun ⟨r0, rest, tail, h0, hr, ht, he⟩ => he ▸ faFileText_wellFormed r0 rest tail h0 hr ht⟩

/-- **parseFasta_content**: on every well-formed FASTA file the chunk parser returns, in file order, for
each record exactly what that record's own text says — whatever its neighbours and the lay-out -/
theorem parseFasta_content (r0 : FaSrc) (rest : List (Seq × FaSrc)) (tail : Seq) (h0 : r0.OK)
    (hrest : ∀ p ∈ rest, EolRun p.1 ∧ p.2.OK) (ht : AllEol tail) :
    parseFasta (faFileText r0 rest tail) = .ok (r0.record :: rest.map (fun p => p.2.record)) :=
  ObiVerif.Parse.parseFasta_content r0 rest tail h0 hrest ht

/-- **reader_content_fasta** (the property for FASTA, end to end): for every well-formed file, every
read-buffer size ≥ 2 and every arrival order of the parsed chunks at `SortBatches`, the released
batches are error-free and carry, in file order, exactly the records the texts imply. -/
theorem reader_content_fasta (r0 : FaSrc) (rest : List (Seq × FaSrc)) (tail : Seq) (h0 : r0.OK)
    (hrest : ∀ p ∈ rest, EolRun p.1 ∧ p.2.OK) (ht : AllEol tail) (b : Nat) (hb : 2 ≤ b) :
    ∃ cs, chunks splitFasta b (faFileText r0 rest tail) = some cs ∧
      ∀ ks : List Nat, ks.Perm (List.range cs.length) →
        ∃ rss : List (List Rec),
          reseq (ks.map fun k => (k, parseFasta (cs.getD k []))) = rss.map Except.ok ∧
          rss.flatten = r0.record :: rest.map (fun p => p.2.record) := by
  obtain ⟨cs, hcs, hall⟩ :=
    reader_independent_wellFormed _ (faFileText_wellFormed r0 rest tail h0 hrest ht) b hb
  refine ⟨cs, hcs, fun ks hperm => ?_⟩
  obtain ⟨rss, h1, h2⟩ := hall ks hperm
  refine ⟨rss, h1, ?_⟩
  rw [ObiVerif.Parse.parseFasta_content r0 rest tail h0 hrest ht] at h2
  exact (Except.ok.inj h2).symm

/-- non-vacuity (and a test on a sample): `>a x>y␍␊AC␍␊GT␍␊>b␉z ␊TT␊` — CR LF, folded sequence, `>` in a
title, a tab and a trailing blank in the second title -/
def exSrcA : FaSrc := { title := [97, 32, 120, 62, 121], eol := [13, 10], first := [65, 67], more := [([13, 10], [71, 84])] }
def exSrcB : FaSrc := { title := [98, 9, 122, 32], eol := [10], first := [84, 84], more := [] }
example : exSrcA.OK ∧ exSrcB.OK :=
  ⟨⟨⟨97, _, rfl, by decide, by decide⟩, ⟨by decide, by decide⟩, ⟨by decide, by decide⟩,
    by intro p hp; simp only [exSrcA, List.mem_cons, List.not_mem_nil, or_false] at hp; subst hp
       exact ⟨⟨by decide, by decide⟩, ⟨by decide, by decide⟩⟩⟩,
   ⟨⟨98, _, rfl, by decide, by decide⟩, ⟨by decide, by decide⟩, ⟨by decide, by decide⟩,
    by intro p hp; simp [exSrcB] at hp⟩⟩
example : faFileText exSrcA [([13, 10], exSrcB)] [10] =
    [62, 97, 32, 120, 62, 121, 13, 10, 65, 67, 13, 10, 71, 84, 13, 10, 62, 98, 9, 122, 32, 10, 84, 84, 10] := by decide
example : exSrcA.record = { id := [97], defn := [120, 62, 121], seq := [97, 99, 103, 116] } ∧
    exSrcB.record = { id := [98], defn := [122, 32], seq := [116, 116] } := by decide

/-- the rendered files are exactly the files of the FASTQ grammar -/
theorem wellFormedFastq_iff_rendered (file : Seq) :
    WellFormedFastq file ↔
      ∃ (r0 : FqSrc) (rest : List (Seq × FqSrc)) (tail : Seq), r0.OK ∧ (∀ p ∈ rest, EolRun p.1 ∧ p.2.OK) ∧
        AllEol tail ∧ file = fqFileText r0 rest tail :=
  ⟨wellFormed_fqFileText, fun ⟨r0, rest, tail, h0, hr, ht, he⟩ => he ▸ fqFileText_wellFormed r0 rest tail h0 hr ht⟩

/-- **parseFastq_content**: on every well-formed FASTQ file, for every quality shift, with or without
qualities, the chunk parser returns, in file order, for each record exactly what its own text says
(a quality line starting with `@` or `+` included) -/
theorem parseFastq_content (sh : UInt8) (wq : Bool) (r0 : FqSrc) (rest : List (Seq × FqSrc)) (tail : Seq)
    (h0 : r0.OK) (hrest : ∀ p ∈ rest, EolRun p.1 ∧ p.2.OK) (ht : AllEol tail) :
    parseFastq sh wq (fqFileText r0 rest tail) = .ok (r0.record sh wq :: rest.map (fun p => p.2.record sh wq)) :=
  ObiVerif.Parse.parseFastq_content sh wq rest r0 tail h0 hrest ht

/-- **reader_content_fastq** (the property for FASTQ, end to end) -/
theorem reader_content_fastq (sh : UInt8) (wq : Bool) (r0 : FqSrc) (rest : List (Seq × FqSrc)) (tail : Seq)
    (h0 : r0.OK) (hrest : ∀ p ∈ rest, EolRun p.1 ∧ p.2.OK) (ht : AllEol tail) (b : Nat) (hb : 2 ≤ b) :
    ∃ cs, chunks splitFastq b (fqFileText r0 rest tail) = some cs ∧
      ∀ ks : List Nat, ks.Perm (List.range cs.length) →
        ∃ rss : List (List Rec),
          reseq (ks.map fun k => (k, parseFastq sh wq (cs.getD k []))) = rss.map Except.ok ∧
          rss.flatten = r0.record sh wq :: rest.map (fun p => p.2.record sh wq) := by
  obtain ⟨cs, hcs, hall⟩ :=
    reader_independent_fastq_wellFormed sh wq _ (fqFileText_wellFormed r0 rest tail h0 hrest ht) b hb
  refine ⟨cs, hcs, fun ks hperm => ?_⟩
  obtain ⟨rss, h1, h2⟩ := hall ks hperm
  refine ⟨rss, h1, ?_⟩
  rw [ObiVerif.Parse.parseFastq_content sh wq rest r0 tail h0 hrest ht] at h2
  exact (Except.ok.inj h2).symm

/-- non-vacuity: the record `@a d␊AC␊+␊@I` (quality line starting with `@`) -/
def exSrcQ : FqSrc := { title := [97, 32, 100], e1 := [10], sq := [65, 67], e2 := [10], plus := [], e3 := [10], qual := [64, 73] }
example : exSrcQ.OK :=
  ⟨⟨97, _, rfl, by decide, by decide⟩, ⟨by decide, by decide⟩, ⟨by decide, by decide⟩, ⟨by decide, by decide⟩,
   by decide, ⟨by decide, by decide⟩, by decide, rfl⟩
example : exSrcQ.record 33 true = { id := [97], defn := [100], seq := [97, 99], qual := some [31, 40] } := by decide

/-- (tests on samples) `strings.TrimSpace` on bytes: NBSP (C2 A0), NEL (C2 85), U+2003 (E2 80 83), VT and FF are
trimmed at both ends; a lone continuation byte A0, a lone lead byte C2, the zero-width space (E2 80 8B) and an
overlong blank (C0 A0) are not white space and stop the trimming -/
example : trimSpace [0xC2, 0xA0, 11, 97, 32, 98, 12, 0xE2, 0x80, 0x83, 0xC2, 0x85] = [97, 32, 98] := by decide
example : trimSpace [0xA0, 97, 0xC2] = [0xA0, 97, 0xC2] := by decide
example : trimSpace [32, 0xE2, 0x80, 0x8B, 97, 0xC0, 0xA0, 32] = [0xE2, 0x80, 0x8B, 97, 0xC0, 0xA0] := by decide
example : trimSpace [32, 0xC2, 0xA0, 9] = [] := by decide

end ObiVerif.Props.C01
