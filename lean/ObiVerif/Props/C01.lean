import ObiVerif.Model.Chunk
import ObiVerif.Model.Fasta
import ObiVerif.Model.Fastq
import ObiVerif.Model.FlatFile
import ObiVerif.Lemmas.Chunk
import ObiVerif.Lemmas.Fasta
import ObiVerif.Lemmas.Reseq
import ObiVerif.Lemmas.Splitters
import ObiVerif.Lemmas.FastaGrammar
import ObiVerif.Lemmas.Embl
import ObiVerif.Lemmas.FlatSplit
import ObiVerif.Lemmas.FastqSplit
import ObiVerif.Lemmas.FastqGrammar
import ObiVerif.Lemmas.Genbank
import ObiVerif.Lemmas.ScanMax
import ObiVerif.Lemmas.FastaContent
import ObiVerif.Lemmas.FastqContent
import ObiVerif.Lemmas.FlatContent
import ObiVerif.Lemmas.EmblContent
import ObiVerif.Lemmas.GenbankContent
/-!
# C01 — parsed records do not depend on chunk boundaries, transport or parser workers

Property theorems.  Models: `Model/Chunk.lean` (`ReadSeqFileChunk`, the three splitters),
`Model/Fasta.lean`, `Model/Fastq.lean`, `Model/FlatFile.lean` (chunk parsers), `Model/Reseq.lean`
(`SortBatches`).  Helper lemmas: `Lemmas/Chunk.lean`, `Lemmas/Fasta.lean`, `Lemmas/Reseq.lean`,
`Lemmas/FastqSplit.lean`, `Lemmas/FastqGrammar.lean`, `Lemmas/Genbank.lean`, ….

* `chunks_terminate`, `chunks_reassemble` — `ReadSeqFileChunk`, for ANY splitter that returns a
  negative value or a position in `[1, len]`: the goroutine terminates and the chunk texts, in
  order, are the file minus runs of end-of-line bytes.
* `splitFasta_spec`, `splitFasta_contract` — `EndOfLastFastaEntry`.
* `chunks_cut_at_boundaries`, `parseFasta_append`, `reader_independent` — FASTA: for every file the
  chunk parser reads as a whole number of records, every buffer size ≥ 2 and every arrival order of
  the parsed chunks at `SortBatches`, the delivered records are those of the one-chunk parse.
* `wellFormed_complete` — the files of the FASTA grammar (title line, sequence lines over the
  alphabet, LF / CRLF / blank lines) are read as a whole number of records.

* `splitFastq_pattern`, `splitFastq_is_record_start`, `parseFastq_append`,
  `reader_independent_fastq`, `wellFormedFastq_complete`, `reader_independent_fastq_wellFormed` — FASTQ:
  the same chain; a cut of `EndOfLastFastqEntry` in a prefix of a text the parser reads without error
  is a record start, never the `@` of a quality line.
* `parseEmbl_append`, `parseGenbank_append`, `reader_independent_embl`, `reader_independent_genbank`,
  `reader_independent_flat` — flat files: record locality after a `//` line and the composed reader
  for files whose lines end with `\n` or `\r\n` (`regularEol`; counterexamples without it).
-/
namespace ObiVerif.Props.C01
open ObiVerif.Chunk ObiVerif.Parse ObiVerif.Reseq

/-! ## 1. ReadSeqFileChunk, any splitter -/

/-- The fuel of the model is never exhausted, i.e. the reading goroutine terminates: for every
splitter returning "not found" or a position in `[1, len]`, every buffer of at least 2 bytes and
every file. -/
theorem chunks_terminate (split : Seq → Int) (Cut : Seq → Seq → Prop) (hs : SplitterOK split Cut)
    (b : Nat) (hb : 2 ≤ b) (file : Seq) : ∃ cs, chunks split b file = some cs := by
  unfold chunks
  obtain ⟨h1, _, _⟩ := readFull_spec b file
  generalize readFull b file = rf at h1
  obtain ⟨buff, rest, err⟩ := rf
  simp only at h1 ⊢
  split
  · exact ⟨[], rfl⟩
  · have hl : buff.length + rest.length < file.length + 2 := by
      have := congrArg List.length h1
      simp at this
      omega
    have := outer_some split Cut hs b hb _ buff rest [] hl
    cases h : outer split b (file.length + 2) buff rest [] with
    | none => rw [h] at this; cases this
    | some cs => exact ⟨cs, rfl⟩

/-- a 0 returned by the splitter is what the contract excludes: the model (like the code) loops -/
example : chunks (fun _ => 0) 4 [62, 97, 10, 65] = none := by decide

/-- **chunks_reassemble**: for a splitter honouring its contract, the chunk texts, in order, are the
file minus the runs of end-of-line bytes that were cut; no chunk is empty. -/
theorem chunks_reassemble (split : Seq → Int) (Cut : Seq → Seq → Prop) (hs : SplitterOK split Cut)
    (b : Nat) (file : Seq) (cs : List Seq) (h : chunks split b file = some cs) :
    StripJoin cs file ∧ ∀ c ∈ cs, c ≠ [] :=
  pieces_stripJoin (chunks_pieces split Cut hs b file cs h)

/-! ## 2. EndOfLastFastaEntry -/

/-- **splitFasta_spec**: the result is −1 or the offset (≥ 1) of a `>` that follows an end-of-line byte -/
theorem splitFasta_spec (buf : Seq) :
    splitFasta buf = -1 ∨
    ∃ pre e post, buf = pre ++ e :: 62 :: post ∧ isEol e = true ∧ splitFasta buf = ((pre.length + 1 : Nat) : Int) :=
  ObiVerif.Parse.splitFasta_spec buf

/-- the FASTA splitter honours the contract `ReadSeqFileChunk` needs (termination + cut at a line-start `>`) -/
theorem splitFasta_contract : SplitterOK splitFasta FastaCut := splitFasta_ok

example : splitFasta [62, 97, 10, 65, 67, 10, 62, 98, 10, 71] = 6 := by decide
example : splitFasta [62, 97, 10, 65, 67] = -1 := by decide

/-! ## 3. FASTA: chunks are whole records, the parser is record-local, the reader is chunk-independent -/

/-- **chunks_cut_at_boundaries** (FASTA): every chunk of a file that is a whole number of records is
itself a whole number of records, whatever the buffer size. -/
theorem chunks_cut_at_boundaries (file : Seq) (rs : List Rec) (id d sq : Seq)
    (hw : FaComplete file rs id d sq) (b : Nat) (cs : List Seq) (h : chunks splitFasta b file = some cs) :
    ∀ c ∈ cs, ∃ rs' id' d' sq', FaComplete c rs' id' d' sq' :=
  (pieces_parse (chunks_pieces splitFasta FastaCut splitFasta_ok b file cs h) rs id d sq hw).2

/-- **parseFasta_append** (record locality): if `c1` is a whole number of records, `e` a non-empty run
of end-of-line bytes and `c2 = '>' :: b :: t` any text starting with `>` (well-formed or not), then
parsing `c1 ++ e ++ c2` as one chunk gives the records of `c1` followed by the records of `c2`, and
fails exactly as the parse of `c2` fails. -/
theorem parseFasta_append (c1 : Seq) (rs : List Rec) (id d sq : Seq) (h1 : FaComplete c1 rs id d sq)
    (e : Seq) (he : AllEol e) (hne : e ≠ []) (b : UInt8) (t : Seq) :
    parseFasta c1 = .ok (rs ++ [mkRec id d sq]) ∧
    parseFasta (c1 ++ e ++ 62 :: b :: t) =
      match parseFasta (62 :: b :: t) with
      | .error x => .error x
      | .ok r2 => .ok ((rs ++ [mkRec id d sq]) ++ r2) := by
  refine ⟨parseFasta_complete h1, ?_⟩
  obtain ⟨b1, t1, hc1⟩ := complete_shape h1
  obtain ⟨pe, hrun⟩ := h1
  have hinv : FaInv (.s6 id d sq pe) := faRun_inv c1 .s0 _ rs trivial hrun
  have hsq : sq.isEmpty = false := by
    cases sq with
    | nil => exact absurd rfl hinv
    | cons a t => rfl
  have hL : c1 ++ e ++ 62 :: b :: t = 62 :: b1 :: (t1 ++ e ++ 62 :: b :: t) := by rw [hc1]; simp
  rw [hL, parseFasta_eq_body, ← hL, parseFasta_eq_body]
  have hgt : faStep (.s6 id d sq true) 62 = .ok (.s1, some (mkRec id d sq)) := by
    simp [faStep, hsq]
  have h0 : faStep .s0 62 = .ok (.s1, none) := by simp [faStep]
  unfold faBody
  rw [List.append_assoc, faRun_append, hrun]
  simp only
  rw [faRun_append, faRun_s6_eols_true e id d sq pe he hne]
  simp only
  rw [faRun_cons (.s6 id d sq true) 62 (b :: t), hgt, faRun_cons .s0 62 (b :: t), h0]
  simp only
  cases faRun .s1 (b :: t) with
  | error x => rfl
  | ok p =>
    obtain ⟨sT, rT⟩ := p
    simp only
    cases faFinish sT with
    | error x => rfl
    | ok l => simp

/-- **reader_independent** (FASTA).  `file` is any text the chunk parser reads as a whole number of
records (`FaComplete`: no error, ends inside a sequence).  For EVERY read-buffer size `b ≥ 2` the
chunk reader terminates with some chunks `cs`; the parser workers turn chunk `k` into the batch
`(k, parseFasta cs[k])`; for EVERY order `ks` in which these numbered batches reach `SortBatches`
(any number of workers, any interleaving), the batches released are error-free and their records, in
release order, are exactly the records of the one-chunk parse of the file. -/
theorem reader_independent (file : Seq) (rs : List Rec) (id d sq : Seq)
    (hw : FaComplete file rs id d sq) (b : Nat) (hb : 2 ≤ b) :
    ∃ cs, chunks splitFasta b file = some cs ∧
      ∀ ks : List Nat, ks.Perm (List.range cs.length) →
        ∃ rss : List (List Rec),
          reseq (ks.map fun k => (k, parseFasta (cs.getD k []))) = rss.map Except.ok ∧
          parseFasta file = .ok rss.flatten := by
  obtain ⟨cs, hcs⟩ := chunks_terminate splitFasta FastaCut splitFasta_ok b hb file
  refine ⟨cs, hcs, ?_⟩
  intro ks hperm
  obtain ⟨⟨rss, hmap, hflat⟩, _⟩ :=
    pieces_parse (chunks_pieces splitFasta FastaCut splitFasta_ok b file cs hcs) rs id d sq hw
  refine ⟨rss, ?_, ?_⟩
  · rw [reseq_perm (fun k => parseFasta (cs.getD k [])) cs.length ks hperm, range_map_getD, hmap]
  · rw [parseFasta_complete hw, hflat]

/-- **wellFormed_complete**: every file of the FASTA grammar `WellFormedFasta` (Lemmas/FastaGrammar.lean:
title lines starting with a non-blank byte and containing anything but `\n`/`\r` — also `>`, `@`,
`+` —, sequences over the alphabet folded over any number of lines, LF / CR LF / blank lines as
separators, optional trailing end-of-line bytes) is read as a whole number of records. -/
theorem wellFormed_complete (file : Seq) (h : WellFormedFasta file) :
    ∃ rs id d sq, FaComplete file rs id d sq := ObiVerif.Parse.wellFormed_complete h

/-- **reader_independent** stated on the grammar: ∀ well-formed FASTA file, ∀ buffer size ≥ 2,
∀ arrival order of the parsed chunks at the re-sequencer: the released batches carry, in order, the
records of the one-chunk parse. -/
theorem reader_independent_wellFormed (file : Seq) (hw : WellFormedFasta file) (b : Nat) (hb : 2 ≤ b) :
    ∃ cs, chunks splitFasta b file = some cs ∧
      ∀ ks : List Nat, ks.Perm (List.range cs.length) →
        ∃ rss : List (List Rec),
          reseq (ks.map fun k => (k, parseFasta (cs.getD k []))) = rss.map Except.ok ∧
          parseFasta file = .ok rss.flatten := by
  obtain ⟨rs, id, d, sq, hc⟩ := ObiVerif.Parse.wellFormed_complete hw
  exact reader_independent file rs id d sq hc b hb

instance (e : Seq) : Decidable (AllEol e) := by unfold AllEol; infer_instance
instance (e : Seq) : Decidable (NoEol e) := by unfold NoEol; infer_instance
instance (e : Seq) : Decidable (SeqBytes e) := by unfold SeqBytes; infer_instance

/-- non-vacuity of the grammar: `>a x␊AC␊GT␊>b␍␊T␊` -/
example : WellFormedFasta [62, 97, 32, 120, 10, 65, 67, 10, 71, 84, 10, 62, 98, 13, 10, 84, 10] :=
  ⟨_, [10],
    FastaRecords.more (h := [97, 32, 120]) (e := [10]) (body := [65, 67, 10, 71, 84]) (e' := [10])
      (rest := [62, 98, 13, 10, 84])
      ⟨97, [32, 120], rfl, by decide, by decide⟩ ⟨by decide, by decide⟩
      (SeqLines.more (l := [65, 67]) (e := [10]) (rest := [71, 84]) ⟨by decide, by decide⟩
        ⟨by decide, by decide⟩ (SeqLines.one ⟨by decide, by decide⟩))
      ⟨by decide, by decide⟩
      (FastaRecords.one (h := [98]) (e := [13, 10]) (body := [84]) ⟨98, [], rfl, by decide, by decide⟩
        ⟨by decide, by decide⟩ (SeqLines.one ⟨by decide, by decide⟩)),
    by decide, rfl⟩

/-- the empty file: no chunk, no record, for every buffer size -/
theorem reader_empty_file (split : Seq → Int) (b : Nat) (hb : 1 ≤ b) : chunks split b [] = some [] := by
  unfold chunks readFull
  have : ¬ (0 = b) := by omega
  simp [this]

/-! ## 4. FASTQ and flat-file splitters: contract of `ReadSeqFileChunk` -/

/-- `EndOfLastFastqEntry` returns −1 or a position in `[1, len]` -/
theorem splitFastq_contract : SplitterOK splitFastq (fun _ _ => True) := splitFastq_ok

/-- a non-negative result of `EndOfLastFastqEntry` follows an end-of-line byte (it is a line start) -/
theorem splitFastq_line_start (buf : Seq) (h : 0 ≤ splitFastq buf) :
    ∃ e, buf[(splitFastq buf).toNat - 1]? = some e ∧ isEol e = true := by
  unfold splitFastq at h ⊢
  rcases fqScan_spec buf.reverse with h1 | ⟨cut, h1, h2, h3, e, he, hee⟩
  · omega
  · rw [h1]
    simp only [Int.toNat_natCast]
    refine ⟨e, ?_, hee⟩
    simp only [List.length_reverse] at he h3
    rw [List.getElem?_reverse (by omega)] at he
    have : buf.length - 1 - (buf.length - cut) = cut - 1 := by omega
    rw [this] at he
    exact he

/-- `EndOfLastFlatFileEntry` returns −1 or a position in `[1, len]` that follows an end-of-record line -/
theorem splitFlat_contract : SplitterOK splitFlat FlatCut := splitFlat_ok_cut

/-- **splitFlat_spec**: the bytes before a non-negative result end with `\n//\n` or `\n//\r\n` -/
theorem splitFlat_spec (buf : Seq) (h : 0 ≤ splitFlat buf) : FlatEnd (buf.take (splitFlat buf).toNat) :=
  splitFlat_cut buf h

/-- **parseEmbl_append** (EMBL record locality, repaired parser, real `bufio.Scanner`): if `a` ends with an
end-of-record line and has no line of 65536 bytes or more, then for EVERY `b` the records of `a ++ b`
parsed as one chunk are the records of `a` followed by what the parser returns on `b` alone (no record
inherits `taxid`, `scientific_name`, `id`, definition, features or sequence bytes from the previous one),
and it fails exactly as the parse of `b` fails (a line of 65536 bytes or more in `b`: fatal since the repair
`C01-embl-scanner-err`).  `emblRecs` = the line machine on ALL the lines of the text
(Lemmas/Embl.lean); it is what the parser returns on every text without over-long line (third clause). -/
theorem parseEmbl_append (withFeat : Bool) (a b : Seq) (h : FlatEnd a) (hs : shortLines maxScanTok a = true) :
    parseEmbl withFeat a = .ok (emblRecs withFeat a) ∧
    parseEmbl withFeat (a ++ b) =
      (match parseEmbl withFeat b with
       | .error e => .error e
       | .ok rb => .ok (emblRecs withFeat a ++ rb)) ∧
    (shortLines maxScanTok b = true → parseEmbl withFeat b = .ok (emblRecs withFeat b)) := by
  refine ⟨parseEmbl_eq_short withFeat a hs, ?_, parseEmbl_eq_short withFeat b⟩
  have := parseEmblMax_append_any maxScanTok (by decide) withFeat h b
  rw [parseEmblMax_short maxScanTok withFeat a hs] at this
  exact this

/-- **parseEmbl_append_any** (same, without any hypothesis on the line lengths of `a`): the chunk `a ++ b`
fails as `a` fails, else as `b` fails, else yields the records of `a` followed by those of `b` — the
statement GenBank has (`parseGenbank_append`) -/
theorem parseEmbl_append_any (withFeat : Bool) (a b : Seq) (h : FlatEnd a) :
    parseEmbl withFeat (a ++ b) =
      match parseEmbl withFeat a with
      | .error e => .error e
      | .ok ra =>
        match parseEmbl withFeat b with
        | .error e => .error e
        | .ok rb => .ok (ra ++ rb) :=
  parseEmblMax_append_any maxScanTok (by decide) withFeat h b

/-- **parseEmbl_fatal_iff** (repair `C01-embl-scanner-err`): `EmblChunkParser` + `_ParseEmblFile` end with
`log.Fatalf` exactly on the chunks that contain a line of 65536 bytes or more; on every other chunk every
line is handed to the line machine; there is no panic path. -/
theorem parseEmbl_fatal_iff (withFeat : Bool) (c : Seq) :
    (parseEmbl withFeat c = .error .fatal ↔ shortLines maxScanTok c = false) ∧
    (shortLines maxScanTok c = true → parseEmbl withFeat c = .ok (emblRecs withFeat c)) ∧
    parseEmbl withFeat c ≠ .error .panic :=
  ⟨(parseEmblMax_fatal_iff maxScanTok (by decide) withFeat c).1, parseEmbl_eq_short withFeat c,
   (parseEmblMax_fatal_iff maxScanTok (by decide) withFeat c).2.2⟩

/-- **embl_long_line_fatal** (what the repaired code does with a line the scanner cannot hold, for ANY token
limit `max > 0`, in particular the real 65536): `pre` is empty or ends with `\n` and has no long line, `l` is a
line of `max` bytes or more: the scanner hands over the lines of `pre` only, and the outcome is fatal.
Before the repair (`parseEmblMaxSilent`, `scanner.Err()` never consulted) the parser returned the records of
`pre` as if nothing had happened: the long line and every record after it in the same chunk were dropped
without any error. -/
theorem embl_long_line_fatal (max : Nat) (hmax : 0 < max) (withFeat : Bool) (pre l rest : Seq)
    (hpre : pre = [] ∨ ∃ p, pre = p ++ [10]) (hshort : shortLines max pre = true)
    (hl : ∀ c ∈ l, c ≠ 10) (hlen : max ≤ l.length) (hrest : rest = [] ∨ ∃ r, rest = 10 :: r) :
    linesScanMax max (pre ++ l ++ rest) = linesScan pre ∧
    parseEmblMax max withFeat (pre ++ l ++ rest) = .error .fatal ∧
    parseEmblMaxSilent max withFeat (pre ++ l ++ rest) = .ok (emblRecs withFeat pre) := by
  have hstop := linesScanMax_stops max pre l rest hpre hshort hl hlen hrest
  refine ⟨hstop, ?_, ?_⟩
  · apply (parseEmblMax_fatal_iff max hmax withFeat _).2.1
    -- a short text has as many lines as the scanner hands over; here the scan stopped early
    cases hs : shortLines max (pre ++ l ++ rest) with
    | false => rfl
    | true =>
      exfalso
      rw [List.append_assoc] at hs
      have h2 := (shortLines_append hs).2
      have h3 := (shortLines_append h2).1
      unfold shortLines at h3
      have : ∀ (l : Seq) (n : Nat), (∀ c ∈ l, c ≠ 10) → shortRun max l n = true → n + l.length < max := by
        intro l
        induction l with
        | nil => intro n _ h; simpa [shortRun] using h
        | cons c t ih =>
          intro n hc h
          have h10 : (c == 10) = false := by simpa using hc c (by simp)
          simp only [shortRun, h10] at h
          have := ih (n + 1) (fun x hx => hc x (by simp [hx])) h
          simp only [List.length_cons]; omega
      have := this l 0 hl h3
      omega
  · unfold parseEmblMaxSilent emblRecs
    rw [hstop]

/-- such inputs are outside the property (an EMBL line has at most 80 bytes).  Illustration with an 8-byte
token buffer, `ID   A;␊XXXXXXXX␊//␊ID   B;␊//␊`: repaired code: fatal as one chunk, fatal with a 4-byte read
buffer (the first of the two chunks is fatal) — the same outcome; before the repair: nothing returned as one
chunk, record `B` returned when a cut falls after the first `//` line (chunk dependence, no message). -/
theorem reader_embl_longline_example :
    let file : Seq := [73, 68, 32, 32, 32, 65, 59, 10, 88, 88, 88, 88, 88, 88, 88, 88, 10, 47, 47, 10, 73, 68, 32, 32, 32, 66, 59, 10, 47, 47, 10]
    shortLines 8 file = false ∧ parseEmblMax 8 false file = .error .fatal ∧
    (chunks splitFlat 4 file).map (fun cs => cs.map (parseEmblMax 8 false)) =
      some [.error .fatal, .ok [{ id := [66], defn := [], seq := [], flat := some (1, [], []) }]] ∧
    parseEmblMaxSilent 8 false file = .ok [] ∧
    (chunks splitFlat 4 file).map (fun cs => cs.map (parseEmblMaxSilent 8 false)) =
      some [.ok [], .ok [{ id := [66], defn := [], seq := [], flat := some (1, [], []) }]] := by
  refine ⟨by decide, by rfl, by rfl, by rfl, by rfl⟩

/-- what remains chunk-dependent after the repair (irregular input, not a well-formed file): a LAST line of
`max − 1` bytes followed by `␍␊`.  As one chunk the scanner needs `max` bytes before the `␊`: fatal; the
chunk reader strips the final `␍␊`, the unterminated line of `max − 1` bytes fits.  8-byte illustration
`ID   A;␊//␊XXXXXXX␍␊`. -/
theorem reader_embl_longline_last_line_example :
    let file : Seq := [73, 68, 32, 32, 32, 65, 59, 10, 47, 47, 10, 88, 88, 88, 88, 88, 88, 88, 13, 10]
    parseEmblMax 8 false file = .error .fatal ∧
    (chunks splitFlat 4 file).map (fun cs => cs.map (parseEmblMax 8 false)) =
      some [.ok [{ id := [65], defn := [], seq := [], flat := some (1, [], []) }], .ok []] := by
  refine ⟨by rfl, by rfl⟩

/-- non-vacuity: `ID   A;␊//␊` ends with an end-of-record line -/
example : FlatEnd [73, 68, 32, 32, 32, 65, 59, 10, 47, 47, 10] := ⟨[73, 68, 32, 32, 32, 65, 59], Or.inl rfl⟩

/-- hence, for the four formats: whatever the buffer size ≥ 2, the chunk reader terminates and its
chunks, in order, are the file minus runs of end-of-line bytes; no chunk is empty -/
theorem chunks_all_formats (b : Nat) (hb : 2 ≤ b) (file : Seq) :
    ∀ split ∈ [splitFasta, splitFastq, splitFlat],
      ∃ cs, chunks split b file = some cs ∧ StripJoin cs file ∧ ∀ c ∈ cs, c ≠ [] := by
  intro split hmem
  simp only [List.mem_cons, List.not_mem_nil, or_false] at hmem
  rcases hmem with rfl | rfl | rfl
  · obtain ⟨cs, h⟩ := chunks_terminate _ _ splitFasta_ok b hb file
    exact ⟨cs, h, chunks_reassemble _ _ splitFasta_ok b file cs h⟩
  · obtain ⟨cs, h⟩ := chunks_terminate _ _ splitFastq_ok b hb file
    exact ⟨cs, h, chunks_reassemble _ _ splitFastq_ok b file cs h⟩
  · obtain ⟨cs, h⟩ := chunks_terminate _ _ splitFlat_ok_cut b hb file
    exact ⟨cs, h, chunks_reassemble _ _ splitFlat_ok_cut b file cs h⟩

/-- (tests on samples) `@a␊AC␊+␊@I␊@b␊GG␊+␊II`: the `@` of the quality line (offset 8) is not a cut, the
record start at offset 11 is; GenBank-like text: the cut follows `␊//␊` -/
example : splitFastq [64, 97, 10, 65, 67, 10, 43, 10, 64, 73, 10, 64, 98, 10, 71, 71, 10, 43, 10, 73, 73] = 11 := by decide
example : splitFlat [120, 120, 10, 47, 47, 10, 76, 79] = 6 := by decide

/-! ## 4b. FASTQ: the splitter cuts at record starts, the parser is record-local, the reader is chunk-independent -/

/-- **what `EndOfLastFastqEntry` recognises**, for ANY buffer: a non-negative result is the offset of
an `@` that follows an end-of-line byte and is followed by `x EOL⁺ s sep* EOL '+'`, `x` without
end-of-line byte, `s` a non-empty run over the sequence alphabet (`FastqCut`, Lemmas/FastqSplit.lean) -/
theorem splitFastq_pattern : SplitterOK splitFastq FastqCut := splitFastq_ok_cut

/-- **splitFastq_is_record_start**.  `buf` is a prefix (what `ReadSeqFileChunk` has read so far) of a
text `buf ++ more` that the byte machine of `FastqChunkParser` reads without error (in particular: of
any well-formed file, next theorem).  A non-negative result `n` of `EndOfLastFastqEntry(buf)` is the
offset of an `@` at which the parser, having read `buf[0..n)`, is waiting for a record (state 11): the
`@` is never the first byte of a quality line (nor of a sequence line).  The rest of the run is the run of
a fresh parser on `buf[n..] ++ more`, and the records are split accordingly. -/
theorem splitFastq_is_record_start (sh : UInt8) (wq : Bool) (buf more : Seq) (sF : FqSt) (rs : List Rec)
    (hread : fqRun sh wq .s0 (buf ++ more) = .ok (sF, rs)) (h : 0 ≤ splitFastq buf) :
    ∃ rs1 rs2 t, buf.drop (splitFastq buf).toNat = 64 :: t ∧
      fqRun sh wq .s0 (buf.take (splitFastq buf).toNat) = .ok (.s11, rs1) ∧
      fqRun sh wq .s0 (buf.drop (splitFastq buf).toNat ++ more) = .ok (sF, rs2) ∧ rs = rs1 ++ rs2 := by
  have hcut := splitFastq_ok_cut.ext _ _ more (splitFastq_cut buf h)
  have hsplit : buf ++ more = buf.take (splitFastq buf).toNat ++ (buf.drop (splitFastq buf).toNat ++ more) := by
    rw [← List.append_assoc, List.take_append_drop]
  rw [hsplit] at hread
  obtain ⟨rs1, rs2, hA, hB, hrs⟩ := fqRun_cut sh wq hcut hread
  obtain ⟨_, x, eols, s, seps, e2, rest, hb, _⟩ := splitFastq_cut buf h
  exact ⟨rs1, rs2, _, by rw [hb]; simp only [List.cons_append, List.append_assoc]; rfl, hA, hB, hrs⟩

/-- **wellFormedFastq_complete**: every file of the FASTQ grammar `WellFormedFastq`
(Lemmas/FastqGrammar.lean: four-line records `@`title / sequence over the alphabet / `+`anything / quality
line of the same length and any bytes but `\n`,`\r` — it may start with `@` or `+` —, LF / CR LF / blank
lines as separators, optional trailing end-of-line bytes) is read as a whole number of records, with or
without qualities. -/
theorem wellFormedFastq_complete (sh : UInt8) (wq : Bool) (file : Seq) (h : WellFormedFastq file) :
    ∃ rs, FqComplete sh wq file rs := ObiVerif.Parse.wellFormedFastq_complete sh wq h

/-- `splitFastq_is_record_start` on the grammar: on every prefix of every well-formed file -/
theorem splitFastq_is_record_start_wellFormed (sh : UInt8) (wq : Bool) (buf more : Seq)
    (hw : WellFormedFastq (buf ++ more)) (h : 0 ≤ splitFastq buf) :
    ∃ rs1 t, buf.drop (splitFastq buf).toNat = 64 :: t ∧
      fqRun sh wq .s0 (buf.take (splitFastq buf).toNat) = .ok (.s11, rs1) := by
  obtain ⟨rs, s, rs0, l, hrun, _⟩ := ObiVerif.Parse.wellFormedFastq_complete sh wq hw
  obtain ⟨rs1, _, t, ht, hA, _⟩ := splitFastq_is_record_start sh wq buf more s rs0 hrun h
  exact ⟨rs1, t, ht, hA⟩

/-- **never the `@` of a quality line**, in grammar terms: on a prefix of a well-formed file a
non-negative result is not the offset at which a quality line starts (`BeforeQual`,
Lemmas/FastqGrammar.lean: whole records, then `@`title, sequence line, `+` line and the end-of-line
run that precedes the quality line) — there the parser is in state 9, not 11. -/
theorem splitFastq_never_quality_line (buf more : Seq) (hw : WellFormedFastq (buf ++ more))
    (h : 0 ≤ splitFastq buf) : ¬ BeforeQual (buf.take (splitFastq buf).toNat) := by
  intro hb
  obtain ⟨rs1, t, _, hA⟩ := splitFastq_is_record_start_wellFormed 0 false buf more hw h
  obtain ⟨r, rs, hr⟩ := beforeQual_state 0 false hb
  rw [hr] at hA
  cases hA

/-- **chunks_cut_at_boundaries** (FASTQ): every chunk of a file that is a whole number of records is
itself a whole number of records, whatever the buffer size. -/
theorem chunks_cut_at_boundaries_fastq (sh : UInt8) (wq : Bool) (file : Seq) (rs : List Rec)
    (hw : FqComplete sh wq file rs) (b : Nat) (cs : List Seq) (h : chunks splitFastq b file = some cs) :
    ∀ c ∈ cs, ∃ rs', FqComplete sh wq c rs' :=
  (pieces_parse_fastq sh wq (chunks_pieces splitFastq FastqCut splitFastq_ok_cut b file cs h) rs hw).2

/-- **parseFastq_append** (record locality): if `c1` is a whole number of records, `e` a non-empty run
of end-of-line bytes and `c2 = '@' :: t` any text starting with `@` (well-formed or not), then parsing
`c1 ++ e ++ c2` as one chunk gives the records of `c1` followed by the records of `c2`, and fails
exactly as the parse of `c2` fails. -/
theorem parseFastq_append (sh : UInt8) (wq : Bool) (c1 : Seq) (rs : List Rec) (h1 : FqComplete sh wq c1 rs)
    (e : Seq) (he : AllEol e) (hne : e ≠ []) (t : Seq) :
    parseFastq sh wq c1 = .ok rs ∧
    parseFastq sh wq (c1 ++ e ++ 64 :: t) =
      match parseFastq sh wq (64 :: t) with
      | .error x => .error x
      | .ok r2 => .ok (rs ++ r2) :=
  ⟨parseFastq_complete sh wq h1, parseFastq_append_complete sh wq h1 he hne t⟩

/-- **reader_independent_fastq**.  `file` is any text the chunk parser reads as a whole number of
records (`FqComplete`: no error, ends in or just after a quality line), for any quality shift, with or
without qualities.  For EVERY read-buffer size `b ≥ 2` the chunk reader terminates with some chunks
`cs`; the parser workers turn chunk `k` into the batch `(k, parseFastq cs[k])`; for EVERY order `ks` in
which these numbered batches reach `SortBatches`, the batches released are error-free and their
records, in release order, are exactly the records of the one-chunk parse of the file. -/
theorem reader_independent_fastq (sh : UInt8) (wq : Bool) (file : Seq) (rs : List Rec)
    (hw : FqComplete sh wq file rs) (b : Nat) (hb : 2 ≤ b) :
    ∃ cs, chunks splitFastq b file = some cs ∧
      ∀ ks : List Nat, ks.Perm (List.range cs.length) →
        ∃ rss : List (List Rec),
          reseq (ks.map fun k => (k, parseFastq sh wq (cs.getD k []))) = rss.map Except.ok ∧
          parseFastq sh wq file = .ok rss.flatten := by
  obtain ⟨cs, hcs⟩ := chunks_terminate splitFastq FastqCut splitFastq_ok_cut b hb file
  refine ⟨cs, hcs, ?_⟩
  intro ks hperm
  obtain ⟨⟨rss, hmap, hflat⟩, _⟩ :=
    pieces_parse_fastq sh wq (chunks_pieces splitFastq FastqCut splitFastq_ok_cut b file cs hcs) rs hw
  refine ⟨rss, ?_, ?_⟩
  · rw [reseq_perm (fun k => parseFastq sh wq (cs.getD k [])) cs.length ks hperm, range_map_getD, hmap]
  · rw [parseFastq_complete sh wq hw, hflat]

/-- **reader_independent_fastq** stated on the grammar: ∀ well-formed single-line FASTQ file, ∀ quality
shift, with or without qualities, ∀ buffer size ≥ 2, ∀ arrival order of the parsed chunks at the
re-sequencer: the released batches carry, in order, the records of the one-chunk parse. -/
theorem reader_independent_fastq_wellFormed (sh : UInt8) (wq : Bool) (file : Seq) (hw : WellFormedFastq file)
    (b : Nat) (hb : 2 ≤ b) :
    ∃ cs, chunks splitFastq b file = some cs ∧
      ∀ ks : List Nat, ks.Perm (List.range cs.length) →
        ∃ rss : List (List Rec),
          reseq (ks.map fun k => (k, parseFastq sh wq (cs.getD k []))) = rss.map Except.ok ∧
          parseFastq sh wq file = .ok rss.flatten := by
  obtain ⟨rs, hc⟩ := ObiVerif.Parse.wellFormedFastq_complete sh wq hw
  exact reader_independent_fastq sh wq file rs hc b hb

/-- non-vacuity: the two-record file `@a␊AC␊+␊@I␊@b␊GG␊+␊II` whose first quality line starts with `@` -/
def exFastq : Seq := [64, 97, 10, 65, 67, 10, 43, 10, 64, 73, 10, 64, 98, 10, 71, 71, 10, 43, 10, 73, 73]

example : WellFormedFastq exFastq :=
  ⟨_, [],
    FastqRecords.more (h := [97]) (e1 := [10]) (sq := [65, 67]) (e2 := [10]) (p := []) (e3 := [10])
      (q := [64, 73]) (e4 := [10]) (rest := [64, 98, 10, 71, 71, 10, 43, 10, 73, 73])
      ⟨97, [], rfl, by decide, by decide⟩ ⟨by decide, by decide⟩ ⟨by decide, by decide⟩ ⟨by decide, by decide⟩
      (by decide) ⟨by decide, by decide⟩ (by decide) rfl ⟨by decide, by decide⟩
      (FastqRecords.one (h := [98]) (e1 := [10]) (sq := [71, 71]) (e2 := [10]) (p := []) (e3 := [10])
        (q := [73, 73]) ⟨98, [], rfl, by decide, by decide⟩ ⟨by decide, by decide⟩ ⟨by decide, by decide⟩
        ⟨by decide, by decide⟩ (by decide) ⟨by decide, by decide⟩ (by decide) rfl),
    by decide, rfl⟩

/-- offset 8 of the sample, the `@` that starts the first quality line, is such a position -/
example : BeforeQual (exFastq.take 8) :=
  BeforeQual.first (h := [97]) (e1 := [10]) (sq := [65, 67]) (e2 := [10]) (p := []) (e3 := [10])
    ⟨97, [], rfl, by decide, by decide⟩ ⟨by decide, by decide⟩ ⟨by decide, by decide⟩ ⟨by decide, by decide⟩
    (by decide) ⟨by decide, by decide⟩

/-- (tests on the sample) on the 20-byte prefix the splitter answers 11 = the `@` of the second record,
not 8 = the `@` that starts the first quality line; with a 5-byte buffer the file is cut there -/
example : splitFastq (exFastq.take 20) = 11 := by decide
example : chunks splitFastq 5 exFastq =
    some [[64, 97, 10, 65, 67, 10, 43, 10, 64, 73], [64, 98, 10, 71, 71, 10, 43, 10, 73, 73]] := by rfl
example : FqComplete 33 true exFastq
    [{ id := [97], defn := [], seq := [97, 99], qual := some [31, 40] },
     { id := [98], defn := [], seq := [103, 103], qual := some [40, 40] }] :=
  ⟨.s10 _ _, _, _, by rfl, trivial, by rfl, by rfl⟩
/-- the hypothesis of `parseFastq_append` on a chunk that ends with its end-of-line byte -/
example : FqComplete 33 true (exFastq.take 11) [{ id := [97], defn := [], seq := [97, 99], qual := some [31, 40] }] :=
  ⟨.s11, _, _, by rfl, trivial, by rfl, by rfl⟩

/-! ## 4c. GenBank / EMBL: record locality and the composed reader under regular line ends -/

/-- **parseGenbank_append** (GenBank record locality, repaired parser): if `a` ends with an
end-of-record line (`\n//\n` or `\n//\r\n`), parsing `a ++ b` as one chunk gives the records of `a`
followed by the records of `b`, for every `b`; it fails as `a` fails, else as `b` fails.  After `//`
the parser is back in `inHeader` with `taxid`, `scientific_name`, definition and features reset; the two
fields it does not reset (`id`, sequence bytes) are dead: only a `LOCUS` line leaves `inHeader` and it
overwrites both. -/
theorem parseGenbank_append (withFeat : Bool) (a b : Seq) (h : FlatEnd a) :
    parseGenbank withFeat (a ++ b) =
      match parseGenbank withFeat a with
      | .error e => .error e
      | .ok ra =>
        match parseGenbank withFeat b with
        | .error e => .error e
        | .ok rb => .ok (ra ++ rb) := parseGenbank_append_flatEnd withFeat h b

/-- **reader_independent_embl**.  `regularEol file`: every `\r` of the file is followed by `\n` (lines
end with `\n` or `\r\n`; Lemmas/Genbank.lean); `shortLines maxScanTok file`: no line of 65536 bytes or more
(the `bufio.Scanner` token limit; with such a line the outcome is fatal: `parseEmbl_fatal_iff`, `embl_long_line_fatal`).
For every such file — records or not —, every buffer
size ≥ 2 and every arrival order of the parsed chunks at the re-sequencer, the released batches carry,
in order, exactly the records of the one-chunk parse (`EmblChunkParser` has no error path). -/
theorem reader_independent_embl (withFeat : Bool) (file : Seq) (hreg : regularEol file = true)
    (hshort : shortLines maxScanTok file = true) (b : Nat) (hb : 2 ≤ b) :
    ∃ cs, chunks splitFlat b file = some cs ∧
      ∀ ks : List Nat, ks.Perm (List.range cs.length) →
        ∃ rss : List (List Rec),
          reseq (ks.map fun k => (k, parseEmbl withFeat (cs.getD k []))) = rss.map Except.ok ∧
          parseEmbl withFeat file = .ok rss.flatten := by
  obtain ⟨cs, hcs⟩ := chunks_terminate splitFlat FlatCut splitFlat_ok_cut b hb file
  refine ⟨cs, hcs, ?_⟩
  intro ks hperm
  have hpc := chunks_pieces splitFlat FlatCut splitFlat_ok_cut b file cs hcs
  have hp := pieces_parse_embl withFeat hpc hreg
  have hsc := pieces_short (max := maxScanTok) hpc hshort
  refine ⟨cs.map (emblRecs withFeat), ?_, ?_⟩
  · rw [reseq_perm (fun k => parseEmbl withFeat (cs.getD k [])) cs.length ks hperm, range_map_getD, List.map_map]
    apply List.map_congr_left
    intro c hc
    exact parseEmbl_eq_short withFeat c (hsc c hc)
  · rw [parseEmbl_eq_short withFeat file hshort, hp]

/-- **reader_independent_genbank**.  For every file with regular line ends that `GenbankChunkParser`
reads without a fatal error as one chunk, every buffer size ≥ 2 and every arrival order of the parsed
chunks at the re-sequencer, the released batches are error-free and carry, in order, exactly the
records of the one-chunk parse. -/
theorem reader_independent_genbank (withFeat : Bool) (file : Seq) (hreg : regularEol file = true)
    (rs : List Rec) (hok : parseGenbank withFeat file = .ok rs) (b : Nat) (hb : 2 ≤ b) :
    ∃ cs, chunks splitFlat b file = some cs ∧
      ∀ ks : List Nat, ks.Perm (List.range cs.length) →
        ∃ rss : List (List Rec),
          reseq (ks.map fun k => (k, parseGenbank withFeat (cs.getD k []))) = rss.map Except.ok ∧
          parseGenbank withFeat file = .ok rss.flatten := by
  obtain ⟨cs, hcs⟩ := chunks_terminate splitFlat FlatCut splitFlat_ok_cut b hb file
  refine ⟨cs, hcs, ?_⟩
  intro ks hperm
  obtain ⟨rss, hmap, hflat⟩ :=
    pieces_parse_genbank withFeat (chunks_pieces splitFlat FlatCut splitFlat_ok_cut b file cs hcs) hreg rs hok
  refine ⟨rss, ?_, ?_⟩
  · rw [reseq_perm (fun k => parseGenbank withFeat (cs.getD k [])) cs.length ks hperm, range_map_getD, hmap]
  · rw [hok, hflat]

/-- **reader_independent_flat**: both flat-file formats, same chunks (the splitter is shared) -/
theorem reader_independent_flat (withFeat : Bool) (file : Seq) (hreg : regularEol file = true)
    (b : Nat) (hb : 2 ≤ b) :
    ∃ cs, chunks splitFlat b file = some cs ∧
      ∀ ks : List Nat, ks.Perm (List.range cs.length) →
        (shortLines maxScanTok file = true →
          ∃ rss : List (List Rec),
          reseq (ks.map fun k => (k, parseEmbl withFeat (cs.getD k []))) = rss.map Except.ok ∧
          parseEmbl withFeat file = .ok rss.flatten) ∧
        (∀ rs, parseGenbank withFeat file = .ok rs →
          ∃ rss : List (List Rec),
            reseq (ks.map fun k => (k, parseGenbank withFeat (cs.getD k []))) = rss.map Except.ok ∧
            parseGenbank withFeat file = .ok rss.flatten) := by
  obtain ⟨cs, hcs⟩ := chunks_terminate splitFlat FlatCut splitFlat_ok_cut b hb file
  refine ⟨cs, hcs, fun ks hperm => ⟨fun hshort => ?_, fun rs hok => ?_⟩⟩
  · obtain ⟨cs', hcs', hE⟩ := reader_independent_embl withFeat file hreg hshort b hb
    rw [hcs] at hcs'
    cases hcs'
    exact hE ks hperm
  · obtain ⟨cs', hcs', hG⟩ := reader_independent_genbank withFeat file hreg rs hok b hb
    rw [hcs] at hcs'
    cases hcs'
    exact hG ks hperm

/-- non-vacuity: two-record files, the second record with CR LF line ends.
GenBank `LOCUS       A␊FEATURES    ␊ORIGIN␊        1 ac␊//␊LOCUS       B␍␊…␍␊//␍␊`,
EMBL `ID   A;␊     ac 2␊//␊ID   B;␍␊     gg 2␍␊//␍␊` -/
def exGenbank : Seq := [76, 79, 67, 85, 83, 32, 32, 32, 32, 32, 32, 32, 65, 10, 70, 69, 65, 84, 85, 82, 69, 83, 32, 32, 32, 32, 10, 79, 82, 73, 71, 73, 78, 10, 32, 32, 32, 32, 32, 32, 32, 32, 49, 32, 97, 99, 10, 47, 47, 10, 76, 79, 67, 85, 83, 32, 32, 32, 32, 32, 32, 32, 66, 13, 10, 70, 69, 65, 84, 85, 82, 69, 83, 32, 32, 32, 32, 13, 10, 79, 82, 73, 71, 73, 78, 13, 10, 32, 32, 32, 32, 32, 32, 32, 32, 49, 32, 103, 103, 13, 10, 47, 47, 13, 10]
def exEmbl : Seq := [73, 68, 32, 32, 32, 65, 59, 10, 32, 32, 32, 32, 32, 97, 99, 32, 50, 10, 47, 47, 10, 73, 68, 32, 32, 32, 66, 59, 13, 10, 32, 32, 32, 32, 32, 103, 103, 32, 50, 13, 10, 47, 47, 13, 10]

example : regularEol exGenbank = true ∧ regularEol exEmbl = true := by decide
example : shortLines maxScanTok exEmbl = true := by decide
example : parseGenbank false exGenbank =
    .ok [{ id := [65], defn := [], seq := [97, 99], flat := some (1, [], []) },
         { id := [66], defn := [], seq := [103, 103], flat := some (1, [], []) }] := by rfl
/-- (tests on the samples) with an 8-byte buffer both files are cut after the first `//` line -/
example : (chunks splitFlat 8 exGenbank).map List.length = some 2 := by rfl
example : (chunks splitFlat 8 exEmbl).map (fun cs => cs.map (parseEmbl false)) =
    some [.ok [{ id := [65], defn := [], seq := [97, 99], flat := some (1, [], []) }],
          .ok [{ id := [66], defn := [], seq := [103, 103], flat := some (1, [], []) }]] := by rfl

/-- **the regular-line-end hypothesis is needed** (irregular files, not well-formed ones).
EMBL `ID   A;␊//␍␍␊`: as one chunk the line `//␍` is not an end of record and no record is returned;
`ReadSeqFileChunk` strips the whole run `␍␍␊` from its (single) chunk, whose parse returns one record. -/
theorem reader_embl_irregular_counterexample :
    let file : Seq := [73, 68, 32, 32, 32, 65, 59, 10, 47, 47, 13, 13, 10]
    regularEol file = false ∧ parseEmbl false file = .ok [] ∧
    chunks splitFlat 4 file = some [[73, 68, 32, 32, 32, 65, 59, 10, 47, 47]] ∧
    parseEmbl false [73, 68, 32, 32, 32, 65, 59, 10, 47, 47] =
      .ok [{ id := [65], defn := [], seq := [], flat := some (1, [], []) }] := by
  refine ⟨by decide, by rfl, by rfl, by rfl⟩

/-- GenBank `LOCUS       A␊FEATURES    ␊ORIGIN␊//␍` (a last line ending with a lone `␍`): as one chunk
`ReadLine` returns `//␍`, taken as a sequence line shorter than 10 bytes (`line[10:]` panics); the
chunk reader strips the `␍` and the parse of its chunk returns one record. -/
theorem reader_genbank_irregular_counterexample :
    let file : Seq := [76, 79, 67, 85, 83, 32, 32, 32, 32, 32, 32, 32, 65, 10, 70, 69, 65, 84, 85, 82, 69, 83, 32, 32, 32, 32, 10, 79, 82, 73, 71, 73, 78, 10, 47, 47, 13]
    regularEol file = false ∧ parseGenbank false file = .error .panic ∧
    (chunks splitFlat 4 file).map (fun cs => cs.map (parseGenbank false)) =
      some [.ok [{ id := [65], defn := [], seq := [], flat := some (1, [], []) }]] := by
  refine ⟨by decide, by rfl, by rfl⟩

/-! ## 5. Scope of the hypotheses

FASTA, FASTQ: the composed theorems hold for every text the chunk parser reads as a whole number of
records (`FaComplete`, `FqComplete`), in particular for every file of the grammars `WellFormedFasta`,
`WellFormedFastq`.  A FASTQ text that ends inside a record (e.g. after the sequence line) is outside
`FqComplete`: the final flush strips its trailing end-of-line bytes, which changes the state in which
the parser ends.
GenBank / EMBL: `regularEol` (every `\r` followed by `\n`) is needed only for the LAST chunk, the
only one whose stripped end-of-line run is not known to be `\n` or `\r\n`; the two counterexamples
above are irregular files.  EMBL record locality (`parseEmbl_append`) and GenBank record locality
(`parseGenbank_append`) are false before the repair `C01-flatfile-record-state-reset` (witness: two
records, the second without `/db_xref="taxon:`). -/

/-- non-vacuity: the two-record file `>a x>y␍␊AC␍␊GT␍␊>b␊TT␊` (folded sequence, CR LF, a title containing `>`) -/
def exFile : Seq := [62, 97, 32, 120, 62, 121, 13, 10, 65, 67, 13, 10, 71, 84, 13, 10, 62, 98, 10, 84, 84, 10]

example : FaComplete exFile [mkRec [97] [120, 62, 121] [97, 99, 103, 116]] [98] [] [116, 116] :=
  ⟨true, by rfl⟩

/-- (test on a sample) with a 5-byte buffer the file is cut into two chunks -/
example : chunks splitFasta 5 exFile =
    some [[62, 97, 32, 120, 62, 121, 13, 10, 65, 67, 13, 10, 71, 84], [62, 98, 10, 84, 84]] := by rfl

/-! ## 6. Record content = what the record's own text says (FASTA, FASTQ)

`FaSrc` / `FqSrc` (Lemmas/FastaContent.lean, Lemmas/FastqContent.lean): the source text of one record —
title, sequence line(s), `+` line, quality line — with its own lay-out (end-of-line runs, folding);
`faFileText` / `fqFileText` render a first record, further records each preceded by a non-empty
end-of-line run, and an end-of-line tail.  `FaSrc.record` / `FqSrc.record`: identifier = title up to
the first blank/tab, definition = the rest after that run of blanks/tabs, sequence = the sequence
line(s) lower-cased, qualities = quality line minus the shift. -/

/-- the rendered files are exactly the files of the FASTA grammar -/
theorem wellFormedFasta_iff_rendered (file : Seq) :
    WellFormedFasta file ↔
      ∃ (r0 : FaSrc) (rest : List (Seq × FaSrc)) (tail : Seq), r0.OK ∧ (∀ p ∈ rest, EolRun p.1 ∧ p.2.OK) ∧
        AllEol tail ∧ file = faFileText r0 rest tail :=
  ⟨wellFormed_faFileText, fun ⟨r0, rest, tail, h0, hr, ht, he⟩ => he ▸ faFileText_wellFormed r0 rest tail h0 hr ht⟩

/-- **parseFasta_content**: on every well-formed FASTA file the chunk parser returns, in file order, for
each record exactly what that record's own text says — whatever its neighbours and the lay-out -/
theorem parseFasta_content (r0 : FaSrc) (rest : List (Seq × FaSrc)) (tail : Seq) (h0 : r0.OK)
    (hrest : ∀ p ∈ rest, EolRun p.1 ∧ p.2.OK) (ht : AllEol tail) :
    parseFasta (faFileText r0 rest tail) = .ok (r0.record :: rest.map (fun p => p.2.record)) :=
  ObiVerif.Parse.parseFasta_content r0 rest tail h0 hrest ht

/-- **reader_content_fasta** (the property for FASTA, end to end): for every well-formed file, every
read-buffer size ≥ 2 and every arrival order of the parsed chunks at `SortBatches`, the released
batches are error-free and carry, in file order, exactly the records the texts imply. -/
theorem reader_content_fasta (r0 : FaSrc) (rest : List (Seq × FaSrc)) (tail : Seq) (h0 : r0.OK)
    (hrest : ∀ p ∈ rest, EolRun p.1 ∧ p.2.OK) (ht : AllEol tail) (b : Nat) (hb : 2 ≤ b) :
    ∃ cs, chunks splitFasta b (faFileText r0 rest tail) = some cs ∧
      ∀ ks : List Nat, ks.Perm (List.range cs.length) →
        ∃ rss : List (List Rec),
          reseq (ks.map fun k => (k, parseFasta (cs.getD k []))) = rss.map Except.ok ∧
          rss.flatten = r0.record :: rest.map (fun p => p.2.record) := by
  obtain ⟨cs, hcs, hall⟩ :=
    reader_independent_wellFormed _ (faFileText_wellFormed r0 rest tail h0 hrest ht) b hb
  refine ⟨cs, hcs, fun ks hperm => ?_⟩
  obtain ⟨rss, h1, h2⟩ := hall ks hperm
  refine ⟨rss, h1, ?_⟩
  rw [ObiVerif.Parse.parseFasta_content r0 rest tail h0 hrest ht] at h2
  exact (Except.ok.inj h2).symm

/-- non-vacuity (and a test on a sample): `>a x>y␍␊AC␍␊GT␍␊>b␉z ␊TT␊` — CR LF, folded sequence, `>` in a
title, a tab and a trailing blank in the second title -/
def exSrcA : FaSrc := { title := [97, 32, 120, 62, 121], eol := [13, 10], first := [65, 67], more := [([13, 10], [71, 84])] }
def exSrcB : FaSrc := { title := [98, 9, 122, 32], eol := [10], first := [84, 84], more := [] }
example : exSrcA.OK ∧ exSrcB.OK :=
  ⟨⟨⟨97, _, rfl, by decide, by decide⟩, ⟨by decide, by decide⟩, ⟨by decide, by decide⟩,
    by intro p hp; simp only [exSrcA, List.mem_cons, List.not_mem_nil, or_false] at hp; subst hp
       exact ⟨⟨by decide, by decide⟩, ⟨by decide, by decide⟩⟩⟩,
   ⟨⟨98, _, rfl, by decide, by decide⟩, ⟨by decide, by decide⟩, ⟨by decide, by decide⟩,
    by intro p hp; simp [exSrcB] at hp⟩⟩
example : faFileText exSrcA [([13, 10], exSrcB)] [10] =
    [62, 97, 32, 120, 62, 121, 13, 10, 65, 67, 13, 10, 71, 84, 13, 10, 62, 98, 9, 122, 32, 10, 84, 84, 10] := by decide
example : exSrcA.record = { id := [97], defn := [120, 62, 121], seq := [97, 99, 103, 116] } ∧
    exSrcB.record = { id := [98], defn := [122, 32], seq := [116, 116] } := by decide

/-- the rendered files are exactly the files of the FASTQ grammar -/
theorem wellFormedFastq_iff_rendered (file : Seq) :
    WellFormedFastq file ↔
      ∃ (r0 : FqSrc) (rest : List (Seq × FqSrc)) (tail : Seq), r0.OK ∧ (∀ p ∈ rest, EolRun p.1 ∧ p.2.OK) ∧
        AllEol tail ∧ file = fqFileText r0 rest tail :=
  ⟨wellFormed_fqFileText, fun ⟨r0, rest, tail, h0, hr, ht, he⟩ => he ▸ fqFileText_wellFormed r0 rest tail h0 hr ht⟩

/-- **parseFastq_content**: on every well-formed FASTQ file, for every quality shift, with or without
qualities, the chunk parser returns, in file order, for each record exactly what its own text says
(a quality line starting with `@` or `+` included) -/
theorem parseFastq_content (sh : UInt8) (wq : Bool) (r0 : FqSrc) (rest : List (Seq × FqSrc)) (tail : Seq)
    (h0 : r0.OK) (hrest : ∀ p ∈ rest, EolRun p.1 ∧ p.2.OK) (ht : AllEol tail) :
    parseFastq sh wq (fqFileText r0 rest tail) = .ok (r0.record sh wq :: rest.map (fun p => p.2.record sh wq)) :=
  ObiVerif.Parse.parseFastq_content sh wq rest r0 tail h0 hrest ht

/-- **reader_content_fastq** (the property for FASTQ, end to end) -/
theorem reader_content_fastq (sh : UInt8) (wq : Bool) (r0 : FqSrc) (rest : List (Seq × FqSrc)) (tail : Seq)
    (h0 : r0.OK) (hrest : ∀ p ∈ rest, EolRun p.1 ∧ p.2.OK) (ht : AllEol tail) (b : Nat) (hb : 2 ≤ b) :
    ∃ cs, chunks splitFastq b (fqFileText r0 rest tail) = some cs ∧
      ∀ ks : List Nat, ks.Perm (List.range cs.length) →
        ∃ rss : List (List Rec),
          reseq (ks.map fun k => (k, parseFastq sh wq (cs.getD k []))) = rss.map Except.ok ∧
          rss.flatten = r0.record sh wq :: rest.map (fun p => p.2.record sh wq) := by
  obtain ⟨cs, hcs, hall⟩ :=
    reader_independent_fastq_wellFormed sh wq _ (fqFileText_wellFormed r0 rest tail h0 hrest ht) b hb
  refine ⟨cs, hcs, fun ks hperm => ?_⟩
  obtain ⟨rss, h1, h2⟩ := hall ks hperm
  refine ⟨rss, h1, ?_⟩
  rw [ObiVerif.Parse.parseFastq_content sh wq rest r0 tail h0 hrest ht] at h2
  exact (Except.ok.inj h2).symm

/-- non-vacuity: the record `@a d␊AC␊+␊@I` (quality line starting with `@`) -/
def exSrcQ : FqSrc := { title := [97, 32, 100], e1 := [10], sq := [65, 67], e2 := [10], plus := [], e3 := [10], qual := [64, 73] }
example : exSrcQ.OK :=
  ⟨⟨97, _, rfl, by decide, by decide⟩, ⟨by decide, by decide⟩, ⟨by decide, by decide⟩, ⟨by decide, by decide⟩,
   by decide, ⟨by decide, by decide⟩, by decide, rfl⟩
example : exSrcQ.record 33 true = { id := [97], defn := [100], seq := [97, 99], qual := some [31, 40] } := by decide

/-- (tests on samples) `strings.TrimSpace` on bytes: NBSP (C2 A0), NEL (C2 85), U+2003 (E2 80 83), VT and FF are
trimmed at both ends; a lone continuation byte A0, a lone lead byte C2, the zero-width space (E2 80 8B) and an
overlong blank (C0 A0) are not white space and stop the trimming -/
example : trimSpace [0xC2, 0xA0, 11, 97, 32, 98, 12, 0xE2, 0x80, 0x83, 0xC2, 0x85] = [97, 32, 98] := by decide
example : trimSpace [0xA0, 97, 0xC2] = [0xA0, 97, 0xC2] := by decide
example : trimSpace [32, 0xE2, 0x80, 0x8B, 97, 0xC0, 0xA0, 32] = [0xE2, 0x80, 0x8B, 97, 0xC0, 0xA0] := by decide
example : trimSpace [32, 0xC2, 0xA0, 9] = [] := by decide

/-! ## 7. Record content = what the entry's own text says (EMBL, GenBank)

`EmEntry` / `GbEntry` (Lemmas/EmblContent.lean, Lemmas/GenbankContent.lean): the source text of one flat-file
entry as classified lines; `EmEntry.record` / `GbEntry.record`: identifier from the `ID` / `LOCUS` line,
definition from the `DE` lines / the `DEFINITION` line and its continuation lines (trimmed, joined by one
blank), scientific name from `OS` / `SOURCE`, taxid from the `/db_xref="taxon:N"` qualifier (1 without one),
sequence = the groups of the `SQ` / `ORIGIN` block, coordinates and blanks dropped, lower-cased; feature table
(when requested) = its lines joined by `\n`.  `flatFileText crlf lines closed`: every line followed by `\n` or
`\r\n` (any mixture, `crlf i` for line `i`), the last line end optional. -/

/-- **parseEmbl_content**: on every well-formed EMBL file (entries `es`, lines below the scanner limit, any
mixture of LF / CR LF, final line end optional, blank lines between entries) the chunk parser returns, in file
order, for each entry exactly the record its own text implies — whatever its neighbours. -/
theorem parseEmbl_content (withFeat : Bool) (es : List EmEntry) (hok : ∀ e ∈ es, e.OK)
    (hshort : ∀ e ∈ es, ∀ l ∈ e.lines, l.length + 1 < maxScanTok) (crlf : Nat → Bool) (closed : Bool)
    (hlast : closed = false → ∀ l, (es.flatMap EmEntry.lines).getLast? = some l → l ≠ []) :
    parseEmbl withFeat (flatFileText crlf (es.flatMap EmEntry.lines) closed) = .ok (es.map (EmEntry.record withFeat)) := by
  have hne : ∀ l ∈ es.flatMap EmEntry.lines, NoEol l := by
    intro l hl
    obtain ⟨e, he, hle⟩ := List.mem_flatMap.mp hl
    exact e.noEol_lines (hok e he) l hle
  have hlen : ∀ l ∈ es.flatMap EmEntry.lines, l.length + 1 < maxScanTok := by
    intro l hl
    obtain ⟨e, he, hle⟩ := List.mem_flatMap.mp hl
    exact hshort e he l hle
  rw [parseEmbl_eq_short withFeat _ (shortLines_flatFileText maxScanTok (by decide) crlf _ closed hne hlen)]
  unfold emblRecs
  rw [linesScan_eq, linesG_flatFileText dropCR dropCR_noEol' crlf _ closed hne hlast, emRun_entries withFeat es hok]

/-- **reader_content_embl** (the property for EMBL, end to end): for every well-formed file, every read-buffer
size ≥ 2 and every arrival order of the parsed chunks at `SortBatches`, the released batches are error-free
and carry, in file order, exactly the records the entries' texts imply. -/
theorem reader_content_embl (withFeat : Bool) (es : List EmEntry) (hok : ∀ e ∈ es, e.OK)
    (hshort : ∀ e ∈ es, ∀ l ∈ e.lines, l.length + 1 < maxScanTok) (crlf : Nat → Bool) (closed : Bool)
    (hlast : closed = false → ∀ l, (es.flatMap EmEntry.lines).getLast? = some l → l ≠ []) (b : Nat) (hb : 2 ≤ b) :
    ∃ cs, chunks splitFlat b (flatFileText crlf (es.flatMap EmEntry.lines) closed) = some cs ∧
      ∀ ks : List Nat, ks.Perm (List.range cs.length) →
        ∃ rss : List (List Rec),
          reseq (ks.map fun k => (k, parseEmbl withFeat (cs.getD k []))) = rss.map Except.ok ∧
          rss.flatten = es.map (EmEntry.record withFeat) := by
  have hne : ∀ l ∈ es.flatMap EmEntry.lines, NoEol l := by
    intro l hl
    obtain ⟨e, he, hle⟩ := List.mem_flatMap.mp hl
    exact e.noEol_lines (hok e he) l hle
  have hlen : ∀ l ∈ es.flatMap EmEntry.lines, l.length + 1 < maxScanTok := by
    intro l hl
    obtain ⟨e, he, hle⟩ := List.mem_flatMap.mp hl
    exact hshort e he l hle
  obtain ⟨cs, hcs, hall⟩ := reader_independent_embl withFeat _
    (regularEol_flatFileText crlf _ closed hne)
    (shortLines_flatFileText maxScanTok (by decide) crlf _ closed hne hlen) b hb
  refine ⟨cs, hcs, fun ks hperm => ?_⟩
  obtain ⟨rss, h1, h2⟩ := hall ks hperm
  refine ⟨rss, h1, ?_⟩
  rw [parseEmbl_content withFeat es hok hshort crlf closed hlast] at h2
  exact (Except.ok.inj h2).symm

/-- **parseGenbank_content**: on every well-formed GenBank file (entries with an `ORIGIN` block, lines of at
most 100 bytes — the parser's own limit —, any mixture of LF / CR LF, final line end optional, blank lines
between entries) the chunk parser ends without fatal error and returns, in file order, for each entry exactly
the record its own text implies. -/
theorem parseGenbank_content (withFeat : Bool) (es : List GbEntry) (hok : ∀ e ∈ es, e.OK) (crlf : Nat → Bool)
    (closed : Bool) (hlast : closed = false → ∀ l, (es.flatMap GbEntry.lines).getLast? = some l → l ≠ []) :
    parseGenbank withFeat (flatFileText crlf (es.flatMap GbEntry.lines) closed) = .ok (es.map (GbEntry.record withFeat)) := by
  have hne : ∀ l ∈ es.flatMap GbEntry.lines, NoEol l := by
    intro l hl
    obtain ⟨e, he, hle⟩ := List.mem_flatMap.mp hl
    exact e.noEol_lines (hok e he) l hle
  rw [parseGenbank_eq, linesG_flatFileText id id_noEol crlf _ closed hne hlast]
  obtain ⟨sT, hT⟩ := gbRun_entries withFeat es {} hok ⟨rfl, rfl, rfl, rfl, rfl⟩
  unfold gbRecs
  rw [hT]

/-- **reader_content_genbank** (the property for GenBank, end to end) -/
theorem reader_content_genbank (withFeat : Bool) (es : List GbEntry) (hok : ∀ e ∈ es, e.OK) (crlf : Nat → Bool)
    (closed : Bool) (hlast : closed = false → ∀ l, (es.flatMap GbEntry.lines).getLast? = some l → l ≠ [])
    (b : Nat) (hb : 2 ≤ b) :
    ∃ cs, chunks splitFlat b (flatFileText crlf (es.flatMap GbEntry.lines) closed) = some cs ∧
      ∀ ks : List Nat, ks.Perm (List.range cs.length) →
        ∃ rss : List (List Rec),
          reseq (ks.map fun k => (k, parseGenbank withFeat (cs.getD k []))) = rss.map Except.ok ∧
          rss.flatten = es.map (GbEntry.record withFeat) := by
  have hne : ∀ l ∈ es.flatMap GbEntry.lines, NoEol l := by
    intro l hl
    obtain ⟨e, he, hle⟩ := List.mem_flatMap.mp hl
    exact e.noEol_lines (hok e he) l hle
  have hparse := parseGenbank_content withFeat es hok crlf closed hlast
  obtain ⟨cs, hcs, hall⟩ := reader_independent_genbank withFeat _
    (regularEol_flatFileText crlf _ closed hne) _ hparse b hb
  refine ⟨cs, hcs, fun ks hperm => ?_⟩
  obtain ⟨rss, h1, h2⟩ := hall ks hperm
  refine ⟨rss, h1, ?_⟩
  rw [hparse] at h2
  exact (Except.ok.inj h2).symm

/-- **the taxid of a `/db_xref="taxon:N"` qualifier is N** (both formats: the 37-byte key, a decimal numeral
below 2^63, the closing quote) -/
theorem taxon_value (key ds rest : Seq) (hk : key = emXREF ∨ key = gbXREF) (h : IsDigits ds) (hv : decVal ds < 2 ^ 63) :
    taxonOf (key ++ ds ++ 34 :: rest) = (decVal ds : Int) ∧ hasPrefix key (key ++ ds ++ 34 :: rest) = true := by
  refine ⟨taxonOf_digits key ds rest (by rcases hk with rfl | rfl <;> rfl) h hv, ?_⟩
  rw [List.append_assoc]; exact hasPrefix_self _ _

/-- non-vacuity (and a test on a sample): the EMBL entry
`ID   AB1; SV 1;` / `XX` / `DE   first ` / `DE   part.` / `OS   Homo sapiens` / `FH   Key` / `FH` /
`FT                   /db_xref="taxon:9606"` / `SQ   Sequence 6 BP;` / `     acgTAC        6` / `//` -/
def exEm : EmEntry :=
  { idRest := [65, 66, 49, 59, 32, 83, 86, 32, 49, 59],
    items := [.other [88, 88], .de [102, 105, 114, 115, 116, 32], .de [112, 97, 114, 116, 46], .os [72, 111, 109, 111, 32, 115, 97, 112, 105, 101, 110, 115],
      .fh [75, 101, 121], .fhAlone, .ft [32, 32, 32, 32, 32, 32, 32, 32, 32, 32, 32, 32, 32, 32, 32, 32, 47, 100, 98, 95, 120, 114, 101, 102, 61, 34, 116, 97, 120, 111, 110, 58, 57, 54, 48, 54, 34], .other [83, 81, 32, 32, 32, 83, 101, 113, 117, 101, 110, 99, 101, 32, 54, 32, 66, 80, 59],
      .sq [[97, 99, 103, 84, 65, 67]] 7 [54]],
    blanks := 1 }

example : exEm.OK := by
  refine ⟨by decide, ?_, by simp [exEm, emFeatOK]⟩
  intro it hit
  simp only [exEm, List.mem_cons, List.not_mem_nil, or_false] at hit
  rcases hit with rfl | rfl | rfl | rfl | rfl | rfl | rfl | rfl | rfl
  · exact ⟨by decide, by decide, by decide, by decide, by decide, by decide, by decide, by decide, by decide⟩
  · exact ⟨by decide, by decide⟩
  · exact ⟨by decide, by decide⟩
  · show NoEol _; decide
  · show NoEol _; decide
  · trivial
  · show NoEol _; decide
  · exact ⟨by decide, by decide, by decide, by decide, by decide, by decide, by decide, by decide, by decide⟩
  · refine ⟨?_, by decide, by decide, by decide⟩
    intro g hg
    simp only [List.mem_cons, List.not_mem_nil, or_false] at hg
    subst hg
    exact ⟨by decide, by decide⟩

example : exEm.record true =
    { id := [65, 66, 49], defn := [102, 105, 114, 115, 116, 32, 112, 97, 114, 116, 46], seq := [97, 99, 103, 116, 97, 99],
      flat := some (9606, [72, 111, 109, 111, 32, 115, 97, 112, 105, 101, 110, 115],
        [70, 72, 32, 32, 32, 75, 101, 121, 10, 70, 72, 10, 70, 84, 32, 32, 32, 32, 32, 32, 32, 32, 32, 32, 32, 32, 32, 32, 32, 32, 32, 32, 32, 47, 100, 98, 95, 120, 114, 101, 102, 61, 34, 116, 97, 120, 111, 110, 58, 57, 54, 48, 54, 34]) } := by rfl

set_option maxRecDepth 20000 in
example : parseEmbl false (flatFileText (fun i => i % 2 == 0) ([exEm, exEm].flatMap EmEntry.lines) true) =
    .ok [exEm.record false, exEm.record false] := by rfl

/-- non-vacuity (and a test on a sample): the GenBank entry
`LOCUS       AB1 6 bp` / `DEFINITION  first` / `            part.` / `ACCESSION   AB1` / `SOURCE      Homo sapiens` /
`  ORGANISM  Homo sapiens` / `            Eukaryota.` / `FEATURES             Location/Qualifiers` /
`     source          1..6` / `                     /db_xref="taxon:9606"` / `ORIGIN` / `        1 acgTAC gt` / `//` -/
def exGb : GbEntry :=
  { locusRest := [65, 66, 49, 32, 54, 32, 98, 112], pre := [], defn := some ([102, 105, 114, 115, 116], [[112, 97, 114, 116, 46]]),
    post := [.other [65, 67, 67, 69, 83, 83, 73, 79, 78, 32, 32, 32, 65, 66, 49], .source [72, 111, 109, 111, 32, 115, 97, 112, 105, 101, 110, 115], .other [32, 32, 79, 82, 71, 65, 78, 73, 83, 77, 32, 32, 72, 111, 109, 111, 32, 115, 97, 112, 105, 101, 110, 115],
      .other [32, 32, 32, 32, 32, 32, 32, 32, 32, 32, 32, 32, 69, 117, 107, 97, 114, 121, 111, 116, 97, 46]],
    featRest := [32, 32, 32, 32, 32, 32, 32, 32, 32, 76, 111, 99, 97, 116, 105, 111, 110, 47, 81, 117, 97, 108, 105, 102, 105, 101, 114, 115],
    feats := [[32, 32, 32, 32, 32, 115, 111, 117, 114, 99, 101, 32, 32, 32, 32, 32, 32, 32, 32, 32, 32, 49, 46, 46, 54], [32, 32, 32, 32, 32, 32, 32, 32, 32, 32, 32, 32, 32, 32, 32, 32, 32, 32, 32, 32, 32, 47, 100, 98, 95, 120, 114, 101, 102, 61, 34, 116, 97, 120, 111, 110, 58, 57, 54, 48, 54, 34]],
    originRest := [], seqs := [{ pfx := [32, 32, 32, 32, 32, 32, 32, 32, 49, 32], groups := [[97, 99, 103, 84, 65, 67]], last := [103, 116] }] }

example : exGb.OK := by
  unfold GbEntry.OK
  refine ⟨by decide, (by intro it h; cases h), ?_, by decide, by decide, by decide, by decide, by decide, by decide⟩
  intro p hp
  simp only [exGb, Option.some.injEq] at hp
  subst hp
  exact ⟨by decide, by decide, by intro it h; simp only [exGb, List.head?_cons, Option.some.injEq] at h; subst h; decide⟩

example : exGb.record true =
    { id := [65, 66, 49], defn := [102, 105, 114, 115, 116, 32, 112, 97, 114, 116, 46], seq := [97, 99, 103, 116, 97, 99, 103, 116],
      flat := some (9606, [72, 111, 109, 111, 32, 115, 97, 112, 105, 101, 110, 115],
        [70, 69, 65, 84, 85, 82, 69, 83, 32, 32, 32, 32, 32, 32, 32, 32, 32, 32, 32, 32, 32, 76, 111, 99, 97, 116, 105, 111, 110, 47, 81, 117, 97, 108, 105, 102, 105, 101, 114, 115, 10, 32, 32, 32, 32, 32, 115, 111, 117, 114, 99, 101, 32, 32, 32, 32, 32, 32, 32, 32, 32, 32, 49, 46, 46, 54, 10, 32, 32, 32, 32, 32, 32, 32, 32, 32, 32, 32, 32, 32, 32, 32, 32, 32, 32, 32, 32, 32, 47, 100, 98, 95, 120, 114, 101, 102, 61, 34, 116, 97, 120, 111, 110, 58, 57, 54, 48, 54, 34]) } := by rfl

set_option maxRecDepth 20000 in
example : parseGenbank true (flatFileText (fun i => i % 3 == 0) ([exGb, exGb].flatMap GbEntry.lines) false) =
    .ok [exGb.record true, exGb.record true] := by rfl

end ObiVerif.Props.C01
