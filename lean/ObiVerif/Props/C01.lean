import ObiVerif.Model.Chunk
import ObiVerif.Model.Fasta
import ObiVerif.Model.Fastq
import ObiVerif.Model.FlatFile
import ObiVerif.Lemmas.Chunk
import ObiVerif.Lemmas.Fasta
import ObiVerif.Lemmas.Reseq
import ObiVerif.Lemmas.Splitters
import ObiVerif.Lemmas.FastaGrammar
import ObiVerif.Lemmas.Embl
import ObiVerif.Lemmas.FlatSplit
/-!
# C01 — parsed records do not depend on chunk boundaries, transport or parser workers

Property theorems.  Models: `Model/Chunk.lean` (`ReadSeqFileChunk`, the three splitters),
`Model/Fasta.lean`, `Model/Fastq.lean`, `Model/FlatFile.lean` (chunk parsers), `Model/Reseq.lean`
(`SortBatches`).  Helper lemmas: `Lemmas/Chunk.lean`, `Lemmas/Fasta.lean`, `Lemmas/Reseq.lean`.

* `chunks_terminate`, `chunks_reassemble` — `ReadSeqFileChunk`, for ANY splitter that returns a
  negative value or a position in `[1, len]`: the goroutine terminates and the chunk texts, in
  order, are the file minus runs of end-of-line bytes.
* `splitFasta_spec`, `splitFasta_contract` — `EndOfLastFastaEntry`.
* `chunks_cut_at_boundaries`, `parseFasta_append`, `reader_independent` — FASTA: for every file the
  chunk parser reads as a whole number of records, every buffer size ≥ 2 and every arrival order of
  the parsed chunks at `SortBatches`, the delivered records are those of the one-chunk parse.
* `wellFormed_complete` — the files of the FASTA grammar (title line, sequence lines over the
  alphabet, LF / CRLF / blank lines) are read as a whole number of records.

FASTQ and GenBank/EMBL: the models are tied to the code by the correspondence check only (see
`lib/cfg/C01.py`); the corresponding theorems are stated in comments at the end of this file.
-/
namespace ObiVerif.Props.C01
open ObiVerif.Chunk ObiVerif.Parse ObiVerif.Reseq

/-! ## 1. ReadSeqFileChunk, any splitter -/

/-- The fuel of the model is never exhausted, i.e. the reading goroutine terminates: for every
splitter returning "not found" or a position in `[1, len]`, every buffer of at least 2 bytes and
every file. -/
theorem chunks_terminate (split : Seq → Int) (Cut : Seq → Seq → Prop) (hs : SplitterOK split Cut)
    (b : Nat) (hb : 2 ≤ b) (file : Seq) : ∃ cs, chunks split b file = some cs := by
  unfold chunks
  obtain ⟨h1, _, _⟩ := readFull_spec b file
  generalize readFull b file = rf at h1
  obtain ⟨buff, rest, err⟩ := rf
  simp only at h1 ⊢
  split
  · exact ⟨[], rfl⟩
  · have hl : buff.length + rest.length < file.length + 2 := by
      have := congrArg List.length h1
      simp at this
      omega
    have := outer_some split Cut hs b hb _ buff rest [] hl
    cases h : outer split b (file.length + 2) buff rest [] with
    | none => rw [h] at this; cases this
    | some cs => exact ⟨cs, rfl⟩

/-- a 0 returned by the splitter is what the contract excludes: the model (like the code) loops -/
example : chunks (fun _ => 0) 4 [62, 97, 10, 65] = none := by decide

/-- **chunks_reassemble**: for a splitter honouring its contract, the chunk texts, in order, are the
file minus the runs of end-of-line bytes that were cut; no chunk is empty. -/
theorem chunks_reassemble (split : Seq → Int) (Cut : Seq → Seq → Prop) (hs : SplitterOK split Cut)
    (b : Nat) (file : Seq) (cs : List Seq) (h : chunks split b file = some cs) :
    StripJoin cs file ∧ ∀ c ∈ cs, c ≠ [] :=
  pieces_stripJoin (chunks_pieces split Cut hs b file cs h)

/-! ## 2. EndOfLastFastaEntry -/

/-- **splitFasta_spec**: the result is −1 or the offset (≥ 1) of a `>` that follows an end-of-line byte -/
theorem splitFasta_spec (buf : Seq) :
    splitFasta buf = -1 ∨
    ∃ pre e post, buf = pre ++ e :: 62 :: post ∧ isEol e = true ∧ splitFasta buf = ((pre.length + 1 : Nat) : Int) :=
  ObiVerif.Parse.splitFasta_spec buf

/-- the FASTA splitter honours the contract `ReadSeqFileChunk` needs (termination + cut at a line-start `>`) -/
theorem splitFasta_contract : SplitterOK splitFasta FastaCut := splitFasta_ok

example : splitFasta [62, 97, 10, 65, 67, 10, 62, 98, 10, 71] = 6 := by decide
example : splitFasta [62, 97, 10, 65, 67] = -1 := by decide

/-! ## 3. FASTA: chunks are whole records, the parser is record-local, the reader is chunk-independent -/

/-- **chunks_cut_at_boundaries** (FASTA): every chunk of a file that is a whole number of records is
itself a whole number of records, whatever the buffer size. -/
theorem chunks_cut_at_boundaries (file : Seq) (rs : List Rec) (id d sq : Seq)
    (hw : FaComplete file rs id d sq) (b : Nat) (cs : List Seq) (h : chunks splitFasta b file = some cs) :
    ∀ c ∈ cs, ∃ rs' id' d' sq', FaComplete c rs' id' d' sq' :=
  (pieces_parse (chunks_pieces splitFasta FastaCut splitFasta_ok b file cs h) rs id d sq hw).2

/-- **parseFasta_append** (record locality): if `c1` is a whole number of records, `e` a non-empty run
of end-of-line bytes and `c2 = '>' :: b :: t` any text starting with `>` (well-formed or not), then
parsing `c1 ++ e ++ c2` as one chunk gives the records of `c1` followed by the records of `c2`, and
fails exactly as the parse of `c2` fails. -/
theorem parseFasta_append (c1 : Seq) (rs : List Rec) (id d sq : Seq) (h1 : FaComplete c1 rs id d sq)
    (e : Seq) (he : AllEol e) (hne : e ≠ []) (b : UInt8) (t : Seq) :
    parseFasta c1 = .ok (rs ++ [mkRec id d sq]) ∧
    parseFasta (c1 ++ e ++ 62 :: b :: t) =
      match parseFasta (62 :: b :: t) with
      | .error x => .error x
      | .ok r2 => .ok ((rs ++ [mkRec id d sq]) ++ r2) := by
  refine ⟨parseFasta_complete h1, ?_⟩
  obtain ⟨b1, t1, hc1⟩ := complete_shape h1
  obtain ⟨pe, hrun⟩ := h1
  have hinv : FaInv (.s6 id d sq pe) := faRun_inv c1 .s0 _ rs trivial hrun
  have hsq : sq.isEmpty = false := by
    cases sq with
    | nil => exact absurd rfl hinv
    | cons a t => rfl
  have hL : c1 ++ e ++ 62 :: b :: t = 62 :: b1 :: (t1 ++ e ++ 62 :: b :: t) := by rw [hc1]; simp
  rw [hL, parseFasta_eq_body, ← hL, parseFasta_eq_body]
  have hgt : faStep (.s6 id d sq true) 62 = .ok (.s1, some (mkRec id d sq)) := by
    simp [faStep, hsq]
  have h0 : faStep .s0 62 = .ok (.s1, none) := by simp [faStep]
  unfold faBody
  rw [List.append_assoc, faRun_append, hrun]
  simp only
  rw [faRun_append, faRun_s6_eols_true e id d sq pe he hne]
  simp only
  rw [faRun_cons (.s6 id d sq true) 62 (b :: t), hgt, faRun_cons .s0 62 (b :: t), h0]
  simp only
  cases faRun .s1 (b :: t) with
  | error x => rfl
  | ok p =>
    obtain ⟨sT, rT⟩ := p
    simp only
    cases faFinish sT with
    | error x => rfl
    | ok l => simp

/-- **reader_independent** (FASTA).  `file` is any text the chunk parser reads as a whole number of
records (`FaComplete`: no error, ends inside a sequence).  For EVERY read-buffer size `b ≥ 2` the
chunk reader terminates with some chunks `cs`; the parser workers turn chunk `k` into the batch
`(k, parseFasta cs[k])`; for EVERY order `ks` in which these numbered batches reach `SortBatches`
(any number of workers, any interleaving), the batches released are error-free and their records, in
release order, are exactly the records of the one-chunk parse of the file. -/
theorem reader_independent (file : Seq) (rs : List Rec) (id d sq : Seq)
    (hw : FaComplete file rs id d sq) (b : Nat) (hb : 2 ≤ b) :
    ∃ cs, chunks splitFasta b file = some cs ∧
      ∀ ks : List Nat, ks.Perm (List.range cs.length) →
        ∃ rss : List (List Rec),
          reseq (ks.map fun k => (k, parseFasta (cs.getD k []))) = rss.map Except.ok ∧
          parseFasta file = .ok rss.flatten := by
  obtain ⟨cs, hcs⟩ := chunks_terminate splitFasta FastaCut splitFasta_ok b hb file
  refine ⟨cs, hcs, ?_⟩
  intro ks hperm
  obtain ⟨⟨rss, hmap, hflat⟩, _⟩ :=
    pieces_parse (chunks_pieces splitFasta FastaCut splitFasta_ok b file cs hcs) rs id d sq hw
  refine ⟨rss, ?_, ?_⟩
  · rw [reseq_perm (fun k => parseFasta (cs.getD k [])) cs.length ks hperm, range_map_getD, hmap]
  · rw [parseFasta_complete hw, hflat]

/-- **wellFormed_complete**: every file of the FASTA grammar `WellFormedFasta` (Lemmas/FastaGrammar.lean:
title lines starting with a non-blank byte and containing anything but `\n`/`\r` — also `>`, `@`,
`+` —, sequences over the alphabet folded over any number of lines, LF / CR LF / blank lines as
separators, optional trailing end-of-line bytes) is read as a whole number of records. -/
theorem wellFormed_complete (file : Seq) (h : WellFormedFasta file) :
    ∃ rs id d sq, FaComplete file rs id d sq := ObiVerif.Parse.wellFormed_complete h

/-- **reader_independent** stated on the grammar: ∀ well-formed FASTA file, ∀ buffer size ≥ 2,
∀ arrival order of the parsed chunks at the re-sequencer: the released batches carry, in order, the
records of the one-chunk parse. -/
theorem reader_independent_wellFormed (file : Seq) (hw : WellFormedFasta file) (b : Nat) (hb : 2 ≤ b) :
    ∃ cs, chunks splitFasta b file = some cs ∧
      ∀ ks : List Nat, ks.Perm (List.range cs.length) →
        ∃ rss : List (List Rec),
          reseq (ks.map fun k => (k, parseFasta (cs.getD k []))) = rss.map Except.ok ∧
          parseFasta file = .ok rss.flatten := by
  obtain ⟨rs, id, d, sq, hc⟩ := ObiVerif.Parse.wellFormed_complete hw
  exact reader_independent file rs id d sq hc b hb

instance (e : Seq) : Decidable (AllEol e) := by unfold AllEol; infer_instance
instance (e : Seq) : Decidable (NoEol e) := by unfold NoEol; infer_instance
instance (e : Seq) : Decidable (SeqBytes e) := by unfold SeqBytes; infer_instance

/-- non-vacuity of the grammar: `>a x␊AC␊GT␊>b␍␊T␊` -/
example : WellFormedFasta [62, 97, 32, 120, 10, 65, 67, 10, 71, 84, 10, 62, 98, 13, 10, 84, 10] :=
  ⟨_, [10],
    FastaRecords.more (h := [97, 32, 120]) (e := [10]) (body := [65, 67, 10, 71, 84]) (e' := [10])
      (rest := [62, 98, 13, 10, 84])
      ⟨97, [32, 120], rfl, by decide, by decide⟩ ⟨by decide, by decide⟩
      (SeqLines.more (l := [65, 67]) (e := [10]) (rest := [71, 84]) ⟨by decide, by decide⟩
        ⟨by decide, by decide⟩ (SeqLines.one ⟨by decide, by decide⟩))
      ⟨by decide, by decide⟩
      (FastaRecords.one (h := [98]) (e := [13, 10]) (body := [84]) ⟨98, [], rfl, by decide, by decide⟩
        ⟨by decide, by decide⟩ (SeqLines.one ⟨by decide, by decide⟩)),
    by decide, rfl⟩

/-- the empty file: no chunk, no record, for every buffer size -/
theorem reader_empty_file (split : Seq → Int) (b : Nat) (hb : 1 ≤ b) : chunks split b [] = some [] := by
  unfold chunks readFull
  have : ¬ (0 = b) := by omega
  simp [this]

/-! ## 4. FASTQ and flat-file splitters: contract of `ReadSeqFileChunk` -/

/-- `EndOfLastFastqEntry` returns −1 or a position in `[1, len]` -/
theorem splitFastq_contract : SplitterOK splitFastq (fun _ _ => True) := splitFastq_ok

/-- a non-negative result of `EndOfLastFastqEntry` follows an end-of-line byte (it is a line start) -/
theorem splitFastq_line_start (buf : Seq) (h : 0 ≤ splitFastq buf) :
    ∃ e, buf[(splitFastq buf).toNat - 1]? = some e ∧ isEol e = true := by
  unfold splitFastq at h ⊢
  rcases fqScan_spec buf.reverse with h1 | ⟨cut, h1, h2, h3, e, he, hee⟩
  · omega
  · rw [h1]
    simp only [Int.toNat_natCast]
    refine ⟨e, ?_, hee⟩
    simp only [List.length_reverse] at he h3
    rw [List.getElem?_reverse (by omega)] at he
    have : buf.length - 1 - (buf.length - cut) = cut - 1 := by omega
    rw [this] at he
    exact he

/-- `EndOfLastFlatFileEntry` returns −1 or a position in `[1, len]` that follows an end-of-record line -/
theorem splitFlat_contract : SplitterOK splitFlat FlatCut := splitFlat_ok_cut

/-- **splitFlat_spec**: the bytes before a non-negative result end with `\n//\n` or `\n//\r\n` -/
theorem splitFlat_spec (buf : Seq) (h : 0 ≤ splitFlat buf) : FlatEnd (buf.take (splitFlat buf).toNat) :=
  splitFlat_cut buf h

/-- **parseEmbl_append** (EMBL record locality, repaired parser): if `a` ends with an end-of-record
line, the records of `a ++ b` parsed as one chunk are the records of `a` followed by the records of
`b`, for every `b` (no record inherits `taxid`, `scientific_name`, `id`, definition, features or
sequence bytes from the previous one).  `EmblChunkParser` has no error path. -/
theorem parseEmbl_append (withFeat : Bool) (a b : Seq) (h : FlatEnd a) :
    parseEmbl withFeat (a ++ b) = .ok (emblRecs withFeat a ++ emblRecs withFeat b) ∧
    parseEmbl withFeat a = .ok (emblRecs withFeat a) ∧ parseEmbl withFeat b = .ok (emblRecs withFeat b) := by
  refine ⟨?_, rfl, rfl⟩
  rw [parseEmbl_eq, emblRecs_append withFeat h b]

/-- non-vacuity: `ID   A;␊//␊` ends with an end-of-record line -/
example : FlatEnd [73, 68, 32, 32, 32, 65, 59, 10, 47, 47, 10] := ⟨[73, 68, 32, 32, 32, 65, 59], Or.inl rfl⟩

/-- hence, for the four formats: whatever the buffer size ≥ 2, the chunk reader terminates and its
chunks, in order, are the file minus runs of end-of-line bytes; no chunk is empty -/
theorem chunks_all_formats (b : Nat) (hb : 2 ≤ b) (file : Seq) :
    ∀ split ∈ [splitFasta, splitFastq, splitFlat],
      ∃ cs, chunks split b file = some cs ∧ StripJoin cs file ∧ ∀ c ∈ cs, c ≠ [] := by
  intro split hmem
  simp only [List.mem_cons, List.not_mem_nil, or_false] at hmem
  rcases hmem with rfl | rfl | rfl
  · obtain ⟨cs, h⟩ := chunks_terminate _ _ splitFasta_ok b hb file
    exact ⟨cs, h, chunks_reassemble _ _ splitFasta_ok b file cs h⟩
  · obtain ⟨cs, h⟩ := chunks_terminate _ _ splitFastq_ok b hb file
    exact ⟨cs, h, chunks_reassemble _ _ splitFastq_ok b file cs h⟩
  · obtain ⟨cs, h⟩ := chunks_terminate _ _ splitFlat_ok_cut b hb file
    exact ⟨cs, h, chunks_reassemble _ _ splitFlat_ok_cut b file cs h⟩

/-- (tests on samples) `@a␊AC␊+␊@I␊@b␊GG␊+␊II`: the `@` of the quality line (offset 8) is not a cut, the
record start at offset 11 is; GenBank-like text: the cut follows `␊//␊` -/
example : splitFastq [64, 97, 10, 65, 67, 10, 43, 10, 64, 73, 10, 64, 98, 10, 71, 71, 10, 43, 10, 73, 73] = 11 := by decide
example : splitFlat [120, 120, 10, 47, 47, 10, 76, 79] = 6 := by decide

/-! ## 5. Stated, not proved here (the models are tied to the code by the correspondence check)

FASTQ — `splitFastq_is_record_start`: in a prefix of a text that `parseFastq` reads without error, a
non-negative result of `splitFastq` is the offset of an `@` at which the parser is in state 11 (a record
start): the pattern "line starting with `@`, line over the sequence alphabet, line starting with `+`"
cannot begin on a sequence line (state 5: the next line would have to start with `+`) nor on a quality
line (state 9: the next line would have to start with `@`).  With it, `parseFastq_append` and
`reader_independent` for FASTQ follow as in section 3.
GenBank / EMBL — proved above: `splitFlat` cuts after a `//` line (`splitFlat_spec`) and EMBL record
locality (`parseEmbl_append`; false before the repair `C01-flatfile-record-state-reset`: witness two
records, the second without `/db_xref="taxon:`).  Not proved: the composition `reader_independent` for
EMBL (needs: stripping the trailing LF / CR LF of a chunk does not change its lines — false for stray
CR runs such as `//\r\r\n`, so the statement needs a regular-line-end hypothesis), and GenBank locality
(the same argument up to the dead fields `id`/`seqB` in state `inHeader` and the fatal paths). -/

/-- non-vacuity: the two-record file `>a x>y␍␊AC␍␊GT␍␊>b␊TT␊` (folded sequence, CR LF, a title containing `>`) -/
def exFile : Seq := [62, 97, 32, 120, 62, 121, 13, 10, 65, 67, 13, 10, 71, 84, 13, 10, 62, 98, 10, 84, 84, 10]

example : FaComplete exFile [mkRec [97] [120, 62, 121] [97, 99, 103, 116]] [98] [] [116, 116] :=
  ⟨true, by rfl⟩

/-- (test on a sample) with a 5-byte buffer the file is cut into two chunks -/
example : chunks splitFasta 5 exFile =
    some [[62, 97, 32, 120, 62, 121, 13, 10, 65, 67, 13, 10, 71, 84], [62, 98, 10, 84, 84]] := by rfl

end ObiVerif.Props.C01
