import ObiVerif.Model.Chunk
import ObiVerif.Model.Fasta
import ObiVerif.Model.Fastq
import ObiVerif.Model.FlatFile
/-! # C01 — property theorems (under construction) -/
namespace ObiVerif.Props.C01
open ObiVerif.Chunk ObiVerif.Parse

end ObiVerif.Props.C01
