import ObiVerif.Props.C06
import ObiVerif.Lemmas.UniqIdem
set_option Elab.async false
/-!
# C06 — an already dereplicated data set merged again (idempotence / associativity of obiuniq)

`uniq (uniq xs ++ ys)` and `uniq (xs ++ ys)` have observably equal outputs (`ObsEq`: key, count, requested
`merged_` weights, kept annotations), for all chunk functions of the three runs — without `--no-singleton`
(with it the first run removes records for good) and for counts ≥ 1.
-/
namespace ObiVerif.Props.C06
open ObiVerif.Uniq

/-- the class of a key among the outputs of a first dereplication summarises the class among its inputs -/
theorem class_summary (h1 : Seq → Nat) (o : Opts) (xs : List Rec) (okx : InputOK o xs)
    (hns : o.noSingleton = false) (κ : Seq × List String) :
    total (classOf o (uniq h1 o xs) κ) = total (classOf o xs κ) ∧
    (∀ k ∈ o.stats, ∀ v, contribSum o.na k (classOf o (uniq h1 o xs) κ) v =
      contribSum o.na k (classOf o xs κ) v) ∧
    (∀ a b, (∀ r ∈ classOf o (uniq h1 o xs) κ, r.attrs.lookup a = some b) ↔
      (∀ r ∈ classOf o xs κ, r.attrs.lookup a = some b)) ∧
    (∀ u ∈ classOf o (uniq h1 o xs) κ, ∃ x ∈ classOf o xs κ, u.id = x.id ∧ u.seq = x.seq) ∧
    (classOf o xs κ ≠ [] → classOf o (uniq h1 o xs) κ ≠ []) := by
  obtain ⟨hnd, hkeys⟩ := uniq_keys h1 o xs okx hns
  rcases filter_key_nodup (key o) κ (uniq h1 o xs) hnd with h0 | ⟨u, hu, hk, he⟩
  · have hx : classOf o xs κ = [] := by
      unfold classOf
      rw [List.filter_eq_nil_iff]
      intro x hx hkx
      have : κ ∈ (uniq h1 o xs).map (key o) :=
        (hkeys κ).mpr (List.mem_map.mpr ⟨x, hx, of_decide_eq_true hkx⟩)
      obtain ⟨u, hu, hku⟩ := List.mem_map.mp this
      have : u ∈ (uniq h1 o xs).filter (fun u => decide (key o u = κ)) := by simp [hu, hku]
      rw [h0] at this
      simp at this
    have h0' : classOf o (uniq h1 o xs) κ = [] := h0
    rw [h0', hx]
    simp [contribSum]
  · have he' : classOf o (uniq h1 o xs) κ = [u] := he
    have hio := uniq_isOutput h1 o xs okx u hu
    rw [he']
    subst hk
    refine ⟨?_, ?_, ?_, ?_, fun _ => by simp⟩
    · rw [← hio.count]; simp [total]
    · intro k hk v
      obtain ⟨m, hm, hw⟩ := hio.merged k hk
      rw [← hw v]
      simp [contribSum, contrib_some hm]
    · intro a b
      have := hio.attrs (a, b)
      rw [← this]
      simp only [List.mem_singleton, forall_eq]
      exact lookup_iff_mem_of_nodup u.attrs hio.wf a b
    · intro u' hu'
      simp only [List.mem_singleton] at hu'
      subst hu'
      exact hio.rep

/-- **dereplicating an already dereplicated part again changes nothing observable** -/
theorem uniq_idempotent (h1 h2 h3 : Seq → Nat) (o : Opts) (xs ys : List Rec) (ok : InputOK o (xs ++ ys))
    (hns : o.noSingleton = false) :
    (∀ out2 ∈ uniq h2 o (uniq h1 o xs ++ ys), ∃ out ∈ uniq h3 o (xs ++ ys), ObsEq o out2 out) ∧
    (∀ out ∈ uniq h3 o (xs ++ ys), ∃ out2 ∈ uniq h2 o (uniq h1 o xs ++ ys), ObsEq o out out2) := by
  have okx : InputOK o xs := ⟨ok.stats_nodup, fun r hr => ok.counts r (List.mem_append_left _ hr),
    fun r hr => ok.wf r (List.mem_append_left _ hr)⟩
  -- the second input satisfies the hypotheses
  have ok2 : InputOK o (uniq h1 o xs ++ ys) := by
    refine ⟨ok.stats_nodup, ?_, ?_⟩
    · intro r hr
      rcases List.mem_append.mp hr with hr | hr
      · have hio := uniq_isOutput h1 o xs okx r hr
        obtain ⟨x, hx, _⟩ := hio.rep
        have h1x := okx.counts x (List.mem_filter.mp hx).1
        have := count_le_total _ x hx
        rw [hio.count]; omega
      · exact ok.counts r (List.mem_append_right _ hr)
    · intro r hr
      rcases List.mem_append.mp hr with hr | hr
      · exact (uniq_isOutput h1 o xs okx r hr).wf
      · exact ok.wf r (List.mem_append_right _ hr)
  -- an output for the second input is an output for the whole first input
  have hlift : ∀ out2, IsOutput o (uniq h1 o xs ++ ys) out2 → IsOutput o (xs ++ ys) out2 := by
    intro out2 hio
    obtain ⟨s1, s2, s3, s4, _⟩ := class_summary h1 o xs okx hns (key o out2)
    refine ⟨?_, ?_, ?_, ?_, hio.wf⟩
    · obtain ⟨x, hx, hid, hsq⟩ := hio.rep
      rw [classOf_append] at hx
      rw [classOf_append]
      rcases List.mem_append.mp hx with hx | hx
      · obtain ⟨y, hy, e1, e2⟩ := s4 x hx
        exact ⟨y, List.mem_append_left _ hy, by rw [hid, e1], by rw [hsq, e2]⟩
      · exact ⟨x, List.mem_append_right _ hx, hid, hsq⟩
    · rw [hio.count, classOf_append, classOf_append, total_append, total_append, s1]
    · intro k hk
      obtain ⟨m, hm, hw⟩ := hio.merged k hk
      refine ⟨m, hm, fun v => ?_⟩
      rw [hw v, classOf_append, classOf_append, contribSum_append, contribSum_append, s2 k hk v]
    · intro kv
      rw [hio.attrs kv, classOf_append, classOf_append]
      simp only [List.mem_append]
      constructor
      · intro hh r hr
        rcases hr with hr | hr
        · exact (s3 kv.1 kv.2).mp (fun r' hr' => hh r' (Or.inl hr')) r hr
        · exact hh r (Or.inr hr)
      · intro hh r hr
        rcases hr with hr | hr
        · exact (s3 kv.1 kv.2).mpr (fun r' hr' => hh r' (Or.inl hr')) r hr
        · exact hh r (Or.inr hr)
  -- the keys of the two inputs are the same
  have hkeys : ∀ κ, κ ∈ (uniq h1 o xs ++ ys).map (key o) ↔ κ ∈ (xs ++ ys).map (key o) := by
    intro κ
    simp only [List.map_append, List.mem_append]
    rw [(uniq_keys h1 o xs okx hns).2 κ]
  obtain ⟨_, k2⟩ := uniq_keys h2 o _ ok2 hns
  obtain ⟨_, k3⟩ := uniq_keys h3 o _ ok hns
  constructor
  · intro out2 hout2
    have hio2 := hlift out2 (uniq_isOutput h2 o _ ok2 out2 hout2)
    have : key o out2 ∈ (uniq h3 o (xs ++ ys)).map (key o) :=
      (k3 _).mpr ((hkeys _).mp ((k2 _).mp (List.mem_map.mpr ⟨out2, hout2, rfl⟩)))
    obtain ⟨out, hout, hk⟩ := List.mem_map.mp this
    exact ⟨out, hout, obsEq_of_isOutput o _ out2 out hio2 (uniq_isOutput h3 o _ ok out hout) hk.symm⟩
  · intro out hout
    have : key o out ∈ (uniq h2 o (uniq h1 o xs ++ ys)).map (key o) :=
      (k2 _).mpr ((hkeys _).mpr ((k3 _).mp (List.mem_map.mpr ⟨out, hout, rfl⟩)))
    obtain ⟨out2, hout2, hk⟩ := List.mem_map.mp this
    have hio2 := hlift out2 (uniq_isOutput h2 o _ ok2 out2 hout2)
    exact ⟨out2, hout2, obsEq_of_isOutput o _ out out2 (uniq_isOutput h3 o _ ok out hout) hio2 hk.symm⟩

/-- non-vacuity (test on one input): the first three records dereplicated, then merged with the fourth -/
example : (uniq (fun _ => 0) exO (uniq (fun s => s.length) exO (exIn.take 3) ++ exIn.drop 3)).map
      (fun r => (r.count, r.merged.lookup "t")) =
    (uniq (fun _ => 1) exO exIn).map (fun r => (r.count, r.merged.lookup "t")) := by decide

end ObiVerif.Props.C06
