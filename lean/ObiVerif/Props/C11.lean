import ObiVerif.Model.Pcr
import ObiVerif.Lemmas.Pcr
/-!
# C11 — in-silico PCR returns exactly the amplicons the primers define, on either strand (property theorems)

Model: `ObiVerif.Pcr` (`Model/Pcr.lean`): `_Pcr` / `_PCRSlice` of `pkg/obiapat/pcr.go` transcribed over the match lists of
the C10 matcher model and C07's `subsequence` / reverse complement, **as repaired** by the four patches
`notes/patches/C11-*.diff` (each defect shown first on the real code by the harness oracle).

Vocabulary (`Lemmas/Pcr.lean`):
* `MatchAt P d i k` — a priming site: pattern `P` lies at offset `i` of the encoded template `d`, entirely inside, with exactly
  `k` mismatches (none obligatory), `k ≤ P.maxerr` (C10's Hamming cost);
* `lengthOk o g` — `g > 0` (the sites neither touch nor overlap) and `g` within the min/max bounds (`0` = no bound);
* `linBounds o L i dl j cl` — the window the options ask for (the segment between the sites; or sites + flanks, clipped at
  the ends of the template or required to be complete);
* `mkAmp dir seq i ki j kj dl cl a b` — the reported record: nucleotides of `[a,b)` (reverse-complemented in the reverse
  orientation), the matched strings in primer orientation, the error counts, the id coordinates.

Proved for **linear** templates, every template, every primer pair of 1..63 positions each (different lengths included),
every budget, every min/max/extension setting: `pcr_total`, `pcr_sound`, `pcr_complete` and their field-level reading
`pcr_sound_fields`; `pcr_strand_symmetry` (see below).  The statements for circular templates (`pcr_rotation`, and
soundness/completeness on the circle) are given in full in the comments of the last section; they are tied by the
correspondence check and the oracle only.
-/
namespace ObiVerif.Props.C11
open ObiVerif ObiVerif.Apat ObiVerif.Pcr

/-- **No `log.Fatalf`, no panic on a linear template**: `_Pcr` always returns. -/
theorem pcr_total (P : Primers) (hP : PrimersOk P) (o : Opts) (hc : o.circular = false) (seq : Bytes) :
    ∃ l, pcr P o seq = .ok l := by
  unfold pcr
  apply mapM_id_total
  intro x hx
  unfold pcrRaw at hx
  rcases List.mem_append.mp hx with hx | hx
  · obtain ⟨i, ki, j, kj, a, b, _, _, _, _, rfl⟩ :=
      (mem_block_linear true _ _ hP.forward hP.crev _ _ (Int.natCast_nonneg _) o hc seq x).mp hx
    exact ⟨_, rfl⟩
  · obtain ⟨i, ki, j, kj, a, b, _, _, _, _, rfl⟩ :=
      (mem_block_linear false _ _ hP.reverse hP.cfwd _ _ (Int.natCast_nonneg _) o hc seq x).mp hx
    exact ⟨_, rfl⟩

/-- **Soundness** (linear template).  Every reported amplicon comes from a site `(i, ki)` of one primer and a site
`(j, kj)` of the complement of the other primer located downstream (`j > i + length of the first site`), with a length
within the bounds and the window `[a, b)` the options ask for; the record is `mkAmp` of these: forward orientation when the
first primer is the forward one, reverse orientation (amplicon reverse-complemented) when it is the reverse one. -/
theorem pcr_sound (P : Primers) (hP : PrimersOk P) (o : Opts) (hc : o.circular = false) (seq : Bytes)
    (l : List Amplicon) (h : pcr P o seq = .ok l) (x : Amplicon) (hx : x ∈ l) :
    (∃ i ki j kj a b, MatchAt P.forward (enc seq) i ki ∧ MatchAt P.crev (enc seq) j kj ∧
        lengthOk o ((j : Int) - ((i : Int) + P.forward.patlen)) = true ∧
        linBounds o seq.length i P.forward.patlen j P.crev.patlen = some (a, b) ∧
        x = mkAmp true seq i ki j kj P.forward.patlen P.crev.patlen a b) ∨
    (∃ i ki j kj a b, MatchAt P.reverse (enc seq) i ki ∧ MatchAt P.cfwd (enc seq) j kj ∧
        lengthOk o ((j : Int) - ((i : Int) + P.reverse.patlen)) = true ∧
        linBounds o seq.length i P.reverse.patlen j P.cfwd.patlen = some (a, b) ∧
        x = mkAmp false seq i ki j kj P.reverse.patlen P.cfwd.patlen a b) := by
  rcases (mem_pcr_iff P o seq l h x).mp hx with hb | hb
  · left
    obtain ⟨i, ki, j, kj, a, b, h1, h2, h3, h4, h5⟩ :=
      (mem_block_linear true _ _ hP.forward hP.crev _ _ (Int.natCast_nonneg _) o hc seq _).mp hb
    exact ⟨i, ki, j, kj, a, b, h1, h2, h3, h4, by cases h5; rfl⟩
  · right
    obtain ⟨i, ki, j, kj, a, b, h1, h2, h3, h4, h5⟩ :=
      (mem_block_linear false _ _ hP.reverse hP.cfwd _ _ (Int.natCast_nonneg _) o hc seq _).mp hb
    exact ⟨i, ki, j, kj, a, b, h1, h2, h3, h4, by cases h5; rfl⟩

/-- what the record of a forward-orientation pair says, field by field: the nucleotides of the window, the forward match
as it is in the template, the reverse match reverse-complemented (i.e. in primer orientation), the two mismatch counts,
the coordinates `a+1..b` of the id -/
theorem mkAmp_forward_fields (seq : Bytes) (i ki j kj dl cl a b : Nat) :
    let x := mkAmp true seq i ki j kj dl cl a b
    x.isForward = true ∧ x.seq = seg seq a b ∧ x.fmatch = seg seq i (i + dl) ∧ x.ferr = ki ∧
      x.rmatch = SeqOps.rc (seg seq j (j + cl)) ∧ x.rerr = kj ∧ x.idFrom = a + 1 ∧ x.idTo = b := by
  simp [mkAmp]

/-- … and of a reverse-orientation pair: the direct site is the reverse primer's, the amplicon and the match of the
complemented forward primer are reverse-complemented -/
theorem mkAmp_reverse_fields (seq : Bytes) (i ki j kj dl cl a b : Nat) :
    let x := mkAmp false seq i ki j kj dl cl a b
    x.isForward = false ∧ x.seq = SeqOps.rc (seg seq a b) ∧ x.fmatch = SeqOps.rc (seg seq j (j + cl)) ∧ x.ferr = kj ∧
      x.rmatch = seg seq i (i + dl) ∧ x.rerr = ki ∧ x.idFrom = a + 1 ∧ x.idTo = b := by
  simp [mkAmp]

/-- **Completeness** (linear template), forward orientation: every pair (forward-primer site, downstream site of the
complemented reverse primer) with an admissible length and an available window is reported. -/
theorem pcr_complete_forward (P : Primers) (hP : PrimersOk P) (o : Opts) (hc : o.circular = false) (seq : Bytes)
    (l : List Amplicon) (h : pcr P o seq = .ok l) (i ki j kj a b : Nat)
    (hi : MatchAt P.forward (enc seq) i ki) (hj : MatchAt P.crev (enc seq) j kj)
    (hl : lengthOk o ((j : Int) - ((i : Int) + P.forward.patlen)) = true)
    (hb : linBounds o seq.length i P.forward.patlen j P.crev.patlen = some (a, b)) :
    mkAmp true seq i ki j kj P.forward.patlen P.crev.patlen a b ∈ l := by
  rw [mem_pcr_iff P o seq l h]
  left
  exact (mem_block_linear true _ _ hP.forward hP.crev _ _ (Int.natCast_nonneg _) o hc seq _).mpr
    ⟨i, ki, j, kj, a, b, hi, hj, hl, hb, rfl⟩

/-- **Completeness**, reverse orientation (the search window of this block is computed with `reverse.Len()` although the
pattern searched has `forward.Len()` positions: harmless, as this theorem shows for primers of any two lengths) -/
theorem pcr_complete_reverse (P : Primers) (hP : PrimersOk P) (o : Opts) (hc : o.circular = false) (seq : Bytes)
    (l : List Amplicon) (h : pcr P o seq = .ok l) (i ki j kj a b : Nat)
    (hi : MatchAt P.reverse (enc seq) i ki) (hj : MatchAt P.cfwd (enc seq) j kj)
    (hl : lengthOk o ((j : Int) - ((i : Int) + P.reverse.patlen)) = true)
    (hb : linBounds o seq.length i P.reverse.patlen j P.cfwd.patlen = some (a, b)) :
    mkAmp false seq i ki j kj P.reverse.patlen P.cfwd.patlen a b ∈ l := by
  rw [mem_pcr_iff P o seq l h]
  right
  exact (mem_block_linear false _ _ hP.reverse hP.cfwd _ _ (Int.natCast_nonneg _) o hc seq _).mpr
    ⟨i, ki, j, kj, a, b, hi, hj, hl, hb, rfl⟩

/-- `pcr_complete` = both orientations -/
theorem pcr_complete (P : Primers) (hP : PrimersOk P) (o : Opts) (hc : o.circular = false) (seq : Bytes)
    (l : List Amplicon) (h : pcr P o seq = .ok l) :
    (∀ i ki j kj a b, MatchAt P.forward (enc seq) i ki → MatchAt P.crev (enc seq) j kj →
      lengthOk o ((j : Int) - ((i : Int) + P.forward.patlen)) = true →
      linBounds o seq.length i P.forward.patlen j P.crev.patlen = some (a, b) →
      mkAmp true seq i ki j kj P.forward.patlen P.crev.patlen a b ∈ l) ∧
    (∀ i ki j kj a b, MatchAt P.reverse (enc seq) i ki → MatchAt P.cfwd (enc seq) j kj →
      lengthOk o ((j : Int) - ((i : Int) + P.reverse.patlen)) = true →
      linBounds o seq.length i P.reverse.patlen j P.cfwd.patlen = some (a, b) →
      mkAmp false seq i ki j kj P.reverse.patlen P.cfwd.patlen a b ∈ l) :=
  ⟨fun i ki j kj a b => pcr_complete_forward P hP o hc seq l h i ki j kj a b,
   fun i ki j kj a b => pcr_complete_reverse P hP o hc seq l h i ki j kj a b⟩

/-- each pair of sites is reported once: the list has no duplicates (records carry the two hits they come from) -/
theorem pcr_nodup (P : Primers) (o : Opts) (seq : Bytes) (l : List Amplicon) (h : pcr P o seq = .ok l) : l.Nodup :=
  pcr_nodup_any P o seq l h

/-! ## strand symmetry -/

/-- what a user sees of a record: direction, nucleotides, matched strings, error counts -/
def obs (a : Amplicon) : Bool × Bytes × Bytes × Int × Bytes × Int :=
  (a.isForward, a.seq, a.fmatch, a.ferr, a.rmatch, a.rerr)

/-- **Strand symmetry** (linear template over the IUPAC nucleotide symbols, `u` excluded — the open C10 finding on the
sequence symbol `u`): the PCR of the reverse-complemented template returns, as a multiset, the amplicons of the template
with the direction flipped — same nucleotides, same matched strings, same error counts; coordinates mirrored
(`flipAmp`).  Primers of any two lengths.  `PrimersMirror`: the complemented patterns have the mirrored code lists of the
primers (C10: checked on every complemented pattern by the oracle `rcpat.code`; `complement_table_mirror` is proved). -/
theorem pcr_strand_symmetry (P : Primers) (hP : PrimersOk P) (hM : PrimersMirror P) (o : Opts) (hc : o.circular = false)
    (seq : Bytes) (hs : ∀ b ∈ seq, b ∈ iupac) (l l' : List Amplicon)
    (h : pcr P o seq = .ok l) (h' : pcr P o (SeqOps.rc seq) = .ok l') :
    l'.Perm (l.map (flipAmp seq.length)) := by
  have hnd : (l.map (flipAmp seq.length)).Nodup := by
    rw [List.nodup_iff_pairwise_ne, List.pairwise_map]
    exact (List.nodup_iff_pairwise_ne.mp (pcr_nodup P o seq l h)).imp
      (fun hab he => hab (flipAmp_injective seq.length he))
  rw [List.perm_ext_iff_of_nodup (pcr_nodup P o _ l' h') hnd]
  intro a
  constructor
  · intro ha
    have hrr : pcr P o (SeqOps.rc (SeqOps.rc seq)) = .ok l := by rw [rc_rc seq hs]; exact h
    have := flip_mem P hP hM o hc (SeqOps.rc seq) (rc_iupac seq hs) l' l h' hrr a ha
    rw [rc_length] at this
    exact List.mem_map.mpr ⟨_, this, flipAmp_flipAmp _ a⟩
  · intro ha
    obtain ⟨x, hx, rfl⟩ := List.mem_map.mp ha
    exact flip_mem P hP hM o hc seq hs l l' h h' x hx

/-- the same on what is observable: equal multisets of (direction, nucleotides, matches, error counts), direction negated -/
theorem pcr_strand_symmetry_obs (P : Primers) (hP : PrimersOk P) (hM : PrimersMirror P) (o : Opts) (hc : o.circular = false)
    (seq : Bytes) (hs : ∀ b ∈ seq, b ∈ iupac) (l l' : List Amplicon)
    (h : pcr P o seq = .ok l) (h' : pcr P o (SeqOps.rc seq) = .ok l') :
    (l'.map obs).Perm (l.map fun a => (!a.isForward, a.seq, a.fmatch, a.ferr, a.rmatch, a.rerr)) := by
  have := (pcr_strand_symmetry P hP hM o hc seq hs l l' h h').map obs
  rw [List.map_map] at this
  exact this

/-! ## non-vacuity and tests -/

/-- test (sample evaluation of the model): primers ACG / GGA on `tacgttccaa`, then on its reverse complement -/
example : (match mkPrimers [65, 67, 71] [71, 71, 65] 0 0 with
    | none => false
    | some P =>
      match pcr P ⟨0, 0, false, -1, false⟩ [116, 97, 99, 103, 116, 116, 99, 99, 97, 97],
            pcr P ⟨0, 0, false, -1, false⟩ (SeqOps.rc [116, 97, 99, 103, 116, 116, 99, 99, 97, 97]) with
      | .ok l, .ok l' =>
        l.map obs == [(true, [116], [97, 99, 103], 0, [103, 103, 97], 0)] &&
        l'.map obs == [(false, [116], [97, 99, 103], 0, [103, 103, 97], 0)]
      | _, _ => false) = true := by decide

/-- the primers ACG / GGA as compiled, with their complemented patterns CGT / TCC -/
def exPrimers : Primers :=
  ⟨⟨[65, 67, 71], [1, 4, 64], 0, false⟩, ⟨[67, 71, 84], [4, 64, 524288], 0, false⟩,
   ⟨[71, 71, 65], [64, 64, 1], 0, false⟩, ⟨[84, 67, 67], [524288, 4, 4], 0, false⟩⟩

/-- the hypotheses of the theorems are satisfiable: the compiled primers ACG / GGA are in C10's domain and their
complemented patterns are the mirrored ones -/
example : (match mkPrimers [65, 67, 71] [71, 71, 65] 0 0 with
      | some P => decide (P.forward = exPrimers.forward ∧ P.cfwd = exPrimers.cfwd ∧ P.reverse = exPrimers.reverse ∧ P.crev = exPrimers.crev)
      | none => false) = true ∧
    PrimersOk exPrimers ∧ PrimersMirror exPrimers := by
  refine ⟨by decide, ⟨⟨rfl, by decide, by decide⟩, ⟨rfl, by decide, by decide⟩, ⟨rfl, by decide, by decide⟩, ⟨rfl, by decide, by decide⟩⟩,
    ⟨⟨?_, rfl⟩, ⟨?_, rfl⟩⟩⟩
  · exact .cons (by decide) (.cons (by decide) (.cons (by decide) .nil))
  · exact .cons (by decide) (.cons (by decide) (.cons (by decide) .nil))

/-- … and a pair of sites: ACG lies at offset 1 of `tacgttccaa` with 0 mismatches, TCC (complemented GGA) at offset 5,
one symbol apart; the window is `[4, 5)` -/
example : MatchAt exPrimers.forward (enc [116, 97, 99, 103, 116, 116, 99, 99, 97, 97]) 1 0 ∧
    MatchAt exPrimers.crev (enc [116, 97, 99, 103, 116, 116, 99, 99, 97, 97]) 5 0 ∧
    lengthOk ⟨0, 0, false, -1, false⟩ ((5 : Int) - (1 + 3)) = true ∧
    linBounds ⟨0, 0, false, -1, false⟩ 10 1 3 5 3 = some (4, 5) :=
  ⟨⟨by decide, by decide, by decide⟩, ⟨by decide, by decide, by decide⟩, by decide, by decide⟩

/-!
## circular templates — statements (not proved; tied by the correspondence check and the oracle)

On a circular template of `L ≥ 64` symbols the matcher works on `d ++ d.take 64`; a site is `MatchAt P (d ++ d) i k` with
`i < L`.  With `g := (j - (i + dl)) mod L` (the number of symbols met going clockwise from the end of the direct site to the
start of the complemented site):

```
theorem pcr_sound_circular / pcr_complete_circular (hc : o.circular = true) (hL : 64 ≤ seq.length) :
    x ∈ l ↔ ∃ dir i ki j kj, i < L ∧ j < L ∧ MatchAt D (d ++ d) i ki ∧ MatchAt C (d ++ d) j kj ∧
              lengthOk o g = true ∧ g + dl + cl ≤ L ∧                -- the two sites do not overlap on the circle
              x = record of the window of the circle starting at (i + dl) mod L with g symbols
                  (with an extension e: starting at (i - e) mod L with g + dl + cl + 2e symbols, when that is ≤ L)
theorem pcr_rotation (hc : o.circular = true) (hL : 64 ≤ seq.length) (r : Nat) :
    ∀ t, t ∈ (pcr P o (seq.rotate r)).map obs ↔ t ∈ (pcr P o seq).map obs        -- set of amplicons
theorem pcr_strand_symmetry_circular : as `pcr_strand_symmetry_obs` with `hc : o.circular = true`
```
These hold of the model as repaired (patches `C11-reverse-block-circular-length`, `C11-circular-overlap-across-origin`,
`C11-circular-extension-before-origin`); they were false of the unrepaired code (failing inputs in the corpus of
`harness/c11.go`).  The harness oracle checks all three on every circular case: brute force over all pairs of positions
of the circle, reverse-complemented templates, rotated templates.
-/

end ObiVerif.Props.C11
