import ObiVerif.Model.Pcr
import ObiVerif.Lemmas.Pcr
import ObiVerif.Lemmas.PcrCircular
import ObiVerif.Lemmas.PcrFrag
import ObiVerif.Lemmas.PcrGrammar
import ObiVerif.Lemmas.PcrMore
import ObiVerif.Lemmas.PcrEnds
import ObiVerif.Model.PcrSeqBuf
/-!
# C11 — in-silico PCR returns exactly the amplicons the primers define, on either strand (property theorems)

Model: `ObiVerif.Pcr` (`Model/Pcr.lean`): `_Pcr` / `_PCRSlice` of `pkg/obiapat/pcr.go` transcribed over the match lists of
the C10 matcher model and C07's `subsequence` / reverse complement, **as repaired** by the four patches
`notes/patches/C11-*.diff` (each defect shown first on the real code by the harness oracle).

Vocabulary (`Lemmas/Pcr.lean`):
* `MatchAt P d i k` — a priming site: pattern `P` lies at offset `i` of the encoded template `d`, entirely inside, with exactly
  `k` mismatches (none obligatory), `k ≤ P.maxerr` (C10's Hamming cost);
* `lengthOk o g` — `g > 0` (the sites neither touch nor overlap) and `g` within the min/max bounds (`0` = no bound);
* `linBounds o L i dl j cl` — the window the options ask for (the segment between the sites; or sites + flanks, clipped at
  the ends of the template or required to be complete);
* `mkAmp dir seq i ki j kj dl cl a b` — the reported record: nucleotides of `[a,b)` (reverse-complemented in the reverse
  orientation), the matched strings in primer orientation, the error counts, the id coordinates.

Proved for **linear** templates, every template, every primer pair of 1..63 positions each (different lengths included),
every budget, every min/max/extension setting: `pcr_total`, `pcr_sound`, `pcr_complete` and their field-level reading
`pcr_sound_fields`; `pcr_strand_symmetry` (see below).  Proved for **circular** templates in which the primers fit
(`PrimersFit`: every template of at least 64 symbols): `pcr_total_circular`, `pcr_sound_circular`, `pcr_complete_circular`,
`pcr_rotation` / `pcr_rotation_mem`, `pcr_strand_symmetry_circular` (section "circular templates").
-/
namespace ObiVerif.Props.C11
open ObiVerif ObiVerif.Apat ObiVerif.Pcr

/-- **No `log.Fatalf`, no panic on a linear template**: `_Pcr` always returns. -/
theorem pcr_total (P : Primers) (hP : PrimersOk P) (o : Opts) (hc : o.circular = false) (seq : Bytes) :
    ∃ l, pcr P o seq = .ok l := by
  unfold pcr
  apply mapM_id_total
  intro x hx
  unfold pcrRaw at hx
  rcases List.mem_append.mp hx with hx | hx
  · obtain ⟨i, ki, j, kj, a, b, _, _, _, _, rfl⟩ :=
      (mem_block_linear true _ _ hP.forward hP.crev _ _ (Int.natCast_nonneg _) o hc seq x).mp hx
    exact ⟨_, rfl⟩
  · obtain ⟨i, ki, j, kj, a, b, _, _, _, _, rfl⟩ :=
      (mem_block_linear false _ _ hP.reverse hP.cfwd _ _ (Int.natCast_nonneg _) o hc seq x).mp hx
    exact ⟨_, rfl⟩

/-- **Soundness** (linear template).  Every reported amplicon comes from a site `(i, ki)` of one primer and a site
`(j, kj)` of the complement of the other primer located downstream (`j > i + length of the first site`), with a length
within the bounds and the window `[a, b)` the options ask for; the record is `mkAmp` of these: forward orientation when the
first primer is the forward one, reverse orientation (amplicon reverse-complemented) when it is the reverse one. -/
theorem pcr_sound (P : Primers) (hP : PrimersOk P) (o : Opts) (hc : o.circular = false) (seq : Bytes)
    (l : List Amplicon) (h : pcr P o seq = .ok l) (x : Amplicon) (hx : x ∈ l) :
    (∃ i ki j kj a b, MatchAt P.forward (enc seq) i ki ∧ MatchAt P.crev (enc seq) j kj ∧
        lengthOk o ((j : Int) - ((i : Int) + P.forward.patlen)) = true ∧
        linBounds o seq.length i P.forward.patlen j P.crev.patlen = some (a, b) ∧
        x = mkAmp true seq i ki j kj P.forward.patlen P.crev.patlen a b) ∨
    (∃ i ki j kj a b, MatchAt P.reverse (enc seq) i ki ∧ MatchAt P.cfwd (enc seq) j kj ∧
        lengthOk o ((j : Int) - ((i : Int) + P.reverse.patlen)) = true ∧
        linBounds o seq.length i P.reverse.patlen j P.cfwd.patlen = some (a, b) ∧
        x = mkAmp false seq i ki j kj P.reverse.patlen P.cfwd.patlen a b) := by
  rcases (mem_pcr_iff P o seq l h x).mp hx with hb | hb
  · left
    obtain ⟨i, ki, j, kj, a, b, h1, h2, h3, h4, h5⟩ :=
      (mem_block_linear true _ _ hP.forward hP.crev _ _ (Int.natCast_nonneg _) o hc seq _).mp hb
    exact ⟨i, ki, j, kj, a, b, h1, h2, h3, h4, by cases h5; rfl⟩
  · right
    obtain ⟨i, ki, j, kj, a, b, h1, h2, h3, h4, h5⟩ :=
      (mem_block_linear false _ _ hP.reverse hP.cfwd _ _ (Int.natCast_nonneg _) o hc seq _).mp hb
    exact ⟨i, ki, j, kj, a, b, h1, h2, h3, h4, by cases h5; rfl⟩

/-- what the record of a forward-orientation pair says, field by field: the nucleotides of the window, the forward match
as it is in the template, the reverse match reverse-complemented (i.e. in primer orientation), the two mismatch counts,
the coordinates `a+1..b` of the id -/
theorem mkAmp_forward_fields (seq : Bytes) (i ki j kj dl cl a b : Nat) :
    let x := mkAmp true seq i ki j kj dl cl a b
    x.isForward = true ∧ x.seq = seg seq a b ∧ x.fmatch = seg seq i (i + dl) ∧ x.ferr = ki ∧
      x.rmatch = SeqOps.rc (seg seq j (j + cl)) ∧ x.rerr = kj ∧ x.idFrom = a + 1 ∧ x.idTo = b := by
  simp [mkAmp]

/-- … and of a reverse-orientation pair: the direct site is the reverse primer's, the amplicon and the match of the
complemented forward primer are reverse-complemented -/
theorem mkAmp_reverse_fields (seq : Bytes) (i ki j kj dl cl a b : Nat) :
    let x := mkAmp false seq i ki j kj dl cl a b
    x.isForward = false ∧ x.seq = SeqOps.rc (seg seq a b) ∧ x.fmatch = SeqOps.rc (seg seq j (j + cl)) ∧ x.ferr = kj ∧
      x.rmatch = seg seq i (i + dl) ∧ x.rerr = ki ∧ x.idFrom = a + 1 ∧ x.idTo = b := by
  simp [mkAmp]

/-- **Completeness** (linear template), forward orientation: every pair (forward-primer site, downstream site of the
complemented reverse primer) with an admissible length and an available window is reported. -/
theorem pcr_complete_forward (P : Primers) (hP : PrimersOk P) (o : Opts) (hc : o.circular = false) (seq : Bytes)
    (l : List Amplicon) (h : pcr P o seq = .ok l) (i ki j kj a b : Nat)
    (hi : MatchAt P.forward (enc seq) i ki) (hj : MatchAt P.crev (enc seq) j kj)
    (hl : lengthOk o ((j : Int) - ((i : Int) + P.forward.patlen)) = true)
    (hb : linBounds o seq.length i P.forward.patlen j P.crev.patlen = some (a, b)) :
    mkAmp true seq i ki j kj P.forward.patlen P.crev.patlen a b ∈ l := by
  rw [mem_pcr_iff P o seq l h]
  left
  exact (mem_block_linear true _ _ hP.forward hP.crev _ _ (Int.natCast_nonneg _) o hc seq _).mpr
    ⟨i, ki, j, kj, a, b, hi, hj, hl, hb, rfl⟩

/-- **Completeness**, reverse orientation (the search window of this block is computed with `reverse.Len()` although the
pattern searched has `forward.Len()` positions: harmless, as this theorem shows for primers of any two lengths) -/
theorem pcr_complete_reverse (P : Primers) (hP : PrimersOk P) (o : Opts) (hc : o.circular = false) (seq : Bytes)
    (l : List Amplicon) (h : pcr P o seq = .ok l) (i ki j kj a b : Nat)
    (hi : MatchAt P.reverse (enc seq) i ki) (hj : MatchAt P.cfwd (enc seq) j kj)
    (hl : lengthOk o ((j : Int) - ((i : Int) + P.reverse.patlen)) = true)
    (hb : linBounds o seq.length i P.reverse.patlen j P.cfwd.patlen = some (a, b)) :
    mkAmp false seq i ki j kj P.reverse.patlen P.cfwd.patlen a b ∈ l := by
  rw [mem_pcr_iff P o seq l h]
  right
  exact (mem_block_linear false _ _ hP.reverse hP.cfwd _ _ (Int.natCast_nonneg _) o hc seq _).mpr
    ⟨i, ki, j, kj, a, b, hi, hj, hl, hb, rfl⟩

/-- `pcr_complete` = both orientations -/
theorem pcr_complete (P : Primers) (hP : PrimersOk P) (o : Opts) (hc : o.circular = false) (seq : Bytes)
    (l : List Amplicon) (h : pcr P o seq = .ok l) :
    (∀ i ki j kj a b, MatchAt P.forward (enc seq) i ki → MatchAt P.crev (enc seq) j kj →
      lengthOk o ((j : Int) - ((i : Int) + P.forward.patlen)) = true →
      linBounds o seq.length i P.forward.patlen j P.crev.patlen = some (a, b) →
      mkAmp true seq i ki j kj P.forward.patlen P.crev.patlen a b ∈ l) ∧
    (∀ i ki j kj a b, MatchAt P.reverse (enc seq) i ki → MatchAt P.cfwd (enc seq) j kj →
      lengthOk o ((j : Int) - ((i : Int) + P.reverse.patlen)) = true →
      linBounds o seq.length i P.reverse.patlen j P.cfwd.patlen = some (a, b) →
      mkAmp false seq i ki j kj P.reverse.patlen P.cfwd.patlen a b ∈ l) :=
  ⟨fun i ki j kj a b => pcr_complete_forward P hP o hc seq l h i ki j kj a b,
   fun i ki j kj a b => pcr_complete_reverse P hP o hc seq l h i ki j kj a b⟩

/-- each pair of sites is reported once: the list has no duplicates (records carry the two hits they come from) -/
theorem pcr_nodup (P : Primers) (o : Opts) (seq : Bytes) (l : List Amplicon) (h : pcr P o seq = .ok l) : l.Nodup :=
  pcr_nodup_any P o seq l h

/-! ## strand symmetry -/

/-- what a user sees of a record: direction, nucleotides, matched strings, error counts -/
def obs (a : Amplicon) : Bool × Bytes × Bytes × Int × Bytes × Int :=
  (a.isForward, a.seq, a.fmatch, a.ferr, a.rmatch, a.rerr)

/-- **Strand symmetry** (linear template over the IUPAC nucleotide symbols, `u` excluded — the open C10 finding on the
sequence symbol `u`): the PCR of the reverse-complemented template returns, as a multiset, the amplicons of the template
with the direction flipped — same nucleotides, same matched strings, same error counts; coordinates mirrored
(`flipAmp`).  Primers of any two lengths.  `PrimersMirror`: the complemented patterns have the mirrored code lists of the
primers (C10: checked on every complemented pattern by the oracle `rcpat.code`; `complement_table_mirror` is proved). -/
theorem pcr_strand_symmetry (P : Primers) (hP : PrimersOk P) (hM : PrimersMirror P) (o : Opts) (hc : o.circular = false)
    (seq : Bytes) (hs : ∀ b ∈ seq, b ∈ iupac) (l l' : List Amplicon)
    (h : pcr P o seq = .ok l) (h' : pcr P o (SeqOps.rc seq) = .ok l') :
    l'.Perm (l.map (flipAmp seq.length)) := by
  have hnd : (l.map (flipAmp seq.length)).Nodup := by
    rw [List.nodup_iff_pairwise_ne, List.pairwise_map]
    exact (List.nodup_iff_pairwise_ne.mp (pcr_nodup P o seq l h)).imp
      (fun hab he => hab (flipAmp_injective seq.length he))
  rw [List.perm_ext_iff_of_nodup (pcr_nodup P o _ l' h') hnd]
  intro a
  constructor
  · intro ha
    have hrr : pcr P o (SeqOps.rc (SeqOps.rc seq)) = .ok l := by rw [rc_rc seq hs]; exact h
    have := flip_mem P hP hM o hc (SeqOps.rc seq) (rc_iupac seq hs) l' l h' hrr a ha
    rw [Pcr.rc_length] at this
    exact List.mem_map.mpr ⟨_, this, flipAmp_flipAmp _ a⟩
  · intro ha
    obtain ⟨x, hx, rfl⟩ := List.mem_map.mp ha
    exact flip_mem P hP hM o hc seq hs l l' h h' x hx

/-- the same on what is observable: equal multisets of (direction, nucleotides, matches, error counts), direction negated -/
theorem pcr_strand_symmetry_obs (P : Primers) (hP : PrimersOk P) (hM : PrimersMirror P) (o : Opts) (hc : o.circular = false)
    (seq : Bytes) (hs : ∀ b ∈ seq, b ∈ iupac) (l l' : List Amplicon)
    (h : pcr P o seq = .ok l) (h' : pcr P o (SeqOps.rc seq) = .ok l') :
    (l'.map obs).Perm (l.map fun a => (!a.isForward, a.seq, a.fmatch, a.ferr, a.rmatch, a.rerr)) := by
  have := (pcr_strand_symmetry P hP hM o hc seq hs l l' h h').map obs
  rw [List.map_map] at this
  exact this

/-! ## non-vacuity and tests -/

/-- test (sample evaluation of the model): primers ACG / GGA on `tacgttccaa`, then on its reverse complement -/
example : (match mkPrimers [65, 67, 71] [71, 71, 65] 0 0 with
    | none => false
    | some P =>
      match pcr P ⟨0, 0, false, -1, false⟩ [116, 97, 99, 103, 116, 116, 99, 99, 97, 97],
            pcr P ⟨0, 0, false, -1, false⟩ (SeqOps.rc [116, 97, 99, 103, 116, 116, 99, 99, 97, 97]) with
      | .ok l, .ok l' =>
        l.map obs == [(true, [116], [97, 99, 103], 0, [103, 103, 97], 0)] &&
        l'.map obs == [(false, [116], [97, 99, 103], 0, [103, 103, 97], 0)]
      | _, _ => false) = true := by decide

/-- the primers ACG / GGA as compiled, with their complemented patterns CGT / TCC -/
def exPrimers : Primers :=
  ⟨⟨[65, 67, 71], [1, 4, 64], 0, false⟩, ⟨[67, 71, 84], [4, 64, 524288], 0, false⟩,
   ⟨[71, 71, 65], [64, 64, 1], 0, false⟩, ⟨[84, 67, 67], [524288, 4, 4], 0, false⟩⟩

/-- the hypotheses of the theorems are satisfiable: the compiled primers ACG / GGA are in C10's domain and their
complemented patterns are the mirrored ones -/
example : (match mkPrimers [65, 67, 71] [71, 71, 65] 0 0 with
      | some P => decide (P.forward = exPrimers.forward ∧ P.cfwd = exPrimers.cfwd ∧ P.reverse = exPrimers.reverse ∧ P.crev = exPrimers.crev)
      | none => false) = true ∧
    PrimersOk exPrimers ∧ PrimersMirror exPrimers := by
  refine ⟨by decide, ⟨⟨rfl, by decide, by decide⟩, ⟨rfl, by decide, by decide⟩, ⟨rfl, by decide, by decide⟩, ⟨rfl, by decide, by decide⟩⟩,
    ⟨⟨?_, rfl⟩, ⟨?_, rfl⟩⟩⟩
  · exact .cons (by decide) (.cons (by decide) (.cons (by decide) .nil))
  · exact .cons (by decide) (.cons (by decide) (.cons (by decide) .nil))

/-- … and a pair of sites: ACG lies at offset 1 of `tacgttccaa` with 0 mismatches, TCC (complemented GGA) at offset 5,
one symbol apart; the window is `[4, 5)` -/
example : MatchAt exPrimers.forward (enc [116, 97, 99, 103, 116, 116, 99, 99, 97, 97]) 1 0 ∧
    MatchAt exPrimers.crev (enc [116, 97, 99, 103, 116, 116, 99, 99, 97, 97]) 5 0 ∧
    lengthOk ⟨0, 0, false, -1, false⟩ ((5 : Int) - (1 + 3)) = true ∧
    linBounds ⟨0, 0, false, -1, false⟩ 10 1 3 5 3 = some (4, 5) :=
  ⟨⟨by decide, by decide, by decide⟩, ⟨by decide, by decide, by decide⟩, by decide, by decide⟩

/-! ## circular templates

Vocabulary (`Lemmas/PcrCircular.lean`), `L` the length of the template, `d` its encoding:
* `CMatchAt P d i k` — a priming site of the circle: `i < L` and `MatchAt P (d ++ d) i k` (the pattern matches the word read
  clockwise from `i`); from C10's exactness theorem through `findAllIndex_exact_circular` (`Lemmas/ApatCircular.lean`);
* `cgap L i dl j = (j - (i + dl)) mod L` — the symbols met clockwise from the end of the direct site to the start of the
  complemented site;
* `cstart`, `creq`, `clen` — the window the options ask for: the gap from `(i + dl) mod L`, or — with an extension `e` —
  `gap + dl + cl + 2e` symbols from `(i - e) mod L`; `clen = creq` when `creq ≤ L` (`clen_of_le`), `creq` modulo `L`
  otherwise (what `Subsequence` silently returns; `--only-complete-flanking` has no effect on a circular template);
* `cseg seq a n` — the `n` symbols read on the circle from `a`; `mkAmpC` — the record (id coordinates `a+1 .. min(a+n, L)`).
Domain: `PrimersFit P L` — no primer is longer than the template (true as soon as `L ≥ 64`, `primersFit_of_64`); on a
shorter circular template the C encoder reads past the sequence (C10 note), and the model is only tied to the code when
the primers fit. -/

/-- **No `log.Fatalf`, no panic on a circular template** (as repaired: patch `C11-circular-extension-before-origin`). -/
theorem pcr_total_circular (P : Primers) (hP : PrimersOk P) (o : Opts) (hc : o.circular = true) (seq : Bytes)
    (hL : PrimersFit P seq.length) : ∃ l, pcr P o seq = .ok l := by
  unfold pcr
  apply mapM_id_total
  intro x hx
  unfold pcrRaw at hx
  rcases List.mem_append.mp hx with hx | hx
  · obtain ⟨i, ki, j, kj, _, _, _, _, rfl⟩ :=
      (mem_block_circular true _ _ hP.forward hP.crev _ o hc seq hL.forward hL.crev x).mp hx
    exact ⟨_, rfl⟩
  · obtain ⟨i, ki, j, kj, _, _, _, _, rfl⟩ :=
      (mem_block_circular false _ _ hP.reverse hP.cfwd _ o hc seq hL.reverse hL.cfwd x).mp hx
    exact ⟨_, rfl⟩

/-- **Soundness on a circular template.**  Every reported amplicon comes from a site `(i, ki)` of one primer and a site
`(j, kj)` of the complement of the other primer of the circle, whose clockwise gap `g = cgap` is within the bounds
(`g > 0` included) and such that the two sites and the gap fit in one turn (`g + dl + cl ≤ L`: the sites do not overlap
anywhere on the circle, the origin included); the record is `mkAmpC` of these. -/
theorem pcr_sound_circular (P : Primers) (hP : PrimersOk P) (o : Opts) (hc : o.circular = true) (seq : Bytes)
    (hL : PrimersFit P seq.length) (l : List Amplicon) (h : pcr P o seq = .ok l) (x : Amplicon) (hx : x ∈ l) :
    (∃ i ki j kj, CMatchAt P.forward (enc seq) i ki ∧ CMatchAt P.crev (enc seq) j kj ∧
        lengthOk o (cgap seq.length i P.forward.patlen j) = true ∧
        cgap seq.length i P.forward.patlen j + P.forward.patlen + P.crev.patlen ≤ seq.length ∧
        x = mkAmpC true seq i ki j kj P.forward.patlen P.crev.patlen (cstart o seq.length i P.forward.patlen)
              (clen o seq.length i P.forward.patlen j P.crev.patlen)) ∨
    (∃ i ki j kj, CMatchAt P.reverse (enc seq) i ki ∧ CMatchAt P.cfwd (enc seq) j kj ∧
        lengthOk o (cgap seq.length i P.reverse.patlen j) = true ∧
        cgap seq.length i P.reverse.patlen j + P.reverse.patlen + P.cfwd.patlen ≤ seq.length ∧
        x = mkAmpC false seq i ki j kj P.reverse.patlen P.cfwd.patlen (cstart o seq.length i P.reverse.patlen)
              (clen o seq.length i P.reverse.patlen j P.cfwd.patlen)) := by
  rcases (mem_pcr_iff P o seq l h x).mp hx with hb | hb
  · left
    obtain ⟨i, ki, j, kj, h1, h2, h3, h4, h5⟩ :=
      (mem_block_circular true _ _ hP.forward hP.crev _ o hc seq hL.forward hL.crev _).mp hb
    exact ⟨i, ki, j, kj, h1, h2, h3, h4, by cases h5; rfl⟩
  · right
    obtain ⟨i, ki, j, kj, h1, h2, h3, h4, h5⟩ :=
      (mem_block_circular false _ _ hP.reverse hP.cfwd _ o hc seq hL.reverse hL.cfwd _).mp hb
    exact ⟨i, ki, j, kj, h1, h2, h3, h4, by cases h5; rfl⟩

/-- **Completeness on a circular template**: every such pair of sites of the circle is reported, in both orientations —
the amplicon, the direct site or the complemented site may run across the origin. -/
theorem pcr_complete_circular (P : Primers) (hP : PrimersOk P) (o : Opts) (hc : o.circular = true) (seq : Bytes)
    (hL : PrimersFit P seq.length) (l : List Amplicon) (h : pcr P o seq = .ok l) :
    (∀ i ki j kj, CMatchAt P.forward (enc seq) i ki → CMatchAt P.crev (enc seq) j kj →
      lengthOk o (cgap seq.length i P.forward.patlen j) = true →
      cgap seq.length i P.forward.patlen j + P.forward.patlen + P.crev.patlen ≤ seq.length →
      mkAmpC true seq i ki j kj P.forward.patlen P.crev.patlen (cstart o seq.length i P.forward.patlen)
        (clen o seq.length i P.forward.patlen j P.crev.patlen) ∈ l) ∧
    (∀ i ki j kj, CMatchAt P.reverse (enc seq) i ki → CMatchAt P.cfwd (enc seq) j kj →
      lengthOk o (cgap seq.length i P.reverse.patlen j) = true →
      cgap seq.length i P.reverse.patlen j + P.reverse.patlen + P.cfwd.patlen ≤ seq.length →
      mkAmpC false seq i ki j kj P.reverse.patlen P.cfwd.patlen (cstart o seq.length i P.reverse.patlen)
        (clen o seq.length i P.reverse.patlen j P.cfwd.patlen) ∈ l) := by
  constructor
  · intro i ki j kj h1 h2 h3 h4
    rw [mem_pcr_iff P o seq l h]
    left
    exact (mem_block_circular true _ _ hP.forward hP.crev _ o hc seq hL.forward hL.crev _).mpr
      ⟨i, ki, j, kj, h1, h2, h3, h4, rfl⟩
  · intro i ki j kj h1 h2 h3 h4
    rw [mem_pcr_iff P o seq l h]
    right
    exact (mem_block_circular false _ _ hP.reverse hP.cfwd _ o hc seq hL.reverse hL.cfwd _).mpr
      ⟨i, ki, j, kj, h1, h2, h3, h4, rfl⟩

/-- what the record of a pair of sites of the circle says, field by field (forward orientation) -/
theorem mkAmpC_forward_fields (seq : Bytes) (i ki j kj dl cl a n : Nat) :
    let x := mkAmpC true seq i ki j kj dl cl a n
    x.isForward = true ∧ x.seq = cseg seq a n ∧ x.fmatch = cseg seq i dl ∧ x.ferr = ki ∧
      x.rmatch = SeqOps.rc (cseg seq j cl) ∧ x.rerr = kj ∧ x.idFrom = a + 1 ∧ x.idTo = (min (a + n) seq.length : Nat) := by
  simp [mkAmpC]

/-- … reverse orientation -/
theorem mkAmpC_reverse_fields (seq : Bytes) (i ki j kj dl cl a n : Nat) :
    let x := mkAmpC false seq i ki j kj dl cl a n
    x.isForward = false ∧ x.seq = SeqOps.rc (cseg seq a n) ∧ x.fmatch = SeqOps.rc (cseg seq j cl) ∧ x.ferr = kj ∧
      x.rmatch = cseg seq i dl ∧ x.rerr = ki ∧ x.idFrom = a + 1 ∧ x.idTo = (min (a + n) seq.length : Nat) := by
  simp [mkAmpC]

/-! ### rotation -/

/-- `obs` does not see the coordinates: a record and the record seen from another origin are the same amplicon -/
theorem obs_rotAmp (L r : Nat) (x : Amplicon) : obs (rotAmp L r x) = obs x := rfl

/-- **`pcr_rotation`, record level.**  `rotl seq r` is the same circle read from position `r mod L`.  Every amplicon of the
template is reported for the rotated template with the same direction, nucleotides, matched strings and error counts, its
coordinates (id, hits) shifted by `r` modulo `L` (`rotAmp`). -/
theorem pcr_rotation_mem (P : Primers) (hP : PrimersOk P) (o : Opts) (hc : o.circular = true) (seq : Bytes)
    (hL : PrimersFit P seq.length) (r : Nat) (l l' : List Amplicon)
    (h : pcr P o seq = .ok l) (h' : pcr P o (rotl seq r) = .ok l') (x : Amplicon) (hx : x ∈ l) :
    rotAmp seq.length r x ∈ l' := by
  rw [mem_pcr_iff P o _ l' h']
  rcases (mem_pcr_iff P o seq l h x).mp hx with hb | hb
  · exact Or.inl (block_rot true _ _ hP.forward hP.crev _ o hc seq hL.forward hL.crev r x hb)
  · exact Or.inr (block_rot false _ _ hP.reverse hP.cfwd _ o hc seq hL.reverse hL.cfwd r x hb)

/-- **`pcr_rotation`**: rotating a circular template leaves the set of amplicons (direction, nucleotides, matched strings,
error counts) unchanged. -/
theorem pcr_rotation (P : Primers) (hP : PrimersOk P) (o : Opts) (hc : o.circular = true) (seq : Bytes)
    (hL : PrimersFit P seq.length) (r : Nat) (l l' : List Amplicon)
    (h : pcr P o seq = .ok l) (h' : pcr P o (rotl seq r) = .ok l') :
    ∀ t, t ∈ l'.map obs ↔ t ∈ l.map obs := by
  intro t
  constructor
  · intro ht
    obtain ⟨y, hy, rfl⟩ := List.mem_map.mp ht
    have hback : pcr P o (rotl (rotl seq r) (seq.length - r % seq.length)) = .ok l := by
      rw [rotl_rotl_back]; exact h
    have hL' : PrimersFit P (rotl seq r).length := by rw [rotl_length]; exact hL
    have := pcr_rotation_mem P hP o hc (rotl seq r) hL' (seq.length - r % seq.length) l' l h' hback y hy
    exact List.mem_map.mpr ⟨_, this, obs_rotAmp _ _ y⟩
  · intro ht
    obtain ⟨x, hx, rfl⟩ := List.mem_map.mp ht
    exact List.mem_map.mpr ⟨_, pcr_rotation_mem P hP o hc seq hL r l l' h h' x hx, obs_rotAmp _ _ x⟩

/-- **`pcr_rotation`, multiset form**: the amplicons of the rotated template are, as a multiset, the amplicons of the template
with their coordinates shifted — nothing is lost, nothing is reported twice. -/
theorem pcr_rotation_perm (P : Primers) (hP : PrimersOk P) (o : Opts) (hc : o.circular = true) (seq : Bytes)
    (hL : PrimersFit P seq.length) (r : Nat) (l l' : List Amplicon)
    (h : pcr P o seq = .ok l) (h' : pcr P o (rotl seq r) = .ok l') :
    l'.Perm (l.map (rotAmp seq.length r)) := by
  have h0 : 0 < seq.length := by have := hP.forward.pos; have := hL.forward; omega
  have hnd : (l.map (rotAmp seq.length r)).Nodup := by
    rw [List.nodup_iff_pairwise_ne, List.pairwise_map]
    refine (List.nodup_iff_pairwise_ne.mp (pcr_nodup P o seq l h)).imp_of_mem ?_
    intro a b ha hb hab he
    apply hab
    rw [← rotAmp_back_mem P hP o hc seq hL r l h a ha, ← rotAmp_back_mem P hP o hc seq hL r l h b hb, he]
  rw [List.perm_ext_iff_of_nodup (pcr_nodup P o _ l' h') hnd]
  intro a
  constructor
  · intro ha
    have hback : pcr P o (rotl (rotl seq r) (seq.length - r % seq.length)) = .ok l := by
      rw [rotl_rotl_back]; exact h
    have hL' : PrimersFit P (rotl seq r).length := by rw [rotl_length]; exact hL
    have h1 := pcr_rotation_mem P hP o hc (rotl seq r) hL' (seq.length - r % seq.length) l' l h' hback a ha
    have h2 := rotAmp_back_mem P hP o hc (rotl seq r) hL' (seq.length - r % seq.length) l' h' a ha
    rw [rotl_length] at h1 h2
    rw [rotAmp_congr seq.length _ r (back_mod seq.length r h0)] at h2
    exact List.mem_map.mpr ⟨_, h1, h2⟩
  · intro ha
    obtain ⟨x, hx, rfl⟩ := List.mem_map.mp ha
    exact pcr_rotation_mem P hP o hc seq hL r l l' h h' x hx

/-! ### strand symmetry on the circle -/

/-- `obs` of a flipped record: the direction negated, everything else a user sees unchanged -/
theorem obs_flipC (L : Nat) (x : Amplicon) :
    obs (flipC L x) = (!x.isForward, x.seq, x.fmatch, x.ferr, x.rmatch, x.rerr) := rfl

/-- **Strand symmetry on a circular template** (template over the IUPAC nucleotide symbols, `u` excluded; primers that
fit): the PCR of the reverse-complemented circle returns, as a multiset, the amplicons of the circle with the direction
flipped — same nucleotides, same matched strings, same error counts; id coordinates and hits mirrored modulo `L`
(`flipC`). -/
theorem pcr_strand_symmetry_circular (P : Primers) (hP : PrimersOk P) (hM : PrimersMirror P) (o : Opts)
    (hc : o.circular = true) (seq : Bytes) (hs : ∀ b ∈ seq, b ∈ iupac) (hL : PrimersFit P seq.length)
    (l l' : List Amplicon) (h : pcr P o seq = .ok l) (h' : pcr P o (SeqOps.rc seq) = .ok l') :
    l'.Perm (l.map (flipC seq.length)) := by
  have hrr : pcr P o (SeqOps.rc (SeqOps.rc seq)) = .ok l := by rw [rc_rc seq hs]; exact h
  have hL' : PrimersFit P (SeqOps.rc seq).length := by rw [Pcr.rc_length]; exact hL
  have hnd : (l.map (flipC seq.length)).Nodup := by
    rw [List.nodup_iff_pairwise_ne, List.pairwise_map]
    refine (List.nodup_iff_pairwise_ne.mp (pcr_nodup P o seq l h)).imp_of_mem ?_
    intro a b ha hb hab he
    apply hab
    rw [← flipC_flipC_mem P hP o hc seq hs hL l h a ha, ← flipC_flipC_mem P hP o hc seq hs hL l h b hb, he]
  rw [List.perm_ext_iff_of_nodup (pcr_nodup P o _ l' h') hnd]
  intro a
  constructor
  · intro ha
    have h1 := flip_mem_circ P hP hM o hc (SeqOps.rc seq) (rc_iupac seq hs) hL' l' l h' hrr a ha
    have h2 := flipC_flipC_mem P hP o hc (SeqOps.rc seq) (rc_iupac seq hs) hL' l' h' a ha
    rw [Pcr.rc_length] at h1 h2
    exact List.mem_map.mpr ⟨_, h1, h2⟩
  · intro ha
    obtain ⟨x, hx, rfl⟩ := List.mem_map.mp ha
    exact flip_mem_circ P hP hM o hc seq hs hL l l' h h' x hx

/-- the same on what is observable: equal multisets of (direction, nucleotides, matches, error counts), direction negated -/
theorem pcr_strand_symmetry_circular_obs (P : Primers) (hP : PrimersOk P) (hM : PrimersMirror P) (o : Opts)
    (hc : o.circular = true) (seq : Bytes) (hs : ∀ b ∈ seq, b ∈ iupac) (hL : PrimersFit P seq.length)
    (l l' : List Amplicon) (h : pcr P o seq = .ok l) (h' : pcr P o (SeqOps.rc seq) = .ok l') :
    (l'.map obs).Perm (l.map fun a => (!a.isForward, a.seq, a.fmatch, a.ferr, a.rmatch, a.rerr)) := by
  have := (pcr_strand_symmetry_circular P hP hM o hc seq hs hL l l' h h').map obs
  rw [List.map_map] at this
  exact this

/-! ### non-vacuity and tests (circular) -/

/-- the circle `tacgttccaa` read from position 3 is `gttccaatac` -/
example : rotl ([116, 97, 99, 103, 116, 116, 99, 99, 97, 97] : Bytes) 3 = [103, 116, 116, 99, 99, 97, 97, 116, 97, 99] := by decide

/-- the hypotheses of the circular theorems are satisfiable on a pair whose DIRECT SITE RUNS ACROSS THE ORIGIN: on the circle
`gttccaatac` ACG lies at 8, 9, 0 and TCC (complemented GGA) at 2; one symbol apart clockwise (`cgap = 1`), the two sites and
the gap fit in one turn; the window is the symbol at position 1 -/
example : PrimersFit exPrimers 10 ∧
    CMatchAt exPrimers.forward (enc [103, 116, 116, 99, 99, 97, 97, 116, 97, 99]) 8 0 ∧
    CMatchAt exPrimers.crev (enc [103, 116, 116, 99, 99, 97, 97, 116, 97, 99]) 2 0 ∧
    cgap 10 8 3 2 = 1 ∧ lengthOk ⟨0, 0, true, -1, false⟩ (cgap 10 8 3 2) = true ∧ cgap 10 8 3 2 + 3 + 3 ≤ 10 ∧
    cstart ⟨0, 0, true, -1, false⟩ 10 8 3 = 1 ∧ clen ⟨0, 0, true, -1, false⟩ 10 8 3 2 3 = 1 :=
  ⟨⟨by decide, by decide, by decide, by decide⟩, ⟨by decide, by decide, by decide, by decide⟩,
   ⟨by decide, by decide, by decide, by decide⟩, by decide, by decide, by decide, by decide, by decide⟩

/-- test (sample evaluation of the model): that pair is what the model reports for the circle, and what it reports for
the circle read from its original origin is the same amplicon, coordinates shifted (`rotAmp`); with flanks of 1 symbol the
window is `t|acg|t|tcc|a` (9 symbols from position 7, across the origin); with flanks of 2 symbols the request (11 symbols)
is longer than the circle and `Subsequence` returns it modulo the length: 1 symbol (`clen`) -/
example :
    (match pcr exPrimers ⟨0, 0, true, -1, false⟩ [103, 116, 116, 99, 99, 97, 97, 116, 97, 99],
           pcr exPrimers ⟨0, 0, true, -1, false⟩ [116, 97, 99, 103, 116, 116, 99, 99, 97, 97],
           pcr exPrimers ⟨0, 0, true, 1, false⟩ [103, 116, 116, 99, 99, 97, 97, 116, 97, 99],
           pcr exPrimers ⟨0, 0, true, 2, false⟩ [103, 116, 116, 99, 99, 97, 97, 116, 97, 99] with
     | .ok l, .ok l', .ok l1, .ok l2 =>
       decide (l = [mkAmpC true [103, 116, 116, 99, 99, 97, 97, 116, 97, 99] 8 0 2 0 3 3 1 1]) &&
       decide (l' = [rotAmp 10 7 (mkAmpC true [103, 116, 116, 99, 99, 97, 97, 116, 97, 99] 8 0 2 0 3 3 1 1)]) &&
       decide (l1 = [mkAmpC true [103, 116, 116, 99, 99, 97, 97, 116, 97, 99] 8 0 2 0 3 3 7 9]) &&
       decide (l2 = [mkAmpC true [103, 116, 116, 99, 99, 97, 97, 116, 97, 99] 8 0 2 0 3 3 6 1]) &&
       l.map obs == [(true, [116], [97, 99, 103], 0, [103, 103, 97], 0)] &&
       l1.map (·.seq) == [[116, 97, 99, 103, 116, 116, 99, 99, 97]]
     | _, _, _, _ => false) = true ∧
    cstart ⟨0, 0, true, 1, false⟩ 10 8 3 = 7 ∧ clen ⟨0, 0, true, 1, false⟩ 10 8 3 2 3 = 9 ∧
    creq ⟨0, 0, true, 2, false⟩ 10 8 3 2 3 = 11 ∧ clen ⟨0, 0, true, 2, false⟩ 10 8 3 2 3 = 1 := by decide

/-! ## the options, exactly

`--min-length` / `--max-length` are inclusive bounds on the number of symbols between the two sites (primers excluded), `0` =
no bound; a pair of sites that touch or overlap is never reported. -/

/-- **the length filter**: `g` symbols between the sites pass iff `g ≥ 1`, `g ≥ min` unless `min = 0`, `g ≤ max` unless
`max = 0` — both bounds inclusive (this is the `lengthOk` of every soundness / completeness theorem above) -/
theorem lengthOk_iff (o : Opts) (g : Int) :
    lengthOk o g = true ↔ 1 ≤ g ∧ (o.minLength = 0 ∨ o.minLength ≤ g) ∧ (o.maxLength = 0 ∨ g ≤ o.maxLength) := by
  unfold lengthOk
  simp only [Bool.and_eq_true, Bool.or_eq_true, decide_eq_true_eq, beq_iff_eq]
  constructor
  · rintro ⟨⟨h1, h2⟩, h3⟩; exact ⟨by omega, h2, h3⟩
  · rintro ⟨h1, h2, h3⟩; exact ⟨⟨by omega, h2⟩, h3⟩

/-- a product of exactly `min` or exactly `max` symbols is kept, one of `max + 1` or `min - 1` symbols is not -/
example : lengthOk ⟨5, 9, false, -1, false⟩ 5 = true ∧ lengthOk ⟨5, 9, false, -1, false⟩ 9 = true ∧
    lengthOk ⟨5, 9, false, -1, false⟩ 4 = false ∧ lengthOk ⟨5, 9, false, -1, false⟩ 10 = false := by decide

/-- **the flanks on a linear template** (`--delta e`): without `--only-complete-flanking` the window is
`[max(i - e, 0), min(j + cl + e, L))` — the flanks are clipped at the ends of the template, the pair is always reported;
with it the window is `[i - e, j + cl + e)` and the pair is reported iff that lies inside the template; without
`--delta` the window is the segment between the sites -/
theorem linBounds_spec (o : Opts) (L i dl j cl : Nat) :
    (o.hasExtension = false → linBounds o L i dl j cl = some (i + dl, j)) ∧
    (o.hasExtension = true → o.fullExtension = false →
      linBounds o L i dl j cl = some (i - o.extension.toNat, min (j + cl + o.extension.toNat) L)) ∧
    (o.hasExtension = true → o.fullExtension = true →
      (o.extension.toNat ≤ i ∧ j + cl + o.extension.toNat ≤ L →
        linBounds o L i dl j cl = some (i - o.extension.toNat, j + cl + o.extension.toNat)) ∧
      (¬ (o.extension.toNat ≤ i ∧ j + cl + o.extension.toNat ≤ L) → linBounds o L i dl j cl = none)) := by
  unfold linBounds
  refine ⟨fun h => by simp [h], fun h1 h2 => by simp [h1, h2], fun h1 h2 => ⟨fun h => ?_, fun h => ?_⟩⟩
  · simp only [h1, h2, if_true]; rw [if_pos h]
  · simp only [h1, h2, if_true]; rw [if_neg h]

/-- `CLIPCR`'s options: `-l 0` (or negative) = no lower bound; `--delta` < 0 = no flanks; the two error budgets are the
same number; `--circular`, `--only-complete-flanking` as given -/
theorem cliOpts_spec (mn mx delta : Int) (full circ : Bool) :
    (cliOpts mn mx delta full circ).maxLength = mx ∧ (cliOpts mn mx delta full circ).circular = circ ∧
    (cliOpts mn mx delta full circ).fullExtension = full ∧
    ((cliOpts mn mx delta full circ).hasExtension = decide (0 ≤ delta)) ∧
    (0 ≤ delta → (cliOpts mn mx delta full circ).extension = delta) ∧
    (0 < mn → (cliOpts mn mx delta full circ).minLength = mn) ∧ (mn ≤ 0 → (cliOpts mn mx delta full circ).minLength = 0) := by
  refine ⟨rfl, rfl, rfl, ?_, ?_, ?_, ?_⟩
  · by_cases h : delta ≥ 0
    · have : (0 ≤ delta) := h
      simp only [cliOpts, Opts.hasExtension, h, if_true, decide_true, decide_eq_true_eq]; omega
    · have : ¬ (0 ≤ delta) := h
      simp only [cliOpts, Opts.hasExtension, h, if_false, decide_false, decide_eq_false_iff_not]; omega
  · intro h; unfold cliOpts; simp only []; rw [if_pos (by omega)]
  · intro h; unfold cliOpts; simp only []; rw [if_pos (by omega)]
  · intro h; unfold cliOpts; simp only []; rw [if_neg (by omega)]

/-! ## primers written with the extended grammar

`MatchAt` is C10's Hamming cost over the code list of the compiled pattern: classes `[..]`, negations `!`, obligatory
positions `#` are covered by every theorem above.  For every primer pair written in the documented grammar (`Tok`, `patStr`:
`['!'] (Letter | '[' Letter+ ']') ['#']`, 1..63 positions) the hypotheses `PrimersOk` and `PrimersMirror` hold
(`mkPrimers_grammar`, from C10's `complement_mirror`), so that strand symmetry is unconditional: -/

/-- **strand symmetry for every primer pair of the grammar** (linear template over the IUPAC symbols): the options never
end in `log.Fatalf`, and the PCR of the reverse complement is the PCR of the template with the direction flipped -/
theorem pcr_strand_symmetry_grammar (tf tr : List Tok) (hf : ∀ t ∈ tf, t.WF) (hr : ∀ t ∈ tr, t.WF)
    (hfn : tf ≠ []) (hrn : tr ≠ []) (hfl : tf.length ≤ 63) (hrl : tr.length ≤ 63) (ef er : Nat)
    (o : Opts) (hc : o.circular = false) (seq : Bytes) (hs : ∀ b ∈ seq, b ∈ iupac) :
    ∃ P l l', mkPrimers (patStr tf) (patStr tr) ef er = some P ∧ pcr P o seq = .ok l ∧ pcr P o (SeqOps.rc seq) = .ok l' ∧
      l'.Perm (l.map (flipAmp seq.length)) ∧
      (l'.map obs).Perm (l.map fun a => (!a.isForward, a.seq, a.fmatch, a.ferr, a.rmatch, a.rerr)) := by
  obtain ⟨P, hP, hok, hmir, _⟩ := mkPrimers_grammar tf tr hf hr hfn hrn hfl hrl ef er
  obtain ⟨l, hl⟩ := pcr_total P hok o hc seq
  obtain ⟨l', hl'⟩ := pcr_total P hok o hc (SeqOps.rc seq)
  exact ⟨P, l, l', hP, hl, hl', pcr_strand_symmetry P hok hmir o hc seq hs l l' hl hl',
    pcr_strand_symmetry_obs P hok hmir o hc seq hs l l' hl hl'⟩

/-- … and on a circular template of at least 64 symbols -/
theorem pcr_strand_symmetry_circular_grammar (tf tr : List Tok) (hf : ∀ t ∈ tf, t.WF) (hr : ∀ t ∈ tr, t.WF)
    (hfn : tf ≠ []) (hrn : tr ≠ []) (hfl : tf.length ≤ 63) (hrl : tr.length ≤ 63) (ef er : Nat)
    (o : Opts) (hc : o.circular = true) (seq : Bytes) (hs : ∀ b ∈ seq, b ∈ iupac) (h64 : 64 ≤ seq.length) :
    ∃ P l l', mkPrimers (patStr tf) (patStr tr) ef er = some P ∧ pcr P o seq = .ok l ∧ pcr P o (SeqOps.rc seq) = .ok l' ∧
      l'.Perm (l.map (flipC seq.length)) ∧
      (l'.map obs).Perm (l.map fun a => (!a.isForward, a.seq, a.fmatch, a.ferr, a.rmatch, a.rerr)) := by
  obtain ⟨P, hP, hok, hmir, _⟩ := mkPrimers_grammar tf tr hf hr hfn hrn hfl hrl ef er
  have hL := primersFit_of_64 P hok seq.length h64
  have hL' : PrimersFit P (SeqOps.rc seq).length := by rw [Pcr.rc_length]; exact hL
  obtain ⟨l, hl⟩ := pcr_total_circular P hok o hc seq hL
  obtain ⟨l', hl'⟩ := pcr_total_circular P hok o hc (SeqOps.rc seq) hL'
  exact ⟨P, l, l', hP, hl, hl', pcr_strand_symmetry_circular P hok hmir o hc seq hs hL l l' hl hl',
    pcr_strand_symmetry_circular_obs P hok hmir o hc seq hs hL l l' hl hl'⟩

/-- non-vacuity: the primers `A#CGTA` / `GG[AT]!TC` are in the grammar (an obligatory position, a class, a negation) -/
example : ∃ tf tr : List Tok, (∀ t ∈ tf, t.WF) ∧ (∀ t ∈ tr, t.WF) ∧ tf ≠ [] ∧ tr ≠ [] ∧ tf.length ≤ 63 ∧ tr.length ≤ 63 ∧
    patStr tf = [65, 35, 67, 71, 84, 65] ∧ patStr tr = [71, 71, 91, 65, 84, 93, 33, 84, 67] :=
  ⟨[⟨false, false, [65], true⟩, ⟨false, false, [67], false⟩, ⟨false, false, [71], false⟩, ⟨false, false, [84], false⟩,
     ⟨false, false, [65], false⟩],
   [⟨false, false, [71], false⟩, ⟨false, false, [71], false⟩, ⟨false, true, [65, 84], false⟩, ⟨true, false, [84], false⟩,
     ⟨false, false, [67], false⟩],
   (by intro t ht
       simp only [List.mem_cons, List.not_mem_nil, or_false] at ht
       rcases ht with rfl | rfl | rfl | rfl | rfl <;> exact ⟨by decide, by decide, by decide⟩),
   (by intro t ht
       simp only [List.mem_cons, List.not_mem_nil, or_false] at ht
       rcases ht with rfl | rfl | rfl | rfl | rfl <;> exact ⟨by decide, by decide, by decide⟩),
   by decide, by decide, by decide, by decide, by decide, by decide⟩

/-! ## circular templates: the window the options ask for

`pcr_sound_circular` says what the code returns: `clen` symbols from `cstart`, where `clen` is the requested number `creq`
**modulo the length of the circle**.  The property wants "flanks added as requested":

    FULL STATEMENT (false for the code as it is): every reported record carries the `creq` symbols read clockwise from
    `cstart`, i.e. the two sites, what lies between them and `e` symbols on each side.

It holds whenever the request fits in one turn (`pcr_circular_window_partial`, hypothesis `creq ≤ L`, decidable); when the
two flanks meet behind the product (`creq > L`) `Subsequence` silently returns `creq - L` symbols, which do not even
contain the two sites (`pcr_circular_window_counterexample`; harness signature `pcr.circ.overlong-window`, proposed
finding `C11-circular-window-longer-than-circle`). -/

/-- **the window of a circular record is the requested one when it fits in one turn** (`_partial`: hypothesis
`creq ≤ L` on the pair) -/
theorem pcr_circular_window_partial (P : Primers) (hP : PrimersOk P) (o : Opts) (hc : o.circular = true) (seq : Bytes)
    (hL : PrimersFit P seq.length) (l : List Amplicon) (h : pcr P o seq = .ok l) (x : Amplicon) (hx : x ∈ l) :
    (∃ i ki j kj, CMatchAt P.forward (enc seq) i ki ∧ CMatchAt P.crev (enc seq) j kj ∧
        (creq o seq.length i P.forward.patlen j P.crev.patlen ≤ seq.length →
          ∃ n : Nat, (n : Int) = creq o seq.length i P.forward.patlen j P.crev.patlen ∧
            x = mkAmpC true seq i ki j kj P.forward.patlen P.crev.patlen (cstart o seq.length i P.forward.patlen) n)) ∨
    (∃ i ki j kj, CMatchAt P.reverse (enc seq) i ki ∧ CMatchAt P.cfwd (enc seq) j kj ∧
        (creq o seq.length i P.reverse.patlen j P.cfwd.patlen ≤ seq.length →
          ∃ n : Nat, (n : Int) = creq o seq.length i P.reverse.patlen j P.cfwd.patlen ∧
            x = mkAmpC false seq i ki j kj P.reverse.patlen P.cfwd.patlen (cstart o seq.length i P.reverse.patlen) n)) := by
  have key : ∀ (L i dl j cl : Nat), lengthOk o (cgap L i dl j) = true → creq o L i dl j cl ≤ L →
      ((clen o L i dl j cl : Nat) : Int) = creq o L i dl j cl := by
    intro L i dl j cl hl hle
    apply clen_of_le o L i dl j cl _ hle
    have := lengthOk_pos o _ hl
    unfold creq
    split
    · rename_i hx
      have : o.extension > -1 := by simpa [Opts.hasExtension] using hx
      omega
    · omega
  rcases pcr_sound_circular P hP o hc seq hL l h x hx with ⟨i, ki, j, kj, h1, h2, h3, _, h5⟩ | ⟨i, ki, j, kj, h1, h2, h3, _, h5⟩
  · exact Or.inl ⟨i, ki, j, kj, h1, h2, fun hle => ⟨_, key _ _ _ _ _ h3 hle, h5⟩⟩
  · exact Or.inr ⟨i, ki, j, kj, h1, h2, fun hle => ⟨_, key _ _ _ _ _ h3 hle, h5⟩⟩

/-- **counterexample to the full statement**: circle `gttccaatac` (10 symbols), primers ACG / GGA, flanks of 2 symbols: the
sites ACG at 8 and TCC at 2 are one symbol apart, the request is 1 + 3 + 3 + 2·2 = 11 symbols > 10, and the reported
"amplicon with its flanks" is the single symbol `a` at position 6 — it contains neither site (test by evaluation of the
model; the same record is returned by the real code: corpus case of the harness) -/
theorem pcr_circular_window_counterexample :
    creq ⟨0, 0, true, 2, false⟩ 10 8 3 2 3 = 11 ∧
    (match pcr exPrimers ⟨0, 0, true, 2, false⟩ [103, 116, 116, 99, 99, 97, 97, 116, 97, 99] with
     | .ok l => l.map obs == [(true, [97], [97, 99, 103], 0, [103, 103, 97], 0)]
     | _ => false) = true := by decide

/-! ## fragmented search (`obipcr --fragmented`: `IFragments` then `_PCRSlice` over the pieces)

`fragments minsize length overlap L = some (some ps)`: the template is longer than `minsize` and is cut into the pieces
`ps` (`[a, b)`, consecutive pieces share `overlap` symbols, the last one absorbs a remainder shorter than the step).
`pcrL` is the list `_Pcr` returns (it always returns on a linear template, `pcrL_spec`); `shiftAmp a y` is the record `y` of
the piece starting at `a` seen in the coordinates of the template.  `o.flank` is the `--delta` (0 without). -/

/-- `pcrL` is what `_Pcr` returns -/
theorem pcrL_eq (P : Primers) (hP : PrimersOk P) (o : Opts) (hc : o.circular = false) (seq : Bytes) :
    pcr P o seq = .ok (pcrL P o seq) := pcrL_spec P hP o hc seq

/-- **one piece, no flanks or only complete flanks**: the records of the piece `[a, b)` are exactly the records of the
template whose two sites and window lie inside `[a, b)`, coordinates relative to the piece -/
theorem pcr_piece_iff (P : Primers) (hP : PrimersOk P) (o : Opts) (hc : o.circular = false)
    (hm : o.hasExtension = false ∨ o.fullExtension = true) (seq : Bytes) (a b : Nat) (hab : a ≤ b) (hb : b ≤ seq.length)
    (x : Amplicon) :
    (∃ y ∈ pcrL P o (seg seq a b), shiftAmp a y = x) ↔ x ∈ pcrL P o seq ∧ (a : Int) ≤ ampLo x ∧ ampHi x ≤ b := by
  simp only [mem_pcrL_iff P hP o hc]
  constructor
  · rintro ⟨y, hy | hy, rfl⟩
    · have := block_of_piece true _ _ hP.forward hP.crev _ _ (Int.natCast_nonneg _) o hc hm seq a b hab hb y hy
      exact ⟨Or.inl this.1, this.2⟩
    · have := block_of_piece false _ _ hP.reverse hP.cfwd _ _ (Int.natCast_nonneg _) o hc hm seq a b hab hb y hy
      exact ⟨Or.inr this.1, this.2⟩
  · rintro ⟨hx | hx, h1, h2⟩
    · obtain ⟨y, hy, he⟩ := block_to_piece true _ _ hP.forward hP.crev _ _ (Int.natCast_nonneg _) o hc seq a b hb x hx h1 h2
      exact ⟨y, Or.inl hy, he⟩
    · obtain ⟨y, hy, he⟩ := block_to_piece false _ _ hP.reverse hP.cfwd _ _ (Int.natCast_nonneg _) o hc seq a b hb x hx h1 h2
      exact ⟨y, Or.inr hy, he⟩

/-- **one piece, every linear mode (clipped flanks included)**: a record of the template that lies inside the piece is
reported for the piece -/
theorem pcr_piece_complete (P : Primers) (hP : PrimersOk P) (o : Opts) (hc : o.circular = false)
    (seq : Bytes) (a b : Nat) (hb : b ≤ seq.length) (x : Amplicon)
    (hx : x ∈ pcrL P o seq) (h1 : (a : Int) ≤ ampLo x) (h2 : ampHi x ≤ b) :
    ∃ y ∈ pcrL P o (seg seq a b), shiftAmp a y = x := by
  simp only [mem_pcrL_iff P hP o hc] at hx ⊢
  rcases hx with hx | hx
  · obtain ⟨y, hy, he⟩ := block_to_piece true _ _ hP.forward hP.crev _ _ (Int.natCast_nonneg _) o hc seq a b hb x hx h1 h2
    exact ⟨y, Or.inl hy, he⟩
  · obtain ⟨y, hy, he⟩ := block_to_piece false _ _ hP.reverse hP.cfwd _ _ (Int.natCast_nonneg _) o hc seq a b hb x hx h1 h2
    exact ⟨y, Or.inr hy, he⟩

/-- **one piece, flanks that may be clipped** (`--delta` without `--only-complete-flanking`; the open finding
`C11-frag-clipped-flank`, stated exactly): a record `y` of the piece comes from a pair of sites for which the template
reports a record `x` with the same direction, matched strings and error counts; the window of `y` is contained in the
window of `x`, and `y` IS `x` unless an end of the piece that is not an end of the template clipped a flank -/
theorem pcr_piece_clipped (P : Primers) (hP : PrimersOk P) (o : Opts) (hc : o.circular = false)
    (hx : o.hasExtension = true) (hf : o.fullExtension = false) (seq : Bytes) (a b : Nat) (hab : a ≤ b) (hb : b ≤ seq.length)
    (y : Amplicon) (hy : y ∈ pcrL P o (seg seq a b)) :
    ∃ x ∈ pcrL P o seq, x.hitD = shiftHit a y.hitD ∧ x.hitC = shiftHit a y.hitC ∧ x.isForward = y.isForward ∧
      x.fmatch = y.fmatch ∧ x.ferr = y.ferr ∧ x.rmatch = y.rmatch ∧ x.rerr = y.rerr ∧
      x.idFrom ≤ y.idFrom + a ∧ y.idTo + a ≤ x.idTo ∧
      ((o.extension ≤ y.hitD.1 ∨ a = 0) → (y.hitC.2.1 + o.extension + a ≤ b ∨ b = seq.length) → x = shiftAmp a y) := by
  simp only [mem_pcrL_iff P hP o hc] at hy ⊢
  rcases hy with hy | hy
  · obtain ⟨x, h1, h2⟩ := block_of_piece_clipped true _ _ hP.forward hP.crev _ _ (Int.natCast_nonneg _) o hc hx hf seq a b hab hb y hy
    exact ⟨x, Or.inl h1, h2⟩
  · obtain ⟨x, h1, h2⟩ := block_of_piece_clipped false _ _ hP.reverse hP.cfwd _ _ (Int.natCast_nonneg _) o hc hx hf seq a b hab hb y hy
    exact ⟨x, Or.inr h1, h2⟩

/-- **Completeness of the fragmented search, with the exact arithmetic condition** (every linear mode): if two consecutive
pieces share at least `max length + both sites + both flanks − 1` symbols, every amplicon of the template is reported for
at least one piece.  (`overlap ≥ 0`, `max length > 0`: always so in `CLIPCR`.) -/
theorem pcr_fragmented_complete (P : Primers) (hP : PrimersOk P) (o : Opts) (hc : o.circular = false) (hmax : o.maxLength > 0)
    (seq : Bytes) (minsize length overlap : Int) (ps : List (Nat × Nat))
    (hfr : fragments minsize length overlap seq.length = some (some ps)) (hov : 0 ≤ overlap)
    (hw1 : o.maxLength + P.forward.patlen + P.crev.patlen + 2 * o.flank ≤ overlap + 1)
    (hw2 : o.maxLength + P.reverse.patlen + P.cfwd.patlen + 2 * o.flank ≤ overlap + 1)
    (x : Amplicon) (hx : x ∈ pcrL P o seq) :
    ∃ p ∈ ps, ∃ y ∈ pcrL P o (seg seq p.1 p.2), shiftAmp p.1 y = x := by
  simp only [mem_pcrL_iff P hP o hc] at hx ⊢
  rcases hx with hx | hx
  · obtain ⟨p, hp, y, hy, he⟩ := block_frag_complete true _ _ hP.forward hP.crev _ _ (Int.natCast_nonneg _) o hc hmax seq
      minsize length overlap ps hfr hov hw1 x hx
    exact ⟨p, hp, y, Or.inl hy, he⟩
  · obtain ⟨p, hp, y, hy, he⟩ := block_frag_complete false _ _ hP.reverse hP.cfwd _ _ (Int.natCast_nonneg _) o hc hmax seq
      minsize length overlap ps hfr hov hw2 x hx
    exact ⟨p, hp, y, Or.inr hy, he⟩

/-- **The fragmented search returns exactly the amplicons of the template** (as a set, coordinates of the template; no
flanks or only complete flanks): `union over the pieces of their amplicons = amplicons of the whole template`, under the
overlap condition of `pcr_fragmented_complete`. -/
theorem pcr_fragmented (P : Primers) (hP : PrimersOk P) (o : Opts) (hc : o.circular = false)
    (hm : o.hasExtension = false ∨ o.fullExtension = true) (hmax : o.maxLength > 0)
    (seq : Bytes) (minsize length overlap : Int) (ps : List (Nat × Nat))
    (hfr : fragments minsize length overlap seq.length = some (some ps)) (hov : 0 ≤ overlap)
    (hw1 : o.maxLength + P.forward.patlen + P.crev.patlen + 2 * o.flank ≤ overlap + 1)
    (hw2 : o.maxLength + P.reverse.patlen + P.cfwd.patlen + 2 * o.flank ≤ overlap + 1) (x : Amplicon) :
    x ∈ pcrL P o seq ↔ ∃ p ∈ ps, ∃ y ∈ pcrL P o (seg seq p.1 p.2), shiftAmp p.1 y = x := by
  constructor
  · exact pcr_fragmented_complete P hP o hc hmax seq minsize length overlap ps hfr hov hw1 hw2 x
  · rintro ⟨p, hp, y, hy, rfl⟩
    simp only [mem_pcrL_iff P hP o hc] at hy ⊢
    rcases hy with hy | hy
    · exact Or.inl (block_frag_sound true _ _ hP.forward hP.crev _ _ (Int.natCast_nonneg _) o hc hm seq minsize length overlap
        ps hfr hov p hp y hy)
    · exact Or.inr (block_frag_sound false _ _ hP.reverse hP.cfwd _ _ (Int.natCast_nonneg _) o hc hm seq minsize length overlap
        ps hfr hov p hp y hy)

/-- **Duplicates of the fragmented search are exactly the amplicons lying inside an overlap** (there is no
de-duplication in `CLIPCR`): an amplicon of the template is reported for the two pieces `p` and `q` iff its two sites and
its window lie inside both, i.e. inside `[max p.1 q.1, min p.2 q.2)`; each piece reports it at most once (`pcr_nodup`). -/
theorem pcr_fragment_duplicates (P : Primers) (hP : PrimersOk P) (o : Opts) (hc : o.circular = false)
    (hm : o.hasExtension = false ∨ o.fullExtension = true) (seq : Bytes) (p q : Nat × Nat)
    (hp : p.1 ≤ p.2 ∧ p.2 ≤ seq.length) (hq : q.1 ≤ q.2 ∧ q.2 ≤ seq.length) (x : Amplicon) :
    ((∃ y ∈ pcrL P o (seg seq p.1 p.2), shiftAmp p.1 y = x) ∧ (∃ y ∈ pcrL P o (seg seq q.1 q.2), shiftAmp q.1 y = x)) ↔
      x ∈ pcrL P o seq ∧ ((max p.1 q.1 : Nat) : Int) ≤ ampLo x ∧ ampHi x ≤ (min p.2 q.2 : Nat) := by
  rw [pcr_piece_iff P hP o hc hm seq p.1 p.2 hp.1 hp.2, pcr_piece_iff P hP o hc hm seq q.1 q.2 hq.1 hq.2]
  constructor
  · rintro ⟨⟨h1, h2, h3⟩, _, h5, h6⟩; exact ⟨h1, by omega, by omega⟩
  · rintro ⟨h1, h2, h3⟩; exact ⟨⟨h1, by omega, by omega⟩, h1, by omega, by omega⟩

/-- the pieces of a template: non-empty intervals of the template -/
theorem fragments_pieces (minsize length overlap : Int) (len : Nat) (ps : List (Nat × Nat))
    (hfr : fragments minsize length overlap len = some (some ps)) (hov : 0 ≤ overlap) :
    ∀ p ∈ ps, p.1 < p.2 ∧ p.2 ≤ len := by
  obtain ⟨_, hst, hloop⟩ := fragments_inv minsize length overlap len ps hfr
  intro p hp
  exact (fragLoop_pieces len length.toNat (length - overlap).toNat (by omega) _ 0 ps hloop p hp).2

/-- `IFragments` terminates on a template longer than `minsize` as soon as `overlap < length` (otherwise its loop does not
advance: the model says `none`, the driver `bad-op`) -/
theorem fragments_total (minsize length overlap : Int) (len : Nat) (hm : minsize < len) (hst : overlap < length) :
    ∃ ps, fragments minsize length overlap len = some (some ps) := by
  obtain ⟨ps, h, _⟩ := fragments_some minsize length overlap len hm (by omega)
  exact ⟨ps, h⟩

/-- **`obipcr --fragmented` with the repaired overlap** (patch `C11-fragment-overlap`), primers of the grammar, no `--delta` or
`--only-complete-flanking`: with the parameters `CLIPCR` gives to `IFragments` (pieces of `100·L`, overlap
`L + len(forward) + len(reverse) + 2·delta` — lengths of the primer *strings*, at least the numbers of positions), the
union of the amplicons of the pieces is the set of amplicons of the template.  Hypothesis `overlap < 100·L`: otherwise
`IFragments` does not advance. -/
theorem cli_fragmented (tf tr : List Tok) (hf : ∀ t ∈ tf, t.WF) (hr : ∀ t ∈ tr, t.WF)
    (hfn : tf ≠ []) (hrn : tr ≠ []) (hfl : tf.length ≤ 63) (hrl : tr.length ≤ 63) (e : Nat)
    (mn mx delta : Int) (full : Bool) (hmx : 0 < mx) (hm : delta < 0 ∨ full = true) (seq : Bytes)
    (hlong : mx * 1000 < seq.length)
    (hstep : (cliFragParams mx (patStr tf).length (patStr tr).length delta).2.2 < mx * 100) :
    ∃ P ps, mkPrimers (patStr tf) (patStr tr) e e = some P ∧
      fragments (cliFragParams mx (patStr tf).length (patStr tr).length delta).1
        (cliFragParams mx (patStr tf).length (patStr tr).length delta).2.1
        (cliFragParams mx (patStr tf).length (patStr tr).length delta).2.2 seq.length = some (some ps) ∧
      ∀ x, x ∈ pcrL P (cliOpts mn mx delta full false) seq ↔
        ∃ p ∈ ps, ∃ y ∈ pcrL P (cliOpts mn mx delta full false) (seg seq p.1 p.2), shiftAmp p.1 y = x := by
  obtain ⟨P, hP, hok, _, l1, l2, l3, l4, _⟩ := mkPrimers_grammar tf tr hf hr hfn hrn hfl hrl e e
  have g1 := patStr_length_ge tf hf
  have g2 := patStr_length_ge tr hr
  obtain ⟨ps, hps⟩ := fragments_total (cliFragParams mx (patStr tf).length (patStr tr).length delta).1
    (cliFragParams mx (patStr tf).length (patStr tr).length delta).2.1
    (cliFragParams mx (patStr tf).length (patStr tr).length delta).2.2 seq.length hlong hstep
  refine ⟨P, ps, hP, hps, ?_⟩
  have hopt : (cliOpts mn mx delta full false).hasExtension = false ∨ (cliOpts mn mx delta full false).fullExtension = true := by
    rcases hm with hm | hm
    · left
      rw [(cliOpts_spec mn mx delta full false).2.2.2.1]
      simp; omega
    · right; exact hm
  have hflank : (cliOpts mn mx delta full false).flank = if delta ≥ 0 then delta else 0 := by
    unfold Opts.flank
    rw [(cliOpts_spec mn mx delta full false).2.2.2.1]
    by_cases h : delta ≥ 0
    · rw [if_pos (by simpa using h), if_pos h, (cliOpts_spec mn mx delta full false).2.2.2.2.1 (by omega)]
    · rw [if_neg (by simpa using h), if_neg h]
  have hov : 0 ≤ (cliFragParams mx (patStr tf).length (patStr tr).length delta).2.2 := by
    unfold cliFragParams; simp only []; split <;> omega
  intro x
  apply pcr_fragmented P hok _ rfl hopt hmx seq _ _ _ ps hps hov
  · rw [hflank, l1, l4]; unfold cliFragParams; simp only [cliOpts]; split <;> omega
  · rw [hflank, l3, l2]; unfold cliFragParams; simp only [cliOpts]; split <;> omega

/-- **the overlap bound is exact** (test by evaluation): pieces of 10 symbols sharing 4 (step 6) of a template of 30: the
window `[5, 11)` of 6 = overlap + 2 symbols lies inside no piece (while every window of 5 does: `fragLoop_cover`); and the
former overlap of `CLIPCR` (`L + max(lf, lr) + min(lf, lr)/2` = 4 + 7 + 2 = 13 for `-L 4`, primers of 7 and 5 positions) is
smaller than the longest product (16): the product `[386, 402)` of a template of 4001 symbols lies inside no piece -/
theorem overlap_bound_exact :
    (fragments 20 10 4 30 = some (some [(0, 10), (6, 16), (12, 22), (18, 30)]) ∧
      ∀ p ∈ [(0, 10), (6, 16), (12, 22), (18, 30)], ¬ (p.1 ≤ 5 ∧ 11 ≤ p.2)) ∧
    ((fragments 4000 400 13 4001).map (·.map fun ps => ps.take 3) = some (some [(0, 400), (387, 787), (774, 1174)]) ∧
      ∀ p ∈ [(0, 400), (387, 787), (774, 1174)], ¬ (p.1 ≤ 386 ∧ 402 ≤ p.2)) := by decide

/-- the template of the next example: three copies of `tacgttccaa` -/
def exTpl3 : Bytes := [116, 97, 99, 103, 116, 116, 99, 99, 97, 97, 116, 97, 99, 103, 116, 116, 99, 99, 97, 97,
  116, 97, 99, 103, 116, 116, 99, 99, 97, 97]

/-- non-vacuity of the fragment theorems (test by evaluation): three copies of `tacgttccaa`, primers ACG / GGA, `-L 1`; pieces
`[0, 20)` and `[6, 30)` (length 20, overlap 14 ≥ 1 + 3 + 3 − 1). The template has the amplicons at 5, 15 and 25; the one at 15
(sites and window `[11, 18)`) lies inside both pieces and is reported by both, the two others by one piece each -/
example :
    fragments 10 20 14 30 = some (some [(0, 20), (6, 30)]) ∧
    (pcrL exPrimers ⟨0, 1, false, -1, false⟩ exTpl3).map (fun x => (x.idFrom, ampLo x, ampHi x)) =
      [(5, 1, 8), (15, 11, 18), (25, 21, 28)] ∧
    (pcrL exPrimers ⟨0, 1, false, -1, false⟩ (seg exTpl3 0 20)).map (fun x => (shiftAmp 0 x).idFrom) = [5, 15] ∧
    (pcrL exPrimers ⟨0, 1, false, -1, false⟩ (seg exTpl3 6 30)).map (fun x => (shiftAmp 6 x).idFrom) = [15, 25] := by decide

/-! ## third pass: annotations, short circles, pairing rule, the command line end to end

### the reported match strings and error counts are those of the two sites — of the primer they are attributed to

In both orientation blocks `forward_match` / `forward_error` speak of the FORWARD primer and `reverse_match` / `reverse_error`
of the REVERSE primer (in the reverse block the direct site is the reverse primer's and the complemented site the forward
primer's): each string, read alone, is a site of its primer in primer orientation with exactly the reported number of
mismatches. -/

/-- **`pcr_match_strings`** (linear template over the IUPAC symbols): for every reported record, `forward_match` matches the
forward primer with exactly `forward_error` mismatches and `reverse_match` the reverse primer with exactly `reverse_error`
mismatches — in either direction. -/
theorem pcr_match_strings (P : Primers) (hP : PrimersOk P) (hM : PrimersMirror P) (o : Opts) (hc : o.circular = false)
    (seq : Bytes) (hs : ∀ b ∈ seq, b ∈ iupac) (l : List Amplicon) (h : pcr P o seq = .ok l) (x : Amplicon) (hx : x ∈ l) :
    ∃ kf kr : Nat, x.ferr = kf ∧ x.rerr = kr ∧ MatchAt P.forward (enc x.fmatch) 0 kf ∧ MatchAt P.reverse (enc x.rmatch) 0 kr := by
  rcases pcr_sound P hP o hc seq l h x hx with ⟨i, ki, j, kj, a, b, h1, h2, _, _, rfl⟩ | ⟨i, ki, j, kj, a, b, h1, h2, _, _, rfl⟩
  · refine ⟨ki, kj, by simp [mkAmp], by simp [mkAmp], ?_, ?_⟩
    · simpa [mkAmp] using site_of_seg P.forward seq i ki h1
    · simpa [mkAmp] using site_of_rc_seg P.reverse P.crev hM.rev seq hs j kj h2
  · refine ⟨kj, ki, by simp [mkAmp], by simp [mkAmp], ?_, ?_⟩
    · simpa [mkAmp] using site_of_rc_seg P.forward P.cfwd hM.fwd seq hs j kj h2
    · simpa [mkAmp] using site_of_seg P.reverse seq i ki h1

/-- … on a circular template (any length; `PrimersFit` as in `pcr_sound_circular`) -/
theorem pcr_match_strings_circular (P : Primers) (hP : PrimersOk P) (hM : PrimersMirror P) (o : Opts) (hc : o.circular = true)
    (seq : Bytes) (hs : ∀ b ∈ seq, b ∈ iupac) (hL : PrimersFit P seq.length) (l : List Amplicon) (h : pcr P o seq = .ok l)
    (x : Amplicon) (hx : x ∈ l) :
    ∃ kf kr : Nat, x.ferr = kf ∧ x.rerr = kr ∧ MatchAt P.forward (enc x.fmatch) 0 kf ∧ MatchAt P.reverse (enc x.rmatch) 0 kr := by
  rcases pcr_sound_circular P hP o hc seq hL l h x hx with ⟨i, ki, j, kj, h1, h2, _, _, rfl⟩ | ⟨i, ki, j, kj, h1, h2, _, _, rfl⟩
  · refine ⟨ki, kj, by simp [mkAmpC], by simp [mkAmpC], ?_, ?_⟩
    · simpa [mkAmpC] using site_of_cseg P.forward seq i ki h1
    · simpa [mkAmpC] using site_of_rc_cseg P.reverse P.crev hM.rev seq hs j kj h2
  · refine ⟨kj, ki, by simp [mkAmpC], by simp [mkAmpC], ?_, ?_⟩
    · simpa [mkAmpC] using site_of_rc_cseg P.forward P.cfwd hM.fwd seq hs j kj h2
    · simpa [mkAmpC] using site_of_cseg P.reverse seq i ki h1

/-- **the annotation map of a reported amplicon** (`annotate`, `Model/PcrAnnot.lean`; compared with the real map on every
case): `forward_primer` / `reverse_primer` are the primer strings as given, `forward_match`, `forward_error`, `reverse_match`,
`reverse_error`, `direction` the fields of the record — whatever the template carried under these seven names — and every
other annotation of the template is inherited unchanged (nothing else is added). -/
theorem amplicon_annotations (fwd rev : Bytes) (tpl : Annot) (x : Amplicon) :
    ((annotate fwd rev tpl x).get (.pcr .forwardPrimer) = some (.str fwd) ∧
     (annotate fwd rev tpl x).get (.pcr .reversePrimer) = some (.str rev) ∧
     (annotate fwd rev tpl x).get (.pcr .forwardMatch) = some (.str x.fmatch) ∧
     (annotate fwd rev tpl x).get (.pcr .forwardError) = some (.int x.ferr) ∧
     (annotate fwd rev tpl x).get (.pcr .reverseMatch) = some (.str x.rmatch) ∧
     (annotate fwd rev tpl x).get (.pcr .reverseError) = some (.int x.rerr) ∧
     (annotate fwd rev tpl x).get (.pcr .direction) = some (.str (dirBytes x.isForward))) ∧
    ∀ n, (annotate fwd rev tpl x).get (.other n) = tpl.get (.other n) :=
  ⟨annotate_get_pcr fwd rev tpl x, annotate_get_other fwd rev tpl x⟩

/-- the annotations of a flipped record: those of the record with the other direction -/
theorem annotate_flipAmp (fwd rev : Bytes) (tpl : Annot) (L : Nat) (x : Amplicon) :
    annotate fwd rev tpl (flipAmp L x) = annotate fwd rev tpl { x with isForward := !x.isForward } := rfl

theorem annotate_flipC (fwd rev : Bytes) (tpl : Annot) (L : Nat) (x : Amplicon) :
    annotate fwd rev tpl (flipC L x) = annotate fwd rev tpl { x with isForward := !x.isForward } := rfl

/-- **strand symmetry, annotations included** (linear): the multiset of (nucleotides, annotation map) reported for the
reverse-complemented template — carrying the same annotations — is the one reported for the template with `direction`
flipped: same `forward_primer`, `reverse_primer`, match strings, error counts, inherited annotations. -/
theorem pcr_strand_symmetry_annot (P : Primers) (hP : PrimersOk P) (hM : PrimersMirror P) (o : Opts) (hc : o.circular = false)
    (seq : Bytes) (hs : ∀ b ∈ seq, b ∈ iupac) (fwd rev : Bytes) (tpl : Annot) (l l' : List Amplicon)
    (h : pcr P o seq = .ok l) (h' : pcr P o (SeqOps.rc seq) = .ok l') :
    (l'.map fun a => (a.seq, annotate fwd rev tpl a)).Perm
      (l.map fun a => (a.seq, annotate fwd rev tpl { a with isForward := !a.isForward })) := by
  have := (pcr_strand_symmetry P hP hM o hc seq hs l l' h h').map fun a => (a.seq, annotate fwd rev tpl a)
  rw [List.map_map] at this
  exact this

/-- … on a circular template -/
theorem pcr_strand_symmetry_circular_annot (P : Primers) (hP : PrimersOk P) (hM : PrimersMirror P) (o : Opts)
    (hc : o.circular = true) (seq : Bytes) (hs : ∀ b ∈ seq, b ∈ iupac) (hL : PrimersFit P seq.length)
    (fwd rev : Bytes) (tpl : Annot) (l l' : List Amplicon)
    (h : pcr P o seq = .ok l) (h' : pcr P o (SeqOps.rc seq) = .ok l') :
    (l'.map fun a => (a.seq, annotate fwd rev tpl a)).Perm
      (l.map fun a => (a.seq, annotate fwd rev tpl { a with isForward := !a.isForward })) := by
  have := (pcr_strand_symmetry_circular P hP hM o hc seq hs hL l l' h h').map fun a => (a.seq, annotate fwd rev tpl a)
  rw [List.map_map] at this
  exact this

/-- non-vacuity / test (evaluation of the model): the record of `tacgttccaa` and the one of its reverse complement
`ttggaacgta` carry the same `forward_match` (`acg`, a site of ACG) and `reverse_match` (`gga`, a site of GGA) -/
example : (match pcr exPrimers ⟨0, 0, false, -1, false⟩ [116, 97, 99, 103, 116, 116, 99, 99, 97, 97],
                 pcr exPrimers ⟨0, 0, false, -1, false⟩ [116, 116, 103, 103, 97, 97, 99, 103, 116, 97] with
    | .ok [x], .ok [y] =>
      decide (x.fmatch = [97, 99, 103] ∧ x.rmatch = [103, 103, 97] ∧ y.fmatch = [97, 99, 103] ∧ y.rmatch = [103, 103, 97] ∧
        x.isForward = true ∧ y.isForward = false)
    | _, _ => false) = true ∧
    MatchAt exPrimers.forward (enc [97, 99, 103]) 0 0 ∧ MatchAt exPrimers.reverse (enc [103, 103, 97]) 0 0 :=
  ⟨by decide, ⟨by decide, by decide, by decide⟩, ⟨by decide, by decide, by decide⟩⟩

/-! ### circular templates shorter than a primer

Since fix c69892e the C encoder copies `min(len, 64)` symbols behind a circular sequence (what `seqData` does): the model is
tied to the code for every length.  A primer longer than the circle can be "found" by the matcher (the buffer holds the
circle twice) but never yields an amplicon; so every circular theorem extends to all lengths. -/

/-- **a primer longer than the circular template: no amplicon** (`cfwd` / `crev` have the lengths of the primers: true of
every compiled pair, `Mirror.patlen`) -/
theorem pcr_circular_unfit (P : Primers) (hP : PrimersOk P) (hlen : P.cfwd.patlen = P.forward.patlen ∧ P.crev.patlen = P.reverse.patlen)
    (o : Opts) (hc : o.circular = true) (seq : Bytes)
    (hu : seq.length < P.forward.patlen ∨ seq.length < P.reverse.patlen) : pcr P o seq = .ok [] := by
  have b1 : block true P.forward P.crev P.forward.patlen P.reverse.patlen o seq = [] :=
    block_unfit true _ _ hP.forward hP.crev _ o hc seq (by rcases hu with hu | hu <;> omega)
  have b2 : block false P.reverse P.cfwd P.reverse.patlen P.reverse.patlen o seq = [] :=
    block_unfit false _ _ hP.reverse hP.cfwd _ o hc seq (by rcases hu with hu | hu <;> omega)
  unfold pcr pcrRaw
  rw [b1, b2]
  rfl

/-- primers that are not longer than the template fit -/
theorem primersFit_of_not_unfit (P : Primers) (hlen : P.cfwd.patlen = P.forward.patlen ∧ P.crev.patlen = P.reverse.patlen)
    (L : Nat) (h : ¬ (L < P.forward.patlen ∨ L < P.reverse.patlen)) : PrimersFit P L :=
  ⟨by omega, by omega, by omega, by omega⟩

/-- **no `log.Fatalf`, no panic on a circular template of any length** -/
theorem pcr_total_circular_all (P : Primers) (hP : PrimersOk P) (hlen : P.cfwd.patlen = P.forward.patlen ∧ P.crev.patlen = P.reverse.patlen)
    (o : Opts) (hc : o.circular = true) (seq : Bytes) : ∃ l, pcr P o seq = .ok l := by
  by_cases hu : seq.length < P.forward.patlen ∨ seq.length < P.reverse.patlen
  · exact ⟨[], pcr_circular_unfit P hP hlen o hc seq hu⟩
  · exact pcr_total_circular P hP o hc seq (primersFit_of_not_unfit P hlen _ hu)

/-- **rotation invariance for circular templates of any length** (also shorter than 64 symbols, also shorter than a primer) -/
theorem pcr_rotation_all (P : Primers) (hP : PrimersOk P) (hlen : P.cfwd.patlen = P.forward.patlen ∧ P.crev.patlen = P.reverse.patlen)
    (o : Opts) (hc : o.circular = true) (seq : Bytes) (r : Nat) (l l' : List Amplicon)
    (h : pcr P o seq = .ok l) (h' : pcr P o (rotl seq r) = .ok l') :
    ∀ t, t ∈ l'.map obs ↔ t ∈ l.map obs := by
  by_cases hu : seq.length < P.forward.patlen ∨ seq.length < P.reverse.patlen
  · have e1 := pcr_circular_unfit P hP hlen o hc seq hu
    have e2 := pcr_circular_unfit P hP hlen o hc (rotl seq r) (by rw [rotl_length]; exact hu)
    rw [e1] at h; rw [e2] at h'
    cases h; cases h'
    intro t; rfl
  · exact pcr_rotation P hP o hc seq (primersFit_of_not_unfit P hlen _ hu) r l l' h h'

/-- **strand symmetry for circular templates of any length** -/
theorem pcr_strand_symmetry_circular_all (P : Primers) (hP : PrimersOk P) (hM : PrimersMirror P) (o : Opts)
    (hc : o.circular = true) (seq : Bytes) (hs : ∀ b ∈ seq, b ∈ iupac) (l l' : List Amplicon)
    (h : pcr P o seq = .ok l) (h' : pcr P o (SeqOps.rc seq) = .ok l') :
    (l'.map obs).Perm (l.map fun a => (!a.isForward, a.seq, a.fmatch, a.ferr, a.rmatch, a.rerr)) := by
  have hlen : P.cfwd.patlen = P.forward.patlen ∧ P.crev.patlen = P.reverse.patlen := ⟨hM.fwd.patlen, hM.rev.patlen⟩
  by_cases hu : seq.length < P.forward.patlen ∨ seq.length < P.reverse.patlen
  · have e1 := pcr_circular_unfit P hP hlen o hc seq hu
    have e2 := pcr_circular_unfit P hP hlen o hc (SeqOps.rc seq) (by rw [Pcr.rc_length]; exact hu)
    rw [e1] at h; rw [e2] at h'
    cases h; cases h'
    exact List.Perm.refl _
  · exact pcr_strand_symmetry_circular_obs P hP hM o hc seq hs (primersFit_of_not_unfit P hlen _ hu) l l' h h'

/-- the annotations of a record seen from another origin of the circle: unchanged -/
theorem annotate_rotAmp (fwd rev : Bytes) (tpl : Annot) (L r : Nat) (x : Amplicon) :
    annotate fwd rev tpl (rotAmp L r x) = annotate fwd rev tpl x := rfl

/-- **rotation invariance, annotations included, circles of every length**: the set of (nucleotides, annotation map) reported
for a rotated circular template is the one reported for the template -/
theorem pcr_rotation_annot (P : Primers) (hP : PrimersOk P) (hlen : P.cfwd.patlen = P.forward.patlen ∧ P.crev.patlen = P.reverse.patlen)
    (o : Opts) (hc : o.circular = true) (seq : Bytes) (r : Nat) (fwd rev : Bytes) (tpl : Annot) (l l' : List Amplicon)
    (h : pcr P o seq = .ok l) (h' : pcr P o (rotl seq r) = .ok l') :
    ∀ t, t ∈ l'.map (fun a => (a.seq, annotate fwd rev tpl a)) ↔ t ∈ l.map (fun a => (a.seq, annotate fwd rev tpl a)) := by
  by_cases hu : seq.length < P.forward.patlen ∨ seq.length < P.reverse.patlen
  · have e1 := pcr_circular_unfit P hP hlen o hc seq hu
    have e2 := pcr_circular_unfit P hP hlen o hc (rotl seq r) (by rw [rotl_length]; exact hu)
    rw [e1] at h; rw [e2] at h'
    cases h; cases h'
    intro t; rfl
  · have hL := primersFit_of_not_unfit P hlen _ hu
    intro t
    constructor
    · intro ht
      obtain ⟨y, hy, rfl⟩ := List.mem_map.mp ht
      have hback : pcr P o (rotl (rotl seq r) (seq.length - r % seq.length)) = .ok l := by
        rw [rotl_rotl_back]; exact h
      have hL' : PrimersFit P (rotl seq r).length := by rw [rotl_length]; exact hL
      have := pcr_rotation_mem P hP o hc (rotl seq r) hL' (seq.length - r % seq.length) l' l h' hback y hy
      exact List.mem_map.mpr ⟨_, this, rfl⟩
    · intro ht
      obtain ⟨x, hx, rfl⟩ := List.mem_map.mp ht
      exact List.mem_map.mpr ⟨_, pcr_rotation_mem P hP o hc seq hL r l l' h h' x hx, rfl⟩

/-- non-vacuity / test: on the circle `acgt` the matcher reports a site of the 7-position pattern ACGTACG (the buffer is
`acgtacgt`), and the PCR with that forward primer reports nothing -/
example : (findAllIndex ⟨[65, 67, 71, 84, 65, 67, 71], [1, 4, 64, 524288, 1, 4, 64], 0, false⟩ [97, 99, 103, 116] true 0 (-1)
      = [(0, 7, 0)]) ∧ (4 : Nat) < 7 := by decide

/-! ### the pairing rule: every admissible pair, not the nearest one

`_Pcr` runs two nested loops over ALL hits of the direct primer and ALL hits of the complemented primer: two forward sites
before one reverse site give two (nested) amplicons, one forward site before two reverse sites give two amplicons, unless
the length bounds exclude one of them.  This is the reading of the property text ("conversely every such pair of matches
yields an amplicon"); `pcr_complete` + `pcr_nodup` say it in general, the next theorem for the nested case. -/

/-- **two forward sites before one reverse site: both pairs are reported, as two distinct records** (forward orientation;
the reverse orientation is symmetric through `pcr_complete_reverse`) -/
theorem pcr_all_pairs (P : Primers) (hP : PrimersOk P) (o : Opts) (hc : o.circular = false) (seq : Bytes)
    (l : List Amplicon) (h : pcr P o seq = .ok l) (i1 k1 i2 k2 j kj a1 b1 a2 b2 : Nat) (hne : i1 ≠ i2)
    (h1 : MatchAt P.forward (enc seq) i1 k1) (h2 : MatchAt P.forward (enc seq) i2 k2) (hj : MatchAt P.crev (enc seq) j kj)
    (hl1 : lengthOk o ((j : Int) - ((i1 : Int) + P.forward.patlen)) = true)
    (hl2 : lengthOk o ((j : Int) - ((i2 : Int) + P.forward.patlen)) = true)
    (hb1 : linBounds o seq.length i1 P.forward.patlen j P.crev.patlen = some (a1, b1))
    (hb2 : linBounds o seq.length i2 P.forward.patlen j P.crev.patlen = some (a2, b2)) :
    mkAmp true seq i1 k1 j kj P.forward.patlen P.crev.patlen a1 b1 ∈ l ∧
    mkAmp true seq i2 k2 j kj P.forward.patlen P.crev.patlen a2 b2 ∈ l ∧
    mkAmp true seq i1 k1 j kj P.forward.patlen P.crev.patlen a1 b1 ≠ mkAmp true seq i2 k2 j kj P.forward.patlen P.crev.patlen a2 b2 := by
  refine ⟨pcr_complete_forward P hP o hc seq l h i1 k1 j kj a1 b1 h1 hj hl1 hb1,
    pcr_complete_forward P hP o hc seq l h i2 k2 j kj a2 b2 h2 hj hl2 hb2, ?_⟩
  intro e
  have := congrArg (fun x => x.hitD.1) e
  simp only [mkAmp, if_true] at this
  omega

/-- the template of the next example: `tt acgta ccc acgta ccccc gatcc aa` — two sites of ACGTA before one site of GATCC -/
def exNested : Bytes := [116, 116, 97, 99, 103, 116, 97, 99, 99, 99, 97, 99, 103, 116, 97, 99, 99, 99, 99, 99, 103, 97, 116, 99, 99, 97, 97]

/-- the primers ACGTA / GGATC as compiled -/
def exPrimers5 : Primers :=
  ⟨⟨[65, 67, 71, 84, 65], [1, 4, 64, 524288, 1], 0, false⟩, ⟨[84, 65, 67, 71, 84], [524288, 1, 4, 64, 524288], 0, false⟩,
   ⟨[71, 71, 65, 84, 67], [64, 64, 1, 524288, 4], 0, false⟩, ⟨[71, 65, 84, 67, 67], [64, 1, 524288, 4, 4], 0, false⟩⟩

/-- test (evaluation of the model; the same lines are in the corpus of the harness): without bound both pairs are reported —
the nested amplicons of 13 and 5 symbols, outer first; with `max length = 5` only the inner one; with `min length = 6` only the
outer one -/
example :
    (match mkPrimers [65, 67, 71, 84, 65] [71, 71, 65, 84, 67] 0 0 with
     | some P => decide (P.forward = exPrimers5.forward ∧ P.cfwd = exPrimers5.cfwd ∧ P.reverse = exPrimers5.reverse ∧ P.crev = exPrimers5.crev)
     | none => false) = true ∧
    (pcrL exPrimers5 ⟨0, 0, false, -1, false⟩ exNested).map (fun x => (x.idFrom, x.idTo)) = [(8, 20), (16, 20)] ∧
    (pcrL exPrimers5 ⟨0, 5, false, -1, false⟩ exNested).map (fun x => (x.idFrom, x.idTo)) = [(16, 20)] ∧
    (pcrL exPrimers5 ⟨6, 0, false, -1, false⟩ exNested).map (fun x => (x.idFrom, x.idTo)) = [(8, 20)] := by decide

/-! ### a fragment end that clips a flank: exactly when (finding `C11-frag-clipped-flank`) -/

/-- **`pcr_piece_clipped`, exact form**: with `--delta` and without `--only-complete-flanking`, a record `y` of the piece
`[a, b)` comes from a pair of sites for which the template reports a record `x`; `y` IS `x` (coordinates shifted) **iff** the
left flank fits in the piece or the piece starts the template, AND the right flank fits in the piece or the piece ends the
template.  Otherwise `y` is spurious: a copy of `x` with a truncated flank (`pcr_piece_clipped`: window contained, same
sites, match strings and error counts) — and `x` itself is reported for another piece (`pcr_fragmented_complete`). -/
theorem pcr_piece_clipped_exact (P : Primers) (hP : PrimersOk P) (o : Opts) (hc : o.circular = false)
    (hx : o.hasExtension = true) (hf : o.fullExtension = false) (seq : Bytes) (a b : Nat) (hab : a ≤ b) (hb : b ≤ seq.length)
    (y : Amplicon) (hy : y ∈ pcrL P o (seg seq a b)) :
    ∃ x ∈ pcrL P o seq, x.hitD = shiftHit a y.hitD ∧ x.hitC = shiftHit a y.hitC ∧
      (x = shiftAmp a y ↔
        ((o.extension ≤ y.hitD.1 ∨ a = 0) ∧ (y.hitC.2.1 + o.extension + a ≤ b ∨ b = seq.length))) := by
  simp only [mem_pcrL_iff P hP o hc] at hy ⊢
  rcases hy with hy | hy
  · obtain ⟨x, h1, h2⟩ := block_of_piece_clipped_exact true _ _ hP.forward hP.crev _ _ (Int.natCast_nonneg _) o hc hx hf seq a b hab hb y hy
    exact ⟨x, Or.inl h1, h2⟩
  · obtain ⟨x, h1, h2⟩ := block_of_piece_clipped_exact false _ _ hP.reverse hP.cfwd _ _ (Int.natCast_nonneg _) o hc hx hf seq a b hab hb y hy
    exact ⟨x, Or.inr h1, h2⟩

/-! ### `obipcr`, end to end (every combination of `-l`, `-L`, `--delta`, `--only-complete-flanking`, `--circular`, `--fragmented`) -/

/-- **`obipcr` on a linear template, not fragmented — for every value of `-l mn`, `-L mx`, `--delta`,
`--only-complete-flanking`**: the reported records are exactly those of the pairs (site of one primer, site of the complement
of the other one downstream) with `g ≥ 1` symbols between the sites, `g ≥ mn` unless `mn ≤ 0` (the default `-l 0`: no lower
bound), `g ≤ mx` unless `mx = 0`, and the window `cliWindow` (no `--delta` (default −1, or any negative value): the `g` symbols;
`--delta e`: sites + `e` symbols on each side clipped at the ends of the template — a `--delta` larger than the distance to
an end gives the whole remainder — or, with `--only-complete-flanking`, only the pairs whose flanks are complete). -/
theorem cli_linear_spec (P : Primers) (hP : PrimersOk P) (mn mx delta : Int) (full : Bool) (seq : Bytes) (x : Amplicon) :
    x ∈ pcrL P (cliOpts mn mx delta full false) seq ↔
      (∃ i ki j kj a b, MatchAt P.forward (enc seq) i ki ∧ MatchAt P.crev (enc seq) j kj ∧
        (1 ≤ (j : Int) - ((i : Int) + P.forward.patlen) ∧ (mn ≤ 0 ∨ mn ≤ (j : Int) - ((i : Int) + P.forward.patlen)) ∧
          (mx = 0 ∨ (j : Int) - ((i : Int) + P.forward.patlen) ≤ mx)) ∧
        cliWindow delta full seq.length i P.forward.patlen j P.crev.patlen = some (a, b) ∧
        x = mkAmp true seq i ki j kj P.forward.patlen P.crev.patlen a b) ∨
      (∃ i ki j kj a b, MatchAt P.reverse (enc seq) i ki ∧ MatchAt P.cfwd (enc seq) j kj ∧
        (1 ≤ (j : Int) - ((i : Int) + P.reverse.patlen) ∧ (mn ≤ 0 ∨ mn ≤ (j : Int) - ((i : Int) + P.reverse.patlen)) ∧
          (mx = 0 ∨ (j : Int) - ((i : Int) + P.reverse.patlen) ≤ mx)) ∧
        cliWindow delta full seq.length i P.reverse.patlen j P.cfwd.patlen = some (a, b) ∧
        x = mkAmp false seq i ki j kj P.reverse.patlen P.cfwd.patlen a b) := by
  rw [mem_pcrL_iff P hP _ rfl,
    mem_block_linear true _ _ hP.forward hP.crev _ _ (Int.natCast_nonneg _) _ rfl,
    mem_block_linear false _ _ hP.reverse hP.cfwd _ _ (Int.natCast_nonneg _) _ rfl]
  simp only [lengthOk_cli, linBounds_cli, Except.ok.injEq]

/-- `-L` is mandatory on the command line (its built-in default is −1): **a negative maximal length rejects every pair** -/
theorem cli_negative_max (P : Primers) (hP : PrimersOk P) (mn mx delta : Int) (full : Bool) (hmx : mx < 0) (seq : Bytes) :
    pcrL P (cliOpts mn mx delta full false) seq = [] := by
  apply List.eq_nil_iff_forall_not_mem.mpr
  intro x hx
  rcases (cli_linear_spec P hP mn mx delta full seq x).mp hx with ⟨i, ki, j, kj, a, b, _, _, ⟨g1, _, g3⟩, _⟩ | ⟨i, ki, j, kj, a, b, _, _, ⟨g1, _, g3⟩, _⟩ <;>
    omega

/-- **`--delta` larger than the distance to the ends of the template** (no `--only-complete-flanking`): the window is the
whole template; with `--only-complete-flanking` the pair is not reported -/
theorem cli_delta_beyond_ends (delta : Int) (L i dl j cl : Nat) (h0 : 0 ≤ delta) (hi : (i : Int) ≤ delta)
    (hj : (L : Int) ≤ (j : Int) + cl + delta) (hlt : (i : Int) < delta ∨ (L : Int) < (j : Int) + cl + delta) :
    cliWindow delta false L i dl j cl = some (0, L) ∧ cliWindow delta true L i dl j cl = none := by
  unfold cliWindow
  have hd : ¬ delta < 0 := by omega
  constructor
  · simp only [hd, if_false, Bool.false_eq_true, Option.some.injEq, Prod.mk.injEq]; omega
  · simp only [hd, if_false, if_true]; rw [if_neg (by omega)]

/-- **`obipcr` without `--fragmented`, or with `--circular`** (patch `C11-circular-not-fragmented`: `--fragmented` is ignored
with `--circular`): the template is searched whole, once, with the options of `cliOpts` — so that `cli_linear_spec` (linear)
and `pcr_sound_circular` / `pcr_complete_circular` / `pcr_rotation_all` (circular) describe the output of the command. -/
theorem cli_whole (P : Primers) (lf lr : Nat) (mn mx delta : Int) (full circ frag : Bool) (h : frag = false ∨ circ = true)
    (t : Bytes) :
    cliRun P lf lr mn mx delta full circ frag t =
      some ((pcr P (cliOpts mn mx delta full circ) t).map fun l => [((0, t.length), l)]) := by
  have hp : cliPieces mx lf lr delta circ frag t.length = some none := by
    unfold cliPieces
    rcases h with h | h <;> simp [h]
  unfold cliRun
  rw [hp]
  simp only [pcrCuts, cutsOf, pcrSliceE, List.map_cons, List.map_nil, List.drop_zero, Nat.sub_zero, List.take_length]
  cases hpc : pcr P (cliOpts mn mx delta full circ) t with
  | error e => simp [List.mapM_cons, pcrE_none, hpc, Except.map, bind, Except.bind]
  | ok l => simp [List.mapM_cons, List.mapM_nil, pcrE_none, hpc, Except.map, bind, Except.bind, pure, Except.pure]

/-- … and with `--fragmented` on a linear template the pieces are those of `IFragments` with the parameters of
`cliFragParams` (`cli_fragmented` says when their union is the set of amplicons of the template) -/
theorem cli_pieces_fragmented (mx : Int) (lf lr : Nat) (delta : Int) (len : Nat) :
    cliPieces mx lf lr delta false true len =
      fragments (cliFragParams mx lf lr delta).1 (cliFragParams mx lf lr delta).2.1 (cliFragParams mx lf lr delta).2.2 len := rfl

/-- non-vacuity of `cli_linear_spec` / test: `obipcr --forward ACG --reverse GGA -L 5` on `tacgttccaa` with `--delta 3`
(flanks clipped at both ends: the whole template) and with `--only-complete-flanking` (nothing) -/
example :
    (pcrL exPrimers (cliOpts 0 5 3 false false) [116, 97, 99, 103, 116, 116, 99, 99, 97, 97]).map (fun x => (x.idFrom, x.idTo)) = [(1, 10)] ∧
    pcrL exPrimers (cliOpts 0 5 3 true false) [116, 97, 99, 103, 116, 116, 99, 99, 97, 97] = [] ∧
    (pcrL exPrimers (cliOpts 0 5 (-1) false false) [116, 97, 99, 103, 116, 116, 99, 99, 97, 97]).map (fun x => (x.idFrom, x.idTo)) = [(5, 5)] ∧
    pcrL exPrimers (cliOpts 2 5 (-1) false false) [116, 97, 99, 103, 116, 116, 99, 99, 97, 97] = [] ∧
    cliWindow 3 false 10 1 3 5 3 = some (0, 10) := by decide

/-! ### pieces that know which of their ends are ends of the template (patch `C11-fragment-inner-ends`)

`IFragments` marks the ends of a piece that are not ends of the fragmented sequence; the patched `_Pcr` (`pcrE e`, marks `e`)
skips a pair of sites whose flank a marked end would clip.  This closes the finding `C11-frag-clipped-flank`: the fragmented
search now returns exactly the amplicons of the template in EVERY linear mode. -/

/-- a template that is not a piece (no mark): the patched `_Pcr` is the one all the theorems above are about -/
theorem pcr_unmarked (P : Primers) (o : Opts) (seq : Bytes) : pcrE Ends.none P o seq = pcr P o seq := pcrE_none P o seq

/-- `pcrLE` is what the patched `_Pcr` returns on a linear template (it always returns) -/
theorem pcrLE_eq (e : Ends) (P : Primers) (hP : PrimersOk P) (o : Opts) (hc : o.circular = false) (seq : Bytes) :
    pcrE e P o seq = .ok (pcrLE e P o seq) := pcrLE_spec e P hP o hc seq

/-- **the patched `_Pcr` on a marked template** reports the records of the unmarked template except those whose flank a
marked end would clip (`endsReject`: `--delta e` without `--only-complete-flanking`, and the direct site starts less than `e`
symbols after a marked start or the complemented site ends less than `e` symbols before a marked end) -/
theorem pcr_marked_iff (e : Ends) (P : Primers) (hP : PrimersOk P) (o : Opts) (hc : o.circular = false) (seq : Bytes)
    (x : Amplicon) :
    x ∈ pcrLE e P o seq ↔ x ∈ pcrL P o seq ∧ endsReject e o seq.length x.hitD x.hitC = false :=
  mem_pcrLE_iff e P hP o hc seq x

/-- **one piece, every linear mode**: the piece `[a, b)` marked as `IFragments` marks it (`pieceEnds`: start marked iff
`a > 0`, end marked iff `b < L`) reports exactly those of its records that, moved to the coordinates of the template, are
records of the template — nothing spurious any more. -/
theorem pcr_piece_marked (P : Primers) (hP : PrimersOk P) (o : Opts) (hc : o.circular = false) (seq : Bytes) (a b : Nat)
    (hab : a ≤ b) (hb : b ≤ seq.length) (y : Amplicon) :
    y ∈ pcrLE (pieceEnds seq.length (a, b)) P o (seg seq a b) ↔
      y ∈ pcrL P o (seg seq a b) ∧ shiftAmp a y ∈ pcrL P o seq := by
  rw [mem_pcrLE_iff _ P hP o hc]
  simp only [mem_pcrL_iff P hP o hc]
  have dirS : (shiftAmp a y).isForward = y.isForward := rfl
  constructor
  · rintro ⟨hy | hy, hr⟩
    · exact ⟨Or.inl hy, Or.inl ((block_piece_marked true _ _ hP.forward hP.crev _ _ (Int.natCast_nonneg _) o hc seq a b hab hb y hy).mpr hr)⟩
    · exact ⟨Or.inr hy, Or.inr ((block_piece_marked false _ _ hP.reverse hP.cfwd _ _ (Int.natCast_nonneg _) o hc seq a b hab hb y hy).mpr hr)⟩
  · rintro ⟨hy | hy, hs | hs⟩
    · exact ⟨Or.inl hy, (block_piece_marked true _ _ hP.forward hP.crev _ _ (Int.natCast_nonneg _) o hc seq a b hab hb y hy).mp hs⟩
    · have d1 := block_dir _ _ _ _ _ _ _ _ hy
      have d2 := block_dir _ _ _ _ _ _ _ _ hs
      rw [dirS, d1] at d2; cases d2
    · have d1 := block_dir _ _ _ _ _ _ _ _ hy
      have d2 := block_dir _ _ _ _ _ _ _ _ hs
      rw [dirS, d1] at d2; cases d2
    · exact ⟨Or.inr hy, (block_piece_marked false _ _ hP.reverse hP.cfwd _ _ (Int.natCast_nonneg _) o hc seq a b hab hb y hy).mp hs⟩

theorem ampLo_shiftAmp (f : Int) (x : Amplicon) : ampLo (shiftAmp f x) = ampLo x + f := by
  unfold ampLo shiftAmp shiftHit; simp only []; omega

theorem ampHi_shiftAmp (f : Int) (x : Amplicon) : ampHi (shiftAmp f x) = ampHi x + f := by
  unfold ampHi shiftAmp shiftHit; simp only []; omega

/-- **one marked piece = the records of the template lying inside it, every linear mode** (`pcr_piece_iff` without its
hypothesis on the flanks): the records the marked piece `[a, b)` reports are, in the coordinates of the template, exactly the
records of the template whose two sites and window lie inside `[a, b)` -/
theorem pcr_piece_marked_iff (P : Primers) (hP : PrimersOk P) (o : Opts) (hc : o.circular = false) (seq : Bytes) (a b : Nat)
    (hab : a ≤ b) (hb : b ≤ seq.length) (x : Amplicon) :
    (∃ y ∈ pcrLE (pieceEnds seq.length (a, b)) P o (seg seq a b), shiftAmp a y = x) ↔
      x ∈ pcrL P o seq ∧ (a : Int) ≤ ampLo x ∧ ampHi x ≤ b := by
  constructor
  · rintro ⟨y, hy, rfl⟩
    obtain ⟨h1, h2⟩ := (pcr_piece_marked P hP o hc seq a b hab hb y).mp hy
    have hsp : 0 ≤ ampLo y ∧ ampHi y ≤ ((seg seq a b).length : Int) := by
      rcases (mem_pcrL_iff P hP o hc _ y).mp h1 with hb1 | hb1
      · have := block_span true _ _ hP.forward hP.crev _ _ (Int.natCast_nonneg _) o hc _ y hb1
        exact ⟨this.1, this.2.2.1⟩
      · have := block_span false _ _ hP.reverse hP.cfwd _ _ (Int.natCast_nonneg _) o hc _ y hb1
        exact ⟨this.1, this.2.2.1⟩
    rw [seg_length seq a b hb] at hsp
    refine ⟨h2, ?_, ?_⟩
    · rw [ampLo_shiftAmp]; omega
    · rw [ampHi_shiftAmp]; omega
  · rintro ⟨hx, h1, h2⟩
    obtain ⟨y, hy, he⟩ := pcr_piece_complete P hP o hc seq a b hb x hx h1 h2
    exact ⟨y, (pcr_piece_marked P hP o hc seq a b hab hb y).mpr ⟨hy, by rw [he]; exact hx⟩, he⟩

/-- **duplicates of the fragmented search with marked pieces, every linear mode**: an amplicon of the template is reported for
the two pieces `p` and `q` iff its two sites and its window lie inside both -/
theorem pcr_fragment_duplicates_marked (P : Primers) (hP : PrimersOk P) (o : Opts) (hc : o.circular = false)
    (seq : Bytes) (p q : Nat × Nat)
    (hp : p.1 ≤ p.2 ∧ p.2 ≤ seq.length) (hq : q.1 ≤ q.2 ∧ q.2 ≤ seq.length) (x : Amplicon) :
    ((∃ y ∈ pcrLE (pieceEnds seq.length p) P o (seg seq p.1 p.2), shiftAmp p.1 y = x) ∧
      (∃ y ∈ pcrLE (pieceEnds seq.length q) P o (seg seq q.1 q.2), shiftAmp q.1 y = x)) ↔
      x ∈ pcrL P o seq ∧ ((max p.1 q.1 : Nat) : Int) ≤ ampLo x ∧ ampHi x ≤ (min p.2 q.2 : Nat) := by
  rw [pcr_piece_marked_iff P hP o hc seq p.1 p.2 hp.1 hp.2, pcr_piece_marked_iff P hP o hc seq q.1 q.2 hq.1 hq.2]
  constructor
  · rintro ⟨⟨h1, h2, h3⟩, _, h5, h6⟩; exact ⟨h1, by omega, by omega⟩
  · rintro ⟨h1, h2, h3⟩; exact ⟨⟨h1, by omega, by omega⟩, h1, by omega, by omega⟩

/-- **the fragmented search with marked pieces returns exactly the amplicons of the template — every linear mode**, flanks that
may be clipped included (compare `pcr_fragmented`, which needs `hm`): union over the pieces = amplicons of the template, under
the overlap condition of `pcr_fragmented_complete`. -/
theorem pcr_fragmented_marked (P : Primers) (hP : PrimersOk P) (o : Opts) (hc : o.circular = false) (hmax : o.maxLength > 0)
    (seq : Bytes) (minsize length overlap : Int) (ps : List (Nat × Nat))
    (hfr : fragments minsize length overlap seq.length = some (some ps)) (hov : 0 ≤ overlap)
    (hw1 : o.maxLength + P.forward.patlen + P.crev.patlen + 2 * o.flank ≤ overlap + 1)
    (hw2 : o.maxLength + P.reverse.patlen + P.cfwd.patlen + 2 * o.flank ≤ overlap + 1) (x : Amplicon) :
    x ∈ pcrL P o seq ↔
      ∃ p ∈ ps, ∃ y ∈ pcrLE (pieceEnds seq.length p) P o (seg seq p.1 p.2), shiftAmp p.1 y = x := by
  constructor
  · intro hx
    obtain ⟨p, hp, y, hy, he⟩ := pcr_fragmented_complete P hP o hc hmax seq minsize length overlap ps hfr hov hw1 hw2 x hx
    have hpv := fragments_pieces minsize length overlap seq.length ps hfr hov p hp
    refine ⟨p, hp, y, ?_, he⟩
    exact (pcr_piece_marked P hP o hc seq p.1 p.2 (by omega) hpv.2 y).mpr ⟨hy, by rw [he]; exact hx⟩
  · rintro ⟨p, hp, y, hy, rfl⟩
    have hpv := fragments_pieces minsize length overlap seq.length ps hfr hov p hp
    exact ((pcr_piece_marked P hP o hc seq p.1 p.2 (by omega) hpv.2 y).mp hy).2

/-- **`obipcr --fragmented`, every combination of `-l`, `-L`, `--delta`, `--only-complete-flanking`** (linear template longer than
`1000·L`, primers of the grammar, `overlap < 100·L`): the union of what the patched `_Pcr` reports for the marked pieces is the
set of amplicons of the template (`cli_linear_spec` says which these are).  `cli_fragmented` without its hypothesis on the
flanks. -/
theorem cli_fragmented_marked (tf tr : List Tok) (hf : ∀ t ∈ tf, t.WF) (hr : ∀ t ∈ tr, t.WF)
    (hfn : tf ≠ []) (hrn : tr ≠ []) (hfl : tf.length ≤ 63) (hrl : tr.length ≤ 63) (e : Nat)
    (mn mx delta : Int) (full : Bool) (hmx : 0 < mx) (seq : Bytes)
    (hlong : mx * 1000 < seq.length)
    (hstep : (cliFragParams mx (patStr tf).length (patStr tr).length delta).2.2 < mx * 100) :
    ∃ P ps, mkPrimers (patStr tf) (patStr tr) e e = some P ∧
      cliPieces mx (patStr tf).length (patStr tr).length delta false true seq.length = some (some ps) ∧
      ∀ x, x ∈ pcrL P (cliOpts mn mx delta full false) seq ↔
        ∃ p ∈ ps, ∃ y ∈ pcrLE (pieceEnds seq.length p) P (cliOpts mn mx delta full false) (seg seq p.1 p.2), shiftAmp p.1 y = x := by
  obtain ⟨P, hP, hok, _, l1, l2, l3, l4, _⟩ := mkPrimers_grammar tf tr hf hr hfn hrn hfl hrl e e
  have g1 := patStr_length_ge tf hf
  have g2 := patStr_length_ge tr hr
  obtain ⟨ps, hps⟩ := fragments_total (cliFragParams mx (patStr tf).length (patStr tr).length delta).1
    (cliFragParams mx (patStr tf).length (patStr tr).length delta).2.1
    (cliFragParams mx (patStr tf).length (patStr tr).length delta).2.2 seq.length hlong hstep
  refine ⟨P, ps, hP, by rw [cli_pieces_fragmented]; exact hps, ?_⟩
  have hflank : (cliOpts mn mx delta full false).flank = if delta ≥ 0 then delta else 0 := by
    unfold Opts.flank
    rw [(cliOpts_spec mn mx delta full false).2.2.2.1]
    by_cases h : delta ≥ 0
    · rw [if_pos (by simpa using h), if_pos h, (cliOpts_spec mn mx delta full false).2.2.2.2.1 (by omega)]
    · rw [if_neg (by simpa using h), if_neg h]
  have hov : 0 ≤ (cliFragParams mx (patStr tf).length (patStr tr).length delta).2.2 := by
    unfold cliFragParams; simp only []; split <;> omega
  intro x
  apply pcr_fragmented_marked P hok _ rfl hmx seq _ _ _ ps hps hov
  · rw [hflank, l1, l4]; unfold cliFragParams; simp only [cliOpts]; split <;> omega
  · rw [hflank, l3, l2]; unfold cliFragParams; simp only [cliOpts]; split <;> omega

/-- non-vacuity / test (evaluation of the model): three copies of `tacgttccaa`, primers ACG / GGA, `-L 1 --delta 2`, pieces
`[0, 20)` and `[6, 30)`.  The amplicon at 15 has its left flank `[9, 11)` inside both pieces and is reported by both; the
amplicon at 5 (sites and flanks `[0, 10)`, left flank clipped by the START OF THE TEMPLATE: reported, by the first piece) would
have its left flank clipped by the start of the second piece `[6, …)`: unmarked, that piece reports it with the window `[6, 10)`
(spurious); marked, it skips it. -/
example :
    (pcrL exPrimers ⟨0, 1, false, 2, false⟩ exTpl3).map (fun x => (x.idFrom, x.idTo)) = [(1, 10), (10, 20), (20, 30)] ∧
    (pcrL exPrimers ⟨0, 1, false, 2, false⟩ (seg exTpl3 6 30)).map (fun x => ((shiftAmp 6 x).idFrom, (shiftAmp 6 x).idTo)) =
      [(10, 20), (20, 30)] ∧
    (pcrL exPrimers ⟨0, 1, false, 2, false⟩ (seg exTpl3 10 30)).map (fun x => ((shiftAmp 10 x).idFrom, (shiftAmp 10 x).idTo)) =
      [(11, 20), (20, 30)] ∧
    (pcrLE (pieceEnds 30 (10, 30)) exPrimers ⟨0, 1, false, 2, false⟩ (seg exTpl3 10 30)).map
      (fun x => ((shiftAmp 10 x).idFrom, (shiftAmp 10 x).idTo)) = [(20, 30)] ∧
    (pcrLE (pieceEnds 30 (0, 20)) exPrimers ⟨0, 1, false, 2, false⟩ (seg exTpl3 0 20)).map
      (fun x => ((shiftAmp 0 x).idFrom, (shiftAmp 0 x).idTo)) = [(1, 10), (10, 20)] := by decide

/-! ### batch composition: the C sequence buffer recycled from one template to the next

`newApatSeq out seq circ` (`Model/PcrSeqBuf.lean`, compared with the real C structure after every `MakeApatSequence` of a
chain — lengths, `datsiz` and every code of the buffer, left-overs included: driver op `seqbuf`) is `new_apatseq` +
`EncodeSequence` on the structure `out` left by the previous template. -/

/-- **the recycled buffer does not leak into the next template**: for every structure `out` left by earlier templates, the
codes the automata scan (`data[begin .. min(begin + length, seqlen + circular))`) are those of the `seqData` of the current
template — the text `findAllIndex` (hence `pcr`) is defined on.  With `ManberAll` emptying the hit stack of its pattern slot
before it scans, this is why `_PCRSlice` is a `map` over the templates (`pcrSlice`). -/
theorem recycled_buffer_no_leak (out : Option CSeq) (seq : Bytes) (circ : Bool) (b l : Nat) :
    windowC (newApatSeq out seq circ) b l = window (seqData seq circ) b l :=
  windowC_newApatSeq out seq circ b l

/-- … for a whole batch: every structure of the chain `_PCRSlice` builds shows the automata the `seqData` of its own template -/
theorem recycleChain_no_leak (circ : Bool) (out : Option CSeq) (ts : List Bytes) (b l : Nat) :
    (recycleChain circ out ts).map (fun s => windowC s b l) = ts.map (fun t => window (seqData t circ) b l) := by
  induction ts generalizing out with
  | nil => rfl
  | cons t ts ih =>
    simp only [recycleChain, List.map_cons]
    rw [ih, windowC_newApatSeq]

/-- non-vacuity / test: a circular template of 3 symbols recycled from one of 6 keeps the 12-code buffer; the 6 codes behind
`acgacg` are left over from `ttttttgggggg`… and are never scanned -/
example : newApatSeq (some (newApatSeq none [116, 116, 116, 116, 103, 103] true)) [97, 99, 103] true =
      ⟨[0, 2, 6, 0, 2, 6, 19, 19, 19, 19, 6, 6], 3, 3⟩ ∧
    windowC ⟨[0, 2, 6, 0, 2, 6, 19, 19, 19, 19, 6, 6], 3, 3⟩ 0 100 = [0, 2, 6, 0, 2, 6] := by decide

/-!
## what is left

* `PrimersFit` (no primer longer than the template) remains a hypothesis of `pcr_sound_circular` / `pcr_complete_circular` /
  `pcr_rotation_mem` / `_perm`; when it fails the result is empty (`pcr_circular_unfit`), and totality, rotation invariance and
  strand symmetry are stated for every length (`pcr_total_circular_all`, `pcr_rotation_all`, `pcr_strand_symmetry_circular_all`);
* `PrimersMirror` (the complemented patterns carry the mirrored code lists) is a hypothesis of the general strand-symmetry
  and match-string theorems; it is discharged for every primer pair written in the documented grammar (`mkPrimers_grammar`,
  `pcr_strand_symmetry_grammar`, `pcr_strand_symmetry_circular_grammar`);
* a circular window (sites + flanks) longer than the circle: the code returns it modulo the length
  (`pcr_circular_window_counterexample`), open finding;
* `obipcr --fragmented` with clipped flanks: repaired (patch `C11-fragment-inner-ends`: the pieces know which of their ends
  are ends of the template; `pcr_piece_marked`, `pcr_fragmented_marked`, `cli_fragmented_marked`); `pcr_piece_clipped` /
  `pcr_piece_clipped_exact` describe what `_Pcr` does on an UNMARKED piece (the former behaviour, still that of
  `PCRSlice` on sequences cut by other means);
* `obipcr --fragmented --circular`: repaired (patch `C11-circular-not-fragmented`: circular templates are searched whole,
  `cli_whole`);
* the annotation map is modelled for integer and string values of the template annotations (`annotate`); that
  `Subsequence` / `ReverseComplement` rewrite a `pairing_mismatches` annotation and `MustFillMap` then restores the template's
  value is not modelled (C07 owns these two functions);
* `pcr_rotation` is stated on sets of observable amplicons and, record by record, with shifted coordinates
  (`pcr_rotation_mem`); the circular theorems are about the model as repaired (patches `C11-reverse-block-circular-length`,
  `C11-circular-overlap-across-origin`, `C11-circular-extension-before-origin`).
-/

end ObiVerif.Props.C11
