import ObiVerif.Model.Pcr
import ObiVerif.Lemmas.Pcr
import ObiVerif.Lemmas.PcrCircular
/-!
# C11 — in-silico PCR returns exactly the amplicons the primers define, on either strand (property theorems)

Model: `ObiVerif.Pcr` (`Model/Pcr.lean`): `_Pcr` / `_PCRSlice` of `pkg/obiapat/pcr.go` transcribed over the match lists of
the C10 matcher model and C07's `subsequence` / reverse complement, **as repaired** by the four patches
`notes/patches/C11-*.diff` (each defect shown first on the real code by the harness oracle).

Vocabulary (`Lemmas/Pcr.lean`):
* `MatchAt P d i k` — a priming site: pattern `P` lies at offset `i` of the encoded template `d`, entirely inside, with exactly
  `k` mismatches (none obligatory), `k ≤ P.maxerr` (C10's Hamming cost);
* `lengthOk o g` — `g > 0` (the sites neither touch nor overlap) and `g` within the min/max bounds (`0` = no bound);
* `linBounds o L i dl j cl` — the window the options ask for (the segment between the sites; or sites + flanks, clipped at
  the ends of the template or required to be complete);
* `mkAmp dir seq i ki j kj dl cl a b` — the reported record: nucleotides of `[a,b)` (reverse-complemented in the reverse
  orientation), the matched strings in primer orientation, the error counts, the id coordinates.

Proved for **linear** templates, every template, every primer pair of 1..63 positions each (different lengths included),
every budget, every min/max/extension setting: `pcr_total`, `pcr_sound`, `pcr_complete` and their field-level reading
`pcr_sound_fields`; `pcr_strand_symmetry` (see below).  Proved for **circular** templates in which the primers fit
(`PrimersFit`: every template of at least 64 symbols): `pcr_total_circular`, `pcr_sound_circular`, `pcr_complete_circular`,
`pcr_rotation` / `pcr_rotation_mem`, `pcr_strand_symmetry_circular` (section "circular templates").
-/
namespace ObiVerif.Props.C11
open ObiVerif ObiVerif.Apat ObiVerif.Pcr

/-- **No `log.Fatalf`, no panic on a linear template**: `_Pcr` always returns. -/
theorem pcr_total (P : Primers) (hP : PrimersOk P) (o : Opts) (hc : o.circular = false) (seq : Bytes) :
    ∃ l, pcr P o seq = .ok l := by
  unfold pcr
  apply mapM_id_total
  intro x hx
  unfold pcrRaw at hx
  rcases List.mem_append.mp hx with hx | hx
  · obtain ⟨i, ki, j, kj, a, b, _, _, _, _, rfl⟩ :=
      (mem_block_linear true _ _ hP.forward hP.crev _ _ (Int.natCast_nonneg _) o hc seq x).mp hx
    exact ⟨_, rfl⟩
  · obtain ⟨i, ki, j, kj, a, b, _, _, _, _, rfl⟩ :=
      (mem_block_linear false _ _ hP.reverse hP.cfwd _ _ (Int.natCast_nonneg _) o hc seq x).mp hx
    exact ⟨_, rfl⟩

/-- **Soundness** (linear template).  Every reported amplicon comes from a site `(i, ki)` of one primer and a site
`(j, kj)` of the complement of the other primer located downstream (`j > i + length of the first site`), with a length
within the bounds and the window `[a, b)` the options ask for; the record is `mkAmp` of these: forward orientation when the
first primer is the forward one, reverse orientation (amplicon reverse-complemented) when it is the reverse one. -/
theorem pcr_sound (P : Primers) (hP : PrimersOk P) (o : Opts) (hc : o.circular = false) (seq : Bytes)
    (l : List Amplicon) (h : pcr P o seq = .ok l) (x : Amplicon) (hx : x ∈ l) :
    (∃ i ki j kj a b, MatchAt P.forward (enc seq) i ki ∧ MatchAt P.crev (enc seq) j kj ∧
        lengthOk o ((j : Int) - ((i : Int) + P.forward.patlen)) = true ∧
        linBounds o seq.length i P.forward.patlen j P.crev.patlen = some (a, b) ∧
        x = mkAmp true seq i ki j kj P.forward.patlen P.crev.patlen a b) ∨
    (∃ i ki j kj a b, MatchAt P.reverse (enc seq) i ki ∧ MatchAt P.cfwd (enc seq) j kj ∧
        lengthOk o ((j : Int) - ((i : Int) + P.reverse.patlen)) = true ∧
        linBounds o seq.length i P.reverse.patlen j P.cfwd.patlen = some (a, b) ∧
        x = mkAmp false seq i ki j kj P.reverse.patlen P.cfwd.patlen a b) := by
  rcases (mem_pcr_iff P o seq l h x).mp hx with hb | hb
  · left
    obtain ⟨i, ki, j, kj, a, b, h1, h2, h3, h4, h5⟩ :=
      (mem_block_linear true _ _ hP.forward hP.crev _ _ (Int.natCast_nonneg _) o hc seq _).mp hb
    exact ⟨i, ki, j, kj, a, b, h1, h2, h3, h4, by cases h5; rfl⟩
  · right
    obtain ⟨i, ki, j, kj, a, b, h1, h2, h3, h4, h5⟩ :=
      (mem_block_linear false _ _ hP.reverse hP.cfwd _ _ (Int.natCast_nonneg _) o hc seq _).mp hb
    exact ⟨i, ki, j, kj, a, b, h1, h2, h3, h4, by cases h5; rfl⟩

/-- what the record of a forward-orientation pair says, field by field: the nucleotides of the window, the forward match
as it is in the template, the reverse match reverse-complemented (i.e. in primer orientation), the two mismatch counts,
the coordinates `a+1..b` of the id -/
theorem mkAmp_forward_fields (seq : Bytes) (i ki j kj dl cl a b : Nat) :
    let x := mkAmp true seq i ki j kj dl cl a b
    x.isForward = true ∧ x.seq = seg seq a b ∧ x.fmatch = seg seq i (i + dl) ∧ x.ferr = ki ∧
      x.rmatch = SeqOps.rc (seg seq j (j + cl)) ∧ x.rerr = kj ∧ x.idFrom = a + 1 ∧ x.idTo = b := by
  simp [mkAmp]

/-- … and of a reverse-orientation pair: the direct site is the reverse primer's, the amplicon and the match of the
complemented forward primer are reverse-complemented -/
theorem mkAmp_reverse_fields (seq : Bytes) (i ki j kj dl cl a b : Nat) :
    let x := mkAmp false seq i ki j kj dl cl a b
    x.isForward = false ∧ x.seq = SeqOps.rc (seg seq a b) ∧ x.fmatch = SeqOps.rc (seg seq j (j + cl)) ∧ x.ferr = kj ∧
      x.rmatch = seg seq i (i + dl) ∧ x.rerr = ki ∧ x.idFrom = a + 1 ∧ x.idTo = b := by
  simp [mkAmp]

/-- **Completeness** (linear template), forward orientation: every pair (forward-primer site, downstream site of the
complemented reverse primer) with an admissible length and an available window is reported. -/
theorem pcr_complete_forward (P : Primers) (hP : PrimersOk P) (o : Opts) (hc : o.circular = false) (seq : Bytes)
    (l : List Amplicon) (h : pcr P o seq = .ok l) (i ki j kj a b : Nat)
    (hi : MatchAt P.forward (enc seq) i ki) (hj : MatchAt P.crev (enc seq) j kj)
    (hl : lengthOk o ((j : Int) - ((i : Int) + P.forward.patlen)) = true)
    (hb : linBounds o seq.length i P.forward.patlen j P.crev.patlen = some (a, b)) :
    mkAmp true seq i ki j kj P.forward.patlen P.crev.patlen a b ∈ l := by
  rw [mem_pcr_iff P o seq l h]
  left
  exact (mem_block_linear true _ _ hP.forward hP.crev _ _ (Int.natCast_nonneg _) o hc seq _).mpr
    ⟨i, ki, j, kj, a, b, hi, hj, hl, hb, rfl⟩

/-- **Completeness**, reverse orientation (the search window of this block is computed with `reverse.Len()` although the
pattern searched has `forward.Len()` positions: harmless, as this theorem shows for primers of any two lengths) -/
theorem pcr_complete_reverse (P : Primers) (hP : PrimersOk P) (o : Opts) (hc : o.circular = false) (seq : Bytes)
    (l : List Amplicon) (h : pcr P o seq = .ok l) (i ki j kj a b : Nat)
    (hi : MatchAt P.reverse (enc seq) i ki) (hj : MatchAt P.cfwd (enc seq) j kj)
    (hl : lengthOk o ((j : Int) - ((i : Int) + P.reverse.patlen)) = true)
    (hb : linBounds o seq.length i P.reverse.patlen j P.cfwd.patlen = some (a, b)) :
    mkAmp false seq i ki j kj P.reverse.patlen P.cfwd.patlen a b ∈ l := by
  rw [mem_pcr_iff P o seq l h]
  right
  exact (mem_block_linear false _ _ hP.reverse hP.cfwd _ _ (Int.natCast_nonneg _) o hc seq _).mpr
    ⟨i, ki, j, kj, a, b, hi, hj, hl, hb, rfl⟩

/-- `pcr_complete` = both orientations -/
theorem pcr_complete (P : Primers) (hP : PrimersOk P) (o : Opts) (hc : o.circular = false) (seq : Bytes)
    (l : List Amplicon) (h : pcr P o seq = .ok l) :
    (∀ i ki j kj a b, MatchAt P.forward (enc seq) i ki → MatchAt P.crev (enc seq) j kj →
      lengthOk o ((j : Int) - ((i : Int) + P.forward.patlen)) = true →
      linBounds o seq.length i P.forward.patlen j P.crev.patlen = some (a, b) →
      mkAmp true seq i ki j kj P.forward.patlen P.crev.patlen a b ∈ l) ∧
    (∀ i ki j kj a b, MatchAt P.reverse (enc seq) i ki → MatchAt P.cfwd (enc seq) j kj →
      lengthOk o ((j : Int) - ((i : Int) + P.reverse.patlen)) = true →
      linBounds o seq.length i P.reverse.patlen j P.cfwd.patlen = some (a, b) →
      mkAmp false seq i ki j kj P.reverse.patlen P.cfwd.patlen a b ∈ l) :=
  ⟨fun i ki j kj a b => pcr_complete_forward P hP o hc seq l h i ki j kj a b,
   fun i ki j kj a b => pcr_complete_reverse P hP o hc seq l h i ki j kj a b⟩

/-- each pair of sites is reported once: the list has no duplicates (records carry the two hits they come from) -/
theorem pcr_nodup (P : Primers) (o : Opts) (seq : Bytes) (l : List Amplicon) (h : pcr P o seq = .ok l) : l.Nodup :=
  pcr_nodup_any P o seq l h

/-! ## strand symmetry -/

/-- what a user sees of a record: direction, nucleotides, matched strings, error counts -/
def obs (a : Amplicon) : Bool × Bytes × Bytes × Int × Bytes × Int :=
  (a.isForward, a.seq, a.fmatch, a.ferr, a.rmatch, a.rerr)

/-- **Strand symmetry** (linear template over the IUPAC nucleotide symbols, `u` excluded — the open C10 finding on the
sequence symbol `u`): the PCR of the reverse-complemented template returns, as a multiset, the amplicons of the template
with the direction flipped — same nucleotides, same matched strings, same error counts; coordinates mirrored
(`flipAmp`).  Primers of any two lengths.  `PrimersMirror`: the complemented patterns have the mirrored code lists of the
primers (C10: checked on every complemented pattern by the oracle `rcpat.code`; `complement_table_mirror` is proved). -/
theorem pcr_strand_symmetry (P : Primers) (hP : PrimersOk P) (hM : PrimersMirror P) (o : Opts) (hc : o.circular = false)
    (seq : Bytes) (hs : ∀ b ∈ seq, b ∈ iupac) (l l' : List Amplicon)
    (h : pcr P o seq = .ok l) (h' : pcr P o (SeqOps.rc seq) = .ok l') :
    l'.Perm (l.map (flipAmp seq.length)) := by
  have hnd : (l.map (flipAmp seq.length)).Nodup := by
    rw [List.nodup_iff_pairwise_ne, List.pairwise_map]
    exact (List.nodup_iff_pairwise_ne.mp (pcr_nodup P o seq l h)).imp
      (fun hab he => hab (flipAmp_injective seq.length he))
  rw [List.perm_ext_iff_of_nodup (pcr_nodup P o _ l' h') hnd]
  intro a
  constructor
  · intro ha
    have hrr : pcr P o (SeqOps.rc (SeqOps.rc seq)) = .ok l := by rw [rc_rc seq hs]; exact h
    have := flip_mem P hP hM o hc (SeqOps.rc seq) (rc_iupac seq hs) l' l h' hrr a ha
    rw [rc_length] at this
    exact List.mem_map.mpr ⟨_, this, flipAmp_flipAmp _ a⟩
  · intro ha
    obtain ⟨x, hx, rfl⟩ := List.mem_map.mp ha
    exact flip_mem P hP hM o hc seq hs l l' h h' x hx

/-- the same on what is observable: equal multisets of (direction, nucleotides, matches, error counts), direction negated -/
theorem pcr_strand_symmetry_obs (P : Primers) (hP : PrimersOk P) (hM : PrimersMirror P) (o : Opts) (hc : o.circular = false)
    (seq : Bytes) (hs : ∀ b ∈ seq, b ∈ iupac) (l l' : List Amplicon)
    (h : pcr P o seq = .ok l) (h' : pcr P o (SeqOps.rc seq) = .ok l') :
    (l'.map obs).Perm (l.map fun a => (!a.isForward, a.seq, a.fmatch, a.ferr, a.rmatch, a.rerr)) := by
  have := (pcr_strand_symmetry P hP hM o hc seq hs l l' h h').map obs
  rw [List.map_map] at this
  exact this

/-! ## non-vacuity and tests -/

/-- test (sample evaluation of the model): primers ACG / GGA on `tacgttccaa`, then on its reverse complement -/
example : (match mkPrimers [65, 67, 71] [71, 71, 65] 0 0 with
    | none => false
    | some P =>
      match pcr P ⟨0, 0, false, -1, false⟩ [116, 97, 99, 103, 116, 116, 99, 99, 97, 97],
            pcr P ⟨0, 0, false, -1, false⟩ (SeqOps.rc [116, 97, 99, 103, 116, 116, 99, 99, 97, 97]) with
      | .ok l, .ok l' =>
        l.map obs == [(true, [116], [97, 99, 103], 0, [103, 103, 97], 0)] &&
        l'.map obs == [(false, [116], [97, 99, 103], 0, [103, 103, 97], 0)]
      | _, _ => false) = true := by decide

/-- the primers ACG / GGA as compiled, with their complemented patterns CGT / TCC -/
def exPrimers : Primers :=
  ⟨⟨[65, 67, 71], [1, 4, 64], 0, false⟩, ⟨[67, 71, 84], [4, 64, 524288], 0, false⟩,
   ⟨[71, 71, 65], [64, 64, 1], 0, false⟩, ⟨[84, 67, 67], [524288, 4, 4], 0, false⟩⟩

/-- the hypotheses of the theorems are satisfiable: the compiled primers ACG / GGA are in C10's domain and their
complemented patterns are the mirrored ones -/
example : (match mkPrimers [65, 67, 71] [71, 71, 65] 0 0 with
      | some P => decide (P.forward = exPrimers.forward ∧ P.cfwd = exPrimers.cfwd ∧ P.reverse = exPrimers.reverse ∧ P.crev = exPrimers.crev)
      | none => false) = true ∧
    PrimersOk exPrimers ∧ PrimersMirror exPrimers := by
  refine ⟨by decide, ⟨⟨rfl, by decide, by decide⟩, ⟨rfl, by decide, by decide⟩, ⟨rfl, by decide, by decide⟩, ⟨rfl, by decide, by decide⟩⟩,
    ⟨⟨?_, rfl⟩, ⟨?_, rfl⟩⟩⟩
  · exact .cons (by decide) (.cons (by decide) (.cons (by decide) .nil))
  · exact .cons (by decide) (.cons (by decide) (.cons (by decide) .nil))

/-- … and a pair of sites: ACG lies at offset 1 of `tacgttccaa` with 0 mismatches, TCC (complemented GGA) at offset 5,
one symbol apart; the window is `[4, 5)` -/
example : MatchAt exPrimers.forward (enc [116, 97, 99, 103, 116, 116, 99, 99, 97, 97]) 1 0 ∧
    MatchAt exPrimers.crev (enc [116, 97, 99, 103, 116, 116, 99, 99, 97, 97]) 5 0 ∧
    lengthOk ⟨0, 0, false, -1, false⟩ ((5 : Int) - (1 + 3)) = true ∧
    linBounds ⟨0, 0, false, -1, false⟩ 10 1 3 5 3 = some (4, 5) :=
  ⟨⟨by decide, by decide, by decide⟩, ⟨by decide, by decide, by decide⟩, by decide, by decide⟩

/-! ## circular templates

Vocabulary (`Lemmas/PcrCircular.lean`), `L` the length of the template, `d` its encoding:
* `CMatchAt P d i k` — a priming site of the circle: `i < L` and `MatchAt P (d ++ d) i k` (the pattern matches the word read
  clockwise from `i`); from C10's exactness theorem through `findAllIndex_exact_circular` (`Lemmas/ApatCircular.lean`);
* `cgap L i dl j = (j - (i + dl)) mod L` — the symbols met clockwise from the end of the direct site to the start of the
  complemented site;
* `cstart`, `creq`, `clen` — the window the options ask for: the gap from `(i + dl) mod L`, or — with an extension `e` —
  `gap + dl + cl + 2e` symbols from `(i - e) mod L`; `clen = creq` when `creq ≤ L` (`clen_of_le`), `creq` modulo `L`
  otherwise (what `Subsequence` silently returns; `--only-complete-flanking` has no effect on a circular template);
* `cseg seq a n` — the `n` symbols read on the circle from `a`; `mkAmpC` — the record (id coordinates `a+1 .. min(a+n, L)`).
Domain: `PrimersFit P L` — no primer is longer than the template (true as soon as `L ≥ 64`, `primersFit_of_64`); on a
shorter circular template the C encoder reads past the sequence (C10 note), and the model is only tied to the code when
the primers fit. -/

/-- **No `log.Fatalf`, no panic on a circular template** (as repaired: patch `C11-circular-extension-before-origin`). -/
theorem pcr_total_circular (P : Primers) (hP : PrimersOk P) (o : Opts) (hc : o.circular = true) (seq : Bytes)
    (hL : PrimersFit P seq.length) : ∃ l, pcr P o seq = .ok l := by
  unfold pcr
  apply mapM_id_total
  intro x hx
  unfold pcrRaw at hx
  rcases List.mem_append.mp hx with hx | hx
  · obtain ⟨i, ki, j, kj, _, _, _, _, rfl⟩ :=
      (mem_block_circular true _ _ hP.forward hP.crev _ o hc seq hL.forward hL.crev x).mp hx
    exact ⟨_, rfl⟩
  · obtain ⟨i, ki, j, kj, _, _, _, _, rfl⟩ :=
      (mem_block_circular false _ _ hP.reverse hP.cfwd _ o hc seq hL.reverse hL.cfwd x).mp hx
    exact ⟨_, rfl⟩

/-- **Soundness on a circular template.**  Every reported amplicon comes from a site `(i, ki)` of one primer and a site
`(j, kj)` of the complement of the other primer of the circle, whose clockwise gap `g = cgap` is within the bounds
(`g > 0` included) and such that the two sites and the gap fit in one turn (`g + dl + cl ≤ L`: the sites do not overlap
anywhere on the circle, the origin included); the record is `mkAmpC` of these. -/
theorem pcr_sound_circular (P : Primers) (hP : PrimersOk P) (o : Opts) (hc : o.circular = true) (seq : Bytes)
    (hL : PrimersFit P seq.length) (l : List Amplicon) (h : pcr P o seq = .ok l) (x : Amplicon) (hx : x ∈ l) :
    (∃ i ki j kj, CMatchAt P.forward (enc seq) i ki ∧ CMatchAt P.crev (enc seq) j kj ∧
        lengthOk o (cgap seq.length i P.forward.patlen j) = true ∧
        cgap seq.length i P.forward.patlen j + P.forward.patlen + P.crev.patlen ≤ seq.length ∧
        x = mkAmpC true seq i ki j kj P.forward.patlen P.crev.patlen (cstart o seq.length i P.forward.patlen)
              (clen o seq.length i P.forward.patlen j P.crev.patlen)) ∨
    (∃ i ki j kj, CMatchAt P.reverse (enc seq) i ki ∧ CMatchAt P.cfwd (enc seq) j kj ∧
        lengthOk o (cgap seq.length i P.reverse.patlen j) = true ∧
        cgap seq.length i P.reverse.patlen j + P.reverse.patlen + P.cfwd.patlen ≤ seq.length ∧
        x = mkAmpC false seq i ki j kj P.reverse.patlen P.cfwd.patlen (cstart o seq.length i P.reverse.patlen)
              (clen o seq.length i P.reverse.patlen j P.cfwd.patlen)) := by
  rcases (mem_pcr_iff P o seq l h x).mp hx with hb | hb
  · left
    obtain ⟨i, ki, j, kj, h1, h2, h3, h4, h5⟩ :=
      (mem_block_circular true _ _ hP.forward hP.crev _ o hc seq hL.forward hL.crev _).mp hb
    exact ⟨i, ki, j, kj, h1, h2, h3, h4, by cases h5; rfl⟩
  · right
    obtain ⟨i, ki, j, kj, h1, h2, h3, h4, h5⟩ :=
      (mem_block_circular false _ _ hP.reverse hP.cfwd _ o hc seq hL.reverse hL.cfwd _).mp hb
    exact ⟨i, ki, j, kj, h1, h2, h3, h4, by cases h5; rfl⟩

/-- **Completeness on a circular template**: every such pair of sites of the circle is reported, in both orientations —
the amplicon, the direct site or the complemented site may run across the origin. -/
theorem pcr_complete_circular (P : Primers) (hP : PrimersOk P) (o : Opts) (hc : o.circular = true) (seq : Bytes)
    (hL : PrimersFit P seq.length) (l : List Amplicon) (h : pcr P o seq = .ok l) :
    (∀ i ki j kj, CMatchAt P.forward (enc seq) i ki → CMatchAt P.crev (enc seq) j kj →
      lengthOk o (cgap seq.length i P.forward.patlen j) = true →
      cgap seq.length i P.forward.patlen j + P.forward.patlen + P.crev.patlen ≤ seq.length →
      mkAmpC true seq i ki j kj P.forward.patlen P.crev.patlen (cstart o seq.length i P.forward.patlen)
        (clen o seq.length i P.forward.patlen j P.crev.patlen) ∈ l) ∧
    (∀ i ki j kj, CMatchAt P.reverse (enc seq) i ki → CMatchAt P.cfwd (enc seq) j kj →
      lengthOk o (cgap seq.length i P.reverse.patlen j) = true →
      cgap seq.length i P.reverse.patlen j + P.reverse.patlen + P.cfwd.patlen ≤ seq.length →
      mkAmpC false seq i ki j kj P.reverse.patlen P.cfwd.patlen (cstart o seq.length i P.reverse.patlen)
        (clen o seq.length i P.reverse.patlen j P.cfwd.patlen) ∈ l) := by
  constructor
  · intro i ki j kj h1 h2 h3 h4
    rw [mem_pcr_iff P o seq l h]
    left
    exact (mem_block_circular true _ _ hP.forward hP.crev _ o hc seq hL.forward hL.crev _).mpr
      ⟨i, ki, j, kj, h1, h2, h3, h4, rfl⟩
  · intro i ki j kj h1 h2 h3 h4
    rw [mem_pcr_iff P o seq l h]
    right
    exact (mem_block_circular false _ _ hP.reverse hP.cfwd _ o hc seq hL.reverse hL.cfwd _).mpr
      ⟨i, ki, j, kj, h1, h2, h3, h4, rfl⟩

/-- what the record of a pair of sites of the circle says, field by field (forward orientation) -/
theorem mkAmpC_forward_fields (seq : Bytes) (i ki j kj dl cl a n : Nat) :
    let x := mkAmpC true seq i ki j kj dl cl a n
    x.isForward = true ∧ x.seq = cseg seq a n ∧ x.fmatch = cseg seq i dl ∧ x.ferr = ki ∧
      x.rmatch = SeqOps.rc (cseg seq j cl) ∧ x.rerr = kj ∧ x.idFrom = a + 1 ∧ x.idTo = (min (a + n) seq.length : Nat) := by
  simp [mkAmpC]

/-- … reverse orientation -/
theorem mkAmpC_reverse_fields (seq : Bytes) (i ki j kj dl cl a n : Nat) :
    let x := mkAmpC false seq i ki j kj dl cl a n
    x.isForward = false ∧ x.seq = SeqOps.rc (cseg seq a n) ∧ x.fmatch = SeqOps.rc (cseg seq j cl) ∧ x.ferr = kj ∧
      x.rmatch = cseg seq i dl ∧ x.rerr = ki ∧ x.idFrom = a + 1 ∧ x.idTo = (min (a + n) seq.length : Nat) := by
  simp [mkAmpC]

/-! ### rotation -/

/-- `obs` does not see the coordinates: a record and the record seen from another origin are the same amplicon -/
theorem obs_rotAmp (L r : Nat) (x : Amplicon) : obs (rotAmp L r x) = obs x := rfl

/-- **`pcr_rotation`, record level.**  `rotl seq r` is the same circle read from position `r mod L`.  Every amplicon of the
template is reported for the rotated template with the same direction, nucleotides, matched strings and error counts, its
coordinates (id, hits) shifted by `r` modulo `L` (`rotAmp`). -/
theorem pcr_rotation_mem (P : Primers) (hP : PrimersOk P) (o : Opts) (hc : o.circular = true) (seq : Bytes)
    (hL : PrimersFit P seq.length) (r : Nat) (l l' : List Amplicon)
    (h : pcr P o seq = .ok l) (h' : pcr P o (rotl seq r) = .ok l') (x : Amplicon) (hx : x ∈ l) :
    rotAmp seq.length r x ∈ l' := by
  rw [mem_pcr_iff P o _ l' h']
  rcases (mem_pcr_iff P o seq l h x).mp hx with hb | hb
  · exact Or.inl (block_rot true _ _ hP.forward hP.crev _ o hc seq hL.forward hL.crev r x hb)
  · exact Or.inr (block_rot false _ _ hP.reverse hP.cfwd _ o hc seq hL.reverse hL.cfwd r x hb)

/-- **`pcr_rotation`**: rotating a circular template leaves the set of amplicons (direction, nucleotides, matched strings,
error counts) unchanged. -/
theorem pcr_rotation (P : Primers) (hP : PrimersOk P) (o : Opts) (hc : o.circular = true) (seq : Bytes)
    (hL : PrimersFit P seq.length) (r : Nat) (l l' : List Amplicon)
    (h : pcr P o seq = .ok l) (h' : pcr P o (rotl seq r) = .ok l') :
    ∀ t, t ∈ l'.map obs ↔ t ∈ l.map obs := by
  intro t
  constructor
  · intro ht
    obtain ⟨y, hy, rfl⟩ := List.mem_map.mp ht
    have hback : pcr P o (rotl (rotl seq r) (seq.length - r % seq.length)) = .ok l := by
      rw [rotl_rotl_back]; exact h
    have hL' : PrimersFit P (rotl seq r).length := by rw [rotl_length]; exact hL
    have := pcr_rotation_mem P hP o hc (rotl seq r) hL' (seq.length - r % seq.length) l' l h' hback y hy
    exact List.mem_map.mpr ⟨_, this, obs_rotAmp _ _ y⟩
  · intro ht
    obtain ⟨x, hx, rfl⟩ := List.mem_map.mp ht
    exact List.mem_map.mpr ⟨_, pcr_rotation_mem P hP o hc seq hL r l l' h h' x hx, obs_rotAmp _ _ x⟩

/-- **`pcr_rotation`, multiset form**: the amplicons of the rotated template are, as a multiset, the amplicons of the template
with their coordinates shifted — nothing is lost, nothing is reported twice. -/
theorem pcr_rotation_perm (P : Primers) (hP : PrimersOk P) (o : Opts) (hc : o.circular = true) (seq : Bytes)
    (hL : PrimersFit P seq.length) (r : Nat) (l l' : List Amplicon)
    (h : pcr P o seq = .ok l) (h' : pcr P o (rotl seq r) = .ok l') :
    l'.Perm (l.map (rotAmp seq.length r)) := by
  have h0 : 0 < seq.length := by have := hP.forward.pos; have := hL.forward; omega
  have hnd : (l.map (rotAmp seq.length r)).Nodup := by
    rw [List.nodup_iff_pairwise_ne, List.pairwise_map]
    refine (List.nodup_iff_pairwise_ne.mp (pcr_nodup P o seq l h)).imp_of_mem ?_
    intro a b ha hb hab he
    apply hab
    rw [← rotAmp_back_mem P hP o hc seq hL r l h a ha, ← rotAmp_back_mem P hP o hc seq hL r l h b hb, he]
  rw [List.perm_ext_iff_of_nodup (pcr_nodup P o _ l' h') hnd]
  intro a
  constructor
  · intro ha
    have hback : pcr P o (rotl (rotl seq r) (seq.length - r % seq.length)) = .ok l := by
      rw [rotl_rotl_back]; exact h
    have hL' : PrimersFit P (rotl seq r).length := by rw [rotl_length]; exact hL
    have h1 := pcr_rotation_mem P hP o hc (rotl seq r) hL' (seq.length - r % seq.length) l' l h' hback a ha
    have h2 := rotAmp_back_mem P hP o hc (rotl seq r) hL' (seq.length - r % seq.length) l' h' a ha
    rw [rotl_length] at h1 h2
    rw [rotAmp_congr seq.length _ r (back_mod seq.length r h0)] at h2
    exact List.mem_map.mpr ⟨_, h1, h2⟩
  · intro ha
    obtain ⟨x, hx, rfl⟩ := List.mem_map.mp ha
    exact pcr_rotation_mem P hP o hc seq hL r l l' h h' x hx

/-! ### strand symmetry on the circle -/

/-- `obs` of a flipped record: the direction negated, everything else a user sees unchanged -/
theorem obs_flipC (L : Nat) (x : Amplicon) :
    obs (flipC L x) = (!x.isForward, x.seq, x.fmatch, x.ferr, x.rmatch, x.rerr) := rfl

/-- **Strand symmetry on a circular template** (template over the IUPAC nucleotide symbols, `u` excluded; primers that
fit): the PCR of the reverse-complemented circle returns, as a multiset, the amplicons of the circle with the direction
flipped — same nucleotides, same matched strings, same error counts; id coordinates and hits mirrored modulo `L`
(`flipC`). -/
theorem pcr_strand_symmetry_circular (P : Primers) (hP : PrimersOk P) (hM : PrimersMirror P) (o : Opts)
    (hc : o.circular = true) (seq : Bytes) (hs : ∀ b ∈ seq, b ∈ iupac) (hL : PrimersFit P seq.length)
    (l l' : List Amplicon) (h : pcr P o seq = .ok l) (h' : pcr P o (SeqOps.rc seq) = .ok l') :
    l'.Perm (l.map (flipC seq.length)) := by
  have hrr : pcr P o (SeqOps.rc (SeqOps.rc seq)) = .ok l := by rw [rc_rc seq hs]; exact h
  have hL' : PrimersFit P (SeqOps.rc seq).length := by rw [rc_length]; exact hL
  have hnd : (l.map (flipC seq.length)).Nodup := by
    rw [List.nodup_iff_pairwise_ne, List.pairwise_map]
    refine (List.nodup_iff_pairwise_ne.mp (pcr_nodup P o seq l h)).imp_of_mem ?_
    intro a b ha hb hab he
    apply hab
    rw [← flipC_flipC_mem P hP o hc seq hs hL l h a ha, ← flipC_flipC_mem P hP o hc seq hs hL l h b hb, he]
  rw [List.perm_ext_iff_of_nodup (pcr_nodup P o _ l' h') hnd]
  intro a
  constructor
  · intro ha
    have h1 := flip_mem_circ P hP hM o hc (SeqOps.rc seq) (rc_iupac seq hs) hL' l' l h' hrr a ha
    have h2 := flipC_flipC_mem P hP o hc (SeqOps.rc seq) (rc_iupac seq hs) hL' l' h' a ha
    rw [rc_length] at h1 h2
    exact List.mem_map.mpr ⟨_, h1, h2⟩
  · intro ha
    obtain ⟨x, hx, rfl⟩ := List.mem_map.mp ha
    exact flip_mem_circ P hP hM o hc seq hs hL l l' h h' x hx

/-- the same on what is observable: equal multisets of (direction, nucleotides, matches, error counts), direction negated -/
theorem pcr_strand_symmetry_circular_obs (P : Primers) (hP : PrimersOk P) (hM : PrimersMirror P) (o : Opts)
    (hc : o.circular = true) (seq : Bytes) (hs : ∀ b ∈ seq, b ∈ iupac) (hL : PrimersFit P seq.length)
    (l l' : List Amplicon) (h : pcr P o seq = .ok l) (h' : pcr P o (SeqOps.rc seq) = .ok l') :
    (l'.map obs).Perm (l.map fun a => (!a.isForward, a.seq, a.fmatch, a.ferr, a.rmatch, a.rerr)) := by
  have := (pcr_strand_symmetry_circular P hP hM o hc seq hs hL l l' h h').map obs
  rw [List.map_map] at this
  exact this

/-! ### non-vacuity and tests (circular) -/

/-- the circle `tacgttccaa` read from position 3 is `gttccaatac` -/
example : rotl ([116, 97, 99, 103, 116, 116, 99, 99, 97, 97] : Bytes) 3 = [103, 116, 116, 99, 99, 97, 97, 116, 97, 99] := by decide

/-- the hypotheses of the circular theorems are satisfiable on a pair whose DIRECT SITE RUNS ACROSS THE ORIGIN: on the circle
`gttccaatac` ACG lies at 8, 9, 0 and TCC (complemented GGA) at 2; one symbol apart clockwise (`cgap = 1`), the two sites and
the gap fit in one turn; the window is the symbol at position 1 -/
example : PrimersFit exPrimers 10 ∧
    CMatchAt exPrimers.forward (enc [103, 116, 116, 99, 99, 97, 97, 116, 97, 99]) 8 0 ∧
    CMatchAt exPrimers.crev (enc [103, 116, 116, 99, 99, 97, 97, 116, 97, 99]) 2 0 ∧
    cgap 10 8 3 2 = 1 ∧ lengthOk ⟨0, 0, true, -1, false⟩ (cgap 10 8 3 2) = true ∧ cgap 10 8 3 2 + 3 + 3 ≤ 10 ∧
    cstart ⟨0, 0, true, -1, false⟩ 10 8 3 = 1 ∧ clen ⟨0, 0, true, -1, false⟩ 10 8 3 2 3 = 1 :=
  ⟨⟨by decide, by decide, by decide, by decide⟩, ⟨by decide, by decide, by decide, by decide⟩,
   ⟨by decide, by decide, by decide, by decide⟩, by decide, by decide, by decide, by decide, by decide⟩

/-- test (sample evaluation of the model): that pair is what the model reports for the circle, and what it reports for
the circle read from its original origin is the same amplicon, coordinates shifted (`rotAmp`); with flanks of 1 symbol the
window is `t|acg|t|tcc|a` (9 symbols from position 7, across the origin); with flanks of 2 symbols the request (11 symbols)
is longer than the circle and `Subsequence` returns it modulo the length: 1 symbol (`clen`) -/
example :
    (match pcr exPrimers ⟨0, 0, true, -1, false⟩ [103, 116, 116, 99, 99, 97, 97, 116, 97, 99],
           pcr exPrimers ⟨0, 0, true, -1, false⟩ [116, 97, 99, 103, 116, 116, 99, 99, 97, 97],
           pcr exPrimers ⟨0, 0, true, 1, false⟩ [103, 116, 116, 99, 99, 97, 97, 116, 97, 99],
           pcr exPrimers ⟨0, 0, true, 2, false⟩ [103, 116, 116, 99, 99, 97, 97, 116, 97, 99] with
     | .ok l, .ok l', .ok l1, .ok l2 =>
       decide (l = [mkAmpC true [103, 116, 116, 99, 99, 97, 97, 116, 97, 99] 8 0 2 0 3 3 1 1]) &&
       decide (l' = [rotAmp 10 7 (mkAmpC true [103, 116, 116, 99, 99, 97, 97, 116, 97, 99] 8 0 2 0 3 3 1 1)]) &&
       decide (l1 = [mkAmpC true [103, 116, 116, 99, 99, 97, 97, 116, 97, 99] 8 0 2 0 3 3 7 9]) &&
       decide (l2 = [mkAmpC true [103, 116, 116, 99, 99, 97, 97, 116, 97, 99] 8 0 2 0 3 3 6 1]) &&
       l.map obs == [(true, [116], [97, 99, 103], 0, [103, 103, 97], 0)] &&
       l1.map (·.seq) == [[116, 97, 99, 103, 116, 116, 99, 99, 97]]
     | _, _, _, _ => false) = true ∧
    cstart ⟨0, 0, true, 1, false⟩ 10 8 3 = 7 ∧ clen ⟨0, 0, true, 1, false⟩ 10 8 3 2 3 = 9 ∧
    creq ⟨0, 0, true, 2, false⟩ 10 8 3 2 3 = 11 ∧ clen ⟨0, 0, true, 2, false⟩ 10 8 3 2 3 = 1 := by decide

/-!
## what is left

* the circular theorems hold for primers that fit in the template (`PrimersFit`, e.g. every template of at least 64 symbols);
  a circular template shorter than a primer is outside the domain of the matcher model (C10 note: the C encoder reads 64
  symbols whatever the length);
* `PrimersMirror` (the complemented patterns carry the mirrored code lists) is a hypothesis of the strand-symmetry theorems,
  checked by C10's oracle on every complemented pattern;
* `pcr_rotation` is stated on sets of observable amplicons and, record by record, with shifted coordinates
  (`pcr_rotation_mem`); the circular theorems are about the model as repaired (patches `C11-reverse-block-circular-length`,
  `C11-circular-overlap-across-origin`, `C11-circular-extension-before-origin`).
-/

end ObiVerif.Props.C11
