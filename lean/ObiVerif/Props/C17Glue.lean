import ObiVerif.Model.ReadGlue
import ObiVerif.Lemmas.ReadGlue
import ObiVerif.Props.C17
set_option Elab.async false
/-!
# C17 — the glue between the commands and the readers (property theorems)

`Model/ReadGlue.lean`: `CLIReadBioSequences` (argument expansion, single file / `--paired-with` / two files or more) and
`ReadSequencesBatchFromFiles` (N files, `concurrent_readers` goroutines, batches renumbered) as a transition system whose
paths are the interleavings of the reader goroutines.  For every list of inputs, every position of the faulted one,
every number of readers ≥ 1 and every interleaving: the command ends with status 0 only when NO input is faulted, and
then with all the batches of all the inputs.
-/
namespace ObiVerif.Props.C17Glue
open ObiVerif.ReadErr ObiVerif.ReadGlue ObiVerif.Props.C17

/-! ## one file: what the reader returns -/

/-- the way a reader ends on a file depends only on the length of the decompressed stream, its final error and the size
of the peek (closed form used by the driver on large files) -/
theorem openFile_cls (mode : Mode) (split : Bytes → Int) (peek bufsz : Nat) (s : Stream) (hb : 2 ≤ bufsz)
    (hs : SplitterOK split) :
    (openFile mode split peek bufsz s).cls = openClass mode peek s.data.length s.final := by
  unfold openFile openClass
  by_cases h0 : s.data.length = 0
  · simp only [h0, if_true]
    by_cases he : s.final = .eof
    · simp [he, FileRes.cls]
    · simp only [he, if_false]
      cases mode <;> rfl
  · simp only [h0, if_false]
    by_cases he : s.final = .eof
    · simp only [he, if_true]
      have hne : s.data ≠ [] := fun h => h0 (by simp [h])
      cases mode with
      | forced =>
        simp only [FileRes.cls, readChunks_clean_ok split bufsz s hb hs he]
      | guess =>
        simp only [guessPeek_clean_ok peek s he hne]
        have : (readChunks split bufsz (if peek ≤ s.data.length then s else ⟨s.data, .eof⟩)).2 = .ok := by
          apply readChunks_clean_ok split bufsz _ hb hs
          split <;> simp [he]
        simp only [FileRes.cls, this]
    · simp only [he, if_false]
      cases mode with
      | forced =>
        simp only [FileRes.cls, readChunks_error_fatal split bufsz s hb hs he]
      | guess =>
        simp only
        by_cases hp : s.data.length < peek
        · simp only [guessPeek_error_fatal peek s hp he, hp, if_true, FileRes.cls]
        · have hp' : peek ≤ s.data.length := by omega
          simp only [guessPeek_long_ok peek s hp', hp', hp, if_true, if_false, FileRes.cls,
            readChunks_error_fatal split bufsz s hb hs he]

/-- a reader delivers a complete iterator exactly on the streams that end cleanly: every other final error - met by
`Ropen`, by the peek of the format guesser or by the chunk reader, with or without a forced format - makes the file a
faulted input -/
theorem openFile_faulted_iff (mode : Mode) (split : Bytes → Int) (peek bufsz : Nat) (s : Stream) (hb : 2 ≤ bufsz)
    (hs : SplitterOK split) :
    (openFile mode split peek bufsz s).faulted = true ↔ s.final ≠ .eof := by
  have h := openFile_cls mode split peek bufsz s hb hs
  have hc : ∀ r : FileRes Bytes, r.faulted = true ↔ r.cls ≠ .good := by
    intro r
    cases r with
    | openErr => simp [FileRes.faulted, FileRes.cls]
    | openFatal => simp [FileRes.faulted, FileRes.cls]
    | stream bs fin => cases fin <;> simp [FileRes.faulted, FileRes.cls]
  rw [hc, h]
  unfold openClass
  by_cases he : s.final = .eof
  · simp [he]
  · simp only [he, if_false]
    by_cases h0 : s.data.length = 0
    · cases mode <;> simp [h0, he]
    · cases mode
      · by_cases hp : s.data.length < peek <;> simp [h0, he, hp]
      · simp [h0, he]

/-- `openFile .guess` refines `ReadErr.readFile` (the model of the earlier passes): same verdict -/
theorem openFile_refines_readFile (split : Bytes → Int) (peek bufsz : Nat) (s : Stream) :
    (readFile split peek bufsz s).accepted = !(openFile .guess split peek bufsz s).faulted := by
  unfold readFile openFile
  by_cases h0 : s.data.length = 0
  · by_cases he : s.final = .eof <;> simp [h0, he, FileOutcome.accepted, FileRes.faulted]
  · simp only [h0, if_false]
    cases guessPeek peek s with
    | fatal => simp [FileOutcome.accepted, FileRes.faulted]
    | ok =>
      simp only [FileOutcome.accepted]
      cases (readChunks split bufsz (if peek ≤ s.data.length then s else ⟨s.data, .eof⟩)).2 <;>
        simp [FileRes.faulted]

example : openFile .guess endOfLastFastaEntry 1048576 8 ⟨exData, .ueof⟩ = .openErr := by decide
example : openFile .guess endOfLastFastaEntry 8 8 ⟨exData, .ueof⟩ =
    .stream [[62, 97, 10, 97, 99], [62, 98, 10, 103, 103]] .fatal := by decide
example : openFile .forced endOfLastFastaEntry 1048576 8 ⟨exData, .other⟩ =
    .stream [[62, 97, 10, 97, 99], [62, 98, 10, 103, 103]] .fatal := by decide
example : openFile .guess endOfLastFastaEntry 8 8 ⟨[], .ueof⟩ = .openFatal := by decide
example : openFile .forced endOfLastFastaEntry 8 8 ⟨[], .ueof⟩ = .openErr := by decide
example : openFile .guess endOfLastFastaEntry 8 8 ⟨[], .eof⟩ = .stream [] .ok := by decide

/-! ## two files or more: `ReadSequencesBatchFromFiles` -/

variable {β : Type}

/-- **a faulted input among several is never accepted.**  Whatever the list of inputs, the position of the faulted one
(`f ∈ files`), the way its reader fails (error returned when the file is opened, `log.Fatalf` when it is opened,
`log.Fatalf` in mid-stream after any number of batches), the number of reader goroutines and their interleaving
(`Reach`: every path of the transition system - the other files may have been read completely before the fault is
met): the plumbing never reaches the state in which every reader called `Done()`, i.e. the command never ends with
status 0 -/
theorem multi_input_error_rejected (files : List (FileRes β)) (nreader : Nat) (hn : 1 ≤ nreader)
    (f : FileRes β) (hf : f ∈ files) (hfault : f.faulted = true) (s : St β) (hr : Reach (init files nreader) s) :
    ¬ s.endedOk := by
  intro ⟨hd, hdone⟩
  have hlen := reach_readers_length hr
  have hq : s.queue = [] := by
    apply reach_doneQueue hr
    cases hrs : s.readers with
    | nil => rw [hrs] at hlen; simp at hlen; omega
    | cons r rs => exact ⟨r, by simp, hdone r (by simp [hrs])⟩
  rcases reach_pending hr ⟨f, hf, hfault⟩ with h | ⟨g, hg, _⟩ | ⟨rest, hm⟩
  · rw [hd] at h; cases h
  · rw [hq] at hg; cases hg
  · have := hdone _ hm
    cases this

/-- … and the execution does end (next two theorems), so it ends with the process dead: fatal.
No deadlock: a live process in which a reader has not left always has a move -/
theorem multi_input_no_deadlock (s : St β) (hd : s.dead = false) (hr : ∃ r ∈ s.readers, r.isDone = false) :
    ∃ s', Step s s' := progress s hd hr

/-- every move decreases `measure`: there is no infinite execution, whatever the interleaving -/
theorem multi_input_terminates : WellFounded (fun (b a : St β) => Step a b) := by
  apply Subrelation.wf (r := InvImage (· < ·) (measure (β := β)))
  · intro b a h
    exact step_measure h
  · exact InvImage.wf _ Nat.lt_wfRel.wf

/-- without faulted input the process never dies -/
theorem multi_input_clean_never_dies (files : List (FileRes β)) (nreader : Nat)
    (hclean : ∀ f ∈ files, f.faulted = false) (s : St β) (hr : Reach (init files nreader) s) : s.dead = false :=
  (reach_clean hr hclean).1

/-- at the end of an execution without fault, ALL the batches of ALL the inputs have been pushed, each once (a
permutation of the concatenation of the files), renumbered 0, 1, 2, … in the order of the pushes -/
theorem multi_input_clean_all_records (files : List (FileRes β)) (nreader : Nat) (hn : 1 ≤ nreader)
    (s : St β) (hr : Reach (init files nreader) s) (hend : s.endedOk) :
    (s.out.map Prod.snd).Perm (files.map FileRes.batches).flatten ∧ s.out.map Prod.fst = List.range s.out.length := by
  obtain ⟨_, hdone⟩ := hend
  have hlen := reach_readers_length hr
  have hq : s.queue = [] := by
    apply reach_doneQueue hr
    cases hrs : s.readers with
    | nil => rw [hrs] at hlen; simp at hlen; omega
    | cons r rs => exact ⟨r, by simp, hdone r (by simp [hrs])⟩
  have hp := reach_pool hr
  have hnum := reach_numbered hr
  refine ⟨?_, ?_⟩
  · simpa [pool, restOf_done hdone, hq] using hp
  · have : s.counter = s.out.length := by
      have := congrArg List.length hnum
      simpa using this.symm
    rw [← this]
    exact hnum

/-- with one reader (the default: `--no-order` not given) the batches come out in the order of the input list -/
theorem single_reader_keeps_order (files : List (FileRes β)) (hclean : ∀ f ∈ files, f.faulted = false)
    (s : St β) (hr : Reach (init files 1) s) (hend : s.endedOk) :
    s.out.map Prod.snd = (files.map FileRes.batches).flatten := by
  obtain ⟨r, hrs, he⟩ := reach_seq1 hr hclean
  have hdone : ∀ r ∈ s.readers, r.isDone = true := hend.2
  have hq : s.queue = [] := reach_doneQueue hr ⟨r, by simp [hrs], hdone r (by simp [hrs])⟩
  have hr0 : restOf r = [] := by
    have := hdone r (by simp [hrs])
    cases r <;> simp_all [restOf, RState.isDone]
  simpa [hr0, hq] using he

/-- with NO reader goroutine the plumbing would end at once with nothing read (`batchiter.Add(0)`): the hypothesis
`1 ≤ nreader` is needed (the commands pass 1, or `ParallelFilesRead()` ≥ 1 with `--no-order`) -/
example : (init [FileRes.openErr (β := Nat)] 0).endedOk := ⟨rfl, by simp [init]⟩

/-! ## the executable scheduler of the driver -/

/-- what the driver computes is the end of a real execution -/
theorem run_is_execution (early : Bool) (sched : List Nat) (files : List (FileRes β)) (nreader : Nat) :
    let s0 := init files nreader
    Reach s0 (run early (measure s0) sched s0) ∧ Ended (run early (measure s0) sched s0) :=
  ⟨run_reach _ _ _ _ Reach.start, run_ended _ _ _ (Nat.le_refl _)⟩

/-! ## `CLIReadBioSequences` -/

/-- **the command never accepts a faulted input**: whatever the arguments expand to (one file, several, a
directory), the position of the faulted file, the schedule and the number of readers -/
theorem cli_error_rejected (early : Bool) (sched : List Nat) (nreader : Nat) (hn : 1 ≤ nreader)
    (files : List (FileRes β)) (paired : Option (FileRes β))
    (f : FileRes β) (hf : f ∈ files) (hfault : f.faulted = true) :
    cliRead early sched nreader (some files) paired = .fatal := by
  match files, hf with
  | [g], hf =>
    have : f = g := by simpa using hf
    subst this
    cases f with
    | openErr => rfl
    | openFatal => rfl
    | stream bs fin =>
      have := faulted_stream hfault
      subst this
      rfl
  | g1 :: g2 :: gs, hf =>
    simp only [cliRead]
    obtain ⟨hr, he⟩ := run_is_execution early sched (g1 :: g2 :: gs) nreader
    rcases he with hd | hdone
    · simp [hd]
    · cases hd : (run early (measure (init (g1 :: g2 :: gs) nreader)) sched (init (g1 :: g2 :: gs) nreader)).dead with
      | true => simp
      | false =>
        exact absurd ⟨hd, hdone⟩ (multi_input_error_rejected _ nreader hn f hf hfault _ hr)

/-- a faulted `--paired-with` file is not accepted either -/
theorem cli_paired_error_rejected (early : Bool) (sched : List Nat) (nreader : Nat) (f p : FileRes β)
    (hfault : p.faulted = true) : cliRead early sched nreader (some [f]) (some p) = .fatal := by
  cases f with
  | openErr => rfl
  | openFatal => rfl
  | stream bs fin =>
    cases fin with
    | fatal => rfl
    | ok =>
      cases p with
      | openErr => rfl
      | openFatal => rfl
      | stream bs' fin' =>
        have := faulted_stream hfault
        subst this
        rfl

/-- a path that cannot be opened, or arguments that expand to no file at all, are not a successful empty run -/
theorem cli_no_input_rejected (early : Bool) (sched : List Nat) (nreader : Nat) (paired : Option (FileRes β)) :
    cliRead early sched nreader none paired = .fatal ∧ cliRead early sched nreader (some []) paired = .fatal :=
  ⟨rfl, rfl⟩

/-- without fault the command ends with status 0 and all the batches of all the files (two files or more: a
permutation; in the order of the list with one reader) -/
theorem cli_clean_ok (early : Bool) (sched : List Nat) (nreader : Nat) (hn : 1 ≤ nreader)
    (f1 f2 : FileRes β) (fs : List (FileRes β)) (paired : Option (FileRes β))
    (hclean : ∀ f ∈ f1 :: f2 :: fs, f.faulted = false) :
    ∃ bs, cliRead early sched nreader (some (f1 :: f2 :: fs)) paired = .ok bs ∧
      bs.Perm (((f1 :: f2 :: fs).map FileRes.batches).flatten) ∧
      (nreader = 1 → bs = ((f1 :: f2 :: fs).map FileRes.batches).flatten) := by
  obtain ⟨hr, he⟩ := run_is_execution early sched (f1 :: f2 :: fs) nreader
  have hd := multi_input_clean_never_dies _ nreader hclean _ hr
  have hend : (run early (measure (init (f1 :: f2 :: fs) nreader)) sched (init (f1 :: f2 :: fs) nreader)).endedOk := by
    refine ⟨hd, ?_⟩
    rcases he with h | h
    · rw [hd] at h; cases h
    · exact h
  refine ⟨_, by simp only [cliRead, hd]; rfl, (multi_input_clean_all_records _ nreader hn _ hr hend).1, ?_⟩
  intro h1
  subst h1
  exact single_reader_keeps_order _ hclean _ hr hend

/-- the hypotheses are satisfiable: three files, the second one faulted in mid-stream, two readers -/
example : cliRead false [1, 0] 2 (some [.stream [1, 2] .ok, .stream [3] .fatal, .stream [4] .ok]) none
    = (CmdOut.fatal : CmdOut Nat) :=
  cli_error_rejected false [1, 0] 2 (by decide) _ none (.stream [3] .fatal) (by simp) rfl

example : (match cliRead false [1, 0] 2 (some [.stream [1, 2] .ok, .stream [3] .ok, .stream [4] .ok]) none with
    | CmdOut.ok bs => bs | .fatal => []) = [1, 3, 2, 4] := by decide
example : (match cliRead false [] 1 (some [.stream [1, 2] .ok, .stream [3] .ok, .stream [4] .ok]) none with
    | CmdOut.ok bs => bs | .fatal => []) = [1, 2, 3, 4] := by decide

/-- the regression seeded as C17-m6 (a file whose reader returned the nil iterator is skipped with a warning) in the
terms of the model: the reader's `openErr` would be turned into an empty complete file - a state `endedOk` is then
reachable although an input is faulted, which `multi_input_error_rejected` excludes for the code as it is -/
example : ∃ s, Reach (init [FileRes.stream [1] .ok, FileRes.stream ([] : List Nat) .ok] 1) s ∧ s.endedOk :=
  ⟨_, (run_is_execution false [] [FileRes.stream [1] .ok, FileRes.stream ([] : List Nat) .ok] 1).1,
    by decide, by decide⟩

/-! ## `ExpandListOfFiles` -/

theorem addNew_mem (acc : List String) (p q : String) (h : q ∈ acc) : q ∈ addNew acc p := by
  unfold addNew
  split <;> simp [h]

theorem addNew_self (acc : List String) (p : String) : p ∈ addNew acc p := by
  unfold addNew
  split
  · rename_i h; simpa using h
  · simp

theorem walkLeaf_mono {ce : Bool} {acc r : List String} {x : Leaf} {q : String} (hq : q ∈ acc)
    (h : walkLeaf ce acc x = some r) : q ∈ r := by
  cases x with
  | bad p => cases h
  | file p =>
    simp only [walkLeaf, Option.some.injEq] at h
    subst h
    split
    · exact addNew_mem _ _ _ hq
    · exact hq

theorem walkLeaves_mono {q : String} (xs : List Leaf) : ∀ {acc r : List String}, q ∈ acc →
    walkLeaves acc xs = some r → q ∈ r := by
  induction xs with
  | nil => intro acc r hq h; simp only [walkLeaves, Option.some.injEq] at h; exact h ▸ hq
  | cons x xs ih =>
    intro acc r hq h
    unfold walkLeaves at h
    split at h
    · cases h
    · rename_i a ha
      exact ih (walkLeaf_mono hq ha) h

theorem walkArgs_mono {q : String} (es : List Entry) : ∀ {ce : Bool} {acc r : List String}, q ∈ acc →
    walkArgs ce acc es = some r → q ∈ r := by
  induction es with
  | nil => intro ce acc r hq h; simp only [walkArgs, Option.some.injEq] at h; exact h ▸ hq
  | cons e es ih =>
    intro ce acc r hq h
    cases e with
    | leaf x =>
      simp only [walkArgs] at h
      split at h
      · cases h
      · rename_i a ha
        exact ih (walkLeaf_mono hq ha) h
    | dir p xs =>
      simp only [walkArgs] at h
      split at h
      · cases h
      · rename_i a ha
        exact ih (walkLeaves_mono xs hq ha) h

/-- a path that does not exist (or a dangling link) among the arguments makes the expansion fail: the command exits
with status 1 instead of going on with the other arguments -/
theorem expand_bad_rejected (pre post : List Entry) (p : String) : expand (pre ++ .leaf (.bad p) :: post) = none := by
  unfold expand
  suffices h : ∀ (ce : Bool) (acc : List String), walkArgs ce acc (pre ++ .leaf (.bad p) :: post) = none from h _ _
  induction pre with
  | nil => intro ce acc; simp [walkArgs, walkLeaf]
  | cons e pre ih =>
    intro ce acc
    cases e with
    | leaf x =>
      simp only [List.cons_append, walkArgs]
      split
      · rfl
      · exact ih _ _
    | dir q xs =>
      simp only [List.cons_append, walkArgs]
      split
      · rfl
      · exact ih _ _

/-- … also inside a directory -/
theorem expand_bad_in_dir_rejected (post : List Entry) (d p : String) (xs ys : List Leaf) :
    expand (.dir d (xs ++ .bad p :: ys) :: post) = none := by
  unfold expand
  simp only [walkArgs]
  suffices h : ∀ acc : List String, walkLeaves acc (xs ++ .bad p :: ys) = none by simp [h]
  induction xs with
  | nil => intro acc; simp [walkLeaves, walkLeaf]
  | cons x xs ih =>
    intro acc
    simp only [List.cons_append, walkLeaves]
    split
    · rfl
    · exact ih _

/-- a file named on the command line, whatever its name, is in the list of files read as long as no directory
precedes it; inside a directory (or after one: the quirk of the sticky `check_ext`) only with a known suffix -/
theorem expand_explicit_file (pre post : List Entry) (p : String) (hpre : ∀ e ∈ pre, ∃ x, e = .leaf x)
    (l : List String) (h : expand (pre ++ .leaf (.file p) :: post) = some l) : p ∈ l := by
  unfold expand at h
  suffices hs : ∀ (acc : List String), walkArgs false acc (pre ++ .leaf (.file p) :: post) = some l → p ∈ l from hs _ h
  clear h
  induction pre with
  | nil =>
    intro acc h
    simp only [List.nil_append, walkArgs, walkLeaf] at h
    exact walkArgs_mono post (addNew_self acc p) (by simpa using h)
  | cons e pre ih =>
    intro acc h
    obtain ⟨x, rfl⟩ := hpre e (by simp)
    simp only [List.cons_append, walkArgs] at h
    split at h
    · cases h
    · exact ih (fun e he => hpre e (by simp [he])) _ h

/-- the quirk: after a directory argument a file named explicitly is dropped when its name has no known suffix -/
example : expand [.dir "d" [.file "d/a.fasta"], .leaf (.file "b.txt")] = some ["d/a.fasta"] := by decide
example : expand [.leaf (.file "b.txt"), .dir "d" [.file "d/a.fasta", .file "d/c.fasta.bz2"]] =
    some ["b.txt", "d/a.fasta"] := by decide

end ObiVerif.Props.C17Glue
