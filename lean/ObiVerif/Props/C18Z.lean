import ObiVerif.Props.C18
import ObiVerif.Lemmas.WriteDev
/-!
# C18 — compressed output, not-owned output, arbitrary underlying writers (property theorems)

* `rawO_exact` / `jsonO_exact`: the characterisation of `Props/C18.lean` with the `own` flag of `Wfile`
  (`OptionCloseFile` / `OptionDontCloseFile`): a failing `Close` of the output only counts when it is called.
* `gz_raw_exact` / `gz_json_exact`: compressed output (`bufio.Writer` over pgzip over the failing sink), for
  **every** compressor whose output only grows with its input (`Mono`), every schedule `rep` of the moments at
  which a pushed error becomes visible to `Write`, every buffer size, every fault offset `limit` (inside the
  header, a block, the last block, the trailer), `Close` failing or not, owned or not, every arrival order:
  the sink ends with the first `limit` bytes of the complete compressed stream and the exit is fatal iff the
  stream does not fit or the owned `Close` fails.  Corollaries `gz_*_ok_all_bytes`, `gz_*_fatal_iff`,
  `gz_*_prefix_safe`.
* `dev_*`: over **any** underlying `io.Writer` (short writes with a nil error, temporary errors, errors at any
  call): outcome `ok` implies every byte was accepted by the device; what it holds is always a prefix of the
  complete result; a device that accepts everything gives `ok` (no false alarm).
-/
namespace ObiVerif.Props.C18
open ObiVerif.Reseq ObiVerif.WriteErr

/-! ## owned / not owned, uncompressed -/

theorem rawO_exact (size limit : Nat) (cf own : Bool) (v : Nat → Bytes) (n : Nat) (ks : List Nat)
    (hp : ks.Perm (List.range n)) :
    writeRawO size limit cf own (ks.map fun k => (k, v k)) =
      (if limit < (rawExpected v n).length || (own && cf) then .fatal else .ok, (rawExpected v n).take limit) := by
  unfold writeRawO
  rw [(run_perm emitRaw _ v n ks hp).1]
  have h := foldl_emitRaw_inv ((List.range n).map v) _ _ (BWInv.init size limit cf)
  rw [closeWO_eq own h]
  rfl

theorem jsonO_exact (size limit : Nat) (cf own : Bool) (v : Nat → Bytes) (n : Nat) (ks : List Nat)
    (hp : ks.Perm (List.range n)) :
    writeJsonO size limit cf own (ks.map fun k => (k, v k)) =
      (if limit < (jsonExpected v n).length || (own && cf) then .fatal else .ok, (jsonExpected v n).take limit) := by
  unfold writeJsonO
  simp only
  rw [(run_perm emitJson _ v n ks hp).1]
  have h0 : BWInv limit cf ((⟨size, [], false, ⟨limit, [], cf⟩⟩ : BW).write openJson)
      ObiVerif.Writer.openJson := write_inv (BWInv.init size limit cf) openJson
  have hsim := (foldl_emitJson_sim ((List.range n).map v)
    ⟨(⟨size, [], false, ⟨limit, [], cf⟩⟩ : BW).write openJson, false⟩
    ⟨ObiVerif.Writer.openJson, false⟩ rfl h0).2
  refine (closeWO_eq own (write_inv hsim closeJson)).trans ?_
  rw [(ObiVerif.Props.C04.foldl_emitJson _ _).1]
  simp only [Bool.false_eq_true, if_false]
  rfl

/-- an owned output is the model of `Props/C18.lean` -/
theorem rawO_owned (size limit : Nat) (cf : Bool) (arr : List (Nat × Bytes)) :
    writeRawO size limit cf true arr = writeRaw size limit cf arr := by
  unfold writeRawO writeRaw closeWO closeW; simp

theorem jsonO_owned (size limit : Nat) (cf : Bool) (arr : List (Nat × Bytes)) :
    writeJsonO size limit cf true arr = writeJson size limit cf arr := by
  unfold writeJsonO writeJson closeWO closeW; simp

/-- a writer that does not own its output is fatal exactly when the result does not fit: the final flush is
still checked (the seeded regression C18-m1 dropped exactly this) -/
theorem rawO_notowned_fatal_iff (size limit : Nat) (cf : Bool) (v : Nat → Bytes) (n : Nat) (ks : List Nat)
    (hp : ks.Perm (List.range n)) :
    (writeRawO size limit cf false (ks.map fun k => (k, v k))).1 = .fatal ↔ limit < (rawExpected v n).length := by
  rw [rawO_exact size limit cf false v n ks hp]
  by_cases h : limit < (rawExpected v n).length <;> simp [h]

theorem jsonO_notowned_fatal_iff (size limit : Nat) (cf : Bool) (v : Nat → Bytes) (n : Nat) (ks : List Nat)
    (hp : ks.Perm (List.range n)) :
    (writeJsonO size limit cf false (ks.map fun k => (k, v k))).1 = .fatal ↔ limit < (jsonExpected v n).length := by
  rw [jsonO_exact size limit cf false v n ks hp]
  by_cases h : limit < (jsonExpected v n).length <;> simp [h]

/-! ## compressed output -/

theorem gz_raw_exact (c : Codec) (hm : Mono c) (rep : Nat → Bool) (size limit : Nat) (cf own : Bool)
    (v : Nat → Bytes) (n : Nat) (ks : List Nat) (hp : ks.Perm (List.range n)) :
    writeRawZ c rep size limit cf own (ks.map fun k => (k, v k)) =
      (if limit < (c.stream (rawExpected v n)).length || (own && cf) then .fatal else .ok,
       (c.stream (rawExpected v n)).take limit) := by
  unfold writeRawZ
  rw [(run_perm (emitRawG (GZ.write c rep)) _ v n ks hp).1]
  have h0 : GInv GZ.ein (fun g => g.failed = true) (ZInv c limit cf)
      (⟨size, [], false, gz0 limit cf⟩ : GW GZ) [] :=
    ⟨List.prefix_refl _, fun _ => rfl, fun h => Bool.noConfusion h, zinv_init c limit cf⟩
  have h := gfoldl_raw_inv (gzLaw hm rep limit cf) ((List.range n).map v) _ _ h0
  rw [closeZ_eq hm rep own h]
  rfl

theorem gz_json_exact (c : Codec) (hm : Mono c) (rep : Nat → Bool) (size limit : Nat) (cf own : Bool)
    (v : Nat → Bytes) (n : Nat) (ks : List Nat) (hp : ks.Perm (List.range n)) :
    writeJsonZ c rep size limit cf own (ks.map fun k => (k, v k)) =
      (if limit < (c.stream (jsonExpected v n)).length || (own && cf) then .fatal else .ok,
       (c.stream (jsonExpected v n)).take limit) := by
  unfold writeJsonZ
  simp only
  rw [(run_perm (emitJsonG (GZ.write c rep)) _ v n ks hp).1]
  have L := gzLaw hm rep limit cf
  have h00 : GInv GZ.ein (fun g => g.failed = true) (ZInv c limit cf)
      (⟨size, [], false, gz0 limit cf⟩ : GW GZ) [] :=
    ⟨List.prefix_refl _, fun _ => rfl, fun h => Bool.noConfusion h, zinv_init c limit cf⟩
  have h0 := gwrite_inv L h00 openJson
  have hsim := (gfoldl_emitJson_sim L ((List.range n).map v)
    ⟨(⟨size, [], false, gz0 limit cf⟩ : GW GZ).write (GZ.write c rep) openJson, false⟩
    ⟨ObiVerif.Writer.openJson, false⟩ rfl h0).2
  refine (closeZ_eq hm rep own (gwrite_inv L hsim closeJson)).trans ?_
  rw [(ObiVerif.Props.C04.foldl_emitJson _ _).1]
  simp only [Bool.false_eq_true, if_false]
  rfl

theorem exactZ_ok {limit : Nat} {b : Bool} {exp got : Bytes}
    (h : ((if limit < exp.length || b then Outcome.fatal else Outcome.ok), exp.take limit) = (Outcome.ok, got)) :
    got = exp ∧ b = false := exact_ok h

/-- an `ok` exit of a compressed writer: the sink holds the complete compressed stream -/
theorem gz_raw_ok_all_bytes (c : Codec) (hm : Mono c) (rep : Nat → Bool) (size limit : Nat) (cf own : Bool)
    (v : Nat → Bytes) (n : Nat) (ks : List Nat) (hp : ks.Perm (List.range n)) (got : Bytes)
    (h : writeRawZ c rep size limit cf own (ks.map fun k => (k, v k)) = (.ok, got)) :
    got = c.stream (rawExpected v n) ∧ (own && cf) = false := by
  rw [gz_raw_exact c hm rep size limit cf own v n ks hp] at h
  exact exactZ_ok h

theorem gz_json_ok_all_bytes (c : Codec) (hm : Mono c) (rep : Nat → Bool) (size limit : Nat) (cf own : Bool)
    (v : Nat → Bytes) (n : Nat) (ks : List Nat) (hp : ks.Perm (List.range n)) (got : Bytes)
    (h : writeJsonZ c rep size limit cf own (ks.map fun k => (k, v k)) = (.ok, got)) :
    got = c.stream (jsonExpected v n) ∧ (own && cf) = false := by
  rw [gz_json_exact c hm rep size limit cf own v n ks hp] at h
  exact exactZ_ok h

theorem gz_raw_fatal_iff (c : Codec) (hm : Mono c) (rep : Nat → Bool) (size limit : Nat) (cf own : Bool)
    (v : Nat → Bytes) (n : Nat) (ks : List Nat) (hp : ks.Perm (List.range n)) :
    (writeRawZ c rep size limit cf own (ks.map fun k => (k, v k))).1 = .fatal ↔
      (limit < (c.stream (rawExpected v n)).length ∨ (own && cf) = true) := by
  rw [gz_raw_exact c hm rep size limit cf own v n ks hp]
  exact exact_fatal_iff

theorem gz_json_fatal_iff (c : Codec) (hm : Mono c) (rep : Nat → Bool) (size limit : Nat) (cf own : Bool)
    (v : Nat → Bytes) (n : Nat) (ks : List Nat) (hp : ks.Perm (List.range n)) :
    (writeJsonZ c rep size limit cf own (ks.map fun k => (k, v k))).1 = .fatal ↔
      (limit < (c.stream (jsonExpected v n)).length ∨ (own && cf) = true) := by
  rw [gz_json_exact c hm rep size limit cf own v n ks hp]
  exact exact_fatal_iff

theorem gz_raw_prefix_safe (c : Codec) (hm : Mono c) (rep : Nat → Bool) (size limit : Nat) (cf own : Bool)
    (v : Nat → Bytes) (n : Nat) (ks : List Nat) (hp : ks.Perm (List.range n)) :
    (writeRawZ c rep size limit cf own (ks.map fun k => (k, v k))).2 <+: c.stream (rawExpected v n) ∧
    (writeRawZ c rep size limit cf own (ks.map fun k => (k, v k))).2.length ≤ limit := by
  rw [gz_raw_exact c hm rep size limit cf own v n ks hp]
  exact ⟨List.take_prefix _ _, by simp only [List.length_take]; omega⟩

theorem gz_json_prefix_safe (c : Codec) (hm : Mono c) (rep : Nat → Bool) (size limit : Nat) (cf own : Bool)
    (v : Nat → Bytes) (n : Nat) (ks : List Nat) (hp : ks.Perm (List.range n)) :
    (writeJsonZ c rep size limit cf own (ks.map fun k => (k, v k))).2 <+: c.stream (jsonExpected v n) ∧
    (writeJsonZ c rep size limit cf own (ks.map fun k => (k, v k))).2.length ≤ limit := by
  rw [gz_json_exact c hm rep size limit cf own v n ks hp]
  exact ⟨List.take_prefix _ _, by simp only [List.length_take]; omega⟩

/-- the executable model may use any compressor with the measured stream length -/
theorem lenCodec_mono (zlen : Nat) : Mono (lenCodec zlen) := fun _ _ => List.prefix_refl _

theorem gz_len_only (c : Codec) (hm : Mono c) (rep rep' : Nat → Bool) (size limit : Nat) (cf own : Bool)
    (v : Nat → Bytes) (n : Nat) (ks : List Nat) (hp : ks.Perm (List.range n)) :
    (writeRawZ c rep size limit cf own (ks.map fun k => (k, v k))).1 =
      (writeRawZ (lenCodec (c.stream (rawExpected v n)).length) rep' size limit cf own (ks.map fun k => (k, v k))).1 ∧
    (writeRawZ c rep size limit cf own (ks.map fun k => (k, v k))).2.length =
      (writeRawZ (lenCodec (c.stream (rawExpected v n)).length) rep' size limit cf own (ks.map fun k => (k, v k))).2.length := by
  rw [gz_raw_exact c hm rep size limit cf own v n ks hp,
    gz_raw_exact _ (lenCodec_mono _) rep' size limit cf own v n ks hp]
  simp [Codec.stream, lenCodec]

/-! ## any underlying writer -/

/-- the arrival order is irrelevant over any device: the writer behaves as on the in-order history -/
theorem dev_raw_order_free (size : Nat) (beh : Nat → Nat → Nat → Nat × Bool) (cf own : Bool)
    (v : Nat → Bytes) (n : Nat) (ks : List Nat) (hp : ks.Perm (List.range n)) :
    writeRawDev size beh cf own (ks.map fun k => (k, v k)) =
      closeDev own (((List.range n).map v).foldl (emitRawG Dev.write) ⟨size, [], false, ⟨beh, 0, [], cf⟩⟩) := by
  unfold writeRawDev
  rw [(run_perm (emitRawG Dev.write) _ v n ks hp).1]

theorem dev_raw_safe (size : Nat) (beh : Nat → Nat → Nat → Nat × Bool) (cf own : Bool)
    (v : Nat → Bytes) (n : Nat) (ks : List Nat) (hp : ks.Perm (List.range n)) :
    (writeRawDev size beh cf own (ks.map fun k => (k, v k))).2 <+: rawExpected v n ∧
    ((writeRawDev size beh cf own (ks.map fun k => (k, v k))).1 = .ok →
      (writeRawDev size beh cf own (ks.map fun k => (k, v k))).2 = rawExpected v n ∧ (own = true → cf = false)) := by
  unfold writeRawDev
  rw [(run_perm (emitRawG Dev.write) _ v n ks hp).1]
  have L := devLaw_any ⟨beh, 0, [], cf⟩
  have h := gfoldl_raw_inv L ((List.range n).map v) _ _ (ginv_dev_init size beh cf _)
  simp only [List.nil_append] at h
  exact closeDev_safe L own h

theorem dev_json_safe (size : Nat) (beh : Nat → Nat → Nat → Nat × Bool) (cf own : Bool)
    (v : Nat → Bytes) (n : Nat) (ks : List Nat) (hp : ks.Perm (List.range n)) :
    (writeJsonDev size beh cf own (ks.map fun k => (k, v k))).2 <+: jsonExpected v n ∧
    ((writeJsonDev size beh cf own (ks.map fun k => (k, v k))).1 = .ok →
      (writeJsonDev size beh cf own (ks.map fun k => (k, v k))).2 = jsonExpected v n ∧ (own = true → cf = false)) := by
  unfold writeJsonDev
  simp only
  rw [(run_perm (emitJsonG Dev.write) _ v n ks hp).1]
  have L := devLaw_any ⟨beh, 0, [], cf⟩
  have h0 := gwrite_inv L (ginv_dev_init size beh cf _) openJson
  have hsim := (gfoldl_emitJson_sim L ((List.range n).map v)
    ⟨(⟨size, [], false, ⟨beh, 0, [], cf⟩⟩ : GW Dev).write Dev.write openJson, false⟩
    ⟨ObiVerif.Writer.openJson, false⟩ rfl h0).2
  have h := gwrite_inv L hsim closeJson
  rw [(ObiVerif.Props.C04.foldl_emitJson _ _).1] at h
  simp only [Bool.false_eq_true, if_false] at h
  exact closeDev_safe L own h

/-- no false alarm over any device that accepts everything it is given -/
theorem dev_raw_good_ok (size : Nat) (beh : Nat → Nat → Nat → Nat × Bool) (hb : ∀ c h l, beh c h l = (l, false))
    (cf own : Bool) (v : Nat → Bytes) (n : Nat) (ks : List Nat) (hp : ks.Perm (List.range n)) :
    writeRawDev size beh cf own (ks.map fun k => (k, v k)) =
      (if own && cf then .fatal else .ok, rawExpected v n) := by
  unfold writeRawDev
  rw [(run_perm (emitRawG Dev.write) _ v n ks hp).1]
  have L := devLaw_good beh hb cf
  have h := gfoldl_raw_inv L ((List.range n).map v) _ _ (ginv_dev_init size beh cf _)
  simp only [List.nil_append] at h
  exact closeDev_good L own h

theorem dev_json_good_ok (size : Nat) (beh : Nat → Nat → Nat → Nat × Bool) (hb : ∀ c h l, beh c h l = (l, false))
    (cf own : Bool) (v : Nat → Bytes) (n : Nat) (ks : List Nat) (hp : ks.Perm (List.range n)) :
    writeJsonDev size beh cf own (ks.map fun k => (k, v k)) =
      (if own && cf then .fatal else .ok, jsonExpected v n) := by
  unfold writeJsonDev
  simp only
  rw [(run_perm (emitJsonG Dev.write) _ v n ks hp).1]
  have L := devLaw_good beh hb cf
  have h0 := gwrite_inv L (ginv_dev_init size beh cf _) openJson
  have hsim := (gfoldl_emitJson_sim L ((List.range n).map v)
    ⟨(⟨size, [], false, ⟨beh, 0, [], cf⟩⟩ : GW Dev).write Dev.write openJson, false⟩
    ⟨ObiVerif.Writer.openJson, false⟩ rfl h0).2
  have h := gwrite_inv L hsim closeJson
  rw [(ObiVerif.Props.C04.foldl_emitJson _ _).1] at h
  simp only [Bool.false_eq_true, if_false] at h
  exact closeDev_good L own h

/-! ## non-vacuity -/

/-- a toy compressor: header `[31,139]`, every complete pair of input bytes is emitted as its first byte,
`Close` emits the odd last byte (if any) and a trailer with the input length -/
def exCodec : Codec :=
  ⟨fun h => [31, 139] ++ (List.range (h.length / 2)).map (fun i => h.getD (2 * i) 0),
   fun h => (if h.length % 2 = 1 then [h.getD (h.length - 1) 0] else []) ++ [h.length.toUInt8]⟩

theorem exCodec_mono : Mono exCodec := by
  intro h p
  unfold exCodec
  simp only
  refine (List.prefix_append_right_inj _).mpr ?_
  have hle : h.length / 2 ≤ (h ++ p).length / 2 := by
    rw [List.length_append]; exact Nat.div_le_div_right (Nat.le_add_right _ _)
  obtain ⟨d, hd⟩ := Nat.exists_eq_add_of_le hle
  rw [hd, List.range_add, List.map_append]
  have : (List.range (h.length / 2)).map (fun i => (h ++ p).getD (2 * i) 0)
      = (List.range (h.length / 2)).map (fun i => h.getD (2 * i) 0) := by
    apply List.map_congr_left
    intro i hi
    have hi' : 2 * i < h.length := by
      have := List.mem_range.mp hi
      omega
    simp [List.getD, List.getElem?_append_left hi']
  rw [this]
  exact List.prefix_append _ _

/-- stream of `exV` chunks 0,1,2 = `ABC`, ``, `CBC` (6 bytes): header 2 + 3 pairs + trailer 1 = 6 bytes -/
example : exCodec.stream (rawExpected exV 3) = [31, 139, 65, 67, 66, 6] := by decide

/-- fault inside the blocks (limit 4 of 6), error never visible to `Write` (`rep = false`): still fatal at `Close` -/
example : writeRawZ exCodec (fun _ => false) 4 4 false true ([1, 0, 2].map fun k => (k, exV k))
    = (.fatal, [31, 139, 65, 67]) := by
  rw [gz_raw_exact exCodec exCodec_mono _ 4 4 false true exV 3 [1, 0, 2] (by decide)]
  decide

/-- fault in the trailer only (limit 5 of 6) -/
example : (writeRawZ exCodec (fun _ => true) 4 5 false false ([1, 0, 2].map fun k => (k, exV k))).1 = .fatal :=
  (gz_raw_fatal_iff exCodec exCodec_mono _ 4 5 false false exV 3 [1, 0, 2] (by decide)).mpr (Or.inl (by decide))

/-- everything fits: ok, the sink holds the complete stream; a failing `Close` of a not-owned output is not met -/
example : writeRawZ exCodec (fun i => i % 2 = 0) 4 6 true false ([1, 0, 2].map fun k => (k, exV k))
    = (.ok, [31, 139, 65, 67, 66, 6]) := by
  rw [gz_raw_exact exCodec exCodec_mono _ 4 6 true false exV 3 [1, 0, 2] (by decide)]
  decide

/-- a device that accepts at most 2 bytes per call and never reports an error (short writes): with a 4 byte
buffer the flush of a full buffer is short, `io.ErrShortWrite` is fatal; sample run -/
example : writeRawDev 4 (fun _ _ l => (min l 2, false)) false true ([1, 0, 2].map fun k => (k, exV k))
    = (.fatal, [65, 66]) := by
  rw [dev_raw_order_free 4 _ false true exV 3 [1, 0, 2] (by decide)]
  decide

/-- the same device under a buffer of 0 bytes (every write is direct): short writes are retried, all bytes arrive -/
example : writeRawDev 0 (fun _ _ l => (min l 2, false)) false true ([1, 0, 2].map fun k => (k, exV k))
    = (.ok, [65, 66, 67, 67, 66, 67]) := by
  rw [dev_raw_order_free 0 _ false true exV 3 [1, 0, 2] (by decide)]
  decide

/-- a temporary error (only the first call fails, nothing accepted): fatal for good, the device holds a prefix -/
example : writeRawDev 2 (fun c _ l => if c = 0 then (0, true) else (l, false)) false true
    ([1, 0, 2].map fun k => (k, exV k)) = (.fatal, []) := by
  rw [dev_raw_order_free 2 _ false true exV 3 [1, 0, 2] (by decide)]
  decide

example : (writeRawDev 4 (fun _ _ l => (min l 2, false)) false true ([1, 0, 2].map fun k => (k, exV k))).2
    <+: rawExpected exV 3 :=
  (dev_raw_safe 4 _ false true exV 3 [1, 0, 2] (by decide)).1

example : writeRawDev 4 (fun _ _ l => (l, false)) true false ([1, 0, 2].map fun k => (k, exV k))
    = (.ok, [65, 66, 67, 67, 66, 67]) := by
  rw [dev_raw_good_ok 4 _ (fun _ _ _ => rfl) true false exV 3 [1, 0, 2] (by decide)]
  decide

/-- not owned: a failing `Close` is not met, a result that does not fit is still fatal -/
example : writeRawO 4 6 true false ([1, 0, 2].map fun k => (k, exV k)) = (.ok, [65, 66, 67, 67, 66, 67]) := by
  rw [rawO_exact 4 6 true false exV 3 [1, 0, 2] (by decide)]
  decide

example : (writeJsonO 4 12 true false ([1, 0, 2].map fun k => (k, exV k))).1 = .fatal :=
  (jsonO_notowned_fatal_iff 4 12 true exV 3 [1, 0, 2] (by decide)).mpr (by decide)

/-! ## the two transcriptions of `bufio.Writer` agree -/

/-- `BW` (over the sink, `Model/WriteErr.lean`) is the generic `GW` (used over pgzip and over scripted devices)
instantiated on the sink: `Write` and `Flush` commute with the embedding, for every state and every `p` -/
theorem bufio_write_refines (b : BW) (p : Bytes) : (b.write p).toG = b.toG.write sinkW p := write_toG b p

theorem bufio_flush_refines (b : BW) : b.flush.toG = b.toG.flush sinkW := flush_toG b

end ObiVerif.Props.C18
