import ObiVerif.Model.KmerSim
import ObiVerif.Lemmas.KmerSim
set_option Elab.async false
/-!
# C19, glue pass — the commands obikmersimcount / obikmermatch (property theorems)

The kernel theorems of `Props/C19.lean` (`canon_exact`, `canon_strand_invariant`, `query_any_exact`,
`query_limited_exact`) are composed with the model of the glue (`Model/KmerSim.lean`: option variables, word type and
k-mer size as the commands derive them, choice of the reads, `Query` + `FilterMinCount` + `Len`, the annotations) into
statements at the level of the user of the command.  The model is the code **as repaired** by
`notes/patches/C19-kmersim-kmer-too-large`.

Specification vocabulary (`Lemmas/KmerSim.lean`, over `canonSpec` of `Lemmas/KmerWin.lean`: no machine word):
`canonOf k sparse s` = the canonical k-mers of the raw sequence `s` (windows of `k` plain bases, the smaller of the window
and its reverse complement, central base erased in sparse mode); `occSpec` = occurrences of a k-mer in all references;
`limOf maxOcc` = the occurrence limit (`-1`: none); `sharedSpec k sparse lim refs q j` = number of canonical k-mer
occurrences the read `q` shares with reference `j`, the k-mers occurring `lim` times or more in the references being ignored;
`isCandidate … j` = `j` is not the read itself ∧ `0 < shared` ∧ `min ≤ shared + 1`; `matchNumber` = the number of
candidates among the references.
-/
namespace ObiVerif.Props.C19Glue
open ObiVerif.Kmer ObiVerif.KmerSim

/-! ## the word type and the effective k-mer size, over the real derivation -/

/-- `newKmerMap` in general (any width, any requested size, no domain hypothesis): the width is the type argument and the
size is `effK` (odd in sparse mode, even in dense mode) -/
theorem newKmerMap_fields (W k0 : Nat) (sparse : Bool) (m : KmerMap) (h : newKmerMap W k0 sparse = .ok m) :
    m.W = W ∧ m.kmersize = effK k0 sparse := by
  cases sparse with
  | false =>
    simp [newKmerMap, bind, Except.bind, pure, Except.pure] at h
    split at h <;> (rw [← h]; simp_all [effK])
  | true =>
    simp only [newKmerMap, bind, Except.bind, pure, Except.pure] at h
    repeat' split at h
    all_goals first
      | (cases h; done)
      | (cases h; simp_all [effK])
      | (cases h; simp_all [effK]; omega)

/-- **The word always holds the k-mer the index really uses** — for EVERY command line (any `--kmer-size`, sparse or
not): when the command gets past the construction of the index, the index works on 128-bit words
(`NewKmerMap[obifp.Uint128]`), its k-mer size is the one `NewKmerMap` derived from the requested size (`effK`, not the
requested size), and `2 × that size ≤ 128`.  (Seeded C19-m6 chose the width from the REQUESTED size; the unrepaired
code did not check anything: `--kmer-size 64 --sparse` worked on 65 bases.) -/
theorem cli_word_holds_kmer (o : Opts) (m : KmerMap) (h : cliKmerMap o = .ok m) :
    m.W = wordWidth ∧ m.kmersize = effK o.kmerSize o.sparse ∧ 2 * m.kmersize ≤ m.W ∧
      newKmerMap wordWidth o.kmerSize o.sparse = .ok m := by
  unfold cliKmerMap at h
  split at h
  · cases h
  · rename_i m' hm
    split at h
    · cases h
    · rename_i hle
      cases h
      obtain ⟨hW, hk⟩ := newKmerMap_fields _ _ _ _ hm
      exact ⟨hW, hk, by rw [hW]; omega, hm⟩

/-- every requested size of the property's range, `2 ≤ k ≤ 64` sparse or not, except `64 --sparse` (65 bases), is
accepted, and then the parameters are valid (`Valid`: masks, sparse position) -/
theorem cli_accepts (o : Opts) (h1 : 1 ≤ effK o.kmerSize o.sparse) (h2 : 2 * effK o.kmerSize o.sparse ≤ 128) :
    ∃ m, cliKmerMap o = .ok m ∧ Valid m o.sparse ∧ m.kmersize = effK o.kmerSize o.sparse ∧ m.W = 128 := by
  obtain ⟨m, hm, hv, hk, hW⟩ := newKmerMap_valid 128 o.kmerSize o.sparse h1 h2
  refine ⟨m, ?_, hv, hk, hW⟩
  unfold cliKmerMap wordWidth
  rw [hm]
  have : ¬ (2 * m.kmersize > 128) := by rw [hk]; omega
  simp [this]

theorem cli_requested_range (k0 : Nat) (sparse : Bool) (hk : 2 ≤ k0) (h64 : k0 ≤ 64) (hne : ¬ (k0 = 64 ∧ sparse = true)) :
    1 ≤ effK k0 sparse ∧ 2 * effK k0 sparse ≤ 128 := by
  cases sparse
  · simp only [effK, Bool.false_eq_true, if_false]; split <;> omega
  · have h : k0 ≠ 64 := fun e => hne ⟨e, rfl⟩
    simp only [effK, if_true]; split <;> omega

/-- `--kmer-size 64 --sparse` (65 bases = 130 bits) and `--kmer-size 66` are refused (evaluation of the model) -/
example : (cliKmerMap { kmerSize := 64, sparse := true }).isFatal = true ∧
    (cliKmerMap { kmerSize := 66 }).isFatal = true ∧ (cliKmerMap { kmerSize := 64 }).isFatal = false ∧
    (cliKmerMap { kmerSize := 65 }).isFatal = false ∧ (cliKmerMap { kmerSize := 32, sparse := true }).isFatal = false := by
  decide

/-! ## obikmersimcount -/

/-- **obikmersimcount, exactly.**  For every command line whose effective k-mer size fits (`1 ≤ effK`, `2·effK ≤ 128`:
every `--kmer-size 2..64` but `64 --sparse`), `--max-kmers` absent / `-1` or `≥ 0`, any `--min-shared-kmers`, `--self` or
not, any references and reads, any address order of the records (`rank`, injective on the references): the command writes
ONE record per read, in order (the references themselves with `--self`), and on each
`obikmer_match_count` = the number of references, other than the read itself, that share with it at least one canonical
k-mer occurrence and at least `min - 1` of them (`FilterMinCount` compares `min` with `shared + 1`, the value reported by
`Query`), k-mers of the EFFECTIVE size on the raw strings; `obikmer_kmer_size` = the effective size; `obikmer_sparse_kmer` =
the mode. -/
theorem cli_kmersim_exact (o : Opts) (h1 : 1 ≤ effK o.kmerSize o.sparse) (h2 : 2 * effK o.kmerSize o.sparse ≤ 128)
    (hM : o.maxOcc = -1 ∨ 0 ≤ o.maxOcc) (rank : Nat → Nat) (refs reads : List Bytes)
    (hinj : ∀ a b, a < refs.length → b < refs.length → rank a = rank b → a = b) :
    cliLookForSharedKmers o rank refs reads = .ok ((queries o refs reads).map fun q =>
      ⟨matchNumber (effK o.kmerSize o.sparse) o.sparse (limOf o.maxOcc) o.minShared refs q.1 q.2,
       effK o.kmerSize o.sparse, o.sparse⟩) := by
  obtain ⟨m, hm, hv, hk, _⟩ := cli_accepts o h1 h2
  unfold cliLookForSharedKmers
  rw [hm]
  dsimp only
  congr 1
  apply List.map_congr_left
  intro q _
  unfold countWorker
  rw [(candidates_spec m o.sparse hv o.maxOcc hM refs q.2 rank q.1 hinj o.minShared).1, hk]
  congr 1
  have hs := valid_sparseAt _ _ _ _ (cli_word_holds_kmer o m hm).2.2.2
  cases hsp : o.sparse with
  | false =>
    have := hv.dense hsp
    simp [this]
  | true =>
    have := (hv.sp hsp).2.1
    rcases hs with hs | hs
    · exact absurd hs this
    · simpa using hs

/-- the reads of the command: with `--self` the references themselves, each under its own identity (so that it is not
its own match); otherwise every read of the input, none dropped, in order, under an identity that is no reference -/
theorem cli_reads (o : Opts) (refs reads : List Bytes) :
    (queries o refs reads).length = (if o.self then refs.length else reads.length) ∧
    ∀ i, i < (queries o refs reads).length →
      (queries o refs reads).getD i (0, []) =
        if o.self then (i, refs.getD i []) else (refs.length + i, reads.getD i []) := by
  unfold queries
  cases o.self with
  | true =>
    simp only [if_true, List.length_zip, List.length_range, Nat.min_self, true_and]
    intro i hi
    simp [List.getD, List.getElem?_zip_eq_some, hi]
  | false =>
    simp only [Bool.false_eq_true, if_false, List.length_map, List.length_range, true_and]
    intro i hi
    simp [List.getD, hi]

/-- **Strand invariance at the level of the command**: every read replaced by its reverse complement gets the same
records (same count, same annotations), in the domain of `cli_kmersim_exact`. -/
theorem cli_kmersim_strand_invariant (o : Opts) (hs : o.self = false) (h1 : 1 ≤ effK o.kmerSize o.sparse)
    (h2 : 2 * effK o.kmerSize o.sparse ≤ 128) (hM : o.maxOcc = -1 ∨ 0 ≤ o.maxOcc) (rank : Nat → Nat)
    (refs reads : List Bytes) (hinj : ∀ a b, a < refs.length → b < refs.length → rank a = rank b → a = b) :
    cliLookForSharedKmers o rank refs (reads.map rcSeq) = cliLookForSharedKmers o rank refs reads := by
  rw [cli_kmersim_exact o h1 h2 hM rank refs _ hinj, cli_kmersim_exact o h1 h2 hM rank refs _ hinj]
  congr 1
  unfold queries
  simp only [hs, Bool.false_eq_true, if_false, List.map_map, List.length_map]
  apply List.map_congr_left
  intro i hi
  have hi' : i < reads.length := List.mem_range.mp hi
  simp only [Function.comp]
  congr 1
  unfold matchNumber
  congr 1
  apply List.filter_congr
  intro j _
  have hrc : ∀ lim, sharedSpec (effK o.kmerSize o.sparse) o.sparse lim refs ((reads.map rcSeq).getD i []) j =
      sharedSpec (effK o.kmerSize o.sparse) o.sparse lim refs (reads.getD i []) j := by
    intro lim
    have e : (reads.map rcSeq).getD i [] = rcSeq (reads.getD i []) := by simp [List.getD, hi']
    rw [e]
    unfold sharedSpec canonOf
    rw [map_plain_rcSeq, canonSpec_rc _ _ h1 _ (by
      intro c hc
      obtain ⟨b, _, hb⟩ := List.mem_map.mp hc
      exact plain_lt b c hb)]
    exact ((List.reverse_perm _).map _).sum_nat
  unfold isCandidate
  rw [hrc]

/-! ## obikmermatch -/

/-- **obikmermatch: the candidates handed to the aligner.**  Same domain: for every read the candidate references are
exactly those counted by obikmersimcount (`isCandidate`), each once, and `obikmer_match_count` (their number, written on
every record of the read) is `matchNumber`. -/
theorem cli_kmermatch_candidates (o : Opts) (h1 : 1 ≤ effK o.kmerSize o.sparse) (h2 : 2 * effK o.kmerSize o.sparse ≤ 128)
    (hM : o.maxOcc = -1 ∨ 0 ≤ o.maxOcc) (rank : Nat → Nat) (refs reads : List Bytes)
    (hinj : ∀ a b, a < refs.length → b < refs.length → rank a = rank b → a = b) :
    ∃ cands, cliAlignCandidates o rank refs reads = .ok cands ∧ cands.length = (queries o refs reads).length ∧
      ∀ i, i < cands.length →
        let q := (queries o refs reads).getD i (0, [])
        (cands.getD i []).Nodup ∧
        (cands.getD i []).length = matchNumber (effK o.kmerSize o.sparse) o.sparse (limOf o.maxOcc) o.minShared refs q.1 q.2 ∧
        ∀ j, j ∈ cands.getD i [] ↔ j < refs.length ∧
          isCandidate (effK o.kmerSize o.sparse) o.sparse (limOf o.maxOcc) o.minShared refs q.1 q.2 j = true := by
  obtain ⟨m, hm, hv, hk, _⟩ := cli_accepts o h1 h2
  unfold cliAlignCandidates
  rw [hm]
  refine ⟨_, rfl, by simp, ?_⟩
  intro i hi
  simp only [List.length_map] at hi
  have e : ((queries o refs reads).map fun q =>
      (candidates m (newIndex m o.maxOcc refs) rank o.minShared q.1 q.2).map Prod.fst).getD i [] =
      (candidates m (newIndex m o.maxOcc refs) rank o.minShared ((queries o refs reads).getD i (0, [])).1
        ((queries o refs reads).getD i (0, [])).2).map Prod.fst := by
    simp [List.getD, hi]
  dsimp only
  rw [e]
  have hc := candidates_spec m o.sparse hv o.maxOcc hM refs ((queries o refs reads).getD i (0, [])).2 rank
    ((queries o refs reads).getD i (0, [])).1 hinj o.minShared
  rw [hk] at hc
  refine ⟨?_, by rw [List.length_map]; exact hc.1, hc.2⟩
  unfold candidates filterMinCount
  exact (kmQuery_nodup _ _ _ _ _).sublist ((List.filter_sublist).map Prod.fst)

/-! ## non-vacuity (sample inputs, evaluation of the model) -/

/-- references "acgtacgt", "acgtgg", "ttttcc"; reads "acgt" (its own reverse complement), "ggaaaa" (reverse complement
of "ttttcc"), "cccc"; `--kmer-size 5` (dense: effective size 4): counts 2, 1, 0; with `--min-shared-kmers 3` only
reference 0 (2 shared occurrences + 1) is kept for "acgt", with 4 none; `--self`: references 0 and 1 match each other -/
example :
    cliLookForSharedKmers { kmerSize := 5 } id [[97, 99, 103, 116, 97, 99, 103, 116], [97, 99, 103, 116, 103, 103], [116, 116, 116, 116, 99, 99]]
        [[97, 99, 103, 116], [103, 103, 97, 97, 97, 97], [99, 99, 99, 99]] = .ok [⟨2, 4, false⟩, ⟨1, 4, false⟩, ⟨0, 4, false⟩] ∧
    cliLookForSharedKmers { kmerSize := 4, minShared := 3 } id [[97, 99, 103, 116, 97, 99, 103, 116], [97, 99, 103, 116, 103, 103], [116, 116, 116, 116, 99, 99]]
        [[97, 99, 103, 116]] = .ok [⟨1, 4, false⟩] ∧
    cliLookForSharedKmers { kmerSize := 4, minShared := 4 } id [[97, 99, 103, 116, 97, 99, 103, 116], [97, 99, 103, 116, 103, 103], [116, 116, 116, 116, 99, 99]]
        [[97, 99, 103, 116]] = .ok [⟨0, 4, false⟩] ∧
    cliLookForSharedKmers { kmerSize := 4, self := true } id [[97, 99, 103, 116, 97, 99, 103, 116], [97, 99, 103, 116, 103, 103], [116, 116, 116, 116, 99, 99]] []
        = .ok [⟨1, 4, false⟩, ⟨1, 4, false⟩, ⟨0, 4, false⟩] := by
  refine ⟨?_, ?_, ?_, ?_⟩ <;>
  · rw [cli_kmersim_exact _ (by decide) (by decide) (Or.inl rfl) id _ _ (fun a b _ _ h => h)]
    exact congrArg Out.ok (by decide)

/-- sparse: `--kmer-size 4 --sparse` works on 5 bases with the central one ignored: "acgtc" and "acatc" share their only
sparse k-mer; the dense size 4 does not match them -/
example :
    cliLookForSharedKmers { kmerSize := 4, sparse := true } id [[97, 99, 103, 116, 99]] [[97, 99, 97, 116, 99], [103, 97, 116, 103, 116]]
      = .ok [⟨1, 5, true⟩, ⟨1, 5, true⟩] ∧
    cliLookForSharedKmers { kmerSize := 4 } id [[97, 99, 103, 116, 99]] [[97, 99, 97, 116, 99]] = .ok [⟨0, 4, false⟩] := by
  refine ⟨?_, ?_⟩ <;>
  · rw [cli_kmersim_exact _ (by decide) (by decide) (Or.inl rfl) id _ _ (fun a b _ _ h => h)]
    exact congrArg Out.ok (by decide)

end ObiVerif.Props.C19Glue
