import ObiVerif.Lemmas.PoolSteps
import ObiVerif.Props.C03
import ObiVerif.Lemmas.LoopSteps
/-!
# C03 — "always terminates" for `Pool`, the combinator with several loop goroutines (property theorems, third part)

`Props/C03.lean` §13: source → N workers → SortBatches → consumer.  `Props/C03S.lean`: every combinator that is
ONE loop goroutine (Rebatch, FilterEmpty, DivideOn, Distribute, CopyTee, Concat, the zip loop of PairTo, …).
Here: `Pool` (`Model/PoolSteps.lean`): `N ≥ 0` goroutines, each reading its own input and pushing on the one
output under a number drawn from a shared counter, the `WaitAndClose` closer, the consumer; channel capacity
`cap ≥ 0` (`cap = 0` = the code).  For every `N`, every `cap`, all inputs (empty ones included), all schedulings.
-/
namespace ObiVerif.Props.C03P
open ObiVerif.PoolSteps ObiVerif.Iter

/-- **Pool stage.**
(i) safety, in every reachable state: the batches numbered so far (`pool taken`, i.e. numbers 0,1,2,… in the
order of numbering) are each at exactly one place — delivered, in the channel, or in the hand of the goroutine
pushing it; every input batch is either numbered or still upstream; the counter is the number of batches numbered;
(ii) a state in which the consumer has not seen the end of the stream has an enabled step (no deadlock, any
`cap`), every step decreases `rank`, an execution has at most `3·(number of input batches) + N + 1` steps, and
some execution ends;
(iii) every ended execution has delivered a permutation of `Iter.pool taken` where `taken` is a permutation of
all the input batches: the numbers delivered are exactly 0..n-1 (each once, `n` = number of input batches, no gap,
no duplicate), and the records delivered are exactly the records of all inputs (each once). -/
theorem pool_stage_correct (N cap : Nat) (ins : Nat → List Batch) :
    (∀ s, Reach N cap (init ins) s →
      (s.delivered ++ s.cout ++ catTo (fun x : G => x.hand.toList) N s.g).Perm (pool s.taken) ∧
      (s.taken ++ catTo G.todo N s.g).Perm (catTo id N ins) ∧ s.counter = s.taken.length) ∧
    (∀ s, ¬ Final s → ∃ s', Step N cap s s') ∧
    (∀ s s', Step N cap s s' → rank N s' < rank N s) ∧
    (∀ s m, Run N cap (init ins) s m → m ≤ 3 * (catTo id N ins).length + N + 1) ∧
    (∃ s m, Run N cap (init ins) s m ∧ Final s) ∧
    ∀ s m, Run N cap (init ins) s m → Final s →
      s.delivered.Perm (pool s.taken) ∧ s.taken.Perm (catTo id N ins) ∧
      (s.delivered.map (·.1)).Perm (List.range (catTo id N ins).length) ∧
      (flatten s.delivered).Perm (flatten (catTo id N ins)) := by
  refine ⟨fun s hr => ?_, fun s hnf => progress N cap s hnf, fun _ _ st => step_rank st, ?_, ?_, ?_⟩
  · have h := reach_inv hr
    exact ⟨h.places, h.inputs, h.count⟩
  · intro s m r
    have := run_bounded r
    rw [rank_init] at this; omega
  · exact exists_final_run N cap _ _ (Nat.le_refl _)
  · intro s m r hf
    have h := reach_inv (run_reach Reach.init r)
    obtain ⟨p1, p2, _⟩ := final_result h hf
    refine ⟨p1, p2, ?_, ?_⟩
    · have k := (ObiVerif.Iter.pool_keys_flat s.taken).1
      have := p1.map (·.1)
      rw [k, pool_length, p2.length_eq] at this
      exact this
    · have k := (ObiVerif.Iter.pool_keys_flat s.taken).2
      have a := p1.flatMap_right (·.2)
      have b := p2.flatMap_right (·.2)
      show (s.delivered.flatMap (·.2)).Perm ((catTo id N ins).flatMap (·.2))
      unfold flatten at k
      rw [k] at a
      exact a.trans b

/-- the executable round-robin run used by the driver is an execution of the transition system (every step
the scheduler takes is a `Step`): the invariants hold of what it computes -/
theorem poolRun_is_execution (cap : Nat) (ins : List (List Batch)) :
    Reach ins.length cap (init fun i => ins.getD i []) (poolRun cap ins) :=
  poolRun_reach cap ins

/-- non-vacuity (test on a sample): three inputs, one empty, unbuffered channel — the round-robin execution
ends, interleaves the inputs and numbers 0..3 -/
example : let s := poolRun 0 [[(5, [1]), (2, [2, 3])], [], [(0, [7]), (1, [])]]
    s.closed = true ∧ s.cout = [] ∧ s.delivered = [(0, [1]), (1, [7]), (2, []), (3, [2, 3])] := by
  decide

/-- **An output nobody consumes blocks the whole stage** (any single-loop combinator with several outputs:
`DivideOn`, `CopyTee`, `Distribute` with a class output the client does not drain; unbuffered channels as in
the code): once the loop is in a `Push` on the unconsumed output, no reachable state is final — the consumers
of ALL the other outputs wait for ever.  (`Props/C03S.divide_absent_consumer_blocks` is the concrete instance
for `DivideOn`; the harness shows the same outcome `hang` on the real code: cases `divideabs`.)  Hence the
hypothesis "every output is consumed" of the stage theorems is necessary; every caller in /repo satisfies it
(obigrep --save-discarded, obimultiplex / obitagpcr --unidentified start a writer on the second output of
`DivideOn`; the clients of `Distribute` — ISequenceChunk, WriterDispatcher — start a consumer for every key
received on the news channel). -/
theorem absent_consumer_blocks_every_output {σ : Type} {S : ObiVerif.LoopSteps.Sys σ} (hcap : S.cap = 0)
    (hn : 0 < S.nout) {j : Nat} (hab : S.absent j = true) {s : ObiVerif.LoopSteps.St σ}
    (h : ObiVerif.LoopSteps.BlockedOn S j s) :
    ∀ s', ObiVerif.LoopSteps.Reach S s s' → ¬ ObiVerif.LoopSteps.Final S s' := by
  intro s' hr hf
  have := (ObiVerif.LoopSteps.absent_blocks hcap hab h s' hr).2 0 hn
  rw [(hf 0 hn).1] at this
  cases this

end ObiVerif.Props.C03P
